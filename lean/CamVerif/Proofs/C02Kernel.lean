/-
C02, kernel-only path (no `bv_decide`, hence no native axiom): `mask()` returns the field
mask, the mask's bits are exactly the positions `l..m`, and whenever `masked_value`
succeeds the bits outside `mask()` are unchanged.  Mirrors the `bv_decide` lemmas of
`Proofs/C02.lean` for the headline isolation statement so that it does not rest on the
native axiom alone.
-/
import CamVerif.Model.BitMask
import CamVerif.Proofs.C02
namespace CamVerif.Proofs.C02K
open CamVerif CamVerif.Reg CamVerif.BitMask CamVerif.Proofs.C02 CamVerif.Spec.Codec

theorem bind_eq_ok {α β : Type} (x : R α) (f : α → R β) (b : β) (h : (x >>= f) = .ok b) :
    ∃ a, x = .ok a ∧ f a = .ok b := by
  cases x with
  | ok a => exact ⟨a, rfl, h⟩
  | err e => cases h
  | panic => cases h

theorem and_not_merge (old x M : BitVec 64) :
    ((old &&& ~~~M) ||| (x &&& M)) &&& ~~~M = old &&& ~~~M := by
  apply BitVec.eq_of_getLsbD_eq
  intro i hi
  simp only [BitVec.getLsbD_and, BitVec.getLsbD_or, BitVec.getLsbD_not, hi, decide_true, Bool.true_and]
  cases old.getLsbD i <;> cases M.getLsbD i <;> cases x.getLsbD i <;> rfl

/-- whenever `masked_value` succeeds — any description, well formed or not, any profile —
the bits outside what `mask()` returns are those of the old word -/
theorem maskedValue_isolated (p : Profile) (bm : BitMask) (old v L : BitVec 64) (e : Endianness)
    (s : Sign) (new : I64) (h : bm.maskedValue p old v L e s = .ok new) :
    ∃ mask, bm.mask p L e = .ok mask ∧ new &&& ~~~mask = old &&& ~~~mask := by
  unfold BitMask.maskedValue at h
  obtain ⟨mx, _, h⟩ := bind_eq_ok _ _ _ h
  dsimp only at h
  have fin : ∀ bad : Bool, (if bad = true then (Res.err Err.invalidData : R I64)
      else do
        let mask ← BitMask.mask p bm L e
        let lsb ← BitMask.lsb p bm L e
        let shifted ← shlW p v lsb
        pure (old &&& ~~~mask ||| shifted &&& mask)) = .ok new →
      ∃ mask, bm.mask p L e = .ok mask ∧ new &&& ~~~mask = old &&& ~~~mask := by
    intro bad h
    cases bad
    · simp only [Bool.false_eq_true, if_false] at h
      obtain ⟨mask, hmask, h⟩ := bind_eq_ok _ _ _ h
      obtain ⟨lsb, _, h⟩ := bind_eq_ok _ _ _ h
      obtain ⟨sh, _, h⟩ := bind_eq_ok _ _ _ h
      injection h with h
      exact ⟨mask, hmask, by rw [← h]; exact and_not_merge old sh mask⟩
    · simp at h
  split at h
  · exact fin true h
  · obtain ⟨mn, _, h⟩ := bind_eq_ok _ _ _ h
    exact fin _ h

/-! ### `mask()` is the field mask, kernel-only -/

theorem one_shl_toNat' (k : BitVec 64) : (1#64 <<< k).toNat = 2 ^ k.toNat % 2 ^ 64 := by
  rw [BitVec.shiftLeft_eq', BitVec.toNat_shiftLeft, Nat.shiftLeft_eq]
  simp

theorem one_shl_toNat'' (k : BitVec 64) : ((1 : BitVec 64) <<< k).toNat = 2 ^ k.toNat % 2 ^ 64 :=
  one_shl_toNat' k

/-- `(1 <<< k) - 1` has exactly the `k` low bits set (`k ≤ 64`) -/
theorem ones_getLsbD (k : BitVec 64) (hk : k.toNat ≤ 64) (j : Nat) (_hj : j < 64) :
    ((1#64 <<< k) - 1).getLsbD j = decide (j < k.toNat) := by
  have htn : ((1#64 <<< k) - 1).toNat = 2 ^ k.toNat - 1 := by
    rw [BitVec.toNat_sub, one_shl_toNat']
    have h1 : 1 ≤ 2 ^ k.toNat := Nat.one_le_two_pow
    by_cases h64 : k.toNat = 64
    · rw [h64]; decide
    · have hlt : 2 ^ k.toNat < 2 ^ 64 := Nat.pow_lt_pow_right (by omega) (by omega)
      rw [Nat.mod_eq_of_lt hlt]
      simp only [show (1 : BitVec 64).toNat = 1 from rfl]
      generalize 2 ^ k.toNat = P at *
      simp only [Nat.reducePow] at *
      omega
  show ((1#64 <<< k) - 1).toNat.testBit j = _
  rw [htn, Nat.testBit_two_pow_sub_one]

/-- bits of the field mask: exactly the positions `l..m` -/
theorem fieldMask_getLsbD (l m : BitVec 64) (h1 : l.toNat ≤ m.toNat) (h2 : m.toNat < 64) (i : Nat)
    (hi : i < 64) :
    (fieldMask l m).getLsbD i = decide (l.toNat ≤ i ∧ i ≤ m.toNat) := by
  have hl := l.isLt; have hm := m.isLt
  have hd : (m - l).toNat = m.toNat - l.toNat := by rw [BitVec.toNat_sub]; omega
  have hk : (m - l + 1).toNat = m.toNat - l.toNat + 1 := by
    rw [BitVec.toNat_add, hd]; simp only [show (1 : BitVec 64).toNat = 1 from rfl]; omega
  unfold fieldMask
  rw [BitVec.shiftLeft_eq', BitVec.getLsbD_shiftLeft]
  by_cases hil : i < l.toNat
  · simp [hil, hi]; omega
  · rw [ones_getLsbD _ (by omega) _ (by omega), hk]
    simp only [hi, hil, decide_true, decide_false, Bool.not_false, Bool.true_and]
    rw [Bool.eq_iff_iff]
    simp only [decide_eq_true_eq]
    omega

theorem maskCore_eq_kernel (p : Profile) (l m : BitVec 64) (h1 : l.toNat ≤ m.toNat)
    (h2 : m.toNat < 64) : maskCore p l m = .ok (fieldMask l m) := by
  have hl := l.isLt; have hm := m.isLt
  have hle : l ≤ m := by rw [BitVec.le_def]; exact h1
  have hd : (m - l).toNat = m.toNat - l.toNat := by rw [BitVec.toNat_sub]; omega
  simp only [maskCore, subU_ok p m l hle, Res.bind_ok]
  by_cases h63 : m - l = 63
  · -- full width: `l = 0`, `m = 63`
    have hdn : (m - l).toNat = 63 := by rw [h63]; rfl
    have hl0 : l = 0#64 := by apply BitVec.eq_of_toNat_eq; simp only [BitVec.toNat_ofNat]; omega
    have hm63 : m = 63#64 := by apply BitVec.eq_of_toNat_eq; simp only [BitVec.toNat_ofNat]; omega
    subst hl0; subst hm63
    rfl
  · have hdn : (m - l).toNat ≠ 63 := by
      intro h; apply h63; apply BitVec.eq_of_toNat_eq; rw [h]; rfl
    have hk : (m - l + 1).toNat = m.toNat - l.toNat + 1 := by
      rw [BitVec.toNat_add, hd]; simp only [show (1 : BitVec 64).toNat = 1 from rfl]; omega
    simp only [h63, if_false]
    rw [addU_ok p _ _ (by rw [BitVec.le_def, hk, hd]; omega)]
    simp only [Res.bind_ok]
    rw [shlW_ok p _ _ (by rw [BitVec.lt_def, hk]; show _ < 64; omega)]
    simp only [Res.bind_ok]
    rw [subU_ok p _ _ (by
      rw [BitVec.le_def, one_shl_toNat'', hk]
      have hlt : 2 ^ (m.toNat - l.toNat + 1) < 2 ^ 64 := Nat.pow_lt_pow_right (by omega) (by omega)
      rw [Nat.mod_eq_of_lt hlt]
      exact Nat.one_le_two_pow)]
    simp only [Res.bind_ok]
    rw [shlW_ok p _ _ (by rw [BitVec.lt_def]; show l.toNat < 64; omega)]
    rfl

/-! ### normalisation, kernel-only -/

theorem normalise_lit_kernel (p : Profile) (k bits : BitVec 64) (hmul : (k <<< 3) >>> 3 = k)
    (hbits : k <<< 3 = bits) (e : Endianness) (raw : BitVec 64) (hr : raw < bits) :
    normalise p raw k e = .ok (match e with | .le => raw | .be => bits - 1 - raw) := by
  unfold normalise
  rw [mul8U_lit p _ hmul, hbits]
  simp only [Res.bind_ok]
  cases e
  · rfl
  · simp only []
    rw [subU_ok p _ _ (by bv_omega)]
    simp only [Res.bind_ok]
    rw [subU_ok p _ _ (by bv_omega)]
    congr 1
    bv_omega

theorem normalise_eq_kernel (p : Profile) (n : Nat) (hn : IntLen n) (e : Endianness)
    (raw : BitVec 64) (hr : raw.toNat < 8 * n) :
    normalise p raw (lenUsize (n : Int)) e = .ok (normB n e raw) := by
  have hlt : n < 2 ^ 63 := by rcases hn with rfl | rfl | rfl | rfl <;> decide
  rw [lenUsize_nat n hlt]
  rcases hn with rfl | rfl | rfl | rfl
  · rw [normalise_lit_kernel p 1#64 8#64 (by decide) (by decide) e raw (by rw [BitVec.lt_def]; simpa using hr)]
    cases e <;> rfl
  · rw [normalise_lit_kernel p 2#64 16#64 (by decide) (by decide) e raw (by rw [BitVec.lt_def]; simpa using hr)]
    cases e <;> rfl
  · rw [normalise_lit_kernel p 4#64 32#64 (by decide) (by decide) e raw (by rw [BitVec.lt_def]; simpa using hr)]
    cases e <;> rfl
  · rw [normalise_lit_kernel p 8#64 64#64 (by decide) (by decide) e raw (by rw [BitVec.lt_def]; simpa using hr)]
    cases e <;> rfl

/-- `mask()` under `WF`, kernel-only -/
theorem mask_eq_kernel (p : Profile) (n : Nat) (e : Endianness) (bm : BitMask) (wf : WF n e bm) :
    bm.mask p (lenUsize (n : Int)) e = .ok (fieldMask (normB n e bm.rawLsb) (normB n e bm.rawMsb)) := by
  have hle := wf.2.2.2
  rw [BitVec.le_def] at hle
  have hm : (normB n e bm.rawMsb).toNat < 64 := by
    have := normB_lt_64 n wf.1 e bm.rawMsb wf.2.2.1
    rw [BitVec.lt_def] at this; exact this
  simp only [BitMask.mask, BitMask.lsb, BitMask.msb, normalise_eq_kernel p n wf.1 e _ wf.2.1,
    normalise_eq_kernel p n wf.1 e _ wf.2.2.1, Res.bind_ok, maskCore_eq_kernel p _ _ hle hm]

/-! ### the proofs-local `specExtract` is `Spec.Codec.fieldU` / `fieldS` (kernel-only) -/

/-- bits of the unsigned extraction -/
theorem specExtract_unsigned_getLsbD (l m w : BitVec 64) (h1 : l.toNat ≤ m.toNat) (h2 : m.toNat < 64)
    (i : Nat) (hi : i < 64) :
    (specExtract .unsigned l m w).getLsbD i =
      (decide (i < m.toNat - l.toNat + 1) && w.getLsbD (l.toNat + i)) := by
  simp only [specExtract]
  rw [BitVec.ushiftRight_eq', BitVec.getLsbD_ushiftRight, BitVec.getLsbD_and]
  by_cases hb : l.toNat + i < 64
  · rw [fieldMask_getLsbD l m h1 h2 _ hb, Bool.and_comm]
    congr 1
    rw [Bool.eq_iff_iff]
    simp only [decide_eq_true_eq]
    omega
  · have h1' : w.getLsbD (l.toNat + i) = false := BitVec.getLsbD_of_ge _ _ (by omega)
    simp [h1']

/-- **the unsigned field is `Spec.Codec.fieldU`**: `(word / 2^l) mod 2^(m-l+1)` -/
theorem specExtract_unsigned_toNat (l m w : BitVec 64) (h1 : l.toNat ≤ m.toNat) (h2 : m.toNat < 64) :
    (specExtract .unsigned l m w).toNat = fieldU l.toNat m.toNat w.toNat := by
  apply Nat.eq_of_testBit_eq
  intro i
  unfold fieldU fieldWidth
  rw [Nat.testBit_mod_two_pow, Nat.testBit_div_two_pow]
  by_cases hi : i < 64
  · have := specExtract_unsigned_getLsbD l m w h1 h2 i hi
    simp only [BitVec.getLsbD] at this
    rw [this, Nat.add_comm i l.toNat]
  · have hx : (specExtract .unsigned l m w).toNat.testBit i = false :=
      Nat.testBit_lt_two_pow (Nat.lt_of_lt_of_le (specExtract .unsigned l m w).isLt
        (Nat.pow_le_pow_right (by omega) (by omega)))
    have hw : w.toNat.testBit (i + l.toNat) = false :=
      Nat.testBit_lt_two_pow (Nat.lt_of_lt_of_le w.isLt (Nat.pow_le_pow_right (by omega) (by omega)))
    rw [hx, hw]; simp

/-- the signed extraction is "take the `wd` field bits, sign-extend to 64" -/
theorem specExtract_signed_eq (l m w : BitVec 64) (h1 : l.toNat ≤ m.toNat) (h2 : m.toNat < 64) :
    specExtract .signed l m w =
      ((w >>> l.toNat).setWidth (m.toNat - l.toNat + 1)).signExtend 64 := by
  have hk : ((63 : BitVec 64) - m).toNat = 63 - m.toNat := by
    rw [BitVec.toNat_sub_of_le (by rw [BitVec.le_def]; show m.toNat ≤ 63; omega)]; rfl
  have hs : ((63 : BitVec 64) - m + l).toNat = 63 - m.toNat + l.toNat := by
    rw [BitVec.toNat_add, hk]; have := l.isLt; omega
  apply BitVec.eq_of_getLsbD_eq
  intro i hi
  simp only [specExtract]
  rw [BitVec.sshiftRight_eq', hs, BitVec.getLsbD_sshiftRight, BitVec.getLsbD_signExtend,
    BitVec.msb_eq_getLsbD_last, BitVec.msb_eq_getLsbD_last]
  simp only [BitVec.shiftLeft_eq', hk, BitVec.getLsbD_shiftLeft, BitVec.getLsbD_setWidth,
    BitVec.getLsbD_ushiftRight, hi, decide_true, Bool.true_and, Nat.add_sub_cancel]
  have hnot : ¬ (64 ≤ i) := by omega
  simp only [hnot, decide_false, Bool.not_false, Bool.true_and]
  by_cases hlt : i < m.toNat - l.toNat + 1
  · have h1' : 63 - m.toNat + l.toNat + i < 64 := by omega
    have h2' : ¬ (63 - m.toNat + l.toNat + i < 63 - m.toNat) := by omega
    simp only [h1', hlt, if_true, h2', decide_false, Bool.not_false, Bool.true_and, decide_true]
    congr 1; omega
  · have h1' : ¬ (63 - m.toNat + l.toNat + i < 64) := by omega
    have h3 : ¬ (64 - 1 < 63 - m.toNat) := by omega
    have h4 : m.toNat - l.toNat < m.toNat - l.toNat + 1 := by omega
    simp only [h1', hlt, if_false, h3, decide_false, Bool.not_false, Bool.true_and, h4, decide_true,
      show (64 - 1 < 64) from by omega]
    congr 1; omega

/-- **the signed field is `Spec.Codec.fieldS`**: two's-complement reading of `fieldU` -/
theorem specExtract_signed_toInt (l m w : BitVec 64) (h1 : l.toNat ≤ m.toNat) (h2 : m.toNat < 64) :
    (specExtract .signed l m w).toInt = fieldS l.toNat m.toNat w.toNat := by
  rw [specExtract_signed_eq l m w h1 h2, BitVec.toInt_signExtend_of_le (by omega),
    BitVec.toInt_eq_toNat_cond]
  have hn : ((w >>> l.toNat).setWidth (m.toNat - l.toNat + 1)).toNat = fieldU l.toNat m.toNat w.toNat := by
    simp [fieldU, fieldWidth, BitVec.toNat_setWidth, BitVec.toNat_ushiftRight, Nat.shiftRight_eq_div_pow]
  rw [hn]
  unfold fieldS fieldWidth
  split <;> simp [Int.natCast_pow]

/-- **`specExtract` is the independent codec's field reading** -/
theorem specExtract_toInt (s : Sign) (l m w : BitVec 64) (h1 : l.toNat ≤ m.toNat) (h2 : m.toNat < 64) :
    (specExtract s l m w).toInt = fieldReading s l.toNat m.toNat w.toNat := by
  cases s
  · exact specExtract_signed_toInt l m w h1 h2
  · simp only [fieldReading, asI64, ← specExtract_unsigned_toNat l m w h1 h2]
    rw [BitVec.toInt_eq_toNat_cond]
    split <;> simp

end CamVerif.Proofs.C02K
