/-
C01 — lemmas about the model of `String::from_utf8_lossy` (`Model/RegUtf8.lean`).
-/
import CamVerif.Model.RegUtf8
namespace CamVerif.Proofs.C01Utf8
open CamVerif CamVerif.Reg

theorem utf8LossyAux_ascii (bs : Bytes) : ∀ fuel, bs.length ≤ fuel → (∀ b ∈ bs, b < 0x80) →
    utf8LossyAux fuel bs = bs := by
  induction bs with
  | nil => intro fuel _ _; cases fuel <;> rfl
  | cons b rest ih =>
    intro fuel hf ha
    cases fuel with
    | zero => simp at hf
    | succ fuel =>
      have hb : b < 0x80 := ha b (List.mem_cons_self)
      have hr := ih fuel (by simp at hf; omega) (fun x hx => ha x (List.mem_cons_of_mem _ hx))
      unfold utf8LossyAux
      rw [if_pos hb, hr]

/-- ASCII is returned unchanged -/
theorem utf8Lossy_ascii (bs : Bytes) (h : ∀ b ∈ bs, b < 0x80) : utf8Lossy bs = bs :=
  utf8LossyAux_ascii bs _ (Nat.le_refl _) h

theorem replacement_length : replacement.length = 3 := rfl

/-- the decoded string is at most three times as long as the input (each input byte yields
itself or, at worst, one three-byte U+FFFD) -/
theorem utf8LossyAux_length_le : ∀ fuel (bs : Bytes),
    (utf8LossyAux fuel bs).length ≤ 3 * bs.length := by
  intro fuel
  induction fuel with
  | zero => intro bs; simp [utf8LossyAux]
  | succ fuel ih =>
    intro bs
    match bs with
    | [] => simp [utf8LossyAux]
    | b :: rest =>
      unfold utf8LossyAux
      split
      · have := ih rest; simp only [List.length_cons]; omega
      split
      · match rest with
        | [] => simp [replacement]
        | c :: r1 =>
          dsimp only
          split
          · have := ih r1; simp only [List.length_cons]; omega
          · have := ih (c :: r1)
            simp only [List.length_append, replacement_length, List.length_cons] at this ⊢; omega
      split
      · match rest with
        | [] => simp [replacement]
        | c :: r1 =>
          dsimp only
          split
          · match r1 with
            | [] => simp [replacement]
            | d :: r2 =>
              dsimp only
              split
              · have := ih r2; simp only [List.length_cons]; omega
              · have := ih (d :: r2)
                simp only [List.length_append, replacement_length, List.length_cons] at this ⊢; omega
          · have := ih (c :: r1)
            simp only [List.length_append, replacement_length, List.length_cons] at this ⊢; omega
      split
      · match rest with
        | [] => simp [replacement]
        | c :: r1 =>
          dsimp only
          split
          · match r1 with
            | [] => simp [replacement]
            | d :: r2 =>
              dsimp only
              split
              · match r2 with
                | [] => simp [replacement]
                | e :: r3 =>
                  dsimp only
                  split
                  · have := ih r3; simp only [List.length_cons]; omega
                  · have := ih (e :: r3)
                    simp only [List.length_append, replacement_length, List.length_cons] at this ⊢; omega
              · have := ih (d :: r2)
                simp only [List.length_append, replacement_length, List.length_cons] at this ⊢; omega
          · have := ih (c :: r1)
            simp only [List.length_append, replacement_length, List.length_cons] at this ⊢; omega
      · have := ih rest
        simp only [List.length_append, replacement_length, List.length_cons] at this ⊢; omega

theorem utf8Lossy_length_le (bs : Bytes) : (utf8Lossy bs).length ≤ 3 * bs.length :=
  utf8LossyAux_length_le _ bs

/-- closes one leaf of the case analysis below -/
local macro "leaf" : tactic =>
  `(tactic| (intro hx; simp only [List.mem_cons, List.mem_append] at hx ⊢; grind))

/-- nothing is invented: every byte of the decoded string is a byte of the input or one of
the three bytes of U+FFFD -/
theorem utf8LossyAux_mem : ∀ fuel (bs : Bytes) (x : UInt8),
    x ∈ utf8LossyAux fuel bs → x ∈ bs ∨ x ∈ replacement := by
  intro fuel
  induction fuel with
  | zero => intro bs x; simp [utf8LossyAux]
  | succ fuel ih =>
    intro bs x
    match bs with
    | [] => simp [utf8LossyAux]
    | b :: rest =>
      unfold utf8LossyAux
      split
      · leaf
      split
      · match rest with
        | [] => intro hx; exact Or.inr hx
        | c :: r1 =>
          dsimp only
          split
          · leaf
          · leaf
      split
      · match rest with
        | [] => intro hx; exact Or.inr hx
        | c :: r1 =>
          dsimp only
          split
          · match r1 with
            | [] => intro hx; exact Or.inr hx
            | d :: r2 =>
              dsimp only
              split
              · leaf
              · leaf
          · leaf
      split
      · match rest with
        | [] => intro hx; exact Or.inr hx
        | c :: r1 =>
          dsimp only
          split
          · match r1 with
            | [] => intro hx; exact Or.inr hx
            | d :: r2 =>
              dsimp only
              split
              · match r2 with
                | [] => intro hx; exact Or.inr hx
                | e :: r3 =>
                  dsimp only
                  split
                  · leaf
                  · leaf
              · leaf
          · leaf
      · leaf

theorem utf8Lossy_mem (bs : Bytes) (x : UInt8) (h : x ∈ utf8Lossy bs) : x ∈ bs ∨ x ∈ replacement :=
  utf8LossyAux_mem _ bs x h

/-- a NUL-free input decodes to a NUL-free string -/
theorem utf8Lossy_nul_free (bs : Bytes) (h : ∀ b ∈ bs, b ≠ 0) : ∀ x ∈ utf8Lossy bs, x ≠ 0 := by
  intro x hx
  rcases utf8Lossy_mem bs x hx with h1 | h1
  · exact h x h1
  · simp only [replacement, List.mem_cons, List.not_mem_nil, or_false] at h1
    rcases h1 with rfl | rfl | rfl <;> decide

/-! ## well-formedness (Unicode, Table 3-7 "Well-Formed UTF-8 Byte Sequences") -/

/-- well-formed UTF-8: a concatenation of sequences of Table 3-7.  The second-byte rows of the
table are `second3` / `second4` (E0: A0..BF, E1..EC: 80..BF, ED: 80..9F, EE..EF: 80..BF;
F0: 90..BF, F1..F3: 80..BF, F4: 80..8F). -/
inductive WellFormed : Bytes → Prop
  | nil : WellFormed []
  | one (b : UInt8) (t : Bytes) (h : b < 0x80) : WellFormed t → WellFormed (b :: t)
  | two (b c : UInt8) (t : Bytes) (hb : (0xC2 ≤ b && b ≤ 0xDF) = true) (hc : isCont c = true) :
      WellFormed t → WellFormed (b :: c :: t)
  | three (b c d : UInt8) (t : Bytes) (hb : (0xE0 ≤ b && b ≤ 0xEF) = true)
      (hc : second3 b c = true) (hd : isCont d = true) :
      WellFormed t → WellFormed (b :: c :: d :: t)
  | four (b c d e : UInt8) (t : Bytes) (hb : (0xF0 ≤ b && b ≤ 0xF4) = true)
      (hc : second4 b c = true) (hd : isCont d = true) (he : isCont e = true) :
      WellFormed t → WellFormed (b :: c :: d :: e :: t)

theorem wellFormed_replacement_append (t : Bytes) (h : WellFormed t) :
    WellFormed (replacement ++ t) :=
  WellFormed.three 0xEF 0xBF 0xBD t (by decide) (by decide) (by decide) h

theorem wellFormed_replacement : WellFormed replacement :=
  wellFormed_replacement_append [] .nil

/-- the decoded string is well-formed UTF-8, whatever the input -/
theorem utf8LossyAux_wellFormed : ∀ fuel (bs : Bytes), WellFormed (utf8LossyAux fuel bs) := by
  intro fuel
  induction fuel with
  | zero => intro bs; unfold utf8LossyAux; exact .nil
  | succ fuel ih =>
    intro bs
    match bs with
    | [] => unfold utf8LossyAux; exact .nil
    | b :: rest =>
      unfold utf8LossyAux
      split
      · exact .one b _ (by assumption) (ih rest)
      split
      · match rest with
        | [] => exact wellFormed_replacement
        | c :: r1 =>
          dsimp only
          split
          · exact .two b c _ (by assumption) (by assumption) (ih r1)
          · exact wellFormed_replacement_append _ (ih _)
      split
      · match rest with
        | [] => exact wellFormed_replacement
        | c :: r1 =>
          dsimp only
          split
          · match r1 with
            | [] => exact wellFormed_replacement
            | d :: r2 =>
              dsimp only
              split
              · exact .three b c d _ (by assumption) (by assumption) (by assumption) (ih r2)
              · exact wellFormed_replacement_append _ (ih _)
          · exact wellFormed_replacement_append _ (ih _)
      split
      · match rest with
        | [] => exact wellFormed_replacement
        | c :: r1 =>
          dsimp only
          split
          · match r1 with
            | [] => exact wellFormed_replacement
            | d :: r2 =>
              dsimp only
              split
              · match r2 with
                | [] => exact wellFormed_replacement
                | e :: r3 =>
                  dsimp only
                  split
                  · exact .four b c d e _ (by assumption) (by assumption) (by assumption)
                      (by assumption) (ih r3)
                  · exact wellFormed_replacement_append _ (ih _)
              · exact wellFormed_replacement_append _ (ih _)
          · exact wellFormed_replacement_append _ (ih _)
      · exact wellFormed_replacement_append _ (ih _)

theorem utf8Lossy_wellFormed (bs : Bytes) : WellFormed (utf8Lossy bs) :=
  utf8LossyAux_wellFormed _ bs

theorem two_facts (b : UInt8) (h : (0xC2 ≤ b && b ≤ 0xDF) = true) : ¬ b < 0x80 := by
  simp only [Bool.and_eq_true, decide_eq_true_eq, UInt8.le_iff_toNat_le, UInt8.lt_iff_toNat_lt] at *
  simp at *
  omega

theorem three_facts (b : UInt8) (h : (0xE0 ≤ b && b ≤ 0xEF) = true) :
    ¬ b < 0x80 ∧ ¬ ((0xC2 ≤ b && b ≤ 0xDF) = true) := by
  simp only [Bool.and_eq_true, decide_eq_true_eq, UInt8.le_iff_toNat_le, UInt8.lt_iff_toNat_lt] at *
  simp at *
  omega

theorem four_facts (b : UInt8) (h : (0xF0 ≤ b && b ≤ 0xF4) = true) :
    ¬ b < 0x80 ∧ ¬ ((0xC2 ≤ b && b ≤ 0xDF) = true) ∧ ¬ ((0xE0 ≤ b && b ≤ 0xEF) = true) := by
  simp only [Bool.and_eq_true, decide_eq_true_eq, UInt8.le_iff_toNat_le, UInt8.lt_iff_toNat_lt] at *
  simp at *
  omega

/-- well-formed UTF-8 is returned unchanged -/
theorem utf8LossyAux_of_wellFormed (bs : Bytes) (h : WellFormed bs) :
    ∀ fuel, bs.length ≤ fuel → utf8LossyAux fuel bs = bs := by
  induction h with
  | nil => intro fuel _; cases fuel <;> rfl
  | one b t hb _ ih =>
    intro fuel hf
    cases fuel with
    | zero => simp at hf
    | succ fuel =>
      unfold utf8LossyAux
      rw [if_pos hb, ih fuel (by simp at hf; omega)]
  | two b c t hb hc _ ih =>
    intro fuel hf
    cases fuel with
    | zero => simp at hf
    | succ fuel =>
      unfold utf8LossyAux
      rw [if_neg (two_facts b hb), if_pos hb]
      dsimp only
      rw [if_pos hc, ih fuel (by simp at hf; omega)]
  | three b c d t hb hc hd _ ih =>
    intro fuel hf
    cases fuel with
    | zero => simp at hf
    | succ fuel =>
      unfold utf8LossyAux
      rw [if_neg (three_facts b hb).1, if_neg (three_facts b hb).2, if_pos hb]
      dsimp only
      rw [if_pos hc]
      rw [if_pos hd, ih fuel (by simp at hf; omega)]
  | four b c d e t hb hc hd he _ ih =>
    intro fuel hf
    cases fuel with
    | zero => simp at hf
    | succ fuel =>
      unfold utf8LossyAux
      rw [if_neg (four_facts b hb).1, if_neg (four_facts b hb).2.1, if_neg (four_facts b hb).2.2,
        if_pos hb]
      dsimp only
      rw [if_pos hc]
      rw [if_pos hd]
      rw [if_pos he, ih fuel (by simp at hf; omega)]

theorem utf8Lossy_of_wellFormed (bs : Bytes) (h : WellFormed bs) : utf8Lossy bs = bs :=
  utf8LossyAux_of_wellFormed bs h _ (Nat.le_refl _)

/-- ASCII is well-formed -/
theorem wellFormed_ascii (bs : Bytes) (h : ∀ b ∈ bs, b < 0x80) : WellFormed bs := by
  induction bs with
  | nil => exact .nil
  | cons b t ih =>
    exact .one b t (h b List.mem_cons_self) (ih (fun x hx => h x (List.mem_cons_of_mem _ hx)))

end CamVerif.Proofs.C01Utf8
