/-
C13 (growth round 2) — the structural accessors (`Abrm::new`, `Sbrm::new`, `Abrm::sbrm`,
`Abrm::manifest_table`, `Sbrm::sirm`, `ManifestTable::entries`) over an ARBITRARY device
(`ADev` of `Proofs/C13More.lean`), the proof that on the model's logging memory device they
are the functions of `Model/RegMap.lean`, and their characterisation on any device.

No tactic-library imports: the driver links this file (`accg` requests run these
functions on a scripted stateful device that the harness implements as a second
`DeviceControl`).
-/
import CamVerif.Proofs.C13More
namespace CamVerif.RegMap
open CamVerif

/-! ### Definitions (mirror `abrmNew` … `tableEntries` with `Dev.read` replaced by `A.read`) -/

/-- free fn `read_register(device, addr, len)` with a numeric `T` of `width` bytes: the
zero-initialised `len`-byte buffer after the device's read, parsed -/
def readNumG {σ ε : Type} (A : ADev σ ε) (st : σ) (addr len width : Nat) : Res (GErr ε) Nat × σ :=
  match A.read st addr len with
  | (.ok bs, st') => (liftR (parseNum width (fill len bs)), st')
  | (.error e, st') => (.err (.dev e), st')

def mapGN {ε : Type} (f : Nat → Val) : Res (GErr ε) Nat → Res (GErr ε) Val
  | .ok v => .ok (f v)
  | .err e => .err e
  | .panic => .panic

/-- `Abrm::new` -/
def abrmNewG {σ ε : Type} (A : ADev σ ε) (L : Layout) (st : σ) : Res (GErr ε) Val × σ :=
  match readNumG A st L.devCap.1 L.devCap.2 L.devCapWidth with
  | (r, st') => (mapGN .abrm r, st')

/-- `Sbrm::new(device, sbrm_addr)` -/
def sbrmNewG {σ ε : Type} (A : ADev σ ε) (L : Layout) (base : Nat) (st : σ) : Res (GErr ε) Val × σ :=
  match registerAddress base L.u3vCap.1 with
  | .ok addr =>
    match readNumG A st addr L.u3vCap.2 L.u3vCapWidth with
    | (r, st') => (mapGN (.sbrm base) r, st')
  | .err e => (liftR (.err e), st)
  | .panic => (.panic, st)

/-- `Abrm::sbrm` -/
def abrmSbrmG {σ ε : Type} (A : ADev σ ε) (L : Layout) (cap : Nat) (st : σ) : Res (GErr ε) Val × σ :=
  match L.sbrmAddress.runG A 0 cap .none st with
  | (.ok (.nat a), st') => sbrmNewG A L a st'
  | (.ok _, st') => (.panic, st')
  | (.err e, st') => (.err e, st')
  | (.panic, st') => (.panic, st')

/-- `Abrm::manifest_table` -/
def abrmManifestTableG {σ ε : Type} (A : ADev σ ε) (L : Layout) (cap : Nat) (st : σ) :
    Res (GErr ε) Val × σ :=
  match L.manifestTableAddress.runG A 0 cap .none st with
  | (.ok (.nat a), st') => (.ok (.table a), st')
  | (.ok _, st') => (.panic, st')
  | (.err e, st') => (.err e, st')
  | (.panic, st') => (.panic, st')

/-- `Sbrm::sirm` -/
def sbrmSirmG {σ ε : Type} (A : ADev σ ε) (L : Layout) (base cap : Nat) (st : σ) :
    Res (GErr ε) Val × σ :=
  match L.sirmAddress.runG A base cap .none st with
  | (.ok .none, st') => (.ok .none, st')
  | (.ok (.some (.nat a)), st') => (.ok (.some (.sirm a)), st')
  | (.ok _, st') => (.panic, st')
  | (.err e, st') => (.err e, st')
  | (.panic, st') => (.panic, st')

/-- `ManifestTable::entries` -/
def tableEntriesG {σ ε : Type} (A : ADev σ ε) (base : Nat) (st : σ) : Res (GErr ε) Val × σ :=
  match registerAddress base 0 with
  | .ok addr =>
    match readNumG A st addr 8 8 with
    | (.ok n, st') =>
      if base + 8 + n * 64 > 2 ^ 64 then (.err .invalidDevice, st')
      else (.ok (.entries n (base + 8)), st')
    | (.err e, st') => (.err e, st')
    | (.panic, st') => (.panic, st')
  | .err e => (liftR (.err e), st)
  | .panic => (.panic, st)

/-- every accessor by name over an arbitrary device (mirror of `runNamed`) -/
def runNamedG {σ ε : Type} (A : ADev σ ε) (name : String) (base cap : Nat) (arg : Arg) (st : σ) :
    Option (Res (GErr ε) Val × σ) :=
  match rowOf name with
  | some rr => if argOk rr.dec rr.kind arg then some (rr.runG A base cap arg st) else none
  | none =>
    if Gen.RegMap.handModelled.any (·.1 == name) && arg == .none then
      layout.bind fun L =>
        if name == "Abrm.new" then some (abrmNewG A L st)
        else if name == "Abrm.sbrm" then some (abrmSbrmG A L cap st)
        else if name == "Abrm.manifest_table" then some (abrmManifestTableG A L cap st)
        else if name == "Abrm.device_capability" then some (.ok (.dcap cap), st)
        else if name == "Sbrm.new" then some (sbrmNewG A L base st)
        else if name == "Sbrm.sirm" then some (sbrmSirmG A L base cap st)
        else if name == "Sbrm.u3v_capability" then some (.ok (.ucap cap), st)
        else if name == "Sirm.new" then some (.ok (.sirm base), st)
        else if name == "ManifestTable.new" then some (.ok (.table base), st)
        else if name == "ManifestTable.entries" then some (tableEntriesG A base st)
        else if name == "ManifestEntry.new" then some (.ok (.entry base), st)
        else none
    else none

/-! ### On the model's own device these ARE the model's structural accessors -/

theorem toG_ok (v : Val) : toG (.ok v) = .ok v := rfl

theorem readNumG_concrete (d : Dev) (addr len width : Nat) :
    readNumG concreteDev d addr len width =
      match d.read addr len with
      | (.ok bs, d') => (liftR (parseNum width bs), d')
      | (_, d') => (.err (.dev ()), d') := by
  unfold readNumG
  by_cases hr : d.rejects addr len = true
  · simp [concreteDev, Dev.read, hr]
  · simp [concreteDev, Dev.read, hr, fill_exact]

theorem liftR_parseNum_map (f : Nat → Val) (w : Nat) (bs : Bytes) :
    mapGN f (liftR (parseNum w bs) : Res (GErr Unit) Nat) = toG ((parseNum w bs).map f) := by
  rcases parseNum_cases w bs with ⟨v, h⟩ | h <;> simp [h, liftR, mapGN, R.map, toG]

theorem abrmNewG_concrete (L : Layout) (d : Dev) :
    abrmNewG concreteDev L d = (toG (abrmNew L d).1, (abrmNew L d).2) := by
  unfold abrmNewG abrmNew
  rw [readNumG_concrete]
  by_cases hr : d.rejects L.devCap.1 L.devCap.2 = true
  · simp [Dev.read, hr, mapGN, toG]
  · simp [Dev.read, hr, liftR_parseNum_map]

theorem sbrmNewG_concrete (L : Layout) (base : Nat) (d : Dev) :
    sbrmNewG concreteDev L base d = (toG (sbrmNew L base d).1, (sbrmNew L base d).2) := by
  unfold sbrmNewG sbrmNew
  by_cases h : base + L.u3vCap.1 < 2 ^ 64
  · simp only [registerAddress, h, if_true]
    rw [readNumG_concrete]
    by_cases hr : d.rejects (base + L.u3vCap.1) L.u3vCap.2 = true
    · simp [Dev.read, hr, mapGN, toG]
    · simp [Dev.read, hr, liftR_parseNum_map]
  · simp [registerAddress, h, liftR, toG]

theorem abrmSbrmG_concrete (L : Layout) (cap : Nat) (d : Dev) :
    abrmSbrmG concreteDev L cap d = (toG (abrmSbrm L cap d).1, (abrmSbrm L cap d).2) := by
  unfold abrmSbrmG abrmSbrm
  rw [runG_concrete]
  generalize L.sbrmAddress.run 0 cap .none d = out
  obtain ⟨r, d'⟩ := out
  cases r with
  | ok v => cases v <;> simp [toG, sbrmNewG_concrete]
  | err e => cases e <;> simp [toG]
  | panic => simp [toG]

theorem abrmManifestTableG_concrete (L : Layout) (cap : Nat) (d : Dev) :
    abrmManifestTableG concreteDev L cap d =
      (toG (abrmManifestTable L cap d).1, (abrmManifestTable L cap d).2) := by
  unfold abrmManifestTableG abrmManifestTable
  rw [runG_concrete]
  generalize L.manifestTableAddress.run 0 cap .none d = out
  obtain ⟨r, d'⟩ := out
  cases r with
  | ok v => cases v <;> simp [toG]
  | err e => cases e <;> simp [toG]
  | panic => simp [toG]

theorem sbrmSirmG_concrete (L : Layout) (base cap : Nat) (d : Dev) :
    sbrmSirmG concreteDev L base cap d = (toG (sbrmSirm L base cap d).1, (sbrmSirm L base cap d).2) := by
  unfold sbrmSirmG sbrmSirm
  rw [runG_concrete]
  generalize L.sirmAddress.run base cap .none d = out
  obtain ⟨r, d'⟩ := out
  cases r with
  | ok v =>
    cases v with
    | some w => cases w <;> simp [toG]
    | _ => simp [toG]
  | err e => cases e <;> simp [toG]
  | panic => simp [toG]

theorem tableEntriesG_concrete (base : Nat) (d : Dev) :
    tableEntriesG concreteDev base d = (toG (tableEntries base d).1, (tableEntries base d).2) := by
  unfold tableEntriesG tableEntries
  by_cases h : base < 2 ^ 64
  · have e1 : (registerAddress base 0 : R Nat) = .ok base := by simp [registerAddress, h]
    simp only [e1]
    rw [readNumG_concrete]
    by_cases hr : d.rejects base 8 = true
    · simp [Dev.read, hr, toG]
    · have hl := readBytes_length d.mem base 8
      have hp := parseNum_ok 8 _ hl
      by_cases h4 : base + 8 + fromLE (readBytes d.mem base 8) * 64 > 2 ^ 64 <;>
        simp [Dev.read, hr, hp, liftR, h4, toG]
  · have e1 : (registerAddress base 0 : R Nat) = .err .invalidDevice := by simp [registerAddress, h]
    simp [e1, liftR, toG]

/-- **the generic accessors specialise to the model**, for every accessor name -/
theorem runNamedG_concrete (name : String) (base cap : Nat) (arg : Arg) (d : Dev) :
    runNamedG concreteDev name base cap arg d =
      (runNamed name base cap arg d).map fun out => (toG out.1, out.2) := by
  unfold runNamedG runNamed
  cases rowOf name with
  | some rr =>
    by_cases ha : argOk rr.dec rr.kind arg = true
    · simp [ha, runG_concrete]
    · simp [ha]
  | none =>
    by_cases hh : (Gen.RegMap.handModelled.any (·.1 == name) && arg == .none) = true
    · simp only [hh, if_true]
      cases layout with
      | none => rfl
      | some L =>
        simp only [Option.bind_some]
        simp only [abrmNewG_concrete, abrmSbrmG_concrete, abrmManifestTableG_concrete,
          sbrmNewG_concrete, sbrmSirmG_concrete, tableEntriesG_concrete, apply_ite (Option.map _),
          Option.map_some, Option.map_none, toG_ok]
    · simp [hh]

/-! ### Characterisation on an arbitrary device -/

/-- the standards' constants (the same value as `L0` of `Props/C13.lean`) -/
def LS : Layout :=
  { devCap := (0x01C4, 8), devCapWidth := 8, u3vCap := (0x0004, 8), u3vCapWidth := 8,
    sbrmAddress := ⟨"Abrm.sbrm_address", .abrm, .get, 0x01D8, 8, .u64, none⟩,
    manifestTableAddress := ⟨"Abrm.manifest_table_address", .abrm, .get, 0x01D0, 8, .u64, none⟩,
    sirmAddress := ⟨"Sbrm.sirm_address", .sbrm, .get, 0x0020, 8, .u64, some 0⟩ }

theorem layout_LS : layout = some LS := by decide

/-- one u64 register read on an arbitrary device: the device's error unchanged, or the
little-endian value of the 8-byte buffer (zero-padded if the read was short) -/
theorem readNumG_u64 {σ ε : Type} (A : ADev σ ε) (st : σ) (addr : Nat) :
    readNumG A st addr 8 8 =
      match A.read st addr 8 with
      | (.ok bs, st') => (.ok (fromLE (fill 8 bs)), st')
      | (.error e, st') => (.err (.dev e), st') := by
  unfold readNumG
  cases hr : A.read st addr 8 with
  | mk r st' =>
    cases r with
    | ok bs => simp [parseNum_ok 8 _ (fill_length 8 bs), liftR]
    | error e => simp

theorem abrmNewG_spec {σ ε : Type} (A : ADev σ ε) (st : σ) :
    abrmNewG A LS st =
      match A.read st 0x01C4 8 with
      | (.ok bs, st') => (.ok (.abrm (fromLE (fill 8 bs))), st')
      | (.error e, st') => (.err (.dev e), st') := by
  simp only [abrmNewG, LS, readNumG_u64]
  split <;> simp [mapGN]

theorem sbrmNewG_spec {σ ε : Type} (A : ADev σ ε) (base : Nat) (st : σ) :
    sbrmNewG A LS base st =
      if 2 ^ 64 ≤ base + 4 then (.err .invalidDevice, st)
      else match A.read st (base + 4) 8 with
        | (.ok bs, st') => (.ok (.sbrm base (fromLE (fill 8 bs))), st')
        | (.error e, st') => (.err (.dev e), st') := by
  by_cases h : 2 ^ 64 ≤ base + 4
  · have : ¬ base + 4 < 2 ^ 64 := by omega
    simp [sbrmNewG, LS, registerAddress, this, h, liftR]
  · have : base + 4 < 2 ^ 64 := by omega
    simp only [sbrmNewG, LS, registerAddress, this, h, if_true, if_false, readNumG_u64]
    split <;> simp [mapGN]

/-- a guard-free u64 getter of the ABRM on an arbitrary device -/
theorem runG_abrm_u64 {σ ε : Type} (A : ADev σ ε) (name : String) (off cap : Nat) (st : σ) :
    (⟨name, .abrm, .get, off, 8, .u64, none⟩ : RRow).runG A 0 cap .none st =
      match A.read st off 8 with
      | (.ok bs, st') => (.ok (.nat (fromLE (fill 8 bs))), st')
      | (.error e, st') => (.err (.dev e), st') := by
  simp only [RRow.runG, getRegG, addrOf]
  cases hr : A.read st off 8 with
  | mk r st' =>
    cases r with
    | ok bs => simp [parse, parseNum_ok 8 _ (fill_length 8 bs), R.map, liftR]
    | error e => simp

theorem abrmSbrmG_spec {σ ε : Type} (A : ADev σ ε) (cap : Nat) (st : σ) :
    abrmSbrmG A LS cap st =
      match A.read st 0x01D8 8 with
      | (.ok bs, st') => sbrmNewG A LS (fromLE (fill 8 bs)) st'
      | (.error e, st') => (.err (.dev e), st') := by
  have hrow : LS.sbrmAddress = ⟨"Abrm.sbrm_address", .abrm, .get, 0x01D8, 8, .u64, none⟩ := rfl
  simp only [abrmSbrmG, hrow, runG_abrm_u64]
  cases hr : A.read st 0x01D8 8 with
  | mk r st' => cases r <;> simp

theorem abrmManifestTableG_spec {σ ε : Type} (A : ADev σ ε) (cap : Nat) (st : σ) :
    abrmManifestTableG A LS cap st =
      match A.read st 0x01D0 8 with
      | (.ok bs, st') => (.ok (.table (fromLE (fill 8 bs))), st')
      | (.error e, st') => (.err (.dev e), st') := by
  have hrow : LS.manifestTableAddress =
      ⟨"Abrm.manifest_table_address", .abrm, .get, 0x01D0, 8, .u64, none⟩ := rfl
  simp only [abrmManifestTableG, hrow, runG_abrm_u64]
  cases hr : A.read st 0x01D0 8 with
  | mk r st' => cases r <;> simp

theorem sbrmSirmG_spec {σ ε : Type} (A : ADev σ ε) (base cap : Nat) (st : σ) :
    sbrmSirmG A LS base cap st =
      if cap.testBit 0 = false then (.ok .none, st)
      else if 2 ^ 64 ≤ base + 0x20 then (.err .invalidDevice, st)
      else match A.read st (base + 0x20) 8 with
        | (.ok bs, st') => (.ok (.some (.sirm (fromLE (fill 8 bs)))), st')
        | (.error e, st') => (.err (.dev e), st') := by
  have hrow : LS.sirmAddress = ⟨"Sbrm.sirm_address", .sbrm, .get, 0x0020, 8, .u64, some 0⟩ := rfl
  by_cases hb : cap.testBit 0 = true
  · by_cases h : 2 ^ 64 ≤ base + 0x20
    · have : ¬ base + 0x20 < 2 ^ 64 := by omega
      simp [sbrmSirmG, hrow, RRow.runG, hb, getRegG, addrOf, registerAddress, this, h, liftR, mapG]
    · have h1 : base + 0x20 < 2 ^ 64 := by omega
      simp only [sbrmSirmG, hrow, RRow.runG, hb, if_true, getRegG, addrOf, registerAddress, h1, h,
        if_false, Bool.true_eq_false]
      cases hr : A.read st (base + 0x20) 8 with
      | mk r st' =>
        cases r with
        | ok bs => simp [parse, parseNum_ok 8 _ (fill_length 8 bs), R.map, liftR, mapG]
        | error e => simp [mapG]
  · simp [sbrmSirmG, hrow, RRow.runG, hb]

theorem tableEntriesG_spec {σ ε : Type} (A : ADev σ ε) (base : Nat) (hb : base < 2 ^ 64) (st : σ) :
    tableEntriesG A base st =
      match A.read st base 8 with
      | (.ok bs, st') =>
        (if base + 8 + 64 * fromLE (fill 8 bs) ≤ 2 ^ 64
           then .ok (.entries (fromLE (fill 8 bs)) (base + 8)) else .err .invalidDevice, st')
      | (.error e, st') => (.err (.dev e), st') := by
  have e1 : (registerAddress base 0 : R Nat) = .ok base := by
    simp only [registerAddress, Nat.add_zero, hb, if_true]
  simp only [tableEntriesG, e1, readNumG_u64]
  cases hr : A.read st base 8 with
  | mk r st' =>
    cases r with
    | ok bs =>
      by_cases h4 : base + 8 + 64 * fromLE (fill 8 bs) ≤ 2 ^ 64
      · have : ¬ base + 8 + fromLE (fill 8 bs) * 64 > 2 ^ 64 := by omega
        simp [h4, this]
      · have : base + 8 + fromLE (fill 8 bs) * 64 > 2 ^ 64 := by omega
        simp [h4, this]
    | error e => simp

/-! ### Cases in which an arbitrary device is not called at all -/

/-- closed capability guard: `Ok(None)` (getter) / `Ok(())` (setter), device state untouched -/
theorem runG_guard_closed {σ ε : Type} (A : ADev σ ε) (rr : RRow) (base cap : Nat) (arg : Arg) (st : σ)
    (hg : guardOpen rr cap = false) :
    rr.runG A base cap arg st = (.ok (if rr.kind = .get then .none else .unit), st) := by
  unfold RRow.runG
  cases hk : rr.kind with
  | get =>
    cases hgb : rr.guardBit with
    | none => simp [guardOpen, hgb] at hg
    | some bit =>
      have : cap.testBit bit = false := by simpa [guardOpen, hgb] using hg
      simp [this]
  | set => simp [hg]
  | setConst v => simp [hg]

/-- unrepresentable register address: `InvalidDevice`, device state untouched -/
theorem runG_unaddressable {σ ε : Type} (A : ADev σ ε) (rr : RRow) (base cap : Nat) (arg : Arg) (st : σ)
    (hg : guardOpen rr cap = true) (hb : rr.base ≠ .abrm) (ho : 2 ^ 64 ≤ base + rr.off) :
    rr.runG A base cap arg st = (.err .invalidDevice, st) := by
  have ha : addrOf rr.base base rr.off = .err .invalidDevice := by
    have : ¬ base + rr.off < 2 ^ 64 := by omega
    cases hbb : rr.base with
    | abrm => exact absurd hbb hb
    | sbrm => simp [addrOf, registerAddress, this]
    | sirm => simp [addrOf, registerAddress, this]
    | manifestTable => simp [addrOf, registerAddress, this]
    | manifestEntry => simp [addrOf, registerAddress, this]
  unfold RRow.runG
  cases hk : rr.kind with
  | get =>
    cases hgb : rr.guardBit with
    | none => simp [getRegG, ha, liftR]
    | some bit =>
      have : cap.testBit bit = true := by simpa [guardOpen, hgb] using hg
      simp [this, getRegG, ha, liftR, mapG]
  | set => simp [hg, setRegG, ha, liftR]
  | setConst v => simp [hg, setRegG, ha, liftR]

/-- a name the setter refuses (non-ASCII, interior NUL, longer than the register):
`InvalidData`, device state untouched -/
theorem runG_name_refused {σ ε : Type} (A : ADev σ ε) (rr : RRow) (base cap : Nat) (s : Bytes) (st : σ)
    (hk : rr.kind = .set) (hd : rr.dec = .string) (hg : guardOpen rr cap = true)
    (haddr : rr.base = .abrm ∨ base + rr.off < 2 ^ 64)
    (hbad : s.all (· < 128) = false ∨ s.contains 0 = true ∨ s.length > rr.len) :
    rr.runG A base cap (.str s) st = (.err .invalidData, st) := by
  have ha : ∃ a, addrOf rr.base base rr.off = .ok a := by
    rcases haddr with h | h
    · exact ⟨rr.off, by simp [addrOf, h]⟩
    · cases hbb : rr.base <;> simp [addrOf, registerAddress, h]
  obtain ⟨a, ha⟩ := ha
  have hdump : dump rr.dec (.str s) rr.len = .err .invalidData := by
    rw [hd]
    simp only [dump]
    by_cases h1 : s.all (· < 128) = true
    · by_cases h2 : s.contains 0 = true
      · simp only [h1, h2, Bool.not_true, Bool.false_eq_true, ↓reduceIte]
      · have h3 : s.length > rr.len := by
          rcases hbad with h | h | h
          · rw [h1] at h; cases h
          · exact absurd h h2
          · exact h
        have h2' : s.contains 0 = false := by simpa using h2
        simp only [h1, h2', h3, Bool.not_true, Bool.false_eq_true, ↓reduceIte]
    · have h1' : s.all (· < 128) = false := by simpa using h1
      simp only [h1', Bool.not_false, ↓reduceIte]
  unfold RRow.runG
  rw [hk]
  simp [hg, setRegG, ha, hdump, liftR]

end CamVerif.RegMap
