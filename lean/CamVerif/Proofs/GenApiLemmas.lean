/-
Helper lemmas for C03 / C18: the value component of a read-class computation is a
plain reader over `Res` (the log is output only), inversion lemmas for `R` / `M` binds.
-/
import CamVerif.Model.GenApi
import CamVerif.Spec.GenApiSem
namespace CamVerif.GenApi
open CamVerif

variable {F E α β : Type}

/-- value component of a read-class computation -/
def R.val (m : R F α) (s : S F) : Res Err α := (m s).1
/-- log component of a read-class computation -/
def R.out (m : R F α) (s : S F) : Log := (m s).2

@[simp] theorem R.val_pure (a : α) (s : S F) : R.val (Pure.pure a : R F α) s = .ok a := rfl
@[simp] theorem R.val_pure' (a : α) (s : S F) : R.val (R.pure a : R F α) s = .ok a := rfl
@[simp] theorem R.val_err (e : Err) (s : S F) : R.val (R.err e : R F α) s = .err e := rfl
@[simp] theorem R.val_panic (s : S F) : R.val (R.panic : R F α) s = .panic := rfl
@[simp] theorem R.val_ofRes (x : Res Err α) (s : S F) : R.val (R.ofRes x : R F α) s = x := rfl

@[simp] theorem R.val_bind (m : R F α) (f : α → R F β) (s : S F) :
    R.val (m >>= f) s = (R.val m s >>= fun a => R.val (f a) s) := by
  show (R.bind m f s).1 = _
  unfold R.bind R.val
  cases h : m s with
  | mk r l =>
    cases r with
    | ok a => simp only [Res.bind_ok]
    | err e => rfl
    | panic => rfl

theorem R.bind_assoc {γ : Type} (m : R F α) (f : α → R F β) (g : β → R F γ) :
    (m >>= f) >>= g = m >>= fun a => f a >>= g := by
  funext s
  show R.bind (R.bind m f) g s = R.bind m (fun a => R.bind (f a) g) s
  unfold R.bind
  cases m s with
  | mk r l =>
    cases r with
    | ok a =>
      simp only
      cases f a s with
      | mk r2 l2 =>
        cases r2 with
        | ok b => simp only; cases g b s; simp [List.append_assoc]
        | err e => rfl
        | panic => rfl
    | err e => rfl
    | panic => rfl

theorem R.val_ite (c : Prop) [Decidable c] (x y : R F α) (s : S F) :
    R.val (if c then x else y) s = if c then R.val x s else R.val y s := by
  split <;> rfl

theorem R.val_bite (c : Bool) (x y : R F α) (s : S F) :
    R.val (if c then x else y) s = if c then R.val x s else R.val y s := by
  cases c <;> rfl

/-- `Res`-level inversion of a successful bind -/
theorem Res.bind_eq_ok {ε : Type} {x : Res ε α} {f : α → Res ε β} {b : β}
    (h : (x >>= f) = .ok b) : ∃ a, x = .ok a ∧ f a = .ok b := by
  cases x with
  | ok a => exact ⟨a, rfl, h⟩
  | err e => simp at h
  | panic => simp at h

/-! ### effect component (result + final stores) of a write-class computation -/

def M.eff (m : M F α) (s : S F) : Res Err α × S F := ((m s).1, (m s).2.1)

@[simp] theorem M.eff_pure (a : α) (s : S F) : M.eff (Pure.pure a : M F α) s = (.ok a, s) := rfl
@[simp] theorem M.eff_err (e : Err) (s : S F) : M.eff (M.err e : M F α) s = (.err e, s) := rfl
@[simp] theorem M.eff_panic (s : S F) : M.eff (M.panic : M F α) s = (.panic, s) := rfl
@[simp] theorem M.eff_ofRes (x : Res Err α) (s : S F) : M.eff (M.ofRes x : M F α) s = (x, s) := rfl
@[simp] theorem M.eff_ofR (m : R F α) (s : S F) : M.eff (M.ofR m) s = (R.val m s, s) := by
  unfold M.eff M.ofR R.val; cases m s; rfl
@[simp] theorem M.eff_modify (f : S F → S F) (s : S F) : M.eff (M.modify f) s = (.ok (), f s) := rfl

theorem M.eff_bind (m : M F α) (f : α → M F β) (s : S F) :
    M.eff (m >>= f) s =
      match M.eff m s with
      | (.ok a, s') => M.eff (f a) s'
      | (.err e, s') => (.err e, s')
      | (.panic, s') => (.panic, s') := by
  show ((M.bind m f s).1, (M.bind m f s).2.1) = _
  unfold M.bind M.eff
  cases m s with
  | mk r rest =>
    obtain ⟨s', l⟩ := rest
    cases r with
    | ok a => simp only
    | err e => rfl
    | panic => rfl

/-- inversion of a successful bind -/
theorem M.eff_bind_ok {m : M F α} {f : α → M F β} {s s2 : S F} {b : β}
    (h : M.eff (m >>= f) s = (.ok b, s2)) :
    ∃ a s1, M.eff m s = (.ok a, s1) ∧ M.eff (f a) s1 = (.ok b, s2) := by
  rw [M.eff_bind] at h
  cases hm : M.eff m s with
  | mk r s1 =>
    rw [hm] at h
    cases r with
    | ok a => exact ⟨a, s1, rfl, h⟩
    | err e => simp at h
    | panic => simp at h

theorem M.eff_bind_of_ok {m : M F α} {f : α → M F β} {s s1 : S F} {a : α}
    (hm : M.eff m s = (.ok a, s1)) : M.eff (m >>= f) s = M.eff (f a) s1 := by
  rw [M.eff_bind, hm]

theorem M.eff_bite (c : Bool) (x y : M F α) (s : S F) :
    M.eff (if c then x else y) s = if c then M.eff x s else M.eff y s := by
  cases c <;> rfl

end CamVerif.GenApi
