/-
C02 — tie G for function bodies.

`CamVerif/Gen/FnBitMask.lean` is re-emitted by `rs2lean` from the CURRENT text of
`genapi/src/masked_int_reg.rs` (`impl BitMask`) and `genapi/src/elem_type.rs` (the three enums)
on every check run.  This file proves, for every input and every build profile, that each
generated function IS the hand-written model function of `CamVerif/Model/BitMask.lean` — so
the theorems of `Props/C02.lean`, stated on the model, are theorems about what the source says
now.  A semantic edit of the Rust functions makes a `gen_*_agrees` proof fail; a harmless
rewrite (operand order, arm order, renaming, equivalent mask construction) re-proves unchanged.

Carriers.  Both sides use `BitVec 64` for `usize`/`u64`/`i64`, so integers need no translation.
The generated file declares its own copies of the Rust enums; `eTo/sTo/bmTo` are the obvious
bijections onto the model's enums (inverse functions and both round trips proved below).  The
only error the targets construct, `GenApiError::invalid_data(..)`, is instantiated with the
model's `Err.invalidData` (`errs`).

Method (shape-insensitive).  A `Res` is observed through `Res.tag` (ok / panic / which error, as
a byte) and `Res.val`; both observations are pushed through `>>=`, `if` and the machine
operators by `simp only`, leaving a pure `BitVec`/`Bool` goal that `bv_decide` decides with
every integer (field bounds, register length, old word, value) and the profile symbolic.
Calls of already tied functions are first rewritten to the model's function and then stay
opaque, so each proof only looks at one function body.  All seven equalities are unconditional
(no `WF` hypothesis): the agreement includes the panicking and wrapping behaviour on malformed
masks.
-/
import CamVerif.Gen.FnBitMask
import CamVerif.Model.BitMask
import Std.Tactic.BVDecide
namespace CamVerif.Proofs.C02GenTie
open CamVerif CamVerif.Reg

/-! ## The carrier bijections -/

abbrev GEndianness := CamVerif.Gen.FnBitMask.Endianness
abbrev GSign := CamVerif.Gen.FnBitMask.Sign
abbrev GBitMask := CamVerif.Gen.FnBitMask.BitMask
abbrev MBitMask := CamVerif.BitMask.BitMask

def eTo : GEndianness → Endianness
  | .LE => .le
  | .BE => .be
def eOf : Endianness → GEndianness
  | .le => .LE
  | .be => .BE
def sTo : GSign → Sign
  | .Signed => .signed
  | .Unsigned => .unsigned
def sOf : Sign → GSign
  | .signed => .Signed
  | .unsigned => .Unsigned
def bmTo : GBitMask → MBitMask
  | .SingleBit b => .singleBit b
  | .Range l m => .range l m
def bmOf : MBitMask → GBitMask
  | .singleBit b => .SingleBit b
  | .range l m => .Range l m

theorem eTo_eOf (e : Endianness) : eTo (eOf e) = e := by cases e <;> rfl
theorem eOf_eTo (e : GEndianness) : eOf (eTo e) = e := by cases e <;> rfl
theorem sTo_sOf (s : Sign) : sTo (sOf s) = s := by cases s <;> rfl
theorem sOf_sTo (s : GSign) : sOf (sTo s) = s := by cases s <;> rfl
theorem bmTo_bmOf (b : MBitMask) : bmTo (bmOf b) = b := by cases b <;> rfl
theorem bmOf_bmTo (b : GBitMask) : bmOf (bmTo b) = b := by cases b <;> rfl

/-- the generated error constructors, instantiated with the model's error values -/
def errs : CamVerif.Gen.FnBitMask.Errs Err := { GenApiError_invalid_data := .invalidData }

/-- a byte coding of the model's errors (injective, avoids the codes of ok and panic) -/
def errCode : Res.ErrCode Err where
  ec := fun
    | .device => 2#8 | .notWritable => 3#8 | .invalidNode => 4#8
    | .invalidData => 5#8 | .chunkDataMissing => 6#8 | .invalidBuffer => 7#8
  inj := by intro a b; cases a <;> cases b <;> simp
  ne0 := by intro a; cases a <;> decide
  ne1 := by intro a; cases a <;> decide

theorem ec_invalidData : errCode.ec .invalidData = 5#8 := rfl

/-- push the observations through one function body (both sides) -/
local macro "obs" "[" ds:Lean.Parser.Tactic.simpLemma,* "]" : tactic =>
  `(tactic| simp only [$ds,*,
    -- the model's machine layer
    CamVerif.BitMask.subU, CamVerif.BitMask.addU, CamVerif.BitMask.mul8U, CamVerif.BitMask.shiftAmount,
    CamVerif.BitMask.shlW, CamVerif.BitMask.lshrW, CamVerif.BitMask.ashrW, CamVerif.BitMask.ssubOvf,
    CamVerif.BitMask.subI, CamVerif.BitMask.negI, CamVerif.BitMask.I64_MAX, CamVerif.BitMask.I64_MIN,
    -- the generated code's machine layer
    Machine.addU, Machine.addS, Machine.subU, Machine.subS, Machine.mulU, Machine.mulS, Machine.negS,
    Machine.shl, Machine.shrU, Machine.shrS, Machine.shOvf, Machine.shAmt, Machine.castU, Machine.castS,
    -- observations
    Res.tag_bind, Res.val_bind errCode, Res.tag_ite, Res.val_ite, Machine.tag_chk, Machine.val_chk,
    Res.tag_ok, Res.val_ok, Res.tag_panic, Res.val_panic, Res.tag_err, Res.val_err, Res.pure_eq,
    ec_invalidData, errs, CamVerif.Reg.I64])

namespace G
export CamVerif.Gen.FnBitMask (BitMask.lsb BitMask.msb BitMask.min BitMask.max BitMask.mask
  BitMask.apply_mask BitMask.masked_value)
end G

/-! ## `lsb`, `msb` (leaf functions: fully unfolded) -/

theorem gen_lsb_agrees (p : Profile) (bm : GBitMask) (len : BitVec 64) (e : GEndianness) :
    G.BitMask.lsb (ε := Err) p bm len e = (bmTo bm).lsb p len (eTo e) := by
  apply Res.ext_obs errCode 0#64
  cases bm <;> cases e <;>
  obs [CamVerif.Gen.FnBitMask.BitMask.lsb, CamVerif.BitMask.BitMask.lsb, CamVerif.BitMask.normalise,
    CamVerif.BitMask.BitMask.rawLsb, bmTo, eTo] <;>
  bv_decide

theorem gen_msb_agrees (p : Profile) (bm : GBitMask) (len : BitVec 64) (e : GEndianness) :
    G.BitMask.msb (ε := Err) p bm len e = (bmTo bm).msb p len (eTo e) := by
  apply Res.ext_obs errCode 0#64
  cases bm <;> cases e <;>
  obs [CamVerif.Gen.FnBitMask.BitMask.msb, CamVerif.BitMask.BitMask.msb, CamVerif.BitMask.normalise,
    CamVerif.BitMask.BitMask.rawMsb, bmTo, eTo] <;>
  bv_decide

/-! ## `min`, `max`, `mask` (calls of `lsb`/`msb` rewritten to the model's, then opaque) -/

theorem gen_min_agrees (p : Profile) (bm : GBitMask) (len : BitVec 64) (e : GEndianness) (s : GSign) :
    G.BitMask.min (ε := Err) p bm len e s = (bmTo bm).min p len (eTo e) (sTo s) := by
  apply Res.ext_obs errCode 0#64
  cases s <;>
  obs [CamVerif.Gen.FnBitMask.BitMask.min, gen_lsb_agrees, gen_msb_agrees,
    CamVerif.BitMask.BitMask.min, CamVerif.BitMask.minCore, sTo] <;>
  bv_decide

theorem gen_max_agrees (p : Profile) (bm : GBitMask) (len : BitVec 64) (e : GEndianness) (s : GSign) :
    G.BitMask.max (ε := Err) p bm len e s = (bmTo bm).max p len (eTo e) (sTo s) := by
  apply Res.ext_obs errCode 0#64
  cases s <;>
  obs [CamVerif.Gen.FnBitMask.BitMask.max, gen_lsb_agrees, gen_msb_agrees,
    CamVerif.BitMask.BitMask.max, CamVerif.BitMask.maxCore, sTo] <;>
  bv_decide

theorem gen_mask_agrees (p : Profile) (bm : GBitMask) (len : BitVec 64) (e : GEndianness) :
    G.BitMask.mask (ε := Err) p bm len e = (bmTo bm).mask p len (eTo e) := by
  apply Res.ext_obs errCode 0#64
  obs [CamVerif.Gen.FnBitMask.BitMask.mask, gen_lsb_agrees, gen_msb_agrees,
    CamVerif.BitMask.BitMask.mask, CamVerif.BitMask.maskCore]
  bv_decide

/-! ## `apply_mask`, `masked_value` -/

theorem gen_apply_mask_agrees (p : Profile) (bm : GBitMask) (regValue len : BitVec 64)
    (e : GEndianness) (s : GSign) :
    G.BitMask.apply_mask (ε := Err) p bm regValue len e s =
      (bmTo bm).applyMask p regValue len (eTo e) (sTo s) := by
  apply Res.ext_obs errCode 0#64
  cases s <;>
  obs [CamVerif.Gen.FnBitMask.BitMask.apply_mask, gen_lsb_agrees, gen_msb_agrees, gen_mask_agrees,
    CamVerif.BitMask.BitMask.applyMask, CamVerif.BitMask.applyCore, sTo] <;>
  bv_decide

theorem gen_masked_value_agrees (p : Profile) (bm : GBitMask) (old v len : BitVec 64)
    (e : GEndianness) (s : GSign) :
    G.BitMask.masked_value errs p bm old v len e s =
      (bmTo bm).maskedValue p old v len (eTo e) (sTo s) := by
  apply Res.ext_obs errCode 0#64
  obs [CamVerif.Gen.FnBitMask.BitMask.masked_value, gen_lsb_agrees, gen_min_agrees, gen_max_agrees,
    gen_mask_agrees, CamVerif.BitMask.BitMask.maskedValue]
  bv_decide

/-! ## The whole tie as one statement (re-exported by `Props/C02.lean` as an obligation) -/

/-- every translated `BitMask` function of the current `masked_int_reg.rs` equals the model's,
for all inputs and both build profiles -/
def GenTie : Prop :=
  (∀ p bm len e, G.BitMask.lsb (ε := Err) p bm len e = (bmTo bm).lsb p len (eTo e)) ∧
  (∀ p bm len e, G.BitMask.msb (ε := Err) p bm len e = (bmTo bm).msb p len (eTo e)) ∧
  (∀ p bm len e s, G.BitMask.min (ε := Err) p bm len e s = (bmTo bm).min p len (eTo e) (sTo s)) ∧
  (∀ p bm len e s, G.BitMask.max (ε := Err) p bm len e s = (bmTo bm).max p len (eTo e) (sTo s)) ∧
  (∀ p bm len e, G.BitMask.mask (ε := Err) p bm len e = (bmTo bm).mask p len (eTo e)) ∧
  (∀ p bm w len e s, G.BitMask.apply_mask (ε := Err) p bm w len e s =
      (bmTo bm).applyMask p w len (eTo e) (sTo s)) ∧
  (∀ p bm old v len e s, G.BitMask.masked_value errs p bm old v len e s =
      (bmTo bm).maskedValue p old v len (eTo e) (sTo s)) ∧
  -- the carrier maps are bijections
  (∀ b, bmTo (bmOf b) = b) ∧ (∀ b, bmOf (bmTo b) = b) ∧
  (∀ e, eTo (eOf e) = e) ∧ (∀ e, eOf (eTo e) = e) ∧ (∀ s, sTo (sOf s) = s) ∧ (∀ s, sOf (sTo s) = s)

theorem gen_tie : GenTie :=
  ⟨gen_lsb_agrees, gen_msb_agrees, gen_min_agrees, gen_max_agrees, gen_mask_agrees,
    gen_apply_mask_agrees, gen_masked_value_agrees, bmTo_bmOf, bmOf_bmTo, eTo_eOf, eOf_eTo,
    sTo_sOf, sOf_sTo⟩

/-! ## Non-vacuity: the generated functions compute (kernel evaluation on the source's own
test vectors, `masked_int_reg.rs` `test_bit_mask_8bit_le`) -/

example : G.BitMask.apply_mask (ε := Err) Profile.dev (.Range 1 4) 0b11001011#64 1 .LE .Unsigned
    = .ok 0b0101#64 := by decide
example : G.BitMask.masked_value errs Profile.dev (.Range 1 4) 0b11001011#64 0b0110#64 1 .LE .Unsigned
    = .ok 0b11001101#64 := by decide
example : G.BitMask.masked_value errs Profile.dev (.Range 6 3) 0b11001011#64 256#64 1 .BE .Signed
    = .err .invalidData := by decide
example : G.BitMask.lsb (ε := Err) Profile.dev (.Range 5 3) 0 .BE = .panic := by decide

end CamVerif.Proofs.C02GenTie
