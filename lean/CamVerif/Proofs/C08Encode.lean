/-
Proofs of the acknowledge "accepts" theorems (well-formed header / reference encoder), kept in
a module that does NOT import the regenerated tables (`Gen/AckTables.lean`), so that the
C09 ∘ C08 round trip (`Props/C09.lean`) can use them without depending on the C08 tie (G).
`Props/C08.lean` states the public theorems and proves them by these `_core` versions.
-/
import CamVerif.Proofs.C08
namespace CamVerif.C08
open CamVerif CamVerif.Ack
open CamVerif.Spec.GenCP (slice uintAt)
open CamVerif.Spec.GenCPAck

theorem ack_accepts_conforming_core (p : Profile) (bs : Bytes) (k : StatusClass) (kd : AckKind)
    (hlen : HEADER_LEN ≤ bs.length) (hmagic : magicOf bs = ACK_MAGIC)
    (hst : statusClass (statusCodeOf bs) = some k) (hkd : ackKindOfId (commandIdOf bs) = some kd) :
    AckPacket.parse p bs =
      .ok ⟨⟨⟨statusCodeOf bs, ofClass k⟩, ofKind kd, requestIdOf bs, scdLenOf bs⟩, 12, bs.drop 12⟩ := by
  simp only [HEADER_LEN, magicOf, statusCodeOf, commandIdOf, ACK_MAGIC] at hlen hmagic hst hkd
  rw [ack_parse_eq p bs hlen, ackFormula, if_neg (by simp [hmagic, ACK_PREFIX_MAGIC]),
    ofCode_eq_spec p _ (uintAt2_lt _ _), specStatus, hst, ofId_eq_spec, specKind, hkd]
  rfl

theorem ack_accepts_encoded_core (p : Profile) (code cmd req : Nat) (scd : Bytes)
    (k : StatusClass) (kd : AckKind)
    (hcode : code < 2 ^ 16) (hcmd : cmd < 2 ^ 16) (hreq : req < 2 ^ 16) (hlen : scd.length < 2 ^ 16)
    (hst : statusClass code = some k) (hkd : ackKindOfId cmd = some kd) :
    AckPacket.parse p (encodeAck code cmd req scd) =
      .ok ⟨⟨⟨code, ofClass k⟩, ofKind kd, req, scd.length⟩, 12, scd⟩ := by
  obtain ⟨h1, h2, h3, h4, h5, h6, h7⟩ := encodeAck_fields code cmd req scd hcode hcmd hreq hlen
  have := ack_accepts_conforming_core p (encodeAck code cmd req scd) k kd
    (by simp only [HEADER_LEN]; omega) h2 (by rw [h3]; exact hst) (by rw [h4]; exact hkd)
  rw [this, h3, h5, h6, h7]

theorem ack_views_accept_encoded_core (p : Profile) (ccd : AckCcd) :
    (∀ scd : Bytes, ccd.scdLen = scd.length →
      ReadMem.parse scd ccd = .ok scd ∧ ReadMemStacked.parse scd ccd = .ok scd) ∧
    (∀ v, v < 2 ^ 16 → ccd.scdLen = (encodeValueScd v).length →
      WriteMem.parse (encodeValueScd v) ccd = .ok v ∧ Pending.parse (encodeValueScd v) ccd = .ok v) ∧
    (∀ ls : List Nat, (∀ l ∈ ls, l < 2 ^ 16) → ccd.scdLen = (encodeStackedScd ls).length →
      WriteMemStacked.parse p (encodeStackedScd ls) ccd = .ok ls) := by
  refine ⟨?_, ?_, ?_⟩
  · intro scd hl
    have : parseDataScd scd ccd = .ok scd := by
      unfold parseDataScd
      rw [if_neg (by omega), hl, List.take_length]
    exact ⟨this, this⟩
  · intro v hv hl
    have h4 : 4 ≤ ccd.scdLen := by rw [hl]; simp [encodeValueScd]
    exact ⟨encodeValueScd_parse v ccd hv h4, encodeValueScd_parse v ccd hv h4⟩
  · intro ls hls hl
    rw [encodeStackedScd_length] at hl
    simp only [WriteMemStacked.parse, hl]
    rw [if_neg (by omega)]
    have hs := stackedLoop_spec p (encodeStackedScd ls) ls.length
      ((encodeStackedScd ls).length + 1) 0 (by omega) (by omega)
    have henc := encodeStackedScd_ok [] ls hls
    simp only [List.nil_append, List.length_nil] at henc
    rw [hs.1 henc.1, henc.2]

end CamVerif.C08
