/-
C04 helper lemmas, part 4: the access log only grows, inversion of `>>=`, and the
operation-level consequences for NoCache registers and for a register's own write.
-/
import CamVerif.Proofs.C04Sim
namespace CamVerif.C04
open CamVerif CamVerif.Cache

/-! ### inversion of bind / lift / pure -/

section Inv
variable {κ : Type}

theorem bind_ok_inv {α β : Type} {m : M κ α} {f : α → M κ β} {s s' : St κ} {b : β}
    (h : (m >>= f) s = (.ok b, s')) : ∃ a, (m s).1 = .ok a ∧ f a (m s).2 = (.ok b, s') := by
  rw [bind_apply] at h
  cases hm : (m s).1 with
  | ok a => rw [hm] at h; exact ⟨a, rfl, h⟩
  | err e => rw [hm] at h; cases h
  | panic => rw [hm] at h; cases h

theorem lift_ok_inv {α : Type} {r : R α} {s s' : St κ} {a : α}
    (h : (M.lift r : M κ α) s = (.ok a, s')) : r = .ok a ∧ s' = s := by
  unfold M.lift at h
  cases h
  exact ⟨rfl, rfl⟩

theorem pure_ok_inv {α : Type} {x a : α} {s s' : St κ}
    (h : (M.pure x : M κ α) s = (.ok a, s')) : x = a ∧ s' = s := by
  unfold M.pure at h
  cases h
  exact ⟨rfl, rfl⟩

end Inv

/-! ### the access log only grows -/

/-- every run of `m` extends the access log at the front (newest first) -/
def Grows {κ α : Type} (m : M κ α) : Prop :=
  ∀ s, ∃ pre, (m s).2.dev.log = pre ++ s.dev.log

section Grows
variable {κ : Type}

theorem grows_same {α : Type} {m : M κ α} (h : ∀ s, (m s).2.dev = s.dev) : Grows m :=
  fun s => ⟨[], by rw [h]; rfl⟩

theorem grows_pure {α : Type} (a : α) : Grows (M.pure a : M κ α) := grows_same (fun _ => rfl)
theorem grows_lift {α : Type} (r : R α) : Grows (M.lift r : M κ α) := grows_same (fun _ => rfl)
theorem grows_fail {α : Type} (e : Err) : Grows (M.fail e : M κ α) := grows_same (fun _ => rfl)
theorem grows_panic {α : Type} : Grows (M.panic : M κ α) := grows_same (fun _ => rfl)

theorem grows_bind {α β : Type} {m : M κ α} {f : α → M κ β} (hm : Grows m)
    (hf : ∀ a, Grows (f a)) : Grows (m >>= f) := by
  intro s
  rw [bind_apply]
  obtain ⟨pre, hpre⟩ := hm s
  cases h : (m s).1 with
  | ok a =>
    obtain ⟨pre', hpre'⟩ := hf a (m s).2
    exact ⟨pre' ++ pre, by dsimp only; rw [hpre', hpre, List.append_assoc]⟩
  | err e => exact ⟨pre, hpre⟩
  | panic => exact ⟨pre, hpre⟩

theorem grows_readAndCache (ops : CacheOps κ) (g : Graph) (n : NodeId) (r : Reg) (a : Int)
    (buflen : Nat) : Grows (readAndCache ops g n r a buflen) := by
  intro s
  rw [readAndCache_eq]
  split
  · exact ⟨[], rfl⟩
  split
  · split
    · exact ⟨[_], rfl⟩
    · exact ⟨[_], rfl⟩
  · exact ⟨[], rfl⟩

theorem grows_cachedRead (ops : CacheOps κ) (g : Graph) (n : NodeId) (r : Reg) (a : Int) :
    Grows (cachedRead ops g n r a) := by
  intro s
  unfold cachedRead
  split
  · exact ⟨[], rfl⟩
  · exact grows_readAndCache ops g n r a r.len s

theorem grows_regAddr (p : Profile) {ev : NodeId → M κ Int} (hev : ∀ m, Grows (ev m)) (r : Reg) :
    Grows (regAddr p ev r) := by
  unfold regAddr
  cases r.sel with
  | none => exact grows_pure _
  | some so =>
    obtain ⟨s, off⟩ := so
    exact grows_bind (hev s) (fun k => grows_bind (grows_lift _) (fun _ => grows_lift _))

theorem grows_withCacheOrRead (ops : CacheOps κ) (p : Profile) (g : Graph)
    {ev : NodeId → M κ Int} (hev : ∀ m, Grows (ev m)) (n : NodeId) (r : Reg) :
    Grows (withCacheOrRead ops p g ev n r) := by
  unfold withCacheOrRead
  exact grows_bind (grows_regAddr p hev r) (fun a => grows_cachedRead ops g n r a)

theorem grows_evalInt (ops : CacheOps κ) (p : Profile) (g : Graph) (fuel : Nat) :
    ∀ n, Grows (evalInt ops p g fuel n) := by
  induction fuel with
  | zero => intro n; simp only [evalInt]; exact grows_panic
  | succ f ih =>
    intro n
    simp only [evalInt]
    cases g[n]? with
    | none => exact grows_panic
    | some nd =>
      cases nd with
      | port => exact grows_fail _
      | command _ _ => exact grows_fail _
      | integer pv _ => exact ih pv
      | enumeration pv _ => exact ih pv
      | boolean _ _ _ => exact grows_fail _
      | ctls _ => exact grows_fail _
      | reg r =>
        dsimp only
        cases r.kind with
        | int e s =>
          exact grows_bind (grows_withCacheOrRead ops p g ih n r) (fun _ => grows_lift _)
        | masked e s lsb msb =>
          dsimp only
          refine grows_bind (grows_withCacheOrRead ops p g ih n r) (fun _ => ?_)
          refine grows_bind (grows_lift _) (fun _ => ?_)
          refine grows_bind (grows_lift _) (fun lw => ?_)
          obtain ⟨l, w⟩ := lw
          exact grows_pure _
        | float _ => exact grows_fail _
        | string => exact grows_fail _
        | raw => exact grows_fail _

end Grows

/-! ### NoCache registers: the cached read path always performs a device read -/

section NoCache
variable {p : Profile} {g : Graph}

/-- the invariant survives address evaluation, and the address is one the register can have -/
theorem regAddr_inv (f : Nat) (r : Reg) {s s' : St Store} {a : Int}
    (hI : Inv p g s.cache s.dev)
    (h : regAddr p (evalInt defaultCache p g f) r s = (.ok a, s')) :
    Inv p g s'.cache s'.dev ∧ KeyAddr p g r a := by
  have hs := sim_regAddr (p := p) (g := g) (sim_evalInt f) r s ⟨(), s.dev⟩
    ⟨⟨rfl, rfl, rfl, rfl, rfl, rfl, logSub_refl _⟩, hI⟩
  rw [h] at hs
  exact ⟨hs.2.1.2, hs.2.2 a rfl⟩

theorem cachedRead_nocache {s : St Store} (hA : NoCacheAbsent g s.cache) {n : NodeId} {r : Reg}
    (hn : g[n]? = some (.reg r)) (hm : r.mode = .noCache) (a : Int) :
    cachedRead defaultCache g n r a s = readAndCache defaultCache g n r a r.len s := by
  show (match Store.get s.cache n a r.len with
    | some bs => (Res.ok bs, s)
    | none => readAndCache defaultCache g n r a r.len s) = _
  rw [hA n r hn hm a r.len]

theorem readAndCache_ok_log {κ : Type} {ops : CacheOps κ} {n : NodeId} {r : Reg} {a : Int}
    {buflen : Nat} {s s' : St κ} {bs : Bytes}
    (h : readAndCache ops g n r a buflen s = (.ok bs, s')) :
    s'.dev.log = ⟨false, a, r.len, bs, true⟩ :: s.dev.log ∧ s.dev.peek a r.len = some bs := by
  rw [readAndCache_eq] at h
  split at h
  · cases h
  split at h
  · split at h
    · rename_i bs' hp
      cases h
      exact ⟨rfl, hp⟩
    · cases h
  · cases h

theorem bind_of_ok {κ α β : Type} {m : M κ α} {f : α → M κ β} {s : St κ} {a : α}
    (h : (m s).1 = .ok a) : (m >>= f) s = f a (m s).2 := by
  rw [bind_apply, h]

theorem pair_eta {κ α : Type} {m : M κ α} {s : St κ} {a : α} (h : (m s).1 = .ok a) :
    m s = (.ok a, (m s).2) := by rw [← h]

/-- raw `IRegister::read` is never served from the cache, whatever the mode -/
theorem opRead_reads {s s' : St Store} {n : NodeId} {r : Reg} (hn : g[n]? = some (.reg r))
    {buflen : Nat} {v : Val} (h : run defaultCache p g s (.read n buflen) = (.ok v, s')) :
    ∃ a bs pre, v = .bytes bs ∧ s'.dev.log = ⟨false, a, r.len, bs, true⟩ :: (pre ++ s.dev.log) := by
  simp only [run, evalOp, opRead, hn] at h
  obtain ⟨a, ha, h2⟩ := bind_ok_inv h
  obtain ⟨bs, hbs, h3⟩ := bind_ok_inv h2
  obtain ⟨hv, rfl⟩ := pure_ok_inv h3
  obtain ⟨pre, hpre⟩ := grows_regAddr p (grows_evalInt defaultCache p g (fuelOf g)) r s
  obtain ⟨hlog, _⟩ := readAndCache_ok_log (pair_eta hbs)
  exact ⟨a, bs, pre, hv.symm, by rw [hlog, hpre]⟩

end NoCache

/-! ### own write visible, operation level (registers with a constant address) -/

section OwnWrite
variable {p : Profile} {g : Graph}

theorem regAddr_static {κ : Type} (ev : NodeId → M κ Int) {r : Reg} (hsel : r.sel = none) :
    regAddr p ev r = M.pure r.base := by
  unfold regAddr; rw [hsel]

theorem keyAddr_static {r : Reg} (hsel : r.sel = none) : KeyAddr p g r r.base := by
  unfold KeyAddr; rw [hsel]

/-- a successful raw `write` on a constant-address register is a successful `writeAt` -/
theorem opWrite_static_inv {s s' : St Store} {n : NodeId} {r : Reg} (hn : g[n]? = some (.reg r))
    (hsel : r.sel = none) {buf : Bytes} {v : Val}
    (h : run defaultCache p g s (.write n buf) = (.ok v, s')) :
    buf.length = r.len ∧ writeAt defaultCache g n r r.base buf s = (.ok (), s') := by
  simp only [run, evalOp, opWrite, hn] at h
  obtain ⟨u, hu, h2⟩ := bind_ok_inv h
  obtain ⟨_, rfl⟩ := pure_ok_inv h2
  unfold writeAndCache at hu ⊢
  by_cases hl : buf.length ≠ r.len
  · rw [if_pos hl] at hu; cases hu
  · have hlen : buf.length = r.len := Classical.byContradiction hl
    refine ⟨hlen, ?_⟩
    rw [if_neg hl, regAddr_static _ hsel] at hu ⊢
    have e : ∀ t : St Store, ((M.pure r.base : M Store Int) >>= fun a => writeAt defaultCache g n r a buf) t
        = writeAt defaultCache g n r r.base buf t := fun t => by
      rw [bind_apply]; rfl
    rw [e] at hu ⊢
    exact pair_eta hu

/-- the cached read path of a constant-address register is `cachedRead` at its address -/
theorem wcor_static {κ : Type} (ops : CacheOps κ) (ev : NodeId → M κ Int) (n : NodeId) {r : Reg}
    (hsel : r.sel = none) (s : St κ) :
    withCacheOrRead ops p g ev n r s = cachedRead ops g n r r.base s := by
  unfold withCacheOrRead
  rw [regAddr_static _ hsel, bind_apply]
  rfl

end OwnWrite
end CamVerif.C04
