/-
C17 helper lemmas, part 6: the builder state only grows while declarations are parsed (the
interner is extended, stored nodes stay), so what the top-level loop stored is still found at
the end of the document.
-/
import CamVerif.Proofs.C17Resolve
set_option linter.unusedSimpArgs false
set_option linter.unusedSectionVars false
namespace CamVerif.XmlParse
variable {F : Type}

/-- `b` extends the interner and the value store of `a` (both append-only: ids handed out
before keep their name / their cell) and holds exactly the same stored nodes -/
def Grows (a b : St F) : Prop :=
  a.le b ∧ b.nodes = a.nodes ∧ ∃ more, b.values = a.values ++ more

theorem Grows.refl (a : St F) : Grows a a := ⟨St.le_refl a, rfl, [], by simp⟩

theorem Grows.trans {a b c : St F} (h1 : Grows a b) (h2 : Grows b c) : Grows a c := by
  obtain ⟨l1, n1, m1, v1⟩ := h1
  obtain ⟨l2, n2, m2, v2⟩ := h2
  exact ⟨St.le_trans l1 l2, by rw [n2, n1], m1 ++ m2, by rw [v2, v1, List.append_assoc]⟩

theorem le_internS (n : Str) (st : St F) : st.le (internS n st).2 := by
  obtain ⟨⟨more, hm⟩, _⟩ := internName_spec st.names n
  exact ⟨more, by simpa [internS] using hm⟩

theorem grows_internS {a b : St F} (n : Str) (h : Grows a b) : Grows a (internS n b).2 :=
  h.trans ⟨le_internS n b, rfl, [], by simp [internS]⟩

theorem grows_storeS {a b : St F} (v : Value F) (h : Grows a b) : Grows a (storeS v b).2 :=
  h.trans ⟨le_storeS v b, rfl, [v], by simp [storeS]⟩

theorem grows_invalS {a b : St F} (l : List Nat) (t : Nat) (h : Grows a b) :
    Grows a (invalS l t b) := h.trans ⟨le_invalS l t b, rfl, [], by simp [invalS]⟩

theorem grows_fresh {a b : St F} (h : Grows a b) : Grows a { b with fresh := b.fresh + 1 } :=
  h.trans ⟨⟨[], by simp⟩, rfl, [], by simp⟩

/-- `ValueStoreBuilder::store` always opens a NEW cell: the id handed out is different from
every id handed out before, and the earlier cell keeps its value (no aliasing of declared
immediates, whatever their values). -/
theorem storeS_fresh_cell (v w : Value F) (st st' : St F) (h : Grows (storeS v st).2 st') :
    (storeS v st).1 < (storeS w st').1 ∧
      (storeS w st').2.values[(storeS v st).1]? = some v ∧
      (storeS w st').2.values[(storeS w st').1]? = some w := by
  obtain ⟨_, _, more, hv⟩ := h
  simp only [storeS] at hv ⊢
  refine ⟨by rw [hv]; simp, ?_, by simp⟩
  rw [hv]
  simp [List.getElem?_append_left, List.append_assoc]

/-- `f` only grows the state -/
def GrowsF {α β : Type} (f : α → St F → β × St F) : Prop := ∀ x s, Grows s (f x s).2

theorem grows_optS {α β : Type} {f : α → St F → β × St F} (hf : GrowsF f) {a b : St F}
    (v : Option α) (h : Grows a b) : Grows a (optS f v b).2 := by
  cases v with
  | none => exact h
  | some x => exact h.trans (hf x b)

theorem grows_listS {α β : Type} {f : α → St F → β × St F} (hf : GrowsF f) {a b : St F}
    (vs : List α) (h : Grows a b) : Grows a (listS f vs b).2 := by
  induction vs generalizing b with
  | nil => exact h
  | cons x xs ih => exact ih (h.trans (hf x b))

theorem growsF_internS : GrowsF (F := F) internS := fun n s => grows_internS n (Grows.refl s)

theorem growsF_irIntS : GrowsF (F := F) irIntS := by
  intro x s; cases x with
  | imm l => exact Grows.refl s
  | ref n => exact grows_internS _ (Grows.refl s)

theorem growsF_irIntIdS : GrowsF (F := F) irIntIdS := by
  intro x s; cases x with
  | imm l => exact grows_storeS _ (Grows.refl s)
  | ref n => exact grows_internS _ (Grows.refl s)

theorem growsF_irFloatS [FloatLit F] : GrowsF (F := F) irFloatS := by
  intro x s; cases x with
  | imm l => exact Grows.refl s
  | ref n => exact grows_internS _ (Grows.refl s)

theorem growsF_irFloatIdS [FloatLit F] : GrowsF (F := F) irFloatIdS := by
  intro x s; cases x with
  | imm l => exact grows_storeS _ (Grows.refl s)
  | ref n => exact grows_internS _ (Grows.refl s)

theorem growsF_pVarS : GrowsF (F := F) pVarS := fun x s => grows_internS x.2 (Grows.refl s)

theorem growsF_chunkS : GrowsF (F := F) chunkS := by
  intro x s; cases x with
  | imm l => exact Grows.refl s
  | ref n => exact grows_internS _ (Grows.refl s)

theorem growsF_addrS : GrowsF (F := F) addrS := by
  intro x s
  match x with
  | .address _ => exact Grows.refl s
  | .pAddress _ => exact grows_internS _ (Grows.refl s)
  | .pIndex none _ => exact grows_internS _ (Grows.refl s)
  | .pIndex (some (.inl _)) _ => exact grows_internS _ (Grows.refl s)
  | .pIndex (some (.inr _)) _ => exact grows_internS _ (grows_internS _ (Grows.refl s))

theorem growsF_indexedS {L : Type} {f : IR L → St F → ImmOrP Nat × St F} (hf : GrowsF f) :
    GrowsF (indexedS f) := fun x s => hf x.2 s

theorem grows_valueS {L : Type} (fv : L → Value F) {f : IR L → St F → ImmOrP Nat × St F}
    (hf : GrowsF f) {a b : St F} (v : ValueM L) (h : Grows a b) : Grows a (valueS fv f v b).2 := by
  cases v with
  | value l => exact grows_storeS _ h
  | pValue before p after =>
    exact grows_listS growsF_internS _ (grows_internS _ (grows_listS growsF_internS _ h))
  | pIndex p indexed dflt =>
    exact h.trans ((grows_listS (growsF_indexedS hf) _ (grows_internS _ (Grows.refl b))).trans (hf _ _))

theorem grows_specAttr {a b : St F} (m : AttrM) (h : Grows a b) : Grows a (specAttr m b).2 :=
  grows_internS _ h

theorem grows_specElem {a b : St F} (m : ElemM) (inv : List Str) (h : Grows a b) :
    Grows a (specElem m inv b).2 := by
  simp only [specElem]
  exact grows_listS growsF_internS _ (grows_optS growsF_internS _ (grows_optS growsF_internS _
    (grows_listS growsF_internS _ (grows_optS growsF_internS _ (grows_optS growsF_internS _
      (grows_optS growsF_internS _ (grows_optS growsF_internS _ h)))))))

theorem grows_specReg {a b : St F} (m : RegM) (h : Grows a b) : Grows a (specReg m b).2 := by
  simp only [specReg]
  exact grows_listS growsF_internS _ (grows_internS _ (h.trans ((grows_listS growsF_addrS _
    (grows_specElem _ _ (Grows.refl b))).trans (growsF_irIntS _ _))))

/-- the stored nodes found under an id -/
def Stored (st : St F) (id : Nat) (d : NodeData F) : Prop :=
  st.nodes.find? (fun x => x.1 == id) = some (id, d)

/-- everything stored in `a` is still stored, unchanged, in `b`; the interner grew -/
def Keeps (a b : St F) : Prop := a.le b ∧ ∀ id d, Stored a id d → Stored b id d

theorem Keeps.refl (a : St F) : Keeps a a := ⟨St.le_refl a, fun _ _ h => h⟩

theorem Keeps.trans {a b c : St F} (h1 : Keeps a b) (h2 : Keeps b c) : Keeps a c :=
  ⟨St.le_trans h1.1 h2.1, fun id d h => h2.2 id d (h1.2 id d h)⟩

theorem Grows.keeps {a b : St F} (h : Grows a b) : Keeps a b :=
  ⟨h.1, fun id d hs => by unfold Stored at *; rw [h.2.1]; exact hs⟩

/-- with debug assertions a successful `store_node` keeps every other stored node (an id that
is already taken panics) and the new node is stored -/
theorem storeNodeS_dev (pr : Profile) (hdev : pr.debugAsserts = true) (id : Nat) (d : NodeData F)
    (st st' : St F) (h : storeNodeS pr id d st = .ok st') : Keeps st st' ∧ Stored st' id d := by
  refine ⟨⟨?_, ?_⟩, storeNodeS_found pr id d st st' h⟩
  · unfold storeNodeS at h
    split at h
    · cases h
    · cases h; exact ⟨[], by simp⟩
  · intro j e hs
    have hne : j ≠ id := by
      intro hj
      subst hj
      unfold storeNodeS at h
      split at h
      · cases h
      · next hc =>
        apply hc
        simp only [hdev, Bool.true_and, List.any_eq_true]
        unfold Stored at hs
        have := List.mem_of_find?_eq_some hs
        exact ⟨(j, e), this, by simp⟩
    unfold Stored at *
    rw [storeNodeS_other pr id j d st st' h hne]
    exact hs


/-! ### every normal form only grows the state, from the point where its `Name` is interned -/

variable [FloatLit F]

theorem grows_specNode (m : NodeM) (st : St F) :
    Grows (specAttr m.attr st).2 (specNode m st).2 := grows_specElem _ _ (Grows.refl _)

theorem grows_specCategory (m : CategoryM) (st : St F) :
    Grows (specAttr m.attr st).2 (specCategory m st).2 :=
  grows_listS growsF_internS _ (grows_specElem _ _ (Grows.refl _))

theorem grows_specCommand (m : CommandM) (st : St F) :
    Grows (specAttr m.attr st).2 (specCommand m st).2 :=
  ((grows_specElem _ _ (Grows.refl _)).trans (growsF_irIntIdS _ _)).trans (growsF_irIntIdS _ _)

theorem grows_specBoolean (m : BooleanM) (st : St F) :
    Grows (specAttr m.attr st).2 (specBoolean m st).2 := by
  simp only [specBoolean]
  cases m.value with
  | imm b => exact grows_storeS _ (grows_listS growsF_internS _ (grows_specElem _ _ (Grows.refl _)))
  | ref n => exact grows_listS growsF_internS _ (grows_internS _ (grows_specElem _ _ (Grows.refl _)))

theorem grows_specInteger (m : IntegerM) (st : St F) :
    Grows (specAttr m.attr st).2 (specInteger m st).2 := by
  have h0 : Grows (specAttr m.attr st).2
      (listS internS m.pSelected (optS irIntS m.inc (optS irIntIdS m.max (optS irIntIdS m.min
        (valueS (fun l => .int l.val) irIntIdS m.value
          (specElem m.elem [] (specAttr m.attr st).2).2).2).2).2).2).2 :=
    grows_listS growsF_internS _ (grows_optS growsF_irIntS _ (grows_optS growsF_irIntIdS _
      (grows_optS growsF_irIntIdS _ (grows_valueS _ growsF_irIntIdS _
        (grows_specElem _ _ (Grows.refl _))))))
  simp only [specInteger]
  cases hmin : (optS irIntIdS m.min (valueS (fun l => Value.int l.val) irIntIdS m.value
      (specElem m.elem [] (specAttr m.attr st).2).2).2).1 <;>
    cases hmax : (optS irIntIdS m.max (optS irIntIdS m.min (valueS (fun l => Value.int l.val)
      irIntIdS m.value (specElem m.elem [] (specAttr m.attr st).2).2).2).2).1 <;>
    simp only [] <;>
    first
      | exact h0
      | exact grows_storeS _ h0
      | exact grows_storeS _ (grows_storeS _ h0)

theorem grows_specIntSwissKnife (m : IntSwissKnifeM F) (st : St F) :
    Grows (specAttr m.attr st).2 (specIntSwissKnife m st).2 :=
  grows_listS growsF_pVarS _ (grows_specElem _ _ (Grows.refl _))

theorem grows_specSwissKnife (m : SwissKnifeM F) (st : St F) :
    Grows (specAttr m.attr st).2 (specSwissKnife m st).2 :=
  grows_listS growsF_pVarS _ (grows_specElem _ _ (Grows.refl _))

theorem grows_specConverter (m : ConverterM F) (st : St F) :
    Grows (specAttr m.attr st).2 (specConverter m st).2 :=
  grows_internS _ (grows_listS growsF_pVarS _ (grows_specElem _ _ (Grows.refl _)))

theorem grows_specIntConverter (m : IntConverterM F) (st : St F) :
    Grows (specAttr m.attr st).2 (specIntConverter m st).2 :=
  grows_internS _ (grows_listS growsF_pVarS _ (grows_specElem _ _ (Grows.refl _)))

theorem grows_specIntReg (m : IntRegM) (st : St F) :
    Grows (specAttr m.attr st).2 (specIntReg m st).2 :=
  grows_invalS _ _ (grows_listS growsF_internS _ (grows_specReg _ (Grows.refl _)))

theorem grows_specMasked (m : MaskedM) (st : St F) :
    Grows (specAttr m.attr st).2 (specMasked m st).2 :=
  grows_invalS _ _ (grows_listS growsF_internS _ (grows_specReg _ (Grows.refl _)))

theorem grows_specPlainReg (m : PlainRegM) (st : St F) :
    Grows (specAttr m.attr st).2 (specPlainReg m st).2 :=
  grows_invalS _ _ (grows_specReg _ (Grows.refl _))

theorem grows_specFloatReg (m : FloatRegM) (st : St F) :
    Grows (specAttr m.attr st).2 (specFloatReg m st).2 :=
  grows_invalS _ _ (grows_specReg _ (Grows.refl _))

theorem grows_specString (m : StringM) (st : St F) :
    Grows (specAttr m.attr st).2 (specString m st).2 := by
  simp only [specString]
  cases m.value with
  | imm s => exact grows_storeS _ (grows_specElem _ _ (Grows.refl _))
  | ref n => exact grows_internS _ (grows_specElem _ _ (Grows.refl _))

theorem grows_specPort (m : PortM) (st : St F) :
    Grows (specAttr m.attr st).2 (specPort m st).2 :=
  grows_optS growsF_chunkS _ (grows_specElem _ _ (Grows.refl _))

theorem grows_specFloat (m : FloatM F) (st : St F) :
    Grows (specAttr m.attr st).2 (specFloat m st).2 := by
  simp only [specFloat]
  have hv := grows_valueS (fun l : FltLit F => Value.float l.val) growsF_irFloatIdS m.value
    (grows_specElem m.elem [] (Grows.refl (specAttr m.attr st).2))
  cases m.min <;> cases m.max <;>
    first
      | exact grows_optS growsF_irFloatS _ (grows_storeS _ (grows_storeS _ hv))
      | exact grows_optS growsF_irFloatS _ ((grows_storeS _ hv).trans (growsF_irFloatIdS _ _))
      | exact grows_optS growsF_irFloatS _ (grows_storeS _ (hv.trans (growsF_irFloatIdS _ _)))
      | exact grows_optS growsF_irFloatS _ ((hv.trans (growsF_irFloatIdS _ _)).trans (growsF_irFloatIdS _ _))


/-! ### StructReg -/

theorem growsF_specEntry : GrowsF (F := F) specEntry := fun e s =>
  grows_listS growsF_internS _ (grows_specElem _ _ (grows_specAttr _ (Grows.refl s)))

theorem grows_maskedOfEntries (reg : RegBase) (en : Endianness) (es : List StructEntryNode)
    {a b : St F} (h : Grows a b) : Grows a (maskedOfEntries reg en es b).2 := by
  induction es generalizing b with
  | nil => exact h
  | cons e es ih => exact ih (grows_invalS _ _ h)

theorem grows_specStruct (s : StructM) (st : St F) : Grows st (specStruct s st).2 :=
  grows_maskedOfEntries _ _ _ (grows_listS growsF_specEntry _ (grows_specReg _ (Grows.refl st)))

/-- every element of `listS f vs` was produced from some `x ∈ vs` in a state between the first
and the last one -/
theorem listS_mem {α β : Type} {f : α → St F → β × St F} (hf : GrowsF f) (vs : List α) (st : St F) :
    ∀ y ∈ (listS f vs st).1, ∃ x ∈ vs, ∃ s, Grows st s ∧ y = (f x s).1 ∧
      Grows (f x s).2 (listS f vs st).2 := by
  induction vs generalizing st with
  | nil => intro y hy; simp [listS] at hy
  | cons a as ih =>
    intro y hy
    simp only [listS, List.mem_cons] at hy
    rcases hy with rfl | hy
    · exact ⟨a, by simp, st, Grows.refl st, rfl, grows_listS hf as (Grows.refl _)⟩
    · obtain ⟨x, hx, s, h1, h2, h3⟩ := ih (f a st).2 y hy
      exact ⟨x, by simp [hx], s, (hf a st).trans h1, h2, h3⟩

/-- each `MaskedIntReg` a `StructReg` yields carries the id its entry's `Name` was interned
under, in a state the final state extends -/
theorem specStruct_names (s : StructM) (st : St F) :
    ∀ n ∈ (specStruct s st).1, ∃ e ∈ s.entries, ∃ si, Grows st si ∧
      n.attr.id = (internS e.attr.name si).1 ∧
      Grows (internS e.attr.name si).2 (specStruct s st).2 := by
  intro n hn
  simp only [specStruct, maskedOfEntries_fst, List.mem_map] at hn
  obtain ⟨y, hy, rfl⟩ := hn
  obtain ⟨e, he, si, h1, h2, h3⟩ := listS_mem growsF_specEntry s.entries (specReg s.reg st).2 y hy
  refine ⟨e, he, si, (grows_specReg _ (Grows.refl st)).trans h1, by rw [h2]; rfl, ?_⟩
  have h4 : Grows (internS e.attr.name si).2 (specEntry e si).2 :=
    grows_listS growsF_internS _ (grows_specElem _ _ (Grows.refl _))
  exact (h4.trans h3).trans (grows_maskedOfEntries _ _ _ (Grows.refl _))

/-! ### Enumeration (debug assertions on: a successful parse stored every entry) -/

theorem grows_specEnumEntry (e : EnumEntryM F) (st : St F) : Grows st (specEnumEntry e st).2 :=
  grows_specElem _ _ (grows_internS _ (grows_fresh (Grows.refl st)))

/-- positionally: the `i`-th id holds the `EnumEntry` node of the `i`-th declared entry: its
normal form `specEnumEntry` (every field: element base, value, numeric value, symbolic name,
self-clearing flag) -/
def EntriesStored (st : St F) : List (EnumEntryM F) → List Nat → Prop
  | [], [] => True
  | e :: es, id :: ids =>
    (∃ n : EnumEntryNode F, Stored st id (.enumEntry n) ∧ n.attr.id = id ∧
      n.symbolic = e.attr.name ∧ n.value = e.value.val ∧
      -- the stored node is the entry's whole normal form (all fields) in some builder state
      ∃ s, n = (specEnumEntry e s).1) ∧ EntriesStored st es ids
  | _, _ => False

theorem EntriesStored.keeps {a b : St F} (h : Keeps a b) :
    ∀ (es : List (EnumEntryM F)) (ids : List Nat), EntriesStored a es ids → EntriesStored b es ids
  | [], [], _ => trivial
  | e :: es, id :: ids, ⟨⟨n, h1, h2⟩, h3⟩ => ⟨⟨n, h.2 _ _ h1, h2⟩, EntriesStored.keeps h es ids h3⟩
  | [], _ :: _, hf => hf.elim
  | _ :: _, [], hf => hf.elim

theorem enumEntriesS_dev (pr : Profile) (hdev : pr.debugAsserts = true) (es : List (EnumEntryM F))
    (st : St F) (ids : List Nat) (st' : St F) (h : enumEntriesS pr es st = .ok (ids, st')) :
    Keeps st st' ∧ EntriesStored st' es ids := by
  induction es generalizing st ids st' with
  | nil =>
    simp only [enumEntriesS, Res.ok.injEq, Prod.mk.injEq] at h
    obtain ⟨rfl, rfl⟩ := h
    exact ⟨Keeps.refl _, trivial⟩
  | cons e es ih =>
    simp only [enumEntriesS] at h
    cases hs : storeNodeS pr (specEnumEntry e st).1.attr.id (.enumEntry (specEnumEntry e st).1)
        (specEnumEntry e st).2 with
    | ok s1 =>
      rw [hs] at h
      simp only [Res.bind_ok'] at h
      cases hr : enumEntriesS pr es s1 with
      | ok r =>
        rw [hr] at h
        simp only [Res.bind_ok', Res.ok.injEq, Prod.mk.injEq] at h
        obtain ⟨rfl, rfl⟩ := h
        obtain ⟨k1, f1⟩ := storeNodeS_dev pr hdev _ _ _ _ hs
        obtain ⟨k2, f2⟩ := ih s1 r.1 r.2 (by rw [hr])
        refine ⟨((grows_specEnumEntry e st).keeps.trans k1).trans k2,
          ⟨_, k2.2 _ _ f1, rfl, rfl, rfl, st, rfl⟩, f2⟩
      | err x => rw [hr] at h; cases h
      | panic => rw [hr] at h; cases h
    | err x => rw [hs] at h; cases h
    | panic => rw [hs] at h; cases h

theorem specEnumeration_dev (pr : Profile) (hdev : pr.debugAsserts = true) (m : EnumerationM F)
    (st : St F) (n : EnumerationNode) (st' : St F) (h : specEnumeration pr m st = .ok (n, st')) :
    n.attr.id = (internS m.attr.name st).1 ∧ Keeps (internS m.attr.name st).2 st' ∧
      EntriesStored st' m.entries n.entries := by
  simp only [specEnumeration] at h
  cases hr : enumEntriesS pr m.entries (specElem m.elem [] (specAttr m.attr st).2).2 with
  | ok en =>
    rw [hr] at h
    simp only [Res.bind_ok', Res.ok.injEq, Prod.mk.injEq] at h
    obtain ⟨rfl, rfl⟩ := h
    obtain ⟨k1, f1⟩ := enumEntriesS_dev pr hdev _ _ en.1 en.2 (by rw [hr])
    have k2 : Keeps en.2 (listS internS m.pSelected (irIntIdS m.value en.2).2).2 :=
      (grows_listS growsF_internS _ (growsF_irIntIdS _ _)).keeps
    refine ⟨rfl, ?_, EntriesStored.keeps k2 _ _ f1⟩
    exact ((grows_specElem m.elem [] (Grows.refl _)).keeps.trans k1).trans k2
  | err x => rw [hr] at h; cases h
  | panic => rw [hr] at h; cases h

end CamVerif.XmlParse
