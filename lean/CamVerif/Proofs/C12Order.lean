/-
C12 helper lemmas: preservation of the delivery-order invariant `Order`.
-/
import CamVerif.Proofs.C12
namespace CamVerif.StreamLoop

theorem Order_step {P : Params} {A : Assembler} {script : List Item} {s s' : State} {a : Step}
    (hp : PoolOK P s) (h : Order P s) (hs : step P A script s a = some s') : Order P s' := by
  have hT := T_ge_two P
  obtain ⟨h1, h2, h3, h4, h5, h6, h7⟩ := h
  cases a <;> simp only [step] at hs
  case checkCancel =>
    unfold stepCheckCancel at hs
    split at hs
    · next hpc =>
      split at hs <;> (injection hs with hs; subst hs)
      · exact ⟨h1, h2, h3, h4, h5, by simp, by simp⟩
      · refine ⟨h1, h2, ?_, by simp, by simp, by simp, by simp⟩
        intro m hm
        rcases h3 m hm with h | ⟨he, hst⟩
        · left; simp only; omega
        · left; have := h4 he; simp only; omega
    · cases hs
  case submitOk =>
    unfold stepSubmitOk at hs
    split at hs
    · next k hpc =>
      simp only [hpc] at h7
      split at hs
      · next sl hsl' =>
        split at hs <;> (injection hs with hs; subst hs)
        · exact ⟨h1, h2, h3, h4, h5, by simp, by simpa using h7⟩
        · next hge =>
          have hl := pending_length_of_submit hp hpc
          refine ⟨h1, h2, h3, h4, h5, by simp, ?_⟩
          simp only [List.length_append, List.length_cons, List.length_nil]
          simp only [PoolOK, hpc] at hp
          refine ⟨?_, h7.2⟩
          have := hp.1
          omega
      · cases hs
    · cases hs
  case pollOk =>
    unfold stepPollOk at hs
    split at hs
    · next hpc =>
      split at hs
      · next x rest d hpend hitem =>
        split at hs
        · next hlen =>
          injection hs with hs; subst hs
          strip_gap
          simp only [hpc, hpend, List.length_cons] at h7
          refine ⟨by simpa using h1, by simpa using h2, by simpa using h3, ?_, ?_, ?_, ?_⟩
          · intro he; have := h4 (by simpa using he); simp only [applyData_iterStart, account_iterStart, gapUpd_iterStart]; omega
          · simp only [applyData_iterStart, account_iterStart, gapUpd_iterStart]; omega
          · intro m hm; by_cases hr : rest = [] <;> simp [hr] at hm
          · by_cases hr : rest = []
            · subst hr
              simp only [if_true, account_enq, gapUpd_enq, applyData_enq, account_iterStart, gapUpd_iterStart, applyData_iterStart]
              simp only [List.length_nil] at h7; exact ⟨by omega, h7.2⟩
            · simp only [if_neg hr, account_enq, gapUpd_enq, applyData_enq, account_iterStart, gapUpd_iterStart, applyData_iterStart]
              exact ⟨by omega, h7.2⟩
        · cases hs
      · cases hs
    · cases hs
  case parse =>
    unfold stepParse at hs
    split at hs
    · next hpc =>
      simp only [hpc] at h7
      split at hs
      · split at hs
        · dsimp only at hs
          split at hs
          · injection hs with hs; subst hs
            exact ⟨h1, h2, h3, h4, h5, by simp, by simp⟩
          split at hs <;> (injection hs with hs; subst hs) <;>
          (refine ⟨h1, h2, h3, h4, h5, ?_, by simp⟩
           intro m hm
           cases hm <;> exact ⟨rfl, h7.2, by simp only; omega⟩)
        · injection hs with hs; subst hs; exact ⟨h1, h2, h3, h4, h5, by simp, by simp⟩
      · injection hs with hs; subst hs; exact ⟨h1, h2, h3, h4, h5, by simp, by simp⟩
    · cases hs
  case trySend =>
    unfold stepTrySend at hs
    split at hs
    · next m hpc =>
      split at hs
      · split at hs <;> (injection hs with hs; subst hs)
        · next o =>
          obtain ⟨e1, e2, e3⟩ := h6 o hpc
          refine ⟨by simp [okMsgs, ← h1], ?_, ?_, by intro _; exact e3, h5, by simp, by simp⟩
          · simp only [List.map_append, List.map_cons, List.map_nil]
            rw [List.pairwise_append]
            refine ⟨h2, by simp, ?_⟩
            intro a ha b hb
            simp only [List.mem_singleton] at hb; subst hb
            simp only [List.mem_map] at ha
            obtain ⟨m', hm', rfl⟩ := ha
            rcases h3 m' hm' with h | ⟨he, _⟩
            · omega
            · rw [e2] at he; cases he
          · intro m' hm'
            simp only [List.mem_append, List.mem_singleton] at hm'
            rcases hm' with hm' | rfl
            · rcases h3 m' hm' with h | ⟨he, _⟩
              · left; exact h
              · rw [e2] at he; cases he
            · right; exact ⟨rfl, e1⟩
        · exact ⟨by simp [okMsgs, ← h1], h2, h3, h4, h5, by simp, by simp⟩
      · split at hs <;> (injection hs with hs; subst hs) <;>
          exact ⟨h1, h2, h3, h4, h5, by simp, by simp⟩
    · cases hs
  case rxRecv =>
    unfold stepRxRecv at hs
    split at hs
    · split at hs
      · next m rest hch =>
        injection hs with hs; subst hs
        refine ⟨?_, h2, h3, h4, h5, h6, h7⟩
        rw [← h1, hch]; simp [okMsgs]
      · next e rest hch =>
        injection hs with hs; subst hs
        refine ⟨?_, h2, h3, h4, h5, h6, h7⟩
        rw [← h1, hch]; simp [okMsgs]
      · cases hs
    · cases hs
  case obtainReuse =>
    step_split
    rename_i hpc _ _ _
    simp only [hpc] at h7
    exact ⟨h1, h2, h3, h4, h5, by simp, by simpa using h7⟩
  case obtainBack =>
    step_split
    rename_i hc _ _ _ _
    simp only [hc.1] at h7
    exact ⟨h1, h2, h3, h4, h5, by simp, by simpa using h7⟩
  case obtainAlloc =>
    step_split
    rename_i hc
    simp only [hc.1] at h7
    exact ⟨h1, h2, h3, h4, h5, by simp, by simpa using h7⟩
  all_goals (
    step_split <;>
    (first
      | exact ⟨h1, h2, h3, h4, h5, h6, h7⟩
      | exact ⟨h1, h2, h3, h4, h5, by simp, by simp⟩
      | (refine ⟨h1, h2, h3, h4, h5, ?_, ?_⟩ <;> simp_all)
      | (refine ⟨h1, h2, h3, ?_, ?_, by simp, by simp⟩
         · intro he; have := h4 he; simp only; omega
         · simp only; omega)))

end CamVerif.StreamLoop
