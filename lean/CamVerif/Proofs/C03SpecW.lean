/-
C03 helper lemmas: successful writes of the interpreter are exactly the writes of the
reference semantics (`GenApiSem.setSem`), with the same final value store and device
image (graphs without formula nodes).
-/
import CamVerif.Proofs.C03Spec
namespace CamVerif.C03
open CamVerif CamVerif.GenApi CamVerif.GenApiSem

variable {F E : Type} {cx : Ctx F E}

theorem M.eff_bind_ok_iff {α β : Type} {m : M F α} {f : α → M F β} {s s2 : S F} {b : β} :
    M.eff (m >>= f) s = (.ok b, s2) ↔ ∃ a s1, M.eff m s = (.ok a, s1) ∧ M.eff (f a) s1 = (.ok b, s2) := by
  constructor
  · exact M.eff_bind_ok
  · rintro ⟨a, s1, h1, h2⟩
    rw [M.eff_bind_of_ok h1, h2]

/-- reads and the reference value semantics coincide (both directions) -/
structure ValIff (cx : Ctx F E) (d : Nat) : Prop where
  int : ∀ n (s : S F) v, R.val ((execRec cx d).intValue n) s = .ok v ↔ (valSem cx d).int n s = some v

theorem valIff (cx : Ctx F E) (hnf : NoFormulaNodes cx) (d : Nat) : ValIff cx d :=
  ⟨fun n s v => ⟨(valIH cx hnf d).int n s v, (specIH cx hnf d).int n s v⟩⟩

/-- induction hypothesis: successful writes one level down are the reference writes -/
structure SetIH (cx : Ctx F E) (d : Nat) : Prop where
  int : ∀ n v (s s' : S F), M.eff ((execRec cx d).intSet n v) s = (.ok (), s') ↔ (setSem cx d).int n v s = some s'
  float : ∀ n v (s s' : S F), M.eff ((execRec cx d).floatSet n v) s = (.ok (), s') ↔ (setSem cx d).float n v s = some s'
  str : ∀ n v (s s' : S F), M.eff ((execRec cx d).strSet n v) s = (.ok (), s') ↔ (setSem cx d).str n v s = some s'
  enum : ∀ n v (s s' : S F), M.eff ((execRec cx d).enumSetByValue n v) s = (.ok (), s') ↔ (setSem cx d).enum n v s = some s'
  bool : ∀ n v (s s' : S F), M.eff ((execRec cx d).boolSet n v) s = (.ok (), s') ↔ (setSem cx d).bool n v s = some s'

theorem slotUpdate_eff (id : SlotId) (x : ValueData F) (s : S F) :
    M.eff (slotUpdate id x) s = (.ok (), slotSet s id x) := rfl

theorem numSetInt_iff {d : Nat} (ih : SetIH cx d) {p : NodeId} {v : Int} {s s' : S F} :
    M.eff (nidIntSet cx (execRec cx d) p v) s = (.ok (), s') ↔ numSetInt cx (setSem cx d) p v s = some s' := by
  unfold nidIntSet numSetInt
  try spec_norm
  by_cases h1 : isIntKind cx p = true
  · simp only [h1, if_true]; exact ih.int _ _ _ _
  · by_cases h2 : isFloatKind cx p = true
    · simp only [h1, h2, if_true, Bool.false_eq_true, if_false]; exact ih.float _ _ _ _
    · by_cases h3 : isEnumKind cx p = true
      · simp only [h1, h2, h3, if_true, Bool.false_eq_true, if_false]; exact ih.enum _ _ _ _
      · simp [h1, h2, h3]

theorem numSetFloat_iff {d : Nat} (ih : SetIH cx d) {p : NodeId} {v : F} {s s' : S F} :
    M.eff (nidFloatSet cx (execRec cx d) p v) s = (.ok (), s') ↔ numSetFloat cx (setSem cx d) p v s = some s' := by
  unfold nidFloatSet numSetFloat
  try spec_norm
  by_cases h1 : isIntKind cx p = true
  · simp only [h1, if_true]; exact ih.int _ _ _ _
  · by_cases h2 : isFloatKind cx p = true
    · simp only [h1, h2, if_true, Bool.false_eq_true, if_false]; exact ih.float _ _ _ _
    · by_cases h3 : isEnumKind cx p = true
      · simp only [h1, h2, h3, if_true, Bool.false_eq_true, if_false]; exact ih.enum _ _ _ _
      · simp [h1, h2, h3]

theorem sonSetInt_iff {d : Nat} (ih : SetIH cx d) {t : ImmOrPNode SlotId} {v : Int} {s s' : S F} :
    M.eff (slotOrNodeIntSet cx (execRec cx d) t v) s = (.ok (), s') ↔ sonSetInt cx (setSem cx d) t v s = some s' := by
  cases t with
  | imm id => simp [slotOrNodeIntSet, sonSetInt, slotUpdate_eff, eq_comm]
  | pnode p => exact numSetInt_iff ih

theorem sonSetFloat_iff {d : Nat} (ih : SetIH cx d) {t : ImmOrPNode SlotId} {v : F} {s s' : S F} :
    M.eff (slotOrNodeFloatSet cx (execRec cx d) t v) s = (.ok (), s') ↔ sonSetFloat cx (setSem cx d) t v s = some s' := by
  cases t with
  | imm id => simp [slotOrNodeFloatSet, sonSetFloat, slotUpdate_eff, eq_comm]
  | pnode p => exact numSetFloat_iff ih

theorem copiesSetInt_iff {d : Nat} (ih : SetIH cx d) {v : Int} :
    ∀ (cs : List NodeId) (s s' : S F),
      M.eff (copiesIntSet cx (execRec cx d) cs v) s = (.ok (), s') ↔ copiesSetInt cx (setSem cx d) cs v s = some s'
  | [], s, s' => by simp [copiesIntSet, copiesSetInt, eq_comm]
  | c :: cs, s, s' => by
    simp only [copiesIntSet, copiesSetInt, M.eff_bind_ok_iff, Option.bind_eq_some_iff]
    constructor
    · rintro ⟨a, s1, h1, h2⟩
      exact ⟨s1, (numSetInt_iff ih).mp h1, (copiesSetInt_iff ih cs s1 s').mp h2⟩
    · rintro ⟨s1, h1, h2⟩
      exact ⟨(), s1, (numSetInt_iff ih).mpr h1, (copiesSetInt_iff ih cs s1 s').mpr h2⟩

theorem copiesSetFloat_iff {d : Nat} (ih : SetIH cx d) {v : F} :
    ∀ (cs : List NodeId) (s s' : S F),
      M.eff (copiesFloatSet cx (execRec cx d) cs v) s = (.ok (), s') ↔ copiesSetFloat cx (setSem cx d) cs v s = some s'
  | [], s, s' => by simp [copiesFloatSet, copiesSetFloat, eq_comm]
  | c :: cs, s, s' => by
    simp only [copiesFloatSet, copiesSetFloat, M.eff_bind_ok_iff, Option.bind_eq_some_iff]
    constructor
    · rintro ⟨a, s1, h1, h2⟩
      exact ⟨s1, (numSetFloat_iff ih).mp h1, (copiesSetFloat_iff ih cs s1 s').mp h2⟩
    · rintro ⟨s1, h1, h2⟩
      exact ⟨(), s1, (numSetFloat_iff ih).mpr h1, (copiesSetFloat_iff ih cs s1 s').mpr h2⟩

theorem pIndexIndex_iff {d : Nat} (iv : ValIff cx d) {sel : NodeId} {s : S F} {i : Int} :
    R.val (pIndexIndex cx (execRec cx d) sel) s = .ok i ↔ (isIntKind cx sel = true ∧ (valSem cx d).int sel s = some i) := by
  unfold pIndexIndex
  by_cases h1 : isIntKind cx sel = true
  · simp only [h1, if_true, true_and]; exact iv.int _ _ _
  · simp [h1]

theorem vkSetInt_iff {d : Nat} (iv : ValIff cx d) (ih : SetIH cx d) {vk : ValueKind} {v : Int} {s s' : S F} :
    M.eff (vkIntSet cx (execRec cx d) vk v) s = (.ok (), s') ↔ vkSetInt cx (valSem cx d) (setSem cx d) vk v s = some s' := by
  cases vk with
  | value id => simp [vkIntSet, vkSetInt, slotUpdate_eff, eq_comm]
  | pValue p cs =>
    simp only [vkIntSet, pValueIntSet, vkSetInt, M.eff_bind_ok_iff, Option.bind_eq_some_iff]
    constructor
    · rintro ⟨a, s1, h1, h2⟩
      exact ⟨s1, (numSetInt_iff ih).mp h1, (copiesSetInt_iff ih cs s1 s').mp h2⟩
    · rintro ⟨s1, h1, h2⟩
      exact ⟨(), s1, (numSetInt_iff ih).mpr h1, (copiesSetInt_iff ih cs s1 s').mpr h2⟩
  | pIndex sel es dflt =>
    simp only [vkIntSet, vkSetInt, M.eff_bind_ok_iff, M.eff_ofR]
    try spec_norm
    constructor
    · rintro ⟨i, s1, h1, h2⟩
      simp only [Prod.mk.injEq] at h1
      obtain ⟨hi, rfl⟩ := h1
      obtain ⟨hk, hv⟩ := (pIndexIndex_iff iv).mp hi
      simp [hk, hv, (sonSetInt_iff ih).mp h2]
    · intro h
      by_cases hk : isIntKind cx sel = true
      · simp only [hk, if_true, Option.bind_eq_some_iff] at h
        obtain ⟨i, hv, h⟩ := h
        exact ⟨i, s, by simp [(pIndexIndex_iff iv).mpr ⟨hk, hv⟩], (sonSetInt_iff ih).mpr h⟩
      · simp [hk] at h

theorem vkSetFloat_iff {d : Nat} (iv : ValIff cx d) (ih : SetIH cx d) {vk : ValueKind} {v : F} {s s' : S F} :
    M.eff (vkFloatSet cx (execRec cx d) vk v) s = (.ok (), s') ↔ vkSetFloat cx (valSem cx d) (setSem cx d) vk v s = some s' := by
  cases vk with
  | value id => simp [vkFloatSet, vkSetFloat, slotUpdate_eff, eq_comm]
  | pValue p cs =>
    simp only [vkFloatSet, pValueFloatSet, vkSetFloat, M.eff_bind_ok_iff, Option.bind_eq_some_iff]
    constructor
    · rintro ⟨a, s1, h1, h2⟩
      exact ⟨s1, (numSetFloat_iff ih).mp h1, (copiesSetFloat_iff ih cs s1 s').mp h2⟩
    · rintro ⟨s1, h1, h2⟩
      exact ⟨(), s1, (numSetFloat_iff ih).mpr h1, (copiesSetFloat_iff ih cs s1 s').mpr h2⟩
  | pIndex sel es dflt =>
    simp only [vkFloatSet, vkSetFloat, M.eff_bind_ok_iff, M.eff_ofR]
    try spec_norm
    constructor
    · rintro ⟨i, s1, h1, h2⟩
      simp only [Prod.mk.injEq] at h1
      obtain ⟨hi, rfl⟩ := h1
      obtain ⟨hk, hv⟩ := (pIndexIndex_iff iv).mp hi
      simp [hk, hv, (sonSetFloat_iff ih).mp h2]
    · intro h
      by_cases hk : isIntKind cx sel = true
      · simp only [hk, if_true, Option.bind_eq_some_iff] at h
        obtain ⟨i, hv, h⟩ := h
        exact ⟨i, s, by simp [(pIndexIndex_iff iv).mpr ⟨hk, hv⟩], (sonSetFloat_iff ih).mpr h⟩
      · simp [hk] at h

/-! ### register writes -/

theorem portWrite_iff {port : NodeId} {a : Int} {buf : Bytes} {s s' : S F} :
    M.eff (portWrite cx port a buf) s = (.ok (), s') ↔
      (match cx.graph port with
       | some (.port _ false) => (s.dev.write a buf).map fun d => ({ s with dev := d } : S F)
       | _ => .none) = some s' := by
  unfold portWrite
  cases hg : cx.graph port with
  | none => simp [M.eff, M.err]
  | some nd =>
    cases nd <;> try (simp [M.eff, M.err]; done)
    rename_i b chunk
    cases chunk with
    | true => simp [M.eff, M.panic]
    | false =>
      simp only [if_false, M.eff]
      cases hw : s.dev.write a buf with
      | none => simp [hw]
      | some d' => simp [hw, eq_comm]

theorem regLength_iff {d : Nat} (ihB : ValIH cx d) (ihA : SpecIH cx d) {rb : RegBase} {s : S F} {l : Int} :
    R.val (regLength cx (execRec cx d) rb) s = .ok l ↔ immInt cx (valSem cx d) rb.length s = some l :=
  ⟨immIntValue_spec ihB, immInt_exec ihA⟩

theorem regAddress_iff {d : Nat} (ihB : ValIH cx d) (ihA : SpecIH cx d) {rb : RegBase} {s : S F} {a : Int} :
    R.val (regAddress cx (execRec cx d) rb) s = .ok a ↔ addrSum cx (valSem cx d) rb.addrs 0 s = some a :=
  ⟨sumAddrs_spec ihB _ _ _, addrSum_exec ihA _ _ _⟩

theorem lenMatches_iff (n : Nat) (l : Int) : lenMatches n l = true ↔ (0 ≤ l ∧ n = l.toNat) := by
  simp [lenMatches]

theorem writeAndCache_iff {d : Nat} (ihB : ValIH cx d) (ihA : SpecIH cx d) {rb : RegBase} {buf : Bytes}
    {s s' : S F} :
    M.eff (writeAndCache cx (execRec cx d) rb buf) s = (.ok (), s') ↔
      regWriteBytes cx (valSem cx d) rb buf s = some s' := by
  simp only [writeAndCache, regWriteBytes, M.eff_bind_ok_iff, M.eff_ofR, Option.bind_eq_some_iff, imageWrite_eq,
    effectiveAddrs_eq]
  constructor
  · rintro ⟨l, s1, h1, h2⟩
    simp only [Prod.mk.injEq] at h1
    obtain ⟨hl, rfl⟩ := h1
    refine ⟨l, (regLength_iff ihB ihA).mp hl, ?_⟩
    by_cases hm : lenMatches buf.length l = true
    · simp only [hm, Bool.not_true, Bool.false_eq_true, if_false, M.eff_bind_ok_iff, M.eff_ofR] at h2
      obtain ⟨a, s2, h3, h4⟩ := h2
      simp only [Prod.mk.injEq] at h3
      obtain ⟨ha, rfl⟩ := h3
      have := (lenMatches_iff _ _).mp hm
      simp only [this, and_self, if_true, Option.bind_eq_some_iff]
      exact ⟨a, (regAddress_iff ihB ihA).mp ha, portWrite_iff.mp h4⟩
    · simp [hm] at h2
  · rintro ⟨l, hl, h⟩
    refine ⟨l, s, by simp [(regLength_iff ihB ihA).mpr hl], ?_⟩
    by_cases hc : 0 ≤ l ∧ buf.length = l.toNat
    · simp only [hc, and_self, if_true, Option.bind_eq_some_iff] at h
      obtain ⟨a, ha, h⟩ := h
      have hm : lenMatches buf.length l = true := (lenMatches_iff _ _).mpr hc
      simp only [hm, Bool.not_true, Bool.false_eq_true, if_false, M.eff_bind_ok_iff, M.eff_ofR]
      exact ⟨a, s, by simp [(regAddress_iff ihB ihA).mpr ha], portWrite_iff.mpr h⟩
    · simp [hc] at h

theorem allocLen_iff (l : Int) (n : Nat) : allocLen l = .ok n ↔ (0 ≤ l ∧ n = l.toNat) := by
  unfold allocLen
  by_cases h : 0 ≤ l
  · simp [h, eq_comm]
  · simp [h]

theorem resOpt_iff {α : Type} {x : Res Err α} {a : α} : x = .ok a ↔ resOpt x = some a :=
  ⟨resOpt_ok, resOpt_some⟩

theorem intRegSet_iff {d : Nat} (ihB : ValIH cx d) (ihA : SpecIH cx d) {rb : RegBase} {sign : Sign}
    {endian : Endian} {v : Int} {s s' : S F} :
    M.eff (intRegSet cx (execRec cx d) rb sign endian v) s = (.ok (), s') ↔
      ((immInt cx (valSem cx d) rb.length s).bind fun l =>
        if 0 ≤ l then
          (resOpt (cx.ops.bytesFromInt v l.toNat endian sign)).bind fun buf =>
            regWriteBytes cx (valSem cx d) rb buf s
        else .none) = some s' := by
  simp only [intRegSet, M.eff_bind_ok_iff, M.eff_ofR, M.eff_ofRes, Option.bind_eq_some_iff, Prod.mk.injEq]
  constructor
  · rintro ⟨l, s1, ⟨hl, rfl⟩, n, s2, ⟨hn, rfl⟩, buf, s3, ⟨hb, rfl⟩, hw⟩
    obtain ⟨hl0, rfl⟩ := (allocLen_iff _ _).mp hn
    exact ⟨l, (regLength_iff ihB ihA).mp hl, by
      simp only [hl0, if_true, Option.bind_eq_some_iff]
      exact ⟨buf, resOpt_ok hb, (writeAndCache_iff ihB ihA).mp hw⟩⟩
  · rintro ⟨l, hl, h⟩
    by_cases hl0 : 0 ≤ l
    · simp only [hl0, if_true, Option.bind_eq_some_iff] at h
      obtain ⟨buf, hb, hw⟩ := h
      exact ⟨l, s, ⟨(regLength_iff ihB ihA).mpr hl, rfl⟩, l.toNat, s, ⟨(allocLen_iff _ _).mpr ⟨hl0, rfl⟩, rfl⟩,
        buf, s, ⟨resOpt_some hb, rfl⟩, (writeAndCache_iff ihB ihA).mpr hw⟩
    · simp [hl0] at h

theorem floatRegSet_iff {d : Nat} (ihB : ValIH cx d) (ihA : SpecIH cx d) {rb : RegBase}
    {endian : Endian} {v : F} {s s' : S F} :
    M.eff (floatRegSet cx (execRec cx d) rb endian v) s = (.ok (), s') ↔
      ((immInt cx (valSem cx d) rb.length s).bind fun l =>
        if 0 ≤ l then
          (resOpt (cx.ops.bytesFromFloat v l.toNat endian)).bind fun buf =>
            regWriteBytes cx (valSem cx d) rb buf s
        else .none) = some s' := by
  simp only [floatRegSet, M.eff_bind_ok_iff, M.eff_ofR, M.eff_ofRes, Option.bind_eq_some_iff, Prod.mk.injEq]
  constructor
  · rintro ⟨l, s1, ⟨hl, rfl⟩, n, s2, ⟨hn, rfl⟩, buf, s3, ⟨hb, rfl⟩, hw⟩
    obtain ⟨hl0, rfl⟩ := (allocLen_iff _ _).mp hn
    exact ⟨l, (regLength_iff ihB ihA).mp hl, by
      simp only [hl0, if_true, Option.bind_eq_some_iff]
      exact ⟨buf, resOpt_ok hb, (writeAndCache_iff ihB ihA).mp hw⟩⟩
  · rintro ⟨l, hl, h⟩
    by_cases hl0 : 0 ≤ l
    · simp only [hl0, if_true, Option.bind_eq_some_iff] at h
      obtain ⟨buf, hb, hw⟩ := h
      exact ⟨l, s, ⟨(regLength_iff ihB ihA).mpr hl, rfl⟩, l.toNat, s, ⟨(allocLen_iff _ _).mpr ⟨hl0, rfl⟩, rfl⟩,
        buf, s, ⟨resOpt_some hb, rfl⟩, (writeAndCache_iff ihB ihA).mpr hw⟩
    · simp [hl0] at h

theorem withRead_iff {α : Type} {d : Nat} (ihB : ValIH cx d) (ihA : SpecIH cx d) {rb : RegBase}
    {f : Bytes → Res Err α} {s : S F} {v : α} :
    R.val (withRead cx (execRec cx d) rb f) s = .ok v ↔
      ∃ bs, regBytes cx (valSem cx d) rb s = some bs ∧ f bs = .ok v := by
  constructor
  · exact withRead_spec ihB
  · rintro ⟨bs, hb, hf⟩
    rw [regBytes_exec ihA hb, hf]

theorem maskedSet_iff {d : Nat} (ihB : ValIH cx d) (ihA : SpecIH cx d) {rb : RegBase} {mask : BitMask}
    {sign : Sign} {endian : Endian} {v : Int} {s s' : S F} :
    M.eff (maskedSet cx (execRec cx d) rb mask sign endian v) s = (.ok (), s') ↔
      ((regBytes cx (valSem cx d) rb s).bind fun bs =>
       (resOpt (cx.ops.intFromSlice bs endian sign)).bind fun old =>
       (immInt cx (valSem cx d) rb.length s).bind fun l =>
       (resOpt (cx.ops.maskedValue cx.profile mask old v (asUsize l) endian sign)).bind fun new =>
        if 0 ≤ l then
          (resOpt (cx.ops.bytesFromInt new l.toNat endian sign)).bind fun buf =>
            regWriteBytes cx (valSem cx d) rb buf s
        else .none) = some s' := by
  simp only [maskedSet, M.eff_bind_ok_iff, M.eff_ofR, M.eff_ofRes, Option.bind_eq_some_iff, Prod.mk.injEq]
  constructor
  · rintro ⟨old, s1, ⟨ho, rfl⟩, l, s2, ⟨hl, rfl⟩, new, s3, ⟨hnew, rfl⟩, n, s4, ⟨hn, rfl⟩, buf, s5, ⟨hb, rfl⟩, hw⟩
    obtain ⟨bs, hbs, hf⟩ := (withRead_iff ihB ihA).mp ho
    obtain ⟨hl0, rfl⟩ := (allocLen_iff _ _).mp hn
    refine ⟨bs, hbs, old, resOpt_ok hf, l, (regLength_iff ihB ihA).mp hl, new, resOpt_ok hnew, ?_⟩
    simp only [hl0, if_true, Option.bind_eq_some_iff]
    exact ⟨buf, resOpt_ok hb, (writeAndCache_iff ihB ihA).mp hw⟩
  · rintro ⟨bs, hbs, old, hf, l, hl, new, hnew, h⟩
    by_cases hl0 : 0 ≤ l
    · simp only [hl0, if_true, Option.bind_eq_some_iff] at h
      obtain ⟨buf, hb, hw⟩ := h
      exact ⟨old, s, ⟨(withRead_iff ihB ihA).mpr ⟨bs, hbs, resOpt_some hf⟩, rfl⟩,
        l, s, ⟨(regLength_iff ihB ihA).mpr hl, rfl⟩, new, s, ⟨resOpt_some hnew, rfl⟩,
        l.toNat, s, ⟨(allocLen_iff _ _).mpr ⟨hl0, rfl⟩, rfl⟩, buf, s, ⟨resOpt_some hb, rfl⟩,
        (writeAndCache_iff ihB ihA).mpr hw⟩
    · simp [hl0] at h

theorem strRegSet_iff {d : Nat} (ihB : ValIH cx d) (ihA : SpecIH cx d) {rb : RegBase} {v : Bytes}
    {s s' : S F} :
    M.eff (strRegSet cx (execRec cx d) rb v) s = (.ok (), s') ↔
      ((immInt cx (valSem cx d) rb.length s).bind fun l =>
        if v.all (· < 128) ∧ ¬ v.any (· == 0) ∧ 0 ≤ l ∧ v.length ≤ l.toNat then
          regWriteBytes cx (valSem cx d) rb (v ++ List.replicate (l.toNat - v.length) 0) s
        else .none) = some s' := by
  simp only [strRegSet, M.eff_bind_ok_iff, M.eff_ofR, Option.bind_eq_some_iff, Prod.mk.injEq]
  constructor
  · rintro ⟨l, s1, ⟨hl, rfl⟩, h⟩
    refine ⟨l, (regLength_iff ihB ihA).mp hl, ?_⟩
    by_cases h1 : v.all (· < 128) = true
    · by_cases h2 : v.any (· == 0) = true
      · simp [h1, h2] at h
      · by_cases h3 : (decide (0 ≤ l) && decide (v.length > l.toNat)) = true
        · simp [h1, h2, h3] at h
        · simp only [h1, h2, h3, Bool.not_true, Bool.false_eq_true, if_false, M.eff_bind_ok_iff,
            M.eff_ofRes, Prod.mk.injEq] at h
          obtain ⟨n, s2, ⟨hn, rfl⟩, hw⟩ := h
          obtain ⟨hl0, rfl⟩ := (allocLen_iff _ _).mp hn
          have h4 : v.length ≤ l.toNat := by
            simp only [hl0, decide_true, Bool.true_and, decide_eq_true_eq, Nat.not_lt] at h3
            omega
          simp only [h1, h2, hl0, h4, not_false_eq_true, and_self, if_true]
          exact (writeAndCache_iff ihB ihA).mp hw
    · simp [h1] at h
  · rintro ⟨l, hl, h⟩
    refine ⟨l, s, ⟨(regLength_iff ihB ihA).mpr hl, rfl⟩, ?_⟩
    by_cases hc : v.all (· < 128) ∧ ¬ v.any (· == 0) ∧ 0 ≤ l ∧ v.length ≤ l.toNat
    · simp only [hc, not_false_eq_true, and_self, if_true] at h
      obtain ⟨h1, h2, hl0, h4⟩ := hc
      have h3 : (decide (0 ≤ l) && decide (v.length > l.toNat)) = false := by
        simp only [hl0, decide_true, Bool.true_and, decide_eq_false_iff_not, Nat.not_lt]; omega
      have h2' : v.any (· == 0) = false := Bool.eq_false_iff.mpr h2
      simp only [h1, h2', h3, Bool.not_true, Bool.false_eq_true, if_false, M.eff_bind_ok_iff,
        M.eff_ofRes, Prod.mk.injEq]
      exact ⟨l.toNat, s, ⟨(allocLen_iff _ _).mpr ⟨hl0, rfl⟩, rfl⟩, (writeAndCache_iff ihB ihA).mpr h⟩
    · rw [if_neg hc] at h; cases h

/-! ### per interface, induction -/

theorem intSetF_iff {d : Nat} {n : NodeId} (hn : NoFormulaAt cx n) (ihB : ValIH cx d) (ihA : SpecIH cx d)
    (ih : SetIH cx d) {v : Int} {s s' : S F} :
    M.eff (intSetF cx (execRec cx d) n v) s = (.ok (), s') ↔
      (setStep cx (valSem cx d) (setSem cx d)).int n v s = some s' := by
  unfold intSetF
  simp only [setStep]
  unfold NoFormulaAt at hn
  cases hg : cx.graph n with
  | none => simp
  | some nd =>
    cases nd <;> simp only [hg] at hn ⊢ <;> try (simp; done)
    · exact vkSetInt_iff ⟨fun n s v => ⟨ihB.int n s v, ihA.int n s v⟩⟩ ih
    · exact intRegSet_iff ihB ihA
    · exact maskedSet_iff ihB ihA

theorem floatSetF_iff {d : Nat} {n : NodeId} (hn : NoFormulaAt cx n) (ihB : ValIH cx d) (ihA : SpecIH cx d)
    (ih : SetIH cx d) {v : F} {s s' : S F} :
    M.eff (floatSetF cx (execRec cx d) n v) s = (.ok (), s') ↔
      (setStep cx (valSem cx d) (setSem cx d)).float n v s = some s' := by
  unfold floatSetF
  simp only [setStep]
  unfold NoFormulaAt at hn
  cases hg : cx.graph n with
  | none => simp
  | some nd =>
    cases nd <;> simp only [hg] at hn ⊢ <;> try (simp; done)
    · exact vkSetFloat_iff ⟨fun n s v => ⟨ihB.int n s v, ihA.int n s v⟩⟩ ih
    · exact floatRegSet_iff ihB ihA

theorem strSetF_iff {d : Nat} (ihB : ValIH cx d) (ihA : SpecIH cx d)
    (ih : SetIH cx d) {n : NodeId} {v : Bytes} {s s' : S F} :
    M.eff (strSetF cx (execRec cx d) n v) s = (.ok (), s') ↔
      (setStep cx (valSem cx d) (setSem cx d)).str n v s = some s' := by
  unfold strSetF
  simp only [setStep]
  cases hg : cx.graph n with
  | none => simp
  | some nd =>
    cases nd <;> simp only <;> try (simp; done)
    · rename_i b value
      cases value with
      | imm id => simp [slotOrNodeStrSet, slotUpdate_eff, eq_comm]
      | pnode p =>
        simp only [slotOrNodeStrSet, nidStrSet, strValued_eq]
        by_cases hk : isStrKind cx p = true
        · simp only [hk, if_true]; exact ih.str _ _ _ _
        · simp [hk]
    · exact strRegSet_iff ihB ihA

theorem enumSetByValueF_iff {d : Nat} (ih : SetIH cx d) {n : NodeId} {v : Int} {s s' : S F} :
    M.eff (enumSetByValueF cx (execRec cx d) n v) s = (.ok (), s') ↔
      (setStep cx (valSem cx d) (setSem cx d)).enum n v s = some s' := by
  unfold enumSetByValueF
  simp only [setStep]
  cases hg : cx.graph n with
  | none => simp
  | some nd =>
    cases nd <;> simp only <;> try (simp; done)
    rename_i b entries value
    simp only [enumSetByValueOf, M.eff_bind_ok_iff, M.eff_ofRes, Prod.mk.injEq, firstEntryWithValue_eq]
    cases hf : findEntryByValue cx entries v with
    | ok o =>
      simp only [resOpt, Option.join_some]
      cases o with
      | none => simp
      | some e =>
        constructor
        · rintro ⟨o', s1, ⟨ho, rfl⟩, h⟩
          cases ho
          exact (sonSetInt_iff ih).mp h
        · intro h
          exact ⟨some e, s, ⟨rfl, rfl⟩, (sonSetInt_iff ih).mpr h⟩
    | err e => simp [resOpt]
    | panic => simp [resOpt]

theorem boolSetF_iffI {d : Nat} (ih : SetIH cx d) (n : NodeId) (b : Bool) (s s' : S F) :
    M.eff (boolSetF cx (execRec cx d) n b) s = (.ok (), s') ↔ specBoolSetP cx (setSem cx d) n b s = some s' := by
  unfold boolSetF specBoolSetP
  cases hg : cx.graph n with
  | none => simp
  | some nd =>
    cases nd <;> simp only <;> try (simp; done)
    exact sonSetInt_iff ih

/-- successful writes at depth `d` are the reference writes (no formula nodes) -/
theorem setIH (cx : Ctx F E) (hnf : NoFormulaNodes cx) : ∀ d, SetIH cx d
  | 0 => by
    constructor <;> intro n v s s' <;> simp [execRec, Rec.bottom, setSem, SetSem.none, M.eff, M.err]
  | d + 1 => by
    have ih := setIH cx hnf d
    have ihB := valIH cx hnf d
    have ihA := specIH cx hnf d
    constructor <;> intro n v s s' <;> simp only [execRec, step, setSem]
    · exact intSetF_iff (hnf _) ihB ihA ih
    · exact floatSetF_iff (hnf _) ihB ihA ih
    · exact strSetF_iff ihB ihA ih
    · exact enumSetByValueF_iff ih
    · exact boolSetF_iffI ih n v s s'

/-- the three inductions together (under `NoFormulaNodes` here; for every graph in
Proofs/C03SpecFormula.lean) -/
structure IHs (cx : Ctx F E) : Prop where
  val : ∀ d, ValIH cx d
  spec : ∀ d, SpecIH cx d
  set : ∀ d, SetIH cx d

theorem IHs.ofNoFormula (cx : Ctx F E) (hnf : NoFormulaNodes cx) : IHs cx :=
  ⟨valIH cx hnf, specIH cx hnf, setIH cx hnf⟩

end CamVerif.C03
