/-
Helper lemmas for C06, part D: whole `read` / `write` operations against a conforming
device, by induction over the chunk lists (C10), on top of the single-transaction lemmas
of `Proofs/C06.lean`.
-/
import CamVerif.Proofs.C06
namespace CamVerif.C06
open CamVerif CamVerif.Control CamVerif.Spec.Conf
open CamVerif.Spec.GenCP (decodeCmd CmdFields CmdBody)

/-! ## D. Whole operations against a conforming device -/

/-- progress of the handle / device counters along a run -/
structure Prog where
  id : Nat
  bufLen : Nat
  txn : Nat

/-- one transaction of a conforming run: the command and the final acknowledge (as a function
of the request id). -/
structure Step where
  cmd : Cmd.Cmd
  final : Nat → Bytes

/-- chronological events and final counters of a run of conforming transactions. -/
def runEvents (plan : Nat → Nat) (ms t : Nat) : List Step → Prog → List Ev × Prog
  | [], pr => ([], pr)
  | st :: rest, pr =>
    let bl := max pr.bufLen (max st.cmd.cmdLen st.cmd.maximumAckLen)
    let r := runEvents plan ms t rest ⟨(pr.id + 1) % 2 ^ 16, bl, pr.txn + 1⟩
    (txnEvents bl t (st.cmd.serialize pr.id) pr.id ms [] (st.final pr.id) (plan pr.txn) ++ r.1, r.2)

@[simp] theorem staleEvents_nil (bl t : Nat) : staleEvents bl t [] = [] := rfl

theorem runEvents_append (plan : Nat → Nat) (ms t : Nat) (xs ys : List Step) (pr : Prog) :
    runEvents plan ms t (xs ++ ys) pr =
      ((runEvents plan ms t xs pr).1 ++ (runEvents plan ms t ys (runEvents plan ms t xs pr).2).1,
       (runEvents plan ms t ys (runEvents plan ms t xs pr).2).2) := by
  induction xs generalizing pr with
  | nil => simp [runEvents]
  | cons x xs ih => simp [runEvents, ih]

/-! ### What is on the wire during a run -/

/-- request id carried by a packet (command or acknowledge): bytes 10..12, little endian. -/
def pktId (b : Bytes) : Nat := Spec.GenCP.uintAt b 10 2

/-- `(isCommand, request id)` of every packet on the wire, in order. -/
def wireIds : List Ev → List (Bool × Nat)
  | [] => []
  | .send b _ _ :: r => (true, pktId b) :: wireIds r
  | .recv _ _ (.ok b) :: r => (false, pktId b) :: wireIds r
  | _ :: r => wireIds r

/-- the command packets sent, in order. -/
def sentOf : List Ev → List Bytes
  | [] => []
  | .send b _ _ :: r => b :: sentOf r
  | _ :: r => sentOf r

theorem wireIds_append (xs ys : List Ev) : wireIds (xs ++ ys) = wireIds xs ++ wireIds ys := by
  induction xs with
  | nil => rfl
  | cons e xs ih =>
    cases e with
    | send b t r => simp [wireIds, ih]
    | recv bl t res => cases res <;> simp [wireIds, ih]
    | sleep m => simp [wireIds, ih]
    | ctl r t e => simp [wireIds, ih]

theorem sentOf_append (xs ys : List Ev) : sentOf (xs ++ ys) = sentOf xs ++ sentOf ys := by
  induction xs with
  | nil => rfl
  | cons e xs ih => cases e <;> simp [sentOf, ih]

/-- expected ids: per transaction the command's id, then `plan txn + 1` acknowledges
(pendings, final) with the same id; the next transaction uses the id + 1 mod 2^16. -/
def idsFrom (plan : Nat → Nat) : Nat → Nat → Nat → List (Bool × Nat)
  | 0, _, _ => []
  | k + 1, id, txn =>
    (true, id) :: (List.replicate (plan txn + 1) (false, id) ++
      idsFrom plan k ((id + 1) % 2 ^ 16) (txn + 1))

/-- the commands of a run serialized with consecutive ids. -/
def serializeFrom : List Step → Nat → List Bytes
  | [], _ => []
  | st :: r, id => st.cmd.serialize id :: serializeFrom r ((id + 1) % 2 ^ 16)

theorem pktId_encodeAck (status kind id : Nat) (scd : Bytes) (hid : id < 2 ^ 16) :
    pktId (encodeAck status kind id scd) = id := by
  unfold pktId encodeAck
  have := C09.uintAt_skip (toLE 4 ACK_MAGIC ++ toLE 2 status ++ toLE 2 kind ++ toLE 2 scd.length)
    (toLE 2 id ++ scd) 10 2 (by simp)
  simp only [List.append_assoc] at this ⊢
  rw [this]
  simp only [List.length_append, toLE_length, Nat.reduceAdd, Nat.sub_self]
  rw [C09.uintAt_here]
  exact Nat.mod_eq_of_lt (by omega)

theorem pktId_serialize (c : Cmd.Cmd) (id : Nat) (hid : id < 2 ^ 16) :
    pktId (c.serialize id) = id := by
  unfold pktId
  rw [C09.serialize_eq, C09.hdr_id]
  exact Nat.mod_eq_of_lt (by omega)

theorem wireIds_recvEvents (bufLen t id ms : Nat) (final : Bytes) (k : Nat) (hid : id < 2 ^ 16)
    (hf : pktId final = id) :
    wireIds (recvEvents bufLen t id ms final k) = List.replicate (k + 1) (false, id) := by
  induction k with
  | zero => simp [recvEvents, wireIds, hf]
  | succ j ih =>
    simp only [recvEvents, wireIds, ih, pendingAck, pktId_encodeAck _ _ _ _ hid]
    simp [List.replicate_succ]

/-- **ids on the wire** of a run. -/
theorem wireIds_runEvents (plan : Nat → Nat) (ms t : Nat) (steps : List Step)
    (hfin : ∀ st ∈ steps, ∀ id, id < 2 ^ 16 → pktId (st.final id) = id) :
    ∀ (pr : Prog), pr.id < 2 ^ 16 →
      wireIds (runEvents plan ms t steps pr).1 = idsFrom plan steps.length pr.id pr.txn := by
  induction steps with
  | nil => intro pr _; rfl
  | cons st rest ih =>
    intro pr hid
    have := ih (fun x hx => hfin x (List.mem_cons_of_mem _ hx))
      ⟨(pr.id + 1) % 2 ^ 16, max pr.bufLen (max st.cmd.cmdLen st.cmd.maximumAckLen), pr.txn + 1⟩
      (Nat.mod_lt _ (by omega))
    simp only [runEvents, txnEvents, staleEvents_nil, List.nil_append, List.cons_append, wireIds,
      wireIds_append, this,
      pktId_serialize _ _ hid, List.length_cons, idsFrom,
      wireIds_recvEvents _ _ _ _ _ _ hid (hfin st (List.mem_cons_self ..) pr.id hid)]

theorem sentOf_recvEvents (bufLen t id ms : Nat) (final : Bytes) (k : Nat) :
    sentOf (recvEvents bufLen t id ms final k) = [] := by
  induction k with
  | zero => simp [recvEvents, sentOf]
  | succ j ih => simp [recvEvents, sentOf, ih]

/-- **commands on the wire** of a run. -/
theorem sentOf_runEvents (plan : Nat → Nat) (ms t : Nat) (steps : List Step) (pr : Prog) :
    sentOf (runEvents plan ms t steps pr).1 = serializeFrom steps pr.id := by
  induction steps generalizing pr with
  | nil => rfl
  | cons st rest ih =>
    simp only [runEvents, txnEvents, staleEvents_nil, List.cons_append, sentOf, sentOf_append,
      sentOf_recvEvents,
      List.nil_append, ih, serializeFrom]

/-- final counters of a run. -/
theorem runEvents_final (plan : Nat → Nat) (ms t : Nat) (steps : List Step) (pr : Prog) :
    (runEvents plan ms t steps pr).2.id = (pr.id + steps.length) % 2 ^ 16 ∨ steps = [] := by
  induction steps generalizing pr with
  | nil => right; rfl
  | cons st rest ih =>
    left
    simp only [runEvents]
    rcases ih ⟨(pr.id + 1) % 2 ^ 16, max pr.bufLen (max st.cmd.cmdLen st.cmd.maximumAckLen),
      pr.txn + 1⟩ with h | h
    · rw [h]; simp only [List.length_cons]; omega
    · subst h; simp [runEvents]

theorem runEvents_txn (plan : Nat → Nat) (ms t : Nat) (steps : List Step) (pr : Prog) :
    (runEvents plan ms t steps pr).2.txn = pr.txn + steps.length := by
  induction steps generalizing pr with
  | nil => rfl
  | cons st rest ih => simp only [runEvents, ih, List.length_cons]; omega

/-- limits respected by one event -/
def EvWithin (lim : Limits) (ackOk : Prop) : Ev → Prop
  | .send b _ err => b.length ≤ lim.maxCmd ∧ err = none
  | .recv bl _ (.ok pkt) => pkt.length ≤ bl ∧ (ackOk → pkt.length ≤ lim.maxAck)
  | .recv _ _ (.error _) => False
  | _ => True

/-- **limits on the wire** of a run: every command fits `maxCmd`; every received packet fits
the receive buffer, and fits `maxAck` (pending acks are 16 bytes, so for them `ackOk` must
imply `16 ≤ maxAck` or that there are none). -/
theorem within_runEvents (lim : Limits) (ackOk : Prop) (plan : Nat → Nat) (ms t : Nat)
    (steps : List Step)
    (hcmd : ∀ st ∈ steps, ∀ id, (st.cmd.serialize id).length ≤ lim.maxCmd)
    (hfin : ∀ st ∈ steps, ∀ id, (st.final id).length ≤ st.cmd.maximumAckLen ∧
      (ackOk → (st.final id).length ≤ lim.maxAck))
    (hpend : ackOk → 16 ≤ lim.maxAck ∨ ∀ i, plan i = 0) :
    ∀ (pr : Prog), ∀ e ∈ (runEvents plan ms t steps pr).1, EvWithin lim ackOk e := by
  induction steps with
  | nil => intro pr e he; simp [runEvents] at he
  | cons st rest ih =>
    intro pr e he
    simp only [runEvents, List.mem_append] at he
    rcases he with he | he
    · have h16 := maximumAckLen_ge st.cmd
      have hf := hfin st (List.mem_cons_self ..) pr.id
      simp only [txnEvents, staleEvents_nil, List.nil_append, List.mem_cons] at he
      rcases he with rfl | he
      · exact ⟨hcmd st (List.mem_cons_self ..) pr.id, rfl⟩
      · -- receive events
        have aux : ∀ k, (ackOk → 16 ≤ lim.maxAck ∨ k = 0) →
            ∀ e ∈ recvEvents (max pr.bufLen (max st.cmd.cmdLen st.cmd.maximumAckLen)) t pr.id ms
              (st.final pr.id) k, EvWithin lim ackOk e := by
          intro k
          induction k with
          | zero =>
            intro _ e he
            simp only [recvEvents, List.mem_singleton] at he
            subst he
            exact ⟨by omega, hf.2⟩
          | succ j ihj =>
            intro hk e he
            simp only [recvEvents, List.mem_cons] at he
            rcases he with rfl | rfl | he
            · have hl : (pendingAck pr.id ms).length = 16 := by
                simp [pendingAck, encodeAck_length]
              refine ⟨by rw [hl]; omega, fun hok => ?_⟩
              rcases hk hok with h | h
              · rw [hl]; exact h
              · omega
            · trivial
            · exact ihj (fun hok => by
                rcases hk hok with h | h
                · exact Or.inl h
                · omega) e he
        exact aux (plan pr.txn) (fun hok => by
          rcases hpend hok with h | h
          · exact Or.inl h
          · exact Or.inr (h _)) e he
    · exact ih (fun x hx => hcmd x (List.mem_cons_of_mem _ hx))
        (fun x hx => hfin x (List.mem_cons_of_mem _ hx)) _ e he

section Ops
variable {σ M : Type} [MemLike M] {dev : Dev σ} {view : σ → View M} {lim : Limits}
  {plan : Nat → Nat} {ms : Nat}

/-- the chunk list `buf.chunks_mut(m)` induces -/
def readChunkList (m address : Nat) : (fuel offset rem : Nat) → List Cmd.ReadMem
  | 0, _, _ => []
  | fuel + 1, offset, rem =>
    if rem = 0 then [] else
    ⟨address + offset, min m rem⟩ ::
      readChunkList m address fuel (offset + min m rem) (rem - min m rem)

def readStep (mem : M) (c : Cmd.ReadMem) : Step :=
  ⟨.readMem c, fun id => readAck id (readRange mem c.address c.readLength)⟩

theorem readChunkList_partition (m address : Nat) (hm : 0 < m) :
    ∀ (fuel offset rem : Nat), rem < fuel →
      C10.ReadPartition m (address + offset) rem (readChunkList m address fuel offset rem) := by
  intro fuel
  induction fuel with
  | zero => intro offset rem h; omega
  | succ f ih =>
    intro offset rem h
    by_cases h0 : rem = 0
    · simp [readChunkList, h0, C10.ReadPartition]
    · simp only [readChunkList, if_neg h0]
      rw [C10.ReadPartition]
      have hrest := ih (offset + min m rem) (rem - min m rem) (by omega)
      refine ⟨rfl, by simp only; omega, by simp only; omega, by simp only; omega, ?_, ?_⟩
      · intro hne
        simp only
        by_cases hle : m ≤ rem
        · exact Nat.min_eq_left hle
        · exfalso
          have : rem - min m rem = 0 := by omega
          cases f with
          | zero => simp [readChunkList] at hne
          | succ g => simp [readChunkList, this] at hne
      · simpa only [Nat.add_assoc] using hrest

theorem readLoop_conforming (hc : Conforming dev view lim plan ms) (p : Profile) (m address : Nat)
    (hm : 0 < m) (hm16 : m < 2 ^ 16) (hmack : 12 + m ≤ lim.maxAck) (hcmd : 24 ≤ lim.maxCmd)
    (hms : ms < 2 ^ 16) (retry : Nat) (hplan : ∀ i, plan i < retry) (t mc : Nat)
    (hmc : 24 ≤ mc) :
    ∀ (fuel offset rem : Nat) (s : St σ) (accRev : Bytes), rem < fuel →
      address + offset + rem ≤ 2 ^ 64 → offset + rem < 2 ^ 64 → s.h.nextReqId < 2 ^ 16 →
      s.h.cfg.retry = retry → s.h.cfg.maxCmd = mc → s.h.cfg.xfer = t →
      (view s.d).queue = [] →
      ∃ s', readLoop dev p m address fuel offset rem s accRev =
          (s', .ok (accRev.reverse ++ readRange (view s.d).mem (address + offset) rem)) ∧
        (view s'.d).mem = (view s.d).mem ∧ (view s'.d).queue = [] ∧
        s'.h.cfg = s.h.cfg ∧ s'.h.opened = s.h.opened ∧ s'.h.abrm = s.h.abrm ∧
        s'.logRev = (runEvents plan ms t
            ((readChunkList m address fuel offset rem).map (readStep (view s.d).mem))
            ⟨s.h.nextReqId, s.h.bufLen, (view s.d).txn⟩).1.reverse ++ s.logRev ∧
        (⟨s'.h.nextReqId, s'.h.bufLen, (view s'.d).txn⟩ : Prog) = (runEvents plan ms t
            ((readChunkList m address fuel offset rem).map (readStep (view s.d).mem))
            ⟨s.h.nextReqId, s.h.bufLen, (view s.d).txn⟩).2 := by
  intro fuel
  induction fuel with
  | zero => intro offset rem s accRev h; omega
  | succ f ih =>
    intro offset rem s accRev hf hsp hn64 hid hretry hmaxc htmo hq
    by_cases h0 : rem = 0
    · subst h0
      refine ⟨s, by simp [readLoop, readRange], rfl, hq, rfl, rfl, rfl, ?_, ?_⟩
      · simp [readChunkList, runEvents]
      · simp [readChunkList, runEvents]
    · have hlen16 : min m rem < 2 ^ 16 := by omega
      have hadd : (addW p 64 address offset : R Nat) = .ok (address + offset) := by
        simp only [addW]; rw [if_pos (by omega)]
      obtain ⟨s1, hs1, hh1, hm1, hq1, ht1, hl1⟩ :=
        sendCmd_read hc p s (address + offset) (min m rem) [] (by omega) hlen16 hid hms
          (by omega) hcmd (by omega) (by omega) hq (fun _ h => by simp at h)
          (by rw [hretry]; simpa using hplan _)
      have hadd2 : (addW p 64 offset (min m rem) : R Nat) = .ok (offset + min m rem) := by
        simp only [addW]; rw [if_pos (by omega)]
      obtain ⟨s', hs', hm', hq', hcfg', hop', hab', hl', hpr'⟩ :=
        ih (offset + min m rem) (rem - min m rem) s1
          ((readRange (view s.d).mem (address + offset) (min m rem)).reverse ++ accRev)
          (by omega) (by omega) (by omega) (by rw [hh1]; exact Nat.mod_lt _ (by omega))
          (by rw [hh1]; exact hretry) (by rw [hh1]; exact hmaxc) (by rw [hh1]; exact htmo) hq1
      have hgt : ¬ min m rem > U16_MAX := by simp only [U16_MAX]; omega
      refine ⟨s', ?_, by rw [hm', hm1], hq', by rw [hcfg', hh1], by rw [hop', hh1],
        by rw [hab', hh1], ?_, ?_⟩
      · rw [readLoop]
        simp only [if_neg h0, if_neg hgt, hadd, hs1, readRange_length, ne_eq, not_true_eq_false,
          if_false, hadd2]
        rw [hs', hm1]
        have hsplit : readRange (view s.d).mem (address + offset) rem =
            readRange (view s.d).mem (address + offset) (min m rem) ++
              readRange (view s.d).mem (address + (offset + min m rem)) (rem - min m rem) := by
          have : rem = min m rem + (rem - min m rem) := by omega
          conv => lhs; rw [this, readRange_add]
          rw [Nat.add_assoc]
        rw [hsplit]
        simp only [List.reverse_append, List.reverse_reverse, List.append_assoc]
      · rw [hl', hl1, hm1]
        simp only [hh1, ht1, htmo]
        simp only [readChunkList, if_neg h0, List.map_cons, runEvents, readStep,
          Cmd.Cmd.cmdLen, Cmd.Cmd.scdLen, Cmd.CCD_LEN, Cmd.Cmd.maximumAckLen, Cmd.Cmd.ackScdLen,
          Cmd.ACK_HEADER_LENGTH, Cmd.MINIMUM_ACK_SCD_LENGTH, Nat.reduceAdd,
          List.reverse_append, List.append_assoc]
      · rw [hpr', hm1]
        simp only [hh1, ht1]
        simp only [readChunkList, if_neg h0, List.map_cons, runEvents, readStep,
          Cmd.Cmd.cmdLen, Cmd.Cmd.scdLen, Cmd.CCD_LEN, Cmd.Cmd.maximumAckLen, Cmd.Cmd.ackScdLen,
          Cmd.ACK_HEADER_LENGTH, Cmd.MINIMUM_ACK_SCD_LENGTH, Nat.reduceAdd]

/-! ### write -/

theorem built_len {w : Cmd.WriteMem} (hw : C09.WriteMem.Built w) :
    w.len = w.data.length + 8 ∧ w.dataLen = w.data.length ∧ w.data.length + 8 ≤ 65535 := by
  obtain ⟨_, hb⟩ := hw
  have hcr := C09.ctor_refuses_writeMem w.address w.data
  by_cases hle : w.data.length + 8 ≤ U16_MAX
  · have h2 := hcr.2.1 hle
    rw [h2] at hb
    injection hb with hb
    exact ⟨by rw [← hb], by rw [← hb], by simpa [U16_MAX] using hle⟩
  · have h2 := hcr.1.2 (by omega)
    rw [h2] at hb
    cases hb

theorem built_cmdLen {w : Cmd.WriteMem} (hw : C09.WriteMem.Built w) :
    (Cmd.Cmd.writeMem w).cmdLen = 20 + w.data.length := by
  simp only [Cmd.Cmd.cmdLen, Cmd.Cmd.scdLen, Cmd.CCD_LEN, (built_len hw).1]; omega

theorem writeMem_maximumAckLen (w : Cmd.WriteMem) : (Cmd.Cmd.writeMem w).maximumAckLen = 16 := by
  simp [Cmd.Cmd.maximumAckLen, Cmd.Cmd.ackScdLen, Cmd.ACK_HEADER_LENGTH,
    Cmd.MINIMUM_ACK_SCD_LENGTH]

def writeStep (c : Cmd.WriteMem) : Step :=
  ⟨.writeMem c, fun id => writeAck id c.data.length⟩

/-- what a list of WriteMem commands does to the memory -/
def applyWrites (mem : M) (cs : List Cmd.WriteMem) : M :=
  cs.foldl (fun m c => writeRange m c.address c.data) mem

/-- chunks are contiguous from `a` and their data concatenates to `d` (no empty chunk). -/
def Contig : Nat → Bytes → List Cmd.WriteMem → Prop
  | _, d, [] => d = []
  | a, d, c :: cs =>
    c.address = a ∧ c.data ≠ [] ∧ c.data = d.take c.data.length ∧
      Contig (a + c.data.length) (d.drop c.data.length) cs

theorem Contig.of_partition {m a : Nat} {d : Bytes} {cs : List Cmd.WriteMem}
    (h : C10.WritePartition m a d cs) : Contig a d cs := by
  induction cs generalizing a d with
  | nil => simpa [C10.WritePartition, Contig] using h
  | cons c cs ih =>
    obtain ⟨h1, h2, _, h4, _, _, _, h8⟩ := h
    exact ⟨h1, h2, h4, ih h8⟩

theorem Contig.append {a : Nat} {d1 d2 : Bytes} {cs1 cs2 : List Cmd.WriteMem}
    (h1 : Contig a d1 cs1) (h2 : Contig (a + d1.length) d2 cs2) :
    Contig a (d1 ++ d2) (cs1 ++ cs2) := by
  induction cs1 generalizing a d1 with
  | nil =>
    simp only [Contig] at h1
    subst h1
    simpa using h2
  | cons c cs ih =>
    obtain ⟨ha, hne, htake, hrest⟩ := h1
    have hlen : c.data.length ≤ d1.length := by
      have := congrArg List.length htake
      simp only [List.length_take] at this
      omega
    refine ⟨ha, hne, ?_, ?_⟩
    · rw [List.take_append_of_le_length hlen]; exact htake
    · rw [List.drop_append_of_le_length hlen]
      apply ih hrest
      simp only [List.length_drop]
      have : a + c.data.length + (d1.length - c.data.length) = a + d1.length := by omega
      rw [this]; exact h2

theorem applyWrites_contig (mem : M) {a : Nat} {d : Bytes} {cs : List Cmd.WriteMem}
    (h : Contig a d cs) : applyWrites mem cs = writeRange mem a d := by
  induction cs generalizing mem a d with
  | nil => simp only [Contig] at h; subst h; rfl
  | cons c cs ih =>
    obtain ⟨ha, _, htake, hrest⟩ := h
    simp only [applyWrites, List.foldl_cons]
    have := ih (writeRange mem c.address c.data) hrest
    simp only [applyWrites] at this
    rw [this, ha]
    conv => rhs; rw [← List.take_append_drop c.data.length d, writeRange_append, ← htake]

theorem applyWrites_append (mem : M) (xs ys : List Cmd.WriteMem) :
    applyWrites mem (xs ++ ys) = applyWrites (applyWrites mem xs) ys := by
  simp [applyWrites]

/-- what every chunk of a conforming write satisfies -/
def ChunkOk (lim : Limits) (c : Cmd.WriteMem) : Prop :=
  C09.WriteMem.Built c ∧ 20 + c.data.length ≤ lim.maxCmd ∧ c.address + c.data.length ≤ 2 ^ 64

theorem writeChunkLoop_conforming (hc : Conforming dev view lim plan ms) (p : Profile)
    (hack : 16 ≤ lim.maxAck) (hms : ms < 2 ^ 16) (retry : Nat) (hplan : ∀ i, plan i < retry)
    (t : Nat) :
    ∀ (fuel : Nat) (it : Cmd.WriteMemChunks) (s : St σ) (cs : List Cmd.WriteMem),
      it.collect p fuel = .ok cs → (∀ c ∈ cs, ChunkOk lim c) → s.h.nextReqId < 2 ^ 16 →
      s.h.cfg.retry = retry → s.h.cfg.maxCmd = lim.maxCmd → s.h.cfg.xfer = t →
      (view s.d).queue = [] →
      ∃ s', writeChunkLoop dev p fuel it s = (s', .ok ()) ∧
        (view s'.d).mem = applyWrites (view s.d).mem cs ∧ (view s'.d).queue = [] ∧
        s'.h.cfg = s.h.cfg ∧ s'.h.opened = s.h.opened ∧ s'.h.abrm = s.h.abrm ∧
        s'.h.nextReqId < 2 ^ 16 ∧
        s'.logRev = (runEvents plan ms t (cs.map writeStep)
            ⟨s.h.nextReqId, s.h.bufLen, (view s.d).txn⟩).1.reverse ++ s.logRev ∧
        (⟨s'.h.nextReqId, s'.h.bufLen, (view s'.d).txn⟩ : Prog) = (runEvents plan ms t
            (cs.map writeStep) ⟨s.h.nextReqId, s.h.bufLen, (view s.d).txn⟩).2 := by
  intro fuel
  induction fuel with
  | zero => intro it s cs h; simp [Cmd.WriteMemChunks.collect] at h
  | succ f ih =>
    intro it s cs hcol hok hid hretry hmaxc htmo hq
    rw [Cmd.WriteMemChunks.collect] at hcol
    rcases hnext : it.next p with ⟨item, it'⟩ | e | _
    · rw [hnext] at hcol
      simp only [Res.bind_ok] at hcol
      cases item with
      | none =>
        simp only [Res.pure_eq, Res.ok.injEq] at hcol
        subst hcol
        refine ⟨s, ?_, rfl, hq, rfl, rfl, rfl, hid, ?_, ?_⟩
        · rw [writeChunkLoop]; simp only [hnext]
        · simp [runEvents]
        · simp [runEvents]
      | some c =>
        simp only at hcol
        rcases hrest : Cmd.WriteMemChunks.collect p f it' with rest | e | _
        · rw [hrest] at hcol
          simp only [Res.bind_ok, Res.pure_eq, Res.ok.injEq] at hcol
          subst hcol
          obtain ⟨hb, hcmd, hsp⟩ := hok c (List.mem_cons_self ..)
          obtain ⟨s1, hs1, hh1, hm1, hq1, ht1, hl1⟩ :=
            sendCmd_write hc p s c [] hb hid hms (by rw [hmaxc]; exact hcmd) hcmd hack hsp hq
              (fun _ h => by simp at h) (by rw [hretry]; simpa using hplan _)
          obtain ⟨s', hs', hm', hq', hcfg', hop', hab', hid', hl', hpr'⟩ :=
            ih it' s1 rest hrest (fun x hx => hok x (List.mem_cons_of_mem _ hx))
              (by rw [hh1]; exact Nat.mod_lt _ (by omega)) (by rw [hh1]; exact hretry)
              (by rw [hh1]; exact hmaxc) (by rw [hh1]; exact htmo) hq1
          refine ⟨s', ?_, ?_, hq', by rw [hcfg', hh1], by rw [hop', hh1], by rw [hab', hh1], hid',
            ?_, ?_⟩
          · rw [writeChunkLoop]
            simp only [hnext, hs1, ne_eq, not_true_eq_false, if_false]
            exact hs'
          · rw [hm', hm1]; rfl
          · rw [hl', hl1]
            simp only [hh1, ht1, htmo]
            have hcl := built_cmdLen hb
            have hma := writeMem_maximumAckLen c
            simp only [List.map_cons, runEvents, writeStep, hcl, hma, List.reverse_append,
              List.append_assoc]
          · rw [hpr']
            simp only [hh1, ht1]
            have hcl := built_cmdLen hb
            have hma := writeMem_maximumAckLen c
            simp only [List.map_cons, runEvents, writeStep, hcl, hma]
        · rw [hrest] at hcol; simp at hcol
        · rw [hrest] at hcol; simp at hcol
    · rw [hnext] at hcol; simp at hcol
    · rw [hnext] at hcol; simp at hcol

/-- all chunks of a write: per `MAX_WRITE_BLOCK`-byte block, C10's chunk list. -/
def writeChunkList (p : Profile) (address maxCmd : Nat) :
    (fuel offset : Nat) → (rest : Bytes) → List Cmd.WriteMem
  | 0, _, _ => []
  | fuel + 1, offset, rest =>
    if rest = [] then [] else
    match Cmd.writeChunks p (address + offset) (rest.take MAX_WRITE_BLOCK) maxCmd with
    | .ok cs => cs ++ writeChunkList p address maxCmd fuel
        (offset + (rest.take MAX_WRITE_BLOCK).length) (rest.drop MAX_WRITE_BLOCK)
    | _ => []

theorem partition_facts {m a : Nat} {d : Bytes} {cs : List Cmd.WriteMem}
    (h : C10.WritePartition m a d cs) :
    ∀ c ∈ cs, c.data ≠ [] ∧ c.dataLen = c.data.length ∧ c.len = c.data.length + 8 ∧
      c.data.length ≤ m ∧ a ≤ c.address ∧ c.address + c.data.length ≤ a + d.length := by
  induction cs generalizing a d with
  | nil => simp
  | cons c cs ih =>
    obtain ⟨h1, h2, h3, h4, h5, h6, _, h8⟩ := h
    have hlen : c.data.length ≤ d.length := by
      have := congrArg List.length h4
      simp only [List.length_take] at this
      omega
    intro x hx
    rcases List.mem_cons.mp hx with rfl | hx
    · exact ⟨h2, h5, h6, h3, by omega, by omega⟩
    · obtain ⟨g1, g2, g3, g4, g5, g6⟩ := ih h8 x hx
      simp only [List.length_drop] at g6
      exact ⟨g1, g2, g3, g4, by omega, by omega⟩

theorem chunkOk_of_facts (lim : Limits) (c : Cmd.WriteMem) (m a n : Nat)
    (hf : c.data ≠ [] ∧ c.dataLen = c.data.length ∧ c.len = c.data.length + 8 ∧
      c.data.length ≤ m ∧ a ≤ c.address ∧ c.address + c.data.length ≤ a + n)
    (hm : 20 + m ≤ lim.maxCmd) (hn : n + 8 ≤ 65535) (hsp : a + n ≤ 2 ^ 64) : ChunkOk lim c := by
  obtain ⟨h1, h2, h3, h4, h5, h6⟩ := hf
  have hpos : 0 < c.data.length := List.length_pos_iff.mpr h1
  refine ⟨⟨by omega, ?_⟩, by omega, by omega⟩
  have := (C09.ctor_refuses_writeMem c.address c.data).2.1 (by simp only [U16_MAX]; omega)
  rw [this]
  obtain ⟨ca, cd, cdl, cl⟩ := c
  simp only at h2 h3
  subst h2 h3
  rfl

theorem writeChunkList_spec (p : Profile) (lim : Limits) (address : Nat) (hb : 20 < lim.maxCmd)
    (hbu : lim.maxCmd < 2 ^ 63) :
    ∀ (fuel offset : Nat) (rest : Bytes), rest.length < fuel →
      address + offset + rest.length ≤ 2 ^ 64 →
      Contig (address + offset) rest (writeChunkList p address lim.maxCmd fuel offset rest) ∧
      ∀ c ∈ writeChunkList p address lim.maxCmd fuel offset rest, ChunkOk lim c := by
  intro fuel
  induction fuel with
  | zero => intro offset rest h; omega
  | succ f ih =>
    intro offset rest hf hsp
    by_cases h0 : rest = []
    · subst h0; simp [writeChunkList, Contig]
    · have hmwb : MAX_WRITE_BLOCK = 65527 := rfl
      have htl : (rest.take MAX_WRITE_BLOCK).length = min MAX_WRITE_BLOCK rest.length :=
        List.length_take
      have hdl : (rest.drop MAX_WRITE_BLOCK).length = rest.length - MAX_WRITE_BLOCK :=
        List.length_drop
      have hpos : 0 < rest.length := List.length_pos_iff.mpr h0
      obtain ⟨cs, hcs, hpart⟩ := C10.write_partition p (address + offset)
        (rest.take MAX_WRITE_BLOCK) lim.maxCmd
        (by simp only [Cmd.HEADER_LEN, Cmd.CCD_LEN]; omega) hbu
        (by simp only [U16_MAX]; omega) (by omega)
      obtain ⟨hc2, hok2⟩ := ih (offset + (rest.take MAX_WRITE_BLOCK).length)
        (rest.drop MAX_WRITE_BLOCK) (by omega) (by omega)
      simp only [writeChunkList, if_neg h0, hcs]
      constructor
      · have := Contig.append (Contig.of_partition hpart)
          (by simpa only [Nat.add_assoc] using hc2)
        rwa [List.take_append_drop] at this
      · intro c hc
        rcases List.mem_append.mp hc with hc | hc
        · exact chunkOk_of_facts lim c _ _ _ (partition_facts hpart c hc)
            (by simp only [Cmd.HEADER_LEN, Cmd.CCD_LEN]; omega) (by omega) (by omega)
        · exact hok2 c hc

theorem writeBlockLoop_conforming (hc : Conforming dev view lim plan ms) (p : Profile)
    (address : Nat) (hb : 20 < lim.maxCmd) (hbu : lim.maxCmd < 2 ^ 63) (hack : 16 ≤ lim.maxAck)
    (hms : ms < 2 ^ 16) (retry : Nat) (hplan : ∀ i, plan i < retry) (t : Nat) :
    ∀ (fuel offset : Nat) (rest : Bytes) (s : St σ), rest.length < fuel →
      address + offset + rest.length ≤ 2 ^ 64 → offset + rest.length < 2 ^ 64 →
      s.h.nextReqId < 2 ^ 16 → s.h.cfg.retry = retry → s.h.cfg.maxCmd = lim.maxCmd →
      s.h.cfg.xfer = t → (view s.d).queue = [] →
      ∃ s', writeBlockLoop dev p address lim.maxCmd fuel offset rest s = (s', .ok ()) ∧
        (view s'.d).mem = writeRange (view s.d).mem (address + offset) rest ∧
        (view s'.d).queue = [] ∧
        s'.h.cfg = s.h.cfg ∧ s'.h.opened = s.h.opened ∧ s'.h.abrm = s.h.abrm ∧
        s'.logRev = (runEvents plan ms t
            ((writeChunkList p address lim.maxCmd fuel offset rest).map writeStep)
            ⟨s.h.nextReqId, s.h.bufLen, (view s.d).txn⟩).1.reverse ++ s.logRev ∧
        (⟨s'.h.nextReqId, s'.h.bufLen, (view s'.d).txn⟩ : Prog) = (runEvents plan ms t
            ((writeChunkList p address lim.maxCmd fuel offset rest).map writeStep)
            ⟨s.h.nextReqId, s.h.bufLen, (view s.d).txn⟩).2 := by
  intro fuel
  induction fuel with
  | zero => intro offset rest s h; omega
  | succ f ih =>
    intro offset rest s hf hsp hn64 hid hretry hmaxc htmo hq
    by_cases h0 : rest = []
    · subst h0
      refine ⟨s, ?_, by simp [writeRange], hq, rfl, rfl, rfl, ?_, ?_⟩
      · rw [writeBlockLoop]; simp
      · simp [writeChunkList, runEvents]
      · simp [writeChunkList, runEvents]
    · have hmwb : MAX_WRITE_BLOCK = 65527 := rfl
      have htl : (rest.take MAX_WRITE_BLOCK).length = min MAX_WRITE_BLOCK rest.length :=
        List.length_take
      have hdl : (rest.drop MAX_WRITE_BLOCK).length = rest.length - MAX_WRITE_BLOCK :=
        List.length_drop
      have hpos : 0 < rest.length := List.length_pos_iff.mpr h0
      have hadd : (addW p 64 address offset : R Nat) = .ok (address + offset) := by
        simp only [addW]; rw [if_pos (by omega)]
      have hadd2 : (addW p 64 offset (rest.take MAX_WRITE_BLOCK).length : R Nat) =
          .ok (offset + (rest.take MAX_WRITE_BLOCK).length) := by
        simp only [addW]; rw [if_pos (by omega)]
      obtain ⟨cs, hcs, hpart⟩ := C10.write_partition p (address + offset)
        (rest.take MAX_WRITE_BLOCK) lim.maxCmd
        (by simp only [Cmd.HEADER_LEN, Cmd.CCD_LEN]; omega) hbu
        (by simp only [U16_MAX]; omega) (by omega)
      -- split `writeChunks` into the three calls the code makes
      have hcs' := hcs
      simp only [Cmd.writeChunks] at hcs'
      rcases hnew : Cmd.WriteMem.new (address + offset) (rest.take MAX_WRITE_BLOCK) with w | e | _
      · rw [hnew] at hcs'
        simp only [Res.bind_ok] at hcs'
        rcases hch : w.chunks lim.maxCmd with it | e | _
        · rw [hch] at hcs'
          simp only [Res.bind_ok] at hcs'
          have hok : ∀ c ∈ cs, ChunkOk lim c := fun c hc' =>
            chunkOk_of_facts lim c _ _ _ (partition_facts hpart c hc')
              (by simp only [Cmd.HEADER_LEN, Cmd.CCD_LEN]; omega) (by omega) (by omega)
          obtain ⟨s1, hs1, hm1, hq1, hcfg1, hop1, hab1, hid1, hl1, hpr1⟩ :=
            writeChunkLoop_conforming hc p hack hms retry hplan t _ it s cs hcs' hok hid hretry
              hmaxc htmo hq
          obtain ⟨s', hs', hm', hq', hcfg', hop', hab', hl', hpr'⟩ :=
            ih (offset + (rest.take MAX_WRITE_BLOCK).length) (rest.drop MAX_WRITE_BLOCK) s1
              (by omega) (by omega) (by omega) hid1
              (by rw [hcfg1]; exact hretry) (by rw [hcfg1]; exact hmaxc)
              (by rw [hcfg1]; exact htmo) hq1
          have hpr1' := hpr1
          refine ⟨s', ?_, ?_, hq', by rw [hcfg', hcfg1], by rw [hop', hop1], by rw [hab', hab1],
            ?_, ?_⟩
          · rw [writeBlockLoop]
            simp only [if_neg h0, hadd, hnew, hch, hs1, hadd2]
            exact hs'
          · rw [hm', hm1, applyWrites_contig _ (Contig.of_partition hpart)]
            have : address + (offset + (rest.take MAX_WRITE_BLOCK).length) =
                address + offset + (rest.take MAX_WRITE_BLOCK).length := by omega
            rw [this, ← writeRange_append, List.take_append_drop]
          · rw [hl', hl1]
            simp only [writeChunkList, if_neg h0, hcs, List.map_append, runEvents_append,
              List.reverse_append, List.append_assoc]
            rw [← hpr1]
          · rw [hpr']
            simp only [writeChunkList, if_neg h0, hcs, List.map_append, runEvents_append]
            rw [← hpr1]
        · rw [hch] at hcs'; simp at hcs'
        · rw [hch] at hcs'; simp at hcs'
      · rw [hnew] at hcs'; simp at hcs'
      · rw [hnew] at hcs'; simp at hcs'

/-! ### the same operations when the device still has stale acknowledges queued

Only the first transaction meets them (it fetches and discards them, one retry each);
afterwards the queue is empty and the lemmas above apply.  Results only (no log shape). -/

theorem readLoop_conforming_stale (hc : Conforming dev view lim plan ms) (p : Profile)
    (m address : Nat) (hm : 0 < m) (hm16 : m < 2 ^ 16) (hmack : 12 + m ≤ lim.maxAck)
    (hcmd : 24 ≤ lim.maxCmd) (hms : ms < 2 ^ 16) (retry : Nat) (stale : List Bytes)
    (hplan : ∀ i, stale.length + plan i < retry) (mc : Nat) (hmc : 24 ≤ mc)
    (fuel offset rem : Nat) (s : St σ) (accRev : Bytes) (hf : rem < fuel)
    (hsp : address + offset + rem ≤ 2 ^ 64) (hn64 : offset + rem < 2 ^ 64)
    (hid : s.h.nextReqId < 2 ^ 16) (hretry : s.h.cfg.retry = retry) (hmaxc : s.h.cfg.maxCmd = mc)
    (hq : (view s.d).queue = stale) (hstale : StaleOk p s.h.nextReqId s.h.bufLen stale) :
    ∃ s', readLoop dev p m address fuel offset rem s accRev =
        (s', .ok (accRev.reverse ++ readRange (view s.d).mem (address + offset) rem)) ∧
      (view s'.d).mem = (view s.d).mem ∧
      (view s'.d).queue = (if rem = 0 then stale else []) ∧
      s'.h.cfg = s.h.cfg ∧ s'.h.opened = s.h.opened ∧ s'.h.nextReqId < 2 ^ 16 := by
  obtain ⟨f, rfl⟩ : ∃ f, fuel = f + 1 := ⟨fuel - 1, by omega⟩
  by_cases h0 : rem = 0
  · subst h0
    exact ⟨s, by simp [readLoop, readRange], rfl, by simpa using hq, rfl, rfl, hid⟩
  · have hlen16 : min m rem < 2 ^ 16 := by omega
    have hadd : (addW p 64 address offset : R Nat) = .ok (address + offset) := by
      simp only [addW]; rw [if_pos (by omega)]
    obtain ⟨s1, hs1, hh1, hm1, hq1, ht1, _⟩ :=
      sendCmd_read hc p s (address + offset) (min m rem) stale (by omega) hlen16 hid hms
        (by omega) hcmd (by omega) (by omega) hq hstale (by rw [hretry]; exact hplan _)
    have hadd2 : (addW p 64 offset (min m rem) : R Nat) = .ok (offset + min m rem) := by
      simp only [addW]; rw [if_pos (by omega)]
    obtain ⟨s', hs', hm', hq', hcfg', hop', _, _, hpr'⟩ :=
      readLoop_conforming hc p m address hm hm16 hmack hcmd hms retry
        (fun i => by have := hplan i; omega) s.h.cfg.xfer mc hmc f
        (offset + min m rem) (rem - min m rem) s1
        ((readRange (view s.d).mem (address + offset) (min m rem)).reverse ++ accRev)
        (by omega) (by omega) (by omega) (by rw [hh1]; exact Nat.mod_lt _ (by omega))
        (by rw [hh1]; exact hretry) (by rw [hh1]; exact hmaxc) (by rw [hh1]) hq1
    have hgt : ¬ min m rem > U16_MAX := by simp only [U16_MAX]; omega
    refine ⟨s', ?_, by rw [hm', hm1], by rw [hq', if_neg h0], by rw [hcfg', hh1],
      by rw [hop', hh1], ?_⟩
    · rw [readLoop]
      simp only [if_neg h0, if_neg hgt, hadd, hs1, readRange_length, ne_eq, not_true_eq_false,
        if_false, hadd2]
      rw [hs', hm1]
      have hsplit : readRange (view s.d).mem (address + offset) rem =
          readRange (view s.d).mem (address + offset) (min m rem) ++
            readRange (view s.d).mem (address + (offset + min m rem)) (rem - min m rem) := by
        have : rem = min m rem + (rem - min m rem) := by omega
        conv => lhs; rw [this, readRange_add]
        rw [Nat.add_assoc]
      rw [hsplit]
      simp only [List.reverse_append, List.reverse_reverse, List.append_assoc]
    · have h := congrArg Prog.id hpr'
      simp only at h
      rw [h]
      rcases runEvents_final plan ms s.h.cfg.xfer
        ((readChunkList m address f (offset + min m rem) (rem - min m rem)).map
          (readStep (view s1.d).mem)) ⟨s1.h.nextReqId, s1.h.bufLen, (view s1.d).txn⟩ with h2 | h2
      · rw [h2]; exact Nat.mod_lt _ (by omega)
      · rw [h2]; simp only [runEvents, hh1]; exact Nat.mod_lt _ (by omega)

theorem writeChunkLoop_conforming_stale (hc : Conforming dev view lim plan ms) (p : Profile)
    (hack : 16 ≤ lim.maxAck) (hms : ms < 2 ^ 16) (retry : Nat) (stale : List Bytes)
    (hplan : ∀ i, stale.length + plan i < retry)
    (fuel : Nat) (it : Cmd.WriteMemChunks) (s : St σ) (cs : List Cmd.WriteMem)
    (hcol : it.collect p fuel = .ok cs) (hok : ∀ c ∈ cs, ChunkOk lim c)
    (hid : s.h.nextReqId < 2 ^ 16) (hretry : s.h.cfg.retry = retry)
    (hmaxc : s.h.cfg.maxCmd = lim.maxCmd) (hq : (view s.d).queue = stale)
    (hstale : StaleOk p s.h.nextReqId s.h.bufLen stale) :
    ∃ s', writeChunkLoop dev p fuel it s = (s', .ok ()) ∧
      (view s'.d).mem = applyWrites (view s.d).mem cs ∧
      (view s'.d).queue = (if cs = [] then stale else []) ∧
      s'.h.cfg = s.h.cfg ∧ s'.h.opened = s.h.opened ∧ s'.h.nextReqId < 2 ^ 16 := by
  obtain ⟨f, rfl⟩ : ∃ f, fuel = f + 1 := ⟨fuel - 1, by
    cases fuel with
    | zero => simp [Cmd.WriteMemChunks.collect] at hcol
    | succ n => omega⟩
  rw [Cmd.WriteMemChunks.collect] at hcol
  rcases hnext : it.next p with ⟨item, it'⟩ | e | _
  · rw [hnext] at hcol
    simp only [Res.bind_ok] at hcol
    cases item with
    | none =>
      simp only [Res.pure_eq, Res.ok.injEq] at hcol
      subst hcol
      refine ⟨s, ?_, rfl, by simpa using hq, rfl, rfl, hid⟩
      rw [writeChunkLoop]; simp only [hnext]
    | some c =>
      simp only at hcol
      rcases hrest : Cmd.WriteMemChunks.collect p f it' with rest | e | _
      · rw [hrest] at hcol
        simp only [Res.bind_ok, Res.pure_eq, Res.ok.injEq] at hcol
        subst hcol
        obtain ⟨hb, hcmd, hsp⟩ := hok c (List.mem_cons_self ..)
        obtain ⟨s1, hs1, hh1, hm1, hq1, ht1, _⟩ :=
          sendCmd_write hc p s c stale hb hid hms (by rw [hmaxc]; exact hcmd) hcmd hack hsp hq
            hstale (by rw [hretry]; exact hplan _)
        obtain ⟨s', hs', hm', hq', hcfg', hop', _, hid', _, hpr'⟩ :=
          writeChunkLoop_conforming hc p hack hms retry (fun i => by have := hplan i; omega)
            s.h.cfg.xfer f it' s1 rest hrest (fun x hx => hok x (List.mem_cons_of_mem _ hx))
            (by rw [hh1]; exact Nat.mod_lt _ (by omega)) (by rw [hh1]; exact hretry)
            (by rw [hh1]; exact hmaxc) (by rw [hh1]) hq1
        refine ⟨s', ?_, by rw [hm', hm1]; rfl, by simpa using hq', by rw [hcfg', hh1],
          by rw [hop', hh1], hid'⟩
        rw [writeChunkLoop]
        simp only [hnext, hs1, ne_eq, not_true_eq_false, if_false]
        exact hs'
      · rw [hrest] at hcol; simp at hcol
      · rw [hrest] at hcol; simp at hcol
  · rw [hnext] at hcol; simp at hcol
  · rw [hnext] at hcol; simp at hcol

theorem writeBlockLoop_conforming_stale (hc : Conforming dev view lim plan ms) (p : Profile)
    (address : Nat) (hb : 20 < lim.maxCmd) (hbu : lim.maxCmd < 2 ^ 63) (hack : 16 ≤ lim.maxAck)
    (hms : ms < 2 ^ 16) (retry : Nat) (stale : List Bytes)
    (hplan : ∀ i, stale.length + plan i < retry)
    (fuel offset : Nat) (rest : Bytes) (s : St σ) (hf : rest.length < fuel)
    (hsp : address + offset + rest.length ≤ 2 ^ 64) (hn64 : offset + rest.length < 2 ^ 64)
    (hid : s.h.nextReqId < 2 ^ 16) (hretry : s.h.cfg.retry = retry)
    (hmaxc : s.h.cfg.maxCmd = lim.maxCmd) (hq : (view s.d).queue = stale)
    (hstale : StaleOk p s.h.nextReqId s.h.bufLen stale) :
    ∃ s', writeBlockLoop dev p address lim.maxCmd fuel offset rest s = (s', .ok ()) ∧
      (view s'.d).mem = writeRange (view s.d).mem (address + offset) rest ∧
      (view s'.d).queue = (if rest = [] then stale else []) ∧
      s'.h.cfg = s.h.cfg ∧ s'.h.opened = s.h.opened := by
  obtain ⟨f, rfl⟩ : ∃ f, fuel = f + 1 := ⟨fuel - 1, by omega⟩
  by_cases h0 : rest = []
  · subst h0
    refine ⟨s, ?_, by simp [writeRange], by simpa using hq, rfl, rfl⟩
    rw [writeBlockLoop]; simp
  · have hmwb : MAX_WRITE_BLOCK = 65527 := rfl
    have htl : (rest.take MAX_WRITE_BLOCK).length = min MAX_WRITE_BLOCK rest.length :=
      List.length_take
    have hdl : (rest.drop MAX_WRITE_BLOCK).length = rest.length - MAX_WRITE_BLOCK :=
      List.length_drop
    have hpos : 0 < rest.length := List.length_pos_iff.mpr h0
    have hadd : (addW p 64 address offset : R Nat) = .ok (address + offset) := by
      simp only [addW]; rw [if_pos (by omega)]
    have hadd2 : (addW p 64 offset (rest.take MAX_WRITE_BLOCK).length : R Nat) =
        .ok (offset + (rest.take MAX_WRITE_BLOCK).length) := by
      simp only [addW]; rw [if_pos (by omega)]
    obtain ⟨cs, hcs, hpart⟩ := C10.write_partition p (address + offset)
      (rest.take MAX_WRITE_BLOCK) lim.maxCmd
      (by simp only [Cmd.HEADER_LEN, Cmd.CCD_LEN]; omega) hbu
      (by simp only [U16_MAX]; omega) (by omega)
    have hcsne : cs ≠ [] := by
      intro h
      subst h
      simp only [C10.WritePartition] at hpart
      have := congrArg List.length hpart
      simp only [List.length_nil] at this
      omega
    have hcs' := hcs
    simp only [Cmd.writeChunks] at hcs'
    rcases hnew : Cmd.WriteMem.new (address + offset) (rest.take MAX_WRITE_BLOCK) with w | e | _
    · rw [hnew] at hcs'
      simp only [Res.bind_ok] at hcs'
      rcases hch : w.chunks lim.maxCmd with it | e | _
      · rw [hch] at hcs'
        simp only [Res.bind_ok] at hcs'
        have hok : ∀ c ∈ cs, ChunkOk lim c := fun c hc' =>
          chunkOk_of_facts lim c _ _ _ (partition_facts hpart c hc')
            (by simp only [Cmd.HEADER_LEN, Cmd.CCD_LEN]; omega) (by omega) (by omega)
        obtain ⟨s1, hs1, hm1, hq1, hcfg1, hop1, hid1⟩ :=
          writeChunkLoop_conforming_stale hc p hack hms retry stale hplan _ it s cs hcs' hok hid
            hretry hmaxc hq hstale
        rw [if_neg hcsne] at hq1
        obtain ⟨s', hs', hm', hq', hcfg', hop', _⟩ :=
          writeBlockLoop_conforming hc p address hb hbu hack hms retry
            (fun i => by have := hplan i; omega) s.h.cfg.xfer f
            (offset + (rest.take MAX_WRITE_BLOCK).length) (rest.drop MAX_WRITE_BLOCK) s1
            (by omega) (by omega) (by omega) hid1
            (by rw [hcfg1]; exact hretry) (by rw [hcfg1]; exact hmaxc) (by rw [hcfg1]) hq1
        refine ⟨s', ?_, ?_, by rw [hq', if_neg h0], by rw [hcfg', hcfg1], by rw [hop', hop1]⟩
        · rw [writeBlockLoop]
          simp only [if_neg h0, hadd, hnew, hch, hs1, hadd2]
          exact hs'
        · rw [hm', hm1, applyWrites_contig _ (Contig.of_partition hpart)]
          have : address + (offset + (rest.take MAX_WRITE_BLOCK).length) =
              address + offset + (rest.take MAX_WRITE_BLOCK).length := by omega
          rw [this, ← writeRange_append, List.take_append_drop]
      · rw [hch] at hcs'; simp at hcs'
      · rw [hch] at hcs'; simp at hcs'
    · rw [hnew] at hcs'; simp at hcs'
    · rw [hnew] at hcs'; simp at hcs'

end Ops

end CamVerif.C06
