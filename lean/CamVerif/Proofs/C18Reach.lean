/-
C18 helper lemmas: the error side of the access queries WITH REACHABILITY.  `Proofs/C18Err.lean`
shows that every error of `is_readable` / `is_writable` is the failure of *some* controlling node
or selector; here the witness is threaded through the same lemmas: the failing node is one the
query consults (`Consults`, the reflexive-transitive closure — over (mode, node) pairs, mode =
asked `is_readable` / asked `is_writable` / only evaluated — of the references that the query
follows), and an `InvalidNode` answer is traced to a consulted reference that points to an absent
node or to a node of the wrong kind.
-/
import CamVerif.Proofs.C18Err
namespace CamVerif.C18
open CamVerif CamVerif.GenApi

variable {F E : Type} {cx : Ctx F E} {D : Nat}

/-- As what a node is referred to by an access query. -/
inductive Want where
  /-- `pIsImplemented` / `pIsAvailable` / `pIsLocked` (`bool_from_id`: boolean or integer node) -/
  | controller
  /-- `pIndex` selector (`expect_iinteger_kind`) -/
  | selector
  /-- `pValue`, `pValueCopy`, a `pIndex` branch, the `pValue` of Boolean / Enumeration / Command
  (`IValue<i64|f64> for NodeId`: a node of another kind answers `false`, no error) -/
  | value
  /-- `pValue` of a String node (`expect_istring_kind`) -/
  | str
  /-- formula variable / converter `pValue` (`is_nid_readable/writable`: integer, float, boolean or
  enumeration node) -/
  | scalar
  deriving DecidableEq, Repr

/-- the node `c` has the interface it is asked for (an absent node has none) -/
def offers (cx : Ctx F E) (c : NodeId) : Want → Bool
  | .controller => isBoolKind cx c || isIntKind cx c
  | .selector => isIntKind cx c
  | .value => true
  | .str => isStrKind cx c
  | .scalar => isIntKind cx c || isFloatKind cx c || isBoolKind cx c || isEnumKind cx c

/-- In which way a node is looked at by an access query: asked `is_readable` (`r`), asked
`is_writable` (`w`), or only EVALUATED (`v`: a controlling node is read through `bool_from_id`, its
own access restrictions are not consulted, so nothing is followed from it). -/
inductive Mode where
  | r | w | v
  deriving DecidableEq, Repr

abbrev Ref := Mode × NodeId × Want

def optRefs (w : Want) : Option NodeId → List Ref
  | none => []
  | some n => [(.v, n, w)]

/-- the three controlling nodes (`pIsLocked` only for the writable query) -/
def baseRefs (m : Mode) (b : Base) : List Ref :=
  optRefs .controller b.pIsImplemented ++ (optRefs .controller b.pIsAvailable ++
    (match m with | .w => optRefs .controller b.pIsLocked | _ => []))

def sonRefs (m : Mode) (w : Want) : ImmOrPNode SlotId → List Ref
  | .imm _ => []
  | .pnode n => [(m, n, w)]

def branchRefs (m : Mode) : List (Int × ImmOrPNode SlotId) → List Ref
  | [] => []
  | e :: es => sonRefs m .value e.2 ++ branchRefs m es

def copyRefs : List NodeId → List Ref
  | [] => []
  | c :: cs => (.w, c, .value) :: copyRefs cs

/-- value sources (query `r`) / targets (query `w`): `pValue`, for `w` also its copies; the
`pIndex` selector — asked `is_readable` by BOTH queries — and every branch (which branch is
selected depends on the state; the relation is static) -/
def vkRefs (m : Mode) : ValueKind → List Ref
  | .value _ => []
  | .pValue p cs => (m, p, .value) :: (match m with | .w => copyRefs cs | _ => [])
  | .pIndex sel es dflt => (.r, sel, .selector) :: (sonRefs m .value dflt ++ branchRefs m es)

def varRefs : List (String × NodeId) → List Ref
  | [] => []
  | (_, n) :: vs => (.r, n, .scalar) :: varRefs vs

/-- every reference of a node that the query `m` of that node follows — NOT the address / length /
index nodes of a register, not min / max / inc, not enum entries; nothing for a node that is only
evaluated -/
def nodeRefs (m : Mode) : Node F E → List Ref
  | .integer b vk _ _ _ | .float b vk _ _ _ => baseRefs m b ++ vkRefs m vk
  | .intReg rb .. | .maskedIntReg rb .. | .floatReg rb _ | .stringReg rb => baseRefs m rb.base
  | .boolean b v _ _ | .enumeration b _ v | .command b v _ => baseRefs m b ++ sonRefs m .value v
  | .string b v => baseRefs m b ++ sonRefs m .str v
  | .converter b fm _ _ pv | .intConverter b fm _ _ pv => baseRefs m b ++ ([(m, pv, .scalar)] ++ varRefs fm.vars)
  | .swissKnife b fm _ | .intSwissKnife b fm _ => baseRefs m b ++ varRefs fm.vars
  | _ => []

/-- the query `a.1` of node `a.2` looks at node `c` in the way `m'`, referring to it as `k` -/
def Edge (cx : Ctx F E) (a : Mode × NodeId) (m' : Mode) (c : NodeId) (k : Want) : Prop :=
  a.1 ≠ .v ∧ ∃ nd, cx.graph a.2 = some nd ∧ (m', c, k) ∈ nodeRefs a.1 nd

/-- **Consults**: reflexive-transitive closure of `Edge` over (mode, node) pairs — what the query
`a.1` of node `a.2` may look at, and how. -/
inductive Consults (cx : Ctx F E) : Mode × NodeId → Mode × NodeId → Prop
  | refl (a : Mode × NodeId) : Consults cx a a
  | step {a c : Mode × NodeId} {m' : Mode} {b : NodeId} {k : Want} :
      Edge cx a m' b k → Consults cx (m', b) c → Consults cx a c

theorem Consults.trans {a b c : Mode × NodeId} (h1 : Consults cx a b) (h2 : Consults cx b c) : Consults cx a c := by
  induction h1 with
  | refl => exact h2
  | step e _ ih => exact .step e (ih h2)

/-- the query `m` of `n` looks at `c` (in some way) -/
def ConsultsNode (cx : Ctx F E) (m : Mode) (n c : NodeId) : Prop := ∃ m', Consults cx (m, n) (m', c)

/-- `c` is referred to as `k` by a node that the query `m` of `n` consults -/
def Below (cx : Ctx F E) (m : Mode) (n c : NodeId) (k : Want) : Prop :=
  ∃ a m', Consults cx (m, n) a ∧ Edge cx a m' c k

theorem Below.of_edge {m m' : Mode} {n c : NodeId} {k : Want} (h : Edge cx (m, n) m' c k) : Below cx m n c k :=
  ⟨(m, n), m', .refl _, h⟩

theorem Below.step {m m' : Mode} {n b c : NodeId} {k k' : Want} (e : Edge cx (m, n) m' b k')
    (h : Below cx m' b c k) : Below cx m n c k := by
  obtain ⟨a, m'', hm, he⟩ := h
  exact ⟨a, m'', .step e hm, he⟩

theorem Below.consults {m : Mode} {n c : NodeId} {k : Want} (h : Below cx m n c k) : ConsultsNode cx m n c := by
  obtain ⟨a, m', hm, he⟩ := h
  exact ⟨m', hm.trans (.step he (.refl _))⟩

/-- An error `e` is explained *within* `Q` (`Q c k`: the node `c` is consulted as `k`). -/
def ExplainedR (cx : Ctx F E) (D : Nat) (Q : NodeId → Want → Prop) (s : S F) (e : Err) : Prop :=
  (e = .invalidNode ∧ ∃ c k, Q c k ∧ offers cx c k = false) ∨ e = .outOfFuel ∨
  ∃ c d, d ≤ D ∧
    ((Q c .controller ∧ R.val (boolFromId cx (execRec cx d) c) s = .err e) ∨
     (Q c .selector ∧ R.val (pIndexIndex cx (execRec cx d) c) s = .err e))

theorem ExplainedR.mono {D D' : Nat} {Q Q' : NodeId → Want → Prop} (h : D ≤ D') (hq : ∀ c k, Q c k → Q' c k)
    {s : S F} {e : Err} : ExplainedR cx D Q s e → ExplainedR cx D' Q' s e
  | .inl ⟨h1, c, k, hc, ho⟩ => .inl ⟨h1, c, k, hq c k hc, ho⟩
  | .inr (.inl h1) => .inr (.inl h1)
  | .inr (.inr ⟨c, d, hd, .inl ⟨hc, hv⟩⟩) => .inr (.inr ⟨c, d, Nat.le_trans hd h, .inl ⟨hq _ _ hc, hv⟩⟩)
  | .inr (.inr ⟨c, d, hd, .inr ⟨hc, hv⟩⟩) => .inr (.inr ⟨c, d, Nat.le_trans hd h, .inr ⟨hq _ _ hc, hv⟩⟩)

def ErrR (cx : Ctx F E) (D : Nat) (Q : NodeId → Want → Prop) {α : Type} (m : R F α) : Prop :=
  ∀ s e, R.val m s = .err e → ExplainedR cx D Q s e

variable {Q : NodeId → Want → Prop}

theorem ErrR.mono {α : Type} {m : R F α} {D D' : Nat} {Q' : NodeId → Want → Prop} (h : D ≤ D')
    (hq : ∀ c k, Q c k → Q' c k) (hm : ErrR cx D Q m) : ErrR cx D' Q' m :=
  fun s e he => (hm s e he).mono h hq

theorem ErrR.pure {α : Type} (a : α) : ErrR cx D Q (Pure.pure a : R F α) := by
  intro s e h; simp at h

theorem ErrR.errInvalid {α : Type} {c : NodeId} {k : Want} (hq : Q c k) (ho : offers cx c k = false) :
    ErrR cx D Q (R.err .invalidNode : R F α) := by
  intro s e h; simp at h; exact .inl ⟨h.symm, c, k, hq, ho⟩

theorem ErrR.errFuel {α : Type} : ErrR cx D Q (R.err .outOfFuel : R F α) := by
  intro s e h; simp at h; exact .inr (.inl h.symm)

theorem ErrR.bind {α β : Type} {m : R F α} {f : α → R F β} (hm : ErrR cx D Q m) (hf : ∀ a, ErrR cx D Q (f a)) :
    ErrR cx D Q (m >>= f) := by
  intro s e h
  simp only [R.val_bind] at h
  cases hv : R.val m s with
  | ok a => rw [hv] at h; exact hf a s e h
  | err x => rw [hv] at h; simp at h; exact hm s e (by rw [hv, h])
  | panic => rw [hv] at h; simp at h

theorem ErrR.ite {α : Type} (c : Prop) [Decidable c] {a b : R F α} (ha : c → ErrR cx D Q a) (hb : ¬ c → ErrR cx D Q b) :
    ErrR cx D Q (if c then a else b) := by
  by_cases h : c <;> simp [h, ha, hb]

theorem ErrR.guard {A : R F Bool} {B : R F Bool} (hA : ErrR cx D Q A) (hB : ErrR cx D Q B) :
    ErrR cx D Q (do let x ← A; if !x then Pure.pure false else B) :=
  ErrR.bind hA fun x => by cases x <;> simp [hB, ErrR.pure]

theorem ErrR.guardNot {A : R F Bool} {B : R F Bool} (hA : ErrR cx D Q A) (hB : ErrR cx D Q B) :
    ErrR cx D Q (do let x ← A; if x then Pure.pure false else B) :=
  ErrR.bind hA fun x => by cases x <;> simp [hB, ErrR.pure]

theorem ErrR.boolFromId (d : Nat) (c : NodeId) (hq : Q c .controller) : ErrR cx d Q (boolFromId cx (execRec cx d) c) :=
  fun _ _ h => .inr (.inr ⟨c, d, Nat.le_refl d, .inl ⟨hq, h⟩⟩)

theorem ErrR.pIndexIndex (d : Nat) (c : NodeId) (hq : Q c .selector) : ErrR cx d Q (pIndexIndex cx (execRec cx d) c) :=
  fun _ _ h => .inr (.inr ⟨c, d, Nat.le_refl d, .inr ⟨hq, h⟩⟩)

/-- `Q` contains the references `L` (as what they are referred to) and everything below them -/
def Closed (cx : Ctx F E) (Q : NodeId → Want → Prop) (L : List Ref) : Prop :=
  ∀ p ∈ L, Q p.2.1 p.2.2 ∧ ∀ c k, Below cx p.1 p.2.1 c k → Q c k

theorem Closed.sub {L L' : List Ref} (h : Closed cx Q L) (hs : ∀ p ∈ L', p ∈ L) : Closed cx Q L' :=
  fun p hp => h p (hs p hp)

theorem Closed.left {L L' : List Ref} (h : Closed cx Q (L ++ L')) : Closed cx Q L :=
  h.sub fun p hp => by simp [hp]

theorem Closed.right {L L' : List Ref} (h : Closed cx Q (L ++ L')) : Closed cx Q L' :=
  h.sub fun p hp => by simp [hp]

theorem Closed.tail {p : Ref} {L : List Ref} (h : Closed cx Q (p :: L)) : Closed cx Q L :=
  h.sub fun p hp => by simp [hp]

theorem Closed.head {p : Ref} {L : List Ref} (h : Closed cx Q (p :: L)) :
    Q p.2.1 p.2.2 ∧ ∀ c k, Below cx p.1 p.2.1 c k → Q c k := h p (by simp)

/-- the references of a node are closed under "below that node" -/
theorem closed_refs {m : Mode} (hm : m ≠ .v) {n : NodeId} {nd : Node F E} (hg : cx.graph n = some nd) :
    Closed cx (Below cx m n) (nodeRefs m nd) := by
  intro p hp
  have he : Edge cx (m, n) p.1 p.2.1 p.2.2 := ⟨hm, nd, hg, hp⟩
  exact ⟨.of_edge he, fun c k h => .step he h⟩

/-- induction hypothesis: the access interfaces one level down, asked of a node that has the
interface -/
structure ReachIH (cx : Ctx F E) (d : Nat) : Prop where
  intR : ∀ n, isIntKind cx n = true → ErrR cx d (Below cx .r n) ((execRec cx d).intIsReadable n)
  intW : ∀ n, isIntKind cx n = true → ErrR cx d (Below cx .w n) ((execRec cx d).intIsWritable n)
  floatR : ∀ n, isFloatKind cx n = true → ErrR cx d (Below cx .r n) ((execRec cx d).floatIsReadable n)
  floatW : ∀ n, isFloatKind cx n = true → ErrR cx d (Below cx .w n) ((execRec cx d).floatIsWritable n)
  strR : ∀ n, isStrKind cx n = true → ErrR cx d (Below cx .r n) ((execRec cx d).strIsReadable n)
  strW : ∀ n, isStrKind cx n = true → ErrR cx d (Below cx .w n) ((execRec cx d).strIsWritable n)
  boolR : ∀ n, isBoolKind cx n = true → ErrR cx d (Below cx .r n) ((execRec cx d).boolIsReadable n)
  boolW : ∀ n, isBoolKind cx n = true → ErrR cx d (Below cx .w n) ((execRec cx d).boolIsWritable n)
  enumR : ∀ n, isEnumKind cx n = true → ErrR cx d (Below cx .r n) ((execRec cx d).enumIsReadable n)
  enumW : ∀ n, isEnumKind cx n = true → ErrR cx d (Below cx .w n) ((execRec cx d).enumIsWritable n)

section
variable {d : Nat} (ih : ReachIH cx d)
include ih

omit ih in
theorem optCtl_r (o : Option NodeId) (dflt : Bool) (hc : Closed cx Q (optRefs .controller o)) :
    ErrR cx d Q (match o with | none => (Pure.pure dflt : R F Bool) | some n => boolFromId cx (execRec cx d) n) := by
  cases o with
  | none => exact ErrR.pure _
  | some n => exact ErrR.boolFromId d n (hc (.v, n, .controller) (by simp [optRefs])).1

omit ih in
theorem baseIsImplemented_r (m : Mode) (b : Base) (hc : Closed cx Q (baseRefs m b)) :
    ErrR cx d Q (baseIsImplemented cx (execRec cx d) b) := optCtl_r _ true hc.left
omit ih in
theorem baseIsAvailable_r (m : Mode) (b : Base) (hc : Closed cx Q (baseRefs m b)) :
    ErrR cx d Q (baseIsAvailable cx (execRec cx d) b) := optCtl_r _ true hc.right.left
omit ih in
theorem baseIsLocked_r (b : Base) (hc : Closed cx Q (baseRefs .w b)) :
    ErrR cx d Q (baseIsLocked cx (execRec cx d) b) := optCtl_r _ false hc.right.right
omit ih in
theorem baseIsReadable_r (b : Base) (hc : Closed cx Q (baseRefs .r b)) :
    ErrR cx d Q (baseIsReadable cx (execRec cx d) b) :=
  ErrR.guard (baseIsImplemented_r .r b hc) (ErrR.guard (baseIsAvailable_r .r b hc) (ErrR.pure _))
omit ih in
theorem baseIsWritable_r (b : Base) (hc : Closed cx Q (baseRefs .w b)) :
    ErrR cx d Q (baseIsWritable cx (execRec cx d) b) :=
  ErrR.guard (baseIsImplemented_r .w b hc)
    (ErrR.guard (baseIsAvailable_r .w b hc) (ErrR.guardNot (baseIsLocked_r b hc) (ErrR.pure _)))

theorem nidIsReadable_r (n : NodeId) (hq : ∀ c k, Below cx .r n c k → Q c k) :
    ErrR cx d Q (nidIsReadable cx (execRec cx d) n) := by
  unfold nidIsReadable
  exact ErrR.ite _ (fun h => (ih.intR n h).mono (Nat.le_refl _) hq)
    fun _ => ErrR.ite _ (fun h => (ih.floatR n h).mono (Nat.le_refl _) hq)
    fun _ => ErrR.ite _ (fun h => (ih.enumR n h).mono (Nat.le_refl _) hq) fun _ => ErrR.pure _
theorem nidIsWritable_r (n : NodeId) (hq : ∀ c k, Below cx .w n c k → Q c k) :
    ErrR cx d Q (nidIsWritable cx (execRec cx d) n) := by
  unfold nidIsWritable
  exact ErrR.ite _ (fun h => (ih.intW n h).mono (Nat.le_refl _) hq)
    fun _ => ErrR.ite _ (fun h => (ih.floatW n h).mono (Nat.le_refl _) hq)
    fun _ => ErrR.ite _ (fun h => (ih.enumW n h).mono (Nat.le_refl _) hq) fun _ => ErrR.pure _
theorem nidStrIsReadable_r (n : NodeId) (hn : Q n .str) (hq : ∀ c k, Below cx .r n c k → Q c k) :
    ErrR cx d Q (nidStrIsReadable cx (execRec cx d) n) := by
  unfold nidStrIsReadable
  exact ErrR.ite _ (fun h => (ih.strR n h).mono (Nat.le_refl _) hq)
    fun h => ErrR.errInvalid hn (by simpa [offers] using h)
theorem nidStrIsWritable_r (n : NodeId) (hn : Q n .str) (hq : ∀ c k, Below cx .w n c k → Q c k) :
    ErrR cx d Q (nidStrIsWritable cx (execRec cx d) n) := by
  unfold nidStrIsWritable
  exact ErrR.ite _ (fun h => (ih.strW n h).mono (Nat.le_refl _) hq)
    fun h => ErrR.errInvalid hn (by simpa [offers] using h)
theorem isNidReadable_r (n : NodeId) (hn : Q n .scalar) (hq : ∀ c k, Below cx .r n c k → Q c k) :
    ErrR cx d Q (isNidReadable cx (execRec cx d) n) := by
  unfold isNidReadable
  exact ErrR.ite _ (fun h => (ih.intR n h).mono (Nat.le_refl _) hq)
    fun h1 => ErrR.ite _ (fun h => (ih.floatR n h).mono (Nat.le_refl _) hq)
    fun h2 => ErrR.ite _ (fun h => (ih.boolR n h).mono (Nat.le_refl _) hq)
    fun h3 => ErrR.ite _ (fun h => (ih.enumR n h).mono (Nat.le_refl _) hq)
    fun h4 => ErrR.errInvalid hn (by simp [offers, h1, h2, h3, h4])
theorem isNidWritable_r (n : NodeId) (hn : Q n .scalar) (hq : ∀ c k, Below cx .w n c k → Q c k) :
    ErrR cx d Q (isNidWritable cx (execRec cx d) n) := by
  unfold isNidWritable
  exact ErrR.ite _ (fun h => (ih.intW n h).mono (Nat.le_refl _) hq)
    fun h1 => ErrR.ite _ (fun h => (ih.floatW n h).mono (Nat.le_refl _) hq)
    fun h2 => ErrR.ite _ (fun h => (ih.boolW n h).mono (Nat.le_refl _) hq)
    fun h3 => ErrR.ite _ (fun h => (ih.enumW n h).mono (Nat.le_refl _) hq)
    fun h4 => ErrR.errInvalid hn (by simp [offers, h1, h2, h3, h4])

theorem sonR_r (v : ImmOrPNode SlotId) (hc : Closed cx Q (sonRefs .r .value v)) :
    ErrR cx d Q (slotOrNodeIsReadable cx (execRec cx d) v) := by
  cases v with
  | imm _ => exact ErrR.pure _
  | pnode n => exact nidIsReadable_r ih n (hc (.r, n, .value) (by simp [sonRefs])).2
theorem sonW_r (v : ImmOrPNode SlotId) (hc : Closed cx Q (sonRefs .w .value v)) :
    ErrR cx d Q (slotOrNodeIsWritable cx (execRec cx d) v) := by
  cases v with
  | imm _ => exact ErrR.pure _
  | pnode n => exact nidIsWritable_r ih n (hc (.w, n, .value) (by simp [sonRefs])).2
theorem sonStrR_r (v : ImmOrPNode SlotId) (hc : Closed cx Q (sonRefs .r .str v)) :
    ErrR cx d Q (slotOrNodeStrIsReadable cx (execRec cx d) v) := by
  cases v with
  | imm _ => exact ErrR.pure _
  | pnode n =>
    have h := hc (.r, n, .str) (by simp [sonRefs])
    exact nidStrIsReadable_r ih n h.1 h.2
theorem sonStrW_r (v : ImmOrPNode SlotId) (hc : Closed cx Q (sonRefs .w .str v)) :
    ErrR cx d Q (slotOrNodeStrIsWritable cx (execRec cx d) v) := by
  cases v with
  | imm _ => exact ErrR.pure _
  | pnode n =>
    have h := hc (.w, n, .str) (by simp [sonRefs])
    exact nidStrIsWritable_r ih n h.1 h.2

theorem selR_r (sel : NodeId) (hn : Q sel .selector) (hq : ∀ c k, Below cx .r sel c k → Q c k) :
    ErrR cx d Q (pIndexSelReadable cx (execRec cx d) sel) := by
  unfold pIndexSelReadable
  exact ErrR.ite _ (fun h => (ih.intR sel h).mono (Nat.le_refl _) hq)
    fun h => ErrR.errInvalid hn (by simpa [offers] using h)

omit ih in
/-- whatever branch is selected, its reference is one of the static branch references -/
theorem select_refs (m : Mode) (entries : List (Int × ImmOrPNode SlotId)) (dflt : ImmOrPNode SlotId) (i : Int) :
    ∀ p ∈ sonRefs m .value (pIndexSelect entries dflt i), p ∈ sonRefs m .value dflt ++ branchRefs m entries := by
  induction entries with
  | nil => intro p hp; simpa [pIndexSelect, branchRefs] using hp
  | cons e es ihl =>
    intro p hp
    unfold pIndexSelect at hp ihl
    simp only [List.find?] at hp
    by_cases he : (e.1 == i) = true
    · simp only [he] at hp
      simp [branchRefs, hp]
    · simp only [he] at hp
      have := ihl p hp
      simp only [List.mem_append, branchRefs] at this ⊢
      rcases this with h | h
      · exact .inl h
      · exact .inr (.inr h)

theorem pIndexR_r (sel : NodeId) (entries : List (Int × ImmOrPNode SlotId)) (dflt : ImmOrPNode SlotId)
    (hc : Closed cx Q ((.r, sel, .selector) :: (sonRefs .r .value dflt ++ branchRefs .r entries))) :
    ErrR cx d Q (pIndexIsReadable cx (execRec cx d) sel entries dflt) :=
  ErrR.guard (selR_r ih sel hc.head.1 hc.head.2)
    (ErrR.bind (ErrR.pIndexIndex d sel hc.head.1) fun i => sonR_r ih _ (hc.tail.sub (select_refs .r entries dflt i)))
theorem pIndexW_r (sel : NodeId) (entries : List (Int × ImmOrPNode SlotId)) (dflt : ImmOrPNode SlotId)
    (hc : Closed cx Q ((.r, sel, .selector) :: (sonRefs .w .value dflt ++ branchRefs .w entries))) :
    ErrR cx d Q (pIndexIsWritable cx (execRec cx d) sel entries dflt) :=
  ErrR.guard (selR_r ih sel hc.head.1 hc.head.2)
    (ErrR.bind (ErrR.pIndexIndex d sel hc.head.1) fun i => sonW_r ih _ (hc.tail.sub (select_refs .w entries dflt i)))

theorem copiesW_r : ∀ (cs : List NodeId) (b : Bool), Closed cx Q (copyRefs cs) →
    ErrR cx d Q (copiesIsWritable cx (execRec cx d) cs b)
  | [], _, _ => ErrR.pure _
  | c :: cs, _, hc => ErrR.bind (nidIsWritable_r ih c hc.head.2) fun _ => copiesW_r cs _ hc.tail
theorem varsR_r : ∀ (vs : List (String × NodeId)) (b : Bool), Closed cx Q (varRefs vs) →
    ErrR cx d Q (varsReadable cx (execRec cx d) vs b)
  | [], _, _ => ErrR.pure _
  | (_, n) :: vs, _, hc => ErrR.bind (isNidReadable_r ih n hc.head.1 hc.head.2) fun _ => varsR_r vs _ hc.tail

theorem vkR_r (vk : ValueKind) (hc : Closed cx Q (vkRefs .r vk)) : ErrR cx d Q (vkIsReadable cx (execRec cx d) vk) := by
  cases vk with
  | value _ => exact ErrR.pure _
  | pValue p _ => exact nidIsReadable_r ih p hc.head.2
  | pIndex sel entries dflt => exact pIndexR_r ih sel entries dflt hc
theorem vkW_r (vk : ValueKind) (hc : Closed cx Q (vkRefs .w vk)) : ErrR cx d Q (vkIsWritable cx (execRec cx d) vk) := by
  cases vk with
  | value _ => exact ErrR.pure _
  | pValue p copies => exact ErrR.bind (nidIsWritable_r ih p hc.head.2) fun _ => copiesW_r ih copies _ hc.tail
  | pIndex sel entries dflt => exact pIndexW_r ih sel entries dflt hc

omit ih in
theorem regR_r (rb : RegBase) (hc : Closed cx Q (baseRefs .r rb.base)) : ErrR cx d Q (regIsReadable cx (execRec cx d) rb) :=
  ErrR.guard (baseIsReadable_r rb.base hc) (ErrR.pure _)
omit ih in
theorem regW_r (rb : RegBase) (hc : Closed cx Q (baseRefs .w rb.base)) : ErrR cx d Q (regIsWritable cx (execRec cx d) rb) :=
  ErrR.guard (baseIsWritable_r rb.base hc) (ErrR.pure _)
theorem convR_r (b : Base) (fm : Formulaic F E) (pv : NodeId)
    (hc : Closed cx Q (baseRefs .r b ++ ([(.r, pv, .scalar)] ++ varRefs fm.vars))) :
    ErrR cx d Q (converterIsReadable cx (execRec cx d) b fm pv) :=
  ErrR.guard (baseIsReadable_r b hc.left)
    (ErrR.guard (isNidReadable_r ih pv hc.right.head.1 hc.right.head.2) (varsR_r ih _ _ hc.right.tail))
theorem convW_r (b : Base) (fm : Formulaic F E) (pv : NodeId)
    (hc : Closed cx Q (baseRefs .w b ++ ([(.w, pv, .scalar)] ++ varRefs fm.vars))) :
    ErrR cx d Q (converterIsWritable cx (execRec cx d) b fm pv) :=
  ErrR.guard (baseIsWritable_r b hc.left)
    (ErrR.guard (isNidWritable_r ih pv hc.right.head.1 hc.right.head.2) (varsR_r ih _ _ hc.right.tail))
theorem knifeR_r (b : Base) (fm : Formulaic F E) (hc : Closed cx Q (baseRefs .r b ++ varRefs fm.vars)) :
    ErrR cx d Q (swissKnifeIsReadable cx (execRec cx d) b fm) :=
  ErrR.guard (baseIsReadable_r b hc.left) (varsR_r ih _ _ hc.right)

/-- a value-kind node: base, then the value kind -/
theorem vkNodeR_r (b : Base) (vk : ValueKind) (hc : Closed cx Q (baseRefs .r b ++ vkRefs .r vk)) :
    ErrR cx d Q (do let x ← baseIsReadable cx (execRec cx d) b; if !x then Pure.pure false else vkIsReadable cx (execRec cx d) vk) :=
  ErrR.guard (baseIsReadable_r b hc.left) (vkR_r ih vk hc.right)
theorem vkNodeW_r (b : Base) (vk : ValueKind) (hc : Closed cx Q (baseRefs .w b ++ vkRefs .w vk)) :
    ErrR cx d Q (do let x ← baseIsWritable cx (execRec cx d) b; if !x then Pure.pure false else vkIsWritable cx (execRec cx d) vk) :=
  ErrR.guard (baseIsWritable_r b hc.left) (vkW_r ih vk hc.right)
theorem sonNodeR_r (b : Base) (v : ImmOrPNode SlotId) (hc : Closed cx Q (baseRefs .r b ++ sonRefs .r .value v)) :
    ErrR cx d Q (do let x ← baseIsReadable cx (execRec cx d) b; if !x then Pure.pure false else slotOrNodeIsReadable cx (execRec cx d) v) :=
  ErrR.guard (baseIsReadable_r b hc.left) (sonR_r ih v hc.right)
theorem sonNodeW_r (b : Base) (v : ImmOrPNode SlotId) (hc : Closed cx Q (baseRefs .w b ++ sonRefs .w .value v)) :
    ErrR cx d Q (do let x ← baseIsWritable cx (execRec cx d) b; if !x then Pure.pure false else slotOrNodeIsWritable cx (execRec cx d) v) :=
  ErrR.guard (baseIsWritable_r b hc.left) (sonW_r ih v hc.right)
theorem strNodeR_r (b : Base) (v : ImmOrPNode SlotId) (hc : Closed cx Q (baseRefs .r b ++ sonRefs .r .str v)) :
    ErrR cx d Q (do let x ← baseIsReadable cx (execRec cx d) b; if !x then Pure.pure false else slotOrNodeStrIsReadable cx (execRec cx d) v) :=
  ErrR.guard (baseIsReadable_r b hc.left) (sonStrR_r ih v hc.right)
theorem strNodeW_r (b : Base) (v : ImmOrPNode SlotId) (hc : Closed cx Q (baseRefs .w b ++ sonRefs .w .str v)) :
    ErrR cx d Q (do let x ← baseIsWritable cx (execRec cx d) b; if !x then Pure.pure false else slotOrNodeStrIsWritable cx (execRec cx d) v) :=
  ErrR.guard (baseIsWritable_r b hc.left) (sonStrW_r ih v hc.right)

/-- the common tail of the per-interface lemmas: the node is present, `hc` closes its references -/
macro "c18_reach_cases" nd:ident hc:ident hk:ident kind:ident hg:ident : tactic =>
  `(tactic| (cases $nd:ident <;> simp only <;> first
      | exact ErrR.pure _
      | exact vkNodeR_r ih _ _ $hc
      | exact vkNodeW_r ih _ _ $hc
      | exact sonNodeR_r ih _ _ $hc
      | exact sonNodeW_r ih _ _ $hc
      | exact strNodeR_r ih _ _ $hc
      | exact strNodeW_r ih _ _ $hc
      | exact regR_r _ $hc
      | exact regW_r _ $hc
      | exact convR_r ih _ _ _ $hc
      | exact convW_r ih _ _ _ $hc
      | exact knifeR_r ih _ _ $hc
      | exact absurd $hk (by simp [$kind:ident, $hg:ident])))

theorem intIsReadableF_r (n : NodeId) (hk : isIntKind cx n = true) :
    ErrR cx d (Below cx .r n) (intIsReadableF cx (execRec cx d) n) := by
  unfold intIsReadableF
  cases hg : cx.graph n with
  | none => exact absurd hk (by simp [isIntKind, hg])
  | some nd =>
    have hc := closed_refs (m := .r) (by decide) hg
    c18_reach_cases nd hc hk isIntKind hg

theorem intIsWritableF_r (n : NodeId) (hk : isIntKind cx n = true) :
    ErrR cx d (Below cx .w n) (intIsWritableF cx (execRec cx d) n) := by
  unfold intIsWritableF
  cases hg : cx.graph n with
  | none => exact absurd hk (by simp [isIntKind, hg])
  | some nd =>
    have hc := closed_refs (m := .w) (by decide) hg
    c18_reach_cases nd hc hk isIntKind hg

theorem floatIsReadableF_r (n : NodeId) (hk : isFloatKind cx n = true) :
    ErrR cx d (Below cx .r n) (floatIsReadableF cx (execRec cx d) n) := by
  unfold floatIsReadableF
  cases hg : cx.graph n with
  | none => exact absurd hk (by simp [isFloatKind, hg])
  | some nd =>
    have hc := closed_refs (m := .r) (by decide) hg
    c18_reach_cases nd hc hk isFloatKind hg

theorem floatIsWritableF_r (n : NodeId) (hk : isFloatKind cx n = true) :
    ErrR cx d (Below cx .w n) (floatIsWritableF cx (execRec cx d) n) := by
  unfold floatIsWritableF
  cases hg : cx.graph n with
  | none => exact absurd hk (by simp [isFloatKind, hg])
  | some nd =>
    have hc := closed_refs (m := .w) (by decide) hg
    c18_reach_cases nd hc hk isFloatKind hg

theorem strIsReadableF_r (n : NodeId) (hk : isStrKind cx n = true) :
    ErrR cx d (Below cx .r n) (strIsReadableF cx (execRec cx d) n) := by
  unfold strIsReadableF
  cases hg : cx.graph n with
  | none => exact absurd hk (by simp [isStrKind, hg])
  | some nd =>
    have hc := closed_refs (m := .r) (by decide) hg
    c18_reach_cases nd hc hk isStrKind hg

theorem strIsWritableF_r (n : NodeId) (hk : isStrKind cx n = true) :
    ErrR cx d (Below cx .w n) (strIsWritableF cx (execRec cx d) n) := by
  unfold strIsWritableF
  cases hg : cx.graph n with
  | none => exact absurd hk (by simp [isStrKind, hg])
  | some nd =>
    have hc := closed_refs (m := .w) (by decide) hg
    c18_reach_cases nd hc hk isStrKind hg

theorem boolIsReadableF_r (n : NodeId) (hk : isBoolKind cx n = true) :
    ErrR cx d (Below cx .r n) (boolIsReadableF cx (execRec cx d) n) := by
  unfold boolIsReadableF
  cases hg : cx.graph n with
  | none => exact absurd hk (by simp [isBoolKind, hg])
  | some nd =>
    have hc := closed_refs (m := .r) (by decide) hg
    c18_reach_cases nd hc hk isBoolKind hg

theorem boolIsWritableF_r (n : NodeId) (hk : isBoolKind cx n = true) :
    ErrR cx d (Below cx .w n) (boolIsWritableF cx (execRec cx d) n) := by
  unfold boolIsWritableF
  cases hg : cx.graph n with
  | none => exact absurd hk (by simp [isBoolKind, hg])
  | some nd =>
    have hc := closed_refs (m := .w) (by decide) hg
    c18_reach_cases nd hc hk isBoolKind hg

theorem enumIsReadableF_r (n : NodeId) (hk : isEnumKind cx n = true) :
    ErrR cx d (Below cx .r n) (enumIsReadableF cx (execRec cx d) n) := by
  unfold enumIsReadableF
  cases hg : cx.graph n with
  | none => exact absurd hk (by simp [isEnumKind, hg])
  | some nd =>
    have hc := closed_refs (m := .r) (by decide) hg
    c18_reach_cases nd hc hk isEnumKind hg

theorem enumIsWritableF_r (n : NodeId) (hk : isEnumKind cx n = true) :
    ErrR cx d (Below cx .w n) (enumIsWritableF cx (execRec cx d) n) := by
  unfold enumIsWritableF
  cases hg : cx.graph n with
  | none => exact absurd hk (by simp [isEnumKind, hg])
  | some nd =>
    have hc := closed_refs (m := .w) (by decide) hg
    c18_reach_cases nd hc hk isEnumKind hg

/-- `ICommand::is_writable`, asked of a command node -/
theorem cmdIsWritableF_r (n : NodeId) (b : Base) (v cv : ImmOrPNode SlotId)
    (hg : cx.graph n = some (.command b v cv)) :
    ErrR cx d (Below cx .w n) (cmdIsWritableF cx (execRec cx d) n) := by
  unfold cmdIsWritableF
  simp only [hg]
  exact sonNodeW_r ih _ _ (closed_refs (m := .w) (by decide) hg)

end

theorem reachIH (cx : Ctx F E) : ∀ d, ReachIH cx d
  | 0 => by
    constructor <;> intro n _ <;> exact ErrR.errFuel
  | d + 1 => by
    have ih := reachIH cx d
    have hle : d ≤ d + 1 := Nat.le_succ d
    constructor <;> intro n hk <;> simp only [execRec, step]
    · exact (intIsReadableF_r ih n hk).mono hle fun _ _ h => h
    · exact (intIsWritableF_r ih n hk).mono hle fun _ _ h => h
    · exact (floatIsReadableF_r ih n hk).mono hle fun _ _ h => h
    · exact (floatIsWritableF_r ih n hk).mono hle fun _ _ h => h
    · exact (strIsReadableF_r ih n hk).mono hle fun _ _ h => h
    · exact (strIsWritableF_r ih n hk).mono hle fun _ _ h => h
    · exact (boolIsReadableF_r ih n hk).mono hle fun _ _ h => h
    · exact (boolIsWritableF_r ih n hk).mono hle fun _ _ h => h
    · exact (enumIsReadableF_r ih n hk).mono hle fun _ _ h => h
    · exact (enumIsWritableF_r ih n hk).mono hle fun _ _ h => h

/-- the node offers no interface with an `is_readable` query (absent, or Command / Register /
EnumEntry / Port / Category / Node) -/
def NoReadIface (cx : Ctx F E) (n : NodeId) : Prop :=
  isIntKind cx n = false ∧ isFloatKind cx n = false ∧ isStrKind cx n = false ∧
  isBoolKind cx n = false ∧ isEnumKind cx n = false

/-- … nor `ICommand` -/
def NoWriteIface (cx : Ctx F E) (n : NodeId) : Prop :=
  NoReadIface cx n ∧ ∀ b v cv, cx.graph n ≠ some (.command b v cv)

/-- What an error `e` of the access query `m` of `n` is, with reachability. -/
def ExplainedFrom (cx : Ctx F E) (D : Nat) (own : Prop) (m : Mode) (n : NodeId) (s : S F) (e : Err) : Prop :=
  (e = .invalidNode ∧ (own ∨ ∃ c k, Below cx m n c k ∧ offers cx c k = false)) ∨ e = .outOfFuel ∨
  ∃ c d, d ≤ D ∧
    ((Below cx m n c .controller ∧ R.val (boolFromId cx (execRec cx d) c) s = .err e) ∨
     (Below cx m n c .selector ∧ R.val (pIndexIndex cx (execRec cx d) c) s = .err e))

theorem ExplainedFrom.of {own : Prop} {m : Mode} {n : NodeId} {s : S F} {e : Err}
    (h : ExplainedR cx D (Below cx m n) s e) : ExplainedFrom cx D own m n s e := by
  rcases h with ⟨h1, h2⟩ | h | h
  · exact .inl ⟨h1, .inr h2⟩
  · exact .inr (.inl h)
  · exact .inr (.inr h)

theorem isReadableF_r (d : Nat) (n : NodeId) (s : S F) (e : Err)
    (h : R.val (isReadableF cx (execRec cx d) n) s = .err e) : ExplainedFrom cx d (NoReadIface cx n) .r n s e := by
  have ih := reachIH cx d
  unfold isReadableF at h
  by_cases h1 : isIntKind cx n = true
  · simp only [h1, if_true] at h; exact .of (intIsReadableF_r ih n h1 s e h)
  by_cases h2 : isFloatKind cx n = true
  · simp only [h1, h2, if_true] at h; exact .of (floatIsReadableF_r ih n h2 s e h)
  by_cases h3 : isStrKind cx n = true
  · simp only [h1, h2, h3, if_true] at h; exact .of (strIsReadableF_r ih n h3 s e h)
  by_cases h4 : isBoolKind cx n = true
  · simp only [h1, h2, h3, h4, if_true] at h; exact .of (boolIsReadableF_r ih n h4 s e h)
  by_cases h5 : isEnumKind cx n = true
  · simp only [h1, h2, h3, h4, h5, if_true] at h; exact .of (enumIsReadableF_r ih n h5 s e h)
  simp only [h1, h2, h3, h4, h5] at h
  simp at h
  exact .inl ⟨h.symm, .inl ⟨by simpa using h1, by simpa using h2, by simpa using h3, by simpa using h4, by simpa using h5⟩⟩

theorem isWritableF_r (d : Nat) (n : NodeId) (s : S F) (e : Err)
    (h : R.val (isWritableF cx (execRec cx d) n) s = .err e) : ExplainedFrom cx d (NoWriteIface cx n) .w n s e := by
  have ih := reachIH cx d
  unfold isWritableF at h
  by_cases h1 : isIntKind cx n = true
  · simp only [h1, if_true] at h; exact .of (intIsWritableF_r ih n h1 s e h)
  by_cases h2 : isFloatKind cx n = true
  · simp only [h1, h2, if_true] at h; exact .of (floatIsWritableF_r ih n h2 s e h)
  by_cases h3 : isStrKind cx n = true
  · simp only [h1, h2, h3, if_true] at h; exact .of (strIsWritableF_r ih n h3 s e h)
  by_cases h4 : isBoolKind cx n = true
  · simp only [h1, h2, h3, h4, if_true] at h; exact .of (boolIsWritableF_r ih n h4 s e h)
  by_cases h5 : isEnumKind cx n = true
  · simp only [h1, h2, h3, h4, h5, if_true] at h; exact .of (enumIsWritableF_r ih n h5 s e h)
  simp only [h1, h2, h3, h4, h5] at h
  by_cases hcmd : ∃ b v cv, cx.graph n = some (.command b v cv)
  · obtain ⟨b, v, cv, hg⟩ := hcmd
    simp only [hg] at h
    exact .of (cmdIsWritableF_r ih n b v cv hg s e h)
  · have hno : ∀ b v cv, cx.graph n ≠ some (.command b v cv) := fun b v cv hg => hcmd ⟨b, v, cv, hg⟩
    have he : e = .invalidNode := by
      cases hg : cx.graph n with
      | none => simp [hg] at h; exact h.symm
      | some nd =>
        cases nd <;> simp [hg] at h <;> first | exact h.symm | exact absurd hg (hno _ _ _)
    exact .inl ⟨he, .inl ⟨⟨by simpa using h1, by simpa using h2, by simpa using h3, by simpa using h4, by simpa using h5⟩, hno⟩⟩

end CamVerif.C18
