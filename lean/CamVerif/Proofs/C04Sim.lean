/-
C04 helper lemmas, part 3: what each primitive of the interpreter does (equations valid for
every cache implementation), the simulation combinators, and the simulation of every
primitive and of the whole interpreter between `defaultCache` and `sinkCache`.
-/
import CamVerif.Proofs.C04Inv
namespace CamVerif.C04
open CamVerif CamVerif.Cache

/-! ### equations of the primitives (any cache implementation) -/

section Eqs
variable {κ : Type}

theorem bind_apply {α β : Type} (m : M κ α) (f : α → M κ β) (s : St κ) :
    (m >>= f) s =
      match (m s).1 with
      | .ok a => f a (m s).2
      | .err e => (.err e, (m s).2)
      | .panic => (.panic, (m s).2) := by
  show M.bind m f s = _
  unfold M.bind
  rcases h : m s with ⟨r, s'⟩
  cases r <;> rfl

theorem expectPort_eq (g : Graph) (n : NodeId) (s : St κ) :
    expectPort g n s = if g[n]? = some .port then (.ok (), s) else (.err .invalidNode, s) := by
  unfold expectPort
  split
  · rename_i h; simp [h, M.pure]
  · rename_i h
    simp [M.fail]

theorem readAndCache_eq (ops : CacheOps κ) (g : Graph) (n : NodeId) (r : Reg) (a : Int)
    (buflen : Nat) (s : St κ) :
    readAndCache ops g n r a buflen s =
      if buflen ≠ r.len then (.err .invalidBuffer, s)
      else if g[r.port]? = some .port then
        match s.dev.peek a r.len with
        | some bs =>
          (.ok bs, ⟨if r.mode ≠ .noCache then ops.cache s.cache n a r.len bs else s.cache,
                    { s.dev with log := ⟨false, a, r.len, bs, true⟩ :: s.dev.log }⟩)
        | none =>
          (.err .device, ⟨s.cache, { s.dev with log := ⟨false, a, r.len, [], false⟩ :: s.dev.log }⟩)
      else (.err .invalidNode, s) := by
  by_cases h1 : buflen ≠ r.len
  · simp [readAndCache, h1, M.fail]
  · by_cases h2 : g[r.port]? = some .port
    · cases h3 : s.dev.peek a r.len with
      | some bs =>
        by_cases h4 : r.mode = .noCache <;>
          simp [readAndCache, h1, h2, h4, portRead, expectPort, devRead, read_of_peek_some h3,
            cacheData, Bind.bind, M.bind, M.pure]
      | none =>
        simp [readAndCache, h1, h2, portRead, expectPort, devRead, read_of_peek_none h3,
          Bind.bind, M.bind, M.pure]
    · simp only [readAndCache, h1, h2, if_false, portRead, Bind.bind, M.bind]
      rw [expectPort_eq, if_neg h2]

theorem writeAt_eq (ops : CacheOps κ) (g : Graph) (n : NodeId) (r : Reg) (a : Int)
    (buf : Bytes) (s : St κ) :
    writeAt ops g n r a buf s =
      if g[r.port]? = some .port then
        ((s.dev.write a buf).1,
          ⟨if s.dev.writeOk a buf.length = true ∧ r.mode = .writeThrough then
             ops.cache (ops.invalidateOf (ops.invalidateBy (ops.invalidateBy s.cache n) r.port) n)
               n a r.len buf
           else ops.invalidateOf (ops.invalidateBy (ops.invalidateBy s.cache n) r.port) n,
           (s.dev.write a buf).2⟩)
      else (.err .invalidNode, ⟨ops.invalidateBy s.cache n, s.dev⟩) := by
  by_cases h2 : g[r.port]? = some .port
  · rw [if_pos h2]
    have hfst := write_fst (d := s.dev) (a := a) (data := buf)
    by_cases h3 : s.dev.writeOk a buf.length = true
    · rw [if_pos h3] at hfst
      by_cases h4 : r.mode = .writeThrough <;>
        simp [writeAt, h2, h3, h4, expectPort, devWrite, write_of_ok h3, invBy, invOf,
          cacheData, Bind.bind, M.bind, M.pure]
    · rw [if_neg h3] at hfst
      have hpair : s.dev.write a buf = (.err .device, (s.dev.write a buf).2) := by
        rw [← hfst]
      simp only [writeAt, Bind.bind, M.bind, invBy, expectPort, h2, M.pure, devWrite]
      rw [hpair]
      simp [h3]
  · simp only [writeAt, Bind.bind, M.bind, invBy]
    rw [expectPort_eq, if_neg h2]
    simp [h2]

theorem portWrite_eq (ops : CacheOps κ) (g : Graph) (pn : NodeId) (a : Int) (buf : Bytes)
    (s : St κ) :
    portWrite ops g pn a buf s =
      if g[pn]? = some .port then
        ((s.dev.write a buf).1, ⟨ops.invalidateBy s.cache pn, (s.dev.write a buf).2⟩)
      else (.err .invalidNode, s) := by
  by_cases h2 : g[pn]? = some .port
  · simp [portWrite, h2, expectPort, devWrite, invBy, Bind.bind, M.bind, M.pure]
  · simp only [portWrite, Bind.bind, M.bind]
    rw [expectPort_eq, if_neg h2]
    simp [h2]

theorem portRead_eq (g : Graph) (pn : NodeId) (a : Int) (l : Nat) (s : St κ) :
    portRead g pn a l s =
      if g[pn]? = some .port then ((s.dev.read a l).1, ⟨s.cache, (s.dev.read a l).2⟩)
      else (.err .invalidNode, s) := by
  by_cases h2 : g[pn]? = some .port
  · simp [portRead, h2, expectPort, devRead, Bind.bind, M.bind, M.pure]
  · simp only [portRead, Bind.bind, M.bind]
    rw [expectPort_eq, if_neg h2]
    simp [h2]

end Eqs

/-! ### simulation combinators -/

section SimDefs
variable (p : Profile) (g : Graph)

/-- `mC` (cached) and `mU` (uncached) started in related states return the same result,
end in related states, and an `ok` result satisfies `P`. -/
def Sim {α : Type} (P : α → Prop) (mC : M Store α) (mU : M Unit α) : Prop :=
  ∀ sC sU, Rel p g sC sU →
    (mC sC).1 = (mU sU).1 ∧ Rel p g (mC sC).2 (mU sU).2 ∧ ∀ a, (mC sC).1 = .ok a → P a

variable {p g}

theorem sim_pure {α : Type} {P : α → Prop} (a : α) (h : P a) :
    Sim p g P (M.pure a) (M.pure a) := by
  intro sC sU hR
  exact ⟨rfl, hR, fun b hb => by cases hb; exact h⟩

theorem sim_lift {α : Type} {P : α → Prop} (r : R α) (h : ∀ a, r = .ok a → P a) :
    Sim p g P (M.lift r) (M.lift r) := by
  intro sC sU hR
  exact ⟨rfl, hR, fun b hb => h b hb⟩

theorem sim_fail {α : Type} {P : α → Prop} (e : Err) :
    Sim p g P (M.fail e : M Store α) (M.fail e) := by
  intro sC sU hR
  exact ⟨rfl, hR, fun b hb => by cases hb⟩

theorem sim_panic {α : Type} {P : α → Prop} :
    Sim p g P (M.panic : M Store α) M.panic := by
  intro sC sU hR
  exact ⟨rfl, hR, fun b hb => by cases hb⟩

theorem sim_weaken {α : Type} {P Q : α → Prop} {mC : M Store α} {mU : M Unit α}
    (h : Sim p g P mC mU) (hPQ : ∀ a, P a → Q a) : Sim p g Q mC mU := by
  intro sC sU hR
  obtain ⟨h1, h2, h3⟩ := h sC sU hR
  exact ⟨h1, h2, fun a ha => hPQ a (h3 a ha)⟩

theorem sim_bind {α β : Type} {P : α → Prop} {Q : β → Prop} {mC : M Store α} {mU : M Unit α}
    {fC : α → M Store β} {fU : α → M Unit β} (hm : Sim p g P mC mU)
    (hf : ∀ a, P a → Sim p g Q (fC a) (fU a)) : Sim p g Q (mC >>= fC) (mU >>= fU) := by
  intro sC sU hR
  obtain ⟨h1, h2, h3⟩ := hm sC sU hR
  rw [bind_apply, bind_apply, ← h1]
  cases hC : (mC sC).1 with
  | ok a => exact hf a (h3 a hC) _ _ h2
  | err e => exact ⟨rfl, h2, fun b hb => by cases hb⟩
  | panic => exact ⟨rfl, h2, fun b hb => by cases hb⟩

theorem sim_ite {α : Type} {P : α → Prop} {c : Prop} [Decidable c] {aC bC : M Store α}
    {aU bU : M Unit α} (h1 : Sim p g P aC aU) (h2 : Sim p g P bC bU) :
    Sim p g P (if c then aC else bC) (if c then aU else bU) := by
  split <;> assumption

/-! ### relation lemmas -/

theorem logSub_refl (l : List Access) : LogSub l l := by
  induction l with
  | nil => exact .nil
  | cons a l ih => exact .keep a ih

theorem devRel_peek {dc du : Dev} (h : DevRel dc du) (a : Int) (l : Nat) :
    dc.peek a l = du.peek a l := peek_congr h.mem h.noAccess a l

theorem devRel_writeOk {dc du : Dev} (h : DevRel dc du) (a : Int) (l : Nat) :
    dc.writeOk a l = du.writeOk a l :=
  writeOk_congr h.mem h.noAccess h.noWrite h.rejW h.rejP h.wcount a l

theorem devRel_read {dc du : Dev} (h : DevRel dc du) (a : Int) (l : Nat) :
    (dc.read a l).1 = (du.read a l).1 ∧ DevRel (dc.read a l).2 (du.read a l).2 := by
  have hp := devRel_peek h a l
  cases hc : dc.peek a l with
  | some bs =>
    rw [read_of_peek_some hc, read_of_peek_some (hp ▸ hc)]
    exact ⟨rfl, ⟨h.mem, h.noAccess, h.noWrite, h.rejW, h.rejP, h.wcount, .keep _ h.log⟩⟩
  | none =>
    rw [read_of_peek_none hc, read_of_peek_none (hp ▸ hc)]
    exact ⟨rfl, ⟨h.mem, h.noAccess, h.noWrite, h.rejW, h.rejP, h.wcount, .keep _ h.log⟩⟩

theorem devRel_write {dc du : Dev} (h : DevRel dc du) (a : Int) (data : Bytes) :
    (dc.write a data).1 = (du.write a data).1 ∧ DevRel (dc.write a data).2 (du.write a data).2 := by
  have ha := allowed_congr h.mem h.noAccess h.noWrite h.rejW h.wcount a data.length
  unfold Dev.write
  rw [ha, h.wcount, h.rejP, h.mem]
  cases du.allowed a data.length with
  | false =>
    rw [if_neg (by simp), if_neg (by simp)]
    exact ⟨rfl, ⟨rfl, h.noAccess, h.noWrite, h.rejW, rfl, rfl, .keep _ h.log⟩⟩
  | true =>
    rw [if_pos rfl, if_pos rfl]
    cases alGet du.wcount du.rejP with
    | none => exact ⟨rfl, ⟨rfl, h.noAccess, h.noWrite, h.rejW, rfl, rfl, .keep _ h.log⟩⟩
    | some mj => exact ⟨rfl, ⟨rfl, h.noAccess, h.noWrite, h.rejW, rfl, rfl, .keep _ h.log⟩⟩

theorem peek_read (d : Dev) (a : Int) (l : Nat) (a' : Int) (l' : Nat) :
    (d.read a l).2.peek a' l' = d.peek a' l' := by
  unfold Dev.read; split <;> rfl


theorem devRel_log_keep {dc du : Dev} (h : DevRel dc du) (e : Access) :
    DevRel { dc with log := e :: dc.log } { du with log := e :: du.log } :=
  ⟨h.mem, h.noAccess, h.noWrite, h.rejW, h.rejP, h.wcount, .keep e h.log⟩

theorem devRel_log_drop {dc du : Dev} (h : DevRel dc du) (e : Access) (h1 : e.write = false)
    (h2 : e.ok = true) : DevRel dc { du with log := e :: du.log } :=
  ⟨h.mem, h.noAccess, h.noWrite, h.rejW, h.rejP, h.wcount, .dropR e h1 h2 h.log⟩

/-! ### simulation of the primitives -/

theorem sim_invBy (n : NodeId) :
    Sim p g (fun _ => True) (invBy defaultCache n) (invBy sinkCache n) := by
  intro sC sU hR
  exact ⟨rfl, ⟨hR.1, inv_invalidateBy hR.2 n⟩, fun _ _ => trivial⟩

theorem sim_invOf (n : NodeId) :
    Sim p g (fun _ => True) (invOf defaultCache n) (invOf sinkCache n) := by
  intro sC sU hR
  exact ⟨rfl, ⟨hR.1, inv_invalidateOf hR.2 n⟩, fun _ _ => trivial⟩

theorem sim_clearCache :
    Sim p g (fun _ => True) (clearCache defaultCache) (clearCache sinkCache) := by
  intro sC sU hR
  exact ⟨rfl, ⟨hR.1, inv_clear hR.2⟩, fun _ _ => trivial⟩

theorem sim_readAndCache {n : NodeId} {r : Reg} {a : Int} (buflen : Nat)
    (hn : g[n]? = some (.reg r)) (hk : KeyAddr p g r a) :
    Sim p g (fun bs => bs.length = r.len) (readAndCache defaultCache g n r a buflen)
      (readAndCache sinkCache g n r a buflen) := by
  intro sC sU hR
  obtain ⟨hdev, hinv⟩ := hR
  rw [readAndCache_eq, readAndCache_eq]
  by_cases h1 : buflen ≠ r.len
  · rw [if_pos h1, if_pos h1]
    exact ⟨rfl, ⟨hdev, hinv⟩, fun _ hb => by cases hb⟩
  · by_cases h2 : g[r.port]? = some .port
    · rw [if_neg h1, if_neg h1, if_pos h2, if_pos h2]
      have hp := devRel_peek hdev a r.len
      cases hc : sC.dev.peek a r.len with
      | some bs =>
        rw [← hp, hc]
        dsimp only
        refine ⟨rfl, ⟨devRel_log_keep hdev _, ?_⟩, fun b hb => by cases hb; exact peek_length hc⟩
        dsimp only
        refine inv_dev_congr (d := sC.dev) ?_ (fun _ _ => rfl)
        show Inv p g (if r.mode ≠ .noCache then Store.cache sC.cache n a r.len bs else sC.cache) sC.dev
        by_cases h4 : r.mode ≠ .noCache
        · rw [if_pos h4]
          exact inv_cache hinv hn h4 h2 hk hc
        · rw [if_neg h4]
          exact hinv
      | none =>
        rw [← hp, hc]
        dsimp only
        exact ⟨rfl, ⟨devRel_log_keep hdev _, inv_dev_congr hinv (fun _ _ => rfl)⟩,
          fun _ hb => by cases hb⟩
    · rw [if_neg h1, if_neg h1, if_neg h2, if_neg h2]
      exact ⟨rfl, ⟨hdev, hinv⟩, fun _ hb => by cases hb⟩

theorem sim_cachedRead {n : NodeId} {r : Reg} {a : Int}
    (hn : g[n]? = some (.reg r)) (hk : KeyAddr p g r a) :
    Sim p g (fun bs => bs.length = r.len) (cachedRead defaultCache g n r a)
      (cachedRead sinkCache g n r a) := by
  intro sC sU hR
  have hU : cachedRead sinkCache g n r a sU = readAndCache sinkCache g n r a r.len sU := rfl
  cases hget : sC.cache.get n a r.len with
  | none =>
    have hC : cachedRead defaultCache g n r a sC = readAndCache defaultCache g n r a r.len sC := by
      show (match Store.get sC.cache n a r.len with
        | some bs => (Res.ok bs, sC)
        | none => readAndCache defaultCache g n r a r.len sC) = _
      rw [hget]
    rw [hC, hU]
    exact sim_readAndCache r.len hn hk sC sU hR
  | some bs =>
    have hC : cachedRead defaultCache g n r a sC = (.ok bs, sC) := by
      show (match Store.get sC.cache n a r.len with
        | some bs => (Res.ok bs, sC)
        | none => readAndCache defaultCache g n r a r.len sC) = _
      rw [hget]
    obtain ⟨hdev, hinv⟩ := hR
    obtain ⟨r', hr', _, _, hport, _⟩ := hinv.keys _ _ _ _ hget
    rw [hn] at hr'
    cases hr'
    have hpk : sU.dev.peek a r.len = some bs := by
      rw [← devRel_peek hdev]
      exact hinv.coherent _ _ _ _ hget
    rw [hC, hU, readAndCache_eq, if_neg (by simp), if_pos hport, hpk]
    dsimp only
    exact ⟨rfl, ⟨devRel_log_drop hdev _ rfl rfl, hinv⟩,
      fun b hb => by cases hb; exact peek_length (hinv.coherent _ _ _ _ hget)⟩

/-- write primitive, from one related pair of states, under `PairOk` for that cache state -/
theorem sim_writeAt_at {n : NodeId} {r : Reg} {a : Int} {buf : Bytes}
    (hn : g[n]? = some (.reg r)) (hk : KeyAddr p g r a) (hlen : buf.length = r.len)
    {sC : St Store} {sU : St Unit} (hR : Rel p g sC sU) (hP : PairOk p g sC.cache n r) :
    (writeAt defaultCache g n r a buf sC).1 = (writeAt sinkCache g n r a buf sU).1 ∧
      Rel p g (writeAt defaultCache g n r a buf sC).2 (writeAt sinkCache g n r a buf sU).2 := by
  obtain ⟨hdev, hinv⟩ := hR
  rw [writeAt_eq, writeAt_eq]
  by_cases h2 : g[r.port]? = some .port
  · have hdw := devRel_write hdev a buf
    rw [if_pos h2, if_pos h2]
    refine ⟨hdw.1, ⟨hdw.2, ?_⟩⟩
    have hw := devRel_writeOk hdev a buf.length
    exact inv_write hP hinv hn h2 hk hlen
  · rw [if_neg h2, if_neg h2]
    exact ⟨rfl, ⟨hdev, inv_invalidateBy hinv n⟩⟩

theorem sim_writeAt (hD : Declared p g) {n : NodeId} {r : Reg} {a : Int} {buf : Bytes}
    (hn : g[n]? = some (.reg r)) (hk : KeyAddr p g r a) (hlen : buf.length = r.len) :
    Sim p g (fun _ => True) (writeAt defaultCache g n r a buf) (writeAt sinkCache g n r a buf) := by
  intro sC sU hR
  obtain ⟨h1, h2⟩ := sim_writeAt_at hn hk hlen hR (pairOk_of_declared hD _ hn)
  exact ⟨h1, h2, fun _ _ => trivial⟩

theorem sim_portWrite {pn : NodeId} (hP : PortDeclared g pn) (a : Int) (buf : Bytes) :
    Sim p g (fun _ => True) (portWrite defaultCache g pn a buf) (portWrite sinkCache g pn a buf) := by
  intro sC sU hR
  obtain ⟨hdev, hinv⟩ := hR
  rw [portWrite_eq, portWrite_eq]
  by_cases h2 : g[pn]? = some .port
  · rw [if_pos h2, if_pos h2]
    have hdw := devRel_write hdev a buf
    exact ⟨hdw.1, ⟨hdw.2, inv_portWrite hP hinv⟩, fun _ _ => trivial⟩
  · rw [if_neg h2, if_neg h2]
    exact ⟨rfl, ⟨hdev, hinv⟩, fun _ _ => trivial⟩

theorem sim_portRead (pn : NodeId) (a : Int) (l : Nat) :
    Sim p g (fun _ => True) (portRead g pn a l : M Store Bytes) (portRead g pn a l) := by
  intro sC sU hR
  obtain ⟨hdev, hinv⟩ := hR
  rw [portRead_eq, portRead_eq]
  by_cases h2 : g[pn]? = some .port
  · rw [if_pos h2, if_pos h2]
    have hdr := devRel_read hdev a l
    exact ⟨hdr.1, ⟨hdr.2, inv_dev_congr hinv (peek_read _ _ _)⟩, fun _ _ => trivial⟩
  · rw [if_neg h2, if_neg h2]
    exact ⟨rfl, ⟨hdev, hinv⟩, fun _ _ => trivial⟩


/-! ### simulation of the interpreter -/

theorem mulI64_ok {p : Profile} {a b c : Int} (h : mulI64 p a b = .ok c)
    (hp : p.overflowChecks = true) : c = a * b := by
  unfold mulI64 at h
  split at h
  · cases h; rfl
  · simp at h

theorem addI64_ok {p : Profile} {a b c : Int} (h : addI64 p a b = .ok c)
    (hp : p.overflowChecks = true) : c = a + b := by
  unfold addI64 at h
  split at h
  · cases h; rfl
  · simp at h

theorem sim_regAddr {evC : NodeId → M Store Int} {evU : NodeId → M Unit Int}
    (hev : ∀ m, Sim p g (InSelRange g m) (evC m) (evU m)) (r : Reg) :
    Sim p g (KeyAddr p g r) (regAddr p evC r) (regAddr p evU r) := by
  unfold regAddr
  cases hs : r.sel with
  | none =>
    dsimp only
    exact sim_pure _ (by unfold KeyAddr; rw [hs])
  | some so =>
    obtain ⟨s, off⟩ := so
    dsimp only
    refine sim_bind (hev s) (fun k hk => ?_)
    refine sim_bind (sim_lift (P := fun prod => p.overflowChecks = true → prod = k * off) _
      (fun c hc hp => mulI64_ok hc hp)) (fun prod hprod => ?_)
    refine sim_lift _ (fun a ha => ?_)
    unfold KeyAddr
    rw [hs]
    intro hp
    exact ⟨k, by rw [addI64_ok ha hp, hprod hp], hk⟩

theorem sim_withCacheOrRead {evC : NodeId → M Store Int} {evU : NodeId → M Unit Int}
    (hev : ∀ m, Sim p g (InSelRange g m) (evC m) (evU m)) {n : NodeId} {r : Reg}
    (hn : g[n]? = some (.reg r)) :
    Sim p g (fun bs => bs.length = r.len) (withCacheOrRead defaultCache p g evC n r)
      (withCacheOrRead sinkCache p g evU n r) := by
  unfold withCacheOrRead
  exact sim_bind (sim_regAddr hev r) (fun a hk => sim_cachedRead hn hk)

theorem sim_writeAndCache (hD : Declared p g) {evC : NodeId → M Store Int}
    {evU : NodeId → M Unit Int} (hev : ∀ m, Sim p g (InSelRange g m) (evC m) (evU m))
    {n : NodeId} {r : Reg} (hn : g[n]? = some (.reg r)) (buf : Bytes) :
    Sim p g (fun _ => True) (writeAndCache defaultCache p g evC n r buf)
      (writeAndCache sinkCache p g evU n r buf) := by
  unfold writeAndCache
  by_cases h : buf.length ≠ r.len
  · rw [if_pos h, if_pos h]
    exact sim_fail _
  · rw [if_neg h, if_neg h]
    have hlen : buf.length = r.len := Classical.byContradiction h
    exact sim_bind (sim_regAddr hev r) (fun a hk => sim_writeAt hD hn hk hlen)

theorem inSelRange_trivial {n : NodeId} (h : selRange g n = none) (v : Int) : InSelRange g n v := by
  unfold InSelRange; rw [h]; trivial

theorem sim_evalInt (fuel : Nat) :
    ∀ n, Sim p g (InSelRange g n) (evalInt defaultCache p g fuel n) (evalInt sinkCache p g fuel n) := by
  induction fuel with
  | zero =>
    intro n
    simp only [evalInt]
    exact sim_panic
  | succ f ih =>
    intro n
    simp only [evalInt]
    cases hn : g[n]? with
    | none => exact sim_panic
    | some nd =>
      cases nd with
      | port => exact sim_fail _
      | command _ _ => exact sim_fail _
      | boolean _ _ _ => exact sim_fail _
      | ctls _ => exact sim_fail _
      | integer pv cs =>
        refine sim_weaken (ih pv) (fun v _ => inSelRange_trivial ?_ v)
        unfold selRange; rw [hn]
      | enumeration pv vals =>
        refine sim_weaken (ih pv) (fun v _ => inSelRange_trivial ?_ v)
        unfold selRange; rw [hn]
      | reg r =>
        dsimp only
        cases hk : r.kind with
        | int e s =>
          dsimp only
          exact sim_bind (sim_withCacheOrRead ih hn)
            (fun bs hbs => sim_lift _ (fun v hv => intFromSlice_range hn hk hbs hv))
        | masked e s lsb msb =>
          dsimp only
          have hnone : selRange g n = none := by unfold selRange; rw [hn]; dsimp only; rw [hk]
          refine sim_bind (sim_withCacheOrRead ih hn) (fun bs _ => ?_)
          refine sim_bind (sim_lift (P := fun _ => True) _ (fun _ _ => trivial)) (fun v _ => ?_)
          refine sim_bind (sim_lift (P := fun _ => True) _ (fun _ _ => trivial)) (fun lw _ => ?_)
          obtain ⟨l, w⟩ := lw
          exact sim_pure _ (inSelRange_trivial hnone _)
        | float _ => exact sim_fail _
        | string => exact sim_fail _
        | raw => exact sim_fail _

theorem sim_forEachM {fC : NodeId → M Store Unit} {fU : NodeId → M Unit Unit}
    (hf : ∀ c, Sim p g (fun _ => True) (fC c) (fU c)) (cs : List NodeId) :
    Sim p g (fun _ => True) (forEachM fC cs) (forEachM fU cs) := by
  induction cs with
  | nil => exact sim_pure _ trivial
  | cons c cs ih => exact sim_bind (hf c) (fun _ _ => ih)

theorem sim_setInt (hD : Declared p g) (fuel : Nat) :
    ∀ n v, Sim p g (fun _ => True) (setInt defaultCache p g fuel n v) (setInt sinkCache p g fuel n v) := by
  induction fuel with
  | zero =>
    intro n v
    simp only [setInt]
    exact sim_panic
  | succ f ih =>
    intro n v
    simp only [setInt]
    cases hn : g[n]? with
    | none => exact sim_panic
    | some nd =>
      cases nd with
      | port => exact sim_fail _
      | command _ _ => exact sim_fail _
      | boolean _ _ _ => exact sim_fail _
      | ctls _ => exact sim_fail _
      | integer pv cs =>
        dsimp only
        refine sim_bind (sim_invBy n) (fun _ _ => ?_)
        exact sim_bind (ih pv v) (fun _ _ => sim_forEachM (fun c => ih c v) cs)
      | enumeration pv vals =>
        dsimp only
        exact sim_ite (sim_bind (sim_invBy n) (fun _ _ => ih pv v)) (sim_fail _)
      | reg r =>
        dsimp only
        cases hk : r.kind with
        | int e s =>
          dsimp only
          refine sim_bind (sim_invBy n) (fun _ _ => ?_)
          refine sim_bind (sim_lift (P := fun _ => True) _ (fun _ _ => trivial)) (fun buf _ => ?_)
          exact sim_writeAndCache hD (sim_evalInt f) hn buf
        | masked e s lsb msb =>
          dsimp only
          refine sim_bind (sim_invBy n) (fun _ _ => ?_)
          refine sim_bind (sim_withCacheOrRead (sim_evalInt f) hn) (fun bs _ => ?_)
          refine sim_bind (sim_lift (P := fun _ => True) _ (fun _ _ => trivial)) (fun old _ => ?_)
          refine sim_bind (sim_lift (P := fun _ => True) _ (fun _ _ => trivial)) (fun lw _ => ?_)
          obtain ⟨l, w⟩ := lw
          dsimp only
          refine sim_bind (sim_lift (P := fun _ => True) _ (fun _ _ => trivial)) (fun nv _ => ?_)
          refine sim_bind (sim_lift (P := fun _ => True) _ (fun _ _ => trivial)) (fun buf _ => ?_)
          exact sim_writeAndCache hD (sim_evalInt f) hn buf
        | float _ => exact sim_fail _
        | string => exact sim_fail _
        | raw => exact sim_fail _


theorem sim_opValue (fuel : Nat) (n : NodeId) :
    Sim p g (fun _ => True) (opValue defaultCache p g fuel n) (opValue sinkCache p g fuel n) := by
  unfold opValue
  cases hn : g[n]? with
  | none => exact sim_fail _
  | some nd =>
    cases nd with
    | port => exact sim_fail _
    | command _ _ => exact sim_fail _
    | ctls _ => exact sim_fail _
    | integer pv cs =>
      dsimp only
      exact sim_bind (sim_evalInt fuel n) (fun v _ => sim_pure _ trivial)
    | enumeration pv vals =>
      dsimp only
      exact sim_bind (sim_evalInt fuel n) (fun v _ => sim_pure _ trivial)
    | boolean pv on off =>
      dsimp only
      refine sim_bind (sim_evalInt fuel pv) (fun v _ => ?_)
      exact sim_ite (sim_pure _ trivial) (sim_ite (sim_pure _ trivial) (sim_fail _))
    | reg r =>
      dsimp only
      cases hk : r.kind with
      | int e s =>
        dsimp only
        exact sim_bind (sim_evalInt fuel n) (fun v _ => sim_pure _ trivial)
      | masked e s lsb msb =>
        dsimp only
        exact sim_bind (sim_evalInt fuel n) (fun v _ => sim_pure _ trivial)
      | float e =>
        dsimp only
        exact sim_bind (sim_withCacheOrRead (sim_evalInt fuel) hn)
          (fun bs _ => sim_lift _ (fun _ _ => trivial))
      | string =>
        dsimp only
        exact sim_bind (sim_withCacheOrRead (sim_evalInt fuel) hn)
          (fun bs _ => sim_pure _ trivial)
      | raw => exact sim_fail _

theorem sim_opSetValue (hD : Declared p g) (fuel : Nat) (n : NodeId) (v : Val) :
    Sim p g (fun _ => True) (opSetValue defaultCache p g fuel n v)
      (opSetValue sinkCache p g fuel n v) := by
  unfold opSetValue
  cases hn : g[n]? with
  | none => exact sim_fail _
  | some nd =>
    cases nd with
    | port => exact sim_fail _
    | command _ _ => exact sim_fail _
    | ctls _ => exact sim_fail _
    | integer pv cs =>
      dsimp only
      cases v with
      | int i =>
        dsimp only
        exact sim_bind (sim_setInt hD fuel n i) (fun _ _ => sim_pure _ trivial)
      | _ => exact sim_fail _
    | enumeration pv vals =>
      dsimp only
      cases v with
      | int i =>
        dsimp only
        exact sim_bind (sim_setInt hD fuel n i) (fun _ _ => sim_pure _ trivial)
      | _ => exact sim_fail _
    | boolean pv on off =>
      dsimp only
      cases v with
      | bool b =>
        dsimp only
        refine sim_bind (sim_invBy n) (fun _ _ => ?_)
        exact sim_bind (sim_setInt hD fuel pv _) (fun _ _ => sim_pure _ trivial)
      | _ => exact sim_fail _
    | reg r =>
      dsimp only
      have hset : ∀ i, Sim p g (fun _ => True)
          (do setInt defaultCache p g fuel n i; M.pure Val.unit)
          (do setInt sinkCache p g fuel n i; M.pure Val.unit) :=
        fun i => sim_bind (sim_setInt hD fuel n i) (fun _ _ => sim_pure _ trivial)
      cases hk : r.kind with
      | int e s =>
        cases v with
        | int i => exact hset i
        | _ => exact sim_fail _
      | masked e s lsb msb =>
        cases v with
        | int i => exact hset i
        | _ => exact sim_fail _
      | float e =>
        cases v with
        | flt w bits =>
          dsimp only
          refine sim_bind (sim_invBy n) (fun _ _ => ?_)
          refine sim_bind (sim_lift (P := fun _ => True) _ (fun _ _ => trivial)) (fun buf _ => ?_)
          exact sim_bind (sim_writeAndCache hD (sim_evalInt fuel) hn buf)
            (fun _ _ => sim_pure _ trivial)
        | _ => exact sim_fail _
      | string =>
        cases v with
        | str sb =>
          dsimp only
          refine sim_bind (sim_lift (P := fun _ => True) _ (fun _ _ => trivial)) (fun buf _ => ?_)
          refine sim_bind (sim_invBy n) (fun _ _ => ?_)
          exact sim_bind (sim_writeAndCache hD (sim_evalInt fuel) hn buf)
            (fun _ _ => sim_pure _ trivial)
        | _ => exact sim_fail _
      | raw =>
        cases v <;> exact sim_fail _

theorem sim_opRead (fuel : Nat) (n : NodeId) (buflen : Nat) :
    Sim p g (fun _ => True) (opRead defaultCache p g fuel n buflen)
      (opRead sinkCache p g fuel n buflen) := by
  unfold opRead
  cases hn : g[n]? with
  | none => exact sim_fail _
  | some nd =>
    cases nd with
    | reg r =>
      dsimp only
      refine sim_bind (sim_regAddr (sim_evalInt fuel) r) (fun a hk => ?_)
      exact sim_bind (sim_readAndCache buflen hn hk) (fun buf _ => sim_pure _ trivial)
    | _ => exact sim_fail _

theorem sim_opWrite (hD : Declared p g) (fuel : Nat) (n : NodeId) (data : Bytes) :
    Sim p g (fun _ => True) (opWrite defaultCache p g fuel n data)
      (opWrite sinkCache p g fuel n data) := by
  unfold opWrite
  cases hn : g[n]? with
  | none => exact sim_fail _
  | some nd =>
    cases nd with
    | reg r =>
      dsimp only
      exact sim_bind (sim_writeAndCache hD (sim_evalInt fuel) hn data)
        (fun _ _ => sim_pure _ trivial)
    | _ => exact sim_fail _

theorem sim_opExecute (hD : Declared p g) (fuel : Nat) (n : NodeId) :
    Sim p g (fun _ => True) (opExecute defaultCache p g fuel n) (opExecute sinkCache p g fuel n) := by
  unfold opExecute
  cases hn : g[n]? with
  | none => exact sim_fail _
  | some nd =>
    cases nd with
    | command pv cv =>
      dsimp only
      refine sim_bind (sim_invBy n) (fun _ _ => ?_)
      exact sim_bind (sim_setInt hD fuel pv cv) (fun _ _ => sim_pure _ trivial)
    | _ => exact sim_fail _

theorem sim_boolFromId (F : Nat) (c : NodeId) :
    Sim p g (fun _ => True) (boolFromId defaultCache p g F c) (boolFromId sinkCache p g F c) := by
  unfold boolFromId
  cases hn : g[c]? with
  | none => exact sim_fail _
  | some nd =>
    cases nd with
    | boolean pv on off =>
      dsimp only
      refine sim_bind (sim_evalInt F pv) (fun v _ => ?_)
      exact sim_ite (sim_pure _ trivial) (sim_ite (sim_pure _ trivial) (sim_fail _))
    | integer _ _ =>
      exact sim_bind (sim_evalInt F c) (fun v _ => sim_pure _ trivial)
    | reg r =>
      dsimp only
      cases r.kind with
      | int _ _ => exact sim_bind (sim_evalInt F c) (fun v _ => sim_pure _ trivial)
      | masked _ _ _ _ => exact sim_bind (sim_evalInt F c) (fun v _ => sim_pure _ trivial)
      | _ => exact sim_fail _
    | _ => exact sim_fail _

theorem sim_ctlVal (F : Nat) (o : Option NodeId) (d : Bool) :
    Sim p g (fun _ => True) (ctlVal defaultCache p g F o d) (ctlVal sinkCache p g F o d) := by
  unfold ctlVal
  cases o with
  | none => exact sim_pure _ trivial
  | some c => exact sim_boolFromId F c

theorem sim_baseReadable (F : Nat) (n : NodeId) :
    Sim p g (fun _ => True) (baseReadable defaultCache p g F n) (baseReadable sinkCache p g F n) := by
  unfold baseReadable
  exact sim_bind (sim_ctlVal F _ _) (fun i _ => sim_ite (sim_ctlVal F _ _) (sim_pure _ trivial))

theorem sim_baseWritable (F : Nat) (n : NodeId) :
    Sim p g (fun _ => True) (baseWritable defaultCache p g F n) (baseWritable sinkCache p g F n) := by
  unfold baseWritable
  refine sim_bind (sim_ctlVal F _ _) (fun i _ => sim_ite ?_ (sim_pure _ trivial))
  refine sim_bind (sim_ctlVal F _ _) (fun a _ => sim_ite ?_ (sim_pure _ trivial))
  exact sim_bind (sim_ctlVal F _ _) (fun l _ => sim_pure _ trivial)

theorem sim_isReadableI (F : Nat) (fuel : Nat) :
    ∀ n, Sim p g (fun _ => True) (isReadableI defaultCache p g F fuel n)
      (isReadableI sinkCache p g F fuel n) := by
  induction fuel with
  | zero => intro n; simp only [isReadableI]; exact sim_panic
  | succ f ih =>
    intro n
    simp only [isReadableI]
    cases hn : g[n]? with
    | none => exact sim_panic
    | some nd =>
      cases nd with
      | integer pv _ =>
        exact sim_bind (sim_baseReadable F n) (fun b _ => sim_ite (ih pv) (sim_pure _ trivial))
      | enumeration pv _ =>
        exact sim_bind (sim_baseReadable F n) (fun b _ => sim_ite (ih pv) (sim_pure _ trivial))
      | reg r =>
        dsimp only
        cases r.kind with
        | int _ _ => exact sim_bind (sim_baseReadable F n) (fun b _ => sim_pure _ trivial)
        | masked _ _ _ _ => exact sim_bind (sim_baseReadable F n) (fun b _ => sim_pure _ trivial)
        | _ => exact sim_pure _ trivial
      | _ => exact sim_pure _ trivial

theorem sim_andAllM {fC : NodeId → M Store Bool} {fU : NodeId → M Unit Bool}
    (hf : ∀ c, Sim p g (fun _ => True) (fC c) (fU c)) (cs : List NodeId) :
    ∀ b, Sim p g (fun _ => True) (andAllM fC cs b) (andAllM fU cs b) := by
  induction cs with
  | nil => intro b; exact sim_pure _ trivial
  | cons c cs ih => intro b; exact sim_bind (hf c) (fun y _ => ih _)

theorem sim_isWritableI (F : Nat) (fuel : Nat) :
    ∀ n, Sim p g (fun _ => True) (isWritableI defaultCache p g F fuel n)
      (isWritableI sinkCache p g F fuel n) := by
  induction fuel with
  | zero => intro n; simp only [isWritableI]; exact sim_panic
  | succ f ih =>
    intro n
    simp only [isWritableI]
    cases hn : g[n]? with
    | none => exact sim_panic
    | some nd =>
      cases nd with
      | integer pv cs =>
        refine sim_bind (sim_baseWritable F n) (fun b _ => sim_ite ?_ (sim_pure _ trivial))
        exact sim_bind (ih pv) (fun x _ => sim_andAllM ih cs x)
      | enumeration pv _ =>
        exact sim_bind (sim_baseWritable F n) (fun b _ => sim_ite (ih pv) (sim_pure _ trivial))
      | reg r =>
        dsimp only
        cases r.kind with
        | int _ _ => exact sim_bind (sim_baseWritable F n) (fun b _ => sim_pure _ trivial)
        | masked _ _ _ _ => exact sim_bind (sim_baseWritable F n) (fun b _ => sim_pure _ trivial)
        | _ => exact sim_pure _ trivial
      | _ => exact sim_pure _ trivial

theorem sim_opIsReadable (F : Nat) (n : NodeId) :
    Sim p g (fun _ => True) (opIsReadable defaultCache p g F n) (opIsReadable sinkCache p g F n) := by
  unfold opIsReadable
  cases hn : g[n]? with
  | none => exact sim_fail _
  | some nd =>
    cases nd with
    | reg r =>
      dsimp only
      cases r.kind <;> first
        | exact sim_fail _
        | exact sim_bind (sim_baseReadable F n) (fun b _ => sim_pure _ trivial)
    | integer _ _ => exact sim_bind (sim_isReadableI F F n) (fun b _ => sim_pure _ trivial)
    | enumeration _ _ => exact sim_bind (sim_isReadableI F F n) (fun b _ => sim_pure _ trivial)
    | boolean pv _ _ =>
      refine sim_bind (sim_baseReadable F n) (fun b _ => sim_ite ?_ (sim_pure _ trivial))
      exact sim_bind (sim_isReadableI F F pv) (fun x _ => sim_pure _ trivial)
    | _ => exact sim_fail _

theorem sim_opIsWritable (F : Nat) (n : NodeId) :
    Sim p g (fun _ => True) (opIsWritable defaultCache p g F n) (opIsWritable sinkCache p g F n) := by
  unfold opIsWritable
  have hfeat : ∀ pv, Sim p g (fun _ => True)
      (do let b ← baseWritable defaultCache p g F n
          if b then do
            let x ← isWritableI defaultCache p g F F pv
            M.pure (Val.bool x)
          else M.pure (Val.bool false))
      (do let b ← baseWritable sinkCache p g F n
          if b then do
            let x ← isWritableI sinkCache p g F F pv
            M.pure (Val.bool x)
          else M.pure (Val.bool false)) := fun pv =>
    sim_bind (sim_baseWritable F n) (fun b _ => sim_ite
      (sim_bind (sim_isWritableI F F pv) (fun x _ => sim_pure _ trivial)) (sim_pure _ trivial))
  cases hn : g[n]? with
  | none => exact sim_fail _
  | some nd =>
    cases nd with
    | reg r =>
      dsimp only
      cases r.kind <;> first
        | exact sim_fail _
        | exact sim_bind (sim_baseWritable F n) (fun b _ => sim_pure _ trivial)
    | integer _ _ => exact sim_bind (sim_isWritableI F F n) (fun b _ => sim_pure _ trivial)
    | enumeration pv _ => exact hfeat pv
    | boolean pv _ _ => exact hfeat pv
    | command pv _ => exact hfeat pv
    | _ => exact sim_fail _

theorem sim_opIsDone (fuel : Nat) (n : NodeId) :
    Sim p g (fun _ => True) (opIsDone defaultCache p g fuel n) (opIsDone sinkCache p g fuel n) := by
  unfold opIsDone
  cases hn : g[n]? with
  | none => exact sim_fail _
  | some nd =>
    cases nd with
    | command pv cv =>
      dsimp only
      refine sim_bind (sim_invOf pv) (fun _ _ => ?_)
      refine sim_bind (sim_isReadableI fuel fuel pv) (fun rd _ => ?_)
      cases rd with
      | true =>
        simp only [if_true]
        exact sim_bind (sim_evalInt fuel pv) (fun v _ => sim_pure _ trivial)
      | false =>
        simp only [Bool.false_eq_true, if_false]
        exact sim_pure _ trivial
    | _ => exact sim_fail _

theorem sim_opAddress (fuel : Nat) (n : NodeId) :
    Sim p g (fun _ => True) (opAddress defaultCache p g fuel n) (opAddress sinkCache p g fuel n) := by
  unfold opAddress
  cases hn : g[n]? with
  | none => exact sim_fail _
  | some nd =>
    cases nd with
    | reg r =>
      dsimp only
      exact sim_bind (sim_regAddr (sim_evalInt fuel) r) (fun a _ => sim_pure _ trivial)
    | _ => exact sim_fail _

theorem sim_evalOp (hD : Declared p g) (fuel : Nat) (op : Op)
    (hop : ∀ n a d, op = .portWrite n a d → PortDeclared g n) :
    Sim p g (fun _ => True) (evalOp defaultCache p g fuel op) (evalOp sinkCache p g fuel op) := by
  cases op with
  | value n => exact sim_opValue fuel n
  | setValue n v => exact sim_opSetValue hD fuel n v
  | read n l => exact sim_opRead fuel n l
  | write n d => exact sim_opWrite hD fuel n d
  | execute n => exact sim_opExecute hD fuel n
  | isDone n => exact sim_opIsDone fuel n
  | portRead n a l =>
    exact sim_bind (sim_portRead n a l) (fun bs _ => sim_pure _ trivial)
  | portWrite n a d =>
    exact sim_bind (sim_portWrite (hop n a d rfl) a d) (fun _ _ => sim_pure _ trivial)
  | clearCache =>
    exact sim_bind sim_clearCache (fun _ _ => sim_pure _ trivial)
  | address n => exact sim_opAddress fuel n
  | isReadable n => exact sim_opIsReadable fuel n
  | isWritable n => exact sim_opIsWritable fuel n

/-- one public operation -/
theorem sim_run (hD : Declared p g) (op : Op)
    (hop : ∀ n a d, op = .portWrite n a d → PortDeclared g n) {sC : St Store} {sU : St Unit}
    (hR : Rel p g sC sU) :
    (run defaultCache p g sC op).1 = (run sinkCache p g sU op).1 ∧
      Rel p g (run defaultCache p g sC op).2 (run sinkCache p g sU op).2 := by
  obtain ⟨h1, h2, _⟩ := sim_evalOp hD (fuelOf g) op hop sC sU hR
  exact ⟨h1, h2⟩

theorem runHist_cons {κ : Type} (ops : CacheOps κ) (p : Profile) (g : Graph) (s : St κ) (op : Op)
    (rest : List Op) :
    runHist ops p g s (op :: rest) =
      match (run ops p g s op).1 with
      | .panic => ([.panic], (run ops p g s op).2)
      | r => (r :: (runHist ops p g (run ops p g s op).2 rest).1,
              (runHist ops p g (run ops p g s op).2 rest).2) := by
  rw [runHist]
  rcases h : run ops p g s op with ⟨r, s'⟩
  cases r <;> rfl

/-- a whole history -/
theorem sim_runHist (hD : Declared p g) (h : List Op) (hH : HistOk g h) :
    ∀ {sC : St Store} {sU : St Unit}, Rel p g sC sU →
      (runHist defaultCache p g sC h).1 = (runHist sinkCache p g sU h).1 ∧
        Rel p g (runHist defaultCache p g sC h).2 (runHist sinkCache p g sU h).2 := by
  induction h with
  | nil => intro sC sU hR; exact ⟨rfl, hR⟩
  | cons op rest ih =>
    intro sC sU hR
    have hop : ∀ n a d, op = .portWrite n a d → PortDeclared g n :=
      fun n a d e => hH n a d (by rw [e]; exact List.mem_cons_self)
    have hrest : HistOk g rest := fun n a d hm => hH n a d (List.mem_cons_of_mem _ hm)
    obtain ⟨h1, h2⟩ := sim_run hD op hop hR
    rw [runHist_cons, runHist_cons, ← h1]
    obtain ⟨h3, h4⟩ := ih hrest h2
    cases hr : (run defaultCache p g sC op).1 with
    | panic => exact ⟨rfl, h2⟩
    | ok v => exact ⟨by dsimp only; rw [h3], h4⟩
    | err e => exact ⟨by dsimp only; rw [h3], h4⟩

/-- the initial states of the two builds are related -/
theorem rel_init (p : Profile) (g : Graph) (d : Dev) : Rel p g (initDefault g d) (initSink d) := by
  refine ⟨⟨rfl, rfl, rfl, rfl, rfl, rfl, logSub_refl _⟩, ?_, ?_, buildStore_table g⟩
  · intro n a l bs h
    rw [initDefault, buildStore_get] at h
    cases h
  · intro n a l bs h
    rw [initDefault, buildStore_get] at h
    cases h

end SimDefs
end CamVerif.C04
