/-
C04 helper lemmas, part 9: sequences of register accesses at varying cache keys
(`Model.CacheDyn.runKSteps`) keep the cache coherent on every description in which every
cachable register lists every OTHER register or its port (`allListedB`).
-/
import CamVerif.Proofs.C04DynKey
import CamVerif.Model.CacheDyn
namespace CamVerif.C04
open CamVerif CamVerif.Cache

/-- cache entries belong to cachable registers of the description (no claim about the key) -/
def Owner (g : Graph) (c : Store) : Prop :=
  ∀ t a l bs, c.get t a l = some bs → ∃ rt, g[t]? = some (.reg rt) ∧ rt.mode ≠ .noCache

/-- invariant of the varying-key runs -/
structure DynInv (g : Graph) (c : Store) (d : Dev) : Prop where
  coherent : Coherent c d
  table : TableOk g c
  owner : Owner g c

def AllListed (g : Graph) : Prop := allListedB g = true

instance (g : Graph) : Decidable (AllListed g) := by unfold AllListed; infer_instance

theorem allListed_pair {g : Graph} (h : AllListed g) {t w : NodeId} {rt rw : Reg}
    (ht : g[t]? = some (.reg rt)) (hw : g[w]? = some (.reg rw)) (hm : rt.mode ≠ .noCache)
    (htw : t ≠ w) : w ∈ rt.invs ∨ rw.port ∈ rt.invs := by
  unfold AllListed allListedB at h
  rw [List.all_eq_true] at h
  have h1 := h t (List.mem_range.mpr (lt_length_of_getElem? ht))
  rw [List.all_eq_true] at h1
  have h2 := h1 w (List.mem_range.mpr (lt_length_of_getElem? hw))
  rw [ht, hw] at h2
  simp only [Bool.or_eq_true, beq_iff_eq, decide_eq_true_eq, List.contains_iff_mem] at h2
  rcases h2 with ((h2 | h2) | h2) | h2
  · exact absurd h2 htw
  · exact absurd h2 hm
  · exact .inl h2
  · exact .inr h2

section
variable {g : Graph}

theorem owner_invalidateOf {c : Store} (h : Owner g c) (n : NodeId) : Owner g (c.invalidateOf n) :=
  fun t a l bs hg => by
    rw [get_invalidateOf] at hg
    split at hg
    · cases hg
    · exact h t a l bs hg

theorem owner_invalidateBy {c : Store} (h : Owner g c) (n : NodeId) : Owner g (c.invalidateBy n) :=
  fun t a l bs hg => by
    rw [get_invalidateBy] at hg
    split at hg
    · cases hg
    · exact h t a l bs hg

theorem owner_cache {c : Store} (h : Owner g c) {n : NodeId} {r : Reg} (hn : g[n]? = some (.reg r))
    (hm : r.mode ≠ .noCache) (a : Int) (l : Nat) (d : Bytes) : Owner g (c.cache n a l d) :=
  fun t a' l' bs hg => by
    rw [get_cache] at hg
    split at hg
    · rename_i e
      obtain ⟨rfl, _, _⟩ := e
      exact ⟨r, hn, hm⟩
    · exact h t a' l' bs hg

theorem table_invalidateOf {c : Store} (h : TableOk g c) (n : NodeId) : TableOk g (c.invalidateOf n) :=
  tableOk_congr (invalidators_invalidateOf _ _) h

theorem table_invalidateBy {c : Store} (h : TableOk g c) (n : NodeId) : TableOk g (c.invalidateBy n) :=
  tableOk_congr (invalidators_invalidateBy _ _) h

theorem table_cache {c : Store} (h : TableOk g c) (n : NodeId) (a : Int) (l : Nat) (d : Bytes) :
    TableOk g (c.cache n a l d) :=
  tableOk_congr (invalidators_cache _ _ _ _ _) h

/-- under `AllListed` every write of a register of the description is covered at every key -/
theorem writeCovered_of_allListed (hA : AllListed g) {c : Store} (hT : TableOk g c) (hO : Owner g c)
    {n : NodeId} {r : Reg} (hn : g[n]? = some (.reg r)) (L : Nat) (a : Int) :
    WriteCovered c n { r with len := L } a :=
  writeCovered_of_all_listed a fun t a' l' bs htn hg => by
    obtain ⟨rt, hrt, hm⟩ := hO t a' l' bs hg
    rcases allListed_pair hA hrt hn hm htn with h | h
    · exact .inl (hT t rt n hrt h)
    · exact .inr (hT t rt r.port hrt h)

/-- table and owner part of the invariant across a read at any key -/
theorem cachedRead_anykey_keeps {s : St Store} (hT : TableOk g s.cache) (hO : Owner g s.cache)
    {n : NodeId} {r : Reg} (hn : g[n]? = some (.reg r)) (L : Nat) (a : Int) :
    TableOk g (cachedRead defaultCache g n { r with len := L } a s).2.cache ∧
      Owner g (cachedRead defaultCache g n { r with len := L } a s).2.cache := by
  unfold cachedRead
  split
  · exact ⟨hT, hO⟩
  · rw [readAndCache_eq, if_neg (by simp)]
    split
    · split
      · dsimp only
        split
        · rename_i hm
          exact ⟨table_cache hT _ _ _ _, owner_cache hO hn hm _ _ _⟩
        · exact ⟨hT, hO⟩
      · exact ⟨hT, hO⟩
    · exact ⟨hT, hO⟩

theorem readAndCache_anykey_keeps {s : St Store} (hC : Coherent s.cache s.dev) (hT : TableOk g s.cache)
    (hO : Owner g s.cache) {n : NodeId} {r : Reg} (hn : g[n]? = some (.reg r)) (L : Nat) (a : Int)
    (buflen : Nat) :
    DynInv g (readAndCache defaultCache g n { r with len := L } a buflen s).2.cache
      (readAndCache defaultCache g n { r with len := L } a buflen s).2.dev := by
  rw [readAndCache_eq]
  split
  · exact ⟨hC, hT, hO⟩
  split
  · cases hp : s.dev.peek a L with
    | none => exact ⟨fun n' a' l' bs h => hC n' a' l' bs h, hT, hO⟩
    | some x =>
      dsimp only
      split
      · rename_i hm
        refine ⟨?_, table_cache hT _ _ _ _, owner_cache hO hn hm _ _ _⟩
        intro n' a' l' bs hget
        show s.dev.peek a' l' = some bs
        change (Store.cache s.cache n a L x).get n' a' l' = some bs at hget
        rw [get_cache] at hget
        split at hget
        · rename_i e
          obtain ⟨_, rfl, rfl⟩ := e
          cases hget
          exact hp
        · exact hC n' a' l' bs hget
      · exact ⟨fun n' a' l' bs h => hC n' a' l' bs h, hT, hO⟩
  · exact ⟨hC, hT, hO⟩

theorem writeAt_anykey_keeps {s : St Store} (hT : TableOk g s.cache) (hO : Owner g s.cache)
    {n : NodeId} {r : Reg} (hn : g[n]? = some (.reg r)) (L : Nat) (a : Int) (buf : Bytes) :
    TableOk g (writeAt defaultCache g n { r with len := L } a buf s).2.cache ∧
      Owner g (writeAt defaultCache g n { r with len := L } a buf s).2.cache := by
  rw [writeAt_eq]
  have hT2 := table_invalidateBy (table_invalidateBy hT n) r.port
  have hO2 := owner_invalidateBy (owner_invalidateBy hO n) r.port
  split
  · dsimp only
    split
    · rename_i hc
      exact ⟨table_cache (table_invalidateOf hT2 n) _ _ _ _,
        owner_cache (owner_invalidateOf hO2 n) hn (by rw [hc.2]; decide) _ _ _⟩
    · exact ⟨table_invalidateOf hT2 n, owner_invalidateOf hO2 n⟩
  · exact ⟨table_invalidateBy hT n, owner_invalidateBy hO n⟩

/-- every step preserves the invariant -/
theorem dynInv_step (hA : AllListed g) (k : KStep) {s : St Store} (hI : DynInv g s.cache s.dev) :
    DynInv g (runKStep defaultCache g k s).2.cache (runKStep defaultCache g k s).2.dev := by
  obtain ⟨hC, hT, hO⟩ := hI
  cases k with
  | skip => exact ⟨hC, hT, hO⟩
  | clear =>
    refine ⟨fun n a l bs h => ?_, tableOk_congr (invalidators_clear _) hT, fun t a l bs h => ?_⟩
    · change (Store.clear s.cache).get n a l = some bs at h
      rw [get_clear] at h; cases h
    · change (Store.clear s.cache).get t a l = some bs at h
      rw [get_clear] at h; cases h
  | value n a len =>
    simp only [runKStep]
    cases hn : g[n]? with
    | none => exact ⟨hC, hT, hO⟩
    | some nd =>
      cases nd with
      | reg r =>
        try dsimp only
        have h1 := cachedRead_anykey_coherent (g := g) hC n { r with len := len } a
        have h2 := cachedRead_anykey_keeps hT hO hn len a
        generalize ({ r with len := len } : Reg) = R' at h1 h2 ⊢
        cases hk : r.kind with
        | int e sg =>
          try dsimp only
          rw [bind_apply]
          cases hr : (cachedRead defaultCache g n R' a s).1 with
          | ok bs =>
            dsimp only
            rw [bind_apply]
            cases hv : (M.lift (intFromSlice bs e sg) (cachedRead defaultCache g n R' a s).2).1 with
            | ok v => exact ⟨h1.1, h2.1, h2.2⟩
            | err x => exact ⟨h1.1, h2.1, h2.2⟩
            | panic => exact ⟨h1.1, h2.1, h2.2⟩
          | err x => exact ⟨h1.1, h2.1, h2.2⟩
          | panic => exact ⟨h1.1, h2.1, h2.2⟩
        | _ => exact ⟨hC, hT, hO⟩
      | _ => exact ⟨hC, hT, hO⟩
  | read n a len =>
    simp only [runKStep]
    cases hn : g[n]? with
    | none => exact ⟨hC, hT, hO⟩
    | some nd =>
      cases nd with
      | reg r =>
        dsimp only
        have h1 := readAndCache_anykey_keeps hC hT hO hn len a len
        rw [bind_apply]
        cases hr : (readAndCache defaultCache g n { r with len := len } a len s).1 with
        | ok bs => exact h1
        | err x => exact h1
        | panic => exact h1
      | _ => exact ⟨hC, hT, hO⟩
  | write n a data =>
    simp only [runKStep]
    cases hn : g[n]? with
    | none => exact ⟨hC, hT, hO⟩
    | some nd =>
      cases nd with
      | reg r =>
        dsimp only
        have h1 := writeAt_anykey_coherent (g := g) hC n { r with len := data.length } a data rfl
          (writeCovered_of_allListed hA hT hO hn data.length a)
        have h2 := writeAt_anykey_keeps hT hO hn data.length a data
        rw [bind_apply]
        cases hr : (writeAt defaultCache g n { r with len := data.length } a data s).1 with
        | ok u => exact ⟨h1, h2.1, h2.2⟩
        | err x => exact ⟨h1, h2.1, h2.2⟩
        | panic => exact ⟨h1, h2.1, h2.2⟩
      | _ => exact ⟨hC, hT, hO⟩

theorem runKSteps_cons {κ : Type} (ops : CacheOps κ) (g : Graph) (s : St κ) (k : KStep)
    (rest : List KStep) :
    runKSteps ops g s (k :: rest) =
      match (runKStep ops g k s).1 with
      | .panic => ([.panic], (runKStep ops g k s).2)
      | r => (r :: (runKSteps ops g (runKStep ops g k s).2 rest).1,
              (runKSteps ops g (runKStep ops g k s).2 rest).2) := by
  simp only [runKSteps]
  cases h : runKStep ops g k s with
  | mk r s' => cases r <;> rfl

theorem dynInv_steps (hA : AllListed g) (ks : List KStep) :
    ∀ {s : St Store}, DynInv g s.cache s.dev →
      DynInv g (runKSteps defaultCache g s ks).2.cache (runKSteps defaultCache g s ks).2.dev := by
  induction ks with
  | nil => intro s h; exact h
  | cons k rest ih =>
    intro s h
    have h1 := dynInv_step hA k h
    rw [runKSteps_cons]
    cases hr : (runKStep defaultCache g k s).1 with
    | panic => exact h1
    | ok v => exact ih h1
    | err e => exact ih h1

theorem dynInv_init (g : Graph) (d : Dev) : DynInv g (initDefault g d).cache (initDefault g d).dev :=
  ⟨fun n a l bs h => (by rw [initDefault, buildStore_get] at h; cases h), buildStore_table g,
   fun t a l bs h => (by rw [initDefault, buildStore_get] at h; cases h)⟩

/-- a successful `value` step returns the decoding of the bytes the device holds at that key -/
theorem kstep_value_device {s s' : St Store} (hC : Coherent s.cache s.dev) {n : NodeId} {a : Int}
    {len : Nat} {v : Val} (h : runKStep defaultCache g (.value n a len) s = (.ok v, s')) :
    ∃ r e sg bs i, g[n]? = some (.reg r) ∧ r.kind = .int e sg ∧ s.dev.peek a len = some bs ∧
      intFromSlice bs e sg = .ok i ∧ v = .int i := by
  simp only [runKStep] at h
  cases hn : g[n]? with
  | none => rw [hn] at h; cases h
  | some nd =>
    rw [hn] at h
    cases nd with
    | reg r =>
      dsimp only at h
      cases hk : r.kind with
      | int e sg =>
        rw [hk] at h
        dsimp only at h
        obtain ⟨bs, hbs, h2⟩ := bind_ok_inv h
        obtain ⟨i, hi, h3⟩ := bind_ok_inv h2
        obtain ⟨hi', _⟩ := lift_ok_inv (pair_eta hi)
        obtain ⟨hv, _⟩ := pure_ok_inv h3
        exact ⟨r, e, sg, bs, i, rfl, hk, cachedRead_anykey_device hC n _ a hbs,
          hi', hv.symm⟩
      | _ => rw [hk] at h; cases h
    | _ => cases h

end
end CamVerif.C04
