/-
C17 helper lemmas, part 1: the cursor primitives of `xml.rs` on rendered children
(`flat segs`), leaf parsers on rendered leaves, literal tables.
-/
import CamVerif.Spec.XmlRender
set_option linter.unusedSectionVars false
namespace CamVerif.XmlParse
variable {F : Type}
variable [TextFrag]

/-! ### `flat` -/

@[simp] theorem flat_nil : flat [] = [] := rfl
@[simp] theorem flat_opt_none (t) (r : List Seg) : flat (.opt t none :: r) = flat r := rfl
@[simp] theorem flat_opt_some (t b) (r : List Seg) :
    flat (.opt t (some b) :: r) = mkNode t b :: flat r := rfl
@[simp] theorem flat_one (t b) (r : List Seg) : flat (.one t b :: r) = mkNode t b :: flat r := rfl
@[simp] theorem flat_many_nil (t) (r : List Seg) : flat (.many t [] :: r) = flat r := rfl
@[simp] theorem flat_many_cons (t b bs) (r : List Seg) :
    flat (.many t (b :: bs) :: r) = mkNode t b :: flat (.many t bs :: r) := rfl
@[simp] theorem flat_opt2_none (t1 t2) (r : List Seg) : flat (.opt2 t1 t2 none :: r) = flat r := rfl
@[simp] theorem flat_opt2_some (t1 t2 b) (r : List Seg) :
    flat (.opt2 t1 t2 (some b) :: r) = mkNode (sel2 t1 t2 b.1) b.2 :: flat r := rfl
@[simp] theorem flat_one2 (t1 t2 b) (r : List Seg) :
    flat (.one2 t1 t2 b :: r) = mkNode (sel2 t1 t2 b.1) b.2 :: flat r := rfl
@[simp] theorem flat_many2_nil (t1 t2) (r : List Seg) : flat (.many2 t1 t2 [] :: r) = flat r := rfl
@[simp] theorem flat_many2_cons (t1 t2 b bs) (r : List Seg) :
    flat (.many2 t1 t2 (b :: bs) :: r) = mkNode (sel2 t1 t2 b.1) b.2 :: flat (.many2 t1 t2 bs :: r) := rfl
@[simp] theorem flat_manyAddr_nil (r : List Seg) : flat (.manyAddr [] :: r) = flat r := rfl
@[simp] theorem flat_manyAddr_cons (b bs) (r : List Seg) :
    flat (.manyAddr (b :: bs) :: r) = mkNode b.1.tag b.2 :: flat (.manyAddr bs :: r) := rfl

theorem flat_append (a b : List Seg) : flat (a ++ b) = flat a ++ flat b := by
  induction a with
  | nil => rfl
  | cons s r ih => simp [flat, ih, List.append_assoc]


/-! ### monad plumbing -/

theorem P.bind_def {α β : Type} (p : P F α) (f : α → P F β) (cur : Cur) (st : St F) :
    (p >>= f) cur st = (p cur st).bind fun r => f r.1 r.2.1 r.2.2 := rfl

theorem P.bind_def' {α β : Type} (p : P F α) (f : α → P F β) (cur : Cur) (st : St F) :
    P.bind p f cur st = (p cur st).bind fun r => f r.1 r.2.1 r.2.2 := rfl

theorem P.pure_def {α : Type} (a : α) (cur : Cur) (st : St F) :
    (pure a : P F α) cur st = .ok (a, cur, st) := rfl

theorem pure_apply {α : Type} (a : α) (cur : Cur) (st : St F) :
    (Pure.pure a : P F α) cur st = .ok (a, cur, st) := rfl

theorem P.ofR_ok {α : Type} (a : α) (cur : Cur) (st : St F) :
    (P.ofR (.ok a) : P F α) cur st = .ok (a, cur, st) := rfl

/-! ### the cursor on rendered children -/

theorem skipJunk_flat (segs : List Seg) : skipJunk (flat segs) = flat segs := by
  induction segs with
  | nil => rfl
  | cons s r ih =>
    cases s with
    | opt t b => cases b <;> simp [mkNode, skipJunk, ih]
    | many t bs => cases bs <;> simp [mkNode, skipJunk, ih]
    | one t b => simp [mkNode, skipJunk]
    | opt2 t1 t2 b => cases b <;> simp [mkNode, skipJunk, ih]
    | many2 t1 t2 bs => cases bs <;> simp [mkNode, skipJunk, ih]
    | one2 t1 t2 b => simp [mkNode, skipJunk]
    | manyAddr bs => cases bs <;> simp [mkNode, skipJunk, ih]

theorem sel2_ne {t1 t2 tag : Str} (h1 : t1 ≠ tag) (h2 : t2 ≠ tag) (b : Bool) : sel2 t1 t2 b ≠ tag := by
  cases b <;> simp [sel2, h1, h2]

/-- `flat segs` is empty or starts with an element whose tag is not `tag` -/
theorem flat_head (segs : List Seg) (tag : Str) (h : canStart tag segs = false) :
    flat segs = [] ∨ ∃ t a c r, flat segs = .node t a c :: r ∧ t ≠ tag := by
  induction segs with
  | nil => left; rfl
  | cons s r ih =>
    cases s with
    | opt t b =>
      simp [canStart] at h
      cases b with
      | none => simpa using ih h.2
      | some b => right; exact ⟨t, b.1, b.2, flat r, by simp [mkNode], h.1⟩
    | many t bs =>
      simp [canStart] at h
      cases bs with
      | nil => simpa using ih h.2
      | cons b bs => right; exact ⟨t, b.1, b.2, flat (.many t bs :: r), by simp [mkNode], h.1⟩
    | one t b =>
      simp [canStart] at h
      right; exact ⟨t, b.1, b.2, flat r, by simp [mkNode], h⟩
    | opt2 t1 t2 b =>
      simp [canStart] at h
      cases b with
      | none => simpa using ih h.2
      | some b => right; exact ⟨sel2 t1 t2 b.1, b.2.1, b.2.2, flat r, by simp [mkNode], sel2_ne h.1.1 h.1.2 _⟩
    | many2 t1 t2 bs =>
      simp [canStart] at h
      cases bs with
      | nil => simpa using ih h.2
      | cons b bs => right; exact ⟨sel2 t1 t2 b.1, b.2.1, b.2.2, flat (.many2 t1 t2 bs :: r), by simp [mkNode], sel2_ne h.1.1 h.1.2 _⟩
    | one2 t1 t2 b =>
      simp [canStart] at h
      right; exact ⟨sel2 t1 t2 b.1, b.2.1, b.2.2, flat r, by simp [mkNode], sel2_ne h.1 h.2 _⟩
    | manyAddr bs =>
      simp only [canStart, Bool.or_eq_false_iff, beq_eq_false_iff_ne] at h
      cases bs with
      | nil => simpa using ih h.2
      | cons b bs =>
        right
        refine ⟨b.1.tag, b.2.1, b.2.2, flat (.manyAddr bs :: r), by simp [mkNode], ?_⟩
        obtain ⟨⟨⟨⟨h1, h2⟩, h3⟩, h4⟩, _⟩ := h
        cases hb : b.1 <;> simp [AddrTag.tag] <;> assumption

theorem parseIf_skip {α : Type} (tag : Str) (p : P F α) (segs : List Seg) (st : St F)
    (h : canStart tag segs = false) :
    parseIf tag p (flat segs) st = .ok (none, flat segs, st) := by
  rcases flat_head segs tag h with h0 | ⟨t, a, c, r, h1, h2⟩
  · simp [h0, parseIf, skipJunk]
  · simp [h1, parseIf, skipJunk, h2]

theorem parseIf_hit {α : Type} (tag : Str) (p : P F α) (b : Body) (rest : Cur) (st : St F) :
    parseIf tag p (mkNode tag b :: rest) st =
      (p (mkNode tag b :: rest) st).bind fun x => .ok (some x.1, x.2.1, x.2.2) := by
  simp [parseIf, mkNode, skipJunk]

theorem parseIf_miss {α : Type} (tag t : Str) (p : P F α) (b : Body) (rest : Cur) (st : St F)
    (h : t ≠ tag) :
    parseIf tag p (mkNode t b :: rest) st = .ok (none, mkNode t b :: rest, st) := by
  simp [parseIf, mkNode, skipJunk, h]

theorem nextIf_skip (tag : Str) (segs : List Seg) (st : St F) (h : canStart tag segs = false) :
    nextIf tag (flat segs) st = .ok (none, flat segs, st) := by
  rcases flat_head segs tag h with h0 | ⟨t, a, c, r, h1, h2⟩
  · simp [h0, nextIf, skipJunk]
  · simp [h1, nextIf, skipJunk, h2]

theorem nextIf_hit (tag : Str) (b : Body) (rest : Cur) (st : St F) :
    nextIf tag (mkNode tag b :: rest) st = .ok (some (tag, b.1, b.2), rest, st) := by
  simp [nextIf, mkNode, skipJunk]

theorem nextElem_node (tag : Str) (b : Body) (rest : Cur) (st : St F) :
    nextElem (mkNode tag b :: rest) st = .ok ((tag, b.1, b.2), rest, st) := by
  simp [nextElem, mkNode, skipJunk]

theorem peekElem_node (tag : Str) (b : Body) (rest : Cur) (st : St F) :
    peekElem (mkNode tag b :: rest) st = .ok ((tag, b.1, b.2), mkNode tag b :: rest, st) := by
  simp [peekElem, mkNode, skipJunk]

/-- `next()` at the end of the rendered children -/
theorem next_nil (st : St F) : (next : P F _) [] st = .ok (none, [], st) := rfl

theorem next_node (tag : Str) (b : Body) (rest : Cur) (st : St F) :
    next (mkNode tag b :: rest) st = .ok (some (tag, b.1, b.2), rest, st) := by
  simp [next, mkNode, skipJunk]

/-! ### text view and leaves -/

@[simp] theorem textView_tb (s : Str) : textView (tb s).2 = .ok s := by
  simp [textView, tb, TextFrag.view]

@[simp] theorem textView_ntb (n s : Str) : textView (ntb n s).2 = .ok s := by
  simp [textView, ntb, TextFrag.view]

theorem nextText_body (tag : Str) (b : Body) (s : Str) (hb : textView b.2 = .ok s) (rest : Cur)
    (st : St F) : nextText (mkNode tag b :: rest) st = .ok (s, rest, st) := by
  simp [nextText, P.bind_def, nextElem_node, hb, P.ofR]

theorem peekText_body (tag : Str) (b : Body) (s : Str) (hb : textView b.2 = .ok s) (rest : Cur)
    (st : St F) : peekText (mkNode tag b :: rest) st = .ok (s, mkNode tag b :: rest, st) := by
  simp [peekText, P.bind_def, peekElem_node, hb, P.ofR]

theorem nextText_node (tag s : Str) (rest : Cur) (st : St F) :
    nextText (mkNode tag (tb s) :: rest) st = .ok (s, rest, st) :=
  nextText_body tag (tb s) s (textView_tb s) rest st

theorem pString_node (tag s : Str) (rest : Cur) (st : St F) :
    pString (mkNode tag (tb s) :: rest) st = .ok (s, rest, st) := nextText_node tag s rest st

theorem pNodeId_body (tag : Str) (b : Body) (s : Str) (hb : textView b.2 = .ok s) (rest : Cur)
    (st : St F) :
    pNodeId (mkNode tag b :: rest) st = .ok ((internS s st).1, rest, (internS s st).2) := by
  simp [pNodeId, P.bind_def, nextText_body tag b s hb, intern, internS]

theorem pNodeId_node (tag s : Str) (rest : Cur) (st : St F) :
    pNodeId (mkNode tag (tb s) :: rest) st = .ok ((internS s st).1, rest, (internS s st).2) :=
  pNodeId_body tag (tb s) s (textView_tb s) rest st

theorem pI64_body (tag : Str) (b : Body) (l : IntLit) (hb : textView b.2 = .ok l.text) (rest : Cur)
    (st : St F) : pI64 (mkNode tag b :: rest) st = .ok (l.val, rest, st) := by
  simp [pI64, P.bind_def, nextText_body tag b _ hb, l.ok, P.ofR]

theorem pI64_node (tag : Str) (l : IntLit) (rest : Cur) (st : St F) :
    pI64 (mkNode tag (tb l.text) :: rest) st = .ok (l.val, rest, st) :=
  pI64_body tag _ l (textView_tb _) rest st

theorem pU64_node (tag : Str) (l : UintLit) (rest : Cur) (st : St F) :
    pU64 (mkNode tag (tb l.text) :: rest) st = .ok (l.val, rest, st) := by
  simp [pU64, P.bind_def, nextText_node, l.ok, P.ofR]

theorem pBool_node (tag : Str) (l : BoolLit) (rest : Cur) (st : St F) :
    pBool (mkNode tag (tb l.text) :: rest) st = .ok (l.val, rest, st) := by
  simp [pBool, P.bind_def, nextText_node, convertToBool, l.ok, ofOpt, P.ofR]

theorem pF64_body [FloatLit F] (tag : Str) (b : Body) (l : FltLit F) (hb : textView b.2 = .ok l.text)
    (rest : Cur) (st : St F) : pF64 (mkNode tag b :: rest) st = .ok (l.val, rest, st) := by
  simp [pF64, P.bind_def, nextText_body tag b _ hb, l.ok, P.ofR]

theorem pTable_node {α : Type} (table : List (Str × α)) (text : α → Str)
    (htab : ∀ x, lookupTable table (text x) = .ok x) (tag : Str) (x : α) (rest : Cur) (st : St F) :
    pTable table (mkNode tag (tb (text x)) :: rest) st = .ok (x, rest, st) := by
  simp [pTable, P.bind_def, nextText_node, htab, P.ofR]

/-! ### literal tables: the schema's spelling is read back -/

theorem lookup_nameSpace (x : NameSpace) : lookupTable nameSpaceTable x.text = .ok x := by
  cases x <;> rfl
theorem lookup_mergePriority (x : MergePriority) : lookupTable mergePriorityTable x.text = .ok x := by
  cases x <;> rfl
theorem lookup_visibility (x : Visibility) : lookupTable visibilityTable x.text = .ok x := by
  cases x <;> rfl
theorem lookup_accessMode (x : AccessMode) : lookupTable accessModeTable x.text = .ok x := by
  cases x <;> rfl
theorem lookup_intRepr (x : IntRepr) : lookupTable intReprTable x.text = .ok x := by
  cases x <;> rfl
theorem lookup_floatRepr (x : FloatRepr) : lookupTable floatReprTable x.text = .ok x := by
  cases x <;> rfl
theorem lookup_slope (x : Slope) : lookupTable slopeTable x.text = .ok x := by
  cases x <;> rfl
theorem lookup_displayNotation (x : DisplayNotation) :
    lookupTable displayNotationTable x.text = .ok x := by cases x <;> rfl
theorem lookup_stdNameSpace (x : StdNameSpace) : lookupTable stdNameSpaceTable x.text = .ok x := by
  cases x <;> rfl
theorem lookup_cachingMode (x : CachingMode) : lookupTable cachingModeTable x.text = .ok x := by
  cases x <;> rfl
theorem lookup_endianness (x : Endianness) : lookupTable endiannessTable x.text = .ok x := by
  cases x <;> rfl
theorem lookup_sign (x : Sign) : lookupTable signTable x.text = .ok x := by
  cases x <;> rfl

/-! ### optional / repeated particles -/

/-- optional element whose parser threads the builder state -/
theorem parseIf_opt {α β : Type} (tag : Str) (p : P F β) (r : α → Body) (f : α → St F → β × St F)
    (hp : ∀ a rest st, p (mkNode tag (r a) :: rest) st = .ok ((f a st).1, rest, (f a st).2))
    (v : Option α) (segs : List Seg) (st : St F) (h : canStart tag segs = false) :
    parseIf tag p (flat (.opt tag (v.map r) :: segs)) st =
      .ok ((optS f v st).1, flat segs, (optS f v st).2) := by
  cases v with
  | none => simpa [optS] using parseIf_skip tag p segs st h
  | some a => simp [parseIf_hit, hp, optS]

/-- optional element whose parser leaves the builder state alone -/
theorem parseIf_optPure {α β : Type} (tag : Str) (p : P F β) (r : α → Body) (g : α → β)
    (hp : ∀ a rest st, p (mkNode tag (r a) :: rest) st = .ok (g a, rest, st))
    (v : Option α) (segs : List Seg) (st : St F) (h : canStart tag segs = false) :
    parseIf tag p (flat (.opt tag (v.map r) :: segs)) st = .ok (v.map g, flat segs, st) := by
  cases v with
  | none => simpa using parseIf_skip tag p segs st h
  | some a => simp [parseIf_hit, hp]

theorem parseWhile_many {α β : Type} (tag : Str) (p : P F β) (r : α → Body)
    (f : α → St F → β × St F)
    (hp : ∀ a rest st, p (mkNode tag (r a) :: rest) st = .ok ((f a st).1, rest, (f a st).2))
    (vs : List α) (segs : List Seg) (st : St F) (h : canStart tag segs = false) :
    parseWhile tag p (flat (.many tag (vs.map r) :: segs)) st =
      .ok ((listS f vs st).1, flat segs, (listS f vs st).2) := by
  unfold parseWhile
  generalize hn : (flat (Seg.many tag (List.map r vs) :: segs)).length + 1 = n
  have hle : (flat (Seg.many tag (List.map r vs) :: segs)).length + 1 ≤ n := by omega
  clear hn
  induction vs generalizing st n with
  | nil =>
    cases n with
    | zero => omega
    | succ n => simp [whileSome, parseIf_skip tag p segs st h, listS]
  | cons a as ih =>
    cases n with
    | zero => omega
    | succ n =>
      have hle' : (flat (Seg.many tag (List.map r as) :: segs)).length + 1 ≤ n := by
        simp at hle ⊢; omega
      simp [whileSome, parseIf_hit, hp, ih _ _ hle', listS]

/-! concrete instances used by the node kinds -/

theorem parseIf_optString (tag : Str) (v : Option Str) (segs : List Seg) (st : St F)
    (h : canStart tag segs = false) :
    parseIf tag pString (flat (.opt tag (v.map tb) :: segs)) st = .ok (v, flat segs, st) := by
  have := parseIf_optPure tag pString tb id (fun a rest st => pString_node tag a rest st) v segs st h
  simpa using this

theorem parseIf_optNodeId (tag : Str) (v : Option Str) (segs : List Seg) (st : St F)
    (h : canStart tag segs = false) :
    parseIf tag pNodeId (flat (.opt tag (v.map tb) :: segs)) st =
      .ok ((optS internS v st).1, flat segs, (optS internS v st).2) :=
  parseIf_opt tag pNodeId tb internS (fun a rest st => pNodeId_node tag a rest st) v segs st h

theorem parseIf_optBool (tag : Str) (v : Option BoolLit) (segs : List Seg) (st : St F)
    (h : canStart tag segs = false) :
    parseIf tag pBool (flat (.opt tag (v.map fun b => tb b.text) :: segs)) st =
      .ok (v.map BoolLit.val, flat segs, st) :=
  parseIf_optPure tag pBool (fun b => tb b.text) BoolLit.val
    (fun a rest st => pBool_node tag a rest st) v segs st h

theorem parseIf_optI64 (tag : Str) (v : Option IntLit) (segs : List Seg) (st : St F)
    (h : canStart tag segs = false) :
    parseIf tag pI64 (flat (.opt tag (v.map fun b => tb b.text) :: segs)) st =
      .ok (v.map IntLit.val, flat segs, st) :=
  parseIf_optPure tag pI64 (fun b => tb b.text) IntLit.val
    (fun a rest st => pI64_node tag a rest st) v segs st h

theorem parseIf_optU64 (tag : Str) (v : Option UintLit) (segs : List Seg) (st : St F)
    (h : canStart tag segs = false) :
    parseIf tag pU64 (flat (.opt tag (v.map fun b => tb b.text) :: segs)) st =
      .ok (v.map UintLit.val, flat segs, st) :=
  parseIf_optPure tag pU64 (fun b => tb b.text) UintLit.val
    (fun a rest st => pU64_node tag a rest st) v segs st h

theorem parseIf_optTable {α : Type} (table : List (Str × α)) (text : α → Str)
    (htab : ∀ x, lookupTable table (text x) = .ok x) (tag : Str) (v : Option α)
    (segs : List Seg) (st : St F) (h : canStart tag segs = false) :
    parseIf tag (pTable table) (flat (.opt tag (v.map fun x => tb (text x)) :: segs)) st =
      .ok (v, flat segs, st) := by
  have := parseIf_optPure tag (pTable table) (fun x => tb (text x)) id
    (fun a rest st => pTable_node table text htab tag a rest st) v segs st h
  simpa using this

theorem parseWhile_manyNodeId (tag : Str) (vs : List Str) (segs : List Seg) (st : St F)
    (h : canStart tag segs = false) :
    parseWhile tag pNodeId (flat (.many tag (vs.map tb) :: segs)) st =
      .ok ((listS internS vs st).1, flat segs, (listS internS vs st).2) :=
  parseWhile_many tag pNodeId tb internS (fun a rest st => pNodeId_node tag a rest st) vs segs st h

/-- `EventID` / `ChunkID`: `next_if` + bare hexadecimal -/
theorem pOptHexElem_opt (tag : Str) (v : Option HexLit) (segs : List Seg) (st : St F)
    (h : canStart tag segs = false) :
    pOptHexElem tag (flat (.opt tag (v.map fun x => tb x.text) :: segs)) st =
      .ok (v.map HexLit.val, flat segs, st) := by
  cases v with
  | none =>
    have := nextIf_skip tag segs st h
    simp [pOptHexElem, P.bind_def, this]; rfl
  | some a =>
    simp [pOptHexElem, P.bind_def, nextIf_hit, a.ok, ofOpt, P.ofR]; rfl


/-! the same with nothing after the particle (simp cannot discharge the side condition
for a literal `[]`, so these are separate unconditional lemmas) -/

theorem parseIf_optString_last (tag : Str) (v : Option Str) (st : St F) :
    parseIf tag pString (flat [.opt tag (v.map tb)]) st = .ok (v, [], st) := by
  simpa using parseIf_optString tag v [] st rfl
theorem parseIf_optNodeId_last (tag : Str) (v : Option Str) (st : St F) :
    parseIf tag pNodeId (flat [.opt tag (v.map tb)]) st =
      .ok ((optS internS v st).1, [], (optS internS v st).2) := by
  simpa using parseIf_optNodeId tag v [] st rfl
theorem parseIf_optBool_last (tag : Str) (v : Option BoolLit) (st : St F) :
    parseIf tag pBool (flat [.opt tag (v.map fun b => tb b.text)]) st =
      .ok (v.map BoolLit.val, [], st) := by
  simpa using parseIf_optBool tag v [] st rfl
theorem parseIf_optI64_last (tag : Str) (v : Option IntLit) (st : St F) :
    parseIf tag pI64 (flat [.opt tag (v.map fun b => tb b.text)]) st =
      .ok (v.map IntLit.val, [], st) := by
  simpa using parseIf_optI64 tag v [] st rfl
theorem parseIf_optU64_last (tag : Str) (v : Option UintLit) (st : St F) :
    parseIf tag pU64 (flat [.opt tag (v.map fun b => tb b.text)]) st =
      .ok (v.map UintLit.val, [], st) := by
  simpa using parseIf_optU64 tag v [] st rfl
theorem parseIf_optTable_last {α : Type} (table : List (Str × α)) (text : α → Str)
    (htab : ∀ x, lookupTable table (text x) = .ok x) (tag : Str) (v : Option α) (st : St F) :
    parseIf tag (pTable table) (flat [.opt tag (v.map fun x => tb (text x))]) st =
      .ok (v, [], st) := by
  simpa using parseIf_optTable table text htab tag v [] st rfl
theorem parseWhile_manyNodeId_last (tag : Str) (vs : List Str) (st : St F) :
    parseWhile tag pNodeId (flat [.many tag (vs.map tb)]) st =
      .ok ((listS internS vs st).1, [], (listS internS vs st).2) := by
  simpa using parseWhile_manyNodeId tag vs [] st rfl

end CamVerif.XmlParse
