/-
C18 helper lemmas: the error side of the access queries — every error of `is_readable` /
`is_writable` is InvalidNode, the model-only outOfFuel, or the error with which the evaluation
of some node as controlling node / pIndex selector fails at the same state.
-/
import CamVerif.Proofs.C18Access
namespace CamVerif.C18
open CamVerif CamVerif.GenApi

variable {F E : Type} {cx : Ctx F E} {D : Nat}

/-- An error `e` of an access query at state `s` is *explained* when it is `InvalidNode` (a
referenced node of the wrong kind), the model-only `outOfFuel`, or the very error with which
— at that state — the evaluation of some node as controlling node (`bool_from_id`, i.e.
`pIsImplemented` / `pIsAvailable` / `pIsLocked`) or as `pIndex` selector fails. -/
def Explained (cx : Ctx F E) (D : Nat) (s : S F) (e : Err) : Prop :=
  e = .invalidNode ∨ e = .outOfFuel ∨
  ∃ c d, d ≤ D ∧
    (R.val (boolFromId cx (execRec cx d) c) s = .err e ∨ R.val (pIndexIndex cx (execRec cx d) c) s = .err e)

theorem Explained.mono {D D' : Nat} (h : D ≤ D') {s : S F} {e : Err} : Explained cx D s e → Explained cx D' s e
  | .inl h1 => .inl h1
  | .inr (.inl h1) => .inr (.inl h1)
  | .inr (.inr ⟨c, d, hd, hc⟩) => .inr (.inr ⟨c, d, Nat.le_trans hd h, hc⟩)

/-- every error of `m` is explained -/
def ErrOK (cx : Ctx F E) (D : Nat) {α : Type} (m : R F α) : Prop := ∀ s e, R.val m s = .err e → Explained cx D s e

theorem ErrOK.mono {α : Type} {m : R F α} {D D' : Nat} (h : D ≤ D') (hm : ErrOK cx D m) : ErrOK cx D' m :=
  fun s e he => (hm s e he).mono h

theorem ErrOK.pure {α : Type} (a : α) : ErrOK cx D (Pure.pure a : R F α) := by
  intro s e h; simp at h

theorem ErrOK.errInvalid {α : Type} : ErrOK cx D (R.err .invalidNode : R F α) := by
  intro s e h; simp at h; exact .inl h.symm

theorem ErrOK.errFuel {α : Type} : ErrOK cx D (R.err .outOfFuel : R F α) := by
  intro s e h; simp at h; exact .inr (.inl h.symm)

theorem ErrOK.bind {α β : Type} {m : R F α} {f : α → R F β} (hm : ErrOK cx D m) (hf : ∀ a, ErrOK cx D (f a)) :
    ErrOK cx D (m >>= f) := by
  intro s e h
  simp only [R.val_bind] at h
  cases hv : R.val m s with
  | ok a => rw [hv] at h; exact hf a s e h
  | err x => rw [hv] at h; simp [Res.bind] at h; exact hm s e (by rw [hv, h])
  | panic => rw [hv] at h; simp [Res.bind] at h

theorem ErrOK.ite {α : Type} (c : Prop) [Decidable c] {a b : R F α} (ha : ErrOK cx D a) (hb : ErrOK cx D b) :
    ErrOK cx D (if c then a else b) := by
  by_cases h : c <;> simp [h, ha, hb]

theorem ErrOK.boolFromId (d : Nat) (c : NodeId) : ErrOK cx d (boolFromId cx (execRec cx d) c) :=
  fun _ _ h => .inr (.inr ⟨c, d, Nat.le_refl d, .inl h⟩)

theorem ErrOK.pIndexIndex (d : Nat) (c : NodeId) : ErrOK cx d (pIndexIndex cx (execRec cx d) c) :=
  fun _ _ h => .inr (.inr ⟨c, d, Nat.le_refl d, .inr h⟩)

/-- induction hypothesis: the access interfaces one level down -/
structure ErrIH (cx : Ctx F E) (d : Nat) : Prop where
  intR : ∀ n, ErrOK cx d ((execRec cx d).intIsReadable n)
  intW : ∀ n, ErrOK cx d ((execRec cx d).intIsWritable n)
  floatR : ∀ n, ErrOK cx d ((execRec cx d).floatIsReadable n)
  floatW : ∀ n, ErrOK cx d ((execRec cx d).floatIsWritable n)
  strR : ∀ n, ErrOK cx d ((execRec cx d).strIsReadable n)
  strW : ∀ n, ErrOK cx d ((execRec cx d).strIsWritable n)
  boolR : ∀ n, ErrOK cx d ((execRec cx d).boolIsReadable n)
  boolW : ∀ n, ErrOK cx d ((execRec cx d).boolIsWritable n)
  enumR : ∀ n, ErrOK cx d ((execRec cx d).enumIsReadable n)
  enumW : ∀ n, ErrOK cx d ((execRec cx d).enumIsWritable n)

theorem ErrOK.guard {A : R F Bool} {B : R F Bool} (hA : ErrOK cx D A) (hB : ErrOK cx D B) :
    ErrOK cx D (do let x ← A; if !x then Pure.pure false else B) :=
  ErrOK.bind hA fun x => by cases x <;> simp [hB, ErrOK.pure]

theorem ErrOK.guardNot {A : R F Bool} {B : R F Bool} (hA : ErrOK cx D A) (hB : ErrOK cx D B) :
    ErrOK cx D (do let x ← A; if x then Pure.pure false else B) :=
  ErrOK.bind hA fun x => by cases x <;> simp [hB, ErrOK.pure]

section
variable {d : Nat} (ih : ErrIH cx d)
include ih

theorem baseIsImplemented_ok (b : Base) : ErrOK cx d (baseIsImplemented cx (execRec cx d) b) := by
  unfold baseIsImplemented
  cases b.pIsImplemented with
  | none => exact ErrOK.pure _
  | some n => exact ErrOK.boolFromId d n
theorem baseIsAvailable_ok (b : Base) : ErrOK cx d (baseIsAvailable cx (execRec cx d) b) := by
  unfold baseIsAvailable
  cases b.pIsAvailable with
  | none => exact ErrOK.pure _
  | some n => exact ErrOK.boolFromId d n
theorem baseIsLocked_ok (b : Base) : ErrOK cx d (baseIsLocked cx (execRec cx d) b) := by
  unfold baseIsLocked
  cases b.pIsLocked with
  | none => exact ErrOK.pure _
  | some n => exact ErrOK.boolFromId d n
theorem baseIsReadable_ok (b : Base) : ErrOK cx d (baseIsReadable cx (execRec cx d) b) :=
  ErrOK.guard (baseIsImplemented_ok ih b) (ErrOK.guard (baseIsAvailable_ok ih b) (ErrOK.pure _))
theorem baseIsWritable_ok (b : Base) : ErrOK cx d (baseIsWritable cx (execRec cx d) b) :=
  ErrOK.guard (baseIsImplemented_ok ih b)
    (ErrOK.guard (baseIsAvailable_ok ih b) (ErrOK.guardNot (baseIsLocked_ok ih b) (ErrOK.pure _)))

theorem nidIsReadable_ok (n : NodeId) : ErrOK cx d (nidIsReadable cx (execRec cx d) n) := by
  unfold nidIsReadable
  exact ErrOK.ite _ (ih.intR n) (ErrOK.ite _ (ih.floatR n) (ErrOK.ite _ (ih.enumR n) (ErrOK.pure _)))
theorem nidIsWritable_ok (n : NodeId) : ErrOK cx d (nidIsWritable cx (execRec cx d) n) := by
  unfold nidIsWritable
  exact ErrOK.ite _ (ih.intW n) (ErrOK.ite _ (ih.floatW n) (ErrOK.ite _ (ih.enumW n) (ErrOK.pure _)))
theorem nidStrIsReadable_ok (n : NodeId) : ErrOK cx d (nidStrIsReadable cx (execRec cx d) n) := by
  unfold nidStrIsReadable; exact ErrOK.ite _ (ih.strR n) ErrOK.errInvalid
theorem nidStrIsWritable_ok (n : NodeId) : ErrOK cx d (nidStrIsWritable cx (execRec cx d) n) := by
  unfold nidStrIsWritable; exact ErrOK.ite _ (ih.strW n) ErrOK.errInvalid
theorem isNidReadable_ok (n : NodeId) : ErrOK cx d (isNidReadable cx (execRec cx d) n) := by
  unfold isNidReadable
  exact ErrOK.ite _ (ih.intR n) (ErrOK.ite _ (ih.floatR n) (ErrOK.ite _ (ih.boolR n) (ErrOK.ite _ (ih.enumR n) ErrOK.errInvalid)))
theorem isNidWritable_ok (n : NodeId) : ErrOK cx d (isNidWritable cx (execRec cx d) n) := by
  unfold isNidWritable
  exact ErrOK.ite _ (ih.intW n) (ErrOK.ite _ (ih.floatW n) (ErrOK.ite _ (ih.boolW n) (ErrOK.ite _ (ih.enumW n) ErrOK.errInvalid)))
theorem sonR_ok (v : ImmOrPNode SlotId) : ErrOK cx d (slotOrNodeIsReadable cx (execRec cx d) v) := by
  cases v with
  | imm _ => exact ErrOK.pure _
  | pnode n => exact nidIsReadable_ok ih n
theorem sonW_ok (v : ImmOrPNode SlotId) : ErrOK cx d (slotOrNodeIsWritable cx (execRec cx d) v) := by
  cases v with
  | imm _ => exact ErrOK.pure _
  | pnode n => exact nidIsWritable_ok ih n
theorem sonStrR_ok (v : ImmOrPNode SlotId) : ErrOK cx d (slotOrNodeStrIsReadable cx (execRec cx d) v) := by
  cases v with
  | imm _ => exact ErrOK.pure _
  | pnode n => exact nidStrIsReadable_ok ih n
theorem sonStrW_ok (v : ImmOrPNode SlotId) : ErrOK cx d (slotOrNodeStrIsWritable cx (execRec cx d) v) := by
  cases v with
  | imm _ => exact ErrOK.pure _
  | pnode n => exact nidStrIsWritable_ok ih n
theorem selR_ok (sel : NodeId) : ErrOK cx d (pIndexSelReadable cx (execRec cx d) sel) := by
  unfold pIndexSelReadable; exact ErrOK.ite _ (ih.intR sel) ErrOK.errInvalid
theorem pIndexR_ok (sel : NodeId) (entries : List (Int × ImmOrPNode SlotId)) (dflt : ImmOrPNode SlotId) :
    ErrOK cx d (pIndexIsReadable cx (execRec cx d) sel entries dflt) :=
  ErrOK.guard (selR_ok ih sel) (ErrOK.bind (ErrOK.pIndexIndex d sel) fun _ => sonR_ok ih _)
theorem pIndexW_ok (sel : NodeId) (entries : List (Int × ImmOrPNode SlotId)) (dflt : ImmOrPNode SlotId) :
    ErrOK cx d (pIndexIsWritable cx (execRec cx d) sel entries dflt) :=
  ErrOK.guard (selR_ok ih sel) (ErrOK.bind (ErrOK.pIndexIndex d sel) fun _ => sonW_ok ih _)
theorem copiesW_ok : ∀ (cs : List NodeId) (b : Bool), ErrOK cx d (copiesIsWritable cx (execRec cx d) cs b)
  | [], b => ErrOK.pure _
  | c :: cs, b => ErrOK.bind (nidIsWritable_ok ih c) fun _ => copiesW_ok cs _
theorem varsR_ok : ∀ (vs : List (String × NodeId)) (b : Bool), ErrOK cx d (varsReadable cx (execRec cx d) vs b)
  | [], b => ErrOK.pure _
  | (_, n) :: vs, b => ErrOK.bind (isNidReadable_ok ih n) fun _ => varsR_ok vs _
theorem vkR_ok (vk : ValueKind) : ErrOK cx d (vkIsReadable cx (execRec cx d) vk) := by
  cases vk with
  | value _ => exact ErrOK.pure _
  | pValue p _ => exact nidIsReadable_ok ih p
  | pIndex sel entries dflt => exact pIndexR_ok ih sel entries dflt
theorem vkW_ok (vk : ValueKind) : ErrOK cx d (vkIsWritable cx (execRec cx d) vk) := by
  cases vk with
  | value _ => exact ErrOK.pure _
  | pValue p copies => exact ErrOK.bind (nidIsWritable_ok ih p) fun _ => copiesW_ok ih copies _
  | pIndex sel entries dflt => exact pIndexW_ok ih sel entries dflt
theorem regR_ok (rb : RegBase) : ErrOK cx d (regIsReadable cx (execRec cx d) rb) :=
  ErrOK.guard (baseIsReadable_ok ih rb.base) (ErrOK.pure _)
theorem regW_ok (rb : RegBase) : ErrOK cx d (regIsWritable cx (execRec cx d) rb) :=
  ErrOK.guard (baseIsWritable_ok ih rb.base) (ErrOK.pure _)
theorem convR_ok (b : Base) (fm : Formulaic F E) (pv : NodeId) :
    ErrOK cx d (converterIsReadable cx (execRec cx d) b fm pv) :=
  ErrOK.guard (baseIsReadable_ok ih b) (ErrOK.guard (isNidReadable_ok ih pv) (varsR_ok ih _ _))
theorem convW_ok (b : Base) (fm : Formulaic F E) (pv : NodeId) :
    ErrOK cx d (converterIsWritable cx (execRec cx d) b fm pv) :=
  ErrOK.guard (baseIsWritable_ok ih b) (ErrOK.guard (isNidWritable_ok ih pv) (varsR_ok ih _ _))
theorem knifeR_ok (b : Base) (fm : Formulaic F E) : ErrOK cx d (swissKnifeIsReadable cx (execRec cx d) b fm) :=
  ErrOK.guard (baseIsReadable_ok ih b) (varsR_ok ih _ _)
theorem intIsReadableF_ok (n : NodeId) : ErrOK cx d (intIsReadableF cx (execRec cx d) n) := by
  unfold intIsReadableF
  cases hg : cx.graph n with
  | none => exact ErrOK.errInvalid
  | some nd =>
    cases nd <;> simp only <;> first
      | exact ErrOK.errInvalid
      | exact ErrOK.pure _
      | exact ErrOK.guard (baseIsReadable_ok ih _) (vkR_ok ih _)
      | exact ErrOK.guard (baseIsWritable_ok ih _) (vkW_ok ih _)
      | exact ErrOK.guard (baseIsReadable_ok ih _) (sonR_ok ih _)
      | exact ErrOK.guard (baseIsWritable_ok ih _) (sonW_ok ih _)
      | exact ErrOK.guard (baseIsReadable_ok ih _) (sonStrR_ok ih _)
      | exact ErrOK.guard (baseIsWritable_ok ih _) (sonStrW_ok ih _)
      | exact regR_ok ih _
      | exact regW_ok ih _
      | exact convR_ok ih _ _ _
      | exact convW_ok ih _ _ _
      | exact knifeR_ok ih _ _

theorem intIsWritableF_ok (n : NodeId) : ErrOK cx d (intIsWritableF cx (execRec cx d) n) := by
  unfold intIsWritableF
  cases hg : cx.graph n with
  | none => exact ErrOK.errInvalid
  | some nd =>
    cases nd <;> simp only <;> first
      | exact ErrOK.errInvalid
      | exact ErrOK.pure _
      | exact ErrOK.guard (baseIsReadable_ok ih _) (vkR_ok ih _)
      | exact ErrOK.guard (baseIsWritable_ok ih _) (vkW_ok ih _)
      | exact ErrOK.guard (baseIsReadable_ok ih _) (sonR_ok ih _)
      | exact ErrOK.guard (baseIsWritable_ok ih _) (sonW_ok ih _)
      | exact ErrOK.guard (baseIsReadable_ok ih _) (sonStrR_ok ih _)
      | exact ErrOK.guard (baseIsWritable_ok ih _) (sonStrW_ok ih _)
      | exact regR_ok ih _
      | exact regW_ok ih _
      | exact convR_ok ih _ _ _
      | exact convW_ok ih _ _ _
      | exact knifeR_ok ih _ _

theorem floatIsReadableF_ok (n : NodeId) : ErrOK cx d (floatIsReadableF cx (execRec cx d) n) := by
  unfold floatIsReadableF
  cases hg : cx.graph n with
  | none => exact ErrOK.errInvalid
  | some nd =>
    cases nd <;> simp only <;> first
      | exact ErrOK.errInvalid
      | exact ErrOK.pure _
      | exact ErrOK.guard (baseIsReadable_ok ih _) (vkR_ok ih _)
      | exact ErrOK.guard (baseIsWritable_ok ih _) (vkW_ok ih _)
      | exact ErrOK.guard (baseIsReadable_ok ih _) (sonR_ok ih _)
      | exact ErrOK.guard (baseIsWritable_ok ih _) (sonW_ok ih _)
      | exact ErrOK.guard (baseIsReadable_ok ih _) (sonStrR_ok ih _)
      | exact ErrOK.guard (baseIsWritable_ok ih _) (sonStrW_ok ih _)
      | exact regR_ok ih _
      | exact regW_ok ih _
      | exact convR_ok ih _ _ _
      | exact convW_ok ih _ _ _
      | exact knifeR_ok ih _ _

theorem floatIsWritableF_ok (n : NodeId) : ErrOK cx d (floatIsWritableF cx (execRec cx d) n) := by
  unfold floatIsWritableF
  cases hg : cx.graph n with
  | none => exact ErrOK.errInvalid
  | some nd =>
    cases nd <;> simp only <;> first
      | exact ErrOK.errInvalid
      | exact ErrOK.pure _
      | exact ErrOK.guard (baseIsReadable_ok ih _) (vkR_ok ih _)
      | exact ErrOK.guard (baseIsWritable_ok ih _) (vkW_ok ih _)
      | exact ErrOK.guard (baseIsReadable_ok ih _) (sonR_ok ih _)
      | exact ErrOK.guard (baseIsWritable_ok ih _) (sonW_ok ih _)
      | exact ErrOK.guard (baseIsReadable_ok ih _) (sonStrR_ok ih _)
      | exact ErrOK.guard (baseIsWritable_ok ih _) (sonStrW_ok ih _)
      | exact regR_ok ih _
      | exact regW_ok ih _
      | exact convR_ok ih _ _ _
      | exact convW_ok ih _ _ _
      | exact knifeR_ok ih _ _

theorem strIsReadableF_ok (n : NodeId) : ErrOK cx d (strIsReadableF cx (execRec cx d) n) := by
  unfold strIsReadableF
  cases hg : cx.graph n with
  | none => exact ErrOK.errInvalid
  | some nd =>
    cases nd <;> simp only <;> first
      | exact ErrOK.errInvalid
      | exact ErrOK.pure _
      | exact ErrOK.guard (baseIsReadable_ok ih _) (vkR_ok ih _)
      | exact ErrOK.guard (baseIsWritable_ok ih _) (vkW_ok ih _)
      | exact ErrOK.guard (baseIsReadable_ok ih _) (sonR_ok ih _)
      | exact ErrOK.guard (baseIsWritable_ok ih _) (sonW_ok ih _)
      | exact ErrOK.guard (baseIsReadable_ok ih _) (sonStrR_ok ih _)
      | exact ErrOK.guard (baseIsWritable_ok ih _) (sonStrW_ok ih _)
      | exact regR_ok ih _
      | exact regW_ok ih _
      | exact convR_ok ih _ _ _
      | exact convW_ok ih _ _ _
      | exact knifeR_ok ih _ _

theorem strIsWritableF_ok (n : NodeId) : ErrOK cx d (strIsWritableF cx (execRec cx d) n) := by
  unfold strIsWritableF
  cases hg : cx.graph n with
  | none => exact ErrOK.errInvalid
  | some nd =>
    cases nd <;> simp only <;> first
      | exact ErrOK.errInvalid
      | exact ErrOK.pure _
      | exact ErrOK.guard (baseIsReadable_ok ih _) (vkR_ok ih _)
      | exact ErrOK.guard (baseIsWritable_ok ih _) (vkW_ok ih _)
      | exact ErrOK.guard (baseIsReadable_ok ih _) (sonR_ok ih _)
      | exact ErrOK.guard (baseIsWritable_ok ih _) (sonW_ok ih _)
      | exact ErrOK.guard (baseIsReadable_ok ih _) (sonStrR_ok ih _)
      | exact ErrOK.guard (baseIsWritable_ok ih _) (sonStrW_ok ih _)
      | exact regR_ok ih _
      | exact regW_ok ih _
      | exact convR_ok ih _ _ _
      | exact convW_ok ih _ _ _
      | exact knifeR_ok ih _ _

theorem boolIsReadableF_ok (n : NodeId) : ErrOK cx d (boolIsReadableF cx (execRec cx d) n) := by
  unfold boolIsReadableF
  cases hg : cx.graph n with
  | none => exact ErrOK.errInvalid
  | some nd =>
    cases nd <;> simp only <;> first
      | exact ErrOK.errInvalid
      | exact ErrOK.pure _
      | exact ErrOK.guard (baseIsReadable_ok ih _) (vkR_ok ih _)
      | exact ErrOK.guard (baseIsWritable_ok ih _) (vkW_ok ih _)
      | exact ErrOK.guard (baseIsReadable_ok ih _) (sonR_ok ih _)
      | exact ErrOK.guard (baseIsWritable_ok ih _) (sonW_ok ih _)
      | exact ErrOK.guard (baseIsReadable_ok ih _) (sonStrR_ok ih _)
      | exact ErrOK.guard (baseIsWritable_ok ih _) (sonStrW_ok ih _)
      | exact regR_ok ih _
      | exact regW_ok ih _
      | exact convR_ok ih _ _ _
      | exact convW_ok ih _ _ _
      | exact knifeR_ok ih _ _

theorem boolIsWritableF_ok (n : NodeId) : ErrOK cx d (boolIsWritableF cx (execRec cx d) n) := by
  unfold boolIsWritableF
  cases hg : cx.graph n with
  | none => exact ErrOK.errInvalid
  | some nd =>
    cases nd <;> simp only <;> first
      | exact ErrOK.errInvalid
      | exact ErrOK.pure _
      | exact ErrOK.guard (baseIsReadable_ok ih _) (vkR_ok ih _)
      | exact ErrOK.guard (baseIsWritable_ok ih _) (vkW_ok ih _)
      | exact ErrOK.guard (baseIsReadable_ok ih _) (sonR_ok ih _)
      | exact ErrOK.guard (baseIsWritable_ok ih _) (sonW_ok ih _)
      | exact ErrOK.guard (baseIsReadable_ok ih _) (sonStrR_ok ih _)
      | exact ErrOK.guard (baseIsWritable_ok ih _) (sonStrW_ok ih _)
      | exact regR_ok ih _
      | exact regW_ok ih _
      | exact convR_ok ih _ _ _
      | exact convW_ok ih _ _ _
      | exact knifeR_ok ih _ _

theorem enumIsReadableF_ok (n : NodeId) : ErrOK cx d (enumIsReadableF cx (execRec cx d) n) := by
  unfold enumIsReadableF
  cases hg : cx.graph n with
  | none => exact ErrOK.errInvalid
  | some nd =>
    cases nd <;> simp only <;> first
      | exact ErrOK.errInvalid
      | exact ErrOK.pure _
      | exact ErrOK.guard (baseIsReadable_ok ih _) (vkR_ok ih _)
      | exact ErrOK.guard (baseIsWritable_ok ih _) (vkW_ok ih _)
      | exact ErrOK.guard (baseIsReadable_ok ih _) (sonR_ok ih _)
      | exact ErrOK.guard (baseIsWritable_ok ih _) (sonW_ok ih _)
      | exact ErrOK.guard (baseIsReadable_ok ih _) (sonStrR_ok ih _)
      | exact ErrOK.guard (baseIsWritable_ok ih _) (sonStrW_ok ih _)
      | exact regR_ok ih _
      | exact regW_ok ih _
      | exact convR_ok ih _ _ _
      | exact convW_ok ih _ _ _
      | exact knifeR_ok ih _ _

theorem enumIsWritableF_ok (n : NodeId) : ErrOK cx d (enumIsWritableF cx (execRec cx d) n) := by
  unfold enumIsWritableF
  cases hg : cx.graph n with
  | none => exact ErrOK.errInvalid
  | some nd =>
    cases nd <;> simp only <;> first
      | exact ErrOK.errInvalid
      | exact ErrOK.pure _
      | exact ErrOK.guard (baseIsReadable_ok ih _) (vkR_ok ih _)
      | exact ErrOK.guard (baseIsWritable_ok ih _) (vkW_ok ih _)
      | exact ErrOK.guard (baseIsReadable_ok ih _) (sonR_ok ih _)
      | exact ErrOK.guard (baseIsWritable_ok ih _) (sonW_ok ih _)
      | exact ErrOK.guard (baseIsReadable_ok ih _) (sonStrR_ok ih _)
      | exact ErrOK.guard (baseIsWritable_ok ih _) (sonStrW_ok ih _)
      | exact regR_ok ih _
      | exact regW_ok ih _
      | exact convR_ok ih _ _ _
      | exact convW_ok ih _ _ _
      | exact knifeR_ok ih _ _

theorem cmdIsWritableF_ok (n : NodeId) : ErrOK cx d (cmdIsWritableF cx (execRec cx d) n) := by
  unfold cmdIsWritableF
  cases hg : cx.graph n with
  | none => exact ErrOK.errInvalid
  | some nd =>
    cases nd <;> simp only <;> first
      | exact ErrOK.errInvalid
      | exact ErrOK.pure _
      | exact ErrOK.guard (baseIsReadable_ok ih _) (vkR_ok ih _)
      | exact ErrOK.guard (baseIsWritable_ok ih _) (vkW_ok ih _)
      | exact ErrOK.guard (baseIsReadable_ok ih _) (sonR_ok ih _)
      | exact ErrOK.guard (baseIsWritable_ok ih _) (sonW_ok ih _)
      | exact ErrOK.guard (baseIsReadable_ok ih _) (sonStrR_ok ih _)
      | exact ErrOK.guard (baseIsWritable_ok ih _) (sonStrW_ok ih _)
      | exact regR_ok ih _
      | exact regW_ok ih _
      | exact convR_ok ih _ _ _
      | exact convW_ok ih _ _ _
      | exact knifeR_ok ih _ _

end

theorem errIH (cx : Ctx F E) : ∀ d, ErrIH cx d
  | 0 => by
    constructor <;> intro n <;> exact ErrOK.errFuel
  | d + 1 => by
    have ih := errIH cx d
    have hle : d ≤ d + 1 := Nat.le_succ d
    constructor <;> intro n <;> simp only [execRec, step]
    · exact (intIsReadableF_ok ih n).mono hle
    · exact (intIsWritableF_ok ih n).mono hle
    · exact (floatIsReadableF_ok ih n).mono hle
    · exact (floatIsWritableF_ok ih n).mono hle
    · exact (strIsReadableF_ok ih n).mono hle
    · exact (strIsWritableF_ok ih n).mono hle
    · exact (boolIsReadableF_ok ih n).mono hle
    · exact (boolIsWritableF_ok ih n).mono hle
    · exact (enumIsReadableF_ok ih n).mono hle
    · exact (enumIsWritableF_ok ih n).mono hle

theorem isReadableF_ok (d : Nat) (n : NodeId) : ErrOK cx d (isReadableF cx (execRec cx d) n) := by
  have ih := errIH cx d
  unfold isReadableF
  exact ErrOK.ite _ (intIsReadableF_ok ih n) (ErrOK.ite _ (floatIsReadableF_ok ih n) (ErrOK.ite _ (strIsReadableF_ok ih n)
    (ErrOK.ite _ (boolIsReadableF_ok ih n) (ErrOK.ite _ (enumIsReadableF_ok ih n) ErrOK.errInvalid))))

theorem isWritableF_ok (d : Nat) (n : NodeId) : ErrOK cx d (isWritableF cx (execRec cx d) n) := by
  have ih := errIH cx d
  unfold isWritableF
  refine ErrOK.ite _ (intIsWritableF_ok ih n) (ErrOK.ite _ (floatIsWritableF_ok ih n) (ErrOK.ite _ (strIsWritableF_ok ih n)
    (ErrOK.ite _ (boolIsWritableF_ok ih n) (ErrOK.ite _ (enumIsWritableF_ok ih n) ?_))))
  cases hg : cx.graph n with
  | none => exact ErrOK.errInvalid
  | some nd => cases nd <;> simp only <;> first | exact ErrOK.errInvalid | exact cmdIsWritableF_ok ih n

end CamVerif.C18
