/-
C17 helper lemmas, part 4: the interner only grows, so an id handed out for a name resolves
to that name in every later builder state; views of the normal forms.
-/
import CamVerif.Spec.XmlRender
namespace CamVerif.XmlParse
variable {F : Type}

/-- the interner of `b` extends the interner of `a` -/
def St.le (a b : St F) : Prop := ∃ more, b.names = a.names ++ more

theorem St.le_refl (a : St F) : a.le a := ⟨[], by simp⟩

theorem St.le_trans {a b c : St F} (h1 : a.le b) (h2 : b.le c) : a.le c := by
  obtain ⟨m1, e1⟩ := h1
  obtain ⟨m2, e2⟩ := h2
  exact ⟨m1 ++ m2, by rw [e2, e1, List.append_assoc]⟩

theorem findName_get (s : Str) (l : List Str) (i : Nat) (h : findName s l = some i) :
    l[i]? = some s := by
  induction l generalizing i with
  | nil => simp [findName] at h
  | cons x xs ih =>
    simp only [findName] at h
    split at h
    · next hx => cases h; simp [hx]
    · cases hf : findName s xs with
      | none => simp [hf] at h
      | some j =>
        simp [hf] at h
        subst h
        simpa using ih j hf

theorem internName_spec (names : List Str) (n : Str) :
    (∃ more, (internName names n).2 = names ++ more) ∧
      (internName names n).2[(internName names n).1]? = some n := by
  unfold internName
  cases hf : findName n names with
  | none => exact ⟨⟨[n], rfl⟩, by simp⟩
  | some i => exact ⟨⟨[], by simp⟩, findName_get n names i hf⟩

theorem nameOf_of_le {a b : St F} (h : a.le b) {i : Nat} {n : Str} (hi : a.names[i]? = some n) :
    nameOf b i = n := by
  obtain ⟨more, e⟩ := h
  have hlt : i < a.names.length := by
    rcases Nat.lt_or_ge i a.names.length with h | h
    · exact h
    · simp [List.getElem?_eq_none h] at hi
  simp [nameOf, e, List.getD_eq_getElem?_getD, List.getElem?_append_left hlt, hi]

/-- `get_or_intern`: in every later state the id resolves to the name -/
theorem internS_spec (n : Str) (st st' : St F) (h : (internS n st).2.le st') :
    nameOf st' (internS n st).1 = n ∧ st.le st' := by
  obtain ⟨⟨more, hm⟩, hg⟩ := internName_spec st.names n
  constructor
  · exact nameOf_of_le h (by simpa [internS] using hg)
  · exact St.le_trans ⟨more, by simpa [internS] using hm⟩ h

theorem storeS_le (v : Value F) (st st' : St F) (h : (storeS v st).2.le st') : st.le st' := by
  simpa [storeS, St.le] using h

theorem le_storeS (v : Value F) (st : St F) : st.le (storeS v st).2 := ⟨[], by simp [storeS]⟩

theorem invalS_le (l : List Nat) (t : Nat) (st st' : St F) (h : (invalS l t st).le st') :
    st.le st' := by
  simpa [invalS, St.le] using h

theorem le_invalS (l : List Nat) (t : Nat) (st : St F) : st.le (invalS l t st) :=
  ⟨[], by simp [invalS]⟩

/-- a state function whose result, viewed in any later state, is `pure a` -/
def Resolves {α β γ : Type} (f : α → St F → β × St F) (view : St F → β → γ) (pure : α → γ) : Prop :=
  ∀ a st st', (f a st).2.le st' → view st' (f a st).1 = pure a ∧ st.le st'

theorem internS_resolves : Resolves (F := F) internS nameOf id := fun n st st' h =>
  internS_spec n st st' h

theorem optS_resolves {α β γ : Type} {f : α → St F → β × St F} {view : St F → β → γ}
    {pure : α → γ} (hf : Resolves f view pure) (v : Option α) (st st' : St F)
    (h : (optS f v st).2.le st') : (optS f v st).1.map (view st') = v.map pure ∧ st.le st' := by
  cases v with
  | none => exact ⟨rfl, h⟩
  | some a =>
    obtain ⟨h1, h2⟩ := hf a st st' h
    exact ⟨by simp [optS, h1], h2⟩

theorem listS_resolves {α β γ : Type} {f : α → St F → β × St F} {view : St F → β → γ}
    {pure : α → γ} (hf : Resolves f view pure) (vs : List α) (st st' : St F)
    (h : (listS f vs st).2.le st') : (listS f vs st).1.map (view st') = vs.map pure ∧ st.le st' := by
  induction vs generalizing st with
  | nil => exact ⟨rfl, h⟩
  | cons a as ih =>
    obtain ⟨h1, h2⟩ := ih (f a st).2 h
    obtain ⟨h3, h4⟩ := hf a st st' h2
    exact ⟨by simp [listS, h1, h3], h4⟩

theorem optS_intern (v : Option Str) (st st' : St F) (h : (optS internS v st).2.le st') :
    (optS internS v st).1.map (nameOf st') = v ∧ st.le st' := by
  have := optS_resolves internS_resolves v st st' h
  simpa using this

theorem listS_intern (vs : List Str) (st st' : St F) (h : (listS internS vs st).2.le st') :
    (listS internS vs st).1.map (nameOf st') = vs ∧ st.le st' := by
  have := listS_resolves internS_resolves vs st st' h
  simpa using this

/-! ### look-up by name, stored nodes -/

theorem findName_append_left (s : Str) (l more : List Str) (i : Nat) (h : findName s l = some i) :
    findName s (l ++ more) = some i := by
  induction l generalizing i with
  | nil => simp [findName] at h
  | cons x xs ih =>
    simp only [List.cons_append, findName] at h ⊢
    split
    · next hx => simpa [hx] using h
    · next hx =>
      simp only [hx, if_false] at h
      cases hf : findName s xs with
      | none => simp [hf] at h
      | some j => simp [hf] at h; subst h; simp [ih j hf]

theorem findName_self (names : List Str) (n : Str) :
    findName n (internName names n).2 = some (internName names n).1 := by
  unfold internName
  cases hf : findName n names with
  | some i => simpa using hf
  | none =>
    simp only
    induction names with
    | nil => simp [findName]
    | cons x xs ih =>
      simp only [findName] at hf
      split at hf
      · simp at hf
      · next hx =>
        cases hf' : findName n xs with
        | some j => simp [hf'] at hf
        | none => simp [findName, hx, ih hf']

/-- `id_by_name` finds the id `get_or_intern` handed out, in every later builder state -/
theorem idByName_of_le (n : Str) (st st' : St F) (h : (internS n st).2.le st') :
    findName n st'.names = some (internS n st).1 := by
  obtain ⟨more, e⟩ := h
  rw [e]
  exact findName_append_left n _ more _ (by simpa [internS] using findName_self st.names n)

/-- `node_opt` after `store_node` -/
theorem storeNodeS_found (pr : Profile) (id : Nat) (d : NodeData F) (st st' : St F)
    (h : storeNodeS pr id d st = .ok st') :
    st'.nodes.find? (fun x => x.1 == id) = some (id, d) := by
  unfold storeNodeS at h
  split at h
  · cases h
  · cases h
    simp only [List.find?_append]
    have : (st.nodes.filter fun x => x.1 != id).find? (fun x => x.1 == id) = none := by
      simp [List.find?_eq_none]
    simp [this]

/-- … and every other id keeps its node -/
theorem storeNodeS_other (pr : Profile) (id j : Nat) (d : NodeData F) (st st' : St F)
    (h : storeNodeS pr id d st = .ok st') (hj : j ≠ id) :
    st'.nodes.find? (fun x => x.1 == j) = st.nodes.find? (fun x => x.1 == j) := by
  unfold storeNodeS at h
  split at h
  · cases h
  · cases h
    simp only [List.find?_append]
    have h1 : (st.nodes.filter fun x => x.1 != id).find? (fun x => x.1 == j) =
        st.nodes.find? (fun x => x.1 == j) := by
      induction st.nodes with
      | nil => rfl
      | cons x xs ih =>
        by_cases hx : x.1 = id
        · have hne : ¬ x.1 = j := by intro hh; exact hj (hh ▸ hx)
          rw [List.filter_cons_of_neg (by simp [hx]), ih, List.find?_cons_of_neg (by simp [hne])]
        · rw [List.filter_cons_of_pos (by simp [hx])]
          by_cases hxj : x.1 = j
          · rw [List.find?_cons_of_pos (by simp [hxj]), List.find?_cons_of_pos (by simp [hxj])]
          · rw [List.find?_cons_of_neg (by simp [hxj]), List.find?_cons_of_neg (by simp [hxj]), ih]
    rw [h1]
    cases st.nodes.find? (fun x => x.1 == j) with
    | some v => rfl
    | none => simp [Ne.symm hj]

/-! ### views of the normal forms -/

theorem specAttr_view (m : AttrM) (st st' : St F) (h : (specAttr m st).2.le st') :
    (specAttr m st).1.view st' = pureAttr m ∧ st.le st' := by
  obtain ⟨h1, h2⟩ := internS_spec m.name st st' h
  exact ⟨by simp [specAttr, AttrBase.view, pureAttr, h1], h2⟩

theorem specElem_view (m : ElemM) (inv : List Str) (st st' : St F)
    (h : (specElem m inv st).2.le st') :
    (specElem m inv st).1.view st' = pureElem m inv ∧ st.le st' := by
  simp only [specElem] at h
  obtain ⟨f8, h⟩ := listS_intern _ _ _ h
  obtain ⟨f7, h⟩ := optS_intern _ _ _ h
  obtain ⟨f6, h⟩ := optS_intern _ _ _ h
  obtain ⟨f5, h⟩ := listS_intern _ _ _ h
  obtain ⟨f4, h⟩ := optS_intern _ _ _ h
  obtain ⟨f3, h⟩ := optS_intern _ _ _ h
  obtain ⟨f2, h⟩ := optS_intern _ _ _ h
  obtain ⟨f1, h⟩ := optS_intern _ _ _ h
  exact ⟨by simp [specElem, ElemBase.view, pureElem, f1, f2, f3, f4, f5, f6, f7, f8], h⟩

theorem irIntS_resolves : Resolves (F := F) irIntS ImmOrP.view pureIR := by
  intro x st st' h
  cases x with
  | imm l => exact ⟨rfl, h⟩
  | ref n =>
    obtain ⟨h1, h2⟩ := internS_spec n.name st st' h
    exact ⟨by simp [irIntS, ImmOrP.view, pureIR, h1], h2⟩

theorem addrS_resolves : Resolves (F := F) addrS AddressKind.view pureAddr := by
  intro x st st' h
  match x with
  | .address l => exact ⟨rfl, h⟩
  | .pAddress n =>
    obtain ⟨h1, h2⟩ := internS_spec n.name st st' h
    exact ⟨by simp [addrS, AddressKind.view, ImmOrP.view, pureAddr, h1], h2⟩
  | .pIndex none p =>
    obtain ⟨h1, h2⟩ := internS_spec p st st' h
    exact ⟨by simp [addrS, AddressKind.view, pureAddr, h1], h2⟩
  | .pIndex (some (.inl l)) p =>
    obtain ⟨h1, h2⟩ := internS_spec p st st' h
    exact ⟨by simp [addrS, AddressKind.view, ImmOrP.view, pureAddr, h1], h2⟩
  | .pIndex (some (.inr n)) p =>
    obtain ⟨h1, h2⟩ := internS_spec p _ st' h
    obtain ⟨h3, h4⟩ := internS_spec n st st' h2
    exact ⟨by simp [addrS, AddressKind.view, ImmOrP.view, pureAddr, h1, h3], h4⟩

theorem specReg_view (m : RegM) (st st' : St F) (h : (specReg m st).2.le st') :
    (specReg m st).1.view st' = pureReg m ∧ st.le st' := by
  simp only [specReg] at h
  obtain ⟨f5, h⟩ := listS_intern _ _ _ h
  obtain ⟨f4, h⟩ := internS_spec _ _ _ h
  obtain ⟨f3, h⟩ := irIntS_resolves _ _ _ h
  obtain ⟨f2, h⟩ := listS_resolves addrS_resolves _ _ _ h
  obtain ⟨f1, h⟩ := specElem_view _ _ _ _ h
  exact ⟨by simp [specReg, RegBase.view, pureReg, f1, f2, f3, f4, f5], h⟩

/-- `refs_resolve` for MaskedIntReg -/
theorem specMasked_view (m : MaskedM) (st st' : St F) (h : (specMasked m st).2.le st') :
    (specMasked m st).1.view st' = pureMasked m ∧ st.le st' := by
  simp only [specMasked] at h
  have h := invalS_le _ _ _ _ h
  obtain ⟨f3, h⟩ := listS_intern _ _ _ h
  obtain ⟨f2, h⟩ := specReg_view _ _ _ h
  obtain ⟨f1, h⟩ := specAttr_view _ _ _ h
  exact ⟨by simp [specMasked, MaskedIntRegNode.view, pureMasked, f1, f2, f3], h⟩


/-! ### StructReg: the merge commutes with the view; merged = twin -/

theorem mergeOpt_map {α β : Type} (f : α → β) (l r : Option α) :
    (mergeOpt l r).map f = mergeOpt (l.map f) (r.map f) := by
  cases r <;> simp [mergeOpt]

theorem mergeVec_map {α β : Type} (f : α → β) (l r : List α) :
    (mergeVec l r).map f = mergeVec (l.map f) (r.map f) := by
  cases r <;> simp [mergeVec]

theorem merge_view (l r : ElemBase) (d : Declared) (st : St F) :
    (l.merge r d).view st = mergeElemV (l.view st) (r.view st) d := by
  simp [ElemBase.merge, ElemBase.view, mergeElemV, mergeOpt_map, mergeVec_map]

theorem toMasked_view (e : StructEntryNode) (reg : RegBase) (en : Endianness) (st : St F) :
    (e.toMasked reg en).view st = toMaskedV (e.view st) (reg.view st) en := by
  simp [StructEntryNode.toMasked, MaskedIntRegNode.view, RegBase.view, toMaskedV,
    StructEntryNode.view, merge_view, mergeVec_map]

theorem mergeOpt_inherit {α : Type} (s e : Option α) : mergeOpt s e = inherit e s := by
  cases e <;> rfl

theorem mergeVec_inherit {α : Type} (s e : List α) : mergeVec s e = inheritList e s := by
  cases e <;> rfl

theorem mergeDeclared_getD {α : Type} (s e : Option α) (d : α) :
    mergeDeclared e.isSome (s.getD d) (e.getD d) = (inherit e s).getD d := by
  cases e <;> rfl

theorem mergeDeclared_getD_map {α β : Type} (f : α → β) (s e : Option α) (d : β) :
    mergeDeclared e.isSome ((s.map f).getD d) ((e.map f).getD d) = ((inherit e s).map f).getD d := by
  cases e <;> rfl

theorem inherit_map {α β : Type} (f : α → β) (s e : Option α) :
    inherit (e.map f) (s.map f) = (inherit e s).map f := by
  cases e <;> rfl

/-- merging what the entry declares with what the structure declares is the pure normal form
of the twin -/
theorem toMaskedV_pure (s : StructM) (e : EntryM) :
    toMaskedV (pureEntry e) (pureReg s.reg) (s.endianness.getD .le) = pureMasked (twin s e) := by
  simp [toMaskedV, pureEntry, pureReg, pureMasked, twin, mergeElemV, pureElem, mergeOpt_inherit,
    mergeVec_inherit, mergeDeclared_getD, mergeDeclared_getD_map, inherit_map]

theorem specEntry_resolves : Resolves (F := F) specEntry StructEntryNode.view pureEntry := by
  intro e st st' h
  simp only [specEntry] at h
  obtain ⟨f3, h⟩ := listS_intern _ _ _ h
  obtain ⟨f2, h⟩ := specElem_view _ _ _ _ h
  obtain ⟨f1, h⟩ := specAttr_view _ _ _ h
  have g1 := congrArg ElemV.pInvalidators f2
  have g2 : ({ (specElem e.elem e.pInvalidators (specAttr e.attr st).2).1 with
      pInvalidators := [] } : ElemBase).view st' = pureElem e.elem [] := by
    have := f2
    simp only [ElemBase.view, pureElem, ElemV.mk.injEq] at this ⊢
    simp [this]
  refine ⟨?_, h⟩
  simp only [ElemBase.view, pureElem] at g1
  simp [specEntry, StructEntryNode.view, pureEntry, f1, f3, g2, g1]

theorem maskedOfEntries_fst (reg : RegBase) (en : Endianness) (es : List StructEntryNode)
    (st : St F) : (maskedOfEntries reg en es st).1 = es.map fun e => e.toMasked reg en := by
  induction es generalizing st with
  | nil => rfl
  | cons e es ih => simp [maskedOfEntries, ih]

theorem maskedOfEntries_names (reg : RegBase) (en : Endianness) (es : List StructEntryNode)
    (st : St F) : (maskedOfEntries reg en es st).2.names = st.names := by
  induction es generalizing st with
  | nil => rfl
  | cons e es ih => simp [maskedOfEntries, ih, invalS]


/-! ### invalidator registrations -/

/-- `f` leaves the registered invalidators alone -/
def InvalsSame {α β : Type} (f : α → St F → β × St F) : Prop := ∀ a st, (f a st).2.invals = st.invals

theorem optS_invals {α β : Type} {f : α → St F → β × St F} (hf : InvalsSame f) :
    InvalsSame (optS f) := by
  intro v st
  cases v with
  | none => rfl
  | some a => exact hf a st

theorem listS_invals {α β : Type} {f : α → St F → β × St F} (hf : InvalsSame f) :
    InvalsSame (listS f) := by
  intro vs st
  induction vs generalizing st with
  | nil => rfl
  | cons a as ih => simp [listS, ih, hf a st]

theorem internS_invals : InvalsSame (F := F) internS := fun _ _ => rfl

theorem specAttr_invals : InvalsSame (F := F) specAttr := fun _ _ => rfl

theorem specElem_invals (inv : List Str) : InvalsSame (F := F) (fun m => specElem m inv) := by
  intro m st
  simp [specElem, optS_invals internS_invals _ _, listS_invals internS_invals _ _]

theorem irIntS_invals : InvalsSame (F := F) irIntS := by
  intro x st; cases x <;> rfl

theorem addrS_invals : InvalsSame (F := F) addrS := by
  intro x st
  match x with
  | .address _ => rfl
  | .pAddress _ => rfl
  | .pIndex none _ => rfl
  | .pIndex (some (.inl _)) _ => rfl
  | .pIndex (some (.inr _)) _ => rfl

theorem specReg_invals : InvalsSame (F := F) specReg := by
  intro m st
  simp [specReg, listS_invals internS_invals _ _, internS_invals _ _, irIntS_invals _ _,
    listS_invals addrS_invals _ _, specElem_invals [] _ _]

theorem specEntry_invals : InvalsSame (F := F) specEntry := by
  intro e st
  simp [specEntry, listS_invals internS_invals _ _, specElem_invals e.pInvalidators _ _,
    specAttr_invals _ _]

/-- the registrations of one merged / parsed node: `(invalidator, node)` per invalidator -/
def regsOf (n : MaskedIntRegNode) : List (Nat × Nat) := n.reg.pInvalidators.map fun i => (i, n.attr.id)

def regsOfV (v : MaskedV) : List (Str × Str) := v.reg.pInvalidators.map fun i => (i, v.attr.name)

/-- registrations read through an interner -/
def regsV (st : St F) (l : List (Nat × Nat)) : List (Str × Str) :=
  l.map fun p => (nameOf st p.1, nameOf st p.2)

theorem regsV_regsOf (st : St F) (ns : List MaskedIntRegNode) :
    regsV st (ns.flatMap regsOf) = (ns.map (MaskedIntRegNode.view st)).flatMap regsOfV := by
  induction ns with
  | nil => rfl
  | cons n ns ih =>
    simp only [List.flatMap_cons, List.map_cons, regsV, List.map_append] at ih ⊢
    rw [ih]
    simp [regsOf, regsOfV, MaskedIntRegNode.view, RegBase.view, AttrBase.view, List.map_map,
      Function.comp_def]

theorem specMasked_invals (m : MaskedM) (st : St F) :
    (specMasked m st).2.invals = st.invals ++ regsOf (specMasked m st).1 := by
  simp [specMasked, invalS, regsOf, listS_invals internS_invals _ _, specReg_invals _ _,
    specAttr_invals _ _]

theorem listS_specMasked_invals (ms : List MaskedM) (st : St F) :
    (listS specMasked ms st).2.invals = st.invals ++ (listS specMasked ms st).1.flatMap regsOf := by
  induction ms generalizing st with
  | nil => simp [listS]
  | cons m ms ih => simp [listS, ih, specMasked_invals, List.append_assoc]

theorem maskedOfEntries_invals (reg : RegBase) (en : Endianness) (es : List StructEntryNode)
    (st : St F) :
    (maskedOfEntries reg en es st).2.invals =
      st.invals ++ (maskedOfEntries reg en es st).1.flatMap regsOf := by
  induction es generalizing st with
  | nil => simp [maskedOfEntries]
  | cons e es ih => simp [maskedOfEntries, ih, invalS, regsOf, List.append_assoc]

theorem specStruct_invals (s : StructM) (st : St F) :
    (specStruct s st).2.invals = st.invals ++ (specStruct s st).1.flatMap regsOf := by
  simp [specStruct, maskedOfEntries_invals, listS_invals specEntry_invals _ _, specReg_invals _ _]

end CamVerif.XmlParse
