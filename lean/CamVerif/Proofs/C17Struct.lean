/-
C17 helper lemmas, part 3: StructReg (entries, merge), Group.
-/
import CamVerif.Proofs.C17Kinds
set_option linter.unusedSimpArgs false
namespace CamVerif.XmlParse
variable {F : Type}
variable [TextFrag]

theorem parseWhile_none {α : Type} (tag : Str) (p : P F α) (segs : List Seg) (st : St F)
    (h : canStart tag segs = false) :
    parseWhile tag p (flat segs) st = .ok ([], flat segs, st) := by
  simp [parseWhile, whileSome, parseIf_skip tag p segs st h]

set_option maxRecDepth 4000 in
theorem pStructEntry_body [FloatLit F] (pr : Profile) (e : EntryM) (st : St F) :
    pStructEntry pr cs!"StructEntry" e.attr.render (flat e.segs) (flat e.segs) st =
      .ok ((specEntry e st).1, [], (specEntry e st).2) := by
  obtain ⟨d1, d2, d3, d4, d5, d6⟩ := declared_entry e
  let tail2 : List Seg :=
    [ .opt cs!"Sign" (e.sign.map fun x => tb x.text),
      .opt cs!"Unit" (e.unit.map tb),
      .opt cs!"Representation" (e.representation.map fun r => tb r.text),
      .many cs!"pSelected" (e.pSelected.map tb) ]
  let tail1 : List Seg :=
    .opt cs!"AccessMode" (e.accessMode.map fun a => tb a.text) ::
    .opt cs!"Cachable" (e.cacheable.map fun c => tb c.text) ::
    .opt cs!"PollingTime" (e.pollingTime.map fun l => tb l.text) ::
    .opt cs!"Streamable" (e.streamable.map fun b => tb b.text) :: (e.bitMask.segs ++ tail2)
  have hsegs : e.segs = e.elem.segs e.pInvalidators ++ tail1 := by
    simp [EntryM.segs, tail1, tail2]
  have h := pElemBase_segs e.elem e.pInvalidators tail1 (specAttr e.attr st).2 (by
    simp [noneStart, elemTags, canStart, tail1, canStart_bitSegs])
  have e0 := fun st => parseWhile_none (F := F) cs!"pInvalidator" pNodeId tail1 st (by
    simp [canStart, tail1, canStart_bitSegs])
  have e1 := fun st => parseIf_optTable (F := F) _ _ lookup_accessMode cs!"AccessMode" e.accessMode
    (.opt cs!"Cachable" (e.cacheable.map fun c => tb c.text) ::
      .opt cs!"PollingTime" (e.pollingTime.map fun l => tb l.text) ::
      .opt cs!"Streamable" (e.streamable.map fun b => tb b.text) :: (e.bitMask.segs ++ tail2)) st (by
      simp [canStart, canStart_bitSegs])
  have e2 := fun st => parseIf_optTable (F := F) _ _ lookup_cachingMode cs!"Cachable" e.cacheable
    (.opt cs!"PollingTime" (e.pollingTime.map fun l => tb l.text) ::
      .opt cs!"Streamable" (e.streamable.map fun b => tb b.text) :: (e.bitMask.segs ++ tail2)) st (by
      simp [canStart, canStart_bitSegs])
  have e3 := fun st => parseIf_optU64 (F := F) cs!"PollingTime" e.pollingTime
    (.opt cs!"Streamable" (e.streamable.map fun b => tb b.text) :: (e.bitMask.segs ++ tail2)) st (by
      simp [canStart, canStart_bitSegs])
  have e4 := fun st => parseIf_optBool (F := F) cs!"Streamable" e.streamable
    (e.bitMask.segs ++ tail2) st (by simp [canStart_bitSegs])
  have e5 := fun st => pBitMask_segs (F := F) e.bitMask tail2 st
  rw [hsegs] at d1 d2 d3 d4 d5 d6 ⊢
  simp only [tail1, tail2] at h e0 e1 e2 e3 e4 e5 d1 d2 d3 d4 d5 d6 ⊢
  simp (config := { maxDischargeDepth := 3 }) [pStructEntry, P.bind_def, pAttrBase_render,
    d1, d2, d3, d4, d5, d6, h, e0, e1, e2, e3, e4, e5, parseIfD_def, specEntry,
    parseIf_optTable _ _ lookup_sign, parseIf_optString, parseIf_optTable _ _ lookup_intRepr,
    parseWhile_manyNodeId_last, canStart, pure_apply, P.fail]


theorem onChild_def {α : Type} (children : List Elem) (p : P F α) (cur : Cur) (st : St F) :
    onChild children p cur st = (p children st).bind fun r => .ok (r.1, cur, r.2.2) := rfl

theorem pStructEntries_many [FloatLit F] (pr : Profile) (es : List EntryM) (st : St F) (n : Nat)
    (hn : es.length + 1 ≤ n) :
    pStructEntries pr n (flat [.many cs!"StructEntry" (es.map EntryM.body)]) st =
      .ok ((listS specEntry es st).1, [], (listS specEntry es st).2) := by
  induction es generalizing st n with
  | nil =>
    cases n with
    | zero => omega
    | succ n => simp [pStructEntries, P.bind_def, next_nil, listS, pure_apply]
  | cons e es ih =>
    cases n with
    | zero => omega
    | succ n =>
      have hn' : es.length + 1 ≤ n := by simp at hn; omega
      simp [pStructEntries, P.bind_def, next_node, EntryM.body, onChild_def, pStructEntry_body,
        ih _ _ hn', listS, pure_apply]

theorem length_flat_many (t : Str) (bs : List Body) : (flat [.many t bs]).length = bs.length := by
  simp [flat, Seg.elems]

theorem pStructReg_children [FloatLit F] (pr : Profile) (m : StructM) (st : St F) :
    pStructReg pr m.children st =
      .ok (⟨(specReg m.reg st).1, m.endianness.getD .le,
            (listS specEntry m.entries (specReg m.reg st).2).1⟩, [],
           (listS specEntry m.entries (specReg m.reg st).2).2) := by
  have h := pRegBase_segs pr m.reg
    [ .opt cs!"Endianess" (m.endianness.map fun x => tb x.text),
      .many cs!"StructEntry" (m.entries.map EntryM.body) ] st (by rfl)
  have e1 := fun st => parseIf_optTable (F := F) _ _ lookup_endianness cs!"Endianess" m.endianness
    [.many cs!"StructEntry" (m.entries.map EntryM.body)] st (by rfl)
  have hlen : m.entries.length + 1 ≤ m.children.length + 1 := by
    simp only [StructM.children, flat_append, List.length_append]
    have : (flat [Seg.opt cs!"Endianess" (m.endianness.map fun x => tb x.text),
        Seg.many cs!"StructEntry" (m.entries.map EntryM.body)]).length ≥ m.entries.length := by
      have := length_flat_cons_ge (Seg.opt cs!"Endianess" (m.endianness.map fun x => tb x.text))
        [Seg.many cs!"StructEntry" (m.entries.map EntryM.body)]
      rw [length_flat_many] at this
      simpa using this
    omega
  have e2 := fun st => pStructEntries_many (F := F) pr m.entries st (m.children.length + 1) hlen
  simp only [StructM.children] at e2 ⊢
  simp [pStructReg, P.bind_def, h, parseIfD_def, e1, e2, pure_apply]

theorem intoMaskedIntRegs_eq (s : StructRegNode) (es : List StructEntryNode) (cur : Cur) (st : St F) :
    intoMaskedIntRegs s es cur st =
      .ok ((maskedOfEntries s.reg s.endianness es st).1, cur,
        (maskedOfEntries s.reg s.endianness es st).2) := by
  induction es generalizing st with
  | nil => simp [intoMaskedIntRegs, maskedOfEntries, pure_apply]
  | cons e es ih =>
    simp [intoMaskedIntRegs, P.bind_def, storeInvalidators_eq, ih, maskedOfEntries, pure_apply]

end CamVerif.XmlParse
