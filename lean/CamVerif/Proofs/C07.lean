/-
Helper lemmas for C07: one `send_cmd` transaction against an ARBITRARY transport.
Totality (never `panic`), frame (what of the handle can change), pending bound (number of
receives) and genuineness of an `ok` result, all in one invariant per function.
-/
import CamVerif.Model.Control
import CamVerif.Props.C08
import CamVerif.Props.C09
import CamVerif.Props.C10
import CamVerif.Proofs.C06Ops
namespace CamVerif.C07
open CamVerif CamVerif.Control

/-- number of bulk-in transfers in a log -/
def recvCount : List Ev → Nat
  | [] => 0
  | .recv .. :: r => recvCount r + 1
  | _ :: r => recvCount r

/-- number of bulk-out transfers in a log -/
def sendCount : List Ev → Nat
  | [] => 0
  | .send .. :: r => sendCount r + 1
  | _ :: r => sendCount r

theorem recvCount_append (xs ys : List Ev) : recvCount (xs ++ ys) = recvCount xs + recvCount ys := by
  induction xs with
  | nil => simp [recvCount]
  | cons e xs ih => cases e <;> simp [recvCount, ih] <;> omega

theorem sendCount_append (xs ys : List Ev) : sendCount (xs ++ ys) = sendCount xs + sendCount ys := by
  induction xs with
  | nil => simp [sendCount]
  | cons e xs ih => cases e <;> simp [sendCount, ih] <;> omega

/-- request ids of the commands put on the wire, in chronological order (the log is newest
first) -/
def sentIds : List Ev → List Nat
  | [] => []
  | .send b _ _ :: r => sentIds r ++ [C06.pktId b]
  | _ :: r => sentIds r

/-- `k` consecutive request ids starting at `id` (mod 2^16) -/
def idsUp (id : Nat) : Nat → List Nat
  | 0 => []
  | k + 1 => id :: idsUp ((id + 1) % 65536) k

theorem sentIds_append (xs ys : List Ev) : sentIds (xs ++ ys) = sentIds ys ++ sentIds xs := by
  induction xs with
  | nil => simp [sentIds]
  | cons e xs ih => cases e <;> simp [sentIds, ih]

theorem sentIds_nosend (evs : List Ev) (h : sendCount evs = 0) : sentIds evs = [] := by
  induction evs with
  | nil => rfl
  | cons e r ih =>
    cases e with
    | send b t e => simp [sendCount] at h
    | recv bl t res => simp only [sendCount] at h; simp [sentIds, ih h]
    | sleep m => simp only [sendCount] at h; simp [sentIds, ih h]
    | ctl q t e => simp only [sendCount] at h; simp [sentIds, ih h]

theorem idsUp_append (id a b : Nat) (hid : id < 65536) :
    idsUp id (a + b) = idsUp id a ++ idsUp ((id + a) % 65536) b := by
  induction a generalizing id with
  | zero =>
    simp only [Nat.zero_add, Nat.add_zero, idsUp, List.nil_append, Nat.mod_eq_of_lt hid]
  | succ k ih =>
    have : k + 1 + b = (k + b) + 1 := by omega
    rw [this]
    simp only [idsUp, ih _ (Nat.mod_lt _ (by omega)), List.cons_append]
    have : ((id + 1) % 65536 + k) % 65536 = (id + (k + 1)) % 65536 := by omega
    rw [this]

/-- **Request-id accounting** of a stretch of log `evs` (newest first) during which
`next_req_id` went from `id` to `id'`: the id advanced by exactly the number of commands put
on the wire, and those commands carry `id, id+1, …` (mod 2^16) in order — one fresh id per
command sent, nothing else ever changes the id. -/
def IdsOk (id id' : Nat) (evs : List Ev) : Prop :=
  id < 65536 → id' = (id + sendCount evs) % 65536 ∧ sentIds evs = idsUp id (sendCount evs)

theorem IdsOk.nil (id : Nat) : IdsOk id id [] := by
  intro h; exact ⟨by simp [sendCount, Nat.mod_eq_of_lt h], rfl⟩

theorem IdsOk.nosend (id : Nat) (evs : List Ev) (h : sendCount evs = 0) : IdsOk id id evs := by
  intro hid; rw [h]; exact ⟨by simp [Nat.mod_eq_of_lt hid], sentIds_nosend evs h⟩

theorem IdsOk.trans {id id1 id2 : Nat} {e1 e2 : List Ev} (h1 : IdsOk id id1 e1)
    (h2 : IdsOk id1 id2 e2) : IdsOk id id2 (e2 ++ e1) := by
  intro hid
  obtain ⟨a1, a2⟩ := h1 hid
  obtain ⟨b1, b2⟩ := h2 (by rw [a1]; exact Nat.mod_lt _ (by omega))
  rw [sendCount_append, sentIds_append, a2, b2, a1]
  refine ⟨by rw [b1, a1]; omega, ?_⟩
  rw [Nat.add_comm (sendCount e2), idsUp_append _ _ _ hid]

/-- The transport never reports more received bytes than the buffer it was given holds
(a libusb bulk transfer cannot; an oversized device packet is `LIBUSB_ERROR_OVERFLOW`). -/
def Honest {σ : Type} (dev : Dev σ) : Prop :=
  ∀ (st : σ) (n : Nat) (b : Bytes), (dev.recv st n).2 = .ok b → b.length ≤ n

/-- `bytes` is a well-formed acknowledge with status Success, the request id `id`, the kind
`kind`, whose typed SCD view is `v`. -/
def Genuine {α : Type} (p : Profile) (id : Nat) (kind : Ack.ScdKind)
    (scdAs : Ack.AckPacket → Ack.R α) (v : α) (bytes : Bytes) : Prop :=
  ∃ ack, Ack.AckPacket.parse p bytes = .ok ack ∧ ack.ccd.status.kind = .genCp .success ∧
    ack.ccd.requestId = id ∧ ack.ccd.scdKind = kind ∧ scdAs ack = .ok v

/-- Every bulk transfer of `evs` used the timeout `t`, and every command sent is at most `mc`
bytes long. -/
def EvsOk (mc t : Nat) (evs : List Ev) : Prop :=
  ∀ e ∈ evs, match e with
    | .send b t' _ => b.length ≤ mc ∧ t' = t
    | .recv _ t' _ => t' = t
    | _ => True

theorem EvsOk.nil (mc t : Nat) : EvsOk mc t [] := by intro e he; simp at he

theorem EvsOk.append {mc t : Nat} {xs ys : List Ev} (hx : EvsOk mc t xs) (hy : EvsOk mc t ys) :
    EvsOk mc t (xs ++ ys) := by
  intro e he
  rcases List.mem_append.mp he with h | h
  · exact hx e h
  · exact hy e h

/-- What the receive loop may do, whatever the device does.  `evs` are the events it logs
(newest first). -/
structure RecvInv {σ α : Type} (p : Profile) (scdAs : Ack.AckPacket → Ack.R α)
    (kind : Ack.ScdKind) (id retry : Nat) (s s' : St σ) (r : R α) : Prop where
  no_panic : r ≠ .panic
  h_eq : s'.h = s.h
  log : ∃ evs, s'.logRev = evs ++ s.logRev ∧ recvCount evs ≤ retry ∧ sendCount evs = 0 ∧
    (∀ mc, EvsOk mc s.h.cfg.xfer evs) ∧
    (∀ v, r = .ok v → ∃ bufLen t bytes pre, evs = .recv bufLen t (.ok bytes) :: pre ∧
      bytes.length ≤ bufLen ∧ Genuine p id kind scdAs v bytes)

section
variable {σ α : Type} {dev : Dev σ}

theorem recvLoop_inv (hh : Honest dev) (p : Profile) (scdAs : Ack.AckPacket → Ack.R α)
    (hscd : ∀ a, scdAs a ≠ .panic) (kind : Ack.ScdKind) (id : Nat) :
    ∀ (retry : Nat) (s : St σ),
      RecvInv p scdAs kind id retry s (recvLoop dev p scdAs kind id retry s).1
        (recvLoop dev p scdAs kind id retry s).2 := by
  intro retry
  induction retry with
  | zero =>
    intro s
    simp only [recvLoop]
    exact ⟨by simp, rfl, ⟨[], by simp, by simp [recvCount], by simp [sendCount],
      fun _ => EvsOk.nil _ _, fun v h => by simp at h⟩⟩
  | succ r ih =>
    intro s
    rcases hrecv : dev.recv s.d s.h.bufLen with ⟨d, res⟩
    have hhon := hh s.d s.h.bufLen
    rw [hrecv] at hhon
    simp only at hhon
    have hev1 : ∀ mc, EvsOk mc s.h.cfg.xfer [.recv s.h.bufLen s.h.cfg.xfer res] := by
      intro mc e he
      simp only [List.mem_singleton] at he
      subst he
      rfl
    -- the state after logging the receive, when the loop stops with an error
    have base : ∀ (e : CErr), RecvInv p scdAs kind id (r + 1) s
        ((({ s with d := d } : St σ)).push (.recv s.h.bufLen s.h.cfg.xfer res)) (.err e) :=
      fun e => ⟨by simp, rfl, ⟨[.recv s.h.bufLen s.h.cfg.xfer res], by simp [St.push],
        by simp [recvCount], by simp [sendCount], hev1, fun v h => by simp at h⟩⟩
    -- continuing after one more logged event list `more` (newest first, ends with the receive)
    have step : ∀ (more : List Ev) (s1 : St σ), s1.h = s.h →
        s1.logRev = more ++ .recv s.h.bufLen s.h.cfg.xfer res :: s.logRev →
        recvCount more = 0 → sendCount more = 0 → (∀ mc, EvsOk mc s.h.cfg.xfer more) →
        RecvInv p scdAs kind id (r + 1) s (recvLoop dev p scdAs kind id r s1).1
          (recvLoop dev p scdAs kind id r s1).2 := by
      intro more s1 hh1 hl1 hrc1 hsc1 hok1
      obtain ⟨h1, h2, ⟨evs, hl, hrc, hsc, hok, hg⟩⟩ := ih s1
      refine ⟨h1, h2.trans hh1, ⟨evs ++ (more ++ [.recv s.h.bufLen s.h.cfg.xfer res]), ?_, ?_,
        ?_, ?_, ?_⟩⟩
      · rw [hl, hl1]; simp
      · rw [recvCount_append, recvCount_append, hrc1]; simp only [recvCount]; omega
      · rw [sendCount_append, sendCount_append, hsc1, hsc]; simp [sendCount]
      · intro mc
        rw [hh1] at hok
        exact (hok mc).append ((hok1 mc).append (hev1 mc))
      · intro v hv
        obtain ⟨bl, t, bytes, pre, he, hb, hgen⟩ := hg v hv
        exact ⟨bl, t, bytes, pre ++ (more ++ [.recv s.h.bufLen s.h.cfg.xfer res]),
          by rw [he]; simp, hb, hgen⟩
    cases res with
    | error e =>
      simp only [recvLoop, hrecv]
      exact base _
    | ok bytes =>
      have hlen := hhon bytes rfl
      simp only [recvLoop, hrecv, St.push]
      rw [if_neg (by omega)]
      have hpt := C08.ack_parse_total p bytes
      rcases hparse : Ack.AckPacket.parse p bytes with ack | e | _
      · simp only
        by_cases hid : ack.ccd.requestId = id
        · simp only [hid, ne_eq, not_true_eq_false, if_false]
          by_cases hst : ack.ccd.status.kind = .genCp .success
          · simp only [verifyAck, hst, ne_eq, not_true_eq_false, if_false]
            by_cases hpend : ack.ccd.scdKind = .pending
            · simp only [hpend, if_true]
              have hvt := (C08.ack_views_total p ack.rawScd ack.ccd).2.2.1
              rcases hpp : Ack.Pending.parse ack.rawScd ack.ccd with ms | e | _
              · simp only
                exact step [.sleep ms] _ rfl (by simp) (by simp [recvCount]) (by simp [sendCount])
                  (fun mc e he => by simp only [List.mem_singleton] at he; subst he; trivial)
              · exact base _
              · exact absurd hpp hvt
            · simp only [hpend, if_false]
              by_cases hk : ack.ccd.scdKind = kind
              · simp only [hk, ne_eq, not_true_eq_false, if_false]
                have hs := hscd ack
                rcases hsa : scdAs ack with v | e | _
                · simp only
                  refine ⟨by simp, rfl, ⟨[.recv s.h.bufLen s.h.cfg.xfer (.ok bytes)],
                    by simp, by simp [recvCount], by simp [sendCount], hev1, ?_⟩⟩
                  intro v' hv'
                  simp only [Res.ok.injEq] at hv'
                  subst hv'
                  exact ⟨s.h.bufLen, s.h.cfg.xfer, bytes, [], rfl, hlen, ack, hparse, hst, hid,
                    hk, hsa⟩
                · simp only
                  exact base _
                · exact absurd hsa hs
              · simp only [ne_eq, hk, not_false_eq_true, if_true]
                exact base _
          · simp only [verifyAck, ne_eq, hst, not_false_eq_true, if_true]
            exact base _
        · simp only [ne_eq, hid, not_false_eq_true, if_true]
          exact step [] _ rfl (by simp) (by simp [recvCount]) (by simp [sendCount])
            (fun mc => EvsOk.nil _ _)
      · simp only
        exact base _
      · exact absurd hparse hpt

/-- the two typed views `read` / `write` use never panic -/
theorem readView_total (a : Ack.AckPacket) : Ack.ReadMem.parse a.rawScd a.ccd ≠ .panic :=
  (C08.ack_views_total .dev a.rawScd a.ccd).1

theorem writeView_total (a : Ack.AckPacket) : Ack.WriteMem.parse a.rawScd a.ccd ≠ .panic :=
  (C08.ack_views_total .dev a.rawScd a.ccd).2.1

end

/-- What one `send_cmd` may do, whatever the device does. -/
structure SendInv {σ α : Type} (p : Profile) (scdAs : Ack.AckPacket → Ack.R α) (c : Cmd.Cmd)
    (s s' : St σ) (r : R α) : Prop where
  no_panic : r ≠ .panic
  cfg : s'.h.cfg = s.h.cfg
  opened : s'.h.opened = s.h.opened
  abrm : s'.h.abrm = s.h.abrm
  id16 : s.h.nextReqId < 2 ^ 16 → s'.h.nextReqId < 2 ^ 16
  log : ∃ evs, s'.logRev = evs ++ s.logRev ∧ recvCount evs ≤ s.h.cfg.retry * sendCount evs ∧
    EvsOk s.h.cfg.maxCmd s.h.cfg.xfer evs
  one_send : ∃ evs, s'.logRev = evs ++ s.logRev ∧ sendCount evs ≤ 1 ∧ recvCount evs ≤ s.h.cfg.retry
  ids : ∃ evs, s'.logRev = evs ++ s.logRev ∧ IdsOk s.h.nextReqId s'.h.nextReqId evs
  /-- an `Ok` result: the id advanced, and the events of the transaction are the command
  (sent successfully), then receives only, the LAST of which delivered the genuine answer. -/
  ok : ∀ v, r = .ok v → s'.h.nextReqId = (s.h.nextReqId + 1) % 2 ^ 16 ∧
    ∃ recvEvs bufLen t bytes pre,
      s'.logRev = recvEvs ++ .send (c.serialize s.h.nextReqId) s.h.cfg.xfer none :: s.logRev ∧
      sendCount recvEvs = 0 ∧ recvEvs = .recv bufLen t (.ok bytes) :: pre ∧ bytes.length ≤ bufLen ∧
      Genuine p s.h.nextReqId (ackKindOf c) scdAs v bytes

section
variable {σ α : Type} {dev : Dev σ}

theorem sendCmd_inv (hh : Honest dev) (p : Profile) (scdAs : Ack.AckPacket → Ack.R α)
    (hscd : ∀ a, scdAs a ≠ .panic) (s : St σ) (c : Cmd.Cmd) (hcons : C09.Constructible p c) :
    SendInv p scdAs c s (sendCmd dev p scdAs s c).1 (sendCmd dev p scdAs s c).2 := by
  by_cases hguard : c.cmdLen > s.h.cfg.maxCmd
  · simp only [sendCmd, if_pos hguard]
    exact ⟨by simp, rfl, rfl, rfl, id, ⟨[], by simp, by simp [recvCount], EvsOk.nil _ _⟩,
      ⟨[], by simp, by simp [sendCount], by simp [recvCount]⟩, ⟨[], by simp, IdsOk.nil _⟩,
      fun v h => by simp at h⟩
  · have hlen := (C09.len_agree p c s.h.nextReqId hcons).1
    have hsink := (C09.sink_exact c s.h.nextReqId
      (max s.h.bufLen (max c.cmdLen c.maximumAckLen))).2.2.1 (by rw [hlen]; omega)
    rcases hsd : dev.send s.d (c.serialize s.h.nextReqId) with ⟨d, r⟩
    simp only [sendCmd, if_neg hguard, hsink, hlen, ne_eq, not_true_eq_false, if_false, hsd]
    have hsendOk : ∀ mc, c.cmdLen ≤ mc →
        EvsOk mc s.h.cfg.xfer [.send (c.serialize s.h.nextReqId) s.h.cfg.xfer r] := by
      intro mc hmc e he
      simp only [List.mem_singleton] at he
      subst he
      exact ⟨by rw [hlen]; exact hmc, rfl⟩
    have hid16 : s.h.nextReqId < 2 ^ 16 → (s.h.nextReqId + 1) % 2 ^ 16 < 2 ^ 16 :=
      fun _ => Nat.mod_lt _ (by omega)
    have hidsOne : ∀ (pre : List Ev) (e : Option UsbErr), sendCount pre = 0 →
        IdsOk s.h.nextReqId ((s.h.nextReqId + 1) % 2 ^ 16)
          (pre ++ [.send (c.serialize s.h.nextReqId) s.h.cfg.xfer e]) := by
      intro pre e hpre hid
      rw [sendCount_append, sentIds_append, hpre, sentIds_nosend pre hpre]
      simp only [sendCount, sentIds, List.nil_append, List.append_nil, Nat.zero_add, idsUp,
        C06.pktId_serialize c _ (by omega : s.h.nextReqId < 2 ^ 16)]
      exact ⟨trivial, trivial⟩
    cases r with
    | some e =>
      simp only [St.push]
      exact ⟨by simp, rfl, rfl, rfl, hid16,
        ⟨[.send (c.serialize s.h.nextReqId) s.h.cfg.xfer (some e)], by simp,
          by simp [recvCount], hsendOk _ (by omega)⟩,
        ⟨[.send (c.serialize s.h.nextReqId) s.h.cfg.xfer (some e)], by simp,
          by simp [sendCount], by simp [recvCount]⟩,
        ⟨[.send (c.serialize s.h.nextReqId) s.h.cfg.xfer (some e)], by simp,
          by simpa using hidsOne [] (some e) rfl⟩, fun v h => by simp at h⟩
    | none =>
      simp only
      have := recvLoop_inv hh p scdAs hscd (ackKindOf c) s.h.nextReqId s.h.cfg.retry
        (⟨⟨(s.h.nextReqId + 1) % 2 ^ 16, s.h.cfg, max s.h.bufLen (max c.cmdLen c.maximumAckLen),
            s.h.opened, s.h.abrm⟩, d,
          .send (c.serialize s.h.nextReqId) s.h.cfg.xfer none :: s.logRev⟩ : St σ)
      simp only [St.push] at this ⊢
      obtain ⟨h1, h2, ⟨evs, hl, hrc, hsc, hok, hg⟩⟩ := this
      refine ⟨h1, by rw [h2], by rw [h2], by rw [h2], fun h => by rw [h2]; exact hid16 h,
        ⟨evs ++ [.send (c.serialize s.h.nextReqId) s.h.cfg.xfer none], ?_, ?_, ?_⟩,
        ⟨evs ++ [.send (c.serialize s.h.nextReqId) s.h.cfg.xfer none], ?_, ?_, ?_⟩,
        ⟨evs ++ [.send (c.serialize s.h.nextReqId) s.h.cfg.xfer none], ?_, ?_⟩, ?_⟩
      · rw [hl]; simp
      · rw [recvCount_append, sendCount_append, hsc]; simp only [recvCount, sendCount]; omega
      · exact (hok _).append (hsendOk _ (by omega))
      · rw [hl]; simp
      · rw [sendCount_append, hsc]; simp [sendCount]
      · rw [recvCount_append]; simp only [recvCount]; omega
      · rw [hl]; simp
      · rw [h2]; exact hidsOne evs none hsc
      · intro v hv
        obtain ⟨bl, t, bytes, pre, he, hb, hgen⟩ := hg v hv
        exact ⟨by rw [h2], evs, bl, t, bytes, pre, hl, hsc, he, hb, hgen⟩

end

/-! ## Whole operations against an arbitrary transport -/

/-- What `read` / `write` / the loops may do to the handle, whatever the device does. -/
structure OpInv {σ α : Type} (s s' : St σ) (r : R α) : Prop where
  no_panic : r ≠ .panic
  cfg : s'.h.cfg = s.h.cfg
  opened : s'.h.opened = s.h.opened
  abrm : s'.h.abrm = s.h.abrm
  id16 : s.h.nextReqId < 2 ^ 16 → s'.h.nextReqId < 2 ^ 16
  log : ∃ evs, s'.logRev = evs ++ s.logRev ∧ recvCount evs ≤ s.h.cfg.retry * sendCount evs ∧
    EvsOk s.h.cfg.maxCmd s.h.cfg.xfer evs
  ids : ∃ evs, s'.logRev = evs ++ s.logRev ∧ IdsOk s.h.nextReqId s'.h.nextReqId evs

theorem OpInv.refl {σ α : Type} (s : St σ) (r : R α) (h : r ≠ .panic) : OpInv s s r :=
  ⟨h, rfl, rfl, rfl, id, ⟨[], by simp, by simp [recvCount], EvsOk.nil _ _⟩,
    ⟨[], by simp, IdsOk.nil _⟩⟩

theorem OpInv.of_txn {σ α β : Type} {p : Profile} {scdAs : Ack.AckPacket → Ack.R α}
    {c : Cmd.Cmd} {s s' : St σ} {r : R α} (h : SendInv p scdAs c s s' r)
    (r' : R β) (hr : r' ≠ .panic) : OpInv s s' r' :=
  ⟨hr, h.cfg, h.opened, h.abrm, h.id16, h.log, h.ids⟩

theorem OpInv.trans {σ α β : Type} {s s1 s2 : St σ} {r1 : R α} {r2 : R β}
    (h1 : OpInv s s1 r1) (h2 : OpInv s1 s2 r2) : OpInv s s2 r2 := by
  obtain ⟨_, a2, a3, a4, a5, ⟨e1, l1, c1, o1⟩, ⟨f1, m1, i1⟩⟩ := h1
  obtain ⟨b1, b2, b3, b4, b5, ⟨e2, l2, c2, o2⟩, ⟨f2, m2, i2⟩⟩ := h2
  refine ⟨b1, b2.trans a2, b3.trans a3, b4.trans a4, fun h => b5 (a5 h), ⟨e2 ++ e1, ?_, ?_, ?_⟩,
    ⟨f2 ++ f1, by rw [m2, m1]; simp, i1.trans i2⟩⟩
  · rw [l2, l1]; simp
  · rw [recvCount_append, sendCount_append, Nat.mul_add]
    rw [a2] at c2
    omega
  · rw [a2] at o2
    exact o2.append o1

/-- the ReadMem view of an acknowledge -/
abbrev readView : Ack.AckPacket → Ack.R Bytes := fun ack => Ack.ReadMem.parse ack.rawScd ack.ccd
/-- the WriteMem view of an acknowledge -/
abbrev writeView : Ack.AckPacket → Ack.R Nat := fun ack => Ack.WriteMem.parse ack.rawScd ack.ccd

/-- The events `seg` (newest first) of ONE transaction with a genuine answer: the command
`cmd` was sent successfully, after it come receives only (no other command in between), and
the LAST of them delivered a packet that fits the buffer and is `Genuine` for the command's
request id, with typed view `v`. -/
def GenuineSeg {α : Type} (p : Profile) (cmd : Bytes) (id : Nat) (kind : Ack.ScdKind)
    (scdAs : Ack.AckPacket → Ack.R α) (v : α) (seg : List Ev) : Prop :=
  ∃ t bufLen t' bytes pre, seg = (.recv bufLen t' (.ok bytes) :: pre) ++ [.send cmd t none] ∧
    sendCount pre = 0 ∧ bytes.length ≤ bufLen ∧ Genuine p id kind scdAs v bytes

/-- The events `evs` (newest first) a successful `read` logged decompose, chunk by chunk in
the order of the chunks, into one `GenuineSeg` per chunk: the chunk's ReadMem command with
request id `id0 + k`, then receives only, the last of which is the genuine acknowledge whose
ReadMem view is exactly that chunk of the returned data (and has the requested length). -/
def GenuineRead (p : Profile) (m address : Nat) :
    (fuel offset rem id : Nat) → Bytes → List Ev → Prop
  | 0, _, _, _, _, _ => False
  | fuel + 1, offset, rem, id, d, evs =>
    if rem = 0 then d = [] ∧ evs = [] else
    ∃ seg rest, evs = rest ++ seg ∧
      (d.take (min m rem)).length = min m rem ∧
      GenuineSeg p ((Cmd.Cmd.readMem ⟨address + offset, min m rem⟩).serialize id) id .readMem
        readView (d.take (min m rem)) seg ∧
      GenuineRead p m address fuel (offset + min m rem) (rem - min m rem) ((id + 1) % 65536)
        (d.drop (min m rem)) rest

section
variable {σ : Type} {dev : Dev σ}

theorem readLoop_inv (hh : Honest dev) (p : Profile) (m address : Nat) (hm : 0 < m)
    (hm16 : m < 2 ^ 16) :
    ∀ (fuel offset rem : Nat) (s : St σ) (accRev : Bytes), rem < fuel →
      address + offset + rem ≤ 2 ^ 64 → offset + rem < 2 ^ 64 →
      OpInv s (readLoop dev p m address fuel offset rem s accRev).1
        (readLoop dev p m address fuel offset rem s accRev).2 ∧
      ∀ bs, (readLoop dev p m address fuel offset rem s accRev).2 = .ok bs →
        ∃ d evs, bs = accRev.reverse ++ d ∧ d.length = rem ∧
          (readLoop dev p m address fuel offset rem s accRev).1.logRev = evs ++ s.logRev ∧
          GenuineRead p m address fuel offset rem s.h.nextReqId d evs := by
  intro fuel
  induction fuel with
  | zero => intro offset rem s accRev h; omega
  | succ f ih =>
    intro offset rem s accRev hf hsp hn64
    by_cases h0 : rem = 0
    · subst h0
      rw [readLoop]
      simp only [if_true]
      refine ⟨OpInv.refl _ _ (by simp), ?_⟩
      intro bs hbs
      simp only [Res.ok.injEq] at hbs
      exact ⟨[], [], by simp [hbs], rfl, by simp, by simp [GenuineRead]⟩
    · have hgt : ¬ min m rem > U16_MAX := by simp only [U16_MAX]; omega
      have hadd : (addW p 64 address offset : R Nat) = .ok (address + offset) := by
        simp only [addW]; rw [if_pos (by omega)]
      have hadd2 : (addW p 64 offset (min m rem) : R Nat) = .ok (offset + min m rem) := by
        simp only [addW]; rw [if_pos (by omega)]
      have hcons : C09.Constructible p (.readMem ⟨address + offset, min m rem⟩) :=
        .readMem _ ⟨by simp only; omega, by simp only; omega⟩
      have hinv := sendCmd_inv hh p readView readView_total s
        (.readMem ⟨address + offset, min m rem⟩) hcons
      rw [readLoop]
      simp only [if_neg h0, if_neg hgt, hadd]
      rcases hsc : sendCmd dev p (fun ack => Ack.ReadMem.parse ack.rawScd ack.ccd) s
        (.readMem ⟨address + offset, min m rem⟩) with ⟨s1, r1⟩
      have hsc' : sendCmd dev p readView s (.readMem ⟨address + offset, min m rem⟩) = (s1, r1) := hsc
      rw [hsc'] at hinv
      simp only at hinv
      rcases r1 with data | e | _
      · simp only
        by_cases hdl : data.length = min m rem
        · simp only [hdl, ne_eq, not_true_eq_false, if_false, hadd2]
          obtain ⟨hinv2, hgen2⟩ := ih (offset + min m rem) (rem - min m rem) s1
            (data.reverse ++ accRev) (by omega) (by omega) (by omega)
          refine ⟨(OpInv.of_txn hinv _ hinv2.no_panic).trans hinv2, ?_⟩
          intro bs hbs
          obtain ⟨d2, evs2, hd2, hl2, hlog2, hg2⟩ := hgen2 bs hbs
          obtain ⟨hidn, recvEvs, bl, t, bytes, pre, hlog1, hsc0, hre, hbl, hg⟩ :=
            hinv.ok data rfl
          refine ⟨data ++ d2, evs2 ++ (recvEvs ++ [.send ((Cmd.Cmd.readMem
            ⟨address + offset, min m rem⟩).serialize s.h.nextReqId) s.h.cfg.xfer none]),
            by rw [hd2]; simp, by simp [hdl, hl2]; omega, by rw [hlog2, hlog1]; simp, ?_⟩
          simp only [GenuineRead, if_neg h0]
          have ht : (data ++ d2).take (min m rem) = data := by
            rw [← hdl]; exact List.take_left' rfl
          have hdr : (data ++ d2).drop (min m rem) = d2 := by
            rw [← hdl]; exact List.drop_left' rfl
          refine ⟨_, evs2, rfl, by rw [ht]; exact hdl, ?_, ?_⟩
          · rw [ht, hre]
            have hsp0 : sendCount pre = 0 := by
              rw [hre] at hsc0; simpa [sendCount] using hsc0
            exact ⟨_, bl, t, bytes, pre, rfl, hsp0, hbl, hg⟩
          · rw [hdr]
            have : (s.h.nextReqId + 1) % 65536 = s1.h.nextReqId := by rw [hidn]
            rw [this]; exact hg2
        · simp only [ne_eq, hdl, not_false_eq_true, if_true]
          exact ⟨OpInv.of_txn hinv _ (by simp), fun bs h => by simp at h⟩
      · simp only
        exact ⟨OpInv.of_txn hinv _ (by simp), fun bs h => by simp at h⟩
      · exact absurd rfl hinv.no_panic

/-- The events `evs` (newest first) a successful `write` logged decompose, chunk by chunk,
into one `GenuineSeg` per chunk command: the command with request id `id0 + k`, then receives
only, the last of which is the genuine WriteMem acknowledge reporting exactly the chunk's
length as written. -/
def GenuineWrite (p : Profile) : List Cmd.WriteMem → Nat → List Ev → Prop
  | [], _, evs => evs = []
  | c :: cs, id, evs =>
    ∃ seg rest, evs = rest ++ seg ∧
      GenuineSeg p ((Cmd.Cmd.writeMem c).serialize id) id .writeMem writeView c.data.length seg ∧
      GenuineWrite p cs ((id + 1) % 65536) rest

theorem GenuineWrite.append {p : Profile} :
    ∀ {xs ys : List Cmd.WriteMem} {id : Nat} {e1 e2 : List Ev}, id < 65536 →
      GenuineWrite p xs id e1 → GenuineWrite p ys ((id + xs.length) % 65536) e2 →
      GenuineWrite p (xs ++ ys) id (e2 ++ e1) := by
  intro xs
  induction xs with
  | nil =>
    intro ys id e1 e2 hid h1 h2
    simp only [GenuineWrite] at h1
    subst h1
    simpa [Nat.mod_eq_of_lt hid] using h2
  | cons c cs ih =>
    intro ys id e1 e2 hid h1 h2
    obtain ⟨seg, rest, he, hseg, hr⟩ := h1
    refine ⟨seg, e2 ++ rest, by rw [he]; simp, hseg, ih (Nat.mod_lt _ (by omega)) hr ?_⟩
    have : ((id + 1) % 65536 + cs.length) % 65536 = (id + (c :: cs).length) % 65536 := by
      simp only [List.length_cons]; omega
    rw [this]; exact h2

theorem writeChunkLoop_inv (hh : Honest dev) (p : Profile) :
    ∀ (fuel : Nat) (it : Cmd.WriteMemChunks) (s : St σ) (cs : List Cmd.WriteMem),
      it.collect p fuel = .ok cs → (∀ c ∈ cs, C09.WriteMem.Built c) → s.h.nextReqId < 65536 →
      OpInv s (writeChunkLoop dev p fuel it s).1 (writeChunkLoop dev p fuel it s).2 ∧
      ((writeChunkLoop dev p fuel it s).2 = .ok () →
        (∃ evs, (writeChunkLoop dev p fuel it s).1.logRev = evs ++ s.logRev ∧
          GenuineWrite p cs s.h.nextReqId evs) ∧
        (writeChunkLoop dev p fuel it s).1.h.nextReqId = (s.h.nextReqId + cs.length) % 65536) := by
  intro fuel
  induction fuel with
  | zero => intro it s cs h; simp [Cmd.WriteMemChunks.collect] at h
  | succ f ih =>
    intro it s cs hcol hb hid
    rw [Cmd.WriteMemChunks.collect] at hcol
    rcases hnext : it.next p with ⟨item, it'⟩ | e | _
    · rw [hnext] at hcol
      simp only [Res.bind_ok] at hcol
      cases item with
      | none =>
        simp only [Res.pure_eq, Res.ok.injEq] at hcol
        subst hcol
        rw [writeChunkLoop]
        simp only [hnext]
        exact ⟨OpInv.refl _ _ (by simp), fun _ => ⟨⟨[], by simp, rfl⟩, by
          simp only [List.length_nil, Nat.add_zero]; exact (Nat.mod_eq_of_lt hid).symm⟩⟩
      | some c =>
        simp only at hcol
        rcases hrest : Cmd.WriteMemChunks.collect p f it' with rest | e | _
        · rw [hrest] at hcol
          simp only [Res.bind_ok, Res.pure_eq, Res.ok.injEq] at hcol
          subst hcol
          have hinv := sendCmd_inv hh p writeView writeView_total s (.writeMem c)
            (.writeMem _ (hb c (List.mem_cons_self ..)))
          rw [writeChunkLoop]
          simp only [hnext]
          rcases hsc : sendCmd dev p (fun ack => Ack.WriteMem.parse ack.rawScd ack.ccd) s
            (.writeMem c) with ⟨s1, r1⟩
          have hsc' : sendCmd dev p writeView s (.writeMem c) = (s1, r1) := hsc
          rw [hsc'] at hinv
          simp only at hinv
          rcases r1 with len | e | _
          · simp only
            by_cases hl : len = c.data.length
            · simp only [hl, ne_eq, not_true_eq_false, if_false]
              have hid1 : s1.h.nextReqId < 65536 := by
                rw [(hinv.ok len rfl).1]; exact Nat.mod_lt _ (by omega)
              obtain ⟨hinv2, hgen2⟩ := ih it' s1 rest hrest
                (fun x hx => hb x (List.mem_cons_of_mem _ hx)) hid1
              refine ⟨(OpInv.of_txn hinv _ hinv2.no_panic).trans hinv2, ?_⟩
              intro hok
              obtain ⟨⟨evs2, hlog2, hg2⟩, hid2⟩ := hgen2 hok
              obtain ⟨hidn, recvEvs, bl, t, bytes, pre, hlog1, hsc0, hre, hbl, hg⟩ :=
                hinv.ok len rfl
              subst hl
              refine ⟨⟨evs2 ++ (recvEvs ++ [.send ((Cmd.Cmd.writeMem c).serialize s.h.nextReqId)
                s.h.cfg.xfer none]), by rw [hlog2, hlog1]; simp, ?_⟩, ?_⟩
              · refine ⟨_, evs2, rfl, ?_, ?_⟩
                · rw [hre]
                  have hsp0 : sendCount pre = 0 := by
                    rw [hre] at hsc0; simpa [sendCount] using hsc0
                  exact ⟨_, bl, t, bytes, pre, rfl, hsp0, hbl, hg⟩
                · have : (s.h.nextReqId + 1) % 65536 = s1.h.nextReqId := by rw [hidn]
                  rw [this]; exact hg2
              · rw [hid2, hidn]; simp only [List.length_cons]; omega
            · simp only [ne_eq, hl, not_false_eq_true, if_true]
              exact ⟨OpInv.of_txn hinv _ (by simp), fun h => by simp at h⟩
          · simp only
            exact ⟨OpInv.of_txn hinv _ (by simp), fun h => by simp at h⟩
          · exact absurd rfl hinv.no_panic
        · rw [hrest] at hcol; simp at hcol
        · rw [hrest] at hcol; simp at hcol
    · rw [hnext] at hcol; simp at hcol
    · rw [hnext] at hcol; simp at hcol

theorem writeBlockLoop_inv (hh : Honest dev) (p : Profile) (address maxCmd : Nat)
    (hbu : maxCmd < 2 ^ 63) :
    ∀ (fuel offset : Nat) (rest : Bytes) (s : St σ), rest.length < fuel →
      address + offset + rest.length ≤ 2 ^ 64 → offset + rest.length < 2 ^ 64 →
      s.h.nextReqId < 65536 →
      OpInv s (writeBlockLoop dev p address maxCmd fuel offset rest s).1
        (writeBlockLoop dev p address maxCmd fuel offset rest s).2 ∧
      ((writeBlockLoop dev p address maxCmd fuel offset rest s).2 = .ok () →
        (∃ evs, (writeBlockLoop dev p address maxCmd fuel offset rest s).1.logRev = evs ++ s.logRev ∧
          GenuineWrite p (C06.writeChunkList p address maxCmd fuel offset rest) s.h.nextReqId evs) ∧
        (writeBlockLoop dev p address maxCmd fuel offset rest s).1.h.nextReqId =
          (s.h.nextReqId + (C06.writeChunkList p address maxCmd fuel offset rest).length) % 65536 ∧
        (rest ≠ [] → 20 < maxCmd)) := by
  intro fuel
  induction fuel with
  | zero => intro offset rest s h; omega
  | succ f ih =>
    intro offset rest s hf hsp hn64 hid
    by_cases h0 : rest = []
    · subst h0
      rw [writeBlockLoop]
      simp only [if_true]
      exact ⟨OpInv.refl _ _ (by simp), fun _ => ⟨⟨[], by simp, by simp [C06.writeChunkList, GenuineWrite]⟩,
        by simp [C06.writeChunkList, Nat.mod_eq_of_lt hid], fun h => absurd rfl h⟩⟩
    · have hmwb : MAX_WRITE_BLOCK = 65527 := rfl
      have htl : (rest.take MAX_WRITE_BLOCK).length = min MAX_WRITE_BLOCK rest.length :=
        List.length_take
      have hdl : (rest.drop MAX_WRITE_BLOCK).length = rest.length - MAX_WRITE_BLOCK :=
        List.length_drop
      have hpos : 0 < rest.length := List.length_pos_iff.mpr h0
      have hadd : (addW p 64 address offset : R Nat) = .ok (address + offset) := by
        simp only [addW]; rw [if_pos (by omega)]
      have hadd2 : (addW p 64 offset (rest.take MAX_WRITE_BLOCK).length : R Nat) =
          .ok (offset + (rest.take MAX_WRITE_BLOCK).length) := by
        simp only [addW]; rw [if_pos (by omega)]
      have hnew := (C09.ctor_refuses_writeMem (address + offset) (rest.take MAX_WRITE_BLOCK)).2.1
        (by simp only [U16_MAX]; omega)
      rw [writeBlockLoop]
      simp only [if_neg h0, hadd, hnew]
      by_cases hb : 20 < maxCmd
      · obtain ⟨cs, hcs, hpart⟩ := C10.write_partition p (address + offset)
          (rest.take MAX_WRITE_BLOCK) maxCmd
          (by simp only [Cmd.HEADER_LEN, Cmd.CCD_LEN]; omega) hbu
          (by simp only [U16_MAX]; omega) (by omega)
        have hcs' := hcs
        simp only [Cmd.writeChunks, hnew, Res.bind_ok] at hcs'
        rcases hch : Cmd.WriteMem.chunks ⟨address + offset, rest.take MAX_WRITE_BLOCK,
          (rest.take MAX_WRITE_BLOCK).length, (rest.take MAX_WRITE_BLOCK).length + 8⟩ maxCmd
          with it | e | _
        · rw [hch] at hcs'
          simp only [Res.bind_ok] at hcs'
          have hbuilt : ∀ c ∈ cs, C09.WriteMem.Built c := fun c hc' =>
            (C06.chunkOk_of_facts ⟨maxCmd, 0⟩ c _ _ _ (C06.partition_facts hpart c hc')
              (by simp only [Cmd.HEADER_LEN, Cmd.CCD_LEN]; omega) (by omega) (by omega)).1
          obtain ⟨hinv1, hgen1⟩ := writeChunkLoop_inv hh p _ it s cs hcs' hbuilt hid
          simp only
          rcases hwl : writeChunkLoop dev p ((rest.take MAX_WRITE_BLOCK).length + 1) it s
            with ⟨s1, r1⟩
          rw [hwl] at hinv1 hgen1
          simp only at hinv1 hgen1
          rcases r1 with u | e | _
          · simp only [hadd2]
            obtain ⟨hinv2, hgen2⟩ := ih (offset + (rest.take MAX_WRITE_BLOCK).length)
              (rest.drop MAX_WRITE_BLOCK) s1 (by omega) (by omega) (by omega)
              (by have := hinv1.id16 (by omega); omega)
            refine ⟨hinv1.trans hinv2, ?_⟩
            intro hok
            obtain ⟨⟨evs2, hlog2, hg2⟩, hid2, _⟩ := hgen2 hok
            obtain ⟨⟨evs1, hlog1, hg1⟩, hid1⟩ := hgen1 rfl
            simp only [C06.writeChunkList, if_neg h0, hcs]
            refine ⟨⟨evs2 ++ evs1, by rw [hlog2, hlog1]; simp,
              GenuineWrite.append hid hg1 (by rw [← hid1]; exact hg2)⟩, ?_, fun _ => hb⟩
            rw [hid2, hid1, List.length_append]; omega
          · simp only
            exact ⟨hinv1, fun h => by simp at h⟩
          · exact absurd rfl hinv1.no_panic
        · rw [hch] at hcs'; simp at hcs'
        · rw [hch] at hcs'; simp at hcs'
      · have hch : Cmd.WriteMem.chunks ⟨address + offset, rest.take MAX_WRITE_BLOCK,
            (rest.take MAX_WRITE_BLOCK).length, (rest.take MAX_WRITE_BLOCK).length + 8⟩ maxCmd =
            .err .invalidPacket := by
          have h20 : Cmd.HEADER_LEN + 8 = 20 := rfl
          simp only [Cmd.WriteMem.chunks]
          rw [if_pos (by omega)]
        simp only [hch]
        exact ⟨OpInv.refl _ _ (by simp), fun h => by simp at h⟩

/-! ### `read`, `write`, `open` -/

theorem verifyAddressRange_cases (a n : Nat) :
    (verifyAddressRange a n = .ok () ∧ a + n ≤ 2 ^ 64 ∨ n = 0 ∧ verifyAddressRange a n = .ok ()) ∨
    verifyAddressRange a n = .err .invalidData := by
  simp only [verifyAddressRange]
  by_cases h0 : n = 0
  · simp [h0]
  · rw [if_neg h0]
    by_cases h : a + (n - 1) < 2 ^ 64
    · rw [if_pos h]; left; left; exact ⟨rfl, by omega⟩
    · rw [if_neg h]; right; rfl

theorem read_inv (hh : Honest dev) (p : Profile) (s : St σ) (a n : Nat) (hn : n < 2 ^ 64) :
    OpInv s (Control.read dev p s a n).1 (Control.read dev p s a n).2 ∧
    ∀ bs, (Control.read dev p s a n).2 = .ok bs →
      bs.length = n ∧ s.h.opened = true ∧ 12 < s.h.cfg.maxAck ∧
      ∃ evs, (Control.read dev p s a n).1.logRev = evs ++ s.logRev ∧
        GenuineRead p (min (s.h.cfg.maxAck - 12) 65535) a (n + 1) 0 n s.h.nextReqId bs evs := by
  unfold Control.read
  by_cases hop : s.h.opened = true
  · have hnop : ¬ ((!s.h.opened) = true) := by simp [hop]
    simp only [if_neg hnop]
    rcases verifyAddressRange_cases a n with hv | hv
    · have hvok : verifyAddressRange a n = .ok () := by
        rcases hv with h | h
        · exact h.1
        · exact h.2
      simp only [hvok]
      have h12 : Cmd.ACK_HEADER_LENGTH = 12 := rfl
      by_cases hack : s.h.cfg.maxAck ≤ 12
      · have : (Cmd.ReadMem.mk a 0).chunks s.h.cfg.maxAck = .err .invalidPacket := by
          simp only [Cmd.ReadMem.chunks]; rw [if_pos (by omega)]
        simp only [this]
        exact ⟨OpInv.refl _ _ (by simp), fun bs h => by simp at h⟩
      · have hch : (Cmd.ReadMem.mk a 0).chunks s.h.cfg.maxAck =
            .ok ⟨a, 0, s.h.cfg.maxAck - Cmd.ACK_HEADER_LENGTH⟩ := by
          simp only [Cmd.ReadMem.chunks]; rw [if_neg (by omega)]
        have hm : Cmd.maximumReadLength p s.h.cfg.maxAck =
            .ok (min (s.h.cfg.maxAck - 12) 65535) := by
          rw [C10.maximumReadLength_ok p s.h.cfg.maxAck (by omega)]; rfl
        have hmpos : min (s.h.cfg.maxAck - 12) 65535 ≠ 0 := by omega
        simp only [hch, hm, if_neg hmpos]
        have hsp : a + 0 + n ≤ 2 ^ 64 ∨ n = 0 := by
          rcases hv with h | h
          · left; omega
          · right; exact h.1
        rcases hsp with hsp | hn0
        · obtain ⟨hinv, hgen⟩ := readLoop_inv hh p (min (s.h.cfg.maxAck - 12) 65535) a (by omega)
            (by omega) (n + 1) 0 n s [] (by omega) hsp (by omega)
          refine ⟨hinv, fun bs hbs => ?_⟩
          obtain ⟨d, evs, hd, hl, hlog, hg⟩ := hgen bs hbs
          simp only [List.reverse_nil, List.nil_append] at hd
          subst hd
          exact ⟨hl, hop, by omega, evs, hlog, hg⟩
        · subst hn0
          rw [readLoop]
          simp only [if_true]
          exact ⟨OpInv.refl _ _ (by simp), fun bs hbs => by
            simp only [List.reverse_nil, Res.ok.injEq] at hbs
            subst hbs
            exact ⟨rfl, hop, by omega, [], by simp, by simp [GenuineRead]⟩⟩
    · simp only [hv]
      exact ⟨OpInv.refl _ _ (by simp), fun bs h => by simp at h⟩
  · have hnop : (!s.h.opened) = true := by cases h : s.h.opened <;> simp_all
    simp only [if_pos hnop]
    exact ⟨OpInv.refl _ _ (by simp), fun bs h => by simp at h⟩

theorem write_inv (hh : Honest dev) (p : Profile) (s : St σ) (a : Nat) (data : Bytes)
    (hn : data.length < 2 ^ 64) (hu32 : s.h.cfg.maxCmd < 2 ^ 32) (hid : s.h.nextReqId < 2 ^ 16) :
    OpInv s (Control.write dev p s a data).1 (Control.write dev p s a data).2 ∧
    ((Control.write dev p s a data).2 = .ok () →
      s.h.opened = true ∧ (data ≠ [] → 20 < s.h.cfg.maxCmd) ∧
      ∃ evs, (Control.write dev p s a data).1.logRev = evs ++ s.logRev ∧
        GenuineWrite p (C06.writeChunkList p a s.h.cfg.maxCmd (data.length + 1) 0 data)
          s.h.nextReqId evs) := by
  unfold Control.write
  by_cases hop : s.h.opened = true
  · have hnop : ¬ ((!s.h.opened) = true) := by simp [hop]
    simp only [if_neg hnop]
    rcases verifyAddressRange_cases a data.length with hv | hv
    · have hvok : verifyAddressRange a data.length = .ok () := by
        rcases hv with h | h
        · exact h.1
        · exact h.2
      simp only [hvok]
      have hsp : a + 0 + data.length ≤ 2 ^ 64 ∨ data = [] := by
        rcases hv with h | h
        · left; omega
        · right; exact List.eq_nil_of_length_eq_zero h.1
      rcases hsp with hsp | hn0
      · obtain ⟨hinv, hgen⟩ := writeBlockLoop_inv hh p a s.h.cfg.maxCmd (by omega)
          (data.length + 1) 0 data s (by omega) hsp (by omega) (by omega)
        exact ⟨hinv, fun hok => ⟨hop, (hgen hok).2.2, (hgen hok).1⟩⟩
      · subst hn0
        rw [writeBlockLoop]
        simp only [if_true]
        exact ⟨OpInv.refl _ _ (by simp), fun _ => ⟨hop, fun h => absurd rfl h, [], by simp,
          by simp [C06.writeChunkList, GenuineWrite]⟩⟩
    · simp only [hv]
      exact ⟨OpInv.refl _ _ (by simp), fun h => by simp at h⟩
  · have hnop : (!s.h.opened) = true := by cases h : s.h.opened <;> simp_all
    simp only [if_pos hnop]
    exact ⟨OpInv.refl _ _ (by simp), fun h => by simp at h⟩

/-- invariant of the steps of `open` (the register cache and, at the very end, the
configuration may change; the retry count never does). -/
structure WeakInv {σ α : Type} (s s' : St σ) (r : R α) : Prop where
  no_panic : r ≠ .panic
  retry : s'.h.cfg.retry = s.h.cfg.retry
  opened : s'.h.opened = s.h.opened
  id16 : s.h.nextReqId < 2 ^ 16 → s'.h.nextReqId < 2 ^ 16
  log : ∃ evs, s'.logRev = evs ++ s.logRev ∧ recvCount evs ≤ s.h.cfg.retry * sendCount evs
  ids : ∃ evs, s'.logRev = evs ++ s.logRev ∧ IdsOk s.h.nextReqId s'.h.nextReqId evs
  u32 : s.h.cfg.maxCmd < 2 ^ 32 → s'.h.cfg.maxCmd < 2 ^ 32

theorem WeakInv.of_op {α : Type} {s s' : St σ} {r : R α} (h : OpInv s s' r) : WeakInv s s' r :=
  ⟨h.no_panic, by rw [h.cfg], h.opened, h.id16, by
    obtain ⟨evs, h1, h2, _⟩ := h.log
    exact ⟨evs, h1, h2⟩, h.ids, by rw [h.cfg]; exact id⟩

theorem WeakInv.trans {α β : Type} {s s1 s2 : St σ} {r1 : R α} {r2 : R β}
    (h1 : WeakInv s s1 r1) (h2 : WeakInv s1 s2 r2) : WeakInv s s2 r2 := by
  obtain ⟨_, a2, a3, a5, ⟨e1, l1, c1⟩, ⟨f1, m1, i1⟩, u1⟩ := h1
  obtain ⟨b1, b2, b3, b5, ⟨e2, l2, c2⟩, ⟨f2, m2, i2⟩, u2⟩ := h2
  refine ⟨b1, b2.trans a2, b3.trans a3, fun h => b5 (a5 h), ⟨e2 ++ e1, ?_, ?_⟩,
    ⟨f2 ++ f1, by rw [m2, m1]; simp, i1.trans i2⟩, fun h => u2 (u1 h)⟩
  · rw [l2, l1]; simp
  · rw [recvCount_append, sendCount_append, Nat.mul_add]
    rw [a2] at c2
    omega

theorem WeakInv.change {α β : Type} {s s' : St σ} {r : R α} (h : WeakInv s s' r) (r' : R β)
    (hr : r' ≠ .panic) : WeakInv s s' r' :=
  ⟨hr, h.retry, h.opened, h.id16, h.log, h.ids, h.u32⟩

theorem readReg_inv (hh : Honest dev) (p : Profile) (s : St σ) (addr len : Nat)
    (hl : len < 2 ^ 64) :
    WeakInv s (readReg dev p s addr len).1 (readReg dev p s addr len).2 := by
  obtain ⟨hinv, hgen⟩ := read_inv hh p s addr len hl
  unfold readReg
  rcases hrd : Control.read dev p s addr len with ⟨s1, r1⟩
  rw [hrd] at hinv hgen
  simp only at hinv hgen
  rcases r1 with bs | e | _
  · simp only
    have := (hgen bs rfl).1
    rw [if_neg (by omega)]
    exact (WeakInv.of_op hinv).change _ (by simp)
  · exact (WeakInv.of_op hinv).change _ (by simp)
  · exact absurd rfl hinv.no_panic

theorem readReg_lt {dev : Dev σ} (p : Profile) (s s' : St σ) (addr len v : Nat)
    (h : readReg dev p s addr len = (s', .ok v)) : v < 256 ^ len := by
  unfold readReg at h
  rcases hr : Control.read dev p s addr len with ⟨s1, r1⟩
  rw [hr] at h
  rcases r1 with bs | e | _
  · simp only at h
    by_cases hl : bs.length = len
    · simp only [hl, ne_eq, not_true_eq_false, if_false, Prod.mk.injEq, Res.ok.injEq] at h
      rw [← h.2, ← hl]
      exact fromLE_lt bs
    · simp [hl] at h
  · simp at h
  · simp at h

theorem readSbrmReg_lt {dev : Dev σ} (p : Profile) (s s' : St σ) (sbrm : Nat) (reg : Nat × Nat)
    (v : Nat) (h : readSbrmReg dev p s sbrm reg = (s', .ok v)) : v < 256 ^ reg.2 := by
  unfold readSbrmReg registerAddress at h
  by_cases hb : sbrm + reg.1 < 2 ^ 64
  · simp only [if_pos hb] at h
    exact readReg_lt p s s' _ _ v h
  · simp [if_neg hb] at h

theorem readSbrmReg_inv (hh : Honest dev) (p : Profile) (s : St σ) (sbrm : Nat) (reg : Nat × Nat)
    (hl : reg.2 < 2 ^ 64) :
    WeakInv s (readSbrmReg dev p s sbrm reg).1 (readSbrmReg dev p s sbrm reg).2 := by
  unfold readSbrmReg registerAddress
  by_cases h : sbrm + reg.1 < 2 ^ 64
  · simp only [if_pos h]
    exact readReg_inv hh p s _ _ hl
  · simp only [if_neg h]
    exact ⟨by simp, rfl, rfl, id, ⟨[], by simp, by simp [recvCount]⟩, ⟨[], by simp, IdsOk.nil _⟩, id⟩

theorem abrm_inv (hh : Honest dev) (p : Profile) (s : St σ) :
    WeakInv s (abrm dev p s).1 (abrm dev p s).2 := by
  unfold abrm
  cases hab : s.h.abrm with
  | some v => exact ⟨by simp, rfl, rfl, id, ⟨[], by simp, by simp [recvCount]⟩, ⟨[], by simp, IdsOk.nil _⟩, id⟩
  | none =>
    simp only
    have := readReg_inv hh p s ABRM_DEVICE_CAPABILITY.1 ABRM_DEVICE_CAPABILITY.2 (by decide)
    rcases hrr : readReg dev p s ABRM_DEVICE_CAPABILITY.1 ABRM_DEVICE_CAPABILITY.2 with ⟨s1, r1⟩
    rw [hrr] at this
    simp only at this
    rcases r1 with v | e | _
    · exact ⟨by simp, this.retry, this.opened, this.id16, this.log, this.ids, this.u32⟩
    · exact this.change _ (by simp)
    · exact absurd rfl this.no_panic

theorem initializeConfig_inv (hh : Honest dev) (p : Profile) (s : St σ) :
    WeakInv s (initializeConfig dev p s).1 (initializeConfig dev p s).2 := by
  unfold initializeConfig
  have h1 := abrm_inv hh p s
  rcases e1 : abrm dev p s with ⟨s1, r1⟩
  rw [e1] at h1; simp only at h1
  rcases r1 with v1 | e | _
  · simp only
    have h2 := readReg_inv hh p s1 ABRM_SBRM_ADDRESS.1 ABRM_SBRM_ADDRESS.2 (by decide)
    rcases e2 : readReg dev p s1 ABRM_SBRM_ADDRESS.1 ABRM_SBRM_ADDRESS.2 with ⟨s2, r2⟩
    rw [e2] at h2; simp only at h2
    rcases r2 with sbrm | e | _
    · simp only
      have h3 := readSbrmReg_inv hh p s2 sbrm SBRM_U3VCP_CAPABILITY_REGISTER (by decide)
      rcases e3 : readSbrmReg dev p s2 sbrm SBRM_U3VCP_CAPABILITY_REGISTER with ⟨s3, r3⟩
      rw [e3] at h3; simp only at h3
      rcases r3 with v3 | e | _
      · simp only
        have h4 := readReg_inv hh p s3 ABRM_MAXIMUM_DEVICE_RESPONSE_TIME.1
          ABRM_MAXIMUM_DEVICE_RESPONSE_TIME.2 (by decide)
        rcases e4 : readReg dev p s3 ABRM_MAXIMUM_DEVICE_RESPONSE_TIME.1
          ABRM_MAXIMUM_DEVICE_RESPONSE_TIME.2 with ⟨s4, r4⟩
        rw [e4] at h4; simp only at h4
        rcases r4 with tmo | e | _
        · simp only
          have h5 := readSbrmReg_inv hh p s4 sbrm SBRM_MAXIMUM_COMMAND_TRANSFER_LENGTH (by decide)
          rcases e5 : readSbrmReg dev p s4 sbrm SBRM_MAXIMUM_COMMAND_TRANSFER_LENGTH with ⟨s5, r5⟩
          rw [e5] at h5; simp only at h5
          rcases r5 with mc | e | _
          · simp only
            have h6 := readSbrmReg_inv hh p s5 sbrm SBRM_MAXIMUM_ACKNOWLEDGE_TRANSFER_LENGTH
              (by decide)
            rcases e6 : readSbrmReg dev p s5 sbrm SBRM_MAXIMUM_ACKNOWLEDGE_TRANSFER_LENGTH
              with ⟨s6, r6⟩
            rw [e6] at h6; simp only at h6
            have hall := (((((h1.trans h2).trans h3).trans h4).trans h5).trans h6)
            rcases r6 with ma | e | _
            · have hmc := readSbrmReg_lt p s4 s5 sbrm SBRM_MAXIMUM_COMMAND_TRANSFER_LENGTH mc e5
              exact ⟨by simp, hall.retry, hall.opened, hall.id16, hall.log, hall.ids,
                fun _ => by simpa [SBRM_MAXIMUM_COMMAND_TRANSFER_LENGTH] using hmc⟩
            · exact hall.change _ (by simp)
            · exact absurd rfl h6.no_panic
          · exact ((((h1.trans h2).trans h3).trans h4).trans h5).change _ (by simp)
          · exact absurd rfl h5.no_panic
        · exact (((h1.trans h2).trans h3).trans h4).change _ (by simp)
        · exact absurd rfl h4.no_panic
      · exact ((h1.trans h2).trans h3).change _ (by simp)
      · exact absurd rfl h3.no_panic
    · exact (h1.trans h2).change _ (by simp)
    · exact absurd rfl h2.no_panic
  · exact h1.change _ (by simp)
  · exact absurd rfl h1.no_panic

theorem ctlReq_inv (s : St σ) (r : CtlReq) :
    WeakInv s (ctlReq dev s r).1 (ctlReq dev s r).2 ∧
    ((ctlReq dev s r).2 = .ok () ∨ ∃ t ue, Ev.ctl r t (some ue) ∈ (ctlReq dev s r).1.logRev) := by
  unfold ctlReq
  rcases h : dev.ctl s.d r with ⟨d, e⟩
  cases e with
  | none =>
    exact ⟨⟨by simp, rfl, rfl, id, ⟨[.ctl r (ctlTimeout s.h.cfg r) none], by simp [St.push], by simp [recvCount]⟩,
      ⟨[.ctl r (ctlTimeout s.h.cfg r) none], by simp [St.push], IdsOk.nosend _ _ (by simp [sendCount])⟩, id⟩,
      Or.inl rfl⟩
  | some ue =>
    exact ⟨⟨by simp, rfl, rfl, id, ⟨[.ctl r (ctlTimeout s.h.cfg r) (some ue)], by simp [St.push], by simp [recvCount]⟩,
      ⟨[.ctl r (ctlTimeout s.h.cfg r) (some ue)], by simp [St.push], IdsOk.nosend _ _ (by simp [sendCount])⟩, id⟩,
      Or.inr ⟨ctlTimeout s.h.cfg r, ue, by simp [St.push]⟩⟩

theorem initializeChannel_inv (hh : Honest dev) (p : Profile) (s : St σ) :
    WeakInv s (initializeChannel dev p s).1 (initializeChannel dev p s).2 := by
  unfold initializeChannel
  have h1 := (ctlReq_inv (dev := dev) s .setHaltIn).1
  rcases e1 : ctlReq dev s .setHaltIn with ⟨s1, r1⟩
  rw [e1] at h1; simp only at h1
  rcases r1 with u | e | _
  · simp only
    have h2 := (ctlReq_inv (dev := dev) s1 .setHaltOut).1
    rcases e2 : ctlReq dev s1 .setHaltOut with ⟨s2, r2⟩
    rw [e2] at h2; simp only at h2
    rcases r2 with u | e | _
    · simp only
      have h3 := (ctlReq_inv (dev := dev) s2 .clearHaltIn).1
      rcases e3 : ctlReq dev s2 .clearHaltIn with ⟨s3, r3⟩
      rw [e3] at h3; simp only at h3
      rcases r3 with u | e | _
      · simp only
        have h4 := (ctlReq_inv (dev := dev) s3 .clearHaltOut).1
        rcases e4 : ctlReq dev s3 .clearHaltOut with ⟨s4, r4⟩
        rw [e4] at h4; simp only at h4
        rcases r4 with u | e | _
        · simp only
          have h5 := initializeConfig_inv hh p ({ s4 with h := { s4.h with cfg := { s4.h.cfg with
            maxCmd := Config.default.maxCmd, maxAck := Config.default.maxAck } } } : St σ)
          have h45 : WeakInv s4 (initializeConfig dev p ({ s4 with h := { s4.h with cfg :=
              { s4.h.cfg with maxCmd := Config.default.maxCmd, maxAck := Config.default.maxAck } } } :
              St σ)).1 (initializeConfig dev p ({ s4 with h := { s4.h with cfg := { s4.h.cfg with
              maxCmd := Config.default.maxCmd, maxAck := Config.default.maxAck } } } : St σ)).2 :=
            ⟨h5.no_panic, h5.retry, h5.opened, h5.id16, h5.log, h5.ids,
              fun _ => h5.u32 (by show (128 : Nat) < 2 ^ 32; omega)⟩
          exact (((h1.trans h2).trans h3).trans h4).trans h45
        · exact ((h1.trans h2).trans h3).trans h4
        · exact absurd rfl h4.no_panic
      · exact (h1.trans h2).trans h3
      · exact absurd rfl h3.no_panic
    · exact h1.trans h2
    · exact absurd rfl h2.no_panic
  · exact h1
  · exact absurd rfl h1.no_panic

/-- `open`, whatever the device does. -/
theorem open_inv (hh : Honest dev) (p : Profile) (s : St σ) :
    (Control.open dev p s).2 ≠ .panic ∧
    (Control.open dev p s).1.h.cfg.retry = s.h.cfg.retry ∧
    (s.h.nextReqId < 2 ^ 16 → (Control.open dev p s).1.h.nextReqId < 2 ^ 16) ∧
    (∃ evs, (Control.open dev p s).1.logRev = evs ++ s.logRev ∧
      recvCount evs ≤ s.h.cfg.retry * sendCount evs) ∧
    ((Control.open dev p s).2 = .ok () → (Control.open dev p s).1.h.opened = true) ∧
    (∀ e, (Control.open dev p s).2 = .err e → s.h.opened = false →
      (Control.open dev p s).1.h.opened = false ∨
      ∃ t ue, Ev.ctl .release t (some ue) ∈ (Control.open dev p s).1.logRev) := by
  unfold Control.open
  by_cases hop : s.h.opened = true
  · simp only [if_pos hop]
    exact ⟨by simp, trivial, id, ⟨[], by simp, by simp [recvCount]⟩, fun _ => hop,
      fun e h => by simp at h⟩
  · have hop' : s.h.opened = false := by cases h : s.h.opened <;> simp_all
    simp only [if_neg hop]
    have h1 := (ctlReq_inv (dev := dev) s .claim).1
    rcases e1 : ctlReq dev s .claim with ⟨s1, r1⟩
    rw [e1] at h1; simp only at h1
    obtain ⟨_, a2, a3, a5, ⟨ev1, l1, c1⟩⟩ := h1
    rcases r1 with u | e | _
    · simp only
      have h2 := initializeChannel_inv hh p ({ s1 with h := { s1.h with opened := true } } : St σ)
      rcases e2 : initializeChannel dev p ({ s1 with h := { s1.h with opened := true } } : St σ)
        with ⟨s2, r2⟩
      rw [e2] at h2; simp only at h2
      obtain ⟨b1, b2, b3, b5, ⟨ev2, l2, c2⟩⟩ := h2
      simp only at b2 b3 b5 l2 c2
      rcases r2 with u | e | _
      · simp only
        refine ⟨by simp, b2.trans a2, fun h => b5 (a5 h), ⟨ev2 ++ ev1, ?_, ?_⟩, fun _ => b3,
          fun e h => by simp at h⟩
        · rw [l2, l1]; simp
        · rw [recvCount_append, sendCount_append, Nat.mul_add]; rw [a2] at c2; omega
      · simp only
        obtain ⟨h3, h3r⟩ := ctlReq_inv (dev := dev) s2 .release
        rcases e3 : ctlReq dev s2 .release with ⟨s3, r3⟩
        rw [e3] at h3 h3r; simp only at h3 h3r
        obtain ⟨d1, d2, d3, d5, ⟨ev3, l3, c3⟩⟩ := h3
        have hlog : ∃ evs, s3.logRev = evs ++ s.logRev ∧
            recvCount evs ≤ s.h.cfg.retry * sendCount evs := by
          refine ⟨ev3 ++ (ev2 ++ ev1), ?_, ?_⟩
          · rw [l3, l2, l1]; simp
          · rw [recvCount_append, sendCount_append, recvCount_append, sendCount_append,
              Nat.mul_add, Nat.mul_add]
            rw [b2, a2] at c3; rw [a2] at c2
            omega
        rcases r3 with u | e3' | _
        · simp only
          exact ⟨by simp, (d2.trans b2).trans a2, fun h => d5 (b5 (a5 h)), hlog,
            fun h => by simp at h, fun _ _ _ => Or.inl trivial⟩
        · simp only
          refine ⟨by simp, (d2.trans b2).trans a2, fun h => d5 (b5 (a5 h)), hlog,
            fun h => by simp at h, fun _ _ _ => Or.inr ?_⟩
          rcases h3r with h | h
          · simp at h
          · exact h
        · exact absurd rfl d1
      · exact absurd rfl b1
    · simp only
      exact ⟨by simp, a2, a5, ⟨ev1, l1, c1⟩, fun h => by simp at h,
        fun e' _ _ => Or.inl (by rw [a3]; exact hop')⟩
    · simp only at *
      rename_i hnp
      exact absurd rfl hnp

/-- request-id accounting and the u32 range of `maximum_cmd_length` across `open` -/
theorem open_ids (hh : Honest dev) (p : Profile) (s : St σ) :
    (∃ evs, (Control.open dev p s).1.logRev = evs ++ s.logRev ∧
      IdsOk s.h.nextReqId (Control.open dev p s).1.h.nextReqId evs) ∧
    (s.h.cfg.maxCmd < 2 ^ 32 → (Control.open dev p s).1.h.cfg.maxCmd < 2 ^ 32) := by
  unfold Control.open
  by_cases hop : s.h.opened = true
  · simp only [if_pos hop]
    exact ⟨⟨[], by simp, IdsOk.nil _⟩, id⟩
  · simp only [if_neg hop]
    have h1 := (ctlReq_inv (dev := dev) s .claim).1
    rcases e1 : ctlReq dev s .claim with ⟨s1, r1⟩
    rw [e1] at h1; simp only at h1
    obtain ⟨f1, m1, i1⟩ := h1.ids
    have u1 := h1.u32
    rcases r1 with u | e | _
    · simp only
      have h2 := initializeChannel_inv hh p ({ s1 with h := { s1.h with opened := true } } : St σ)
      rcases e2 : initializeChannel dev p ({ s1 with h := { s1.h with opened := true } } : St σ)
        with ⟨s2, r2⟩
      rw [e2] at h2; simp only at h2
      obtain ⟨f2, m2, i2⟩ := h2.ids
      have u2 := h2.u32
      simp only at m2 i2 u2
      have h12 : ∃ evs, s2.logRev = evs ++ s.logRev ∧ IdsOk s.h.nextReqId s2.h.nextReqId evs :=
        ⟨f2 ++ f1, by rw [m2, m1]; simp, i1.trans i2⟩
      rcases r2 with u | e | _
      · exact ⟨h12, fun h => u2 (u1 h)⟩
      · simp only
        have h3 := (ctlReq_inv (dev := dev) s2 .release).1
        rcases e3 : ctlReq dev s2 .release with ⟨s3, r3⟩
        rw [e3] at h3; simp only at h3
        obtain ⟨f3, m3, i3⟩ := h3.ids
        have u3 := h3.u32
        have h13 : ∃ evs, s3.logRev = evs ++ s.logRev ∧ IdsOk s.h.nextReqId s3.h.nextReqId evs :=
          ⟨f3 ++ (f2 ++ f1), by rw [m3, m2, m1]; simp, (i1.trans i2).trans i3⟩
        rcases r3 with u | e3' | _
        · exact ⟨h13, fun h => u3 (u2 (u1 h))⟩
        · exact ⟨h13, fun h => u3 (u2 (u1 h))⟩
        · exact ⟨h13, fun h => u3 (u2 (u1 h))⟩
      · exact ⟨h12, fun h => u2 (u1 h)⟩
    · exact ⟨⟨f1, m1, i1⟩, u1⟩
    · exact ⟨⟨f1, m1, i1⟩, u1⟩

/-! ### recovery: the device conforms again but still has stale acknowledges queued -/

section Recovery
open CamVerif.Spec.Conf
variable {σ2 M : Type} [MemLike M] {dev2 : Dev σ2} {view2 : σ2 → View M} {lim : Limits}
  {plan : Nat → Nat} {ms : Nat}

/-- what recovery needs of the handle and of the (now conforming) device -/
structure Recoverable (p : Profile) (view2 : σ2 → View M) (s : St σ2) (lim : Limits)
    (plan : Nat → Nat) (ms : Nat) (stale : List Bytes) : Prop where
  opened : s.h.opened = true
  maxCmd : s.h.cfg.maxCmd = lim.maxCmd
  maxAck : s.h.cfg.maxAck = lim.maxAck
  id16 : s.h.nextReqId < 2 ^ 16
  ms16 : ms < 2 ^ 16
  /-- the stale acknowledges and the pending acknowledges together stay below the retry count -/
  budget : ∀ i, stale.length + plan i < s.h.cfg.retry
  queue : (view2 s.d).queue = stale
  /-- the stale packets are well-formed acknowledges of OTHER commands that fit the buffer -/
  stale_ok : C06.StaleOk p s.h.nextReqId s.h.bufLen stale

theorem read_conforming_stale (hc : Conforming dev2 view2 lim plan ms) (p : Profile) (s : St σ2)
    (stale : List Bytes) (a n : Nat) (hr : Recoverable p view2 s lim plan ms stale)
    (hsp : a + n ≤ 2 ^ 64) (hn : n < 2 ^ 64) (hcmd : 24 ≤ lim.maxCmd) (hack : 12 < lim.maxAck) :
    ∃ s', Control.read dev2 p s a n = (s', .ok (readRange (view2 s.d).mem a n)) ∧
      (view2 s'.d).mem = (view2 s.d).mem ∧
      (view2 s'.d).queue = (if n = 0 then stale else []) ∧
      s'.h.cfg = s.h.cfg ∧ s'.h.opened = true ∧ s'.h.nextReqId < 2 ^ 16 := by
  have hm : Cmd.maximumReadLength p lim.maxAck = .ok ((min (lim.maxAck - 12) 65535)) := by
    rw [C10.maximumReadLength_ok p lim.maxAck (by simp only [Cmd.ACK_HEADER_LENGTH]; omega)]
    simp only [Cmd.ACK_HEADER_LENGTH, U16_MAX, Nat.reduceAdd]
  have hmpos : 0 < (min (lim.maxAck - 12) 65535) := by omega
  have hm16 : (min (lim.maxAck - 12) 65535) < 2 ^ 16 := by omega
  have hmack : 12 + (min (lim.maxAck - 12) 65535) ≤ lim.maxAck := by omega
  obtain ⟨s', hs', hmem, hq, hcfg, hop, hid⟩ :=
    C06.readLoop_conforming_stale hc p ((min (lim.maxAck - 12) 65535)) a hmpos hm16 hmack hcmd hr.ms16
      s.h.cfg.retry stale hr.budget lim.maxCmd hcmd (n + 1) 0 n s [] (by omega) (by omega)
      (by omega) hr.id16 rfl hr.maxCmd hr.queue hr.stale_ok
  refine ⟨s', ?_, hmem, hq, hcfg, by rw [hop]; exact hr.opened, hid⟩
  have hva : verifyAddressRange a n = .ok () := by
    simp only [verifyAddressRange]
    by_cases h0 : n = 0
    · simp [h0]
    · rw [if_neg h0, if_pos (by omega)]
  have hch : (Cmd.ReadMem.mk a 0).chunks lim.maxAck =
      .ok ⟨a, 0, lim.maxAck - Cmd.ACK_HEADER_LENGTH⟩ := by
    have h12 : Cmd.ACK_HEADER_LENGTH = 12 := rfl
    simp only [Cmd.ReadMem.chunks]
    rw [if_neg (by omega)]
  simp only [Control.read, hr.opened, Bool.not_true, Bool.false_eq_true, if_false, hva,
    hr.maxAck, hch, hm, if_neg (Nat.ne_of_gt hmpos)]
  simpa using hs'

theorem write_conforming_stale (hc : Conforming dev2 view2 lim plan ms) (p : Profile)
    (s : St σ2) (stale : List Bytes) (a : Nat) (data : Bytes)
    (hr : Recoverable p view2 s lim plan ms stale) (hsp : a + data.length ≤ 2 ^ 64)
    (hn : data.length < 2 ^ 64) (hcmd : 20 < lim.maxCmd) (hu32 : lim.maxCmd < 2 ^ 32)
    (hack : 16 ≤ lim.maxAck) :
    ∃ s', Control.write dev2 p s a data = (s', .ok ()) ∧
      (view2 s'.d).mem = writeRange (view2 s.d).mem a data ∧
      (view2 s'.d).queue = (if data = [] then stale else []) ∧
      s'.h.cfg = s.h.cfg ∧ s'.h.opened = true := by
  obtain ⟨s', hs', hmem, hq, hcfg, hop⟩ :=
    C06.writeBlockLoop_conforming_stale hc p a hcmd (by omega) hack hr.ms16 s.h.cfg.retry stale
      hr.budget (data.length + 1) 0 data s (by omega) (by omega) (by omega) hr.id16 rfl
      hr.maxCmd hr.queue hr.stale_ok
  refine ⟨s', ?_, by simpa using hmem, hq, hcfg, by rw [hop]; exact hr.opened⟩
  have hva : verifyAddressRange a data.length = .ok () := by
    simp only [verifyAddressRange]
    by_cases h0 : data.length = 0
    · simp [h0]
    · rw [if_neg h0, if_pos (by omega)]
  simp only [Control.write, hr.opened, Bool.not_true, Bool.false_eq_true, if_false, hva,
    hr.maxCmd]
  exact hs'

end Recovery

end

end CamVerif.C07
