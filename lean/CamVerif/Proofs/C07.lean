/-
Helper lemmas for C07: one `send_cmd` transaction against an ARBITRARY transport.
Totality (never `panic`), frame (what of the handle can change), pending bound (number of
receives) and genuineness of an `ok` result, all in one invariant per function.
-/
import CamVerif.Model.Control
import CamVerif.Props.C08
import CamVerif.Props.C09
import CamVerif.Props.C10
import CamVerif.Proofs.C06Ops
namespace CamVerif.C07
open CamVerif CamVerif.Control

/-- number of bulk-in transfers in a log -/
def recvCount : List Ev → Nat
  | [] => 0
  | .recv .. :: r => recvCount r + 1
  | _ :: r => recvCount r

/-- number of bulk-out transfers in a log -/
def sendCount : List Ev → Nat
  | [] => 0
  | .send .. :: r => sendCount r + 1
  | _ :: r => sendCount r

theorem recvCount_append (xs ys : List Ev) : recvCount (xs ++ ys) = recvCount xs + recvCount ys := by
  induction xs with
  | nil => simp [recvCount]
  | cons e xs ih => cases e <;> simp [recvCount, ih] <;> omega

theorem sendCount_append (xs ys : List Ev) : sendCount (xs ++ ys) = sendCount xs + sendCount ys := by
  induction xs with
  | nil => simp [sendCount]
  | cons e xs ih => cases e <;> simp [sendCount, ih] <;> omega

/-- The transport never reports more received bytes than the buffer it was given holds
(a libusb bulk transfer cannot; an oversized device packet is `LIBUSB_ERROR_OVERFLOW`). -/
def Honest {σ : Type} (dev : Dev σ) : Prop :=
  ∀ (st : σ) (n : Nat) (b : Bytes), (dev.recv st n).2 = .ok b → b.length ≤ n

/-- `bytes` is a well-formed acknowledge with status Success, the request id `id`, the kind
`kind`, whose typed SCD view is `v`. -/
def Genuine {α : Type} (p : Profile) (id : Nat) (kind : Ack.ScdKind)
    (scdAs : Ack.AckPacket → Ack.R α) (v : α) (bytes : Bytes) : Prop :=
  ∃ ack, Ack.AckPacket.parse p bytes = .ok ack ∧ ack.ccd.status.kind = .genCp .success ∧
    ack.ccd.requestId = id ∧ ack.ccd.scdKind = kind ∧ scdAs ack = .ok v

/-- What one `recvLoop` / `sendCmd` may do, whatever the device does. -/
structure TxnInv {σ α : Type} (p : Profile) (scdAs : Ack.AckPacket → Ack.R α)
    (kind : Ack.ScdKind) (retry nsend : Nat) (s s' : St σ) (r : R α) : Prop where
  no_panic : r ≠ .panic
  cfg : s'.h.cfg = s.h.cfg
  opened : s'.h.opened = s.h.opened
  abrm : s'.h.abrm = s.h.abrm
  buf : s.h.bufLen ≤ s'.h.bufLen
  id_err : (∀ v, r ≠ .ok v) →
    s'.h.nextReqId = s.h.nextReqId ∨ s'.h.nextReqId = (s.h.nextReqId + 1) % 2 ^ 16
  log : ∃ evs, s'.logRev = evs ++ s.logRev ∧ recvCount evs ≤ retry ∧ sendCount evs = nsend
  genuine : ∀ v, r = .ok v → s'.h.nextReqId = (s.h.nextReqId + 1) % 2 ^ 16 ∧
    ∃ bufLen bytes, .recv bufLen (.ok bytes) ∈ s'.logRev ∧ bytes.length ≤ bufLen ∧
      Genuine p s.h.nextReqId kind scdAs v bytes

section
variable {σ α : Type} {dev : Dev σ}

theorem recvLoop_inv (hh : Honest dev) (p : Profile) (scdAs : Ack.AckPacket → Ack.R α)
    (hscd : ∀ a, scdAs a ≠ .panic) (kind : Ack.ScdKind) :
    ∀ (retry : Nat) (s : St σ),
      TxnInv p scdAs kind retry 0 s (recvLoop dev p scdAs kind retry s).1
        (recvLoop dev p scdAs kind retry s).2 := by
  intro retry
  induction retry with
  | zero =>
    intro s
    simp only [recvLoop]
    exact ⟨by simp, rfl, rfl, rfl, Nat.le_refl _, fun _ => Or.inl rfl,
      ⟨[], by simp, by simp [recvCount], by simp [sendCount]⟩, fun v h => by simp at h⟩
  | succ r ih =>
    intro s
    rcases hrecv : dev.recv s.d s.h.bufLen with ⟨d, res⟩
    have hhon := hh s.d s.h.bufLen
    rw [hrecv] at hhon
    simp only at hhon
    -- the state after logging the receive
    have base : ∀ (e : CErr), TxnInv p scdAs kind (r + 1) 0 s
        ((({ s with d := d } : St σ)).push (.recv s.h.bufLen res)) (.err e) :=
      fun e => ⟨by simp, rfl, rfl, rfl, Nat.le_refl _, fun _ => Or.inl rfl,
        ⟨[.recv s.h.bufLen res], by simp [St.push], by simp [recvCount], by simp [sendCount]⟩,
        fun v h => by simp at h⟩
    cases res with
    | error e =>
      simp only [recvLoop, hrecv]
      exact base _
    | ok bytes =>
      have hlen := hhon bytes rfl
      simp only [recvLoop, hrecv, St.push]
      rw [if_neg (by omega)]
      have hpt := C08.ack_parse_total p bytes
      rcases hparse : Ack.AckPacket.parse p bytes with ack | e | _
      · simp only
        -- verify_ack
        by_cases hst : ack.ccd.status.kind = .genCp .success
        · by_cases hid : ack.ccd.requestId = s.h.nextReqId
          · simp only [verifyAck, hst, ne_eq, not_true_eq_false, if_false, hid]
            by_cases hpend : ack.ccd.scdKind = .pending
            · simp only [hpend, if_true]
              have hvt := (C08.ack_views_total p ack.rawScd ack.ccd).2.2.1
              rcases hpp : Ack.Pending.parse ack.rawScd ack.ccd with ms | e | _
              · simp only
                have := ih (((({ s with d := d } : St σ)).push (.recv s.h.bufLen (.ok bytes))).push
                  (.sleep ms))
                simp only [St.push] at this
                obtain ⟨h1, h2, h3, h4, h5, h6, ⟨evs, hl, hrc, hsc⟩, h8⟩ := this
                refine ⟨h1, h2, h3, h4, h5, h6, ⟨evs ++ [.sleep ms, .recv s.h.bufLen (.ok bytes)], ?_, ?_, ?_⟩, h8⟩
                · rw [hl]; simp
                · rw [recvCount_append]; simp only [recvCount]; omega
                · rw [sendCount_append]; simp only [sendCount]; omega
              · exact base _
              · exact absurd hpp hvt
            · simp only [hpend, if_false]
              by_cases hk : ack.ccd.scdKind = kind
              · simp only [hk, ne_eq, not_true_eq_false, if_false, hparse]
                have hs := hscd ack
                rcases hsa : scdAs ack with v | e | _
                · simp only
                  refine ⟨by simp, rfl, rfl, rfl, Nat.le_refl _, fun h => absurd rfl (h v),
                    ⟨[.recv s.h.bufLen (.ok bytes)], by simp, by simp [recvCount],
                      by simp [sendCount]⟩, ?_⟩
                  intro v' hv'
                  simp only [Res.ok.injEq] at hv'
                  subst hv'
                  exact ⟨rfl, s.h.bufLen, bytes, by simp, hlen, ack, hparse, hst, hid, hk, hsa⟩
                · simp only
                  exact ⟨by simp, rfl, rfl, rfl, Nat.le_refl _, fun _ => Or.inr rfl,
                    ⟨[.recv s.h.bufLen (.ok bytes)], by simp, by simp [recvCount],
                      by simp [sendCount]⟩, fun v h => by simp at h⟩
                · exact absurd hsa hs
              · simp only [ne_eq, hk, not_false_eq_true, if_true]
                exact base _
          · simp only [verifyAck, hst, ne_eq, not_true_eq_false, if_false, hid, not_false_eq_true,
              if_true]
            exact base _
        · simp only [verifyAck, ne_eq, hst, not_false_eq_true, if_true]
          exact base _
      · simp only
        exact base _
      · exact absurd hparse hpt

/-- the two typed views `read` / `write` use never panic -/
theorem readView_total (a : Ack.AckPacket) : Ack.ReadMem.parse a.rawScd a.ccd ≠ .panic :=
  (C08.ack_views_total .dev a.rawScd a.ccd).1

theorem writeView_total (a : Ack.AckPacket) : Ack.WriteMem.parse a.rawScd a.ccd ≠ .panic :=
  (C08.ack_views_total .dev a.rawScd a.ccd).2.1

theorem sendCmd_inv (hh : Honest dev) (p : Profile) (scdAs : Ack.AckPacket → Ack.R α)
    (hscd : ∀ a, scdAs a ≠ .panic) (s : St σ) (c : Cmd.Cmd) (hcons : C09.Constructible p c) :
    (TxnInv p scdAs (ackKindOf c) s.h.cfg.retry 1 s (sendCmd dev p scdAs s c).1
        (sendCmd dev p scdAs s c).2) ∧
    (∃ e, .send (c.serialize s.h.nextReqId) e ∈ (sendCmd dev p scdAs s c).1.logRev) := by
  have hlen := (C09.len_agree p c s.h.nextReqId hcons).1
  have hsink := (C09.sink_exact c s.h.nextReqId (max s.h.bufLen (max c.cmdLen c.maximumAckLen))).2.2.1
    (by rw [hlen]; omega)
  rcases hsd : dev.send s.d (c.serialize s.h.nextReqId) with ⟨d, r⟩
  simp only [sendCmd, C06.bufGrow_eq, hsink, hlen, ne_eq, not_true_eq_false, if_false, hsd]
  cases r with
  | some e =>
    simp only [St.push]
    exact ⟨⟨by simp, rfl, rfl, rfl, by simp only; omega, fun _ => Or.inl rfl,
      ⟨[.send (c.serialize s.h.nextReqId) (some e)], by simp, by simp [recvCount],
        by simp [sendCount]⟩, fun v h => by simp at h⟩, ⟨some e, by simp⟩⟩
  | none =>
    simp only
    have := recvLoop_inv hh p scdAs hscd (ackKindOf c) s.h.cfg.retry
      (⟨{ s.h with bufLen := max s.h.bufLen (max c.cmdLen c.maximumAckLen) }, d,
        .send (c.serialize s.h.nextReqId) none :: s.logRev⟩ : St σ)
    simp only [St.push] at this ⊢
    obtain ⟨h1, h2, h3, h4, h5, h6, ⟨evs, hl, hrc, hsc⟩, h8⟩ := this
    refine ⟨⟨h1, h2, h3, h4, by simp only at h5; omega, h6,
      ⟨evs ++ [.send (c.serialize s.h.nextReqId) none], ?_, ?_, ?_⟩, h8⟩, ⟨none, ?_⟩⟩
    · rw [hl]; simp
    · rw [recvCount_append]; simp only [recvCount]; omega
    · rw [sendCount_append]; simp only [sendCount]; omega
    · rw [hl]; simp

end

/-! ## Whole operations against an arbitrary transport -/

/-- What `read` / `write` / the loops may do to the handle, whatever the device does. -/
structure OpInv {σ α : Type} (s s' : St σ) (r : R α) : Prop where
  no_panic : r ≠ .panic
  cfg : s'.h.cfg = s.h.cfg
  opened : s'.h.opened = s.h.opened
  abrm : s'.h.abrm = s.h.abrm
  id16 : s.h.nextReqId < 2 ^ 16 → s'.h.nextReqId < 2 ^ 16
  log : ∃ evs, s'.logRev = evs ++ s.logRev ∧ recvCount evs ≤ s.h.cfg.retry * sendCount evs

theorem OpInv.refl {σ α : Type} (s : St σ) (r : R α) (h : r ≠ .panic) : OpInv s s r :=
  ⟨h, rfl, rfl, rfl, id, ⟨[], by simp, by simp [recvCount]⟩⟩

theorem OpInv.of_txn {σ α β : Type} {p : Profile} {scdAs : Ack.AckPacket → Ack.R α}
    {kind : Ack.ScdKind} {s s' : St σ} {r : R α} (h : TxnInv p scdAs kind s.h.cfg.retry 1 s s' r)
    (r' : R β) (hr : r' ≠ .panic) : OpInv s s' r' := by
  obtain ⟨_, h2, h3, h4, _, h6, ⟨evs, hl, hrc, hsc⟩, h8⟩ := h
  refine ⟨hr, h2, h3, h4, ?_, ⟨evs, hl, by rw [hsc]; omega⟩⟩
  intro hid
  rcases r with v | e | _
  · rw [(h8 v rfl).1]; exact Nat.mod_lt _ (by omega)
  · rcases h6 (fun v => by simp) with h | h
    · rw [h]; exact hid
    · rw [h]; exact Nat.mod_lt _ (by omega)
  · rcases h6 (fun v => by simp) with h | h
    · rw [h]; exact hid
    · rw [h]; exact Nat.mod_lt _ (by omega)

theorem OpInv.trans {σ α β : Type} {s s1 s2 : St σ} {r1 : R α} {r2 : R β}
    (h1 : OpInv s s1 r1) (h2 : OpInv s1 s2 r2) : OpInv s s2 r2 := by
  obtain ⟨_, a2, a3, a4, a5, ⟨e1, l1, c1⟩⟩ := h1
  obtain ⟨b1, b2, b3, b4, b5, ⟨e2, l2, c2⟩⟩ := h2
  refine ⟨b1, b2.trans a2, b3.trans a3, b4.trans a4, fun h => b5 (a5 h), ⟨e2 ++ e1, ?_, ?_⟩⟩
  · rw [l2, l1]; simp
  · rw [recvCount_append, sendCount_append, Nat.mul_add]
    rw [a2] at c2
    omega

/-- the ReadMem view of an acknowledge -/
abbrev readView : Ack.AckPacket → Ack.R Bytes := fun ack => Ack.ReadMem.parse ack.rawScd ack.ccd
/-- the WriteMem view of an acknowledge -/
abbrev writeView : Ack.AckPacket → Ack.R Nat := fun ack => Ack.WriteMem.parse ack.rawScd ack.ccd

/-- Each chunk of the data a read returned is the payload of a received acknowledge that is
genuine for that chunk's command: parses, status Success, kind ReadMem, the request id the
chunk's command carried. -/
def GenuineRead (p : Profile) (log : List Ev) (m : Nat) : (fuel rem id : Nat) → Bytes → Prop
  | 0, _, _, _ => False
  | fuel + 1, rem, id, d =>
    if rem = 0 then d = [] else
    (d.take (min m rem)).length = min m rem ∧
    (∃ bufLen bytes, .recv bufLen (.ok bytes) ∈ log ∧ bytes.length ≤ bufLen ∧
      Genuine p id .readMem readView (d.take (min m rem)) bytes) ∧
    GenuineRead p log m fuel (rem - min m rem) ((id + 1) % 2 ^ 16) (d.drop (min m rem))

theorem GenuineRead.mono {p : Profile} {log log' : List Ev} {m : Nat}
    (hsub : ∀ e, e ∈ log → e ∈ log') :
    ∀ {fuel rem id : Nat} {d : Bytes}, GenuineRead p log m fuel rem id d →
      GenuineRead p log' m fuel rem id d := by
  intro fuel
  induction fuel with
  | zero => intro rem id d h; exact h
  | succ f ih =>
    intro rem id d h
    simp only [GenuineRead] at h ⊢
    split
    · next h0 => simpa [h0] using h
    · next h0 =>
      rw [if_neg h0] at h
      obtain ⟨h1, ⟨bl, bytes, hm, hb, hg⟩, h3⟩ := h
      exact ⟨h1, ⟨bl, bytes, hsub _ hm, hb, hg⟩, ih h3⟩

section
variable {σ : Type} {dev : Dev σ}

theorem readLoop_inv (hh : Honest dev) (p : Profile) (m address : Nat) (hm : 0 < m)
    (hm16 : m < 2 ^ 16) :
    ∀ (fuel offset rem : Nat) (s : St σ) (accRev : Bytes), rem < fuel →
      address + offset + rem ≤ 2 ^ 64 → offset + rem < 2 ^ 64 →
      OpInv s (readLoop dev p m address fuel offset rem s accRev).1
        (readLoop dev p m address fuel offset rem s accRev).2 ∧
      ∀ bs, (readLoop dev p m address fuel offset rem s accRev).2 = .ok bs →
        ∃ d, bs = accRev.reverse ++ d ∧ d.length = rem ∧
          GenuineRead p (readLoop dev p m address fuel offset rem s accRev).1.logRev m fuel rem
            s.h.nextReqId d := by
  intro fuel
  induction fuel with
  | zero => intro offset rem s accRev h; omega
  | succ f ih =>
    intro offset rem s accRev hf hsp hn64
    by_cases h0 : rem = 0
    · subst h0
      rw [readLoop]
      simp only [if_true]
      refine ⟨OpInv.refl _ _ (by simp), ?_⟩
      intro bs hbs
      simp only [Res.ok.injEq] at hbs
      exact ⟨[], by simp [hbs], rfl, by simp [GenuineRead]⟩
    · have hgt : ¬ min m rem > U16_MAX := by simp only [U16_MAX]; omega
      have hadd : (addW p 64 address offset : R Nat) = .ok (address + offset) := by
        simp only [addW]; rw [if_pos (by omega)]
      have hadd2 : (addW p 64 offset (min m rem) : R Nat) = .ok (offset + min m rem) := by
        simp only [addW]; rw [if_pos (by omega)]
      have hcons : C09.Constructible p (.readMem ⟨address + offset, min m rem⟩) :=
        .readMem _ ⟨by simp only; omega, by simp only; omega⟩
      obtain ⟨hinv, _⟩ := sendCmd_inv hh p readView readView_total s
        (.readMem ⟨address + offset, min m rem⟩) hcons
      rw [readLoop]
      simp only [if_neg h0, if_neg hgt, hadd]
      rcases hsc : sendCmd dev p (fun ack => Ack.ReadMem.parse ack.rawScd ack.ccd) s
        (.readMem ⟨address + offset, min m rem⟩) with ⟨s1, r1⟩
      have hsc' : sendCmd dev p readView s (.readMem ⟨address + offset, min m rem⟩) = (s1, r1) := hsc
      rw [hsc'] at hinv
      simp only at hinv
      rcases r1 with data | e | _
      · simp only
        by_cases hdl : data.length = min m rem
        · simp only [hdl, ne_eq, not_true_eq_false, if_false, hadd2]
          obtain ⟨hinv2, hgen2⟩ := ih (offset + min m rem) (rem - min m rem) s1
            (data.reverse ++ accRev) (by omega) (by omega) (by omega)
          refine ⟨(OpInv.of_txn hinv _ hinv2.no_panic).trans hinv2, ?_⟩
          intro bs hbs
          obtain ⟨d2, hd2, hl2, hg2⟩ := hgen2 bs hbs
          obtain ⟨hidn, bl, bytes, hmem, hbl, hg⟩ := hinv.genuine data rfl
          obtain ⟨_, _, _, _, _, ⟨evs2, hlog2, _⟩⟩ := hinv2
          refine ⟨data ++ d2, by rw [hd2]; simp, by simp [hdl, hl2]; omega, ?_⟩
          simp only [GenuineRead, if_neg h0]
          have ht : (data ++ d2).take (min m rem) = data := by
            rw [← hdl]; exact List.take_left' rfl
          have hdr : (data ++ d2).drop (min m rem) = d2 := by
            rw [← hdl]; exact List.drop_left' rfl
          rw [ht, hdr]
          refine ⟨hdl, ⟨bl, bytes, ?_, hbl, hg⟩, ?_⟩
          · rw [hlog2]; exact List.mem_append_right _ hmem
          · rw [← hidn]; exact hg2
        · simp only [ne_eq, hdl, not_false_eq_true, if_true]
          exact ⟨OpInv.of_txn hinv _ (by simp), fun bs h => by simp at h⟩
      · simp only
        exact ⟨OpInv.of_txn hinv _ (by simp), fun bs h => by simp at h⟩
      · exact absurd rfl hinv.no_panic

/-- Every chunk of a write that returned `Ok` was confirmed by a received acknowledge that is
genuine for the chunk's command (parses, Success, kind WriteMem, the command's request id)
and reports exactly the chunk's length as written. -/
def GenuineWrite (p : Profile) (log : List Ev) : List Cmd.WriteMem → Nat → Prop
  | [], _ => True
  | c :: cs, id =>
    (∃ bufLen bytes, .recv bufLen (.ok bytes) ∈ log ∧ bytes.length ≤ bufLen ∧
      Genuine p id .writeMem writeView c.data.length bytes) ∧
    GenuineWrite p log cs ((id + 1) % 65536)

theorem GenuineWrite.mono {p : Profile} {log log' : List Ev} (hsub : ∀ e, e ∈ log → e ∈ log') :
    ∀ {cs : List Cmd.WriteMem} {id : Nat}, GenuineWrite p log cs id → GenuineWrite p log' cs id := by
  intro cs
  induction cs with
  | nil => intro id h; trivial
  | cons c cs ih =>
    intro id h
    obtain ⟨⟨bl, bytes, hm, hb, hg⟩, h2⟩ := h
    exact ⟨⟨bl, bytes, hsub _ hm, hb, hg⟩, ih h2⟩

theorem GenuineWrite.append {p : Profile} {log : List Ev} :
    ∀ {xs ys : List Cmd.WriteMem} {id : Nat}, id < 65536 → GenuineWrite p log xs id →
      GenuineWrite p log ys ((id + xs.length) % 65536) → GenuineWrite p log (xs ++ ys) id := by
  intro xs
  induction xs with
  | nil =>
    intro ys id hid _ h2
    simpa [GenuineWrite, Nat.mod_eq_of_lt hid] using h2
  | cons c cs ih =>
    intro ys id hid h1 h2
    obtain ⟨hc, hr⟩ := h1
    refine ⟨hc, ih (Nat.mod_lt _ (by omega)) hr ?_⟩
    have : ((id + 1) % 65536 + cs.length) % 65536 = (id + (c :: cs).length) % 65536 := by
      simp only [List.length_cons]; omega
    rw [this]; exact h2

theorem writeChunkLoop_inv (hh : Honest dev) (p : Profile) :
    ∀ (fuel : Nat) (it : Cmd.WriteMemChunks) (s : St σ) (cs : List Cmd.WriteMem),
      it.collect p fuel = .ok cs → (∀ c ∈ cs, C09.WriteMem.Built c) → s.h.nextReqId < 65536 →
      OpInv s (writeChunkLoop dev p fuel it s).1 (writeChunkLoop dev p fuel it s).2 ∧
      ((writeChunkLoop dev p fuel it s).2 = .ok () →
        GenuineWrite p (writeChunkLoop dev p fuel it s).1.logRev cs s.h.nextReqId ∧
        (writeChunkLoop dev p fuel it s).1.h.nextReqId = (s.h.nextReqId + cs.length) % 65536) := by
  intro fuel
  induction fuel with
  | zero => intro it s cs h; simp [Cmd.WriteMemChunks.collect] at h
  | succ f ih =>
    intro it s cs hcol hb hid
    rw [Cmd.WriteMemChunks.collect] at hcol
    rcases hnext : it.next p with ⟨item, it'⟩ | e | _
    · rw [hnext] at hcol
      simp only [Res.bind_ok] at hcol
      cases item with
      | none =>
        simp only [Res.pure_eq, Res.ok.injEq] at hcol
        subst hcol
        rw [writeChunkLoop]
        simp only [hnext]
        exact ⟨OpInv.refl _ _ (by simp), fun _ => ⟨trivial, by
          simp only [List.length_nil, Nat.add_zero]; exact (Nat.mod_eq_of_lt hid).symm⟩⟩
      | some c =>
        simp only at hcol
        rcases hrest : Cmd.WriteMemChunks.collect p f it' with rest | e | _
        · rw [hrest] at hcol
          simp only [Res.bind_ok, Res.pure_eq, Res.ok.injEq] at hcol
          subst hcol
          obtain ⟨hinv, _⟩ := sendCmd_inv hh p writeView writeView_total s (.writeMem c)
            (.writeMem _ (hb c (List.mem_cons_self ..)))
          rw [writeChunkLoop]
          simp only [hnext]
          rcases hsc : sendCmd dev p (fun ack => Ack.WriteMem.parse ack.rawScd ack.ccd) s
            (.writeMem c) with ⟨s1, r1⟩
          have hsc' : sendCmd dev p writeView s (.writeMem c) = (s1, r1) := hsc
          rw [hsc'] at hinv
          simp only at hinv
          rcases r1 with len | e | _
          · simp only
            by_cases hl : len = c.data.length
            · simp only [hl, ne_eq, not_true_eq_false, if_false]
              have hid1 : s1.h.nextReqId < 65536 := by
                rw [(hinv.genuine len rfl).1]; exact Nat.mod_lt _ (by omega)
              obtain ⟨hinv2, hgen2⟩ := ih it' s1 rest hrest
                (fun x hx => hb x (List.mem_cons_of_mem _ hx)) hid1
              refine ⟨(OpInv.of_txn hinv _ hinv2.no_panic).trans hinv2, ?_⟩
              intro hok
              obtain ⟨hg2, hid2⟩ := hgen2 hok
              obtain ⟨hidn, bl, bytes, hmem, hbl, hg⟩ := hinv.genuine len rfl
              obtain ⟨_, _, _, _, _, ⟨evs2, hlog2, _⟩⟩ := hinv2
              subst hl
              refine ⟨⟨⟨bl, bytes, ?_, hbl, hg⟩, ?_⟩, ?_⟩
              · rw [hlog2]; exact List.mem_append_right _ hmem
              · have : (s.h.nextReqId + 1) % 65536 = s1.h.nextReqId := by rw [hidn]
                rw [this]; exact hg2
              · rw [hid2, hidn]; simp only [List.length_cons]; omega
            · simp only [ne_eq, hl, not_false_eq_true, if_true]
              exact ⟨OpInv.of_txn hinv _ (by simp), fun h => by simp at h⟩
          · simp only
            exact ⟨OpInv.of_txn hinv _ (by simp), fun h => by simp at h⟩
          · exact absurd rfl hinv.no_panic
        · rw [hrest] at hcol; simp at hcol
        · rw [hrest] at hcol; simp at hcol
    · rw [hnext] at hcol; simp at hcol
    · rw [hnext] at hcol; simp at hcol

theorem writeBlockLoop_inv (hh : Honest dev) (p : Profile) (address maxCmd : Nat)
    (hbu : maxCmd < 2 ^ 63) :
    ∀ (fuel offset : Nat) (rest : Bytes) (s : St σ), rest.length < fuel →
      address + offset + rest.length ≤ 2 ^ 64 → offset + rest.length < 2 ^ 64 →
      s.h.nextReqId < 65536 →
      OpInv s (writeBlockLoop dev p address maxCmd fuel offset rest s).1
        (writeBlockLoop dev p address maxCmd fuel offset rest s).2 ∧
      ((writeBlockLoop dev p address maxCmd fuel offset rest s).2 = .ok () →
        GenuineWrite p (writeBlockLoop dev p address maxCmd fuel offset rest s).1.logRev
          (C06.writeChunkList p address maxCmd fuel offset rest) s.h.nextReqId ∧
        (writeBlockLoop dev p address maxCmd fuel offset rest s).1.h.nextReqId =
          (s.h.nextReqId + (C06.writeChunkList p address maxCmd fuel offset rest).length) % 65536 ∧
        (rest ≠ [] → 20 < maxCmd)) := by
  intro fuel
  induction fuel with
  | zero => intro offset rest s h; omega
  | succ f ih =>
    intro offset rest s hf hsp hn64 hid
    by_cases h0 : rest = []
    · subst h0
      rw [writeBlockLoop]
      simp only [if_true]
      exact ⟨OpInv.refl _ _ (by simp), fun _ => ⟨by simp [C06.writeChunkList, GenuineWrite],
        by simp [C06.writeChunkList, Nat.mod_eq_of_lt hid], fun h => absurd rfl h⟩⟩
    · have hmwb : MAX_WRITE_BLOCK = 65527 := rfl
      have htl : (rest.take MAX_WRITE_BLOCK).length = min MAX_WRITE_BLOCK rest.length :=
        List.length_take
      have hdl : (rest.drop MAX_WRITE_BLOCK).length = rest.length - MAX_WRITE_BLOCK :=
        List.length_drop
      have hpos : 0 < rest.length := List.length_pos_iff.mpr h0
      have hadd : (addW p 64 address offset : R Nat) = .ok (address + offset) := by
        simp only [addW]; rw [if_pos (by omega)]
      have hadd2 : (addW p 64 offset (rest.take MAX_WRITE_BLOCK).length : R Nat) =
          .ok (offset + (rest.take MAX_WRITE_BLOCK).length) := by
        simp only [addW]; rw [if_pos (by omega)]
      have hnew := (C09.ctor_refuses_writeMem (address + offset) (rest.take MAX_WRITE_BLOCK)).2.1
        (by simp only [U16_MAX]; omega)
      rw [writeBlockLoop]
      simp only [if_neg h0, hadd, hnew]
      by_cases hb : 20 < maxCmd
      · obtain ⟨cs, hcs, hpart⟩ := C10.write_partition p (address + offset)
          (rest.take MAX_WRITE_BLOCK) maxCmd
          (by simp only [Cmd.HEADER_LEN, Cmd.CCD_LEN]; omega) hbu
          (by simp only [U16_MAX]; omega) (by omega)
        have hcs' := hcs
        simp only [Cmd.writeChunks, hnew, Res.bind_ok] at hcs'
        rcases hch : Cmd.WriteMem.chunks ⟨address + offset, rest.take MAX_WRITE_BLOCK,
          (rest.take MAX_WRITE_BLOCK).length, (rest.take MAX_WRITE_BLOCK).length + 8⟩ maxCmd
          with it | e | _
        · rw [hch] at hcs'
          simp only [Res.bind_ok] at hcs'
          have hbuilt : ∀ c ∈ cs, C09.WriteMem.Built c := fun c hc' =>
            (C06.chunkOk_of_facts ⟨maxCmd, 0⟩ c _ _ _ (C06.partition_facts hpart c hc')
              (by simp only [Cmd.HEADER_LEN, Cmd.CCD_LEN]; omega) (by omega) (by omega)).1
          obtain ⟨hinv1, hgen1⟩ := writeChunkLoop_inv hh p _ it s cs hcs' hbuilt hid
          simp only
          rcases hwl : writeChunkLoop dev p ((rest.take MAX_WRITE_BLOCK).length + 1) it s
            with ⟨s1, r1⟩
          rw [hwl] at hinv1 hgen1
          simp only at hinv1 hgen1
          rcases r1 with u | e | _
          · simp only [hadd2]
            obtain ⟨hinv2, hgen2⟩ := ih (offset + (rest.take MAX_WRITE_BLOCK).length)
              (rest.drop MAX_WRITE_BLOCK) s1 (by omega) (by omega) (by omega)
              (by have := hinv1.id16 (by omega); omega)
            refine ⟨hinv1.trans hinv2, ?_⟩
            intro hok
            obtain ⟨hg2, hid2, _⟩ := hgen2 hok
            obtain ⟨hg1, hid1⟩ := hgen1 rfl
            obtain ⟨_, _, _, _, _, ⟨evs2, hlog2, _⟩⟩ := hinv2
            simp only [C06.writeChunkList, if_neg h0, hcs]
            refine ⟨GenuineWrite.append hid (hg1.mono (fun e he => by
                rw [hlog2]; exact List.mem_append_right _ he)) ?_, ?_, fun _ => hb⟩
            · rw [← hid1]; exact hg2
            · rw [hid2, hid1, List.length_append]; omega
          · simp only
            exact ⟨hinv1, fun h => by simp at h⟩
          · exact absurd rfl hinv1.no_panic
        · rw [hch] at hcs'; simp at hcs'
        · rw [hch] at hcs'; simp at hcs'
      · have hch : Cmd.WriteMem.chunks ⟨address + offset, rest.take MAX_WRITE_BLOCK,
            (rest.take MAX_WRITE_BLOCK).length, (rest.take MAX_WRITE_BLOCK).length + 8⟩ maxCmd =
            .err .invalidPacket := by
          have h20 : Cmd.HEADER_LEN + 8 = 20 := rfl
          simp only [Cmd.WriteMem.chunks]
          rw [if_pos (by omega)]
        simp only [hch]
        exact ⟨OpInv.refl _ _ (by simp), fun h => by simp at h⟩

/-! ### `read`, `write`, `open` -/

theorem verifyAddressRange_cases (a n : Nat) :
    (verifyAddressRange a n = .ok () ∧ a + n ≤ 2 ^ 64 ∨ n = 0 ∧ verifyAddressRange a n = .ok ()) ∨
    verifyAddressRange a n = .err .invalidData := by
  simp only [verifyAddressRange]
  by_cases h0 : n = 0
  · simp [h0]
  · rw [if_neg h0]
    by_cases h : a + (n - 1) < 2 ^ 64
    · rw [if_pos h]; left; left; exact ⟨rfl, by omega⟩
    · rw [if_neg h]; right; rfl

theorem read_inv (hh : Honest dev) (p : Profile) (s : St σ) (a n : Nat) (hn : n < 2 ^ 64) :
    OpInv s (Control.read dev p s a n).1 (Control.read dev p s a n).2 ∧
    ∀ bs, (Control.read dev p s a n).2 = .ok bs →
      bs.length = n ∧ s.h.opened = true ∧ 12 < s.h.cfg.maxAck ∧
      GenuineRead p (Control.read dev p s a n).1.logRev (min (s.h.cfg.maxAck - 12) 65535) (n + 1) n
        s.h.nextReqId bs := by
  unfold Control.read
  by_cases hop : s.h.opened = true
  · have hnop : ¬ ((!s.h.opened) = true) := by simp [hop]
    simp only [if_neg hnop]
    rcases verifyAddressRange_cases a n with hv | hv
    · have hvok : verifyAddressRange a n = .ok () := by
        rcases hv with h | h
        · exact h.1
        · exact h.2
      simp only [hvok]
      have h12 : Cmd.ACK_HEADER_LENGTH = 12 := rfl
      by_cases hack : s.h.cfg.maxAck ≤ 12
      · have : (Cmd.ReadMem.mk a 0).chunks s.h.cfg.maxAck = .err .invalidPacket := by
          simp only [Cmd.ReadMem.chunks]; rw [if_pos (by omega)]
        simp only [this]
        exact ⟨OpInv.refl _ _ (by simp), fun bs h => by simp at h⟩
      · have hch : (Cmd.ReadMem.mk a 0).chunks s.h.cfg.maxAck =
            .ok ⟨a, 0, s.h.cfg.maxAck - Cmd.ACK_HEADER_LENGTH⟩ := by
          simp only [Cmd.ReadMem.chunks]; rw [if_neg (by omega)]
        have hm : Cmd.maximumReadLength p s.h.cfg.maxAck =
            .ok (min (s.h.cfg.maxAck - 12) 65535) := by
          rw [C10.maximumReadLength_ok p s.h.cfg.maxAck (by omega)]; rfl
        have hmpos : min (s.h.cfg.maxAck - 12) 65535 ≠ 0 := by omega
        simp only [hch, hm, if_neg hmpos]
        have hsp : a + 0 + n ≤ 2 ^ 64 ∨ n = 0 := by
          rcases hv with h | h
          · left; omega
          · right; exact h.1
        rcases hsp with hsp | hn0
        · obtain ⟨hinv, hgen⟩ := readLoop_inv hh p (min (s.h.cfg.maxAck - 12) 65535) a (by omega)
            (by omega) (n + 1) 0 n s [] (by omega) hsp (by omega)
          refine ⟨hinv, fun bs hbs => ?_⟩
          obtain ⟨d, hd, hl, hg⟩ := hgen bs hbs
          simp only [List.reverse_nil, List.nil_append] at hd
          subst hd
          exact ⟨hl, hop, by omega, hg⟩
        · subst hn0
          rw [readLoop]
          simp only [if_true]
          exact ⟨OpInv.refl _ _ (by simp), fun bs hbs => by
            simp only [List.reverse_nil, Res.ok.injEq] at hbs
            subst hbs
            exact ⟨rfl, hop, by omega, by simp [GenuineRead]⟩⟩
    · simp only [hv]
      exact ⟨OpInv.refl _ _ (by simp), fun bs h => by simp at h⟩
  · have hnop : (!s.h.opened) = true := by cases h : s.h.opened <;> simp_all
    simp only [if_pos hnop]
    exact ⟨OpInv.refl _ _ (by simp), fun bs h => by simp at h⟩

theorem write_inv (hh : Honest dev) (p : Profile) (s : St σ) (a : Nat) (data : Bytes)
    (hn : data.length < 2 ^ 64) (hu32 : s.h.cfg.maxCmd < 2 ^ 32) (hid : s.h.nextReqId < 2 ^ 16) :
    OpInv s (Control.write dev p s a data).1 (Control.write dev p s a data).2 ∧
    ((Control.write dev p s a data).2 = .ok () →
      s.h.opened = true ∧ (data ≠ [] → 20 < s.h.cfg.maxCmd) ∧
      GenuineWrite p (Control.write dev p s a data).1.logRev
        (C06.writeChunkList p a s.h.cfg.maxCmd (data.length + 1) 0 data) s.h.nextReqId) := by
  unfold Control.write
  by_cases hop : s.h.opened = true
  · have hnop : ¬ ((!s.h.opened) = true) := by simp [hop]
    simp only [if_neg hnop]
    rcases verifyAddressRange_cases a data.length with hv | hv
    · have hvok : verifyAddressRange a data.length = .ok () := by
        rcases hv with h | h
        · exact h.1
        · exact h.2
      simp only [hvok]
      have hsp : a + 0 + data.length ≤ 2 ^ 64 ∨ data = [] := by
        rcases hv with h | h
        · left; omega
        · right; exact List.eq_nil_of_length_eq_zero h.1
      rcases hsp with hsp | hn0
      · obtain ⟨hinv, hgen⟩ := writeBlockLoop_inv hh p a s.h.cfg.maxCmd (by omega)
          (data.length + 1) 0 data s (by omega) hsp (by omega) (by omega)
        exact ⟨hinv, fun hok => ⟨hop, (hgen hok).2.2, (hgen hok).1⟩⟩
      · subst hn0
        rw [writeBlockLoop]
        simp only [if_true]
        exact ⟨OpInv.refl _ _ (by simp), fun _ => ⟨hop, fun h => absurd rfl h,
          by simp [C06.writeChunkList, GenuineWrite]⟩⟩
    · simp only [hv]
      exact ⟨OpInv.refl _ _ (by simp), fun h => by simp at h⟩
  · have hnop : (!s.h.opened) = true := by cases h : s.h.opened <;> simp_all
    simp only [if_pos hnop]
    exact ⟨OpInv.refl _ _ (by simp), fun h => by simp at h⟩

/-- invariant of the steps of `open` (the register cache and, at the very end, the
configuration may change; the retry count never does). -/
structure WeakInv {σ α : Type} (s s' : St σ) (r : R α) : Prop where
  no_panic : r ≠ .panic
  retry : s'.h.cfg.retry = s.h.cfg.retry
  opened : s'.h.opened = s.h.opened
  id16 : s.h.nextReqId < 2 ^ 16 → s'.h.nextReqId < 2 ^ 16
  log : ∃ evs, s'.logRev = evs ++ s.logRev ∧ recvCount evs ≤ s.h.cfg.retry * sendCount evs

theorem WeakInv.of_op {α : Type} {s s' : St σ} {r : R α} (h : OpInv s s' r) : WeakInv s s' r :=
  ⟨h.no_panic, by rw [h.cfg], h.opened, h.id16, h.log⟩

theorem WeakInv.trans {α β : Type} {s s1 s2 : St σ} {r1 : R α} {r2 : R β}
    (h1 : WeakInv s s1 r1) (h2 : WeakInv s1 s2 r2) : WeakInv s s2 r2 := by
  obtain ⟨_, a2, a3, a5, ⟨e1, l1, c1⟩⟩ := h1
  obtain ⟨b1, b2, b3, b5, ⟨e2, l2, c2⟩⟩ := h2
  refine ⟨b1, b2.trans a2, b3.trans a3, fun h => b5 (a5 h), ⟨e2 ++ e1, ?_, ?_⟩⟩
  · rw [l2, l1]; simp
  · rw [recvCount_append, sendCount_append, Nat.mul_add]
    rw [a2] at c2
    omega

theorem WeakInv.change {α β : Type} {s s' : St σ} {r : R α} (h : WeakInv s s' r) (r' : R β)
    (hr : r' ≠ .panic) : WeakInv s s' r' :=
  ⟨hr, h.retry, h.opened, h.id16, h.log⟩

theorem readReg_inv (hh : Honest dev) (p : Profile) (s : St σ) (addr len : Nat)
    (hl : len < 2 ^ 64) :
    WeakInv s (readReg dev p s addr len).1 (readReg dev p s addr len).2 := by
  obtain ⟨hinv, hgen⟩ := read_inv hh p s addr len hl
  unfold readReg
  rcases hrd : Control.read dev p s addr len with ⟨s1, r1⟩
  rw [hrd] at hinv hgen
  simp only at hinv hgen
  rcases r1 with bs | e | _
  · simp only
    have := (hgen bs rfl).1
    rw [if_neg (by omega)]
    exact (WeakInv.of_op hinv).change _ (by simp)
  · exact (WeakInv.of_op hinv).change _ (by simp)
  · exact absurd rfl hinv.no_panic

theorem readSbrmReg_inv (hh : Honest dev) (p : Profile) (s : St σ) (sbrm : Nat) (reg : Nat × Nat)
    (hl : reg.2 < 2 ^ 64) :
    WeakInv s (readSbrmReg dev p s sbrm reg).1 (readSbrmReg dev p s sbrm reg).2 := by
  unfold readSbrmReg registerAddress
  by_cases h : sbrm + reg.1 < 2 ^ 64
  · simp only [if_pos h]
    exact readReg_inv hh p s _ _ hl
  · simp only [if_neg h]
    exact ⟨by simp, rfl, rfl, id, ⟨[], by simp, by simp [recvCount]⟩⟩

theorem abrm_inv (hh : Honest dev) (p : Profile) (s : St σ) :
    WeakInv s (abrm dev p s).1 (abrm dev p s).2 := by
  unfold abrm
  cases hab : s.h.abrm with
  | some v => exact ⟨by simp, rfl, rfl, id, ⟨[], by simp, by simp [recvCount]⟩⟩
  | none =>
    simp only
    have := readReg_inv hh p s ABRM_DEVICE_CAPABILITY.1 ABRM_DEVICE_CAPABILITY.2 (by decide)
    rcases hrr : readReg dev p s ABRM_DEVICE_CAPABILITY.1 ABRM_DEVICE_CAPABILITY.2 with ⟨s1, r1⟩
    rw [hrr] at this
    simp only at this
    rcases r1 with v | e | _
    · exact ⟨by simp, this.retry, this.opened, this.id16, this.log⟩
    · exact this.change _ (by simp)
    · exact absurd rfl this.no_panic

theorem initializeConfig_inv (hh : Honest dev) (p : Profile) (s : St σ) :
    WeakInv s (initializeConfig dev p s).1 (initializeConfig dev p s).2 := by
  unfold initializeConfig
  have h1 := abrm_inv hh p s
  rcases e1 : abrm dev p s with ⟨s1, r1⟩
  rw [e1] at h1; simp only at h1
  rcases r1 with v1 | e | _
  · simp only
    have h2 := readReg_inv hh p s1 ABRM_SBRM_ADDRESS.1 ABRM_SBRM_ADDRESS.2 (by decide)
    rcases e2 : readReg dev p s1 ABRM_SBRM_ADDRESS.1 ABRM_SBRM_ADDRESS.2 with ⟨s2, r2⟩
    rw [e2] at h2; simp only at h2
    rcases r2 with sbrm | e | _
    · simp only
      have h3 := readSbrmReg_inv hh p s2 sbrm SBRM_U3VCP_CAPABILITY_REGISTER (by decide)
      rcases e3 : readSbrmReg dev p s2 sbrm SBRM_U3VCP_CAPABILITY_REGISTER with ⟨s3, r3⟩
      rw [e3] at h3; simp only at h3
      rcases r3 with v3 | e | _
      · simp only
        have h4 := readReg_inv hh p s3 ABRM_MAXIMUM_DEVICE_RESPONSE_TIME.1
          ABRM_MAXIMUM_DEVICE_RESPONSE_TIME.2 (by decide)
        rcases e4 : readReg dev p s3 ABRM_MAXIMUM_DEVICE_RESPONSE_TIME.1
          ABRM_MAXIMUM_DEVICE_RESPONSE_TIME.2 with ⟨s4, r4⟩
        rw [e4] at h4; simp only at h4
        rcases r4 with tmo | e | _
        · simp only
          have h5 := readSbrmReg_inv hh p s4 sbrm SBRM_MAXIMUM_COMMAND_TRANSFER_LENGTH (by decide)
          rcases e5 : readSbrmReg dev p s4 sbrm SBRM_MAXIMUM_COMMAND_TRANSFER_LENGTH with ⟨s5, r5⟩
          rw [e5] at h5; simp only at h5
          rcases r5 with mc | e | _
          · simp only
            have h6 := readSbrmReg_inv hh p s5 sbrm SBRM_MAXIMUM_ACKNOWLEDGE_TRANSFER_LENGTH
              (by decide)
            rcases e6 : readSbrmReg dev p s5 sbrm SBRM_MAXIMUM_ACKNOWLEDGE_TRANSFER_LENGTH
              with ⟨s6, r6⟩
            rw [e6] at h6; simp only at h6
            have hall := (((((h1.trans h2).trans h3).trans h4).trans h5).trans h6)
            rcases r6 with ma | e | _
            · exact ⟨by simp, hall.retry, hall.opened, hall.id16, hall.log⟩
            · exact hall.change _ (by simp)
            · exact absurd rfl h6.no_panic
          · exact ((((h1.trans h2).trans h3).trans h4).trans h5).change _ (by simp)
          · exact absurd rfl h5.no_panic
        · exact (((h1.trans h2).trans h3).trans h4).change _ (by simp)
        · exact absurd rfl h4.no_panic
      · exact ((h1.trans h2).trans h3).change _ (by simp)
      · exact absurd rfl h3.no_panic
    · exact (h1.trans h2).change _ (by simp)
    · exact absurd rfl h2.no_panic
  · exact h1.change _ (by simp)
  · exact absurd rfl h1.no_panic

theorem ctlReq_inv (s : St σ) (r : CtlReq) :
    WeakInv s (ctlReq dev s r).1 (ctlReq dev s r).2 ∧
    ((ctlReq dev s r).2 = .ok () ∨ ∃ ue, Ev.ctl r (some ue) ∈ (ctlReq dev s r).1.logRev) := by
  unfold ctlReq
  rcases h : dev.ctl s.d r with ⟨d, e⟩
  cases e with
  | none =>
    exact ⟨⟨by simp, rfl, rfl, id, ⟨[.ctl r none], by simp [St.push], by simp [recvCount]⟩⟩,
      Or.inl rfl⟩
  | some ue =>
    exact ⟨⟨by simp, rfl, rfl, id, ⟨[.ctl r (some ue)], by simp [St.push], by simp [recvCount]⟩⟩,
      Or.inr ⟨ue, by simp [St.push]⟩⟩

theorem initializeChannel_inv (hh : Honest dev) (p : Profile) (s : St σ) :
    WeakInv s (initializeChannel dev p s).1 (initializeChannel dev p s).2 := by
  unfold initializeChannel
  have h1 := (ctlReq_inv (dev := dev) s .setHaltIn).1
  rcases e1 : ctlReq dev s .setHaltIn with ⟨s1, r1⟩
  rw [e1] at h1; simp only at h1
  rcases r1 with u | e | _
  · simp only
    have h2 := (ctlReq_inv (dev := dev) s1 .setHaltOut).1
    rcases e2 : ctlReq dev s1 .setHaltOut with ⟨s2, r2⟩
    rw [e2] at h2; simp only at h2
    rcases r2 with u | e | _
    · simp only
      have h3 := (ctlReq_inv (dev := dev) s2 .clearHaltIn).1
      rcases e3 : ctlReq dev s2 .clearHaltIn with ⟨s3, r3⟩
      rw [e3] at h3; simp only at h3
      rcases r3 with u | e | _
      · simp only
        have h4 := (ctlReq_inv (dev := dev) s3 .clearHaltOut).1
        rcases e4 : ctlReq dev s3 .clearHaltOut with ⟨s4, r4⟩
        rw [e4] at h4; simp only at h4
        rcases r4 with u | e | _
        · simp only
          have h5 := initializeConfig_inv hh p ({ s4 with h := { s4.h with cfg := { s4.h.cfg with
            maxCmd := Config.default.maxCmd, maxAck := Config.default.maxAck } } } : St σ)
          have h45 : WeakInv s4 (initializeConfig dev p ({ s4 with h := { s4.h with cfg :=
              { s4.h.cfg with maxCmd := Config.default.maxCmd, maxAck := Config.default.maxAck } } } :
              St σ)).1 (initializeConfig dev p ({ s4 with h := { s4.h with cfg := { s4.h.cfg with
              maxCmd := Config.default.maxCmd, maxAck := Config.default.maxAck } } } : St σ)).2 :=
            ⟨h5.no_panic, h5.retry, h5.opened, h5.id16, h5.log⟩
          exact (((h1.trans h2).trans h3).trans h4).trans h45
        · exact ((h1.trans h2).trans h3).trans h4
        · exact absurd rfl h4.no_panic
      · exact (h1.trans h2).trans h3
      · exact absurd rfl h3.no_panic
    · exact h1.trans h2
    · exact absurd rfl h2.no_panic
  · exact h1
  · exact absurd rfl h1.no_panic

/-- `open`, whatever the device does. -/
theorem open_inv (hh : Honest dev) (p : Profile) (s : St σ) :
    (Control.open dev p s).2 ≠ .panic ∧
    (Control.open dev p s).1.h.cfg.retry = s.h.cfg.retry ∧
    (s.h.nextReqId < 2 ^ 16 → (Control.open dev p s).1.h.nextReqId < 2 ^ 16) ∧
    (∃ evs, (Control.open dev p s).1.logRev = evs ++ s.logRev ∧
      recvCount evs ≤ s.h.cfg.retry * sendCount evs) ∧
    ((Control.open dev p s).2 = .ok () → (Control.open dev p s).1.h.opened = true) ∧
    (∀ e, (Control.open dev p s).2 = .err e → s.h.opened = false →
      (Control.open dev p s).1.h.opened = false ∨
      ∃ ue, Ev.ctl .release (some ue) ∈ (Control.open dev p s).1.logRev) := by
  unfold Control.open
  by_cases hop : s.h.opened = true
  · simp only [if_pos hop]
    exact ⟨by simp, trivial, id, ⟨[], by simp, by simp [recvCount]⟩, fun _ => hop,
      fun e h => by simp at h⟩
  · have hop' : s.h.opened = false := by cases h : s.h.opened <;> simp_all
    simp only [if_neg hop]
    have h1 := (ctlReq_inv (dev := dev) s .claim).1
    rcases e1 : ctlReq dev s .claim with ⟨s1, r1⟩
    rw [e1] at h1; simp only at h1
    obtain ⟨_, a2, a3, a5, ⟨ev1, l1, c1⟩⟩ := h1
    rcases r1 with u | e | _
    · simp only
      have h2 := initializeChannel_inv hh p ({ s1 with h := { s1.h with opened := true } } : St σ)
      rcases e2 : initializeChannel dev p ({ s1 with h := { s1.h with opened := true } } : St σ)
        with ⟨s2, r2⟩
      rw [e2] at h2; simp only at h2
      obtain ⟨b1, b2, b3, b5, ⟨ev2, l2, c2⟩⟩ := h2
      simp only at b2 b3 b5 l2 c2
      rcases r2 with u | e | _
      · simp only
        refine ⟨by simp, b2.trans a2, fun h => b5 (a5 h), ⟨ev2 ++ ev1, ?_, ?_⟩, fun _ => b3,
          fun e h => by simp at h⟩
        · rw [l2, l1]; simp
        · rw [recvCount_append, sendCount_append, Nat.mul_add]; rw [a2] at c2; omega
      · simp only
        obtain ⟨h3, h3r⟩ := ctlReq_inv (dev := dev) s2 .release
        rcases e3 : ctlReq dev s2 .release with ⟨s3, r3⟩
        rw [e3] at h3 h3r; simp only at h3 h3r
        obtain ⟨d1, d2, d3, d5, ⟨ev3, l3, c3⟩⟩ := h3
        have hlog : ∃ evs, s3.logRev = evs ++ s.logRev ∧
            recvCount evs ≤ s.h.cfg.retry * sendCount evs := by
          refine ⟨ev3 ++ (ev2 ++ ev1), ?_, ?_⟩
          · rw [l3, l2, l1]; simp
          · rw [recvCount_append, sendCount_append, recvCount_append, sendCount_append,
              Nat.mul_add, Nat.mul_add]
            rw [b2, a2] at c3; rw [a2] at c2
            omega
        rcases r3 with u | e3' | _
        · simp only
          exact ⟨by simp, (d2.trans b2).trans a2, fun h => d5 (b5 (a5 h)), hlog,
            fun h => by simp at h, fun _ _ _ => Or.inl trivial⟩
        · simp only
          refine ⟨by simp, (d2.trans b2).trans a2, fun h => d5 (b5 (a5 h)), hlog,
            fun h => by simp at h, fun _ _ _ => Or.inr ?_⟩
          rcases h3r with h | h
          · simp at h
          · exact h
        · exact absurd rfl d1
      · exact absurd rfl b1
    · simp only
      exact ⟨by simp, a2, a5, ⟨ev1, l1, c1⟩, fun h => by simp at h,
        fun e' _ _ => Or.inl (by rw [a3]; exact hop')⟩
    · simp only at *
      rename_i hnp
      exact absurd rfl hnp

end

end CamVerif.C07
