/-
Prelude shared by every model: the three-valued result `Res` (ok / err / panic),
the build `Profile`, profile-aware machine arithmetic on `Nat` carriers, and
little/big-endian byte images.  Imports nothing (core only) so the driver links.
-/
namespace CamVerif

/-- Outcome of a Rust computation: `ok a`, `err e` (a returned `Err`), or `panic`
(unwrap / index out of range / arithmetic overflow with checks / assert). -/
inductive Res (ε α : Type) where
  | ok : α → Res ε α
  | err : ε → Res ε α
  | panic : Res ε α
  deriving Repr, DecidableEq, Inhabited

namespace Res
variable {ε α β : Type}

@[inline] def bind (x : Res ε α) (f : α → Res ε β) : Res ε β :=
  match x with
  | ok a => f a
  | err e => err e
  | panic => panic

instance : Monad (Res ε) where
  pure := ok
  bind := bind

def isOk : Res ε α → Bool
  | ok _ => true
  | _ => false

def isPanic : Res ε α → Bool
  | panic => true
  | _ => false

def toOption : Res ε α → Option α
  | ok a => some a
  | _ => none

@[simp] theorem pure_eq (a : α) : (pure a : Res ε α) = ok a := rfl
@[simp] theorem bind_ok (a : α) (f : α → Res ε β) : (ok a >>= f) = f a := rfl
@[simp] theorem bind_err (e : ε) (f : α → Res ε β) : ((err e : Res ε α) >>= f) = err e := rfl
@[simp] theorem bind_panic (f : α → Res ε β) : ((panic : Res ε α) >>= f) = panic := rfl
@[simp] theorem bind_ok' (a : α) (f : α → Res ε β) : (ok a).bind f = f a := rfl
@[simp] theorem bind_err' (e : ε) (f : α → Res ε β) : (err e : Res ε α).bind f = err e := rfl
@[simp] theorem bind_panic' (f : α → Res ε β) : (panic : Res ε α).bind f = panic := rfl
@[simp] theorem isPanic_ok (a : α) : (ok a : Res ε α).isPanic = false := rfl
@[simp] theorem isPanic_err (e : ε) : (err e : Res ε α).isPanic = false := rfl
@[simp] theorem isPanic_panic : (panic : Res ε α).isPanic = true := rfl
@[simp] theorem isOk_ok (a : α) : (ok a : Res ε α).isOk = true := rfl
@[simp] theorem isOk_err (e : ε) : (err e : Res ε α).isOk = false := rfl
@[simp] theorem isOk_panic : (panic : Res ε α).isOk = false := rfl

theorem bind_ite (c : Prop) [Decidable c] (x y : Res ε α) (f : α → Res ε β) :
    ((if c then x else y) >>= f) = if c then x >>= f else y >>= f := by
  split <;> rfl

end Res

/-- Build profile of the Rust code.  `dev` (what the test suite and the harness
use): overflow checks and debug assertions on.  `release`: arithmetic wraps. -/
structure Profile where
  overflowChecks : Bool
  debugAsserts : Bool
  deriving Repr, DecidableEq

def Profile.dev : Profile := ⟨true, true⟩
def Profile.release : Profile := ⟨false, false⟩

/-! ### Machine arithmetic on `Nat` carriers (value `< 2^w`) -/

/-- `a + b` on an unsigned `w`-bit integer. -/
def addW {ε : Type} (p : Profile) (w a b : Nat) : Res ε Nat :=
  if a + b < 2 ^ w then .ok (a + b)
  else if p.overflowChecks then .panic else .ok ((a + b) % 2 ^ w)

/-- `a - b` on an unsigned `w`-bit integer. -/
def subW {ε : Type} (p : Profile) (w a b : Nat) : Res ε Nat :=
  if b ≤ a then .ok (a - b)
  else if p.overflowChecks then .panic else .ok ((2 ^ w + a - b) % 2 ^ w)

/-- `a * b` on an unsigned `w`-bit integer. -/
def mulW {ε : Type} (p : Profile) (w a b : Nat) : Res ε Nat :=
  if a * b < 2 ^ w then .ok (a * b)
  else if p.overflowChecks then .panic else .ok ((a * b) % 2 ^ w)

abbrev U16_MAX : Nat := 65535
abbrev U64_MOD : Nat := 2 ^ 64

/-! ### Bytes -/

abbrev Bytes := List UInt8

/-- Little-endian image of `n mod 256^len` on `len` bytes. -/
def toLE : (len : Nat) → (n : Nat) → Bytes
  | 0, _ => []
  | len + 1, n => UInt8.ofNat (n % 256) :: toLE len (n / 256)

/-- Unsigned reading of a little-endian byte string. -/
def fromLE : Bytes → Nat
  | [] => 0
  | b :: bs => b.toNat + 256 * fromLE bs

def toBE (len n : Nat) : Bytes := (toLE len n).reverse
def fromBE (bs : Bytes) : Nat := fromLE bs.reverse

@[simp] theorem toLE_length (len n : Nat) : (toLE len n).length = len := by
  induction len generalizing n with
  | zero => rfl
  | succ k ih => simp [toLE, ih]

@[simp] theorem toBE_length (len n : Nat) : (toBE len n).length = len := by
  simp [toBE]

theorem fromLE_lt (bs : Bytes) : fromLE bs < 256 ^ bs.length := by
  induction bs with
  | nil => simp [fromLE]
  | cons b bs ih =>
    have hb : b.toNat < 256 := b.toNat_lt
    simp only [fromLE, List.length_cons, Nat.pow_succ]
    omega

theorem fromLE_toLE (len n : Nat) : fromLE (toLE len n) = n % 256 ^ len := by
  induction len generalizing n with
  | zero => simp [toLE, fromLE, Nat.mod_one]
  | succ k ih =>
    simp only [toLE, fromLE, ih]
    have h1 : (UInt8.ofNat (n % 256)).toNat = n % 256 := by
      simp [UInt8.toNat_ofNat']
    rw [h1, Nat.pow_succ, Nat.mul_comm (256 ^ k) 256, Nat.mod_mul]

theorem fromLE_toLE_of_lt (len n : Nat) (h : n < 256 ^ len) : fromLE (toLE len n) = n := by
  rw [fromLE_toLE, Nat.mod_eq_of_lt h]

theorem toLE_fromLE (bs : Bytes) : toLE bs.length (fromLE bs) = bs := by
  induction bs with
  | nil => rfl
  | cons b bs ih =>
    have hb : b.toNat < 256 := b.toNat_lt
    simp only [List.length_cons, toLE, fromLE]
    have h1 : (b.toNat + 256 * fromLE bs) % 256 = b.toNat := by omega
    have h2 : (b.toNat + 256 * fromLE bs) / 256 = fromLE bs := by omega
    rw [h1, h2, ih]
    simp

theorem fromBE_toBE (len n : Nat) : fromBE (toBE len n) = n % 256 ^ len := by
  simp [fromBE, toBE, fromLE_toLE]

theorem toLE_append (a b n : Nat) :
    toLE (a + b) n = toLE a n ++ toLE b (n / 256 ^ a) := by
  induction a generalizing n with
  | zero => simp [toLE]
  | succ k ih =>
    have : k + 1 + b = (k + b) + 1 := by omega
    rw [this]
    simp only [toLE, ih, List.cons_append, Nat.pow_succ]
    rw [Nat.div_div_eq_div_mul, Nat.mul_comm 256]

theorem fromLE_append (xs ys : Bytes) :
    fromLE (xs ++ ys) = fromLE xs + 256 ^ xs.length * fromLE ys := by
  induction xs with
  | nil => simp [fromLE]
  | cons b bs ih =>
    simp only [List.cons_append, fromLE, ih, List.length_cons, Nat.pow_succ]
    rw [Nat.mul_add, Nat.add_assoc, ← Nat.mul_assoc, Nat.mul_comm 256 (256 ^ bs.length)]

end CamVerif
