/-
Machine-integer operators used by the code that `rs2lean` GENERATES from Rust function
bodies (`CamVerif/Gen/Fn*.lean`).  Core-only imports.

Conventions
* a Rust integer of width `n` is a `BitVec n` (`usize` = 64); signedness is not part of the
  carrier but of the operator: the suffix `U` reads the operands as unsigned, `S` as two's
  complement signed;
* a Rust expression that can panic is a `Res ε α`; the build profile `p` decides what an
  arithmetic overflow does: `panic` iff `p.overflowChecks`, else the wrapped value
  (`chk`).  Exactly as rustc: division / remainder by zero and signed `MIN / -1`,
  `MIN % -1` panic in EVERY profile; a shift amount `≥` the width of the shifted value
  overflows (amount read as unsigned in its own type, so a negative amount overflows),
  the wrapped amount is `amount & (width-1)`;
* `as` casts never panic: `castU m x` (source unsigned: truncate / zero-extend),
  `castS m x` (source signed: truncate / sign-extend).

The second half is the `Res` observation pair `tag`/`val` with its simp set `resObs`-style
lemmas: `x = y` follows from equal tags and (when ok) equal values, and both observations
push through `>>=`, `if`, and the operators above, leaving pure `BitVec`/`Bool` terms that
`bv_decide` can decide (used by `Proofs/*GenTie.lean`).
-/
import CamVerif.Prelude.Basic
namespace CamVerif

namespace Res
variable {ε ε' α β : Type}

/-- map the error component -/
def mapErr (g : ε → ε') : Res ε α → Res ε' α
  | ok a => ok a
  | err e => err (g e)
  | panic => panic

/-- map the value component -/
def map (g : α → β) : Res ε α → Res ε β
  | ok a => ok (g a)
  | err e => err e
  | panic => panic

@[simp] theorem mapErr_ok (g : ε → ε') (a : α) : (ok a : Res ε α).mapErr g = ok a := rfl
@[simp] theorem mapErr_err (g : ε → ε') (e : ε) : (err e : Res ε α).mapErr g = err (g e) := rfl
@[simp] theorem mapErr_panic (g : ε → ε') : (panic : Res ε α).mapErr g = panic := rfl
@[simp] theorem map_ok (g : α → β) (a : α) : (ok a : Res ε α).map g = ok (g a) := rfl
@[simp] theorem map_err (g : α → β) (e : ε) : (err e : Res ε α).map g = err e := rfl
@[simp] theorem map_panic (g : α → β) : (panic : Res ε α).map g = panic := rfl

end Res

namespace Machine
variable {ε : Type} {n m : Nat}

/-- outcome of an operation whose overflow flag is `o` and whose wrapped result is `v` -/
@[inline] def chk {α : Type} (p : Profile) (o : Bool) (v : α) : Res ε α :=
  if (p.overflowChecks && o) = true then .panic else .ok v

/-! ### `+ - *` and unary `-` -/

def addU (p : Profile) (a b : BitVec n) : Res ε (BitVec n) := chk p (BitVec.uaddOverflow a b) (a + b)
def addS (p : Profile) (a b : BitVec n) : Res ε (BitVec n) := chk p (BitVec.saddOverflow a b) (a + b)
def subU (p : Profile) (a b : BitVec n) : Res ε (BitVec n) := chk p (BitVec.usubOverflow a b) (a - b)
def subS (p : Profile) (a b : BitVec n) : Res ε (BitVec n) := chk p (BitVec.ssubOverflow a b) (a - b)
def mulU (p : Profile) (a b : BitVec n) : Res ε (BitVec n) := chk p (BitVec.umulOverflow a b) (a * b)
def mulS (p : Profile) (a b : BitVec n) : Res ε (BitVec n) := chk p (BitVec.smulOverflow a b) (a * b)
def negS (p : Profile) (a : BitVec n) : Res ε (BitVec n) := chk p (BitVec.negOverflow a) (-a)

/-! ### `/` and `%` (by zero: panic in every profile; signed `MIN / -1`: likewise) -/

def divU (_p : Profile) (a b : BitVec n) : Res ε (BitVec n) :=
  if b == 0#n then .panic else .ok (a.udiv b)
def remU (_p : Profile) (a b : BitVec n) : Res ε (BitVec n) :=
  if b == 0#n then .panic else .ok (a.umod b)
def divS (_p : Profile) (a b : BitVec n) : Res ε (BitVec n) :=
  if (b == 0#n || BitVec.sdivOverflow a b) = true then .panic else .ok (a.sdiv b)
def remS (_p : Profile) (a b : BitVec n) : Res ε (BitVec n) :=
  if (b == 0#n || BitVec.sdivOverflow a b) = true then .panic else .ok (a.srem b)

/-! ### shifts (`k` may have any width; it is read as unsigned) -/

/-- the shift amount `k` is out of range for a value of width `n` -/
def shOvf (n : Nat) (k : BitVec m) : Bool := !(k.ult (BitVec.ofNat m n))
/-- the amount a wrapping shift uses: `k & (n-1)` (`n` is a power of two) -/
def shAmt (n : Nat) (k : BitVec m) : BitVec m := k &&& BitVec.ofNat m (n - 1)

def shl (p : Profile) (x : BitVec n) (k : BitVec m) : Res ε (BitVec n) :=
  chk p (shOvf n k) (x <<< shAmt n k)
/-- `>>` on an unsigned value (logical) -/
def shrU (p : Profile) (x : BitVec n) (k : BitVec m) : Res ε (BitVec n) :=
  chk p (shOvf n k) (x >>> shAmt n k)
/-- `>>` on a signed value (arithmetic) -/
def shrS (p : Profile) (x : BitVec n) (k : BitVec m) : Res ε (BitVec n) :=
  chk p (shOvf n k) (x.sshiftRight' (shAmt n k))

/-- `wrapping_shl` / `wrapping_shr` -/
def wshl (x : BitVec n) (k : BitVec m) : BitVec n := x <<< shAmt n k
def wshrU (x : BitVec n) (k : BitVec m) : BitVec n := x >>> shAmt n k
def wshrS (x : BitVec n) (k : BitVec m) : BitVec n := x.sshiftRight' (shAmt n k)

/-! ### casts -/

/-- `x as T` where the source type is unsigned -/
def castU (m : Nat) (x : BitVec n) : BitVec m := x.setWidth m
/-- `x as T` where the source type is signed -/
def castS (m : Nat) (x : BitVec n) : BitVec m := x.signExtend m
/-- `b as T` for `b : bool` -/
def castB (m : Nat) (b : Bool) : BitVec m := if b then 1#m else 0#m

/-! ### `checked_* / overflowing_* / saturating_* / min / max` -/

def checkedAddU (a b : BitVec n) : Option (BitVec n) := if BitVec.uaddOverflow a b then none else some (a + b)
def checkedAddS (a b : BitVec n) : Option (BitVec n) := if BitVec.saddOverflow a b then none else some (a + b)
def checkedSubU (a b : BitVec n) : Option (BitVec n) := if BitVec.usubOverflow a b then none else some (a - b)
def checkedSubS (a b : BitVec n) : Option (BitVec n) := if BitVec.ssubOverflow a b then none else some (a - b)
def checkedMulU (a b : BitVec n) : Option (BitVec n) := if BitVec.umulOverflow a b then none else some (a * b)
def checkedMulS (a b : BitVec n) : Option (BitVec n) := if BitVec.smulOverflow a b then none else some (a * b)

def ovfAddU (a b : BitVec n) : BitVec n × Bool := (a + b, BitVec.uaddOverflow a b)
def ovfAddS (a b : BitVec n) : BitVec n × Bool := (a + b, BitVec.saddOverflow a b)
def ovfSubU (a b : BitVec n) : BitVec n × Bool := (a - b, BitVec.usubOverflow a b)
def ovfSubS (a b : BitVec n) : BitVec n × Bool := (a - b, BitVec.ssubOverflow a b)
def ovfMulU (a b : BitVec n) : BitVec n × Bool := (a * b, BitVec.umulOverflow a b)
def ovfMulS (a b : BitVec n) : BitVec n × Bool := (a * b, BitVec.smulOverflow a b)

def satAddU (a b : BitVec n) : BitVec n := if BitVec.uaddOverflow a b then BitVec.allOnes n else a + b
def satSubU (a b : BitVec n) : BitVec n := if BitVec.usubOverflow a b then 0#n else a - b
/-- signed saturation: an overflowing sum has the sign of the operands' true sum -/
def satAddS (a b : BitVec n) : BitVec n :=
  if BitVec.saddOverflow a b then (if a.msb then BitVec.intMin n else BitVec.intMax n) else a + b
def satSubS (a b : BitVec n) : BitVec n :=
  if BitVec.ssubOverflow a b then (if a.msb then BitVec.intMin n else BitVec.intMax n) else a - b

/-- `Ord::min` / `Ord::max` (`min(a,b) = if b < a then b else a`) -/
def minU (a b : BitVec n) : BitVec n := if b.ult a then b else a
def maxU (a b : BitVec n) : BitVec n := if b.ult a then a else b
def minS (a b : BitVec n) : BitVec n := if b.slt a then b else a
def maxS (a b : BitVec n) : BitVec n := if b.slt a then a else b

/-- `iN::unsigned_abs` -/
def unsignedAbs (a : BitVec n) : BitVec n := if a.msb then -a else a
/-- `count_ones` / `leading_zeros` (result type `u32`) -/
def countOnes (a : BitVec n) : BitVec 32 := (BitVec.cpop a).setWidth 32
def leadingZeros (a : BitVec n) : BitVec 32 := (BitVec.clz a).setWidth 32

/-! ### `TryFrom` between integer types: does the VALUE fit the target type? -/

/-- unsigned `n` bits → unsigned `m` bits -/
def fitsUU (m : Nat) (x : BitVec n) : Bool := (x.setWidth m).setWidth n == x
/-- unsigned `n` bits → signed `m` bits -/
def fitsUS (m : Nat) (x : BitVec n) : Bool := (x.setWidth m).setWidth n == x && !(x.setWidth m).msb
/-- signed `n` bits → unsigned `m` bits -/
def fitsSU (m : Nat) (x : BitVec n) : Bool := !x.msb && (x.setWidth m).setWidth n == x
/-- signed `n` bits → signed `m` bits -/
def fitsSS (m : Nat) (x : BitVec n) : Bool := (x.signExtend m).signExtend n == x

def tryIntoUU (m : Nat) (x : BitVec n) : Option (BitVec m) := if fitsUU m x then some (x.setWidth m) else none
def tryIntoUS (m : Nat) (x : BitVec n) : Option (BitVec m) := if fitsUS m x then some (x.setWidth m) else none
def tryIntoSU (m : Nat) (x : BitVec n) : Option (BitVec m) := if fitsSU m x then some (x.setWidth m) else none
def tryIntoSS (m : Nat) (x : BitVec n) : Option (BitVec m) := if fitsSS m x then some (x.signExtend m) else none

/-- `opt.ok_or(e)?` / `try_into().map_err(|_| e)` : `None` becomes the error `e` -/
def okOr {α : Type} (o : Option α) (e : ε) : Res ε α :=
  match o with
  | some a => .ok a
  | none => .err e

/-- `Option::unwrap` / `expect` -/
def unwrapOpt {α : Type} (o : Option α) : Res ε α :=
  match o with
  | some a => .ok a
  | none => .panic

/-- `debug_assert!(c)` once `c` has been evaluated (the caller evaluates `c` only when
`p.debugAsserts`) and `assert!(c)` -/
def assertThat (c : Bool) : Res ε Unit := if c then .ok () else .panic

/-! ### `try_into` followed by its usual consumers, as `if` on the fit test (simp normal forms) -/

theorem getD_tryIntoUU (m : Nat) (x : BitVec n) (c : BitVec m) :
    (tryIntoUU m x).getD c = if fitsUU m x = true then x.setWidth m else c := by
  unfold tryIntoUU; split <;> rfl
theorem getD_tryIntoUS (m : Nat) (x : BitVec n) (c : BitVec m) :
    (tryIntoUS m x).getD c = if fitsUS m x = true then x.setWidth m else c := by
  unfold tryIntoUS; split <;> rfl
theorem getD_tryIntoSU (m : Nat) (x : BitVec n) (c : BitVec m) :
    (tryIntoSU m x).getD c = if fitsSU m x = true then x.setWidth m else c := by
  unfold tryIntoSU; split <;> rfl
theorem getD_tryIntoSS (m : Nat) (x : BitVec n) (c : BitVec m) :
    (tryIntoSS m x).getD c = if fitsSS m x = true then x.signExtend m else c := by
  unfold tryIntoSS; split <;> rfl

theorem okOr_tryIntoUU (m : Nat) (x : BitVec n) (e : ε) :
    okOr (tryIntoUU m x) e = if fitsUU m x = true then .ok (x.setWidth m) else .err e := by
  unfold tryIntoUU; by_cases h : fitsUU m x = true <;> simp [h, okOr]
theorem okOr_tryIntoUS (m : Nat) (x : BitVec n) (e : ε) :
    okOr (tryIntoUS m x) e = if fitsUS m x = true then .ok (x.setWidth m) else .err e := by
  unfold tryIntoUS; by_cases h : fitsUS m x = true <;> simp [h, okOr]
theorem okOr_tryIntoSU (m : Nat) (x : BitVec n) (e : ε) :
    okOr (tryIntoSU m x) e = if fitsSU m x = true then .ok (x.setWidth m) else .err e := by
  unfold tryIntoSU; by_cases h : fitsSU m x = true <;> simp [h, okOr]
theorem okOr_tryIntoSS (m : Nat) (x : BitVec n) (e : ε) :
    okOr (tryIntoSS m x) e = if fitsSS m x = true then .ok (x.signExtend m) else .err e := by
  unfold tryIntoSS; by_cases h : fitsSS m x = true <;> simp [h, okOr]

theorem getD_checkedAddU (a b c : BitVec n) :
    (checkedAddU a b).getD c = if BitVec.uaddOverflow a b = true then c else a + b := by
  unfold checkedAddU; split <;> rfl
theorem isSome_checkedAddU (a b : BitVec n) : (checkedAddU a b).isSome = !BitVec.uaddOverflow a b := by
  unfold checkedAddU; split <;> simp_all
theorem unwrapOpt_checkedAddU (a b : BitVec n) :
    (unwrapOpt (checkedAddU a b) : Res ε (BitVec n)) = if BitVec.uaddOverflow a b = true then .panic else .ok (a + b) := by
  unfold checkedAddU; by_cases h : BitVec.uaddOverflow a b = true <;> simp [h, unwrapOpt]
theorem okOr_checkedAddU (a b : BitVec n) (e : ε) :
    okOr (checkedAddU a b) e = if BitVec.uaddOverflow a b = true then .err e else .ok (a + b) := by
  unfold checkedAddU; by_cases h : BitVec.uaddOverflow a b = true <;> simp [h, okOr]
theorem getD_checkedAddS (a b c : BitVec n) :
    (checkedAddS a b).getD c = if BitVec.saddOverflow a b = true then c else a + b := by
  unfold checkedAddS; split <;> rfl
theorem isSome_checkedAddS (a b : BitVec n) : (checkedAddS a b).isSome = !BitVec.saddOverflow a b := by
  unfold checkedAddS; split <;> simp_all
theorem unwrapOpt_checkedAddS (a b : BitVec n) :
    (unwrapOpt (checkedAddS a b) : Res ε (BitVec n)) = if BitVec.saddOverflow a b = true then .panic else .ok (a + b) := by
  unfold checkedAddS; by_cases h : BitVec.saddOverflow a b = true <;> simp [h, unwrapOpt]
theorem okOr_checkedAddS (a b : BitVec n) (e : ε) :
    okOr (checkedAddS a b) e = if BitVec.saddOverflow a b = true then .err e else .ok (a + b) := by
  unfold checkedAddS; by_cases h : BitVec.saddOverflow a b = true <;> simp [h, okOr]
theorem getD_checkedSubU (a b c : BitVec n) :
    (checkedSubU a b).getD c = if BitVec.usubOverflow a b = true then c else a - b := by
  unfold checkedSubU; split <;> rfl
theorem isSome_checkedSubU (a b : BitVec n) : (checkedSubU a b).isSome = !BitVec.usubOverflow a b := by
  unfold checkedSubU; split <;> simp_all
theorem unwrapOpt_checkedSubU (a b : BitVec n) :
    (unwrapOpt (checkedSubU a b) : Res ε (BitVec n)) = if BitVec.usubOverflow a b = true then .panic else .ok (a - b) := by
  unfold checkedSubU; by_cases h : BitVec.usubOverflow a b = true <;> simp [h, unwrapOpt]
theorem okOr_checkedSubU (a b : BitVec n) (e : ε) :
    okOr (checkedSubU a b) e = if BitVec.usubOverflow a b = true then .err e else .ok (a - b) := by
  unfold checkedSubU; by_cases h : BitVec.usubOverflow a b = true <;> simp [h, okOr]
theorem getD_checkedSubS (a b c : BitVec n) :
    (checkedSubS a b).getD c = if BitVec.ssubOverflow a b = true then c else a - b := by
  unfold checkedSubS; split <;> rfl
theorem isSome_checkedSubS (a b : BitVec n) : (checkedSubS a b).isSome = !BitVec.ssubOverflow a b := by
  unfold checkedSubS; split <;> simp_all
theorem unwrapOpt_checkedSubS (a b : BitVec n) :
    (unwrapOpt (checkedSubS a b) : Res ε (BitVec n)) = if BitVec.ssubOverflow a b = true then .panic else .ok (a - b) := by
  unfold checkedSubS; by_cases h : BitVec.ssubOverflow a b = true <;> simp [h, unwrapOpt]
theorem okOr_checkedSubS (a b : BitVec n) (e : ε) :
    okOr (checkedSubS a b) e = if BitVec.ssubOverflow a b = true then .err e else .ok (a - b) := by
  unfold checkedSubS; by_cases h : BitVec.ssubOverflow a b = true <;> simp [h, okOr]
theorem getD_checkedMulU (a b c : BitVec n) :
    (checkedMulU a b).getD c = if BitVec.umulOverflow a b = true then c else a * b := by
  unfold checkedMulU; split <;> rfl
theorem isSome_checkedMulU (a b : BitVec n) : (checkedMulU a b).isSome = !BitVec.umulOverflow a b := by
  unfold checkedMulU; split <;> simp_all
theorem unwrapOpt_checkedMulU (a b : BitVec n) :
    (unwrapOpt (checkedMulU a b) : Res ε (BitVec n)) = if BitVec.umulOverflow a b = true then .panic else .ok (a * b) := by
  unfold checkedMulU; by_cases h : BitVec.umulOverflow a b = true <;> simp [h, unwrapOpt]
theorem okOr_checkedMulU (a b : BitVec n) (e : ε) :
    okOr (checkedMulU a b) e = if BitVec.umulOverflow a b = true then .err e else .ok (a * b) := by
  unfold checkedMulU; by_cases h : BitVec.umulOverflow a b = true <;> simp [h, okOr]
theorem getD_checkedMulS (a b c : BitVec n) :
    (checkedMulS a b).getD c = if BitVec.smulOverflow a b = true then c else a * b := by
  unfold checkedMulS; split <;> rfl
theorem isSome_checkedMulS (a b : BitVec n) : (checkedMulS a b).isSome = !BitVec.smulOverflow a b := by
  unfold checkedMulS; split <;> simp_all
theorem unwrapOpt_checkedMulS (a b : BitVec n) :
    (unwrapOpt (checkedMulS a b) : Res ε (BitVec n)) = if BitVec.smulOverflow a b = true then .panic else .ok (a * b) := by
  unfold checkedMulS; by_cases h : BitVec.smulOverflow a b = true <;> simp [h, unwrapOpt]
theorem okOr_checkedMulS (a b : BitVec n) (e : ε) :
    okOr (checkedMulS a b) e = if BitVec.smulOverflow a b = true then .err e else .ok (a * b) := by
  unfold checkedMulS; by_cases h : BitVec.smulOverflow a b = true <;> simp [h, okOr]

theorem unwrapOpt_tryIntoUU (m : Nat) (x : BitVec n) :
    (unwrapOpt (tryIntoUU m x) : Res ε (BitVec m)) = if fitsUU m x = true then .ok (x.setWidth m) else .panic := by
  unfold tryIntoUU; by_cases h : fitsUU m x = true <;> simp [h, unwrapOpt]

/-! ### unfolding lemmas that are NOT `rfl`-proofs

`simp only [fitsUU]` would unfold by a definitional rewrite; inside the condition of an `if` this
leaves the `Decidable` instance behind and later blocks `Res.tag_ite`.  Ties unfold the pure
helpers through these instead (`simp` then repairs the instance by congruence). -/

theorem fitsUU_def (m : Nat) (x : BitVec n) : fitsUU m x = ((x.setWidth m).setWidth n == x) := by
  simp only [fitsUU]
theorem fitsUS_def (m : Nat) (x : BitVec n) :
    fitsUS m x = ((x.setWidth m).setWidth n == x && !(x.setWidth m).msb) := by simp only [fitsUS]
theorem fitsSU_def (m : Nat) (x : BitVec n) :
    fitsSU m x = (!x.msb && (x.setWidth m).setWidth n == x) := by simp only [fitsSU]
theorem fitsSS_def (m : Nat) (x : BitVec n) : fitsSS m x = ((x.signExtend m).signExtend n == x) := by
  simp only [fitsSS]
theorem satAddU_def (a b : BitVec n) :
    satAddU a b = if BitVec.uaddOverflow a b = true then BitVec.allOnes n else a + b := by simp only [satAddU]
theorem satSubU_def (a b : BitVec n) :
    satSubU a b = if BitVec.usubOverflow a b = true then 0#n else a - b := by simp only [satSubU]
theorem satAddS_def (a b : BitVec n) :
    satAddS a b = if BitVec.saddOverflow a b = true then
      (if a.msb = true then BitVec.intMin n else BitVec.intMax n) else a + b := by simp only [satAddS]
theorem satSubS_def (a b : BitVec n) :
    satSubS a b = if BitVec.ssubOverflow a b = true then
      (if a.msb = true then BitVec.intMin n else BitVec.intMax n) else a - b := by simp only [satSubS]
theorem minU_def (a b : BitVec n) : minU a b = if b.ult a = true then b else a := by simp only [minU]
theorem maxU_def (a b : BitVec n) : maxU a b = if b.ult a = true then a else b := by simp only [maxU]
theorem minS_def (a b : BitVec n) : minS a b = if b.slt a = true then b else a := by simp only [minS]
theorem maxS_def (a b : BitVec n) : maxS a b = if b.slt a = true then a else b := by simp only [maxS]
theorem castU_def (m : Nat) (x : BitVec n) : castU m x = x.setWidth m := by simp only [castU]
theorem castS_def (m : Nat) (x : BitVec n) : castS m x = x.signExtend m := by simp only [castS]
theorem castB_def (m : Nat) (b : Bool) : castB m b = if b = true then 1#m else 0#m := by simp only [castB]
theorem shOvf_def (n : Nat) (k : BitVec m) : shOvf n k = !(k.ult (BitVec.ofNat m n)) := by simp only [shOvf]
theorem shAmt_def (n : Nat) (k : BitVec m) : shAmt n k = k &&& BitVec.ofNat m (n - 1) := by simp only [shAmt]
theorem unsignedAbs_def (a : BitVec n) : unsignedAbs a = if a.msb = true then -a else a := by
  simp only [unsignedAbs]

/-! ### value-level facts used by ties to `Nat`-carrier models -/

theorem fitsUU_iff (m : Nat) (x : BitVec n) : fitsUU m x = true ↔ x.toNat < 2 ^ m := by
  unfold fitsUU
  rw [beq_iff_eq]
  constructor
  · intro h
    have h2 := congrArg BitVec.toNat h
    simp only [BitVec.toNat_setWidth] at h2
    have : x.toNat % 2 ^ m % 2 ^ n < 2 ^ m := Nat.lt_of_le_of_lt (Nat.mod_le _ _) (Nat.mod_lt _ (Nat.two_pow_pos m))
    omega
  · intro h
    apply BitVec.eq_of_toNat_eq
    simp only [BitVec.toNat_setWidth]
    rw [Nat.mod_eq_of_lt h, Nat.mod_eq_of_lt x.isLt]

theorem satSubU_toNat (a b : BitVec n) : (satSubU a b).toNat = a.toNat - b.toNat := by
  unfold satSubU BitVec.usubOverflow
  by_cases h : a.toNat < b.toNat
  · simp only [h, decide_true, if_true, BitVec.toNat_ofNat, Nat.zero_mod]; omega
  · simp only [h, decide_false, Bool.false_eq_true, if_false]
    rw [BitVec.toNat_sub_of_le (by rw [BitVec.le_def]; omega)]

theorem satAddU_toNat (a b : BitVec n) :
    (satAddU a b).toNat = min (a.toNat + b.toNat) (2 ^ n - 1) := by
  unfold satAddU BitVec.uaddOverflow
  have ha := a.isLt
  have hb := b.isLt
  by_cases h : a.toNat + b.toNat ≥ 2 ^ n
  · simp only [h, decide_true, if_true, BitVec.toNat_allOnes]
    rw [Nat.min_def]; split <;> omega
  · simp only [h, decide_false, Bool.false_eq_true, if_false, BitVec.toNat_add]
    rw [Nat.mod_eq_of_lt (by omega), Nat.min_def]; split <;> omega

end Machine

/-! ## Observations of a `Res` for bit-level decision procedures -/

namespace Res
variable {ε α β : Type}

/-- outcome class as a byte: `0` = ok, `1` = panic, `ec e` = the error `e`
(`ec` must be injective and avoid `0`,`1` for `ext_obs`) -/
def tag (ec : ε → BitVec 8) : Res ε α → BitVec 8
  | ok _ => 0#8
  | panic => 1#8
  | err e => ec e

/-- the value of an `ok`, `d` otherwise -/
def val (d : α) : Res ε α → α
  | ok a => a
  | _ => d

/-- an error coding usable with `ext_obs` -/
structure ErrCode (ε : Type) where
  ec : ε → BitVec 8
  inj : ∀ a b, ec a = ec b → a = b
  ne0 : ∀ a, ec a ≠ 0#8
  ne1 : ∀ a, ec a ≠ 1#8

theorem ext_obs (c : ErrCode ε) (d : α) (x y : Res ε α)
    (h : x.tag c.ec = y.tag c.ec ∧ (x.tag c.ec = 0#8 → x.val d = y.val d)) : x = y := by
  obtain ⟨h1, h2⟩ := h
  cases x with
  | ok a =>
    cases y with
    | ok b => simp only [tag, val] at h2; rw [h2 trivial]
    | err e => exact absurd h1.symm (c.ne0 e)
    | panic => exact absurd (show (0#8 : BitVec 8) = 1#8 from h1) (by decide)
  | err e =>
    cases y with
    | ok b => exact absurd h1 (c.ne0 e)
    | err e' => rw [c.inj e e' h1]
    | panic => exact absurd h1 (c.ne1 e)
  | panic =>
    cases y with
    | ok b => exact absurd (show (1#8 : BitVec 8) = 0#8 from h1) (by decide)
    | err e => exact absurd h1.symm (c.ne1 e)
    | panic => rfl

/-- pull an error coding back along an injective map of error types -/
def ErrCode.comap {ε' : Type} (c : ErrCode ε') (g : ε → ε') (hg : ∀ a b, g a = g b → a = b) :
    ErrCode ε where
  ec := fun e => c.ec (g e)
  inj := fun a b h => hg a b (c.inj _ _ h)
  ne0 := fun a => c.ne0 (g a)
  ne1 := fun a => c.ne1 (g a)

/- NOTE: these six are deliberately NOT `rfl`-proofs: `simp` would use a `rfl` lemma as a definitional
rewrite inside `if` conditions without fixing the `Decidable` instance, which later blocks
`tag_ite`/`val_ite`. -/
@[simp] theorem tag_ok (ec : ε → BitVec 8) (a : α) : (ok a : Res ε α).tag ec = 0#8 := by
  simp only [tag]
@[simp] theorem tag_panic (ec : ε → BitVec 8) : (panic : Res ε α).tag ec = 1#8 := by
  simp only [tag]
@[simp] theorem tag_err (ec : ε → BitVec 8) (e : ε) : (err e : Res ε α).tag ec = ec e := by
  simp only [tag]
@[simp] theorem val_ok (d a : α) : (ok a : Res ε α).val d = a := by
  simp only [val]
@[simp] theorem val_panic (d : α) : (panic : Res ε α).val d = d := by
  simp only [val]
@[simp] theorem val_err (d : α) (e : ε) : (err e : Res ε α).val d = d := by
  simp only [val]

theorem tag_bind [Inhabited α] (c : ErrCode ε) (x : Res ε α) (f : α → Res ε β) :
    (x >>= f).tag c.ec = if x.tag c.ec = 0#8 then (f (x.val default)).tag c.ec else x.tag c.ec := by
  cases x with
  | ok a => rfl
  | err e =>
    show c.ec e = if c.ec e = 0#8 then _ else c.ec e
    rw [if_neg (c.ne0 e)]
  | panic => rfl

theorem val_bind [Inhabited α] (c : ErrCode ε) (d : β) (x : Res ε α) (f : α → Res ε β) :
    (x >>= f).val d = if x.tag c.ec = 0#8 then (f (x.val default)).val d else d := by
  cases x with
  | ok a => rfl
  | err e =>
    show d = if c.ec e = 0#8 then _ else d
    rw [if_neg (c.ne0 e)]
  | panic => rfl

theorem tag_ite (ec : ε → BitVec 8) (c : Prop) [Decidable c] (x y : Res ε α) :
    (if c then x else y).tag ec = if c then x.tag ec else y.tag ec := by
  split <;> rfl

theorem val_ite (d : α) (c : Prop) [Decidable c] (x y : Res ε α) :
    (if c then x else y).val d = if c then x.val d else y.val d := by
  split <;> rfl

theorem tag_mapErr {ε' : Type} (c : ErrCode ε') (g : ε → ε') (hg : ∀ a b, g a = g b → a = b)
    (x : Res ε α) : (x.mapErr g).tag c.ec = x.tag (c.comap g hg).ec := by
  cases x <;> rfl

theorem val_mapErr {ε' : Type} (d : α) (g : ε → ε') (x : Res ε α) :
    (x.mapErr g).val d = x.val d := by
  cases x <;> rfl

end Res

namespace Machine
variable {ε : Type} {n m : Nat}

theorem tag_chk {α : Type} (ec : ε → BitVec 8) (p : Profile) (o : Bool) (v : α) :
    (chk p o v : Res ε α).tag ec = if (p.overflowChecks && o) = true then 1#8 else 0#8 := by
  unfold chk; split <;> rfl

theorem val_chk {α : Type} (d : α) (p : Profile) (o : Bool) (v : α) :
    (chk p o v : Res ε α).val d = if (p.overflowChecks && o) = true then d else v := by
  unfold chk; split <;> rfl

end Machine
end CamVerif
