/-
Text helpers for the line protocol (driver side only; nothing here is used in theorems).
Bytes are lowercase hex without separators, `-` for the empty string.
-/
import CamVerif.Prelude.Basic
namespace CamVerif.Wire

def hexDigit (n : Nat) : Char :=
  if n < 10 then Char.ofNat (48 + n) else Char.ofNat (87 + n)

def hexVal (c : Char) : Option Nat :=
  if '0' ≤ c ∧ c ≤ '9' then some (c.toNat - 48)
  else if 'a' ≤ c ∧ c ≤ 'f' then some (c.toNat - 87)
  else if 'A' ≤ c ∧ c ≤ 'F' then some (c.toNat - 55)
  else none

def bytesToHex (bs : Bytes) : String :=
  if bs.isEmpty then "-" else
  String.ofList (bs.foldr (fun b acc => hexDigit (b.toNat / 16) :: hexDigit (b.toNat % 16) :: acc) [])

def hexToBytesAux : List Char → Option Bytes
  | [] => some []
  | a :: b :: rest => do
    let x ← hexVal a
    let y ← hexVal b
    let r ← hexToBytesAux rest
    pure (UInt8.ofNat (x * 16 + y) :: r)
  | _ => none

def hexToBytes (s : String) : Option Bytes :=
  if s == "-" then some [] else hexToBytesAux s.toList

def parseInt (s : String) : Option Int := s.toInt?
def parseNat (s : String) : Option Nat := s.toNat?

/-- Hex of a natural number with fixed digit count (most significant first). -/
def natToHex (digits n : Nat) : String :=
  String.ofList ((List.range digits).reverse.map fun i => hexDigit ((n / 16 ^ i) % 16))

def hexToNat (s : String) : Option Nat :=
  s.toList.foldl (fun acc c => do let a ← acc; let v ← hexVal c; pure (a * 16 + v)) (some 0)

def joinSp (xs : List String) : String := " ".intercalate xs

end CamVerif.Wire
