/-
C17 — abstract syntax of GenApi node declarations, the renderer into the element
tree in the schema's element order, and the normal form (`spec…`) the parser must
produce: schema defaults filled in, references interned and immediates stored in
document order.

The abstract syntax (`…M` records) has one optional field per optional element, so a
theorem `parseK (renderK m) = specK m` for all `m` covers every presence pattern at once.
Literal fields carry *any* text the Rust converter accepts together with its value
(`IntLit`, `UintLit`, …); the `literals_*` theorems of `Props/C17.lean` show that the
decimal / `0x` / `0X` / `Yes|No|true|false` / `INF|-INF` forms are such texts.
-/
import CamVerif.Model.XmlParse
namespace CamVerif.XmlParse
variable {F : Type}

/-! ## Rendered children as a list of segments -/

/-- attributes and children of an element -/
abbrev Body := List (Str × Str) × List Elem

def mkNode (tag : Str) (b : Body) : Elem := .node tag b.1 b.2

/-- How the renderer lays out the text of a text-carrying element as child nodes.  ANY layout
whose text children, joined in order, give the text: one text node (`TextFrag.single`), any
number of fragments interleaved with comments / processing instructions
(`TextFrag.ofFragments` in `Props/C17.lean`), an element without children for the empty text, ….
Every rendering function and every `parse_render_K` theorem is parametric in it. -/
class TextFrag where
  frag : Str → List Elem
  view : ∀ s, concatText (frag s) = s

/-- the plain layout: one text node (none for the empty text) -/
@[reducible] def TextFrag.single : TextFrag where
  frag s := if s = [] then [] else [.text s]
  view s := by
    split
    · next h => rw [h]; rfl
    · simp [concatText]

variable [TextFrag]

/-- body holding just a text, laid out by the `TextFrag` in force -/
def tb (s : Str) : Body := ([], TextFrag.frag s)

/-- text body with a `Name` attribute (`pVariable`, `Constant`, `Expression`) -/
def ntb (name s : Str) : Body := ([(cs!"Name", name)], TextFrag.frag s)

/-- which of the four address elements -/
inductive AddrTag | address | intSwissKnife | pAddress | pIndex
  deriving DecidableEq, Repr

def AddrTag.tag : AddrTag → Str
  | .address => cs!"Address" | .intSwissKnife => cs!"IntSwissKnife"
  | .pAddress => cs!"pAddress" | .pIndex => cs!"pIndex"

/-- One schema particle of a rendered element: optional / repeated / mandatory child
elements, with one tag or a choice of two tags (`Min|pMin`, `Length|pLength` …; the
`Bool` selects the second tag), or the repeated four-way address choice. -/
inductive Seg where
  | opt (tag : Str) (b : Option Body)
  | many (tag : Str) (bs : List Body)
  | one (tag : Str) (b : Body)
  | opt2 (t1 t2 : Str) (b : Option (Bool × Body))
  | many2 (t1 t2 : Str) (bs : List (Bool × Body))
  | one2 (t1 t2 : Str) (b : Bool × Body)
  | manyAddr (bs : List (AddrTag × Body))

def sel2 (t1 t2 : Str) (second : Bool) : Str := if second then t2 else t1

def Seg.elems : Seg → List Elem
  | .opt _ none => []
  | .opt t (some b) => [mkNode t b]
  | .many t bs => bs.map (mkNode t)
  | .one t b => [mkNode t b]
  | .opt2 _ _ none => []
  | .opt2 t1 t2 (some b) => [mkNode (sel2 t1 t2 b.1) b.2]
  | .many2 t1 t2 bs => bs.map fun b => mkNode (sel2 t1 t2 b.1) b.2
  | .one2 t1 t2 b => [mkNode (sel2 t1 t2 b.1) b.2]
  | .manyAddr bs => bs.map fun b => mkNode b.1.tag b.2

/-- the children list -/
def flat : List Seg → List Elem
  | [] => []
  | s :: r => s.elems ++ flat r

/-- Could an element with this tag be the first child of `flat segs`?  (Syntactic
over-approximation that does not look at which optional particles are present.) -/
def canStart (tag : Str) : List Seg → Bool
  | [] => false
  | .opt t _ :: r => t == tag || canStart tag r
  | .many t _ :: r => t == tag || canStart tag r
  | .one t _ :: _ => t == tag
  | .opt2 t1 t2 _ :: r => t1 == tag || t2 == tag || canStart tag r
  | .many2 t1 t2 _ :: r => t1 == tag || t2 == tag || canStart tag r
  | .one2 t1 t2 _ :: _ => t1 == tag || t2 == tag
  | .manyAddr _ :: r =>
    cs!"Address" == tag || cs!"IntSwissKnife" == tag || cs!"pAddress" == tag || cs!"pIndex" == tag
      || canStart tag r

/-- none of `tags` can start `flat segs` -/
def noneStart (tags : List Str) (segs : List Seg) : Bool := tags.all fun t => !canStart t segs

/-! ## Literals: a text accepted by the Rust converter, with its value -/

structure IntLit where
  text : Str
  val : Int
  ok : convertToInt text = .ok val

structure UintLit where
  text : Str
  val : Nat
  ok : convertToUint text = .ok val

/-- bare hexadecimal (`EventID`, `ChunkID`: `u64::from_str_radix(_, 16)`) -/
structure HexLit where
  text : Str
  val : Nat
  ok : parseU64 16 text = some val

structure BoolLit where
  text : Str
  val : Bool
  ok : convertToBoolOpt text = some val

/-- a float text: accepted by `impl Parse for f64`, and recognised as an immediate by the
`ImmOrPNode<f64>` sniffing (`INF`, `-INF`, `NaN` or not starting with a letter) -/
structure FltLit (F : Type) [FloatLit F] where
  text : Str
  val : F
  ok : convertToFloat text = .ok val
  imm : text = cs!"INF" ∨ text = cs!"-INF" ∨ text = cs!"NaN" ∨ firstIsAlphabetic text = .ok false

/-- a node name in a position where the parser sniffs "immediate or reference":
starts with a letter and is none of the literals `Yes No true false INF NaN`. -/
structure RefName where
  name : Str
  alpha : firstIsAlphabetic name = .ok true
  notBool : convertToBoolOpt name = none
  notInf : name ≠ cs!"INF"
  notNaN : name ≠ cs!"NaN"

/-- immediate or reference -/
inductive IR (L : Type) where
  | imm (l : L)
  | ref (n : RefName)

/-! ### enumerated literals (the schema's spelling) -/

def NameSpace.text : NameSpace → Str | .standard => cs!"Standard" | .custom => cs!"Custom"
def MergePriority.text : MergePriority → Str | .high => cs!"1" | .mid => cs!"0" | .low => cs!"-1"
def Visibility.text : Visibility → Str
  | .beginner => cs!"Beginner" | .expert => cs!"Expert" | .guru => cs!"Guru" | .invisible => cs!"Invisible"
def AccessMode.text : AccessMode → Str | .ro => cs!"RO" | .wo => cs!"WO" | .rw => cs!"RW"
def IntRepr.text : IntRepr → Str
  | .linear => cs!"Linear" | .logarithmic => cs!"Logarithmic" | .boolean => cs!"Boolean"
  | .pureNumber => cs!"PureNumber" | .hexNumber => cs!"HexNumber" | .ipV4 => cs!"IPV4Address"
  | .mac => cs!"MACAddress"
def FloatRepr.text : FloatRepr → Str
  | .linear => cs!"Linear" | .logarithmic => cs!"Logarithmic" | .pureNumber => cs!"PureNumber"
def Slope.text : Slope → Str
  | .increasing => cs!"Increasing" | .decreasing => cs!"Decreasing" | .varying => cs!"Varying"
  | .automatic => cs!"Automatic"
def DisplayNotation.text : DisplayNotation → Str
  | .automatic => cs!"Automatic" | .fixed => cs!"Fixed" | .scientific => cs!"Scientific"
def StdNameSpace.text : StdNameSpace → Str
  | .none => cs!"None" | .iidc => cs!"IIDC" | .gev => cs!"GEV" | .cl => cs!"CL" | .usb => cs!"USB"
def CachingMode.text : CachingMode → Str
  | .writeThrough => cs!"WriteThrough" | .writeAround => cs!"WriteAround" | .noCache => cs!"NoCache"
def Endianness.text : Endianness → Str | .le => cs!"LittleEndian" | .be => cs!"BigEndian"
def Sign.text : Sign → Str | .signed => cs!"Signed" | .unsigned => cs!"Unsigned"

/-! ## Builder-state functions of the normal form -/

/-- `get_or_intern` -/
def internS (n : Str) (st : St F) : Nat × St F :=
  ((internName st.names n).1, { st with names := (internName st.names n).2 })

/-- `ValueStoreBuilder::store` -/
def storeS (v : Value F) (st : St F) : Nat × St F :=
  (st.values.length, { st with values := st.values ++ [v] })

def optS {α β : Type} (f : α → St F → β × St F) : Option α → St F → Option β × St F
  | none, st => (none, st)
  | some a, st => (some (f a st).1, (f a st).2)

def listS {α β : Type} (f : α → St F → β × St F) : List α → St F → List β × St F
  | [], st => ([], st)
  | a :: as, st => ((f a st).1 :: (listS f as (f a st).2).1, (listS f as (f a st).2).2)

/-- immediate-or-reference to `ImmOrPNode<i64>` -/
def irIntS : IR IntLit → St F → ImmOrP Int × St F
  | .imm l, st => (.imm l.val, st)
  | .ref n, st => (.pnode (internS n.name st).1, (internS n.name st).2)

/-- … to `ImmOrPNode<IntegerId>` (immediates go to the value store) -/
def irIntIdS : IR IntLit → St F → ImmOrP Nat × St F
  | .imm l, st => (.imm (storeS (.int l.val) st).1, (storeS (.int l.val) st).2)
  | .ref n, st => (.pnode (internS n.name st).1, (internS n.name st).2)

def irFloatS [FloatLit F] : IR (FltLit F) → St F → ImmOrP F × St F
  | .imm l, st => (.imm l.val, st)
  | .ref n, st => (.pnode (internS n.name st).1, (internS n.name st).2)

def irFloatIdS [FloatLit F] : IR (FltLit F) → St F → ImmOrP Nat × St F
  | .imm l, st => (.imm (storeS (.float l.val) st).1, (storeS (.float l.val) st).2)
  | .ref n, st => (.pnode (internS n.name st).1, (internS n.name st).2)

/-- body of an immediate-or-reference element: `(is reference, text)` -/
def irBody {L : Type} (text : L → Str) : IR L → Bool × Body
  | .imm l => (false, tb (text l))
  | .ref n => (true, tb n.name)

/-! ## Attribute base -/

structure AttrM where
  name : Str
  nameSpace : Option NameSpace
  mergePriority : Option MergePriority
  exposeStatic : Option BoolLit
  /-- other attributes (`Comment` …): anything not read by the parser -/
  extra : List (Str × Str)
  extraOk : attrOf extra cs!"Name" = none ∧ attrOf extra cs!"NameSpace" = none ∧
    attrOf extra cs!"MergePriority" = none ∧ attrOf extra cs!"ExposeStatic" = none

def optAttr (k : Str) : Option Str → List (Str × Str)
  | none => []
  | some v => [(k, v)]

def AttrM.render (m : AttrM) : List (Str × Str) :=
  m.extra ++ [(cs!"Name", m.name)] ++ optAttr cs!"NameSpace" (m.nameSpace.map NameSpace.text) ++
    optAttr cs!"MergePriority" (m.mergePriority.map MergePriority.text) ++
    optAttr cs!"ExposeStatic" (m.exposeStatic.map BoolLit.text)

def specAttr (m : AttrM) (st : St F) : AttrBase × St F :=
  (⟨(internS m.name st).1, m.nameSpace.getD .custom, m.mergePriority.getD .mid,
    m.exposeStatic.map BoolLit.val⟩, (internS m.name st).2)

/-! ## Element base -/

structure ElemM where
  extension : Option Str
  tooltip : Option Str
  description : Option Str
  displayName : Option Str
  visibility : Option Visibility
  docuUrl : Option Str
  isDeprecated : Option BoolLit
  eventId : Option HexLit
  pIsImplemented : Option Str
  pIsAvailable : Option Str
  pIsLocked : Option Str
  pBlockPolling : Option Str
  imposedAccessMode : Option AccessMode
  pErrors : List Str
  pAlias : Option Str
  pCastAlias : Option Str

/-- the element-base particles in schema order, followed by `pInvalidator*` -/
def ElemM.segs (m : ElemM) (pInvalidators : List Str) : List Seg :=
  [ .opt cs!"Extension" (m.extension.map tb),
    .opt cs!"ToolTip" (m.tooltip.map tb),
    .opt cs!"Description" (m.description.map tb),
    .opt cs!"DisplayName" (m.displayName.map tb),
    .opt cs!"Visibility" (m.visibility.map fun v => tb v.text),
    .opt cs!"DocuURL" (m.docuUrl.map tb),
    .opt cs!"IsDeprecated" (m.isDeprecated.map fun b => tb b.text),
    .opt cs!"EventID" (m.eventId.map fun h => tb h.text),
    .opt cs!"pIsImplemented" (m.pIsImplemented.map tb),
    .opt cs!"pIsAvailable" (m.pIsAvailable.map tb),
    .opt cs!"pIsLocked" (m.pIsLocked.map tb),
    .opt cs!"pBlockPolling" (m.pBlockPolling.map tb),
    .opt cs!"ImposedAccessMode" (m.imposedAccessMode.map fun a => tb a.text),
    .many cs!"pError" (m.pErrors.map tb),
    .opt cs!"pAlias" (m.pAlias.map tb),
    .opt cs!"pCastAlias" (m.pCastAlias.map tb),
    .many cs!"pInvalidator" (pInvalidators.map tb) ]

def elemTags : List Str :=
  [cs!"Extension", cs!"ToolTip", cs!"Description", cs!"DisplayName", cs!"Visibility", cs!"DocuURL",
   cs!"IsDeprecated", cs!"EventID", cs!"pIsImplemented", cs!"pIsAvailable", cs!"pIsLocked",
   cs!"pBlockPolling", cs!"ImposedAccessMode", cs!"pError", cs!"pAlias", cs!"pCastAlias",
   cs!"pInvalidator"]

/-- normal form of the element base: defaults `Beginner`, not deprecated, `RW`; references
interned in document order -/
def specElem (m : ElemM) (pInvalidators : List Str) (st : St F) : ElemBase × St F :=
  let s1 := optS internS m.pIsImplemented st
  let s2 := optS internS m.pIsAvailable s1.2
  let s3 := optS internS m.pIsLocked s2.2
  let s4 := optS internS m.pBlockPolling s3.2
  let s5 := listS internS m.pErrors s4.2
  let s6 := optS internS m.pAlias s5.2
  let s7 := optS internS m.pCastAlias s6.2
  let s8 := listS internS pInvalidators s7.2
  ({ tooltip := m.tooltip, description := m.description, displayName := m.displayName
     visibility := m.visibility.getD .beginner
     docuUrl := m.docuUrl
     isDeprecated := (m.isDeprecated.map BoolLit.val).getD false
     eventId := m.eventId.map HexLit.val
     pIsImplemented := s1.1, pIsAvailable := s2.1, pIsLocked := s3.1, pBlockPolling := s4.1
     imposedAccessMode := m.imposedAccessMode.getD .rw
     pErrors := s5.1, pAlias := s6.1, pCastAlias := s7.1, pInvalidators := s8.1 }, s8.2)

/-! ## Node -/

structure NodeM where
  attr : AttrM
  elem : ElemM
  /-- `pInvalidator`s declared on a non-register node: consumed by the element base -/
  pInvalidators : List Str

def NodeM.children (m : NodeM) : List Elem := flat (m.elem.segs m.pInvalidators)
def NodeM.render (m : NodeM) : Elem := .node cs!"Node" m.attr.render m.children

def specNode (m : NodeM) (st : St F) : PlainNode × St F :=
  let a := specAttr m.attr st
  let e := specElem m.elem m.pInvalidators a.2
  (⟨a.1, e.1⟩, e.2)

/-! ## Category -/

structure CategoryM where
  attr : AttrM
  elem : ElemM
  pFeatures : List Str

def CategoryM.children (m : CategoryM) : List Elem :=
  flat (m.elem.segs [] ++ [.many cs!"pFeature" (m.pFeatures.map tb)])
def CategoryM.render (m : CategoryM) : Elem := .node cs!"Category" m.attr.render m.children

def specCategory (m : CategoryM) (st : St F) : CategoryNode × St F :=
  let a := specAttr m.attr st
  let e := specElem m.elem [] a.2
  let f := listS internS m.pFeatures e.2
  (⟨a.1, e.1, f.1⟩, f.2)

/-! ## Command -/

structure CommandM where
  attr : AttrM
  elem : ElemM
  /-- `Value` | `pValue` -/
  value : IR IntLit
  /-- `CommandValue` | `pCommandValue` -/
  commandValue : IR IntLit
  pollingTime : Option UintLit

def CommandM.children (m : CommandM) : List Elem :=
  flat (m.elem.segs [] ++
    [ .one2 cs!"Value" cs!"pValue" (irBody IntLit.text m.value),
      .one2 cs!"CommandValue" cs!"pCommandValue" (irBody IntLit.text m.commandValue),
      .opt cs!"PollingTime" (m.pollingTime.map fun l => tb l.text) ])
def CommandM.render (m : CommandM) : Elem := .node cs!"Command" m.attr.render m.children

def specCommand (m : CommandM) (st : St F) : CommandNode × St F :=
  let a := specAttr m.attr st
  let e := specElem m.elem [] a.2
  let v := irIntIdS m.value e.2
  let c := irIntIdS m.commandValue v.2
  ({ attr := a.1, elem := e.1, value := v.1, commandValue := c.1,
     pollingTime := m.pollingTime.map UintLit.val }, c.2)

/-! ## Boolean -/

/-- `Value` with a boolean literal, or `pValue` -/
inductive BoolValueM where
  | imm (b : BoolLit)
  | ref (n : RefName)

def BoolValueM.body : BoolValueM → Bool × Body
  | .imm b => (false, tb b.text)
  | .ref n => (true, tb n.name)

structure BooleanM where
  attr : AttrM
  elem : ElemM
  streamable : Option BoolLit
  value : BoolValueM
  onValue : Option IntLit
  offValue : Option IntLit
  pSelected : List Str

def BooleanM.children (m : BooleanM) : List Elem :=
  flat (m.elem.segs [] ++
    [ .opt cs!"Streamable" (m.streamable.map fun b => tb b.text),
      .one2 cs!"Value" cs!"pValue" m.value.body,
      .opt cs!"OnValue" (m.onValue.map fun l => tb l.text),
      .opt cs!"OffValue" (m.offValue.map fun l => tb l.text),
      .many cs!"pSelected" (m.pSelected.map tb) ])
def BooleanM.render (m : BooleanM) : Elem := .node cs!"Boolean" m.attr.render m.children

/-- defaults: not streamable, `OnValue` 1, `OffValue` 0; an immediate value is stored as
the on/off integer *after* `pSelected` has been read -/
def specBoolean (m : BooleanM) (st : St F) : BooleanNode × St F :=
  let a := specAttr m.attr st
  let e := specElem m.elem [] a.2
  let on := (m.onValue.map IntLit.val).getD 1
  let off := (m.offValue.map IntLit.val).getD 0
  match m.value with
  | .imm b =>
    let s := listS internS m.pSelected e.2
    let v := storeS (.int (if b.val then on else off)) s.2
    ({ attr := a.1, elem := e.1, streamable := (m.streamable.map BoolLit.val).getD false,
       value := .imm v.1, onValue := on, offValue := off, pSelected := s.1 }, v.2)
  | .ref n =>
    let r := internS n.name e.2
    let s := listS internS m.pSelected r.2
    ({ attr := a.1, elem := e.1, streamable := (m.streamable.map BoolLit.val).getD false,
       value := .pnode r.1, onValue := on, offValue := off, pSelected := s.1 }, s.2)

/-! ## Integer -/

/-- `Value` | `pValueCopy* pValue pValueCopy*` | `pIndex (ValueIndexed|pValueIndexed)* (ValueDefault|pValueDefault)` -/
inductive ValueM (L : Type) where
  | value (l : L)
  | pValue (before : List Str) (p : Str) (after : List Str)
  | pIndex (p : Str) (indexed : List (IntLit × IR L)) (dflt : IR L)

/-- body of `ValueIndexed` / `pValueIndexed` with its `Index` attribute -/
def indexedBody {L : Type} (text : L → Str) (x : IntLit × IR L) : Bool × Body :=
  match x.2 with
  | .imm l => (false, ([(cs!"Index", x.1.text)], TextFrag.frag (text l)))
  | .ref n => (true, ([(cs!"Index", x.1.text)], TextFrag.frag n.name))

def ValueM.segs {L : Type} (text : L → Str) : ValueM L → List Seg
  | .value l => [.one cs!"Value" (tb (text l))]
  | .pValue before p after =>
    [.many cs!"pValueCopy" (before.map tb), .one cs!"pValue" (tb p), .many cs!"pValueCopy" (after.map tb)]
  | .pIndex p indexed dflt =>
    [.one cs!"pIndex" (tb p),
     .many2 cs!"ValueIndexed" cs!"pValueIndexed" (indexed.map (indexedBody text)),
     .one2 cs!"ValueDefault" cs!"pValueDefault" (irBody text dflt)]

def indexedS {L : Type} (f : IR L → St F → ImmOrP Nat × St F) (x : IntLit × IR L) (st : St F) :
    ValueIndexed Nat × St F :=
  (⟨x.1.val, (f x.2 st).1⟩, (f x.2 st).2)

def valueS {L : Type} (fv : L → Value F) (f : IR L → St F → ImmOrP Nat × St F) :
    ValueM L → St F → ValueKind Nat × St F
  | .value l, st => (.value (storeS (fv l) st).1, (storeS (fv l) st).2)
  | .pValue before p after, st =>
    let b := listS internS before st
    let v := internS p b.2
    let c := listS internS after v.2
    (.pValue ⟨v.1, b.1 ++ c.1⟩, c.2)
  | .pIndex p indexed dflt, st =>
    let i := internS p st
    let xs := listS (indexedS f) indexed i.2
    let d := f dflt xs.2
    (.pIndex ⟨i.1, xs.1, d.1⟩, d.2)

structure IntegerM where
  attr : AttrM
  elem : ElemM
  streamable : Option BoolLit
  value : ValueM IntLit
  min : Option (IR IntLit)
  max : Option (IR IntLit)
  inc : Option (IR IntLit)
  unit : Option Str
  representation : Option IntRepr
  pSelected : List Str

def IntegerM.children (m : IntegerM) : List Elem :=
  flat (m.elem.segs [] ++ [.opt cs!"Streamable" (m.streamable.map fun b => tb b.text)] ++
    m.value.segs IntLit.text ++
    [ .opt2 cs!"Min" cs!"pMin" (m.min.map (irBody IntLit.text)),
      .opt2 cs!"Max" cs!"pMax" (m.max.map (irBody IntLit.text)),
      .opt2 cs!"Inc" cs!"pInc" (m.inc.map (irBody IntLit.text)),
      .opt cs!"Unit" (m.unit.map tb),
      .opt cs!"Representation" (m.representation.map fun r => tb r.text),
      .many cs!"pSelected" (m.pSelected.map tb) ])
def IntegerM.render (m : IntegerM) : Elem := .node cs!"Integer" m.attr.render m.children

/-- defaults: not streamable, `Inc` 1, `PureNumber`; `Min`/`Max` when omitted are deduced
from the representation and stored after everything else -/
def specInteger (m : IntegerM) (st : St F) : IntegerNode × St F :=
  let a := specAttr m.attr st
  let e := specElem m.elem [] a.2
  let v := valueS (fun l => .int l.val) irIntIdS m.value e.2
  let mn := optS irIntIdS m.min v.2
  let mx := optS irIntIdS m.max mn.2
  let ic := optS irIntS m.inc mx.2
  let sel := listS internS m.pSelected ic.2
  let rep := m.representation.getD .pureNumber
  let mn' : ImmOrP Nat × St F := match mn.1 with
    | some x => (x, sel.2)
    | none => (.imm (storeS (.int rep.deduceMin) sel.2).1, (storeS (.int rep.deduceMin) sel.2).2)
  let mx' : ImmOrP Nat × St F := match mx.1 with
    | some x => (x, mn'.2)
    | none => (.imm (storeS (.int rep.deduceMax) mn'.2).1, (storeS (.int rep.deduceMax) mn'.2).2)
  ({ attr := a.1, elem := e.1, streamable := (m.streamable.map BoolLit.val).getD false,
     valueKind := v.1, min := mn'.1, max := mx'.1, inc := ic.1.getD (.imm 1), unit := m.unit,
     representation := rep, pSelected := sel.1 }, mx'.2)

/-! ## IntSwissKnife -/

def listPure {α β : Type} (g : α → β) (vs : List α) (st : St F) : List β × St F := (vs.map g, st)

/-- `pVariable Name="x"` → node reference -/
def pVarS (x : Str × Str) (st : St F) : NamedValue Nat × St F :=
  (⟨x.1, (internS x.2 st).1⟩, (internS x.2 st).2)

/-- a formula text `formula::parse` accepts (formula syntax itself is property C05) -/
structure FormulaText (F : Type) [FloatLit F] where
  text : Str
  ok : FloatLit.formulaOk (F := F) text = true

structure IntSwissKnifeM (F : Type) [FloatLit F] where
  attr : AttrM
  elem : ElemM
  streamable : Option BoolLit
  /-- `(Name attribute, referenced node)` -/
  pVariables : List (Str × Str)
  constants : List (Str × IntLit)
  expressions : List (Str × FormulaText F)
  formula : FormulaText F
  unit : Option Str
  representation : Option IntRepr

variable [FloatLit F]

def IntSwissKnifeM.children (m : IntSwissKnifeM F) : List Elem :=
  flat (m.elem.segs [] ++
    [ .opt cs!"Streamable" (m.streamable.map fun b => tb b.text),
      .many cs!"pVariable" (m.pVariables.map fun x => ntb x.1 x.2),
      .many cs!"Constant" (m.constants.map fun x => ntb x.1 x.2.text),
      .many cs!"Expression" (m.expressions.map fun x => ntb x.1 x.2.text),
      .one cs!"Formula" (tb m.formula.text),
      .opt cs!"Unit" (m.unit.map tb),
      .opt cs!"Representation" (m.representation.map fun r => tb r.text) ])
def IntSwissKnifeM.render (m : IntSwissKnifeM F) : Elem :=
  .node cs!"IntSwissKnife" m.attr.render m.children

def specIntSwissKnife (m : IntSwissKnifeM F) (st : St F) : IntSwissKnifeNode × St F :=
  let a := specAttr m.attr st
  let e := specElem m.elem [] a.2
  let v := listS pVarS m.pVariables e.2
  ({ attr := a.1, elem := e.1, streamable := (m.streamable.map BoolLit.val).getD false,
     pVariables := v.1, constants := m.constants.map fun x => ⟨x.1, x.2.val⟩,
     expressions := m.expressions.map fun x => ⟨x.1, x.2.text⟩, formula := m.formula.text,
     unit := m.unit,
     representation := m.representation.getD .pureNumber }, v.2)

/-! ## Register base -/

/-- one knife-free address particle (address lists that embed `IntSwissKnife` declarations:
`AddrK` / `RegK` in section `Embedded` below, which generalise this) -/
inductive AddrM where
  | address (l : IntLit)
  | pAddress (n : RefName)
  /-- `pIndex` without attribute, with `Offset="…"`, or with `pOffset="…"` -/
  | pIndex (offset : Option (IntLit ⊕ Str)) (p : Str)

def AddrM.body : AddrM → AddrTag × Body
  | .address l => (.address, tb l.text)
  | .pAddress n => (.pAddress, tb n.name)
  | .pIndex none p => (.pIndex, tb p)
  | .pIndex (some (.inl l)) p => (.pIndex, ([(cs!"Offset", l.text)], (tb p).2))
  | .pIndex (some (.inr n)) p => (.pIndex, ([(cs!"pOffset", n)], (tb p).2))

def addrS : AddrM → St F → AddressKind × St F
  | .address l, st => (.address (.imm l.val), st)
  | .pAddress n, st => (.address (.pnode (internS n.name st).1), (internS n.name st).2)
  | .pIndex none p, st => (.pIndex ⟨none, (internS p st).1⟩, (internS p st).2)
  | .pIndex (some (.inl l)) p, st => (.pIndex ⟨some (.imm l.val), (internS p st).1⟩, (internS p st).2)
  | .pIndex (some (.inr n)) p, st =>
    (.pIndex ⟨some (.pnode (internS n st).1), (internS p (internS n st).2).1⟩,
      (internS p (internS n st).2).2)

structure RegM where
  elem : ElemM
  streamable : Option BoolLit
  addrs : List AddrM
  /-- `Length` | `pLength` -/
  length : IR IntLit
  accessMode : Option AccessMode
  pPort : Str
  cacheable : Option CachingMode
  pollingTime : Option UintLit
  pInvalidators : List Str

def RegM.segs (m : RegM) : List Seg :=
  m.elem.segs [] ++
    [ .opt cs!"Streamable" (m.streamable.map fun b => tb b.text),
      .manyAddr (m.addrs.map AddrM.body),
      .one2 cs!"Length" cs!"pLength" (irBody IntLit.text m.length),
      .opt cs!"AccessMode" (m.accessMode.map fun a => tb a.text),
      .one cs!"pPort" (tb m.pPort),
      .opt cs!"Cachable" (m.cacheable.map fun c => tb c.text),
      .opt cs!"PollingTime" (m.pollingTime.map fun l => tb l.text),
      .many cs!"pInvalidator" (m.pInvalidators.map tb) ]

def regTags : List Str :=
  elemTags ++ [cs!"Streamable", cs!"Address", cs!"IntSwissKnife", cs!"pAddress", cs!"pIndex",
    cs!"AccessMode", cs!"Cachable", cs!"PollingTime"]

/-- defaults: not streamable, `RO`, `WriteThrough`, no polling time -/
def specReg (m : RegM) (st : St F) : RegBase × St F :=
  let e := specElem m.elem [] st
  let a := listS addrS m.addrs e.2
  let l := irIntS m.length a.2
  let p := internS m.pPort l.2
  let i := listS internS m.pInvalidators p.2
  ({ elemBase := e.1, streamable := (m.streamable.map BoolLit.val).getD false, addressKinds := a.1,
     length := l.1, accessMode := m.accessMode.getD .ro, pPort := p.1,
     cacheable := m.cacheable.getD .writeThrough, pollingTime := m.pollingTime.map UintLit.val,
     pInvalidators := i.1 }, i.2)

/-- `store_invalidators`: one registration `(invalidator, target)` per invalidator, in order -/
def invalS (invalidators : List Nat) (target : Nat) (st : St F) : St F :=
  { st with invals := st.invals ++ invalidators.map fun i => (i, target) }

/-! ## IntReg, MaskedIntReg, StringReg / Register -/

structure IntRegM where
  attr : AttrM
  reg : RegM
  sign : Option Sign
  endianness : Option Endianness
  unit : Option Str
  representation : Option IntRepr
  pSelected : List Str

def intRegTail (sign : Option Sign) (endianness : Option Endianness) (unit : Option Str)
    (representation : Option IntRepr) (pSelected : List Str) : List Seg :=
  [ .opt cs!"Sign" (sign.map fun x => tb x.text),
    .opt cs!"Endianess" (endianness.map fun x => tb x.text),
    .opt cs!"Unit" (unit.map tb),
    .opt cs!"Representation" (representation.map fun r => tb r.text),
    .many cs!"pSelected" (pSelected.map tb) ]

def IntRegM.children (m : IntRegM) : List Elem :=
  flat (m.reg.segs ++ intRegTail m.sign m.endianness m.unit m.representation m.pSelected)
def IntRegM.render (m : IntRegM) : Elem := .node cs!"IntReg" m.attr.render m.children

/-- defaults `Unsigned`, `LittleEndian`, `PureNumber`; the register's invalidators are
registered for the node after everything is read -/
def specIntReg (m : IntRegM) (st : St F) : IntRegNode × St F :=
  let a := specAttr m.attr st
  let r := specReg m.reg a.2
  let s := listS internS m.pSelected r.2
  ({ attr := a.1, reg := r.1, sign := m.sign.getD .unsigned, endianness := m.endianness.getD .le,
     unit := m.unit, representation := m.representation.getD .pureNumber, pSelected := s.1 },
   invalS r.1.pInvalidators a.1.id s.2)

/-- `Bit` | `LSB` `MSB` -/
inductive BitM where
  | bit (b : UintLit)
  | range (lsb msb : UintLit)

def BitM.segs : BitM → List Seg
  | .bit b => [.one cs!"Bit" (tb b.text)]
  | .range l m => [.one cs!"LSB" (tb l.text), .one cs!"MSB" (tb m.text)]

def BitM.val : BitM → BitMask
  | .bit b => .singleBit b.val
  | .range l m => .range l.val m.val

structure MaskedM where
  attr : AttrM
  reg : RegM
  bitMask : BitM
  sign : Option Sign
  endianness : Option Endianness
  unit : Option Str
  representation : Option IntRepr
  pSelected : List Str

def MaskedM.children (m : MaskedM) : List Elem :=
  flat (m.reg.segs ++ m.bitMask.segs ++
    intRegTail m.sign m.endianness m.unit m.representation m.pSelected)
def MaskedM.render (m : MaskedM) : Elem := .node cs!"MaskedIntReg" m.attr.render m.children

def specMasked (m : MaskedM) (st : St F) : MaskedIntRegNode × St F :=
  let a := specAttr m.attr st
  let r := specReg m.reg a.2
  let s := listS internS m.pSelected r.2
  ({ attr := a.1, reg := r.1, bitMask := m.bitMask.val, sign := m.sign.getD .unsigned,
     endianness := m.endianness.getD .le, unit := m.unit,
     representation := m.representation.getD .pureNumber, pSelected := s.1 },
   invalS r.1.pInvalidators a.1.id s.2)

/-- `StringReg` and `Register` -/
structure PlainRegM where
  attr : AttrM
  reg : RegM

def PlainRegM.children (m : PlainRegM) : List Elem := flat m.reg.segs
def PlainRegM.render (tag : Str) (m : PlainRegM) : Elem := .node tag m.attr.render m.children

def specPlainReg (m : PlainRegM) (st : St F) : PlainRegNode × St F :=
  let a := specAttr m.attr st
  let r := specReg m.reg a.2
  (⟨a.1, r.1⟩, invalS r.1.pInvalidators a.1.id r.2)

/-! ## StructReg -/

structure EntryM where
  attr : AttrM
  elem : ElemM
  pInvalidators : List Str
  accessMode : Option AccessMode
  cacheable : Option CachingMode
  pollingTime : Option UintLit
  streamable : Option BoolLit
  bitMask : BitM
  sign : Option Sign
  unit : Option Str
  representation : Option IntRepr
  pSelected : List Str

/-- schema order of a `StructEntry`: element base, `pInvalidator*`, `AccessMode`, `Cachable`,
`PollingTime`, `Streamable`, bit mask, `Sign`, `Unit`, `Representation`, `pSelected*` -/
def EntryM.segs (e : EntryM) : List Seg :=
  e.elem.segs e.pInvalidators ++
    ([ .opt cs!"AccessMode" (e.accessMode.map fun a => tb a.text),
       .opt cs!"Cachable" (e.cacheable.map fun c => tb c.text),
       .opt cs!"PollingTime" (e.pollingTime.map fun l => tb l.text),
       .opt cs!"Streamable" (e.streamable.map fun b => tb b.text) ] ++
     (e.bitMask.segs ++
      [ .opt cs!"Sign" (e.sign.map fun x => tb x.text),
        .opt cs!"Unit" (e.unit.map tb),
        .opt cs!"Representation" (e.representation.map fun r => tb r.text),
        .many cs!"pSelected" (e.pSelected.map tb) ]))

def EntryM.body (e : EntryM) : Body := (e.attr.render, flat e.segs)

structure StructM where
  /-- attributes of the `StructReg` element (`Comment` …); the parser reads none -/
  attrs : List (Str × Str)
  reg : RegM
  endianness : Option Endianness
  entries : List EntryM

def StructM.children (m : StructM) : List Elem :=
  flat (m.reg.segs ++
    [ .opt cs!"Endianess" (m.endianness.map fun x => tb x.text),
      .many cs!"StructEntry" (m.entries.map EntryM.body) ])
def StructM.render (m : StructM) : Elem := .node cs!"StructReg" m.attrs m.children

/-- what the entry itself declares (defaults filled in, flags for the declared
defaultable properties) -/
def specEntry (e : EntryM) (st : St F) : StructEntryNode × St F :=
  let a := specAttr e.attr st
  let el := specElem e.elem e.pInvalidators a.2
  let s := listS internS e.pSelected el.2
  ({ attr := a.1
     elem := { el.1 with pInvalidators := [] }
     declared :=
       { visibility := e.elem.visibility.isSome, isDeprecated := e.elem.isDeprecated.isSome
         imposedAccessMode := e.elem.imposedAccessMode.isSome, streamable := e.streamable.isSome
         accessMode := e.accessMode.isSome, cacheable := e.cacheable.isSome }
     pInvalidators := el.1.pInvalidators
     accessMode := e.accessMode.getD .ro
     cacheable := e.cacheable.getD .writeThrough
     pollingTime := e.pollingTime.map UintLit.val
     streamable := (e.streamable.map BoolLit.val).getD false
     bitMask := e.bitMask.val, sign := e.sign.getD .unsigned, unit := e.unit
     representation := e.representation.getD .pureNumber, pSelected := s.1 }, s.2)

/-- `into_masked_int_regs`: merge every entry with the structure's register base and register
the merged invalidators, in entry order -/
def maskedOfEntries (reg : RegBase) (en : Endianness) :
    List StructEntryNode → St F → List MaskedIntRegNode × St F
  | [], st => ([], st)
  | e :: es, st =>
    let m := e.toMasked reg en
    let r := maskedOfEntries reg en es (invalS m.reg.pInvalidators m.attr.id st)
    (m :: r.1, r.2)

def specStruct (m : StructM) (st : St F) : List MaskedIntRegNode × St F :=
  let r := specReg m.reg st
  let es := listS specEntry m.entries r.2
  maskedOfEntries r.1 (m.endianness.getD .le) es.1 es.2

/-! ## Name-level normal forms (references as the declared names)

`…V` mirrors the node structs with node ids replaced by names; `view st` reads a parsed
struct through the interner of `st`; `pure…` is the normal form of an abstract declaration
with the schema defaults and the declared names.  `refs_resolve_*` (Props): the view of what
the parser produced is the pure normal form — every reference resolves to the declared name. -/

inductive ImmOrPV (α : Type) where
  | imm (a : α)
  | pnode (n : Str)
  deriving DecidableEq, Repr

inductive AddressV where
  | address (a : ImmOrPV Int)
  | intSwissKnife (n : Str)
  | pIndex (offset : Option (ImmOrPV Int)) (p : Str)
  deriving DecidableEq, Repr

structure AttrV where
  name : Str
  nameSpace : NameSpace
  mergePriority : MergePriority
  exposeStatic : Option Bool
  deriving DecidableEq, Repr

structure ElemV where
  tooltip : Option Str
  description : Option Str
  displayName : Option Str
  visibility : Visibility
  docuUrl : Option Str
  isDeprecated : Bool
  eventId : Option Nat
  pIsImplemented : Option Str
  pIsAvailable : Option Str
  pIsLocked : Option Str
  pBlockPolling : Option Str
  imposedAccessMode : AccessMode
  pErrors : List Str
  pAlias : Option Str
  pCastAlias : Option Str
  pInvalidators : List Str
  deriving DecidableEq, Repr

structure RegV where
  elemBase : ElemV
  streamable : Bool
  addressKinds : List AddressV
  length : ImmOrPV Int
  accessMode : AccessMode
  pPort : Str
  cacheable : CachingMode
  pollingTime : Option Nat
  pInvalidators : List Str
  deriving DecidableEq, Repr

structure MaskedV where
  attr : AttrV
  reg : RegV
  bitMask : BitMask
  sign : Sign
  endianness : Endianness
  unit : Option Str
  representation : IntRepr
  pSelected : List Str
  deriving DecidableEq, Repr

/-- `NodeStore::name_by_id` -/
def nameOf (st : St F) (id : Nat) : Str := st.names.getD id []

def ImmOrP.view {α : Type} (st : St F) : ImmOrP α → ImmOrPV α
  | .imm a => .imm a
  | .pnode id => .pnode (nameOf st id)

def AddressKind.view (st : St F) : AddressKind → AddressV
  | .address a => .address (a.view st)
  | .intSwissKnife id => .intSwissKnife (nameOf st id)
  | .pIndex p => .pIndex (p.offset.map (ImmOrP.view st)) (nameOf st p.pIndex)

def AttrBase.view (st : St F) (a : AttrBase) : AttrV :=
  ⟨nameOf st a.id, a.nameSpace, a.mergePriority, a.exposeStatic⟩

def ElemBase.view (st : St F) (e : ElemBase) : ElemV :=
  { tooltip := e.tooltip, description := e.description, displayName := e.displayName
    visibility := e.visibility, docuUrl := e.docuUrl, isDeprecated := e.isDeprecated
    eventId := e.eventId
    pIsImplemented := e.pIsImplemented.map (nameOf st)
    pIsAvailable := e.pIsAvailable.map (nameOf st)
    pIsLocked := e.pIsLocked.map (nameOf st)
    pBlockPolling := e.pBlockPolling.map (nameOf st)
    imposedAccessMode := e.imposedAccessMode
    pErrors := e.pErrors.map (nameOf st)
    pAlias := e.pAlias.map (nameOf st)
    pCastAlias := e.pCastAlias.map (nameOf st)
    pInvalidators := e.pInvalidators.map (nameOf st) }

def RegBase.view (st : St F) (r : RegBase) : RegV :=
  { elemBase := r.elemBase.view st, streamable := r.streamable
    addressKinds := r.addressKinds.map (AddressKind.view st)
    length := r.length.view st, accessMode := r.accessMode, pPort := nameOf st r.pPort
    cacheable := r.cacheable, pollingTime := r.pollingTime
    pInvalidators := r.pInvalidators.map (nameOf st) }

def MaskedIntRegNode.view (st : St F) (n : MaskedIntRegNode) : MaskedV :=
  { attr := n.attr.view st, reg := n.reg.view st, bitMask := n.bitMask, sign := n.sign
    endianness := n.endianness, unit := n.unit, representation := n.representation
    pSelected := n.pSelected.map (nameOf st) }

def pureAttr (m : AttrM) : AttrV :=
  ⟨m.name, m.nameSpace.getD .custom, m.mergePriority.getD .mid, m.exposeStatic.map BoolLit.val⟩

def pureElem (m : ElemM) (pInvalidators : List Str) : ElemV :=
  { tooltip := m.tooltip, description := m.description, displayName := m.displayName
    visibility := m.visibility.getD .beginner, docuUrl := m.docuUrl
    isDeprecated := (m.isDeprecated.map BoolLit.val).getD false
    eventId := m.eventId.map HexLit.val
    pIsImplemented := m.pIsImplemented, pIsAvailable := m.pIsAvailable, pIsLocked := m.pIsLocked
    pBlockPolling := m.pBlockPolling, imposedAccessMode := m.imposedAccessMode.getD .rw
    pErrors := m.pErrors, pAlias := m.pAlias, pCastAlias := m.pCastAlias
    pInvalidators := pInvalidators }

def pureIR : IR IntLit → ImmOrPV Int
  | .imm l => .imm l.val
  | .ref n => .pnode n.name

def pureAddr : AddrM → AddressV
  | .address l => .address (.imm l.val)
  | .pAddress n => .address (.pnode n.name)
  | .pIndex none p => .pIndex none p
  | .pIndex (some (.inl l)) p => .pIndex (some (.imm l.val)) p
  | .pIndex (some (.inr n)) p => .pIndex (some (.pnode n)) p

def pureReg (m : RegM) : RegV :=
  { elemBase := pureElem m.elem [], streamable := (m.streamable.map BoolLit.val).getD false
    addressKinds := m.addrs.map pureAddr, length := pureIR m.length
    accessMode := m.accessMode.getD .ro, pPort := m.pPort
    cacheable := m.cacheable.getD .writeThrough, pollingTime := m.pollingTime.map UintLit.val
    pInvalidators := m.pInvalidators }

def pureMasked (m : MaskedM) : MaskedV :=
  { attr := pureAttr m.attr, reg := pureReg m.reg, bitMask := m.bitMask.val
    sign := m.sign.getD .unsigned, endianness := m.endianness.getD .le, unit := m.unit
    representation := m.representation.getD .pureNumber, pSelected := m.pSelected }

/-! ### the desugared twin of a StructReg -/

/-- entry's declaration if present, else the structure's -/
def inherit {α : Type} (entry struct : Option α) : Option α :=
  match entry with
  | some x => some x
  | none => struct

/-- entry's list if it declares any, else the structure's -/
def inheritList {α : Type} (entry struct : List α) : List α :=
  match entry with
  | [] => struct
  | _ => entry

/-- The `MaskedIntReg` declaration equivalent to entry `e` of structure `s`: every property the
entry declares overrides the structure's, every other one is inherited (GenICam 2.8.7);
address, length, port and endianness are the structure's. -/
def twin (s : StructM) (e : EntryM) : MaskedM :=
  { attr := e.attr
    reg :=
      { elem :=
          { extension := none
            tooltip := inherit e.elem.tooltip s.reg.elem.tooltip
            description := inherit e.elem.description s.reg.elem.description
            displayName := inherit e.elem.displayName s.reg.elem.displayName
            visibility := inherit e.elem.visibility s.reg.elem.visibility
            docuUrl := inherit e.elem.docuUrl s.reg.elem.docuUrl
            isDeprecated := inherit e.elem.isDeprecated s.reg.elem.isDeprecated
            eventId := inherit e.elem.eventId s.reg.elem.eventId
            pIsImplemented := inherit e.elem.pIsImplemented s.reg.elem.pIsImplemented
            pIsAvailable := inherit e.elem.pIsAvailable s.reg.elem.pIsAvailable
            pIsLocked := inherit e.elem.pIsLocked s.reg.elem.pIsLocked
            pBlockPolling := inherit e.elem.pBlockPolling s.reg.elem.pBlockPolling
            imposedAccessMode := inherit e.elem.imposedAccessMode s.reg.elem.imposedAccessMode
            pErrors := inheritList e.elem.pErrors s.reg.elem.pErrors
            pAlias := inherit e.elem.pAlias s.reg.elem.pAlias
            pCastAlias := inherit e.elem.pCastAlias s.reg.elem.pCastAlias }
        streamable := inherit e.streamable s.reg.streamable
        addrs := s.reg.addrs
        length := s.reg.length
        accessMode := inherit e.accessMode s.reg.accessMode
        pPort := s.reg.pPort
        cacheable := inherit e.cacheable s.reg.cacheable
        pollingTime := inherit e.pollingTime s.reg.pollingTime
        pInvalidators := inheritList e.pInvalidators s.reg.pInvalidators }
    bitMask := e.bitMask, sign := e.sign, endianness := s.endianness, unit := e.unit
    representation := e.representation, pSelected := e.pSelected }

/-- name-level view of what a `StructEntry` itself declares -/
structure EntryV where
  attr : AttrV
  elem : ElemV
  declared : Declared
  pInvalidators : List Str
  accessMode : AccessMode
  cacheable : CachingMode
  pollingTime : Option Nat
  streamable : Bool
  bitMask : BitMask
  sign : Sign
  unit : Option Str
  representation : IntRepr
  pSelected : List Str
  deriving DecidableEq, Repr

def StructEntryNode.view (st : St F) (e : StructEntryNode) : EntryV :=
  { attr := e.attr.view st, elem := e.elem.view st, declared := e.declared
    pInvalidators := e.pInvalidators.map (nameOf st), accessMode := e.accessMode
    cacheable := e.cacheable, pollingTime := e.pollingTime, streamable := e.streamable
    bitMask := e.bitMask, sign := e.sign, unit := e.unit, representation := e.representation
    pSelected := e.pSelected.map (nameOf st) }

def pureEntry (e : EntryM) : EntryV :=
  { attr := pureAttr e.attr, elem := pureElem e.elem []
    declared :=
      { visibility := e.elem.visibility.isSome, isDeprecated := e.elem.isDeprecated.isSome
        imposedAccessMode := e.elem.imposedAccessMode.isSome, streamable := e.streamable.isSome
        accessMode := e.accessMode.isSome, cacheable := e.cacheable.isSome }
    pInvalidators := e.pInvalidators
    accessMode := e.accessMode.getD .ro, cacheable := e.cacheable.getD .writeThrough
    pollingTime := e.pollingTime.map UintLit.val
    streamable := (e.streamable.map BoolLit.val).getD false
    bitMask := e.bitMask.val, sign := e.sign.getD .unsigned, unit := e.unit
    representation := e.representation.getD .pureNumber, pSelected := e.pSelected }

/-- the merge of `struct_reg.rs` on name-level views -/
def mergeElemV (l r : ElemV) (d : Declared) : ElemV :=
  { tooltip := mergeOpt l.tooltip r.tooltip
    description := mergeOpt l.description r.description
    displayName := mergeOpt l.displayName r.displayName
    visibility := mergeDeclared d.visibility l.visibility r.visibility
    docuUrl := mergeOpt l.docuUrl r.docuUrl
    isDeprecated := mergeDeclared d.isDeprecated l.isDeprecated r.isDeprecated
    eventId := mergeOpt l.eventId r.eventId
    pIsImplemented := mergeOpt l.pIsImplemented r.pIsImplemented
    pIsAvailable := mergeOpt l.pIsAvailable r.pIsAvailable
    pIsLocked := mergeOpt l.pIsLocked r.pIsLocked
    pBlockPolling := mergeOpt l.pBlockPolling r.pBlockPolling
    imposedAccessMode := mergeDeclared d.imposedAccessMode l.imposedAccessMode r.imposedAccessMode
    pErrors := mergeVec l.pErrors r.pErrors
    pAlias := mergeOpt l.pAlias r.pAlias
    pCastAlias := mergeOpt l.pCastAlias r.pCastAlias
    pInvalidators := l.pInvalidators }

def toMaskedV (e : EntryV) (reg : RegV) (endianness : Endianness) : MaskedV :=
  { attr := e.attr
    reg := { reg with
      elemBase := mergeElemV reg.elemBase e.elem e.declared
      streamable := mergeDeclared e.declared.streamable reg.streamable e.streamable
      accessMode := mergeDeclared e.declared.accessMode reg.accessMode e.accessMode
      cacheable := mergeDeclared e.declared.cacheable reg.cacheable e.cacheable
      pollingTime := mergeOpt reg.pollingTime e.pollingTime
      pInvalidators := mergeVec reg.pInvalidators e.pInvalidators }
    bitMask := e.bitMask, sign := e.sign, endianness, unit := e.unit
    representation := e.representation, pSelected := e.pSelected }

/-! ## Literal renderings (decimal, hexadecimal) -/

/-- decimal / lower-case / upper-case hexadecimal digit -/
def digitChar (upper : Bool) (d : Nat) : Char :=
  if d < 10 then Char.ofNat (48 + d) else Char.ofNat ((if upper then 55 else 87) + d)

/-- digits of `n` in the given radix (most significant first, no leading zeros, `0` ↦ "0") -/
def natDigits (radix : Nat) (upper : Bool) (n : Nat) : List Char :=
  if h : n < radix ∨ radix < 2 then [digitChar upper n]
  else natDigits radix upper (n / radix) ++ [digitChar upper (n % radix)]
termination_by n
decreasing_by
  have : 2 ≤ radix := by omega
  have : radix ≤ n := by omega
  exact Nat.div_lt_self (by omega) (by omega)

/-- decimal rendering of an integer -/
def decInt (n : Int) : Str :=
  if n < 0 then '-' :: natDigits 10 false n.natAbs else natDigits 10 false n.natAbs

/-- `0x…` / `0X…` rendering of a natural number -/
def hexNat (upperPrefix upperDigits : Bool) (n : Nat) : Str :=
  '0' :: (if upperPrefix then 'X' else 'x') :: natDigits 16 upperDigits n

/-! ## Float, FloatReg -/

structure FloatM (F : Type) [FloatLit F] where
  attr : AttrM
  elem : ElemM
  streamable : Option BoolLit
  value : ValueM (FltLit F)
  min : Option (IR (FltLit F))
  max : Option (IR (FltLit F))
  inc : Option (IR (FltLit F))
  unit : Option Str
  representation : Option FloatRepr
  displayNotation : Option DisplayNotation
  displayPrecision : Option IntLit

def FloatM.children (m : FloatM F) : List Elem :=
  flat (m.elem.segs [] ++ [.opt cs!"Streamable" (m.streamable.map fun b => tb b.text)] ++
    m.value.segs FltLit.text ++
    [ .opt2 cs!"Min" cs!"pMin" (m.min.map (irBody FltLit.text)),
      .opt2 cs!"Max" cs!"pMax" (m.max.map (irBody FltLit.text)),
      .opt2 cs!"Inc" cs!"pInc" (m.inc.map (irBody FltLit.text)),
      .opt cs!"Unit" (m.unit.map tb),
      .opt cs!"Representation" (m.representation.map fun r => tb r.text),
      .opt cs!"DisplayNotation" (m.displayNotation.map fun r => tb r.text),
      .opt cs!"DisplayPrecision" (m.displayPrecision.map fun l => tb l.text) ])
def FloatM.render (m : FloatM F) : Elem := .node cs!"Float" m.attr.render m.children

/-- defaults: not streamable, `Min`/`Max` = `f64::MIN`/`f64::MAX` (stored where the element
would have been), no increment, `PureNumber`, `Automatic`, precision 6 -/
def specFloat (m : FloatM F) (st : St F) : FloatNode F × St F :=
  let a := specAttr m.attr st
  let e := specElem m.elem [] a.2
  let v := valueS (fun l => .float l.val) irFloatIdS m.value e.2
  let mn : ImmOrP Nat × St F := match m.min with
    | some x => irFloatIdS x v.2
    | none => (.imm (storeS (.float FloatLit.f64Min) v.2).1, (storeS (.float FloatLit.f64Min) v.2).2)
  let mx : ImmOrP Nat × St F := match m.max with
    | some x => irFloatIdS x mn.2
    | none => (.imm (storeS (.float FloatLit.f64Max) mn.2).1, (storeS (.float FloatLit.f64Max) mn.2).2)
  let ic := optS irFloatS m.inc mx.2
  ({ attr := a.1, elem := e.1, streamable := (m.streamable.map BoolLit.val).getD false,
     valueKind := v.1, min := mn.1, max := mx.1, inc := ic.1, unit := m.unit,
     representation := m.representation.getD .pureNumber,
     displayNotation := m.displayNotation.getD .automatic,
     displayPrecision := (m.displayPrecision.map IntLit.val).getD 6 }, ic.2)

structure FloatRegM where
  attr : AttrM
  reg : RegM
  endianness : Option Endianness
  unit : Option Str
  representation : Option FloatRepr
  displayNotation : Option DisplayNotation
  displayPrecision : Option IntLit

def FloatRegM.children (m : FloatRegM) : List Elem :=
  flat (m.reg.segs ++
    [ .opt cs!"Endianess" (m.endianness.map fun x => tb x.text),
      .opt cs!"Unit" (m.unit.map tb),
      .opt cs!"Representation" (m.representation.map fun r => tb r.text),
      .opt cs!"DisplayNotation" (m.displayNotation.map fun r => tb r.text),
      .opt cs!"DisplayPrecision" (m.displayPrecision.map fun l => tb l.text) ])
def FloatRegM.render (m : FloatRegM) : Elem := .node cs!"FloatReg" m.attr.render m.children

def specFloatReg (m : FloatRegM) (st : St F) : FloatRegNode × St F :=
  let a := specAttr m.attr st
  let r := specReg m.reg a.2
  ({ attr := a.1, reg := r.1, endianness := m.endianness.getD .le, unit := m.unit,
     representation := m.representation.getD .pureNumber,
     displayNotation := m.displayNotation.getD .automatic,
     displayPrecision := (m.displayPrecision.map IntLit.val).getD 6 },
   invalS r.1.pInvalidators a.1.id r.2)

/-! ## String, Port -/

/-- `Value` (any text, stored) | `pValue` -/
inductive StringValueM where
  | imm (s : Str)
  | ref (n : Str)

def StringValueM.body : StringValueM → Bool × Body
  | .imm s => (false, tb s)
  | .ref n => (true, tb n)

structure StringM where
  attr : AttrM
  elem : ElemM
  streamable : Option BoolLit
  value : StringValueM

def StringM.children (m : StringM) : List Elem :=
  flat (m.elem.segs [] ++
    [ .opt cs!"Streamable" (m.streamable.map fun b => tb b.text),
      .one2 cs!"Value" cs!"pValue" m.value.body ])
def StringM.render (m : StringM) : Elem := .node cs!"String" m.attr.render m.children

def specString (m : StringM) (st : St F) : StringNode × St F :=
  let a := specAttr m.attr st
  let e := specElem m.elem [] a.2
  let v : ImmOrP Nat × St F := match m.value with
    | .imm s => (.imm (storeS (.str s) e.2).1, (storeS (.str s) e.2).2)
    | .ref n => (.pnode (internS n e.2).1, (internS n e.2).2)
  ({ attr := a.1, elem := e.1, streamable := (m.streamable.map BoolLit.val).getD false,
     value := v.1 }, v.2)

/-- `ChunkID` (bare hexadecimal) | `pChunkID` -/
inductive ChunkM where
  | imm (h : HexLit)
  | ref (n : Str)

def ChunkM.body : ChunkM → Bool × Body
  | .imm h => (false, tb h.text)
  | .ref n => (true, tb n)

structure PortM where
  attr : AttrM
  elem : ElemM
  chunkId : Option ChunkM
  swapEndianness : Option BoolLit
  cacheChunkData : Option BoolLit

def PortM.children (m : PortM) : List Elem :=
  flat (m.elem.segs [] ++
    [ .opt2 cs!"ChunkID" cs!"pChunkID" (m.chunkId.map ChunkM.body),
      .opt cs!"SwapEndianess" (m.swapEndianness.map fun b => tb b.text),
      .opt cs!"CacheChunkData" (m.cacheChunkData.map fun b => tb b.text) ])
def PortM.render (m : PortM) : Elem := .node cs!"Port" m.attr.render m.children

def chunkS : ChunkM → St F → ImmOrP Nat × St F
  | .imm h, st => (.imm h.val, st)
  | .ref n, st => (.pnode (internS n st).1, (internS n st).2)

def specPort (m : PortM) (st : St F) : PortNode × St F :=
  let a := specAttr m.attr st
  let e := specElem m.elem [] a.2
  let c := optS chunkS m.chunkId e.2
  ({ attr := a.1, elem := e.1, chunkId := c.1,
     swapEndianness := (m.swapEndianness.map BoolLit.val).getD false,
     cacheChunkData := (m.cacheChunkData.map BoolLit.val).getD false }, c.2)

/-! ## SwissKnife, Converter, IntConverter -/

structure SwissKnifeM (F : Type) [FloatLit F] where
  attr : AttrM
  elem : ElemM
  streamable : Option BoolLit
  pVariables : List (Str × Str)
  constants : List (Str × FltLit F)
  expressions : List (Str × FormulaText F)
  formula : FormulaText F
  unit : Option Str
  representation : Option FloatRepr
  displayNotation : Option DisplayNotation
  displayPrecision : Option IntLit

def SwissKnifeM.children (m : SwissKnifeM F) : List Elem :=
  flat (m.elem.segs [] ++
    [ .opt cs!"Streamable" (m.streamable.map fun b => tb b.text),
      .many cs!"pVariable" (m.pVariables.map fun x => ntb x.1 x.2),
      .many cs!"Constant" (m.constants.map fun x => ntb x.1 x.2.text),
      .many cs!"Expression" (m.expressions.map fun x => ntb x.1 x.2.text),
      .one cs!"Formula" (tb m.formula.text),
      .opt cs!"Unit" (m.unit.map tb),
      .opt cs!"Representation" (m.representation.map fun r => tb r.text),
      .opt cs!"DisplayNotation" (m.displayNotation.map fun r => tb r.text),
      .opt cs!"DisplayPrecision" (m.displayPrecision.map fun l => tb l.text) ])
def SwissKnifeM.render (m : SwissKnifeM F) : Elem := .node cs!"SwissKnife" m.attr.render m.children

def specSwissKnife (m : SwissKnifeM F) (st : St F) : SwissKnifeNode F × St F :=
  let a := specAttr m.attr st
  let e := specElem m.elem [] a.2
  let v := listS pVarS m.pVariables e.2
  ({ attr := a.1, elem := e.1, streamable := (m.streamable.map BoolLit.val).getD false,
     pVariables := v.1, constants := m.constants.map fun x => ⟨x.1, x.2.val⟩,
     expressions := m.expressions.map fun x => ⟨x.1, x.2.text⟩, formula := m.formula.text,
     unit := m.unit, representation := m.representation.getD .pureNumber,
     displayNotation := m.displayNotation.getD .automatic,
     displayPrecision := (m.displayPrecision.map IntLit.val).getD 6 }, v.2)

structure ConverterM (F : Type) [FloatLit F] where
  attr : AttrM
  elem : ElemM
  streamable : Option BoolLit
  pVariables : List (Str × Str)
  constants : List (Str × FltLit F)
  expressions : List (Str × FormulaText F)
  formulaTo : FormulaText F
  formulaFrom : FormulaText F
  pValue : Str
  unit : Option Str
  representation : Option FloatRepr
  displayNotation : Option DisplayNotation
  displayPrecision : Option IntLit
  slope : Option Slope
  isLinear : Option BoolLit

def ConverterM.children (m : ConverterM F) : List Elem :=
  flat (m.elem.segs [] ++
    [ .opt cs!"Streamable" (m.streamable.map fun b => tb b.text),
      .many cs!"pVariable" (m.pVariables.map fun x => ntb x.1 x.2),
      .many cs!"Constant" (m.constants.map fun x => ntb x.1 x.2.text),
      .many cs!"Expression" (m.expressions.map fun x => ntb x.1 x.2.text),
      .one cs!"FormulaTo" (tb m.formulaTo.text),
      .one cs!"FormulaFrom" (tb m.formulaFrom.text),
      .one cs!"pValue" (tb m.pValue),
      .opt cs!"Unit" (m.unit.map tb),
      .opt cs!"Representation" (m.representation.map fun r => tb r.text),
      .opt cs!"DisplayNotation" (m.displayNotation.map fun r => tb r.text),
      .opt cs!"DisplayPrecision" (m.displayPrecision.map fun l => tb l.text),
      .opt cs!"Slope" (m.slope.map fun r => tb r.text),
      .opt cs!"IsLinear" (m.isLinear.map fun b => tb b.text) ])
def ConverterM.render (m : ConverterM F) : Elem := .node cs!"Converter" m.attr.render m.children

/-- defaults: `PureNumber`, `Automatic` notation, precision 6, `Automatic` slope, not linear -/
def specConverter (m : ConverterM F) (st : St F) : ConverterNode F × St F :=
  let a := specAttr m.attr st
  let e := specElem m.elem [] a.2
  let v := listS pVarS m.pVariables e.2
  let p := internS m.pValue v.2
  ({ attr := a.1, elem := e.1, streamable := (m.streamable.map BoolLit.val).getD false,
     pVariables := v.1, constants := m.constants.map fun x => ⟨x.1, x.2.val⟩,
     expressions := m.expressions.map fun x => ⟨x.1, x.2.text⟩,
     formulaTo := m.formulaTo.text, formulaFrom := m.formulaFrom.text, pValue := p.1,
     unit := m.unit, representation := m.representation.getD .pureNumber,
     displayNotation := m.displayNotation.getD .automatic,
     displayPrecision := (m.displayPrecision.map IntLit.val).getD 6,
     slope := m.slope.getD .automatic, isLinear := (m.isLinear.map BoolLit.val).getD false }, p.2)

structure IntConverterM (F : Type) [FloatLit F] where
  attr : AttrM
  elem : ElemM
  streamable : Option BoolLit
  pVariables : List (Str × Str)
  constants : List (Str × IntLit)
  expressions : List (Str × FormulaText F)
  formulaTo : FormulaText F
  formulaFrom : FormulaText F
  pValue : Str
  unit : Option Str
  representation : Option IntRepr
  slope : Option Slope

def IntConverterM.children (m : IntConverterM F) : List Elem :=
  flat (m.elem.segs [] ++
    [ .opt cs!"Streamable" (m.streamable.map fun b => tb b.text),
      .many cs!"pVariable" (m.pVariables.map fun x => ntb x.1 x.2),
      .many cs!"Constant" (m.constants.map fun x => ntb x.1 x.2.text),
      .many cs!"Expression" (m.expressions.map fun x => ntb x.1 x.2.text),
      .one cs!"FormulaTo" (tb m.formulaTo.text),
      .one cs!"FormulaFrom" (tb m.formulaFrom.text),
      .one cs!"pValue" (tb m.pValue),
      .opt cs!"Unit" (m.unit.map tb),
      .opt cs!"Representation" (m.representation.map fun r => tb r.text),
      .opt cs!"Slope" (m.slope.map fun r => tb r.text) ])
def IntConverterM.render (m : IntConverterM F) : Elem :=
  .node cs!"IntConverter" m.attr.render m.children

def specIntConverter (m : IntConverterM F) (st : St F) : IntConverterNode × St F :=
  let a := specAttr m.attr st
  let e := specElem m.elem [] a.2
  let v := listS pVarS m.pVariables e.2
  let p := internS m.pValue v.2
  ({ attr := a.1, elem := e.1, streamable := (m.streamable.map BoolLit.val).getD false,
     pVariables := v.1, constants := m.constants.map fun x => ⟨x.1, x.2.val⟩,
     expressions := m.expressions.map fun x => ⟨x.1, x.2.text⟩,
     formulaTo := m.formulaTo.text, formulaFrom := m.formulaFrom.text, pValue := p.1,
     unit := m.unit, representation := m.representation.getD .pureNumber,
     slope := m.slope.getD .automatic }, p.2)

/-! ## Enumeration and its entries -/

structure EnumEntryM (F : Type) [FloatLit F] where
  /-- `Name` is the symbolic name of the entry -/
  attr : AttrM
  elem : ElemM
  value : IntLit
  numericValue : Option (FltLit F)
  isSelfClearing : Option BoolLit

def EnumEntryM.body (e : EnumEntryM F) : Body :=
  (e.attr.render, flat (e.elem.segs [] ++
    [ .one cs!"Value" (tb e.value.text),
      .opt cs!"NumericValue" (e.numericValue.map fun l => tb l.text),
      .opt cs!"IsSelfClearing" (e.isSelfClearing.map fun b => tb b.text) ]))

/-- An entry is stored under the fresh name `$<symbolic>_<k>` (`k` = fresh-id counter); defaults
`Custom` / `Mid`, no numeric value, not self clearing. -/
def specEnumEntry (e : EnumEntryM F) (st : St F) : EnumEntryNode F × St F :=
  let i := internS ('$' :: e.attr.name ++ '_' :: Nat.toDigits 10 st.fresh)
    { st with fresh := st.fresh + 1 }
  let el := specElem e.elem [] i.2
  ({ attr := ⟨i.1, e.attr.nameSpace.getD .custom, e.attr.mergePriority.getD .mid,
        e.attr.exposeStatic.map BoolLit.val⟩
     elem := el.1, value := e.value.val, numericValue := e.numericValue.map FltLit.val
     symbolic := e.attr.name
     isSelfClearing := (e.isSelfClearing.map BoolLit.val).getD false }, el.2)

/-- `store_node`: with debug assertions a second node under the same id panics -/
def storeNodeS (pr : Profile) (id : Nat) (d : NodeData F) (st : St F) : R (St F) :=
  if pr.debugAsserts && st.nodes.any (fun x => x.1 == id) then .panic
  else .ok { st with nodes := st.nodes.filter (fun x => x.1 != id) ++ [(id, d)] }

/-- every entry is parsed and stored; the enumeration keeps the ids in document order -/
def enumEntriesS (pr : Profile) : List (EnumEntryM F) → St F → R (List Nat × St F)
  | [], st => .ok ([], st)
  | e :: es, st =>
    (storeNodeS pr (specEnumEntry e st).1.attr.id (.enumEntry (specEnumEntry e st).1)
        (specEnumEntry e st).2).bind fun st' =>
      (enumEntriesS pr es st').bind fun r => .ok ((specEnumEntry e st).1.attr.id :: r.1, r.2)

structure EnumerationM (F : Type) [FloatLit F] where
  attr : AttrM
  elem : ElemM
  streamable : Option BoolLit
  entries : List (EnumEntryM F)
  /-- `Value` | `pValue` -/
  value : IR IntLit
  pSelected : List Str
  pollingTime : Option UintLit

def EnumerationM.children (m : EnumerationM F) : List Elem :=
  flat (m.elem.segs [] ++
    [ .opt cs!"Streamable" (m.streamable.map fun b => tb b.text),
      .many cs!"EnumEntry" (m.entries.map EnumEntryM.body),
      .one2 cs!"Value" cs!"pValue" (irBody IntLit.text m.value),
      .many cs!"pSelected" (m.pSelected.map tb),
      .opt cs!"PollingTime" (m.pollingTime.map fun l => tb l.text) ])
def EnumerationM.render (m : EnumerationM F) : Elem :=
  .node cs!"Enumeration" m.attr.render m.children

def specEnumeration (pr : Profile) (m : EnumerationM F) (st : St F) : R (EnumerationNode × St F) :=
  let a := specAttr m.attr st
  let e := specElem m.elem [] a.2
  (enumEntriesS pr m.entries e.2).bind fun en =>
    let v := irIntIdS m.value en.2
    let s := listS internS m.pSelected v.2
    .ok ({ attr := a.1, elem := e.1, streamable := (m.streamable.map BoolLit.val).getD false,
           entries := en.1, value := v.1, pSelected := s.1,
           pollingTime := m.pollingTime.map UintLit.val }, s.2)

/-! ## Fragmented element text, noise between elements -/

/-- comments and processing instructions -/
def IsMarkupNoise : Elem → Prop
  | .comment _ => True
  | .pi => True
  | _ => False

/-- anything but an element (whitespace text included): what the cursor skips -/
def IsNonElem : Elem → Prop
  | .node _ _ _ => False
  | _ => True

/-- children of a text-carrying element: any number `k` of text fragments, a run of comments /
processing instructions before the first, between any two, and after the last one:
`j0 ++ [text f1] ++ j1 ++ [text f2] ++ j2 ++ …` -/
def fragChildren : List Elem → List (Str × List Elem) → List Elem
  | j0, [] => j0
  | j0, (f, j) :: r => j0 ++ .text f :: fragChildren j r

/-- the fragments in order -/
def fragText (frs : List (Str × List Elem)) : Str := (frs.map (·.1)).flatten

/-- all noise runs of a fragmented text are comments / processing instructions -/
def FragNoise (j0 : List Elem) (frs : List (Str × List Elem)) : Prop :=
  (∀ x ∈ j0, IsMarkupNoise x) ∧ ∀ fr ∈ frs, ∀ x ∈ fr.2, IsMarkupNoise x

/-- body of a text-carrying element with fragmented text -/
def fb (j0 : List Elem) (frs : List (Str × List Elem)) : Body := ([], fragChildren j0 frs)

/-- the text children of any children list, in order -/
def textsOf : List Elem → List Str
  | [] => []
  | .text s :: r => s :: textsOf r
  | _ :: r => textsOf r

/-! ## Registers whose address list embeds IntSwissKnife declarations

`AddrK` extends the address particles of `AddrM` by an embedded `<IntSwissKnife Name=…>`: the
parser parses it like a top-level IntSwissKnife, stores it (`store_node`) and the register's
address list refers to its id.  Because of the `store_node` the normal forms are `Res`-valued:
with debug assertions a knife whose id already holds a node panics. -/

section Embedded
variable [FloatLit F]

inductive AddrK (F : Type) [FloatLit F] where
  | plain (a : AddrM)
  | knife (k : IntSwissKnifeM F)

def AddrK.body : AddrK F → AddrTag × Body
  | .plain a => a.body
  | .knife k => (.intSwissKnife, (k.attr.render, k.children))

/-- sequencing of `Res`-valued state functions over a list -/
def listR {α β : Type} (f : α → St F → R (β × St F)) : List α → St F → R (List β × St F)
  | [], st => .ok ([], st)
  | a :: as, st =>
    (f a st).bind fun r => (listR f as r.2).bind fun rs => .ok (r.1 :: rs.1, rs.2)

def addrKS (pr : Profile) : AddrK F → St F → R (AddressKind × St F)
  | .plain a, st => .ok (addrS a st)
  | .knife k, st =>
    (storeNodeS pr (specIntSwissKnife k st).1.attr.id (.intSwissKnife (specIntSwissKnife k st).1)
      (specIntSwissKnife k st).2).bind fun st' =>
        .ok (.intSwissKnife (specIntSwissKnife k st).1.attr.id, st')

/-- register base with embedded knives allowed among the address particles -/
structure RegK (F : Type) [FloatLit F] where
  elem : ElemM
  streamable : Option BoolLit
  addrs : List (AddrK F)
  length : IR IntLit
  accessMode : Option AccessMode
  pPort : Str
  cacheable : Option CachingMode
  pollingTime : Option UintLit
  pInvalidators : List Str

def RegK.segs (m : RegK F) : List Seg :=
  m.elem.segs [] ++
    [ .opt cs!"Streamable" (m.streamable.map fun b => tb b.text),
      .manyAddr (m.addrs.map AddrK.body),
      .one2 cs!"Length" cs!"pLength" (irBody IntLit.text m.length),
      .opt cs!"AccessMode" (m.accessMode.map fun a => tb a.text),
      .one cs!"pPort" (tb m.pPort),
      .opt cs!"Cachable" (m.cacheable.map fun c => tb c.text),
      .opt cs!"PollingTime" (m.pollingTime.map fun l => tb l.text),
      .many cs!"pInvalidator" (m.pInvalidators.map tb) ]

/-- a knife-free register base as a `RegK` -/
def RegM.toK (m : RegM) : RegK F :=
  { elem := m.elem, streamable := m.streamable, addrs := m.addrs.map .plain, length := m.length,
    accessMode := m.accessMode, pPort := m.pPort, cacheable := m.cacheable,
    pollingTime := m.pollingTime, pInvalidators := m.pInvalidators }

def specRegK (pr : Profile) (m : RegK F) (st : St F) : R (RegBase × St F) :=
  let e := specElem m.elem [] st
  (listR (addrKS pr) m.addrs e.2).bind fun a =>
    let l := irIntS m.length a.2
    let p := internS m.pPort l.2
    let i := listS internS m.pInvalidators p.2
    .ok ({ elemBase := e.1, streamable := (m.streamable.map BoolLit.val).getD false,
           addressKinds := a.1, length := l.1, accessMode := m.accessMode.getD .ro, pPort := p.1,
           cacheable := m.cacheable.getD .writeThrough,
           pollingTime := m.pollingTime.map UintLit.val, pInvalidators := i.1 }, i.2)

/-- the five register kinds over a `RegK`; `tail` = the kind-specific optional elements -/
structure IntRegK (F : Type) [FloatLit F] where
  attr : AttrM
  reg : RegK F
  sign : Option Sign
  endianness : Option Endianness
  unit : Option Str
  representation : Option IntRepr
  pSelected : List Str

def IntRegK.children (m : IntRegK F) : List Elem :=
  flat (m.reg.segs ++ intRegTail m.sign m.endianness m.unit m.representation m.pSelected)
def IntRegK.render (m : IntRegK F) : Elem := .node cs!"IntReg" m.attr.render m.children

def specIntRegK (pr : Profile) (m : IntRegK F) (st : St F) : R (IntRegNode × St F) :=
  let a := specAttr m.attr st
  (specRegK pr m.reg a.2).bind fun r =>
    let s := listS internS m.pSelected r.2
    .ok ({ attr := a.1, reg := r.1, sign := m.sign.getD .unsigned,
           endianness := m.endianness.getD .le, unit := m.unit,
           representation := m.representation.getD .pureNumber, pSelected := s.1 },
         invalS r.1.pInvalidators a.1.id s.2)

structure MaskedK (F : Type) [FloatLit F] where
  attr : AttrM
  reg : RegK F
  bitMask : BitM
  sign : Option Sign
  endianness : Option Endianness
  unit : Option Str
  representation : Option IntRepr
  pSelected : List Str

def MaskedK.children (m : MaskedK F) : List Elem :=
  flat (m.reg.segs ++ m.bitMask.segs ++
    intRegTail m.sign m.endianness m.unit m.representation m.pSelected)
def MaskedK.render (m : MaskedK F) : Elem := .node cs!"MaskedIntReg" m.attr.render m.children

def specMaskedK (pr : Profile) (m : MaskedK F) (st : St F) : R (MaskedIntRegNode × St F) :=
  let a := specAttr m.attr st
  (specRegK pr m.reg a.2).bind fun r =>
    let s := listS internS m.pSelected r.2
    .ok ({ attr := a.1, reg := r.1, bitMask := m.bitMask.val, sign := m.sign.getD .unsigned,
           endianness := m.endianness.getD .le, unit := m.unit,
           representation := m.representation.getD .pureNumber, pSelected := s.1 },
         invalS r.1.pInvalidators a.1.id s.2)

structure PlainRegK (F : Type) [FloatLit F] where
  attr : AttrM
  reg : RegK F

def PlainRegK.children (m : PlainRegK F) : List Elem := flat m.reg.segs
def PlainRegK.render (tag : Str) (m : PlainRegK F) : Elem := .node tag m.attr.render m.children

def specPlainRegK (pr : Profile) (m : PlainRegK F) (st : St F) : R (PlainRegNode × St F) :=
  let a := specAttr m.attr st
  (specRegK pr m.reg a.2).bind fun r =>
    .ok (⟨a.1, r.1⟩, invalS r.1.pInvalidators a.1.id r.2)

structure FloatRegK (F : Type) [FloatLit F] where
  attr : AttrM
  reg : RegK F
  endianness : Option Endianness
  unit : Option Str
  representation : Option FloatRepr
  displayNotation : Option DisplayNotation
  displayPrecision : Option IntLit

def FloatRegK.children (m : FloatRegK F) : List Elem :=
  flat (m.reg.segs ++
    [ .opt cs!"Endianess" (m.endianness.map fun x => tb x.text),
      .opt cs!"Unit" (m.unit.map tb),
      .opt cs!"Representation" (m.representation.map fun r => tb r.text),
      .opt cs!"DisplayNotation" (m.displayNotation.map fun r => tb r.text),
      .opt cs!"DisplayPrecision" (m.displayPrecision.map fun l => tb l.text) ])
def FloatRegK.render (m : FloatRegK F) : Elem := .node cs!"FloatReg" m.attr.render m.children

def specFloatRegK (pr : Profile) (m : FloatRegK F) (st : St F) : R (FloatRegNode × St F) :=
  let a := specAttr m.attr st
  (specRegK pr m.reg a.2).bind fun r =>
    .ok ({ attr := a.1, reg := r.1, endianness := m.endianness.getD .le, unit := m.unit,
           representation := m.representation.getD .pureNumber,
           displayNotation := m.displayNotation.getD .automatic,
           displayPrecision := (m.displayPrecision.map IntLit.val).getD 6 },
         invalS r.1.pInvalidators a.1.id r.2)

/-- `StructReg` over a `RegK`: the structure's own address list may embed IntSwissKnife
declarations as well -/
structure StructK (F : Type) [FloatLit F] where
  attrs : List (Str × Str)
  reg : RegK F
  endianness : Option Endianness
  entries : List EntryM

def StructK.children (m : StructK F) : List Elem :=
  flat (m.reg.segs ++
    [ .opt cs!"Endianess" (m.endianness.map fun x => tb x.text),
      .many cs!"StructEntry" (m.entries.map EntryM.body) ])
def StructK.render (m : StructK F) : Elem := .node cs!"StructReg" m.attrs m.children

/-- a knife-free `StructReg` as a `StructK` -/
def StructM.toK (m : StructM) : StructK F :=
  { attrs := m.attrs, reg := m.reg.toK, endianness := m.endianness, entries := m.entries }

def specStructK (pr : Profile) (m : StructK F) (st : St F) : R (List MaskedIntRegNode × St F) :=
  (specRegK pr m.reg st).bind fun r =>
    let es := listS specEntry m.entries r.2
    .ok (maskedOfEntries r.1 (m.endianness.getD .le) es.1 es.2)

end Embedded

end CamVerif.XmlParse
