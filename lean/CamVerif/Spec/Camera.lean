/-
Protocol vocabulary for C16: plain-list predicates over the effect trace of the camera
model (`CamVerif.Model.Camera`).  Nothing here refers to how the model computes; these are
the words the property theorems are stated in.
-/
import CamVerif.Model.Camera
namespace CamVerif.Camera

/-- Acquisition start protocol: enable streaming, `TLParamsLocked := 1`, `AcquisitionStart`,
then start the receive loop. -/
def startSeq : List Sub := [.enable, .lockSet 1, .acqStart, .loopStart]

/-- Acquisition stop protocol: stop the receive loop, `AcquisitionStop`,
`TLParamsLocked := 0`, disable streaming. -/
def stopSeq : List Sub := [.loopStop, .acqStop, .lockSet 0, .disable]

/-- Every effect of the list succeeded. -/
def AllOk (seg : List Effect) : Prop := ∀ e ∈ seg, e.out = .ok

/-- The error class a call must return when the sub-operation `e` failed. -/
def errOf (e : Effect) : Err :=
  match e.sub with
  | .strmOpen | .strmClose | .loopStart => .streamIo
  | .loopStop => .streamPoisoned
  | .lockSet _ | .acqStart | .acqStop | .paramRead | .gateSet _ => .genApiDevice
  | .ctrlOpen | .ctrlClose | .genapi | .enable | .disable =>
    match e.out with
    | .notOpened => .controlNotOpened
    | _ => .controlIo

/-- Errors that are decisions of the camera itself, not a failed device/stream operation. -/
def Logical : Err → Prop
  | .inStreaming | .ctxtMissing | .invalidXml | .controlInvalidData => True
  | _ => False

/-- Relation between the effects `seg` of one call and its result:
* the call succeeded (or panicked): every effect succeeded;
* the call returned `err`: either every effect succeeded and the error is a `Logical` one,
  or the LAST effect failed, every earlier one succeeded, and the error is that step's. -/
def CallShape {α : Type} (seg : List Effect) : Res Err α → Prop
  | .ok _ => AllOk seg
  | .panic => AllOk seg
  | .err er =>
    (AllOk seg ∧ Logical er) ∨
    ∃ pre e, seg = pre ++ [e] ∧ AllOk pre ∧ e.out ≠ .ok ∧ er = errOf e

/-- The call `m`, started in `s`, appends exactly the segment `seg` to the trace (one
fault-plan index per effect); `seg` and the result satisfy `CallShape`; the sub-operations
of `seg` are, in order, a prefix of `subs`, and all of `subs` when the call succeeds. -/
def EmitsAt {α : Type} (m : M α) (subs : List Sub) (s : State) : Prop :=
  ∃ seg, (m s).2.trace = s.trace ++ seg ∧ (m s).2.counter = s.counter + seg.length ∧
    CallShape seg (m s).1 ∧ seg.map (·.sub) <+: subs ∧
    (∀ a, (m s).1 = .ok a → seg.map (·.sub) = subs)

/-- two independent handle operations in the order the implementation uses -/
def pairSubs (ctrlFirst : Bool) (kc ks : Sub) : List Sub := if ctrlFirst then [kc, ks] else [ks, kc]

/-- Sub-operations a call is expected to perform (when nothing fails) from device state `d`. -/
def expectedSubs (env : Env) (op : Op) (d : Dev) : List Sub :=
  match op with
  | .open => pairSubs env.openCtrlFirst .ctrlOpen .strmOpen
  | .load => [.genapi]
  | .start cap => if d.loopFlag || d.ctxt.isNone || cap == 0 then [] else startSeq
  | .stop => if d.loopFlag then stopSeq else []
  | .close => (if d.loopFlag then stopSeq else []) ++ pairSubs env.closeCtrlFirst .ctrlClose .strmClose
  | .param => if d.ctxt.isSome && !d.cache.gain then [.paramRead] else []
  | .gate v => if d.ctxt.isSome then [.gateSet v] else []

/-- The streaming flag matches the number of live loops, and there is at most one. -/
def FlagTracksLoop (d : Dev) : Prop := d.loops = if d.loopFlag then 1 else 0

/-- Device acquisition state is consistent with whether the camera is streaming. -/
def Consistent (d : Dev) : Prop :=
  FlagTracksLoop d ∧ d.enabled = d.loopFlag ∧ d.lock = (if d.loopFlag then 1 else 0) ∧
    d.acquiring = d.loopFlag ∧ (d.loopFlag = false → d.chan = none)

/-- The loaded description (if any) is the complete one (`TLParamsLocked`, `AcquisitionStart`,
`AcquisitionStop` present with the right interface), and streaming implies a description. -/
def CtxtOk (d : Dev) : Prop :=
  (d.ctxt = none ∨ d.ctxt = some Xml.full) ∧ (d.loopFlag = true → d.ctxt = some Xml.full)

/-- Consistent acquisition state with a complete description. -/
def Good (d : Dev) : Prop := Consistent d ∧ CtxtOk d

/-- Steps of the start/stop protocol (as opposed to open/close of the handles, description
retrieval and parameter reads). -/
def isProtocol : Sub → Bool
  | .enable | .disable | .lockSet _ | .acqStart | .acqStop | .loopStart | .loopStop => true
  | _ => false

/-- An effect that cannot disturb the acquisition state: it succeeded, or it is not a step of
the start/stop protocol (a refused `genapi` on a closed handle, a failed `open`, …). -/
def Harmless (e : Effect) : Prop := e.out = .ok ∨ isProtocol e.sub = false

def AllHarmless (seg : List Effect) : Prop := ∀ e ∈ seg, Harmless e

/-- State required after `close`. -/
def Clean (d : Dev) : Prop :=
  d.loopFlag = false ∧ d.loops = 0 ∧ d.lock = 0 ∧ d.enabled = false ∧ d.acquiring = false ∧
    d.ctrlOpen = false ∧ d.strmOpen = false ∧ d.cache = Cache.empty ∧ d.chan = none

/-! ### The device-visible state as a function of the effect trace alone -/

/-- What the device / the handles hold, as far as the camera's calls can change it. -/
structure Visible where
  ctrlOpen : Bool := false
  strmOpen : Bool := false
  enabled : Bool := false
  lock : Nat := 0
  acquiring : Bool := false
  deriving Repr, DecidableEq

/-- A successful effect changes the visible state; a failed one changes nothing. -/
def applyEffect (v : Visible) (e : Effect) : Visible :=
  match e.out, e.sub with
  | .ok, .ctrlOpen => { v with ctrlOpen := true }
  | .ok, .ctrlClose => { v with ctrlOpen := false }
  | .ok, .strmOpen => { v with strmOpen := true }
  | .ok, .strmClose => { v with strmOpen := false }
  | .ok, .enable => { v with enabled := true }
  | .ok, .disable => { v with enabled := false }
  | .ok, .lockSet x => { v with lock := x }
  | .ok, .acqStart => { v with acquiring := true }
  | .ok, .acqStop => { v with acquiring := false }
  | _, _ => v

/-- Replay of a trace (oldest effect first) from the initial device. -/
def visibleOf (t : List Effect) : Visible := t.foldl applyEffect {}

def Dev.visible (d : Dev) : Visible :=
  { ctrlOpen := d.ctrlOpen, strmOpen := d.strmOpen, enabled := d.enabled, lock := d.lock,
    acquiring := d.acquiring }

/-! ### The acquisition protocol as a property of a whole trace -/

/-- The effects that must DIRECTLY precede an attempt of the given sub-operation (whether the
attempt then succeeds or fails), all of them successful:
* `TLParamsLocked := 1` — only directly after a successful `enable_streaming`;
* `AcquisitionStart` — only directly after enable, `TLParamsLocked := 1`;
* loop start — only directly after enable, `TLParamsLocked := 1`, `AcquisitionStart`;
* `AcquisitionStop` — only directly after a successful loop stop;
* `TLParamsLocked := 0` — only directly after loop stop, `AcquisitionStop`;
* `disable_streaming` — only directly after loop stop, `AcquisitionStop`, `TLParamsLocked := 0`. -/
def requiredBefore : Sub → List Effect
  | .lockSet 1 => [⟨.enable, .ok⟩]
  | .acqStart => [⟨.enable, .ok⟩, ⟨.lockSet 1, .ok⟩]
  | .loopStart => [⟨.enable, .ok⟩, ⟨.lockSet 1, .ok⟩, ⟨.acqStart, .ok⟩]
  | .acqStop => [⟨.loopStop, .ok⟩]
  | .lockSet 0 => [⟨.loopStop, .ok⟩, ⟨.acqStop, .ok⟩]
  | .disable => [⟨.loopStop, .ok⟩, ⟨.acqStop, .ok⟩, ⟨.lockSet 0, .ok⟩]
  | _ => []

/-- Every effect of the trace is directly preceded by what `requiredBefore` demands. -/
def ProtocolOrdered (t : List Effect) : Prop :=
  ∀ pre e post, t = pre ++ e :: post → ∃ pre', pre = pre' ++ requiredBefore e.sub

end CamVerif.Camera
