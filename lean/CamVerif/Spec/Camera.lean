/-
Protocol vocabulary for C16: plain-list predicates over the effect trace of the camera
model (`CamVerif.Model.Camera`).  Nothing here refers to how the model computes; these are
the words the property theorems are stated in.
-/
import CamVerif.Model.Camera
namespace CamVerif.Camera

/-- Acquisition start protocol: enable streaming, `TLParamsLocked := 1`, `AcquisitionStart`,
then start the receive loop. -/
def startSeq : List Sub := [.enable, .lockSet 1, .acqStart, .loopStart]

/-- Acquisition stop protocol: stop the receive loop, `AcquisitionStop`,
`TLParamsLocked := 0`, disable streaming. -/
def stopSeq : List Sub := [.loopStop, .acqStop, .lockSet 0, .disable]

/-- Every effect of the list succeeded. -/
def AllOk (seg : List Effect) : Prop := ∀ e ∈ seg, e.out = .ok

/-- The error class a call must return when the sub-operation `e` failed. -/
def errOf (e : Effect) : Err :=
  match e.sub with
  | .strmOpen | .strmClose | .loopStart => .streamIo
  | .loopStop => .streamPoisoned
  | .lockSet _ | .acqStart | .acqStop | .paramRead => .genApiDevice
  | .ctrlOpen | .ctrlClose | .genapi | .enable | .disable =>
    match e.out with
    | .notOpened => .controlNotOpened
    | _ => .controlIo

/-- Errors that are decisions of the camera itself, not a failed device/stream operation. -/
def Logical : Err → Prop
  | .inStreaming | .ctxtMissing | .invalidXml | .controlInvalidData => True
  | _ => False

/-- Relation between the effects `seg` of one call and its result:
* the call succeeded (or panicked): every effect succeeded;
* the call returned `err`: either every effect succeeded and the error is a `Logical` one,
  or the LAST effect failed, every earlier one succeeded, and the error is that step's. -/
def CallShape {α : Type} (seg : List Effect) : Res Err α → Prop
  | .ok _ => AllOk seg
  | .panic => AllOk seg
  | .err er =>
    (AllOk seg ∧ Logical er) ∨
    ∃ pre e, seg = pre ++ [e] ∧ AllOk pre ∧ e.out ≠ .ok ∧ er = errOf e

/-- The call `m`, started in `s`, appends exactly the segment `seg` to the trace (one
fault-plan index per effect); `seg` and the result satisfy `CallShape`; the sub-operations
of `seg` are, in order, a prefix of `subs`, and all of `subs` when the call succeeds. -/
def EmitsAt {α : Type} (m : M α) (subs : List Sub) (s : State) : Prop :=
  ∃ seg, (m s).2.trace = s.trace ++ seg ∧ (m s).2.counter = s.counter + seg.length ∧
    CallShape seg (m s).1 ∧ seg.map (·.sub) <+: subs ∧
    (∀ a, (m s).1 = .ok a → seg.map (·.sub) = subs)

/-- Sub-operations a call is expected to perform (when nothing fails) from device state `d`. -/
def expectedSubs (op : Op) (d : Dev) : List Sub :=
  match op with
  | .open => [.ctrlOpen, .strmOpen]
  | .load => [.genapi]
  | .start cap => if d.loopFlag || d.ctxt.isNone || cap == 0 then [] else startSeq
  | .stop => if d.loopFlag then stopSeq else []
  | .close => (if d.loopFlag then stopSeq else []) ++ [.ctrlClose, .strmClose]
  | .param => if d.ctxt.isSome && !d.cache.gain then [.paramRead] else []

/-- The streaming flag matches the number of live loops, and there is at most one. -/
def FlagTracksLoop (d : Dev) : Prop := d.loops = if d.loopFlag then 1 else 0

/-- Device acquisition state is consistent with whether the camera is streaming. -/
def Consistent (d : Dev) : Prop :=
  FlagTracksLoop d ∧ d.enabled = d.loopFlag ∧ d.lock = (if d.loopFlag then 1 else 0) ∧
    d.acquiring = d.loopFlag

/-- State required after `close`. -/
def Clean (d : Dev) : Prop :=
  d.loopFlag = false ∧ d.loops = 0 ∧ d.lock = 0 ∧ d.enabled = false ∧ d.acquiring = false ∧
    d.ctrlOpen = false ∧ d.strmOpen = false ∧ d.cache = Cache.empty

end CamVerif.Camera
