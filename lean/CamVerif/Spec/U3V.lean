/-
C13 — the register tables of the standards, transcribed by hand (independent of `/repo`;
this file is the "standard's side" of every `tables_match` / `accessor_…` theorem).

Sources: GenICam GenCP 1.x, section "Technology agnostic bootstrap register map" (ABRM),
"Manifest" (manifest table and entry layout), "Device capability / configuration";
USB3 Vision 1.x, "Technology specific bootstrap register map" (SBRM), "Streaming
interface register map" (SIRM), "Event interface register map" (EIRM).

Register names are spelled like the constants of `device/src/u3v/register_map.rs` so the
tables can be compared by name; deviations of that spelling from the standards' wording:
`U3VCP_CAPABILITY_REGISTER` / `U3VCP_CONFIGURATION_REGISTER` (standard: "U3VCP Capability" /
"U3VCP Configuration"), `FILE_FORMAT_INFO` (standard: "Schema / File Type / File Format",
one 32-bit word), `REGISTER_ADDRESS` (standard: "Register Address" of the file),
`GENICAM_FILE_VERSION` ("File Version").  The manifest entry's trailing 20 reserved bytes
(0x2C..0x3F) have no constant in the crate; they are listed here and excluded explicitly
from the comparison (`manifestEntry`).
-/
import CamVerif.Model.RegMapTypes
namespace CamVerif.Spec.U3V
open CamVerif CamVerif.RegMap

/-! ## (offset, length) tables -/

/-- GenCP: technology agnostic bootstrap register map (absolute addresses). -/
def abrm : List (String × Nat × Nat) := [
  ("GENCP_VERSION", 0x0000, 4),
  ("MANUFACTURER_NAME", 0x0004, 64),
  ("MODEL_NAME", 0x0044, 64),
  ("FAMILY_NAME", 0x0084, 64),
  ("DEVICE_VERSION", 0x00C4, 64),
  ("MANUFACTURER_INFO", 0x0104, 64),
  ("SERIAL_NUMBER", 0x0144, 64),
  ("USER_DEFINED_NAME", 0x0184, 64),
  ("DEVICE_CAPABILITY", 0x01C4, 8),
  ("MAXIMUM_DEVICE_RESPONSE_TIME", 0x01CC, 4),
  ("MANIFEST_TABLE_ADDRESS", 0x01D0, 8),
  ("SBRM_ADDRESS", 0x01D8, 8),
  ("DEVICE_CONFIGURATION", 0x01E0, 8),
  ("HEARTBEAT_TIMEOUT", 0x01E8, 4),
  ("MESSAGE_CHANNEL_ID", 0x01EC, 4),
  ("TIMESTAMP", 0x01F0, 8),
  ("TIMESTAMP_LATCH", 0x01F8, 4),
  ("TIMESTAMP_INCREMENT", 0x01FC, 8),
  ("ACCESS_PRIVILEGE", 0x0204, 4),
  ("PROTOCOL_ENDIANNESS", 0x0208, 4),
  ("IMPLEMENTATION_ENDIANNESS", 0x020C, 4),
  ("DEVICE_SOFTWARE_INTERFACE_VERSION", 0x0210, 64)]

/-- USB3 Vision: technology specific bootstrap register map (offsets from the SBRM address). -/
def sbrm : List (String × Nat × Nat) := [
  ("U3V_VERSION", 0x0000, 4),
  ("U3VCP_CAPABILITY_REGISTER", 0x0004, 8),
  ("U3VCP_CONFIGURATION_REGISTER", 0x000C, 8),
  ("MAXIMUM_COMMAND_TRANSFER_LENGTH", 0x0014, 4),
  ("MAXIMUM_ACKNOWLEDGE_TRANSFER_LENGTH", 0x0018, 4),
  ("NUMBER_OF_STREAM_CHANNELS", 0x001C, 4),
  ("SIRM_ADDRESS", 0x0020, 8),
  ("SIRM_LENGTH", 0x0028, 4),
  ("EIRM_ADDRESS", 0x002C, 8),
  ("EIRM_LENGTH", 0x0034, 4),
  ("IIDC2_ADDRESS", 0x0038, 8),
  ("CURRENT_SPEED", 0x0040, 4)]

/-- USB3 Vision: event interface register map. -/
def eirm : List (String × Nat × Nat) := [
  ("EI_CONTROL", 0x0000, 4),
  ("MAXIMUM_EVENT_TRANSFER_LENGTH", 0x0004, 4),
  ("EVENT_TEST_CONTROL", 0x0008, 4)]

/-- USB3 Vision: streaming interface register map. -/
def sirm : List (String × Nat × Nat) := [
  ("SI_INFO", 0x0000, 4),
  ("SI_CONTROL", 0x0004, 4),
  ("REQUIRED_PAYLOAD_SIZE", 0x0008, 8),
  ("REQUIRED_LEADER_SIZE", 0x0010, 4),
  ("REQUIRED_TRAILER_SIZE", 0x0014, 4),
  ("MAXIMUM_LEADER_SIZE", 0x0018, 4),
  ("PAYLOAD_TRANSFER_SIZE", 0x001C, 4),
  ("PAYLOAD_TRANSFER_COUNT", 0x0020, 4),
  ("PAYLOAD_FINAL_TRANSFER1_SIZE", 0x0024, 4),
  ("PAYLOAD_FINAL_TRANSFER2_SIZE", 0x0028, 4),
  ("MAXIMUM_TRAILER_SIZE", 0x002C, 4)]

/-- GenCP: one manifest entry, 64 bytes. -/
def manifestEntryLayout : List (String × Nat × Nat) := [
  ("GENICAM_FILE_VERSION", 0x0000, 4),
  ("FILE_FORMAT_INFO", 0x0004, 4),
  ("REGISTER_ADDRESS", 0x0008, 8),
  ("FILE_SIZE", 0x0010, 8),
  ("SHA1_HASH", 0x0018, 20),
  ("RESERVED", 0x002C, 20)]

/-- the manifest entry registers that carry information -/
def manifestEntry : List (String × Nat × Nat) :=
  manifestEntryLayout.filter (·.1 != "RESERVED")

def MANIFEST_ENTRY_SIZE : Nat := 64
/-- the manifest table starts with its 8-byte entry count; entries follow immediately -/
def MANIFEST_COUNT_LEN : Nat := 8

def tables : List (String × List (String × Nat × Nat)) :=
  [("abrm", abrm), ("sbrm", sbrm), ("eirm", eirm), ("sirm", sirm), ("manifest_entry", manifestEntry)]

/-- Every table is gap-free where the standards say so: registers do not overlap and each
table is sorted by offset (a transcription sanity check, proved in `Props/C13.lean`). -/
def sortedDisjoint : List (String × Nat × Nat) → Bool
  | a :: b :: rest => decide (a.2.1 + a.2.2 ≤ b.2.1) && sortedDisjoint (b :: rest)
  | _ => true

/-! ## Bit assignments -/

/-- GenCP "Device Capability" (ABRM 0x01C4) bits the crate exposes, and USB3 Vision
"U3VCP Capability" (SBRM 0x0004): (struct of the crate, predicate, bit). -/
def capBits : List (String × String × Nat) := [
  ("DeviceCapability", "is_user_defined_name_supported", 0),
  ("DeviceCapability", "is_family_name_supported", 8),
  ("DeviceCapability", "is_multi_event_supported", 12),
  ("DeviceCapability", "is_stacked_commands_supported", 13),
  ("DeviceCapability", "is_device_software_interface_version_supported", 14),
  ("U3VCapablitiy", "is_sirm_available", 0),
  ("U3VCapablitiy", "is_eirm_available", 1),
  ("U3VCapablitiy", "is_iidc2_available", 2)]

/-- GenCP "Device Configuration" (ABRM 0x01E0): bit 0 heartbeat enable, bit 1 multi event enable. -/
def cfgBits : List (String × String × Nat) := [("DeviceConfiguration", "is_multi_event_enabled", 1)]
def cfgOps : List (String × String × Nat) :=
  [("set_multi_event_enable_bit", "set_bit", 1), ("disable_multi_event", "unset_bit", 1)]

/-- the capability / configuration words are 64-bit registers, the manifest file-info word 32-bit
(newtype of the crate ↦ numeric codec) -/
def newtypes : List (String × String) :=
  [("DeviceCapability", "u64"), ("DeviceConfiguration", "u64"), ("GenICamFileInfo", "u32"), ("U3VCapablitiy", "u64")]

/-- bits `hi:lo` of a 32-bit word as (shift, mask) -/
def bits (hi lo : Nat) : Field := ⟨lo, 2 ^ (hi + 1 - lo) - 1⟩

/-- GenCP version / U3V version: major = bits 31:16, minor = bits 15:0. -/
def version1616 : Dec := .version (bits 31 16) (bits 15 0) none
/-- manifest entry file version: major 31:24, minor 23:16, subminor 15:0. -/
def fileVersion : Dec := .version (bits 31 24) (bits 23 16) (some (bits 15 0))
/-- SI info: payload size alignment exponent = bits 31:24 (alignment = 2^exponent). -/
def alignment : Dec := .align (bits 31 24)
/-- SI control: bit 0 = stream enable. -/
def streamEnable : Dec := .bit (bits 0 0)
/-- SBRM current speed: one-hot, bit 0 low … bit 4 super speed plus. -/
def busSpeed : Dec := .enum32
  [(1, "LowSpeed"), (2, "FullSpeed"), (4, "HighSpeed"), (8, "SuperSpeed"), (16, "SuperSpeedPlus")]

/-- manifest entry "schema / file type / file format" word: schema major 31:24, minor 23:16,
file format (compression) 15:10 (0 = uncompressed, 1 = zip), reserved 9:3, file type 2:0
(0 = device XML, 1 = buffer XML). -/
structure FileInfoSpec where
  fileType : Field := bits 2 0
  fileTypes : List (Nat × String) := [(0, "DeviceXml"), (1, "BufferXml")]
  compression : Field := bits 15 10
  compressions : List (Nat × String) := [(0, "Uncompressed"), (1, "Zip")]
  schemaMajor : Field := bits 31 24
  schemaMinor : Field := bits 23 16

/-! ## What each accessor must access: (accessor, register map, register, decoding, capability bit) -/

structure Acc where
  name : String
  base : Base
  kind : AccKind
  map : String       -- table the register belongs to
  reg : String
  dec : Dec
  capBit : Option Nat
  deriving Repr

def g (name : String) (base : Base) (map reg : String) (dec : Dec) : Acc := ⟨name, base, .get, map, reg, dec, none⟩
def go (name : String) (base : Base) (map reg : String) (dec : Dec) (bit : Nat) : Acc := ⟨name, base, .get, map, reg, dec, some bit⟩
def st (name : String) (base : Base) (map reg : String) (dec : Dec) : Acc := ⟨name, base, .set, map, reg, dec, none⟩
def sc (name : String) (base : Base) (map reg : String) (v : Nat) : Acc := ⟨name, base, .setConst v, map, reg, .u32, none⟩

def accessors : List Acc := [
  g "Abrm.gencp_version" .abrm "abrm" "GENCP_VERSION" version1616,
  g "Abrm.manufacturer_name" .abrm "abrm" "MANUFACTURER_NAME" .string,
  g "Abrm.model_name" .abrm "abrm" "MODEL_NAME" .string,
  go "Abrm.family_name" .abrm "abrm" "FAMILY_NAME" .string 8,
  g "Abrm.device_version" .abrm "abrm" "DEVICE_VERSION" .string,
  g "Abrm.manufacturer_info" .abrm "abrm" "MANUFACTURER_INFO" .string,
  g "Abrm.serial_number" .abrm "abrm" "SERIAL_NUMBER" .string,
  go "Abrm.user_defined_name" .abrm "abrm" "USER_DEFINED_NAME" .string 0,
  ⟨"Abrm.set_user_defined_name", .abrm, .set, "abrm", "USER_DEFINED_NAME", .string, some 0⟩,
  g "Abrm.manifest_table_address" .abrm "abrm" "MANIFEST_TABLE_ADDRESS" .u64,
  g "Abrm.sbrm_address" .abrm "abrm" "SBRM_ADDRESS" .u64,
  g "Abrm.timestamp" .abrm "abrm" "TIMESTAMP" .u64,
  sc "Abrm.set_timestamp_latch_bit" .abrm "abrm" "TIMESTAMP_LATCH" 1,
  g "Abrm.timestamp_increment" .abrm "abrm" "TIMESTAMP_INCREMENT" .u64,
  go "Abrm.device_software_interface_version" .abrm "abrm" "DEVICE_SOFTWARE_INTERFACE_VERSION" .string 14,
  g "Abrm.maximum_device_response_time" .abrm "abrm" "MAXIMUM_DEVICE_RESPONSE_TIME" .duration,
  g "Abrm.device_configuration" .abrm "abrm" "DEVICE_CONFIGURATION" .deviceConfiguration,
  st "Abrm.write_device_configuration" .abrm "abrm" "DEVICE_CONFIGURATION" .deviceConfiguration,
  g "Sbrm.u3v_version" .sbrm "sbrm" "U3V_VERSION" version1616,
  g "Sbrm.maximum_command_transfer_length" .sbrm "sbrm" "MAXIMUM_COMMAND_TRANSFER_LENGTH" .u32,
  g "Sbrm.maximum_acknowledge_trasfer_length" .sbrm "sbrm" "MAXIMUM_ACKNOWLEDGE_TRANSFER_LENGTH" .u32,
  g "Sbrm.number_of_stream_channel" .sbrm "sbrm" "NUMBER_OF_STREAM_CHANNELS" .u32,
  go "Sbrm.sirm_address" .sbrm "sbrm" "SIRM_ADDRESS" .u64 0,
  go "Sbrm.sirm_length" .sbrm "sbrm" "SIRM_LENGTH" .u32 0,
  go "Sbrm.eirm_address" .sbrm "sbrm" "EIRM_ADDRESS" .u64 1,
  go "Sbrm.eirm_length" .sbrm "sbrm" "EIRM_LENGTH" .u32 1,
  go "Sbrm.iidc2_address" .sbrm "sbrm" "IIDC2_ADDRESS" .u64 2,
  g "Sbrm.current_speed" .sbrm "sbrm" "CURRENT_SPEED" busSpeed,
  g "Sirm.payload_size_alignment" .sirm "sirm" "SI_INFO" alignment,
  sc "Sirm.enable_stream" .sirm "sirm" "SI_CONTROL" 1,
  sc "Sirm.disable_stream" .sirm "sirm" "SI_CONTROL" 0,
  g "Sirm.is_stream_enable" .sirm "sirm" "SI_CONTROL" streamEnable,
  g "Sirm.required_payload_size" .sirm "sirm" "REQUIRED_PAYLOAD_SIZE" .u64,
  g "Sirm.required_leader_size" .sirm "sirm" "REQUIRED_LEADER_SIZE" .u32,
  g "Sirm.required_trailer_size" .sirm "sirm" "REQUIRED_TRAILER_SIZE" .u32,
  g "Sirm.maximum_leader_size" .sirm "sirm" "MAXIMUM_LEADER_SIZE" .u32,
  st "Sirm.set_maximum_leader_size" .sirm "sirm" "MAXIMUM_LEADER_SIZE" .u32,
  g "Sirm.maximum_trailer_size" .sirm "sirm" "MAXIMUM_TRAILER_SIZE" .u32,
  st "Sirm.set_maximum_trailer_size" .sirm "sirm" "MAXIMUM_TRAILER_SIZE" .u32,
  g "Sirm.payload_transfer_size" .sirm "sirm" "PAYLOAD_TRANSFER_SIZE" .u32,
  st "Sirm.set_payload_transfer_size" .sirm "sirm" "PAYLOAD_TRANSFER_SIZE" .u32,
  g "Sirm.payload_transfer_count" .sirm "sirm" "PAYLOAD_TRANSFER_COUNT" .u32,
  st "Sirm.set_payload_transfer_count" .sirm "sirm" "PAYLOAD_TRANSFER_COUNT" .u32,
  g "Sirm.payload_final_transfer1_size" .sirm "sirm" "PAYLOAD_FINAL_TRANSFER1_SIZE" .u32,
  st "Sirm.set_payload_final_transfer1_size" .sirm "sirm" "PAYLOAD_FINAL_TRANSFER1_SIZE" .u32,
  g "Sirm.payload_final_transfer2_size" .sirm "sirm" "PAYLOAD_FINAL_TRANSFER2_SIZE" .u32,
  st "Sirm.set_payload_final_transfer2_size" .sirm "sirm" "PAYLOAD_FINAL_TRANSFER2_SIZE" .u32,
  g "ManifestEntry.genicam_file_version" .manifestEntry "manifest_entry" "GENICAM_FILE_VERSION" fileVersion,
  g "ManifestEntry.file_address" .manifestEntry "manifest_entry" "REGISTER_ADDRESS" .u64,
  g "ManifestEntry.file_size" .manifestEntry "manifest_entry" "FILE_SIZE" .u64,
  g "ManifestEntry.file_info" .manifestEntry "manifest_entry" "FILE_FORMAT_INFO" .fileInfo,
  g "ManifestEntry.sha1_hash" .manifestEntry "manifest_entry" "SHA1_HASH" .sha1]

def lookup (t : List (String × Nat × Nat)) (n : String) : Option (Nat × Nat) :=
  (t.find? (·.1 == n)).map (·.2)

/-- the accessor with its register looked up in the standard's table -/
def Acc.resolve (a : Acc) : Option RRow := do
  let t ← (tables.find? (·.1 == a.map)).map (·.2)
  let r ← lookup t a.reg
  pure ⟨a.name, a.base, a.kind, r.1, r.2, a.dec, a.capBit⟩

/-- setter ↦ getter that must read the value back -/
def pairs : List (String × String) := [
  ("Abrm.set_user_defined_name", "Abrm.user_defined_name"),
  ("Abrm.write_device_configuration", "Abrm.device_configuration"),
  ("Sirm.disable_stream", "Sirm.is_stream_enable"),
  ("Sirm.enable_stream", "Sirm.is_stream_enable"),
  ("Sirm.set_maximum_leader_size", "Sirm.maximum_leader_size"),
  ("Sirm.set_maximum_trailer_size", "Sirm.maximum_trailer_size"),
  ("Sirm.set_payload_final_transfer1_size", "Sirm.payload_final_transfer1_size"),
  ("Sirm.set_payload_final_transfer2_size", "Sirm.payload_final_transfer2_size"),
  ("Sirm.set_payload_transfer_count", "Sirm.payload_transfer_count"),
  ("Sirm.set_payload_transfer_size", "Sirm.payload_transfer_size")]

/-! ## Decoding, as the standards word it (arithmetic on the little-endian value) -/

/-- bits `hi:lo` of `raw`, arithmetically -/
def bitsOf (raw hi lo : Nat) : Nat := raw / 2 ^ lo % 2 ^ (hi + 1 - lo)

/-- byte width of the register contents a decoder consumes -/
def widthOf : Dec → Nat
  | .u64 | .deviceConfiguration => 8
  | .string => 64
  | .sha1 => 20
  | _ => 4

/-- NUL-terminated string: the bytes before the first NUL (all bytes if there is none). -/
def cString (bs : Bytes) : Bytes := bs.takeWhile (· != 0)

/-- The value the standards assign to register contents `bs` under decoding `dec`;
`err invalidDevice` for contents the standards do not allow.  Never `panic`. -/
def decode (dec : Dec) (bs : Bytes) : Res Err Val :=
  let raw := fromLE bs
  match dec with
  | .u32 | .u64 => .ok (.nat raw)
  | .string => if validUtf8 (cString bs) then .ok (.str (cString bs)) else .err .invalidDevice
  | .duration => .ok (.durNs (raw * 1000000))           -- register counts milliseconds
  | .enum32 t =>
    match t.lookup raw with
    | some v => .ok (.enum v)
    | none => .err .invalidDevice
  | .deviceConfiguration => .ok (.cfg raw)
  | .fileInfo => .ok (.fileInfo raw)
  | .version ma mi pa =>
    .ok (.version (raw / 2 ^ ma.shift % (ma.mask + 1)) (raw / 2 ^ mi.shift % (mi.mask + 1))
      (match pa with | some p => raw / 2 ^ p.shift % (p.mask + 1) | none => 0))
  | .align e =>
    let x := raw / 2 ^ e.shift % (e.mask + 1)
    if x < 64 then .ok (.nat (2 ^ x)) else .err .invalidDevice   -- must fit a 64-bit usize
  | .bit f => .ok (.bool (raw / 2 ^ f.shift % (f.mask + 1) = 1))
  | .sha1 => .ok (if bs.all (· == 0) then .none else .some (.hash bs))

/-- a mask of the form `2^k - 1` (so that `& mask` is `% (mask + 1)`) -/
def fieldWf (f : Field) : Bool := (List.range 33).any fun k => f.mask + 1 == 2 ^ k

def decWf : Dec → Bool
  | .version ma mi pa => fieldWf ma && fieldWf mi && (match pa with | some p => fieldWf p | none => true)
  | .align e => fieldWf e
  | .bit f => fieldWf f
  | _ => true

/-! ## The manifest entry's "schema / file type / file format" word, as the standard words it -/

/-- file type = bits 2:0: 0 = device XML, 1 = buffer XML, every other code is reserved -/
def fileTypeStd (raw : Nat) : Res Err String :=
  match bitsOf raw 2 0 with
  | 0 => .ok "DeviceXml"
  | 1 => .ok "BufferXml"
  | _ => .err .invalidDevice

/-- file format = bits 15:10: 0 = uncompressed, 1 = zip, every other code is reserved -/
def compressionStd (raw : Nat) : Res Err String :=
  match bitsOf raw 15 10 with
  | 0 => .ok "Uncompressed"
  | 1 => .ok "Zip"
  | _ => .err .invalidDevice

/-- schema version = (major: bits 31:24, minor: bits 23:16) -/
def schemaStd (raw : Nat) : Nat × Nat := (bitsOf raw 31 24, bitsOf raw 23 16)

/-- the "Device Configuration" mutators: `set_bit` sets, `unset_bit` clears -/
def opSets (kind : String) : Bool := kind == "set_bit"

end CamVerif.Spec.U3V
