/-
C05: reference meaning of a formula over `<Expression>` bindings when the bindings are cyclic
only in operands that are never evaluated.  `expandLazy` is `Spec.expand` (replace every bound
name by its recursively expanded expression, `none` when a name is met inside its own
expansion) except that an operand which the reference evaluator does not evaluate — the right
operand of `&&` / `||` when the left one decides, the right operand of any binary operator
when the left one is an error, the branch of `?:` that is not selected (both when the
condition is an error) — is NOT expanded: it is replaced by the literal `0` (any expression would do:
the reference evaluator never looks at it).
-/
import CamVerif.Spec.Formula
namespace CamVerif.Formula.Spec
open CamVerif.Formula FloatOps

variable {F : Type} [FloatOps F]

/-- truth value of a reference outcome, `none` for an error -/
def truthOf : Except SErr (SVal F) → Option Bool
  | .ok v => some v.truthy
  | .error _ => none

def expandLazy (env : EnvX F) : List String → Nat → Expr F → Option (Expr F)
  | vis, fuel, .binOp k l r =>
    match k with
    | .and => do
      let l' ← expandLazy env vis fuel l
      match truthOf (eval (fun _ => none) l') with
      | some true => do
        let r' ← expandLazy env vis fuel r
        pure (.binOp .and l' r')
      | _ => pure (.binOp .and l' (.int 0))
    | .or => do
      let l' ← expandLazy env vis fuel l
      match truthOf (eval (fun _ => none) l') with
      | some false => do
        let r' ← expandLazy env vis fuel r
        pure (.binOp .or l' r')
      | _ => pure (.binOp .or l' (.int 0))
    | k => do
      let l' ← expandLazy env vis fuel l
      match truthOf (eval (fun _ => none) l') with
      | none => pure (.binOp k l' (.int 0))
      | some _ => do
        let r' ← expandLazy env vis fuel r
        pure (.binOp k l' r')
  | vis, fuel, .unOp k x => do
    let x' ← expandLazy env vis fuel x
    pure (.unOp k x')
  | vis, fuel, .ite c t e => do
    let c' ← expandLazy env vis fuel c
    match truthOf (eval (fun _ => none) c') with
    | some true => do
      let t' ← expandLazy env vis fuel t
      pure (.ite c' t' (.int 0))
    | some false => do
      let e' ← expandLazy env vis fuel e
      pure (.ite c' (.int 0) e')
    | none => pure (.ite c' (.int 0) (.int 0))
  | _, _, .int i => some (.int i)
  | _, _, .float f => some (.float f)
  | vis, fuel, .ident s =>
    if vis.contains s then none
    else
      match env s with
      | none => some (.ident s)
      | some b =>
        match fuel with
        | 0 => none
        | fuel + 1 => expandLazy env (s :: vis) fuel b
termination_by _ fuel e => (fuel, sizeOf e)

end CamVerif.Formula.Spec
