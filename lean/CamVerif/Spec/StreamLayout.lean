/-
Independent reference decoders for the USB3 Vision stream leader / trailer, written from the
packet layout of the standard (byte offsets from the start of the packet, little endian),
NOT from the Rust code: every field is fetched by absolute index `b[i]?`; nothing here uses
the model's cursor, `fromLE`, or the specific-part slicing.

U3V stream layout (offset, width in bytes):

  generic leader      magic "U3VL" 0x4C563355 (0,4) | reserved (4,2) | leader_size (6,2)
                      | block_id (8,8) | reserved (16,2) | payload_type (18,2)
  image leader        timestamp (20,8) | pixel_format (28,4) | size_x (32,4) | size_y (36,4)
   (= ext. chunk)     | offset_x (40,4) | offset_y (44,4) | padding_x (48,2) | reserved (50,2)
  chunk leader        timestamp (20,8)

  generic trailer     magic "U3VT" 0x54563355 (0,4) | reserved (4,2) | trailer_size (6,2)
                      | block_id (8,8) | status (16,2) | reserved (18,2) | valid_payload_size (20,8)
  image trailer       size_y (28,4)
  ext. chunk trailer  size_y (28,4) | chunk_layout_id (32,4)
  chunk trailer       chunk_layout_id (28,4)

  payload_type        0x0001 image | 0x4001 image extended chunk | 0x4000 chunk
  status              0x0000 success | 0xA100 data discarded | 0xA101 data overrun

  chunk data (GenICam chunk layout, decoded from the END of the valid payload):
                      [ data (n bytes) | chunk id (4) | n (4) ]*

  !! BYTE ORDER OF THE CHUNK LENGTH FIELD — EXPLICIT TRANSCRIPTION CHOICE, NOT INDEPENDENT !!
  Everything above was written from the layout of the standard.  The byte order of the 4-byte
  chunk id / chunk length fields was NOT: it was TAKEN FROM THE CODE
  (`cameleon/src/u3v/stream_handle.rs`, `u32::from_be_bytes`), because the USB3 Vision / GenICam
  chunk clause is not available offline and nothing else in /repo settles it (no test, no sample
  payload, no producer of chunk data; README lists "Implement payload chunk parser" as TODO).
  Independent recollection says LITTLE endian for U3V: USB3 Vision is little-endian throughout,
  the GenICam reference `ChunkAdapterU3V` reads ChunkID/ChunkLength without byte swap (only
  `ChunkAdapterGEV` uses ntohl), and aravis sets `chunk_endianness = G_LITTLE_ENDIAN` for U3V
  streams.  If that is right, the code mis-reads every chunk length of a conforming camera
  (n < 2^24 is read as n * 2^24 or more) and `walk_exact` / `build_accepts` / the harness oracle
  certify the wrong layout.  They certify WHICHEVER order `chunkLengthOrder` below names; flipping
  it is a one-line change (here and `CHUNK_LEN_ORDER` in harness/src/bin/c11.rs) after which
  `chunkLenAt_eq` (Proofs/C11Stream.lean) stops checking and the oracle reports the code.
  Recorded as an assumption in props/C11.json.
-/
import CamVerif.Prelude.Basic
namespace CamVerif.Spec.StreamLayout

/-- Byte `i` of the packet. -/
def u8At (b : Bytes) (i : Nat) : Option Nat := b[i]?.map UInt8.toNat

/-- Little-endian u16 at offset `i`. -/
def u16At (b : Bytes) (i : Nat) : Option Nat := do
  let b0 ← u8At b i
  let b1 ← u8At b (i + 1)
  pure (b0 + 256 * b1)

/-- Little-endian u32 at offset `i`. -/
def u32At (b : Bytes) (i : Nat) : Option Nat := do
  let lo ← u16At b i
  let hi ← u16At b (i + 2)
  pure (lo + 65536 * hi)

/-- Little-endian u64 at offset `i`. -/
def u64At (b : Bytes) (i : Nat) : Option Nat := do
  let lo ← u32At b i
  let hi ← u32At b (i + 4)
  pure (lo + 4294967296 * hi)

/-- Big-endian u32 at offset `i` (chunk trailer fields). -/
def u32BEAt (b : Bytes) (i : Nat) : Option Nat := do
  let b0 ← u8At b i
  let b1 ← u8At b (i + 1)
  let b2 ← u8At b (i + 2)
  let b3 ← u8At b (i + 3)
  pure (16777216 * b0 + 65536 * b1 + 256 * b2 + b3)

inductive PayloadType where
  | image
  | imageExtendedChunk
  | chunk
  deriving Repr, DecidableEq

def payloadTypeOfCode (c : Nat) : Option PayloadType :=
  if c = 0x0001 then some .image
  else if c = 0x4001 then some .imageExtendedChunk
  else if c = 0x4000 then some .chunk
  else none

inductive Status where
  | success
  | dataDiscarded
  | dataOverrun
  deriving Repr, DecidableEq

def statusOfCode (c : Nat) : Option Status :=
  if c = 0x0000 then some .success
  else if c = 0xA100 then some .dataDiscarded
  else if c = 0xA101 then some .dataOverrun
  else none

structure GenericLeader where
  leaderSize : Nat
  blockId : Nat
  payloadType : PayloadType
  deriving Repr, DecidableEq

/-- A well-formed generic leader: 20 bytes present, magic "U3VL", known payload type. -/
def genericLeader (b : Bytes) : Option GenericLeader := do
  let magic ← u32At b 0
  let _reserved ← u16At b 4
  let size ← u16At b 6
  let id ← u64At b 8
  let _reserved ← u16At b 16
  let ty ← u16At b 18
  if magic = 0x4C563355 then
    match payloadTypeOfCode ty with
    | some t => some ⟨size, id, t⟩
    | none => none
  else none

structure ImageLeader where
  timestamp : Nat
  pixelFormatCode : Nat
  width : Nat
  height : Nat
  xOffset : Nat
  yOffset : Nat
  xPadding : Nat
  deriving Repr, DecidableEq

/-- Image (and image-extended-chunk) leader fields, absolute offsets; the packet must
carry the full 32-byte specific part (incl. the trailing reserved u16). -/
def imageLeader (b : Bytes) : Option ImageLeader := do
  let ts ← u64At b 20
  let pf ← u32At b 28
  let w ← u32At b 32
  let h ← u32At b 36
  let xo ← u32At b 40
  let yo ← u32At b 44
  let xp ← u16At b 48
  let _reserved ← u16At b 50
  pure ⟨ts, pf, w, h, xo, yo, xp⟩

/-- Chunk leader: timestamp. -/
def chunkLeaderTimestamp (b : Bytes) : Option Nat := u64At b 20

structure GenericTrailer where
  trailerSize : Nat
  blockId : Nat
  status : Status
  validPayloadSize : Nat
  deriving Repr, DecidableEq

/-- A well-formed generic trailer: 28 bytes present, magic "U3VT", known status code. -/
def genericTrailer (b : Bytes) : Option GenericTrailer := do
  let magic ← u32At b 0
  let _reserved ← u16At b 4
  let size ← u16At b 6
  let id ← u64At b 8
  let st ← u16At b 16
  let _reserved ← u16At b 18
  let valid ← u64At b 20
  if magic = 0x54563355 then
    match statusOfCode st with
    | some s => some ⟨size, id, s, valid⟩
    | none => none
  else none

/-- Image trailer: actual height (`size_y`). -/
def imageTrailerHeight (b : Bytes) : Option Nat := u32At b 28

/-- Image-extended-chunk trailer: (actual height, chunk layout id). -/
def extTrailer (b : Bytes) : Option (Nat × Nat) := do
  let h ← u32At b 28
  let l ← u32At b 32
  pure (h, l)

/-- Chunk trailer: chunk layout id. -/
def chunkTrailerLayoutId (b : Bytes) : Option Nat := u32At b 28

/-- Byte order of the chunk id / chunk length fields. -/
inductive ByteOrder where
  | big
  | little
  deriving Repr, DecidableEq

/-- The 4-byte chunk length field at offset `i`, read in the given byte order. -/
def chunkLenAt (order : ByteOrder) (b : Bytes) (i : Nat) : Option Nat :=
  match order with
  | .big => u32BEAt b i
  | .little => u32At b i

/-- **THE TRANSCRIPTION CHOICE** (see the header): the order the chunk length is specified in.
`big` is what the code does; independent recollection of the standard says `little` for U3V. -/
def chunkLengthOrder : ByteOrder := .big

/-- `ChunksBackO order buf e ns`: the first `e` bytes of `buf` are exactly a sequence of chunks
`[data (n) | id (4) | n (4, in byte order `order`)]`, and `ns` lists their data lengths from the
LAST chunk to the first (the layout is decodable only from the end).  `e = 0` is the empty
sequence. -/
def ChunksBackO (order : ByteOrder) (buf : Bytes) : Nat → List Nat → Prop
  | e, [] => e = 0
  | e, n :: rest =>
    n + 8 ≤ e ∧ chunkLenAt order buf (e - 4) = some n ∧ ChunksBackO order buf (e - 8 - n) rest

/-- The chunk layout in the transcribed byte order. -/
abbrev ChunksBack (buf : Bytes) (e : Nat) (ns : List Nat) : Prop :=
  ChunksBackO chunkLengthOrder buf e ns

end CamVerif.Spec.StreamLayout
