/-
Independent reference for GenCP / USB3 Vision *acknowledge* and *event* packets,
written from the wire layout with absolute offsets, plus an encoder for well-formed
packets.  Shares nothing with `Model/Ack.lean` except `Bytes`, `fromLE`, `toLE`.

Acknowledge packet (U3V 1.x "Control Protocol"):
  0   4  prefix magic 0x43563355 ("U3VC")
  4   2  status code
  6   2  command id      0x0801 ReadMemAck, 0x0803 WriteMemAck, 0x0805 PendingAck,
                         0x0807 ReadMemStackedAck, 0x0809 WriteMemStackedAck
  8   2  scd length
  10  2  request id
  12  .. SCD
     ReadMemAck / ReadMemStackedAck : the bytes read (scd_len bytes)
     WriteMemAck                    : reserved u16 = 0 | bytes written u16
     PendingAck                     : reserved u16 = 0 | timeout in ms u16
     WriteMemStackedAck             : scd_len/4 x (reserved u16 = 0 | bytes written u16)

Status code (GenCP 1.x "Status Codes"): bit 15 severity (1 = error),
bits 14:13 namespace (0 GenCP, 1 technology specific = USB3 Vision,
2 device specific, 3 reserved), bits 12:0 number.

Event packet (U3V 1.x "Event"): same header with magic 0x45563355 ("U3VE"), flags at 4,
command id 0x0C00 at 6; the SCD is a sequence of
  event size u16 | event id u16 | timestamp u64 | data (size - 12 bytes)
where size = 0 means "single event: the data extends to the end of the SCD".

Sources of the tables (IMPORTANT — provenance).  The standard texts are not available in
the offline sandbox; the tables below are transcribed from memory of
  * GenICam GenCP "Generic Control Protocol", version 1.2 (EMVA), chapter "Status Codes":
    the bit anatomy (bit 15 severity, bits 14:13 namespace, bits 12:0 code) and the
    GENCP_* values 0x0000, 0x8001-0x8007, 0x800B, 0x800E, 0x800F, 0x8FFF;
  * USB3 Vision specification, version 1.0.1 (AIA/A3), control-protocol status codes
    U3V_STATUS_* 0xA001-0xA004 (+ 0xA005, see below), acknowledge command ids 0x0801..0x0809
    and the event command id 0x0C00;
and cross-checked against the status lists of two other implementations as I know them
(aravis `arvuvcp.h`, the NI/Linux u3v driver).  Clause / table numbers are NOT verified.
Entries that this cross-check could NOT confirm (listed as assumptions in props/C08.json):
  * 0xA005 (here EI_ENDPOINT_HALTED, cameleon's `EventEndpointHalted`): the other
    implementations stop at 0xA004 and list 0xA100 DATA_DISCARDED (a stream status) instead;
  * 0x8008 LOCAL_PROBLEM, 0x8009 MSG_MISMATCH, 0x800A INVALID_PROTOCOL (and 0x800C/0x800D)
    appear in aravis' list (GigE-Vision heritage) but are treated here — and by the code —
    as *not defined* for GenCP: an acknowledge carrying them is refused with InvalidPacket.
If the standard defines differently, `statusClass` (and the code's tables, which
`gen_tables_agree` shows equal to it) must change; the "every conforming packet is accepted"
clause is exactly as good as this transcription.
-/
import CamVerif.Spec.GenCP
namespace CamVerif.Spec.GenCPAck
open CamVerif.Spec.GenCP (slice uintAt)

def ACK_MAGIC : Nat := 0x43563355
def EVENT_MAGIC : Nat := 0x45563355
def EVENT_COMMAND_ID : Nat := 0x0C00
def HEADER_LEN : Nat := 12

/-! ### Status codes -/

/-- bit 15 -/
def severity (code : Nat) : Nat := code / 2 ^ 15 % 2
/-- bits 14:13 -/
def nspace (code : Nat) : Nat := code / 2 ^ 13 % 4
/-- bits 12:0 -/
def number (code : Nat) : Nat := code % 2 ^ 13

/-- GenCP standard status codes. -/
inductive GenCpCode where
  | SUCCESS | NOT_IMPLEMENTED | INVALID_PARAMETER | INVALID_ADDRESS | WRITE_PROTECT
  | BAD_ALIGNMENT | ACCESS_DENIED | BUSY | MSG_TIMEOUT | INVALID_HEADER | WRONG_CONFIG
  | GENERIC_ERROR
  deriving Repr, DecidableEq

/-- USB3 Vision technology specific status codes. -/
inductive U3vCode where
  | RESEND_NOT_SUPPORTED | DSI_ENDPOINT_HALTED | SI_PAYLOAD_SIZE_NOT_ALIGNED
  | SI_REGISTERS_INCONSISTENT | EI_ENDPOINT_HALTED
  deriving Repr, DecidableEq

inductive StatusClass where
  | genCp (c : GenCpCode)
  | usb3v (c : U3vCode)
  | deviceSpecific
  deriving Repr, DecidableEq

/-- (severity, number) ↦ GenCP code -/
def genCpTable : List ((Nat × Nat) × GenCpCode) :=
  [((0, 0x000), .SUCCESS), ((1, 0x001), .NOT_IMPLEMENTED), ((1, 0x002), .INVALID_PARAMETER),
   ((1, 0x003), .INVALID_ADDRESS), ((1, 0x004), .WRITE_PROTECT), ((1, 0x005), .BAD_ALIGNMENT),
   ((1, 0x006), .ACCESS_DENIED), ((1, 0x007), .BUSY), ((1, 0x00B), .MSG_TIMEOUT),
   ((1, 0x00E), .INVALID_HEADER), ((1, 0x00F), .WRONG_CONFIG), ((1, 0xFFF), .GENERIC_ERROR)]

/-- (severity, number) ↦ USB3 Vision code -/
def u3vTable : List ((Nat × Nat) × U3vCode) :=
  [((1, 0x001), .RESEND_NOT_SUPPORTED), ((1, 0x002), .DSI_ENDPOINT_HALTED),
   ((1, 0x003), .SI_PAYLOAD_SIZE_NOT_ALIGNED), ((1, 0x004), .SI_REGISTERS_INCONSISTENT),
   ((1, 0x005), .EI_ENDPOINT_HALTED)]

/-- table lookup by (severity, number) -/
def lookupCode {α : Type} (sev num : Nat) : List ((Nat × Nat) × α) → Option α
  | [] => none
  | ((s, n), a) :: rest => if sev = s ∧ num = n then some a else lookupCode sev num rest

/-- Classification of a 16-bit status code; `none` = not a code a conforming device sends
(reserved namespace, or a number its namespace does not define). -/
def statusClass (code : Nat) : Option StatusClass :=
  match nspace code with
  | 0 => (lookupCode (severity code) (number code) genCpTable).map .genCp
  | 1 => (lookupCode (severity code) (number code) u3vTable).map .usb3v
  | 2 => some .deviceSpecific
  | _ => none

def statusFatal (code : Nat) : Bool := severity code = 1
def statusSuccess (code : Nat) : Bool := code = 0

/-! ### Acknowledge header and views (offset based) -/

inductive AckKind where
  | readMem | writeMem | pending | readMemStacked | writeMemStacked
  deriving Repr, DecidableEq

def ackKindTable : List (Nat × AckKind) :=
  [(0x0801, .readMem), (0x0803, .writeMem), (0x0805, .pending), (0x0807, .readMemStacked),
   (0x0809, .writeMemStacked)]

def lookupId {α : Type} (id : Nat) : List (Nat × α) → Option α
  | [] => none
  | (i, a) :: rest => if id = i then some a else lookupId id rest

def ackKindOfId (id : Nat) : Option AckKind := lookupId id ackKindTable

def magicOf (bs : Bytes) : Nat := uintAt bs 0 4
def statusCodeOf (bs : Bytes) : Nat := uintAt bs 4 2
def commandIdOf (bs : Bytes) : Nat := uintAt bs 6 2
def scdLenOf (bs : Bytes) : Nat := uintAt bs 8 2
def requestIdOf (bs : Bytes) : Nat := uintAt bs 10 2

/-- payload of a ReadMemAck / ReadMemStackedAck: bytes `[12, 12 + scd_len)` -/
def dataOf (bs : Bytes) : Bytes := slice bs 12 (scdLenOf bs)
/-- reserved field of a WriteMemAck / PendingAck -/
def reservedOf (bs : Bytes) : Nat := uintAt bs 12 2
/-- `length written` of a WriteMemAck / `timeout` (ms) of a PendingAck -/
def valueOf (bs : Bytes) : Nat := uintAt bs 14 2
/-- Reference decoding of the WriteMemAck / PendingAck SCD: the four bytes
`reserved u16 = 0 | value u16` must lie inside the SCD the header declares
(`4 ≤ scd_len`) and inside the buffer; otherwise the packet has no such view. -/
def valueViewOf (bs : Bytes) : Option Nat :=
  if 4 ≤ scdLenOf bs ∧ 16 ≤ bs.length ∧ reservedOf bs = 0 then some (valueOf bs) else none

/-- i-th entry of a WriteMemStackedAck -/
def stackedReservedOf (bs : Bytes) (i : Nat) : Nat := uintAt bs (12 + 4 * i) 2
def stackedLengthOf (bs : Bytes) (i : Nat) : Nat := uintAt bs (12 + 4 * i + 2) 2
def stackedLengthsOf (bs : Bytes) : List Nat :=
  (List.range (scdLenOf bs / 4)).map (stackedLengthOf bs)

/-! ### Events -/

/-- One decoded event as a view into the packet: data is `bs[dataOff, dataOff + dataLen)`. -/
structure EventView where
  eventSize : Nat
  eventId : Nat
  timestamp : Nat
  dataOff : Nat
  dataLen : Nat
  deriving Repr, DecidableEq

/-- `EventsAt bs off rem evs`: the `rem` SCD bytes starting at offset `off` are tiled
exactly, in order, by the events `evs`, all inside the buffer. -/
inductive EventsAt (bs : Bytes) : Nat → Nat → List EventView → Prop where
  | done (off : Nat) : EventsAt bs off 0 []
  /-- event_size = 0: a single event takes everything that remains -/
  | single (off rem : Nat) :
      uintAt bs off 2 = 0 → 12 ≤ rem → off + rem ≤ bs.length →
      EventsAt bs off rem [⟨0, uintAt bs (off + 2) 2, uintAt bs (off + 4) 8, off + 12, rem - 12⟩]
  | multi (off rem size : Nat) (rest : List EventView) :
      uintAt bs off 2 = size → 12 ≤ size → size ≤ rem → off + size ≤ bs.length →
      EventsAt bs (off + size) (rem - size) rest →
      EventsAt bs off rem
        (⟨size, uintAt bs (off + 2) 2, uintAt bs (off + 4) 8, off + 12, size - 12⟩ :: rest)

/-! ### Encoder for well-formed packets -/

def encodeAck (code commandId requestId : Nat) (scd : Bytes) : Bytes :=
  toLE 4 ACK_MAGIC ++ toLE 2 code ++ toLE 2 commandId ++ toLE 2 scd.length ++ toLE 2 requestId
    ++ scd

/-- SCD of a WriteMemAck (`v` = bytes written) / PendingAck (`v` = timeout in ms) -/
def encodeValueScd (v : Nat) : Bytes := toLE 2 0 ++ toLE 2 v

/-- SCD of a WriteMemStackedAck -/
def encodeStackedScd (ls : List Nat) : Bytes := (ls.map encodeValueScd).flatten

structure Event where
  id : Nat
  timestamp : Nat
  data : Bytes
  deriving Repr, DecidableEq

/-- multi-event form: the size field counts the 12 header bytes and the data -/
def encodeEvent (e : Event) : Bytes :=
  toLE 2 (12 + e.data.length) ++ toLE 2 e.id ++ toLE 8 e.timestamp ++ e.data

/-- single-event form: size field 0 -/
def encodeSingleEvent (e : Event) : Bytes :=
  toLE 2 0 ++ toLE 2 e.id ++ toLE 8 e.timestamp ++ e.data

/-- events: all in multi-event form, optionally followed by one in single-event form -/
def encodeEvents : List Event → Option Event → Bytes
  | [], none => []
  | [], some e => encodeSingleEvent e
  | e :: es, last => encodeEvent e ++ encodeEvents es last

def encodeEventPacket (flag requestId : Nat) (scd : Bytes) : Bytes :=
  toLE 4 EVENT_MAGIC ++ toLE 2 flag ++ toLE 2 EVENT_COMMAND_ID ++ toLE 2 scd.length
    ++ toLE 2 requestId ++ scd

end CamVerif.Spec.GenCPAck
