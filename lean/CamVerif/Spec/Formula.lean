/-
Independent reference for GenApi formulas (C05), written from the standard's operator
table, not from the Rust code:

* the grammar as a precedence / associativity table (`levels`), from which the expected
  grouping of any three-operand input (`group3`) and the minimal-parenthesis printer's
  side conditions are derived;
* a reference evaluator on mathematical integers (`Int`) with 64-bit wrap-around
  (`Int.bmod · 2^64`); floating point operations stay abstract (`FloatOps`).

Only the abstract syntax (`Expr`, `BinOpKind`, `UnOpKind`, `Sym`) and the `FloatOps`
signature are shared with the model.
-/
import CamVerif.Model.Formula
namespace CamVerif.Formula.Spec
open CamVerif.Formula FloatOps

/-! ## Grammar of the standard -/

inductive Assoc where
  | left | right | prefix
  deriving Repr, DecidableEq

/-- One precedence level: associativity and its operators (concrete symbol ↦ abstract operator).
The ternary and the prefix level carry no binary operator. -/
structure Level where
  name : String
  assoc : Assoc
  ops : List (Sym × BinOpKind)
  deriving Repr, DecidableEq

/-- The standard's operator table, loosest binding first:
`?:` < `||` < `&&` < `|` < `^` < `&` < `= <>` < `< <= > >=` < `<< >>` < `+ -` < `* / %` <
unary `- ~` < `**`.  Binary levels associate to the left, `?:` and `**` to the right. -/
def levels : List Level :=
  [ ⟨"ternary", .right, []⟩,
    ⟨"logical or", .left, [(.doubleOr, .or)]⟩,
    ⟨"logical and", .left, [(.doubleAnd, .and)]⟩,
    ⟨"bitwise or", .left, [(.or, .bitOr)]⟩,
    ⟨"bitwise xor", .left, [(.caret, .xor)]⟩,
    ⟨"bitwise and", .left, [(.and, .bitAnd)]⟩,
    ⟨"equality", .left, [(.eq, .eq), (.ne, .ne)]⟩,
    ⟨"relational", .left, [(.lt, .lt), (.le, .le), (.gt, .gt), (.ge, .ge)]⟩,
    ⟨"shift", .left, [(.shl, .shl), (.shr, .shr)]⟩,
    ⟨"additive", .left, [(.plus, .add), (.minus, .sub)]⟩,
    ⟨"multiplicative", .left, [(.star, .mul), (.slash, .div), (.percent, .rem)]⟩,
    ⟨"unary", .prefix, []⟩,
    ⟨"power", .right, [(.doubleStar, .pow)]⟩ ]

/-- The left-associative binary levels (what a precedence ladder implements row by row). -/
def binaryRows : List (List (Sym × BinOpKind)) :=
  (levels.filter (fun l => l.assoc = .left)).map (·.ops)

/-- Precedence of a binary operator = index of its level in `levels`. -/
def prec (op : BinOpKind) : Nat :=
  (levels.findIdx (fun l => l.ops.any (fun so => so.2 = op)))

def assocOf (op : BinOpKind) : Assoc :=
  match levels[prec op]? with
  | some l => l.assoc
  | none => .left

/-- Concrete symbol of a binary operator. -/
def symOf (op : BinOpKind) : Sym :=
  match (levels.flatMap (·.ops)).find? (fun so => so.2 = op) with
  | some so => so.1
  | none => .plus

def UNARY_PREC : Nat := 11
def TERNARY_PREC : Nat := 0

/-- Functions of the standard (one argument) and the operator they denote. -/
def functions : List (String × UnOpKind) :=
  [ ("SGN", .sgn), ("NEG", .neg), ("ATAN", .atan), ("COS", .cos), ("SIN", .sin), ("TAN", .tan),
    ("ABS", .abs), ("EXP", .exp), ("LN", .ln), ("LG", .lg), ("SQRT", .sqrt), ("TRUNC", .trunc),
    ("FLOOR", .floor), ("CEIL", .ceil), ("ROUND", .round), ("ASIN", .asin), ("ACOS", .acos) ]

/-- Constants of the standard. -/
def constants : List String := ["PI", "E"]

/-- How the standard groups `a op1 b op2 c`: the tighter operator first; on a tie the level's
associativity decides. -/
def group3 {F : Type} (op1 op2 : BinOpKind) (a b c : Expr F) : Expr F :=
  if prec op1 > prec op2 ∨ (prec op1 = prec op2 ∧ assocOf op1 = .left) then
    .binOp op2 (.binOp op1 a b) c
  else .binOp op1 a (.binOp op2 b c)


/-! ## Printers (token level)

`printAt ctx e` prints `e` for a position that accepts precedence `ctx` or tighter and adds
parentheses only when the standard's table requires them: the operator of `e` binds looser
than the position (`natPrec e < ctx`).  Left operands of a left-associative level are printed
at the level itself, right operands one level tighter; `**` takes a primary on the left and
a unary expression on the right; `?:` takes anything but a `?:` as condition. -/

def PRIMARY_PREC : Nat := 13
def POW_PREC : Nat := 12

/-- Function-call spelling of a unary operator (prefix `-` and `~` have none). -/
def funcName : UnOpKind → String
  | .sgn => "SGN" | .neg => "NEG" | .atan => "ATAN" | .cos => "COS" | .sin => "SIN" | .tan => "TAN"
  | .abs => "ABS" | .exp => "EXP" | .ln => "LN" | .lg => "LG" | .sqrt => "SQRT" | .trunc => "TRUNC"
  | .floor => "FLOOR" | .ceil => "CEIL" | .round => "ROUND" | .asin => "ASIN" | .acos => "ACOS"
  | .not => "~"

/-- Precedence level at which an expression stands without parentheses. -/
def natPrec {F : Type} : Expr F → Nat
  | .binOp op _ _ => prec op
  | .unOp .neg _ => UNARY_PREC
  | .unOp .not _ => UNARY_PREC
  | .unOp _ _ => PRIMARY_PREC
  | .ite _ _ _ => TERNARY_PREC
  | _ => PRIMARY_PREC

def parenIf {F : Type} (b : Bool) (ts : List (Tok F)) : List (Tok F) :=
  if b then .sym .lparen :: (ts ++ [.sym .rparen]) else ts

def printAt {F : Type} : Nat → Expr F → List (Tok F)
  | ctx, .binOp op l r =>
    parenIf (prec op < ctx)
      (if op = .pow then printAt PRIMARY_PREC l ++ .sym .doubleStar :: printAt UNARY_PREC r
       else printAt (prec op) l ++ .sym (symOf op) :: printAt (prec op + 1) r)
  | ctx, .unOp .neg x => parenIf (UNARY_PREC < ctx) (.sym .minus :: printAt UNARY_PREC x)
  | ctx, .unOp .not x => parenIf (UNARY_PREC < ctx) (.sym .tilde :: printAt UNARY_PREC x)
  | _, .unOp k x => .ident (funcName k) :: .sym .lparen :: (printAt 0 x ++ [.sym .rparen])
  | ctx, .ite c t e =>
    parenIf (TERNARY_PREC < ctx)
      (printAt 1 c ++ .sym .question :: (printAt 0 t ++ .sym .colon :: printAt 0 e))
  | _, .int i => [.int i]
  | _, .float f => [.float f]
  | _, .ident s => [.ident s]

/-- Minimal parenthesisation according to the standard's table. -/
def printMin {F : Type} (e : Expr F) : List (Tok F) := printAt 0 e

/-- Identifiers that are variables: not the constants `PI`, `E` (those denote numbers). -/
def LegalIdents {F : Type} : Expr F → Prop
  | .binOp _ l r => LegalIdents l ∧ LegalIdents r
  | .unOp _ x => LegalIdents x
  | .ite c t e => LegalIdents c ∧ LegalIdents t ∧ LegalIdents e
  | .ident s => s ≠ "PI" ∧ s ≠ "E"
  | _ => True


/-! ## Every spelling the standard allows (token level)

`Spells c e ts`: the token list `ts` is a way to write the tree `e` at a position that accepts
precedence `c` or tighter.  Besides the forms of `printMin` it contains: redundant parentheses
around any sub-expression, the function form `NEG(x)` of unary minus, unary plus, and the
constants `PI` and `E`. -/
inductive Spells {F : Type} [FloatOps F] : Nat → Expr F → List (Tok F) → Prop
  | int (c : Nat) (i : BitVec 64) (hc : c ≤ PRIMARY_PREC) : Spells c (.int i) [.int i]
  | float (c : Nat) (f : F) (hc : c ≤ PRIMARY_PREC) : Spells c (.float f) [.float f]
  | ident (c : Nat) (s : String) (hc : c ≤ PRIMARY_PREC) (h1 : s ≠ "PI") (h2 : s ≠ "E") :
      Spells c (.ident s) [.ident s]
  | pi (c : Nat) (hc : c ≤ PRIMARY_PREC) : Spells c (.float FloatOps.pi) [.ident "PI"]
  | e (c : Nat) (hc : c ≤ PRIMARY_PREC) : Spells c (.float FloatOps.e) [.ident "E"]
  | paren (c : Nat) (x : Expr F) (ts : List (Tok F)) (hc : c ≤ PRIMARY_PREC) (h : Spells 0 x ts) :
      Spells c x (.sym .lparen :: (ts ++ [.sym .rparen]))
  | func (c : Nat) (s : String) (k : UnOpKind) (x : Expr F) (ts : List (Tok F)) (hc : c ≤ PRIMARY_PREC)
      (hs : (s, k) ∈ functions) (h : Spells 0 x ts) :
      Spells c (.unOp k x) (.ident s :: .sym .lparen :: (ts ++ [.sym .rparen]))
  | neg (c : Nat) (x : Expr F) (ts : List (Tok F)) (hc : c ≤ UNARY_PREC) (h : Spells UNARY_PREC x ts) :
      Spells c (.unOp .neg x) (.sym .minus :: ts)
  | not (c : Nat) (x : Expr F) (ts : List (Tok F)) (hc : c ≤ UNARY_PREC) (h : Spells UNARY_PREC x ts) :
      Spells c (.unOp .not x) (.sym .tilde :: ts)
  | plus (c : Nat) (x : Expr F) (ts : List (Tok F)) (hc : c ≤ UNARY_PREC) (h : Spells UNARY_PREC x ts) :
      Spells c x (.sym .plus :: ts)
  | pow (c : Nat) (l r : Expr F) (tl tr : List (Tok F)) (hc : c ≤ POW_PREC)
      (hl : Spells PRIMARY_PREC l tl) (hr : Spells UNARY_PREC r tr) :
      Spells c (.binOp .pow l r) (tl ++ .sym .doubleStar :: tr)
  | bin (c : Nat) (op : BinOpKind) (l r : Expr F) (tl tr : List (Tok F)) (hop : op ≠ .pow)
      (hc : c ≤ prec op) (hl : Spells (prec op) l tl) (hr : Spells (prec op + 1) r tr) :
      Spells c (.binOp op l r) (tl ++ .sym (symOf op) :: tr)
  | ite (cnd t e : Expr F) (tc tt te : List (Tok F)) (hc : Spells 1 cnd tc) (ht : Spells 0 t tt)
      (he : Spells 0 e te) :
      Spells 0 (.ite cnd t e) (tc ++ .sym .question :: (tt ++ .sym .colon :: te))

/-- Full parenthesisation: every operator application is wrapped in parentheses. -/
def printFull {F : Type} : Expr F → List (Tok F)
  | .binOp op l r => .sym .lparen :: (printFull l ++ .sym (symOf op) :: printFull r) ++ [.sym .rparen]
  | .unOp .neg x => .sym .lparen :: (.sym .minus :: printFull x) ++ [.sym .rparen]
  | .unOp .not x => .sym .lparen :: (.sym .tilde :: printFull x) ++ [.sym .rparen]
  | .unOp k x => .ident (funcName k) :: .sym .lparen :: (printFull x ++ [.sym .rparen])
  | .ite c t e =>
    .sym .lparen :: (printFull c ++ .sym .question :: (printFull t ++ .sym .colon :: printFull e)) ++
      [.sym .rparen]
  | .int i => [.int i]
  | .float f => [.float f]
  | .ident s => [.ident s]


/-! ## Character level: the canonical spelling of a token list

Operators are spelled as in the standard; each occurrence of `&`, `<`, `>` may be written as
the XML escape `&amp;`, `&lt;`, `&gt;` (choice function `esc`, by position inside the token);
identifiers by their text; integers in decimal.  Every token is followed by a non-empty gap of
white space (blank, tab, CR, LF and the other ASCII control characters), the text may start
with one.  Float tokens have no canonical text and are not spelled here. -/

def symChars : Sym → List Char
  | .lparen => ['('] | .rparen => [')'] | .plus => ['+'] | .minus => ['-'] | .star => ['*']
  | .doubleStar => ['*', '*'] | .slash => ['/'] | .percent => ['%'] | .and => ['&']
  | .doubleAnd => ['&', '&'] | .or => ['|'] | .doubleOr => ['|', '|'] | .caret => ['^']
  | .tilde => ['~'] | .eq => ['='] | .ne => ['<', '>'] | .colon => [':'] | .question => ['?']
  | .lt => ['<'] | .le => ['<', '='] | .gt => ['>'] | .ge => ['>', '='] | .shl => ['<', '<']
  | .shr => ['>', '>']

/-- one character, XML-escaped when `b` says so (only `&`, `<`, `>` have an escape) -/
def escChar (b : Bool) (c : Char) : List Char :=
  if b then
    (if c = '&' then ['&', 'a', 'm', 'p', ';'] else if c = '<' then ['&', 'l', 't', ';']
     else if c = '>' then ['&', 'g', 't', ';'] else [c])
  else [c]

def escape (f : Nat → Bool) : Nat → List Char → List Char
  | _, [] => []
  | i, c :: cs => escChar (f i) c ++ escape f (i + 1) cs

def digitChar (d : Nat) : Char := Char.ofNat (48 + d)

/-- decimal digits, least significant first (`fuel` > number of digits) -/
def decRev : Nat → Nat → List Char
  | 0, _ => []
  | fuel + 1, n => if n < 10 then [digitChar n] else digitChar (n % 10) :: decRev fuel (n / 10)

def decDigits (n : Nat) : List Char := (decRev (n + 1) n).reverse

/-- a token with the escape choice for its characters and the white space that follows it -/
structure Piece (F : Type) where
  tok : Tok F
  esc : Nat → Bool
  gap : List Char

def tokChars {F : Type} : Tok F → (Nat → Bool) → List Char
  | .sym s, f => escape f 0 (symChars s)
  | .ident s, _ => s.toList
  | .int i, _ => decDigits i.toNat
  | _, _ => []

/-- tokens that have a spelling: operators, identifiers (a letter, then letters, digits, `.`,
`_`), integers up to `i64::MAX` -/
def Spellable {F : Type} : Tok F → Prop
  | .sym _ => True
  | .ident s => ∃ c cs, s.toList = c :: cs ∧ isAlpha c = true ∧ cs.all isIdentCont = true
  | .int i => i.toNat ≤ I64_MAX
  | _ => False

def GoodGap (g : List Char) : Prop := g ≠ [] ∧ g.all isSpace = true

def printChars {F : Type} (lead : List Char) (ps : List (Piece F)) : List Char :=
  lead ++ ps.flatMap (fun p => tokChars p.tok p.esc ++ p.gap)

/-! ## Reference evaluator -/

inductive SVal (F : Type) where
  | int (i : Int)
  | float (f : F)
  deriving Repr, DecidableEq

inductive SErr where
  | unknownIdent
  | remByZero
  deriving Repr, DecidableEq

abbrev SEnv (F : Type) := String → Option (SVal F)

/-- 64-bit two's complement wrap-around. -/
def wrap (x : Int) : Int := Int.bmod x (2 ^ 64)

/-- Unsigned 64-bit residue (two's complement bit pattern). -/
def residue (x : Int) : Nat := (x % 2 ^ 64).toNat

variable {F : Type} [FloatOps F]

namespace SVal
def isInt : SVal F → Bool
  | .int _ => true
  | .float _ => false
/-- promotion to floating point -/
def toF : SVal F → F
  | .int i => ofInt (BitVec.ofInt 64 i)
  | .float f => f
/-- conversion to integer (truncation, saturating) -/
def toI : SVal F → Int
  | .int i => i
  | .float f => (toInt f).toInt
def truthy : SVal F → Bool
  | .int i => i ≠ 0
  | .float f => !(feq f (ofInt 0))
end SVal
open SVal

def bool (b : Bool) : SVal F := .int (if b then 1 else 0)

/-- integer ⊕ integer stays integer (wrapped), anything else is promoted to float -/
def arith (fi : Int → Int → Int) (ff : F → F → F) (a b : SVal F) : SVal F :=
  match a, b with
  | .int x, .int y => .int (wrap (fi x y))
  | a, b => .float (ff a.toF b.toF)

def compare (fi : Int → Int → Bool) (ff : F → F → Bool) (a b : SVal F) : SVal F :=
  match a, b with
  | .int x, .int y => bool (fi x y)
  | a, b => bool (ff a.toF b.toF)

/-- bitwise operator on the 64-bit two's complement patterns -/
def bitwise (f : Nat → Nat → Nat) (a b : SVal F) : SVal F :=
  .int (wrap (f (residue a.toI) (residue b.toI)))

/-- Strict binary operators (both operands already evaluated). -/
def binStrict (op : BinOpKind) (a b : SVal F) : Except SErr (SVal F) :=
  match op with
  | .add => .ok (arith (· + ·) add a b)
  | .sub => .ok (arith (· - ·) sub a b)
  | .mul => .ok (arith (· * ·) mul a b)
  | .div => .ok (.float (div a.toF b.toF))
  | .rem =>
    match a, b with
    | .int _, .int 0 => .error .remByZero
    | a, b => .ok (arith Int.tmod rem a b)     -- sign of the dividend
  | .pow =>
    match a, b with
    | .int x, .int y => if 0 ≤ y then .ok (.int (wrap (x ^ y.toNat))) else .ok (.float (powf a.toF b.toF))
    | a, b => .ok (.float (powf a.toF b.toF))
  | .eq => .ok (compare (· == ·) feq a b)
  | .ne => .ok (compare (· != ·) (fun x y => !(feq x y)) a b)
  | .lt => .ok (compare (· < ·) flt a b)
  | .le => .ok (compare (· ≤ ·) fle a b)
  | .gt => .ok (compare (· > ·) (fun x y => flt y x) a b)
  | .ge => .ok (compare (· ≥ ·) (fun x y => fle y x) a b)
  -- shift amounts are taken modulo 64 (the standard leaves larger amounts undefined)
  | .shl => .ok (.int (wrap (a.toI * 2 ^ (b.toI % 64).toNat)))
  | .shr => .ok (.int (a.toI / 2 ^ (b.toI % 64).toNat))      -- floor: arithmetic shift
  | .bitAnd => .ok (bitwise (· &&& ·) a b)
  | .bitOr => .ok (bitwise (· ||| ·) a b)
  | .xor => .ok (bitwise (· ^^^ ·) a b)
  | .and => .ok (bool (a.truthy && b.truthy))
  | .or => .ok (bool (a.truthy || b.truthy))

/-- sign of a float: -1, 0 (the zero itself), +1; NaN stays NaN -/
def fsgn (f : F) : F :=
  if flt (ofInt 0) f then ofInt 1 else if flt f (ofInt 0) then ofInt (-1) else f

def un (op : UnOpKind) (a : SVal F) : SVal F :=
  match op with
  | .not => .int (-(a.toI) - 1)
  | .abs => match a with
    | .int i => .int (wrap i.natAbs)
    | .float f => .float (abs f)
  | .sgn => match a with
    | .int i => .int i.sign
    | .float f => .float (fsgn f)
  | .neg => match a with
    | .int i => .int (wrap (-i))
    | .float f => .float (neg f)
  | .sin => .float (sin a.toF)
  | .cos => .float (cos a.toF)
  | .tan => .float (tan a.toF)
  | .asin => .float (asin a.toF)
  | .acos => .float (acos a.toF)
  | .atan => .float (atan a.toF)
  | .exp => .float (exp a.toF)
  | .ln => .float (ln a.toF)
  | .lg => .float (log10 a.toF)
  | .sqrt => .float (sqrt a.toF)
  | .trunc => .float (trunc a.toF)
  | .floor => .float (floor a.toF)
  | .ceil => .float (ceil a.toF)
  | .round => .float (round a.toF)

/-- Reference evaluator: `&&`, `||`, `?:` evaluate only the operands they need. -/
def eval (env : SEnv F) : Expr F → Except SErr (SVal F)
  | .binOp .and l r => do
    let a ← eval env l
    if a.truthy then do
      let b ← eval env r
      pure (bool b.truthy)
    else pure (bool false)
  | .binOp .or l r => do
    let a ← eval env l
    if a.truthy then pure (bool true)
    else do
      let b ← eval env r
      pure (bool b.truthy)
  | .binOp k l r => do
    let a ← eval env l
    let b ← eval env r
    binStrict k a b
  | .unOp k e => do
    let a ← eval env e
    pure (un k a)
  | .ite c t e => do
    let cv ← eval env c
    if cv.truthy then eval env t else eval env e
  | .int i => pure (.int i.toInt)
  | .float f => pure (.float f)
  | .ident s =>
    match env s with
    | some v => pure v
    | none => throw .unknownIdent


/-! ## Environments of sub-expressions: reference by substitution

The reference meaning of a formula evaluated with `<Expression>` bindings is the meaning of the
formula in which every bound name is replaced by its (recursively expanded) expression; names
that are not bound stay identifiers (and are unknown identifiers of the reference evaluator).
`expand` performs that replacement; it yields `none` exactly when the expansion meets a name
inside its own expansion (a cyclic binding) or — for an environment given as a function —
exceeds `fuel` nested expansions. -/

def expand {F : Type} (env : EnvX F) : List String → Nat → Expr F → Option (Expr F)
  | vis, fuel, .binOp k l r => do
    let l' ← expand env vis fuel l
    let r' ← expand env vis fuel r
    pure (.binOp k l' r')
  | vis, fuel, .unOp k x => do
    let x' ← expand env vis fuel x
    pure (.unOp k x')
  | vis, fuel, .ite c t e => do
    let c' ← expand env vis fuel c
    let t' ← expand env vis fuel t
    let e' ← expand env vis fuel e
    pure (.ite c' t' e')
  | _, _, .int i => some (.int i)
  | _, _, .float f => some (.float f)
  | vis, fuel, .ident s =>
    if vis.contains s then none
    else
      match env s with
      | none => some (.ident s)
      | some b =>
        match fuel with
        | 0 => none
        | fuel + 1 => expand env (s :: vis) fuel b
termination_by _ fuel e => (fuel, sizeOf e)

/-- Environment given by a list of bindings (first match wins, as the `HashMap` has one entry per name). -/
def envOfList {F : Type} (bs : List (String × Expr F)) : EnvX F := fun s =>
  match bs.find? (fun b => b.1 = s) with
  | some b => some b.2
  | none => none

/-- **Acyclicity** of the bindings `bs` as far as the formula `e` can reach them: the full
expansion of `e` exists.  Decidable (a `Bool`); with `n` bindings a chain of distinct names has
at most `n` links, so fuel `n + 1` is never the reason for `false`. -/
def acyclicFor {F : Type} (bs : List (String × Expr F)) (e : Expr F) : Bool :=
  (expand (envOfList bs) [] (bs.length + 1) e).isSome

/-! ## Embedding of model values -/

def toSVal : EvalResult F → SVal F
  | .int i => .int i.toInt
  | .float f => .float f

def toSEnv (env : Env F) : SEnv F := fun s => (env s).map toSVal

/-- Model outcome as a reference outcome; `none` for a panic or a model artefact. -/
def toSRes : R (EvalResult F) → Option (Except SErr (SVal F))
  | .ok v => some (.ok (toSVal v))
  | .err .invalidNode => some (.error .unknownIdent)
  | .err .invalidData => some (.error .remByZero)
  | .err _ => none
  | .panic => none

end CamVerif.Formula.Spec
