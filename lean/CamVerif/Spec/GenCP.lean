/-
Independent reference for the GenCP / USB3 Vision *command* packet layout
(USB3 Vision 1.x, section "Control Protocol": prefix, CCD, SCD), written from the
wire layout with absolute offsets.  It shares nothing with `Model/Cmd.lean`
except `Bytes` and `fromLE`.

  offset  size  field
  0       4     prefix magic 0x43563355 ("U3VC"), little endian
  4       2     flags            (bit 14 = REQUEST_ACK)
  6       2     command id       (0x0800 ReadMem, 0x0802 WriteMem,
                                  0x0806 ReadMemStacked, 0x0808 WriteMemStacked)
  8       2     scd length       (bytes following the 12-byte header)
  10      2     request id
  12      ...   SCD
     ReadMem          : address u64 | reserved u16 = 0 | read length u16
     WriteMem         : address u64 | data (scd_len - 8 bytes)
     ReadMemStacked   : n x (address u64 | reserved u16 = 0 | read length u16)
     WriteMemStacked  : n x (address u64 | reserved u16 = 0 | data length u16 | data)
-/
import CamVerif.Prelude.Basic
namespace CamVerif.Spec.GenCP

/-- bytes `[off, off+n)` of `bs` (shorter if `bs` ends before). -/
def slice (bs : Bytes) (off n : Nat) : Bytes := (bs.drop off).take n

/-- unsigned little-endian integer stored in bytes `[off, off+n)`. -/
def uintAt (bs : Bytes) (off n : Nat) : Nat := fromLE (slice bs off n)

inductive CmdBody where
  | readMem (address readLength : Nat)
  | writeMem (address : Nat) (data : Bytes)
  | readMemStacked (entries : List (Nat × Nat))
  | writeMemStacked (entries : List (Nat × Bytes))
  deriving Repr, DecidableEq

/-- Everything a command packet carries. -/
structure CmdFields where
  requestId : Nat
  scdLen : Nat
  body : CmdBody
  deriving Repr, DecidableEq

def CMD_MAGIC : Nat := 0x43563355
def FLAG_REQUEST_ACK : Nat := 0x4000

/-- Entries of a ReadMemStacked SCD starting at absolute offset `off`, `n` of them. -/
def readEntriesAt (bs : Bytes) (off : Nat) : Nat → Option (List (Nat × Nat))
  | 0 => some []
  | n + 1 =>
    if uintAt bs (off + 8) 2 ≠ 0 then none else
    match readEntriesAt bs (off + 12) n with
    | none => none
    | some rest => some ((uintAt bs off 8, uintAt bs (off + 10) 2) :: rest)

/-- Entries of a WriteMemStacked SCD starting at absolute offset `off` and ending
exactly at `stop`; `fuel` bounds the number of entries (each takes ≥ 12 bytes). -/
def writeEntriesAt (bs : Bytes) (stop : Nat) : Nat → Nat → Option (List (Nat × Bytes))
  | 0, off => if off = stop then some [] else none
  | fuel + 1, off =>
    if off = stop then some [] else
    if stop < off + 12 then none else
    if uintAt bs (off + 8) 2 ≠ 0 then none else
    let len := uintAt bs (off + 10) 2
    if stop < off + 12 + len then none else
    match writeEntriesAt bs stop fuel (off + 12 + len) with
    | none => none
    | some rest => some ((uintAt bs off 8, slice bs (off + 12) len) :: rest)

/-- Independent decoder of a complete command packet. `none` = not a well-formed
command packet of exactly this length. -/
def decodeCmd (bs : Bytes) : Option CmdFields :=
  if bs.length < 12 then none else
  if uintAt bs 0 4 ≠ CMD_MAGIC then none else
  if uintAt bs 4 2 ≠ FLAG_REQUEST_ACK then none else
  let kind := uintAt bs 6 2
  let scdLen := uintAt bs 8 2
  let requestId := uintAt bs 10 2
  if bs.length ≠ 12 + scdLen then none else
  if kind = 0x0800 then
    if scdLen ≠ 12 then none else
    if uintAt bs 20 2 ≠ 0 then none else
    some ⟨requestId, scdLen, .readMem (uintAt bs 12 8) (uintAt bs 22 2)⟩
  else if kind = 0x0802 then
    if scdLen < 8 then none else
    some ⟨requestId, scdLen, .writeMem (uintAt bs 12 8) (slice bs 20 (scdLen - 8))⟩
  else if kind = 0x0806 then
    if scdLen % 12 ≠ 0 then none else
    match readEntriesAt bs 12 (scdLen / 12) with
    | none => none
    | some es => some ⟨requestId, scdLen, .readMemStacked es⟩
  else if kind = 0x0808 then
    match writeEntriesAt bs (12 + scdLen) (scdLen / 12 + 1) 12 with
    | none => none
    | some es => some ⟨requestId, scdLen, .writeMemStacked es⟩
  else none

/-- Number of SCD bytes the layout prescribes for a command body. -/
def scdLenOf : CmdBody → Nat
  | .readMem _ _ => 12
  | .writeMem _ d => 8 + d.length
  | .readMemStacked es => 12 * es.length
  | .writeMemStacked es => (es.map fun e => 12 + e.2.length).sum

/-- SCD length of the acknowledge a conforming device sends for a successfully
executed command (USB3 Vision: ReadMemAck carries the bytes read; WriteMemAck is
`reserved u16 | length written u16`; the stacked acks concatenate those). -/
def ackScdLen : CmdBody → Nat
  | .readMem _ n => n
  | .writeMem _ _ => 4
  | .readMemStacked es => (es.map (·.2)).sum
  | .writeMemStacked es => 4 * es.length

/-- SCD length of a PendingAck (`reserved u16 | timeout ms u16`), which may answer any command. -/
def PENDING_ACK_SCD_LEN : Nat := 4

/-- Acknowledge header: prefix (4) + CCD (8). -/
def ACK_HEADER_LEN : Nat := 12

end CamVerif.Spec.GenCP
