/-
Reference semantics for C18 (access predicates) and C03 (clause-per-rule value
semantics) over the node graphs of `CamVerif.GenApi`.  Written from the property
statements / the GenApi standard's rules, not from the Rust control flow.

C18.  `Readable cx d n s` / `Writable cx d n s` transcribe the statement:
  readable  ⇔ implemented ∧ available ∧ imposed access mode permits reading ∧
              register access mode permits reading ∧ every value source is readable
  writable  ⇔ implemented ∧ available ∧ ¬locked ∧ imposed mode permits writing ∧
              register access mode permits writing ∧ every value target (pValue and all
              pValueCopy) is writable (∧ for pIndex the selector is readable; for a
              converter the formula variables are readable)
  immediates (true constants) are readable and never writable; value-store slots are both.
"implemented / available / locked" refer to the *current value* of the controlling
node (boolean node: its value; integer node: value ≠ 0); the current values of
controlling nodes and of pIndex selectors are taken from the value semantics
(`execRec`), at the reference depth `d` at which the node itself is evaluated.
`d` bounds the length of reference chains followed (a node at the end of a longer
chain counts as not accessible); on acyclic graphs any `d` above the rank is enough.
-/
import CamVerif.Model.GenApi
namespace CamVerif.GenApiSem
open CamVerif CamVerif.GenApi

section
variable {F E : Type} (cx : Ctx F E)

/-- Current truth value of a controlling node (`pIsImplemented`, `pIsAvailable`,
`pIsLocked`), stated from the GenApi convention and the raw values of the node — NOT
through the code's `bool_from_id`: a boolean node counts as its value, an integer node as
true exactly when its integer value is non-zero (GenICam reference implementation
`CBooleanPolyRef::GetValue`: `GetValue() != 0`; device descriptions feed these elements
mask expressions such as `REG & 0x4`); any other kind of node, or a node whose value
cannot be obtained, gives no truth value. -/
def ctlValue (d : Nat) (c : NodeId) (s : S F) : Option Bool :=
  if isBoolKind cx c then
    match ((execRec cx d).boolValue c s).1 with
    | .ok b => some b
    | _ => none
  else if isIntKind cx c then
    match ((execRec cx d).intValue c s).1 with
    | .ok v => some (decide (v ≠ 0))
    | _ => none
  else none

/-- Current value of a pIndex selector. -/
def selValue (d : Nat) (sel : NodeId) (s : S F) : Option Int :=
  match (pIndexIndex cx (execRec cx d) sel s).1 with
  | .ok i => some i
  | _ => none

/-- the controlling node is absent, or currently evaluates to `want` -/
def ctlIs (d : Nat) (c : Option NodeId) (want : Bool) (s : S F) : Bool :=
  match c with
  | none => true
  | some c => ctlValue cx d c s == some want

/-- implemented ∧ available ∧ imposed mode permits reading -/
def baseReadable (d : Nat) (b : Base) (s : S F) : Bool :=
  ctlIs cx d b.pIsImplemented true s && ctlIs cx d b.pIsAvailable true s && b.imposed != .wo

/-- implemented ∧ available ∧ ¬locked ∧ imposed mode permits writing -/
def baseWritable (d : Nat) (b : Base) (s : S F) : Bool :=
  ctlIs cx d b.pIsImplemented true s && ctlIs cx d b.pIsAvailable true s &&
  ctlIs cx d b.pIsLocked false s && b.imposed != .ro

/-- a node usable as numeric value source / target (`pValue`, `pValueCopy`, indexed values):
integer, float or enumeration -/
def isNumericRef (n : NodeId) : Bool := isIntKind cx n || isFloatKind cx n || isEnumKind cx n

/-- a node usable as formula variable / converter `pValue`: integer, float, boolean, enumeration -/
def isFormulaRef (n : NodeId) : Bool :=
  isIntKind cx n || isFloatKind cx n || isBoolKind cx n || isEnumKind cx n

/-- one more level of references, given the predicate `prev` one level down -/
def slotOrNodeOk (prev : NodeId → S F → Bool) (v : ImmOrPNode SlotId) (s : S F) : Bool :=
  match v with
  | .imm _ => true                       -- value-store slot: readable and writable
  | .pnode p => isNumericRef cx p && prev p s

def strSlotOrNodeOk (prev : NodeId → S F → Bool) (v : ImmOrPNode SlotId) (s : S F) : Bool :=
  match v with
  | .imm _ => true
  | .pnode p => isStrKind cx p && prev p s

/-- every value source of a `ValueKind` is readable -/
def vkReadable (d : Nat) (prevR : NodeId → S F → Bool) (vk : ValueKind) (s : S F) : Bool :=
  match vk with
  | .value _ => true
  | .pValue p _ => isNumericRef cx p && prevR p s
  | .pIndex sel entries dflt =>
    isIntKind cx sel && prevR sel s &&
    match selValue cx d sel s with
    | some i => slotOrNodeOk cx prevR (pIndexSelect entries dflt i) s
    | none => false

/-- every value target of a `ValueKind` is writable (selector readable) -/
def vkWritable (d : Nat) (prevR prevW : NodeId → S F → Bool) (vk : ValueKind) (s : S F) : Bool :=
  match vk with
  | .value _ => true
  | .pValue p copies =>
    isNumericRef cx p && prevW p s && copies.all fun c => isNumericRef cx c && prevW c s
  | .pIndex sel entries dflt =>
    isIntKind cx sel && prevR sel s &&
    match selValue cx d sel s with
    | some i => slotOrNodeOk cx prevW (pIndexSelect entries dflt i) s
    | none => false

def varsReadable (prevR : NodeId → S F → Bool) (vars : List (String × NodeId)) (s : S F) : Bool :=
  vars.all fun v => isFormulaRef cx v.2 && prevR v.2 s

/-- `Readable` one level up -/
def readableStep (d : Nat) (prevR : NodeId → S F → Bool) (n : NodeId) (s : S F) : Bool :=
  match cx.graph n with
  | some (.integer b vk _ _ _) | some (.float b vk _ _ _) =>
    baseReadable cx d b s && vkReadable cx d prevR vk s
  | some (.intReg rb ..) | some (.maskedIntReg rb ..) | some (.floatReg rb _)
  | some (.stringReg rb) =>
    baseReadable cx d rb.base s && rb.accessMode != .wo
  | some (.boolean b v _ _) | some (.enumeration b _ v) =>
    baseReadable cx d b s && slotOrNodeOk cx prevR v s
  | some (.string b v) => baseReadable cx d b s && strSlotOrNodeOk cx prevR v s
  | some (.converter b fm _ _ pv) | some (.intConverter b fm _ _ pv) =>
    baseReadable cx d b s && (isFormulaRef cx pv && prevR pv s) && varsReadable cx prevR fm.vars s
  | some (.swissKnife b fm _) | some (.intSwissKnife b fm _) =>
    baseReadable cx d b s && varsReadable cx prevR fm.vars s
  | _ => false

/-- `Writable` one level up -/
def writableStep (d : Nat) (prevR prevW : NodeId → S F → Bool) (n : NodeId) (s : S F) : Bool :=
  match cx.graph n with
  | some (.integer b vk _ _ _) | some (.float b vk _ _ _) =>
    baseWritable cx d b s && vkWritable cx d prevR prevW vk s
  | some (.intReg rb ..) | some (.maskedIntReg rb ..) | some (.floatReg rb _)
  | some (.stringReg rb) =>
    baseWritable cx d rb.base s && rb.accessMode != .ro
  | some (.boolean b v _ _) | some (.enumeration b _ v) | some (.command b v _) =>
    baseWritable cx d b s && slotOrNodeOk cx prevW v s
  | some (.string b v) => baseWritable cx d b s && strSlotOrNodeOk cx prevW v s
  | some (.converter b fm _ _ pv) | some (.intConverter b fm _ _ pv) =>
    baseWritable cx d b s && (isFormulaRef cx pv && prevW pv s) && varsReadable cx prevR fm.vars s
  | _ => false   -- swiss knives, constants-only nodes, ports, categories …

/-- **Readable** at reference depth `d` (Bool form, executable) -/
def readableB : Nat → NodeId → S F → Bool
  | 0 => fun _ _ => false
  | d + 1 => readableStep cx d (readableB d)

/-- **Writable** at reference depth `d` (Bool form, executable) -/
def writableB : Nat → NodeId → S F → Bool
  | 0 => fun _ _ => false
  | d + 1 => writableStep cx d (readableB cx d) (writableB d)

def Readable (d : Nat) (n : NodeId) (s : S F) : Prop := readableB cx d n s = true
def Writable (d : Nat) (n : NodeId) (s : S F) : Prop := writableB cx d n s = true

instance (d : Nat) (n : NodeId) (s : S F) : Decidable (Readable cx d n s) := by
  unfold Readable; infer_instance
instance (d : Nat) (n : NodeId) (s : S F) : Decidable (Writable cx d n s) := by
  unfold Writable; infer_instance

/-- what the driver prints next to `is_readable` / `is_writable` answers -/
def readableSpec (fuel : Nat) (n : NodeId) (s : S F) : Option Bool := some (readableB cx (fuel + 1) n s)
def writableSpec (fuel : Nat) (n : NodeId) (s : S F) : Option Bool := some (writableB cx (fuel + 1) n s)

end

/-! ## C03: reference value semantics (clause per rule)

Pure partial functions over the observable state (value store + device image): no
access log, no error classes, no interface records — `none` means "the standard assigns
no value" (or the node kind is outside this reference: converters and swiss knives).
`d` is the well-foundedness witness: the depth of node references followed (any `d` above
the rank of the node is enough on an acyclic graph). -/

section
variable {F E : Type} (cx : Ctx F E)

/-! ### First principles (stated here, not imported from the model)

The pieces of the rules below that carry real content are defined in this file from
scratch — which kinds of node have an integer / float / string / boolean / enumeration
value, which indexed value a selector value selects, which entry a value denotes, `i64`
arithmetic with its range condition, and what a read / write of the device image is —
and each comes with a characterisation in plain logical vocabulary (`Props/C03.lean`:
`selectIndexed_spec`, `firstEntryWithValue_spec`, `i64_arith_spec`, `image_read_spec`,
`image_patch_spec`).  That the model's own helper functions compute the same is part of
what the refinement theorems prove. -/

/-- kinds of node that have an integer value (IInteger) -/
def intValued (n : NodeId) : Bool :=
  match cx.graph n with
  | some nd =>
    match nd with
    | .integer .. => true
    | .intReg .. => true
    | .maskedIntReg .. => true
    | .intConverter .. => true
    | .intSwissKnife .. => true
    | _ => false
  | none => false

/-- kinds of node that have a float value (IFloat) -/
def floatValued (n : NodeId) : Bool :=
  match cx.graph n with
  | some nd =>
    match nd with
    | .float .. => true
    | .floatReg .. => true
    | .converter .. => true
    | .swissKnife .. => true
    | _ => false
  | none => false

def enumValued (n : NodeId) : Bool :=
  match cx.graph n with
  | some (.enumeration ..) => true
  | _ => false

def strValued (n : NodeId) : Bool :=
  match cx.graph n with
  | some (.string ..) => true
  | some (.stringReg ..) => true
  | _ => false

/-- `<pIndex>`: the indexed value selected by selector value `i` — the first
`<ValueIndexed Index=i>` in document order, the default when there is none. -/
def selectIndexed {α : Type} : List (Int × α) → α → Int → α
  | [], dflt, _ => dflt
  | (j, v) :: rest, dflt, i => if j = i then v else selectIndexed rest dflt i

/-- the declared integer value of an enumeration entry node -/
def entryValue (e : NodeId) : Option Int :=
  match cx.graph e with
  | some (.enumEntry _ v _ _) => some v
  | _ => .none

/-- the entry an integer value denotes: the first entry (document order) whose declared
value is `v`; no entry if none matches (or the list names something that is not an entry) -/
def firstEntryWithValue : List NodeId → Int → Option NodeId
  | [], _ => .none
  | e :: es, v =>
    match entryValue cx e with
    | some ev => if ev = v then some e else firstEntryWithValue es v
    | .none => .none

/-- the declared symbolic name of an enumeration entry node -/
def entrySymbolic (e : NodeId) : Option String :=
  match cx.graph e with
  | some (.enumEntry _ _ _ sym) => some sym
  | _ => .none

/-- the value the entry called `name` denotes (first entry with that symbolic name) -/
def entryValueNamed : List NodeId → String → Option Int
  | [], _ => .none
  | e :: es, name =>
    match entrySymbolic cx e, entryValue cx e with
    | some sym, some v => if sym = name then some v else entryValueNamed es name
    | _, _ => .none

/-- a length as the code's `usize` (64 bit): the residue modulo 2^64 -/
def usizeOf (l : Int) : Nat := (l % 2 ^ 64).toNat

/-- `i64` range -/
def InI64 (x : Int) : Prop := -(2 ^ 63) ≤ x ∧ x < 2 ^ 63

instance (x : Int) : Decidable (InI64 x) := by unfold InI64; infer_instance

/-- An `i64` result: the exact integer when it is in range; out of range the code has no
value with overflow checks (it panics) and the two's-complement residue without. -/
def i64Result (p : Profile) (x : Int) : Option Int :=
  if InI64 x then some x else if p.overflowChecks then .none else some (Int.bmod x (2 ^ 64))

/-- the bytes `[k, k+n)` of an image (`none` if the range leaves the image) -/
def imageBytes : Bytes → Nat → Nat → Option Bytes
  | _, _, 0 => some []
  | mem, k, n + 1 =>
    match mem[k]? with
    | some b => (imageBytes mem (k + 1) n).map (b :: ·)
    | .none => .none

/-- a device read of `len` bytes at `a`: the address range lies inside the image -/
def imageRead (mem : Bytes) (a : Int) (len : Nat) : Option Bytes :=
  if 0 ≤ a ∧ a.toNat + len ≤ mem.length then imageBytes mem a.toNat len else .none

/-- an image with `data` stored from index `k` on (everything else unchanged) -/
def imagePatch : Bytes → Nat → Bytes → Bytes
  | [], _, _ => []
  | m :: ms, 0, [] => m :: ms
  | _ :: ms, 0, d :: ds => d :: imagePatch ms 0 ds
  | m :: ms, k + 1, ds => m :: imagePatch ms k ds

/-- a device write: the range lies inside the image and does not touch the refused window -/
def imageWrite (d : Dev) (a : Int) (data : Bytes) : Option Dev :=
  if 0 ≤ a ∧ a.toNat + data.length ≤ d.mem.length ∧
      ¬ (a.toNat < d.roHi ∧ d.roLo < a.toNat + data.length) then
    some { d with mem := imagePatch d.mem a.toNat data }
  else .none

def resOpt {α : Type} : Res Err α → Option α
  | .ok a => some a
  | _ => none

/-- R1. A value-store slot read as integer / float / string. -/
def slotInt (s : S F) (id : SlotId) : Option Int :=
  match s.vs[id]? with
  | some (.int i) => some i
  | some (.float f) => some (cx.ops.f2i f)
  | _ => none
def slotFloat (s : S F) (id : SlotId) : Option F :=
  match s.vs[id]? with
  | some (.int i) => some (cx.ops.i2f i)
  | some (.float f) => some f
  | _ => none
def slotStr (s : S F) (id : SlotId) : Option Bytes :=
  match s.vs[id]? with
  | some (.str b) => some b
  | _ => none

/-- the value semantics of referenced nodes, one level down -/
structure ValSem (F : Type) where
  int : NodeId → S F → Option Int
  float : NodeId → S F → Option F
  str : NodeId → S F → Option Bytes
  enum : NodeId → S F → Option Int
  /-- what formula variables may additionally draw on: boolean value, current entry of an
  enumeration, and the limits named by the `.Min` / `.Max` / `.Inc` accessors -/
  bool : NodeId → S F → Option Bool
  entry : NodeId → S F → Option NodeId
  intMin : NodeId → S F → Option Int
  intMax : NodeId → S F → Option Int
  intInc : NodeId → S F → Option (Option Int)
  floatMin : NodeId → S F → Option F
  floatMax : NodeId → S F → Option F
  floatInc : NodeId → S F → Option (Option F)

def ValSem.none (F : Type) : ValSem F :=
  ⟨fun _ _ => .none, fun _ _ => .none, fun _ _ => .none, fun _ _ => .none, fun _ _ => .none, fun _ _ => .none,
   fun _ _ => .none, fun _ _ => .none, fun _ _ => .none, fun _ _ => .none, fun _ _ => .none, fun _ _ => .none⟩

/-- R2. A referenced node read as integer: integer kind as is, float kind truncated
(`as i64`), enumeration its integer value. -/
def numInt (prev : ValSem F) (p : NodeId) (s : S F) : Option Int :=
  if intValued cx p then prev.int p s
  else if floatValued cx p then (prev.float p s).map cx.ops.f2i
  else if enumValued cx p then prev.enum p s
  else .none

/-- R2'. … read as float. -/
def numFloat (prev : ValSem F) (p : NodeId) (s : S F) : Option F :=
  if intValued cx p then (prev.int p s).map cx.ops.i2f
  else if floatValued cx p then prev.float p s
  else if enumValued cx p then (prev.enum p s).map cx.ops.i2f
  else .none

def sonInt (prev : ValSem F) (v : ImmOrPNode SlotId) (s : S F) : Option Int :=
  match v with
  | .imm id => slotInt cx s id
  | .pnode p => numInt cx prev p s

def sonFloat (prev : ValSem F) (v : ImmOrPNode SlotId) (s : S F) : Option F :=
  match v with
  | .imm id => slotFloat cx s id
  | .pnode p => numFloat cx prev p s

def immInt (prev : ValSem F) (v : ImmOrPNode Int) (s : S F) : Option Int :=
  match v with
  | .imm a => some a
  | .pnode p => numInt cx prev p s

/-- R3. `<Value>` / `<pValue>` / `<pIndex>`: the value comes from the slot, from pValue
(never from a pValueCopy), or from the indexed value selected by the selector. -/
def vkInt (prev : ValSem F) (vk : ValueKind) (s : S F) : Option Int :=
  match vk with
  | .value id => slotInt cx s id
  | .pValue p _ => numInt cx prev p s
  | .pIndex sel entries dflt =>
    if intValued cx sel then (prev.int sel s).bind fun i => sonInt cx prev (selectIndexed entries dflt i) s
    else .none

def vkFloat (prev : ValSem F) (vk : ValueKind) (s : S F) : Option F :=
  match vk with
  | .value id => slotFloat cx s id
  | .pValue p _ => numFloat cx prev p s
  | .pIndex sel entries dflt =>
    if intValued cx sel then (prev.int sel s).bind fun i => sonFloat cx prev (selectIndexed entries dflt i) s
    else .none

/-! #### DOUBT (open): the default offset of `<pIndex>`

What a `<pIndex>` WITHOUT `Offset` / `pOffset` contributes to a register address is
transcribed from the code (`elem_type.rs`: index × 1), NOT settled independently: an
independent recollection says GenApi uses the register's *Length* as the default offset
(register arrays: element `i` of an array of 4-byte registers lives at base + 4·i), and
the text of the standard is not available offline.  The reading is the one definition
`pIndexDefaultOffset` below; flipping it to `.registerLength` makes the reference semantics
certify the other reading, and then `effectiveAddrs_eq` (Proofs/C03Spec.lean) — and with
it the refinement theorems — fail, because the code does not do that.  The harness
oracle has the same switch (`PINDEX_DEFAULT_OFFSET`) and counts in every run on how many
register address evaluations the two readings differ. -/

inductive PIndexDefaultOffset where
  | one
  | registerLength

/-- the reading certified here — a one-line flip -/
def pIndexDefaultOffset : PIndexDefaultOffset := .one

/-- the address elements of a register with the default offset made explicit, under reading `r` -/
def effectiveAddrsFor (r : PIndexDefaultOffset) (rb : RegBase) : List AddressKind :=
  rb.addrs.map fun k =>
    match k, r with
    | .pIndex sel .none, .registerLength => .pIndex sel (some rb.length)
    | k, _ => k

/-- … under the reading certified here -/
def effectiveAddrs (rb : RegBase) : List AddressKind := effectiveAddrsFor pIndexDefaultOffset rb

/-- R4. One address element (a `pIndex` without offset — after `effectiveAddrs` — is the
index itself). -/
def addrElem (prev : ValSem F) (k : AddressKind) (s : S F) : Option Int :=
  match k with
  | .address a => immInt cx prev a s
  | .intSwissKnife n => numInt cx prev n s
  | .pIndex sel offset =>
    (numInt cx prev sel s).bind fun b =>
      match offset with
      | .none => some b
      | some o => (immInt cx prev o s).bind fun off => i64Result cx.profile (b * off)

/-- R5. The effective address is the sum of the address elements (in `i64`). -/
def addrSum (prev : ValSem F) (ks : List AddressKind) (acc : Int) (s : S F) : Option Int :=
  match ks with
  | [] => some acc
  | k :: ks => (addrElem cx prev k s).bind fun x =>
      (i64Result cx.profile (acc + x)).bind fun acc' => addrSum prev ks acc' s

/-- R6. The bytes of a register: `length` bytes (Length / pLength) at the effective
address, read through a plain (non-chunk) port from the device image. -/
def regBytes (prev : ValSem F) (rb : RegBase) (s : S F) : Option Bytes :=
  (immInt cx prev rb.length s).bind fun l =>
  (addrSum cx prev (effectiveAddrs rb) 0 s).bind fun a =>
    if 0 ≤ l then
      match cx.graph rb.port with
      | some (.port _ false) => imageRead s.dev.mem a l.toNat
      | _ => .none
    else .none

/-! #### Formula nodes (swiss knives, converters)

The formula evaluator itself (`cx.ops.eval`, C05) and the syntax of variable names
(`VarKind.ofName`, characterised by `variable_names` in Props/C03.lean) are parameters /
shared vocabulary; what is stated here is WHICH environment a formula is evaluated in and
what each variable is bound to. -/

def boolValued (n : NodeId) : Bool :=
  match cx.graph n with
  | some (.boolean ..) => true
  | _ => false

/-- the `NumericValue` of an enumeration entry (its `Value` converted when none is declared) -/
def entryNumericValue (e : NodeId) : Option F :=
  match cx.graph e with
  | some (.enumEntry _ v numeric _) =>
    some (match numeric with
      | some f => f
      | .none => cx.ops.i2f v)
  | _ => .none

/-- F1. The expression a node denotes as plain variable (and as `TO` of a converter):
integer kind its integer value, float kind its float value, boolean 1 / 0, enumeration the
`NumericValue` of its current entry. -/
def exprOfNode (prev : ValSem F) (n : NodeId) (s : S F) : Option E :=
  if intValued cx n then (prev.int n s).map cx.ops.exprOfInt
  else if floatValued cx n then (prev.float n s).map cx.ops.exprOfFloat
  else if boolValued cx n then (prev.bool n s).map fun b => cx.ops.exprOfInt (if b then 1 else 0)
  else if enumValued cx n then
    (prev.entry n s).bind fun e => (entryNumericValue cx e).map cx.ops.exprOfFloat
  else .none

/-- F2. What a `<pVariable Name="X.acc">` is bound to: `X` / `X.Value` the node's value,
`X.Min` / `X.Max` / `X.Inc` its current limits (a node without increment has no `.Inc`),
`X.Enum.<entry>` the declared integer value of that entry of the enumeration. -/
def varExpr (prev : ValSem F) (k : VarKind) (n : NodeId) (s : S F) : Option E :=
  match k with
  | .value => exprOfNode cx prev n s
  | .min =>
    if intValued cx n then (prev.intMin n s).map cx.ops.exprOfInt
    else if floatValued cx n then (prev.floatMin n s).map cx.ops.exprOfFloat
    else .none
  | .max =>
    if intValued cx n then (prev.intMax n s).map cx.ops.exprOfInt
    else if floatValued cx n then (prev.floatMax n s).map cx.ops.exprOfFloat
    else .none
  | .inc =>
    if intValued cx n then (prev.intInc n s).bind fun o => o.map cx.ops.exprOfInt
    else if floatValued cx n then (prev.floatInc n s).bind fun o => o.map cx.ops.exprOfFloat
    else .none
  | .enumEntry name =>
    match cx.graph n with
    | some (.enumeration _ entries _) => (entryValueNamed cx entries name).map cx.ops.exprOfInt
    | _ => .none

/-- F3. The variable bindings, in document order on top of `env` (newest first). -/
def specVars (prev : ValSem F) : List (String × NodeId) → Env E → S F → Option (Env E)
  | [], env, _ => some env
  | (name, n) :: vs, env, s =>
    (resOpt (VarKind.ofName name)).bind fun k =>
    (varExpr cx prev k n s).bind fun e => specVars prev vs ((name, e) :: env) s

/-- F4. The formula environment: the bindings present before (`TO` / `FROM`), then the
variables, then the constants, then the expressions — a later binding shadows an earlier
one of the same name (lookup finds the first of the list). -/
def specEnv (prev : ValSem F) (fm : Formulaic F E) (env0 : Env E) (s : S F) : Option (Env E) :=
  (specVars cx prev fm.vars env0 s).map fun env1 =>
    fm.exprs.reverse ++ ((fm.consts.map fun c => (c.1, numLitExpr cx c.2)).reverse ++ env1)

/-- F5. A swiss knife: its formula in that environment. -/
def knifeResult (prev : ValSem F) (fm : Formulaic F E) (formula : E) (s : S F) : Option (EvalResult F) :=
  (specEnv cx prev fm [] s).bind fun env => resOpt (evalFormula cx env formula)

/-- F6. A converter read: FormulaFrom with `TO` = the current value of pValue. -/
def converterResult (prev : ValSem F) (fm : Formulaic F E) (formulaFrom : E) (pv : NodeId) (s : S F) :
    Option (EvalResult F) :=
  (exprOfNode cx prev pv s).bind fun to =>
  (specEnv cx prev fm [("TO", to)] s).bind fun env => resOpt (evalFormula cx env formulaFrom)

/-- R13. Boolean: On / Off. -/
def specBoolP (prev : ValSem F) (n : NodeId) (s : S F) : Option Bool :=
  match cx.graph n with
  | some (.boolean _ value onV offV) =>
    (sonInt cx prev value s).bind fun v =>
      if v == onV then some true else if v == offV then some false else .none
  | _ => .none

/-- R14. Enumeration: the current entry is the first declared entry with the current value. -/
def specCurrentEntryP (prev : ValSem F) (n : NodeId) (s : S F) : Option NodeId :=
  match cx.graph n with
  | some (.enumeration _ entries value) =>
    (sonInt cx prev value s).bind fun v => firstEntryWithValue cx entries v
  | _ => .none

def immFloat (prev : ValSem F) (v : ImmOrPNode F) (s : S F) : Option F :=
  match v with
  | .imm a => some a
  | .pnode p => numFloat cx prev p s

/-- R16. `min`: `<Min>` / `<pMin>` of an Integer; the type's range for an IntReg; the range
of the bit field for a MaskedIntReg; `i64::MIN` for an IntConverter; an IntSwissKnife's
minimum is its value. -/
def specIntMinP (prev : ValSem F) (n : NodeId) (s : S F) : Option Int :=
  match cx.graph n with
  | some (.integer _ _ mn _ _) => sonInt cx prev mn s
  | some (.intReg _ sign _) => some (match sign with | .signed => -(2 ^ 63) | .unsigned => 0)
  | some (.maskedIntReg rb mask sign endian) =>
    (immInt cx prev rb.length s).bind fun l =>
      resOpt (cx.ops.maskMin cx.profile mask (usizeOf l) endian sign)
  | some (.intConverter ..) => some (-(2 ^ 63))
  | some (.intSwissKnife _ fm formula) => (knifeResult cx prev fm formula s).map (EvalResult.asInteger cx)
  | _ => .none

def specIntMaxP (prev : ValSem F) (n : NodeId) (s : S F) : Option Int :=
  match cx.graph n with
  | some (.integer _ _ _ mx _) => sonInt cx prev mx s
  | some (.intReg ..) => some (2 ^ 63 - 1)
  | some (.maskedIntReg rb mask sign endian) =>
    (immInt cx prev rb.length s).bind fun l =>
      resOpt (cx.ops.maskMax cx.profile mask (usizeOf l) endian sign)
  | some (.intConverter ..) => some (2 ^ 63 - 1)
  | some (.intSwissKnife _ fm formula) => (knifeResult cx prev fm formula s).map (EvalResult.asInteger cx)
  | _ => .none

/-- R17. `inc`: `<Inc>` / `<pInc>` of an Integer; registers and formula nodes have none. -/
def specIntIncP (prev : ValSem F) (n : NodeId) (s : S F) : Option (Option Int) :=
  match cx.graph n with
  | some (.integer _ _ _ _ inc) => (immInt cx prev inc s).map some
  | some (.intReg ..) => some .none
  | some (.maskedIntReg ..) => some .none
  | some (.intConverter ..) => some .none
  | some (.intSwissKnife ..) => some .none
  | _ => .none

def specFloatMinP (prev : ValSem F) (n : NodeId) (s : S F) : Option F :=
  match cx.graph n with
  | some (.float _ _ mn _ _) => sonFloat cx prev mn s
  | some (.floatReg ..) => some cx.ops.fMin
  | some (.converter ..) => some cx.ops.fMin
  | some (.swissKnife _ fm formula) => (knifeResult cx prev fm formula s).map (EvalResult.asFloat cx)
  | _ => .none

def specFloatMaxP (prev : ValSem F) (n : NodeId) (s : S F) : Option F :=
  match cx.graph n with
  | some (.float _ _ _ mx _) => sonFloat cx prev mx s
  | some (.floatReg ..) => some cx.ops.fMax
  | some (.converter ..) => some cx.ops.fMax
  | some (.swissKnife _ fm formula) => (knifeResult cx prev fm formula s).map (EvalResult.asFloat cx)
  | _ => .none

def specFloatIncP (prev : ValSem F) (n : NodeId) (s : S F) : Option (Option F) :=
  match cx.graph n with
  | some (.float _ _ _ _ inc) =>
    match inc with
    | some i => (immFloat cx prev i s).map some
    | .none => some .none
  | some (.floatReg ..) => some .none
  | some (.converter ..) => some .none
  | some (.swissKnife ..) => some .none
  | _ => .none

/-- the reference value semantics one level up -/
def valStep (prev : ValSem F) : ValSem F where
  int n s :=
    match cx.graph n with
    | some (.integer _ vk _ _ _) => vkInt cx prev vk s                       -- R3
    | some (.intReg rb sign endian) =>                                          -- R7 IntReg
      (regBytes cx prev rb s).bind fun bs => resOpt (cx.ops.intFromSlice bs endian sign)
    | some (.maskedIntReg rb mask sign endian) =>                               -- R8 MaskedIntReg
      (regBytes cx prev rb s).bind fun bs =>
      (resOpt (cx.ops.intFromSlice bs endian sign)).bind fun x =>
      (immInt cx prev rb.length s).bind fun l =>
        resOpt (cx.ops.applyMask cx.profile mask x (usizeOf l) endian sign)
    | some (.intConverter _ fm _ formulaFrom pv) =>                             -- F6 IntConverter
      (converterResult cx prev fm formulaFrom pv s).map (EvalResult.asInteger cx)
    | some (.intSwissKnife _ fm formula) =>                                     -- F5 IntSwissKnife
      (knifeResult cx prev fm formula s).map (EvalResult.asInteger cx)
    | _ => .none
  float n s :=
    match cx.graph n with
    | some (.float _ vk _ _ _) => vkFloat cx prev vk s                        -- R3
    | some (.floatReg rb endian) =>                                             -- R9 FloatReg
      (regBytes cx prev rb s).bind fun bs => resOpt (cx.ops.floatFromSlice bs endian)
    | some (.converter _ fm _ formulaFrom pv) =>                                -- F6 Converter
      (converterResult cx prev fm formulaFrom pv s).map (EvalResult.asFloat cx)
    | some (.swissKnife _ fm formula) =>                                        -- F5 SwissKnife
      (knifeResult cx prev fm formula s).map (EvalResult.asFloat cx)
    | _ => .none
  str n s :=
    match cx.graph n with
    | some (.string _ (.imm id)) => slotStr s id                               -- R10 String
    | some (.string _ (.pnode p)) => if strValued cx p then prev.str p s else .none
    | some (.stringReg rb) =>                                                   -- R11 StringReg
      (regBytes cx prev rb s).map fun bs => cx.ops.strDecode (bs.takeWhile (· != 0))
    | _ => .none
  enum n s :=
    match cx.graph n with
    | some (.enumeration _ _ value) => sonInt cx prev value s                  -- R12 Enumeration
    | _ => .none
  bool := specBoolP cx prev
  entry := specCurrentEntryP cx prev
  intMin := specIntMinP cx prev
  intMax := specIntMaxP cx prev
  intInc := specIntIncP cx prev
  floatMin := specFloatMinP cx prev
  floatMax := specFloatMaxP cx prev
  floatInc := specFloatIncP cx prev

/-- the reference value semantics at reference depth `d` -/
def valSem : Nat → ValSem F
  | 0 => ValSem.none F
  | d + 1 => valStep cx (valSem d)

/-- R13 / R14 at reference depth `d` -/
def specBool (d : Nat) (n : NodeId) (s : S F) : Option Bool := specBoolP cx (valSem cx d) n s
def specCurrentEntry (d : Nat) (n : NodeId) (s : S F) : Option NodeId := specCurrentEntryP cx (valSem cx d) n s

/-- R15. Raw register: address, length, content. -/
def specRegAddress (d : Nat) (n : NodeId) (s : S F) : Option Int :=
  match cx.graph n with
  | some nd => match nd.regBase? with
    | some rb => addrSum cx (valSem cx d) (effectiveAddrs rb) 0 s
    | .none => .none
  | .none => .none
def specRegLength (d : Nat) (n : NodeId) (s : S F) : Option Int :=
  match cx.graph n with
  | some nd => match nd.regBase? with
    | some rb => immInt cx (valSem cx d) rb.length s
    | .none => .none
  | .none => .none
def specRegRead (d : Nat) (n : NodeId) (bufLen : Nat) (s : S F) : Option Bytes :=
  match cx.graph n with
  | some nd => match nd.regBase? with
    | some rb => (regBytes cx (valSem cx d) rb s).bind fun bs =>
        if bs.length = bufLen then some bs else .none
    | .none => .none
  | .none => .none

/-! ### writes (successful ones): the state after the write -/

/-- W1. Storing into a value-store slot. -/
def slotSet (s : S F) (id : SlotId) (v : ValueData F) : S F :=
  { s with vs := if id < s.vs.length then s.vs.set id v else s.vs }

/-- the write semantics of referenced nodes, one level down -/
structure SetSem (F : Type) where
  int : NodeId → Int → S F → Option (S F)
  float : NodeId → F → S F → Option (S F)
  str : NodeId → Bytes → S F → Option (S F)
  enum : NodeId → Int → S F → Option (S F)
  /-- boolean write (a converter's pValue may be a Boolean) -/
  bool : NodeId → Bool → S F → Option (S F)

def SetSem.none (F : Type) : SetSem F :=
  ⟨fun _ _ _ => .none, fun _ _ _ => .none, fun _ _ _ => .none, fun _ _ _ => .none, fun _ _ _ => .none⟩

/-- W2. Writing an integer to a referenced node: integer kind as is, float kind converted,
enumeration by value. -/
def numSetInt (prev : SetSem F) (p : NodeId) (v : Int) (s : S F) : Option (S F) :=
  if intValued cx p then prev.int p v s
  else if floatValued cx p then prev.float p (cx.ops.i2f v) s
  else if enumValued cx p then prev.enum p v s
  else .none

def numSetFloat (prev : SetSem F) (p : NodeId) (v : F) (s : S F) : Option (S F) :=
  if intValued cx p then prev.int p (cx.ops.f2i v) s
  else if floatValued cx p then prev.float p v s
  else if enumValued cx p then prev.enum p (cx.ops.f2i v) s
  else .none

def sonSetInt (prev : SetSem F) (t : ImmOrPNode SlotId) (v : Int) (s : S F) : Option (S F) :=
  match t with
  | .imm id => some (slotSet s id (.int v))
  | .pnode p => numSetInt cx prev p v s

def sonSetFloat (prev : SetSem F) (t : ImmOrPNode SlotId) (v : F) (s : S F) : Option (S F) :=
  match t with
  | .imm id => some (slotSet s id (.float v))
  | .pnode p => numSetFloat cx prev p v s

/-- W3. pValueCopy fan-out: each copy in order, on the state the previous write left. -/
def copiesSetInt (prev : SetSem F) (cs : List NodeId) (v : Int) (s : S F) : Option (S F) :=
  match cs with
  | [] => some s
  | c :: cs => (numSetInt cx prev c v s).bind fun s' => copiesSetInt prev cs v s'

def copiesSetFloat (prev : SetSem F) (cs : List NodeId) (v : F) (s : S F) : Option (S F) :=
  match cs with
  | [] => some s
  | c :: cs => (numSetFloat cx prev c v s).bind fun s' => copiesSetFloat prev cs v s'

/-- W4. `<Value>` / `<pValue>` (+ copies) / `<pIndex>` as write target. -/
def vkSetInt (pv : ValSem F) (prev : SetSem F) (vk : ValueKind) (v : Int) (s : S F) : Option (S F) :=
  match vk with
  | .value id => some (slotSet s id (.int v))
  | .pValue p cs => (numSetInt cx prev p v s).bind fun s' => copiesSetInt cx prev cs v s'
  | .pIndex sel entries dflt =>
    if intValued cx sel then (pv.int sel s).bind fun i => sonSetInt cx prev (selectIndexed entries dflt i) v s
    else .none

def vkSetFloat (pv : ValSem F) (prev : SetSem F) (vk : ValueKind) (v : F) (s : S F) : Option (S F) :=
  match vk with
  | .value id => some (slotSet s id (.float v))
  | .pValue p cs => (numSetFloat cx prev p v s).bind fun s' => copiesSetFloat cx prev cs v s'
  | .pIndex sel entries dflt =>
    if intValued cx sel then (pv.int sel s).bind fun i => sonSetFloat cx prev (selectIndexed entries dflt i) v s
    else .none

/-- W5. Writing `buf` to a register: the buffer has exactly the register's length, the
bytes go to the effective address through a plain port. -/
def regWriteBytes (pv : ValSem F) (rb : RegBase) (buf : Bytes) (s : S F) : Option (S F) :=
  (immInt cx pv rb.length s).bind fun l =>
    if 0 ≤ l ∧ buf.length = l.toNat then
      (addrSum cx pv (effectiveAddrs rb) 0 s).bind fun a =>
        match cx.graph rb.port with
        | some (.port _ false) => (imageWrite s.dev a buf).map fun d => { s with dev := d }
        | _ => .none
    else .none

/-- W12. Boolean write: On / Off value into the value target. -/
def specBoolSetP (prev : SetSem F) (n : NodeId) (b : Bool) (s : S F) : Option (S F) :=
  match cx.graph n with
  | some (.boolean _ value onV offV) => sonSetInt cx prev value (if b then onV else offV) s
  | _ => .none

/-- F7. Where the result of FormulaTo goes: an integer target receives its integer
conversion, a float target its float conversion, a boolean target `true` exactly when the
result is non-zero, an enumeration target the entry with that integer value. -/
def setResult (prev : SetSem F) (p : NodeId) (r : EvalResult F) (s : S F) : Option (S F) :=
  if intValued cx p then prev.int p (EvalResult.asInteger cx r) s
  else if floatValued cx p then prev.float p (EvalResult.asFloat cx r) s
  else if boolValued cx p then prev.bool p (EvalResult.asBool cx r) s
  else if enumValued cx p then prev.enum p (EvalResult.asInteger cx r) s
  else .none

/-- F8. A converter write: FormulaTo in the environment `FROM` (= the written value) <
variables < constants < expressions — the variables read BEFORE anything is written —, then
the result written to pValue. -/
def converterWrite (pv : ValSem F) (prev : SetSem F) (fm : Formulaic F E) (formulaTo : E) (p : NodeId)
    (from_ : E) (s : S F) : Option (S F) :=
  (specEnv cx pv fm [("FROM", from_)] s).bind fun env =>
  (resOpt (evalFormula cx env formulaTo)).bind fun r => setResult cx prev p r s

/-- the reference write semantics one level up -/
def setStep (pv : ValSem F) (prev : SetSem F) : SetSem F where
  int n v s :=
    match cx.graph n with
    | some (.integer _ vk _ _ _) => vkSetInt cx pv prev vk v s                          -- W4
    | some (.intReg rb sign endian) =>                                                   -- W6 IntReg
      (immInt cx pv rb.length s).bind fun l =>
        if 0 ≤ l then
          (resOpt (cx.ops.bytesFromInt v l.toNat endian sign)).bind fun buf => regWriteBytes cx pv rb buf s
        else .none
    | some (.maskedIntReg rb mask sign endian) =>                                        -- W7 MaskedIntReg
      (regBytes cx pv rb s).bind fun bs =>
      (resOpt (cx.ops.intFromSlice bs endian sign)).bind fun old =>
      (immInt cx pv rb.length s).bind fun l =>
      (resOpt (cx.ops.maskedValue cx.profile mask old v (usizeOf l) endian sign)).bind fun new =>
        if 0 ≤ l then
          (resOpt (cx.ops.bytesFromInt new l.toNat endian sign)).bind fun buf => regWriteBytes cx pv rb buf s
        else .none
    | some (.intConverter _ fm formulaTo _ p) =>                                         -- F8 IntConverter
      converterWrite cx pv prev fm formulaTo p (cx.ops.exprOfInt v) s
    | _ => .none
  float n v s :=
    match cx.graph n with
    | some (.float _ vk _ _ _) => vkSetFloat cx pv prev vk v s
    | some (.floatReg rb endian) =>                                                      -- W8 FloatReg
      (immInt cx pv rb.length s).bind fun l =>
        if 0 ≤ l then
          (resOpt (cx.ops.bytesFromFloat v l.toNat endian)).bind fun buf => regWriteBytes cx pv rb buf s
        else .none
    | some (.converter _ fm formulaTo _ p) =>                                            -- F8 Converter
      converterWrite cx pv prev fm formulaTo p (cx.ops.exprOfFloat v) s
    | _ => .none
  str n v s :=
    match cx.graph n with
    | some (.string _ (.imm id)) => some (slotSet s id (.str v))                        -- W9 String
    | some (.string _ (.pnode p)) => if strValued cx p then prev.str p v s else .none
    | some (.stringReg rb) =>                                                            -- W10 StringReg
      (immInt cx pv rb.length s).bind fun l =>
        if v.all (· < 128) ∧ ¬ v.any (· == 0) ∧ 0 ≤ l ∧ v.length ≤ l.toNat then
          regWriteBytes cx pv rb (v ++ List.replicate (l.toNat - v.length) 0) s
        else .none
    | _ => .none
  enum n v s :=
    match cx.graph n with
    | some (.enumeration _ entries value) =>                                             -- W11 Enumeration
      match firstEntryWithValue cx entries v with
      | some _ => sonSetInt cx prev value v s      -- only declared values
      | .none => .none
    | _ => .none
  bool := specBoolSetP cx prev

/-- the reference write semantics at reference depth `d` -/
def setSem : Nat → SetSem F
  | 0 => SetSem.none F
  | d + 1 => setStep cx (valSem cx d) (setSem d)

/-- W12. Boolean write, W13. command execute, W14. raw register write. -/
def specBoolSet (d : Nat) (n : NodeId) (b : Bool) (s : S F) : Option (S F) := specBoolSetP cx (setSem cx d) n b s
def specCmdExecute (d : Nat) (n : NodeId) (s : S F) : Option (S F) :=
  match cx.graph n with
  | some (.command _ value cmdValue) =>
    (sonInt cx (valSem cx d) cmdValue s).bind fun v => sonSetInt cx (setSem cx d) value v s
  | _ => .none
def specRegWrite (d : Nat) (n : NodeId) (data : Bytes) (s : S F) : Option (S F) :=
  match cx.graph n with
  | some nd => match nd.regBase? with
    | some rb => regWriteBytes cx (valSem cx d) rb data s
    | .none => .none
  | .none => .none

/-! ### minimum / maximum / increment, maximal string length, and their setters -/

/-- R16 / R17 at reference depth `d` -/
def specIntMin (d : Nat) (n : NodeId) (s : S F) : Option Int := specIntMinP cx (valSem cx d) n s
def specIntMax (d : Nat) (n : NodeId) (s : S F) : Option Int := specIntMaxP cx (valSem cx d) n s
def specIntInc (d : Nat) (n : NodeId) (s : S F) : Option (Option Int) := specIntIncP cx (valSem cx d) n s
def specFloatMin (d : Nat) (n : NodeId) (s : S F) : Option F := specFloatMinP cx (valSem cx d) n s
def specFloatMax (d : Nat) (n : NodeId) (s : S F) : Option F := specFloatMaxP cx (valSem cx d) n s
def specFloatInc (d : Nat) (n : NodeId) (s : S F) : Option (Option F) := specFloatIncP cx (valSem cx d) n s

/-- R18. `max_length`: unbounded (`i64::MAX`) for a String over a constant, that of the
pValue string node otherwise; the register length for a StringReg. -/
def specStrMaxLength : Nat → NodeId → S F → Option Int
  | 0, _, _ => .none
  | d + 1, n, s =>
    match cx.graph n with
    | some (.string _ (.imm _)) => some (2 ^ 63 - 1)
    | some (.string _ (.pnode p)) => if strValued cx p then specStrMaxLength d p s else .none
    | some (.stringReg rb) => immInt cx (valSem cx d) rb.length s
    | _ => .none

/-- W15. `set_min` / `set_max` store into `<Min>` / `<Max>` or write through `<pMin>` / `<pMax>`. -/
def specIntSetMin (d : Nat) (n : NodeId) (v : Int) (s : S F) : Option (S F) :=
  match cx.graph n with
  | some (.integer _ _ mn _ _) => sonSetInt cx (setSem cx d) mn v s
  | _ => .none
def specIntSetMax (d : Nat) (n : NodeId) (v : Int) (s : S F) : Option (S F) :=
  match cx.graph n with
  | some (.integer _ _ _ mx _) => sonSetInt cx (setSem cx d) mx v s
  | _ => .none
def specFloatSetMin (d : Nat) (n : NodeId) (v : F) (s : S F) : Option (S F) :=
  match cx.graph n with
  | some (.float _ _ mn _ _) => sonSetFloat cx (setSem cx d) mn v s
  | _ => .none
def specFloatSetMax (d : Nat) (n : NodeId) (v : F) (s : S F) : Option (S F) :=
  match cx.graph n with
  | some (.float _ _ _ mx _) => sonSetFloat cx (setSem cx d) mx v s
  | _ => .none

/-- W16. `set_entry_by_symbolic`: the value the named entry denotes, then W11. -/
def specEnumSetByName (d : Nat) (n : NodeId) (name : String) (s : S F) : Option (S F) :=
  match cx.graph n with
  | some (.enumeration _ entries _) =>
    (entryValueNamed cx entries name).bind fun v => (setSem cx (d + 1)).enum n v s
  | _ => .none

/-- graphs inside the scope of this reference semantics: no converter / swiss-knife nodes -/
def NoFormulaAt (n : NodeId) : Prop :=
  match cx.graph n with
    | some (.converter ..) | some (.intConverter ..) | some (.swissKnife ..)
    | some (.intSwissKnife ..) => False
    | _ => True

def NoFormulaNodes : Prop := ∀ n, NoFormulaAt cx n

end
end CamVerif.GenApiSem
