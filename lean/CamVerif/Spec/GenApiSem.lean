/-
Reference semantics for C18 (access predicates) and C03 (clause-per-rule value
semantics) over the node graphs of `CamVerif.GenApi`.  Written from the property
statements / the GenApi standard's rules, not from the Rust control flow.

C18.  `Readable cx d n s` / `Writable cx d n s` transcribe the statement:
  readable  ⇔ implemented ∧ available ∧ imposed access mode permits reading ∧
              register access mode permits reading ∧ every value source is readable
  writable  ⇔ implemented ∧ available ∧ ¬locked ∧ imposed mode permits writing ∧
              register access mode permits writing ∧ every value target (pValue and all
              pValueCopy) is writable (∧ for pIndex the selector is readable; for a
              converter the formula variables are readable)
  immediates (true constants) are readable and never writable; value-store slots are both.
"implemented / available / locked" refer to the *current value* of the controlling
node (boolean node: its value; integer node: value = 1); the current values of
controlling nodes and of pIndex selectors are taken from the value semantics
(`execRec`), at the reference depth `d` at which the node itself is evaluated.
`d` bounds the length of reference chains followed (a node at the end of a longer
chain counts as not accessible); on acyclic graphs any `d` above the rank is enough.
-/
import CamVerif.Model.GenApi
namespace CamVerif.GenApiSem
open CamVerif CamVerif.GenApi

section
variable {F E : Type} (cx : Ctx F E)

/-- Current truth value of a controlling node (`pIsImplemented`, `pIsAvailable`,
`pIsLocked`): `some b` if its value can be obtained. -/
def ctlValue (d : Nat) (c : NodeId) (s : S F) : Option Bool :=
  match (boolFromId cx (execRec cx d) c s).1 with
  | .ok b => some b
  | _ => none

/-- Current value of a pIndex selector. -/
def selValue (d : Nat) (sel : NodeId) (s : S F) : Option Int :=
  match (pIndexIndex cx (execRec cx d) sel s).1 with
  | .ok i => some i
  | _ => none

/-- the controlling node is absent, or currently evaluates to `want` -/
def ctlIs (d : Nat) (c : Option NodeId) (want : Bool) (s : S F) : Bool :=
  match c with
  | none => true
  | some c => ctlValue cx d c s == some want

/-- implemented ∧ available ∧ imposed mode permits reading -/
def baseReadable (d : Nat) (b : Base) (s : S F) : Bool :=
  ctlIs cx d b.pIsImplemented true s && ctlIs cx d b.pIsAvailable true s && b.imposed != .wo

/-- implemented ∧ available ∧ ¬locked ∧ imposed mode permits writing -/
def baseWritable (d : Nat) (b : Base) (s : S F) : Bool :=
  ctlIs cx d b.pIsImplemented true s && ctlIs cx d b.pIsAvailable true s &&
  ctlIs cx d b.pIsLocked false s && b.imposed != .ro

/-- a node usable as numeric value source / target (`pValue`, `pValueCopy`, indexed values):
integer, float or enumeration -/
def isNumericRef (n : NodeId) : Bool := isIntKind cx n || isFloatKind cx n || isEnumKind cx n

/-- a node usable as formula variable / converter `pValue`: integer, float, boolean, enumeration -/
def isFormulaRef (n : NodeId) : Bool :=
  isIntKind cx n || isFloatKind cx n || isBoolKind cx n || isEnumKind cx n

/-- one more level of references, given the predicate `prev` one level down -/
def slotOrNodeOk (prev : NodeId → S F → Bool) (v : ImmOrPNode SlotId) (s : S F) : Bool :=
  match v with
  | .imm _ => true                       -- value-store slot: readable and writable
  | .pnode p => isNumericRef cx p && prev p s

def strSlotOrNodeOk (prev : NodeId → S F → Bool) (v : ImmOrPNode SlotId) (s : S F) : Bool :=
  match v with
  | .imm _ => true
  | .pnode p => isStrKind cx p && prev p s

/-- every value source of a `ValueKind` is readable -/
def vkReadable (d : Nat) (prevR : NodeId → S F → Bool) (vk : ValueKind) (s : S F) : Bool :=
  match vk with
  | .value _ => true
  | .pValue p _ => isNumericRef cx p && prevR p s
  | .pIndex sel entries dflt =>
    isIntKind cx sel && prevR sel s &&
    match selValue cx d sel s with
    | some i => slotOrNodeOk cx prevR (pIndexSelect entries dflt i) s
    | none => false

/-- every value target of a `ValueKind` is writable (selector readable) -/
def vkWritable (d : Nat) (prevR prevW : NodeId → S F → Bool) (vk : ValueKind) (s : S F) : Bool :=
  match vk with
  | .value _ => true
  | .pValue p copies =>
    isNumericRef cx p && prevW p s && copies.all fun c => isNumericRef cx c && prevW c s
  | .pIndex sel entries dflt =>
    isIntKind cx sel && prevR sel s &&
    match selValue cx d sel s with
    | some i => slotOrNodeOk cx prevW (pIndexSelect entries dflt i) s
    | none => false

def varsReadable (prevR : NodeId → S F → Bool) (vars : List (String × NodeId)) (s : S F) : Bool :=
  vars.all fun v => isFormulaRef cx v.2 && prevR v.2 s

/-- `Readable` one level up -/
def readableStep (d : Nat) (prevR : NodeId → S F → Bool) (n : NodeId) (s : S F) : Bool :=
  match cx.graph n with
  | some (.integer b vk _ _ _) | some (.float b vk _ _ _) =>
    baseReadable cx d b s && vkReadable cx d prevR vk s
  | some (.intReg rb ..) | some (.maskedIntReg rb ..) | some (.floatReg rb _)
  | some (.stringReg rb) =>
    baseReadable cx d rb.base s && rb.accessMode != .wo
  | some (.boolean b v _ _) | some (.enumeration b _ v) =>
    baseReadable cx d b s && slotOrNodeOk cx prevR v s
  | some (.string b v) => baseReadable cx d b s && strSlotOrNodeOk cx prevR v s
  | some (.converter b fm _ _ pv) | some (.intConverter b fm _ _ pv) =>
    baseReadable cx d b s && (isFormulaRef cx pv && prevR pv s) && varsReadable cx prevR fm.vars s
  | some (.swissKnife b fm _) | some (.intSwissKnife b fm _) =>
    baseReadable cx d b s && varsReadable cx prevR fm.vars s
  | _ => false

/-- `Writable` one level up -/
def writableStep (d : Nat) (prevR prevW : NodeId → S F → Bool) (n : NodeId) (s : S F) : Bool :=
  match cx.graph n with
  | some (.integer b vk _ _ _) | some (.float b vk _ _ _) =>
    baseWritable cx d b s && vkWritable cx d prevR prevW vk s
  | some (.intReg rb ..) | some (.maskedIntReg rb ..) | some (.floatReg rb _)
  | some (.stringReg rb) =>
    baseWritable cx d rb.base s && rb.accessMode != .ro
  | some (.boolean b v _ _) | some (.enumeration b _ v) | some (.command b v _) =>
    baseWritable cx d b s && slotOrNodeOk cx prevW v s
  | some (.string b v) => baseWritable cx d b s && strSlotOrNodeOk cx prevW v s
  | some (.converter b fm _ _ pv) | some (.intConverter b fm _ _ pv) =>
    baseWritable cx d b s && (isFormulaRef cx pv && prevW pv s) && varsReadable cx prevR fm.vars s
  | _ => false   -- swiss knives, constants-only nodes, ports, categories …

/-- **Readable** at reference depth `d` (Bool form, executable) -/
def readableB : Nat → NodeId → S F → Bool
  | 0 => fun _ _ => false
  | d + 1 => readableStep cx d (readableB d)

/-- **Writable** at reference depth `d` (Bool form, executable) -/
def writableB : Nat → NodeId → S F → Bool
  | 0 => fun _ _ => false
  | d + 1 => writableStep cx d (readableB cx d) (writableB d)

def Readable (d : Nat) (n : NodeId) (s : S F) : Prop := readableB cx d n s = true
def Writable (d : Nat) (n : NodeId) (s : S F) : Prop := writableB cx d n s = true

instance (d : Nat) (n : NodeId) (s : S F) : Decidable (Readable cx d n s) := by
  unfold Readable; infer_instance
instance (d : Nat) (n : NodeId) (s : S F) : Decidable (Writable cx d n s) := by
  unfold Writable; infer_instance

/-- what the driver prints next to `is_readable` / `is_writable` answers -/
def readableSpec (fuel : Nat) (n : NodeId) (s : S F) : Option Bool := some (readableB cx (fuel + 1) n s)
def writableSpec (fuel : Nat) (n : NodeId) (s : S F) : Option Bool := some (writableB cx (fuel + 1) n s)

end
end CamVerif.GenApiSem
