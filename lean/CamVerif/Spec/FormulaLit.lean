/-
C05, character level, second part: spellings of literals that `Spec.printChars` does not
cover — hexadecimal integer literals (`0x`/`0X`, any number of leading zeros, every digit in
either case).  A literal piece is either a canonical token of `Spec.printChars` (operator with
escape choice, identifier, decimal integer) or a hexadecimal literal.
-/
import CamVerif.Spec.Formula
namespace CamVerif.Formula.Spec
open CamVerif.Formula

/-- hexadecimal digit `d < 16`, upper case when `up` -/
def hexDigitChar (up : Bool) (d : Nat) : Char :=
  if d < 10 then Char.ofNat (48 + d) else if up then Char.ofNat (55 + d) else Char.ofNat (87 + d)

/-- hexadecimal digits, least significant first (`fuel` > number of digits); the case of each
digit is chosen by `up` (indexed by the remaining fuel, i.e. per position) -/
def hexRev (up : Nat → Bool) : Nat → Nat → List Char
  | 0, _ => []
  | fuel + 1, n =>
    if n < 16 then [hexDigitChar (up fuel) n]
    else hexDigitChar (up fuel) (n % 16) :: hexRev up fuel (n / 16)

/-- the significant hexadecimal digits of `n` (one digit `0` for zero) -/
def hexDigits (up : Nat → Bool) (n : Nat) : List Char := (hexRev up (n + 1) n).reverse

/-- a spelling of the hexadecimal literal with value `n`: prefix `0x` or `0X`, `zeros` leading
zeros, the significant digits with the per-digit case choice `up` -/
def hexChars (bigX : Bool) (zeros : Nat) (up : Nat → Bool) (n : Nat) : List Char :=
  '0' :: (if bigX then 'X' else 'x') :: (List.replicate zeros '0' ++ hexDigits up n)

/-- exponent part of a float literal: `e` or `E`, an optional sign (`some true` is `-`,
`some false` is `+`), digits -/
structure ExpPart where
  bigE : Bool
  sign : Option Bool
  digits : List Char

def ExpPart.signChars (x : ExpPart) : List Char :=
  match x.sign with
  | none => []
  | some true => ['-']
  | some false => ['+']

def ExpPart.chars (x : ExpPart) : List Char :=
  (if x.bigE then 'E' else 'e') :: (x.signChars ++ x.digits)

/-- the decimal exponent the part denotes -/
def ExpPart.value (x : ExpPart) : Int :=
  match x.sign with
  | some true => -(digitsToNat x.digits : Int)
  | _ => (digitsToNat x.digits : Int)

/-- the text of a float literal: integer digits, an optional `.` with fraction digits, an
optional exponent -/
structure FloatText where
  ip : List Char
  dot : Bool
  fp : List Char
  exp : Option ExpPart

namespace FloatText
def chars (t : FloatText) : List Char :=
  t.ip ++ ((if t.dot then '.' :: t.fp else []) ++ (match t.exp with | none => [] | some x => x.chars))

/-- well-formed float literal: digits only; at least one digit in the mantissa; a `.` or an
exponent (otherwise the text is an integer literal); exponent digits not empty -/
def Ok (t : FloatText) : Prop :=
  t.ip.all isDigit = true ∧ t.fp.all isDigit = true ∧ (t.dot = false → t.fp = []) ∧
  (t.ip ≠ [] ∨ t.fp ≠ []) ∧ (t.dot = true ∨ t.exp.isSome = true) ∧
  (∀ x, t.exp = some x → x.digits ≠ [] ∧ x.digits.all isDigit = true)

def expValue (t : FloatText) : Int :=
  match t.exp with
  | none => 0
  | some x => x.value

/-- the token: `f64::from_str` applied to the number (all mantissa digits)·10^(exponent − number
of fraction digits), through the abstract `FloatOps.ofDec` -/
def tok {F : Type} [FloatOps F] (t : FloatText) : Tok F :=
  .float (FloatOps.ofDec (digitsToNat (t.ip ++ t.fp)) (t.expValue - (t.fp.length : Int)))

/-- characters that would extend the literal: without an exponent digits, `.`, `e`, `E`; with an
exponent digits -/
def ext (t : FloatText) (c : Char) : Bool :=
  match t.exp with
  | none => isNumCont c || c = 'e' || c = 'E'
  | some _ => isDigit c

def head (t : FloatText) : Char := t.ip.headD '.'
end FloatText

/-- one literal: a canonical token (`Spec.tokChars`), a hexadecimal literal for the 64 bit
pattern `v`, or a float literal text -/
inductive Lit (F : Type) where
  | canon (tok : Tok F) (esc : Nat → Bool)
  | hex (bigX : Bool) (zeros : Nat) (up : Nat → Bool) (v : BitVec 64)
  | float (t : FloatText)

namespace Lit
variable {F : Type}
/-- the token the literal denotes: a hexadecimal literal is the integer token with that bit
pattern (bit 63 set: a negative `i64`) -/
def tok [FloatOps F] : Lit F → Tok F
  | .canon t _ => t
  | .hex _ _ _ v => .int v
  | .float t => t.tok
def chars : Lit F → List Char
  | .canon t f => tokChars t f
  | .hex X z up v => hexChars X z up v.toNat
  | .float t => t.chars
def Ok : Lit F → Prop
  | .canon t _ => Spellable t
  | .hex _ _ _ _ => True
  | .float t => t.Ok
end Lit

structure LitPiece (F : Type) where
  lit : Lit F
  gap : List Char

def printLits {F : Type} (lead : List Char) (ps : List (LitPiece F)) : List Char :=
  lead ++ ps.flatMap (fun p => p.lit.chars ++ p.gap)

/-! ## Tokens written with no white space between them

The lexer is a maximal-munch scanner: a token may be followed directly by the next one
whenever the first (decoded) character of the next token cannot extend it.  `extends` lists,
per token, the characters that would extend it (as coded in `Lexer::peek`): -/

/-- the decoded characters that extend an operator token into a longer one -/
def symExt : Sym → Char → Bool
  | .star, c => c = '*'
  | .and, c => c = '&'
  | .or, c => c = '|'
  | .lt, c => c = '>' || c = '=' || c = '<'
  | .gt, c => c = '=' || c = '>'
  | _, _ => false

/-- the decoded characters after which a decimal integer literal would go on: digits, `.`
(a float), `e`/`E` (an exponent); `x`/`X` (would make `0x…` out of a literal `0`; excluded for
every decimal literal, which is more than needed) -/
def intExt (c : Char) : Bool := isNumCont c || c = 'e' || c = 'E' || c = 'x' || c = 'X'

namespace Lit
variable {F : Type}
/-- `ext l c`: the decoded character `c` directly after the literal `l` would extend it -/
def ext : Lit F → Char → Bool
  | .canon (.sym s) _, c => symExt s c
  | .canon (.ident _) _, c => isIdentCont c
  | .canon (.int _) _, c => intExt c
  | .canon _ _, _ => true
  | .hex _ _ _ _, c => isHexDigit c
  | .float t, c => t.ext c
/-- the first decoded character of the literal's text -/
def head : Lit F → Char
  | .canon (.sym s) _ => (symChars s).headD ' '
  | .canon (.ident s) _ => s.toList.headD ' '
  | .canon (.int i) _ => (decDigits i.toNat).headD ' '
  | .canon _ _ => ' '
  | .hex _ _ _ _ => '0'
  | .float t => t.head
/-- the text ends with an unescaped `&` (possible in CDATA only): a directly following `a`,
`l` or `g` could then be read as the beginning of an XML escape -/
def endsRawAmp : Lit F → Bool
  | .canon (.sym .and) f => !f 0
  | .canon (.sym .doubleAnd) f => !f 1
  | _ => false
/-- the text starts with one of the letters `a`, `l`, `g` -/
def startsALG : Lit F → Bool
  | .canon (.ident s) _ => s.toList.headD ' ' = 'a' || s.toList.headD ' ' = 'l' || s.toList.headD ' ' = 'g'
  | _ => false
end Lit

/-- **separable prev next**: `next` may be written directly after `prev` (no white space). -/
def separable {F : Type} (prev next : Lit F) : Bool :=
  !(prev.ext next.head) && !(prev.endsRawAmp && next.startsALG)

/-- every piece with an empty gap is separable from the piece that follows it -/
def chainOk {F : Type} : List (LitPiece F) → Bool
  | [] => true
  | [_] => true
  | p :: q :: ps => (!p.gap.isEmpty || separable p.lit q.lit) && chainOk (q :: ps)

end CamVerif.Formula.Spec
