/-
Specification of a GenCP / USB3 Vision *conforming device* as seen through the control
endpoints (C06, and the "well-behaved device" of C07 / C14 / C15).

Written from the standard's description of the control protocol, with the independent
command decoder `Spec.GenCP.decodeCmd` and an acknowledge encoder written here from the
acknowledge layout — nothing is shared with the host-side models except `Bytes`,
`toLE` and the transport interface `Control.Dev`.

  acknowledge layout
  offset  size  field
  0       4     prefix magic 0x43563355, little endian
  4       2     status code   (0x0000 = GenCP SUCCESS)
  6       2     command id    (0x0801 ReadMemAck, 0x0803 WriteMemAck, 0x0805 PendingAck)
  8       2     scd length
  10      2     request id    (that of the command being answered)
  12      ...   SCD
     ReadMemAck  : the bytes read
     WriteMemAck : reserved u16 = 0 | length written u16
     PendingAck  : reserved u16 = 0 | timeout in ms u16

A device conforms (`Conforming dev view lim plan ms`) when, for every command it can decode
that respects its limits, it executes the command on its memory and queues
`plan txn` pending acknowledges followed by the acknowledge proper BEHIND whatever it had
queued before (the bulk-in pipe is a FIFO: acknowledges the host did not fetch stay
queued), and hands queued packets out one per bulk-in transfer.  What it does with other commands is unconstrained
(the theorems show the host never sends them).
-/
import CamVerif.Model.Control
import CamVerif.Spec.GenCP
namespace CamVerif.Spec.Conf
open CamVerif CamVerif.Control
open CamVerif.Spec.GenCP (decodeCmd CmdFields CmdBody)

/-! ## Device memory -/

/-- A byte-addressed memory.  `Nat → UInt8` for reasoning, a hash map in the driver. -/
class MemLike (M : Type) where
  get : M → Nat → UInt8
  set : M → Nat → UInt8 → M
  get_set : ∀ m a v x, get (set m a v) x = if x = a then v else get m x

instance : MemLike (Nat → UInt8) where
  get m a := m a
  set m a v := fun x => if x = a then v else m x
  get_set _ _ _ _ := rfl

variable {M : Type} [MemLike M]

/-- `n` bytes starting at `a`. -/
def readRange (m : M) (a : Nat) : Nat → Bytes
  | 0 => []
  | n + 1 => MemLike.get m a :: readRange m (a + 1) n

/-- store `d` at `a`, `a+1`, … -/
def writeRange (m : M) (a : Nat) : Bytes → M
  | [] => m
  | b :: bs => writeRange (MemLike.set m a b) (a + 1) bs

/-! ## Acknowledge encoder (from the layout above) -/

def ACK_MAGIC : Nat := 0x43563355
def STATUS_SUCCESS : Nat := 0x0000
def ACK_READ_MEM : Nat := 0x0801
def ACK_WRITE_MEM : Nat := 0x0803
def ACK_PENDING : Nat := 0x0805

def encodeAck (status kind requestId : Nat) (scd : Bytes) : Bytes :=
  toLE 4 ACK_MAGIC ++ toLE 2 status ++ toLE 2 kind ++ toLE 2 scd.length ++ toLE 2 requestId ++ scd

def readAck (requestId : Nat) (data : Bytes) : Bytes :=
  encodeAck STATUS_SUCCESS ACK_READ_MEM requestId data

def writeAck (requestId written : Nat) : Bytes :=
  encodeAck STATUS_SUCCESS ACK_WRITE_MEM requestId (toLE 2 0 ++ toLE 2 written)

def pendingAck (requestId ms : Nat) : Bytes :=
  encodeAck STATUS_SUCCESS ACK_PENDING requestId (toLE 2 0 ++ toLE 2 ms)

/-! ## Conformance -/

/-- Negotiated limits (the values the device advertises in its SBRM). -/
structure Limits where
  maxCmd : Nat
  maxAck : Nat
  deriving Repr, DecidableEq

/-- What the specification says about a device state. -/
structure View (M : Type) where
  mem : M
  /-- packets the device will hand out, next first -/
  queue : List Bytes
  /-- number of commands accepted so far -/
  txn : Nat

/-- Answer to a command: `k` pending acknowledges, then the final one. -/
def answer (k requestId ms : Nat) (final : Bytes) : List Bytes :=
  List.replicate k (pendingAck requestId ms) ++ [final]

/-- `dev` behaves like a conforming device with memory/queue abstraction `view`, limits `lim`,
pending plan `plan` (number of pending acks sent before the answer to the `txn`-th command)
and announced pending timeout `ms`. -/
structure Conforming {σ : Type} (dev : Dev σ) (view : σ → View M) (lim : Limits)
    (plan : Nat → Nat) (ms : Nat) : Prop where
  /-- ReadMem within the limits and the address space: memory unchanged, answer queued. -/
  send_read : ∀ (st : σ) (bytes : Bytes) (id scdLen a n : Nat),
    decodeCmd bytes = some ⟨id, scdLen, .readMem a n⟩ →
    bytes.length ≤ lim.maxCmd → 12 + n ≤ lim.maxAck → a + n ≤ 2 ^ 64 →
    (dev.send st bytes).2 = none ∧
    (view (dev.send st bytes).1).mem = (view st).mem ∧
    (view (dev.send st bytes).1).queue = (view st).queue ++
      answer (plan (view st).txn) id ms (readAck id (readRange (view st).mem a n)) ∧
    (view (dev.send st bytes).1).txn = (view st).txn + 1
  /-- WriteMem within the limits and the address space: data stored, answer queued. -/
  send_write : ∀ (st : σ) (bytes : Bytes) (id scdLen a : Nat) (d : Bytes),
    decodeCmd bytes = some ⟨id, scdLen, .writeMem a d⟩ →
    bytes.length ≤ lim.maxCmd → 16 ≤ lim.maxAck → a + d.length ≤ 2 ^ 64 →
    (dev.send st bytes).2 = none ∧
    (view (dev.send st bytes).1).mem = writeRange (view st).mem a d ∧
    (view (dev.send st bytes).1).queue = (view st).queue ++
      answer (plan (view st).txn) id ms (writeAck id d.length) ∧
    (view (dev.send st bytes).1).txn = (view st).txn + 1
  /-- A bulk-in transfer with a large enough buffer delivers the next queued packet. -/
  recv_next : ∀ (st : σ) (bufLen : Nat) (pkt : Bytes) (q : List Bytes),
    (view st).queue = pkt :: q → pkt.length ≤ bufLen →
    (dev.recv st bufLen).2 = .ok pkt ∧
    (view (dev.recv st bufLen).1).mem = (view st).mem ∧
    (view (dev.recv st bufLen).1).queue = q ∧
    (view (dev.recv st bufLen).1).txn = (view st).txn

/-! ## The reference device (a concrete, executable conforming device) -/

structure RefState (M : Type) where
  mem : M
  queue : List Bytes
  txn : Nat

def STATUS_NOT_IMPLEMENTED : Nat := 0x8001
def STATUS_INVALID_PARAMETER : Nat := 0x8002
def STATUS_INVALID_ADDRESS : Nat := 0x8003

/-- command id of a packet (bytes 6..8), used for error acknowledges (`id | 1`). -/
def cmdKindOf (bytes : Bytes) : Nat := Spec.GenCP.uintAt bytes 6 2

/-- The reference device: executes ReadMem / WriteMem, refuses (error status, nothing
executed) what exceeds its limits or the address space, does not answer garbage. -/
def refDev (lim : Limits) (plan : Nat → Nat) (ms : Nat) : Dev (RefState M) where
  send st bytes :=
    match decodeCmd bytes with
    | none => ({ st with txn := st.txn + 1 }, none)
    | some f =>
      let k := plan st.txn
      let errAck (status : Nat) : Bytes := encodeAck status (cmdKindOf bytes ||| 1) f.requestId []
      if lim.maxCmd < bytes.length then
        ({ st with queue := st.queue ++ answer k f.requestId ms (errAck STATUS_INVALID_PARAMETER),
                   txn := st.txn + 1 }, none)
      else
      match f.body with
      | .readMem a n =>
        if lim.maxAck < 12 + n then
          ({ st with queue := st.queue ++ answer k f.requestId ms (errAck STATUS_INVALID_PARAMETER),
                     txn := st.txn + 1 }, none)
        else if 2 ^ 64 < a + n then
          ({ st with queue := st.queue ++ answer k f.requestId ms (errAck STATUS_INVALID_ADDRESS),
                     txn := st.txn + 1 }, none)
        else
          ({ st with queue := st.queue ++ answer k f.requestId ms (readAck f.requestId (readRange st.mem a n)),
                     txn := st.txn + 1 }, none)
      | .writeMem a d =>
        if 2 ^ 64 < a + d.length then
          ({ st with queue := st.queue ++ answer k f.requestId ms (errAck STATUS_INVALID_ADDRESS),
                     txn := st.txn + 1 }, none)
        else
          ({ mem := writeRange st.mem a d,
             queue := st.queue ++ answer k f.requestId ms (writeAck f.requestId d.length),
             txn := st.txn + 1 }, none)
      | _ =>
        ({ st with queue := st.queue ++ answer k f.requestId ms (errAck STATUS_NOT_IMPLEMENTED),
                   txn := st.txn + 1 }, none)
  recv st bufLen :=
    match st.queue with
    | [] => (st, .error .timeout)
    | pkt :: q =>
      if bufLen < pkt.length then ({ st with queue := q }, .error .overflow)
      else ({ st with queue := q }, .ok pkt)
  ctl st r :=
    match r with
    | .clearHaltIn => ({ st with queue := [] }, none)
    | .clearHaltOut => ({ st with queue := [] }, none)
    | _ => (st, none)

def refView (st : RefState M) : View M := ⟨st.mem, st.queue, st.txn⟩

/-- The reference device conforms (so `Conforming` is satisfiable for every limit, plan and
memory type). -/
theorem refDev_conforming (lim : Limits) (plan : Nat → Nat) (ms : Nat) :
    Conforming (refDev (M := M) lim plan ms) refView lim plan ms where
  send_read st bytes id scdLen a n hd hc ha hs := by
    simp only [refDev, hd, refView]
    rw [if_neg (by omega), if_neg (by omega), if_neg (by omega)]
    exact ⟨rfl, rfl, rfl, rfl⟩
  send_write st bytes id scdLen a d hd hc _ hs := by
    simp only [refDev, hd, refView]
    rw [if_neg (by omega), if_neg (by omega)]
    exact ⟨rfl, rfl, rfl, rfl⟩
  recv_next st bufLen pkt q hq hl := by
    simp only [refView] at hq
    simp only [refDev, hq, refView]
    rw [if_neg (by omega)]
    exact ⟨rfl, rfl, rfl, rfl⟩

/-- A concrete instance: 64/64-byte limits, one pending acknowledge before every third
answer, memory `a ↦ a mod 256`. -/
example : Conforming (refDev (M := Nat → UInt8) ⟨64, 64⟩ (fun i => if i % 3 = 0 then 1 else 0) 1)
    refView ⟨64, 64⟩ (fun i => if i % 3 = 0 then 1 else 0) 1 :=
  refDev_conforming _ _ _

end CamVerif.Spec.Conf
