/-
Independent reference for the register codecs (C01) and bit fields (C02), written
from the standard layouts on mathematical integers — not from the Rust code and not
with the Prelude's `toLE/fromLE`:

* two's-complement image of `v mod 2^(8n)` in a byte order,
* unsigned / signed reading of a byte string (Horner from the most significant byte),
* NUL-padded ASCII image of a string, C-string reading,
* bit field = bits `l..m` of a word, unsigned or two's-complement reading.

Only the enums `Endianness`/`Sign` are shared with the model.
-/
import CamVerif.Model.Reg
namespace CamVerif.Spec.Codec
open CamVerif CamVerif.Reg

/-! ## Integers -/

/-- Byte `i` (0 = least significant) of the two's-complement representation of `v`
(`/` and `%` on `Int` are floor division / non-negative remainder for positive divisors). -/
def byteOf (v : Int) (i : Nat) : UInt8 := UInt8.ofNat ((v / 256 ^ i) % 256).toNat

/-- The `n`-byte two's-complement image of `v mod 2^(8n)` in byte order `e`. -/
def image (n : Nat) (e : Endianness) (v : Int) : Bytes :=
  match e with
  | .le => (List.range n).map (byteOf v)
  | .be => ((List.range n).map (byteOf v)).reverse

/-- Value of a big-endian digit string in base 256. -/
def horner (bs : Bytes) : Nat := bs.foldl (fun acc b => acc * 256 + b.toNat) 0

/-- Unsigned reading of a byte string in byte order `e`. -/
def readU (e : Endianness) (bs : Bytes) : Nat :=
  match e with
  | .be => horner bs
  | .le => horner bs.reverse

/-- Two's-complement reading. -/
def readS (e : Endianness) (bs : Bytes) : Int :=
  if 2 * readU e bs < 2 ^ (8 * bs.length) then (readU e bs : Int)
  else (readU e bs : Int) - 2 ^ (8 * bs.length)

/-- What an `i64` API reports for an unsigned 64-bit quantity: the same 64 bits. -/
def asI64 (u : Nat) : Int := if 2 * u < 2 ^ 64 then (u : Int) else (u : Int) - 2 ^ 64

/-- The value a register image denotes. -/
def reading (e : Endianness) (s : Sign) (bs : Bytes) : Int :=
  match s with
  | .signed => readS e bs
  | .unsigned => asI64 (readU e bs)

/-- Natural range of an `n`-byte integer register. -/
def InRange (n : Nat) (s : Sign) (v : Int) : Prop :=
  match s with
  | .signed => -(2 ^ (8 * n - 1) : Int) ≤ v ∧ v < 2 ^ (8 * n - 1)
  | .unsigned => 0 ≤ v ∧ v < 2 ^ (8 * n)

instance (n : Nat) (s : Sign) (v : Int) : Decidable (InRange n s v) := by
  unfold InRange; cases s <;> exact inferInstance

/-- Supported integer register lengths. -/
def IntLen (n : Nat) : Prop := n = 1 ∨ n = 2 ∨ n = 4 ∨ n = 8

/-- Supported float register lengths. -/
def FloatLen (n : Nat) : Prop := n = 4 ∨ n = 8

instance (n : Nat) : Decidable (IntLen n) := by unfold IntLen; infer_instance
instance (n : Nat) : Decidable (FloatLen n) := by unfold FloatLen; infer_instance

/-! ## Strings -/

/-- A string an `n`-byte NUL-terminated ASCII register can hold. -/
def Representable (n : Nat) (s : Bytes) : Prop :=
  (∀ b ∈ s, b < 128 ∧ b ≠ 0) ∧ s.length ≤ n

/-- NUL-padded image on `n` bytes. -/
def strImage (n : Nat) (s : Bytes) : Bytes := s ++ List.replicate (n - s.length) 0

/-- `p` is the C string held by `bs`: the NUL-free prefix ended by the first NUL or the end. -/
def IsCStrOf (p bs : Bytes) : Prop :=
  (∀ b ∈ p, b ≠ 0) ∧ ∃ rest, bs = p ++ rest ∧ (rest = [] ∨ rest.head? = some 0)

/-! ## Bit fields (`l` = least, `m` = most significant bit position, `l ≤ m`) -/

/-- Width of the field. -/
def fieldWidth (l m : Nat) : Nat := m - l + 1

/-- Bits `l..m` of the word `w`, as a natural number. -/
def fieldU (l m : Nat) (w : Nat) : Nat := (w / 2 ^ l) % 2 ^ fieldWidth l m

/-- Two's-complement reading of the field. -/
def fieldS (l m : Nat) (w : Nat) : Int :=
  if 2 * fieldU l m w < 2 ^ fieldWidth l m then (fieldU l m w : Int)
  else (fieldU l m w : Int) - 2 ^ fieldWidth l m

/-- What the `i64` API reports for the field of a register word: two's complement when
signed; the unsigned field otherwise (through `asI64`: only a 64-bit wide unsigned field
with its top bit set is affected). -/
def fieldReading (s : Sign) (l m : Nat) (w : Nat) : Int :=
  match s with
  | .signed => fieldS l m w
  | .unsigned => asI64 (fieldU l m w)

/-- Representable range of a `wd`-bit field. -/
def fieldMin (s : Sign) (wd : Nat) : Int :=
  match s with
  | .signed => -(2 ^ (wd - 1) : Int)
  | .unsigned => 0

def fieldMax (s : Sign) (wd : Nat) : Int :=
  match s with
  | .signed => 2 ^ (wd - 1) - 1
  | .unsigned => 2 ^ wd - 1

end CamVerif.Spec.Codec
