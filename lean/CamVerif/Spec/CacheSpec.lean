/-
C04 — specification vocabulary for the cache-transparency theorems (no executable content).

* `Coherent c d`     every cache entry holds exactly the bytes a device read of its key
                     range would return now.
* `Declared p g`     the description declares its dependencies (decidable, `declaredB`).
* `PortDeclared g n` raw `IPort::write` on port `n` is declared by every cachable register.
* `LogSub lc lu`     `lc` is `lu` minus some successful reads.
* `Rel`              the simulation relation between a cached and an uncached run.
-/
import CamVerif.Model.Cache
namespace CamVerif.C04
open CamVerif CamVerif.Cache

/-- Every cache entry `(n,a,l) ↦ bs` equals what the device would return for `[a, a+l)` now
(in particular that read would succeed): `bs = mem[a, a+l)`. -/
def Coherent (c : Store) (d : Dev) : Prop :=
  ∀ n a l bs, c.get n a l = some bs → d.peek a l = some bs

/-- `k` is a value the selector node `s` can have (as far as `selRange` bounds it). -/
def InSelRange (g : Graph) (s : NodeId) (k : Int) : Prop :=
  match selRange g s with
  | some (lo, hi) => lo ≤ k ∧ k ≤ hi
  | none => True

/-- Addresses register `r` can evaluate to: its constant address, or (selector-addressed,
no wrap-around, i.e. `dev` profile) constant plus stride times a possible selector value. -/
def KeyAddr (p : Profile) (g : Graph) (r : Reg) (a : Int) : Prop :=
  match r.sel with
  | none => a = r.base
  | some (s, off) => p.overflowChecks = true → ∃ k : Int, a = r.base + k * off ∧ InSelRange g s k

/-- Cache keys belong to cachable registers of the description (whose `pPort` is a port), have
the register's length and an address the register can evaluate to. -/
def KeysOk (p : Profile) (g : Graph) (c : Store) : Prop :=
  ∀ n a l bs, c.get n a l = some bs →
    ∃ r, g[n]? = some (.reg r) ∧ r.mode ≠ .noCache ∧ l = r.len ∧ g[r.port]? = some .port ∧ KeyAddr p g r a

/-- The invalidator table contains every `pInvalidator` registration of the description. -/
def TableOk (g : Graph) (c : Store) : Prop :=
  ∀ t r m, g[t]? = some (.reg r) → m ∈ r.invs → t ∈ c.targets m

/-- Invariant of the cached run. -/
structure Inv (p : Profile) (g : Graph) (c : Store) (d : Dev) : Prop where
  coherent : Coherent c d
  keys : KeysOk p g c
  table : TableOk g c

/-- "The description declares its dependencies": for every register `w` and every cachable
register `t` such that a write through `w` may change bytes under a cache key of `t` other
than the key the write itself refreshes, `t` lists `w` (or `w`'s port) as `pInvalidator`. -/
def Declared (p : Profile) (g : Graph) : Prop := declaredB p g = true

instance (p : Profile) (g : Graph) : Decidable (Declared p g) := by unfold Declared; infer_instance

def PortDeclared (g : Graph) (n : NodeId) : Prop := portDeclaredB g n = true

instance (g : Graph) (n : NodeId) : Decidable (PortDeclared g n) := by unfold PortDeclared; infer_instance

/-- raw port writes occur only on ports every cachable register declares -/
def HistOk (g : Graph) (h : List Op) : Prop :=
  ∀ n a d, Op.portWrite n a d ∈ h → PortDeclared g n

/-- `lc` (cached log) is `lu` (uncached log) minus some successful reads. -/
inductive LogSub : List Access → List Access → Prop where
  | nil : LogSub [] []
  | keep (a : Access) {lc lu : List Access} : LogSub lc lu → LogSub (a :: lc) (a :: lu)
  | dropR (a : Access) {lc lu : List Access} : a.write = false → a.ok = true →
      LogSub lc lu → LogSub lc (a :: lu)

/-- The two devices agree on everything but the log, where the cached one made fewer reads. -/
structure DevRel (dc du : Dev) : Prop where
  mem : dc.mem = du.mem
  noAccess : dc.noAccess = du.noAccess
  noWrite : dc.noWrite = du.noWrite
  rejW : dc.rejW = du.rejW
  rejP : dc.rejP = du.rejP
  wcount : dc.wcount = du.wcount
  log : LogSub dc.log du.log

/-- Simulation relation: devices related, cached side satisfies the invariant. -/
def Rel (p : Profile) (g : Graph) (sC : St Store) (sU : St Unit) : Prop :=
  DevRel sC.dev sU.dev ∧ Inv p g sC.cache sC.dev

end CamVerif.C04

namespace CamVerif.C04
open CamVerif CamVerif.Cache

/-- No cache entry belongs to a `NoCache` register.  Holds for the freshly built store and is
preserved by every operation on every description (no `Declared` needed). -/
def NoCacheAbsent (g : Graph) (c : Store) : Prop :=
  ∀ n r, g[n]? = some (.reg r) → r.mode = .noCache → ∀ a l, c.get n a l = none

end CamVerif.C04

namespace CamVerif.C04
open CamVerif CamVerif.Cache

/-- "The description declares its dependencies" in the wider sense, for the operations of one
history: every register write an operation can issue is declared by each cachable register it
may overlap through the writing register, its port, or a FEATURE node through which the
operation issues the write (`Integer` / `Enumeration` / `Boolean` `set_value`,
`Command::execute` — each runs `invalidate_cache_by(self)` before forwarding along `pValue` /
`pValueCopy`), the latter only for registers outside the operation's footprint; raw port writes
only on ports every cachable register lists.  Decidable (`Cache.declaredForB`). -/
def DeclaredFor (p : Profile) (g : Graph) (h : List Op) : Prop := declaredForB p g h = true

instance (p : Profile) (g : Graph) (h : List Op) : Decidable (DeclaredFor p g h) := by
  unfold DeclaredFor; infer_instance

end CamVerif.C04
