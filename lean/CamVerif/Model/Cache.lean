/-
C04 — executable model of the register cache layer of `cameleon-genapi`.

What is modelled (the code as it exists after the `fix:` commits for F-C04-1/2/3/4):
* `DefaultCacheStore` (`genapi/src/store.rs:493-558`): two-level map
  `nid → (address,length) → bytes` (association lists here), the `invalidators`
  multimap built by `store_invalidator(invalidator, target)` from every register's
  `pInvalidator` list, `cache / get_cache / invalidate_by / invalidate_of / clear`;
  `CacheSink` (`store.rs:560-595`): no cache.
* `RegisterBase::{with_cache_or_read, read_and_cache, write_and_cache, address, length}`
  (`genapi/src/register_base.rs`), for the three `CachingMode`s.
* every `invalidate_cache_by / invalidate_cache_of` call site on the paths below:
  `IntReg/MaskedIntReg/FloatReg/StringReg::set_value`, `IntegerNode::set_value`,
  `CommandNode::{execute,is_done}`, `PortNode::write`.
* the node kinds the cache can see: register nodes (IntReg, MaskedIntReg (struct entries are
  MaskedIntRegs sharing address/length), FloatReg, StringReg, Register) with
  `address = <Address> + <pIndex Offset=..>selector</pIndex>` where the selector is another
  integer-valued node of the graph read through the same (cached) path, constant length,
  `Cachable`, `AccessMode`, `pInvalidator*`, `pPort`; `Integer` with `pValue` and `pValueCopy*`; `Command`
  with `pValue` and constant `CommandValue`; `Boolean` (`pValue`, `OnValue`, `OffValue`);
  `Enumeration` (`pValue`, entry values); `Port`.
* a scripted device: byte image, static "no access" / "no write" address ranges, a list of
  write-attempt ordinals the device rejects, and an access log (every attempt, newest first).

The interpreter is parametric in a `CacheOps` record exactly as the Rust code is generic in
`U: CacheStore`; `defaultCache` and `sinkCache` are the two instances.

Imports core only (linked into the driver).
-/
import CamVerif.Prelude.Basic
namespace CamVerif.Cache
open CamVerif

abbrev NodeId := Nat

inductive Err where
  | device | notWritable | invalidNode | invalidData | chunkDataMissing | invalidBuffer
  deriving Repr, DecidableEq, Inhabited

inductive Mode where
  | writeThrough | writeAround | noCache
  deriving Repr, DecidableEq, Inhabited

inductive Acc where
  | ro | wo | rw
  deriving Repr, DecidableEq, Inhabited

inductive Endian where
  | le | be
  deriving Repr, DecidableEq, Inhabited

inductive Sign where
  | signed | unsigned
  deriving Repr, DecidableEq, Inhabited

/-- What a register node does with its bytes (value codec only; the cache sees bytes). -/
inductive RegKind where
  | int (e : Endian) (s : Sign)
  | masked (e : Endian) (s : Sign) (lsb msb : Nat)
  | float (e : Endian)
  | string
  | raw
  deriving Repr, DecidableEq, Inhabited

structure Reg where
  kind : RegKind
  /-- `<Address>` constant -/
  base : Int
  /-- `<pIndex Offset="off">sel</pIndex>`: address += value(sel) * off -/
  sel : Option (NodeId × Int)
  /-- `<Length>` constant -/
  len : Nat
  mode : Mode
  acc : Acc
  /-- `pInvalidator` list: writing through any of these nodes drops this register's cache -/
  invs : List NodeId
  port : NodeId
  deriving Repr, DecidableEq, Inhabited

inductive Node where
  | port
  | reg (r : Reg)
  /-- `Integer` with `pValue` and `pValueCopy*` -/
  | integer (pValue : NodeId) (copies : List NodeId)
  | command (pValue : NodeId) (cmdValue : Int)
  /-- `Boolean` with `pValue`, `OnValue`, `OffValue` -/
  | boolean (pValue : NodeId) (onValue offValue : Int)
  /-- `Enumeration` with `pValue` and the `<Value>`s of its entries -/
  | enumeration (pValue : NodeId) (values : List Int)
  /-- pseudo node (always the LAST one, never addressed by an operation): the access
  controllers of the description, `node ↦ (pIsImplemented, pIsAvailable, pIsLocked)` -/
  | ctls (tbl : List (NodeId × (Option NodeId × Option NodeId × Option NodeId)))
  deriving Repr, DecidableEq, Inhabited

/-- Node ids are positions in the list. -/
abbrev Graph := List Node

/-! ## Values and codecs (simple, own; only "pure function of the bytes" matters for caching) -/

inductive Val where
  | int (v : Int)
  /-- float register content as its bit pattern on `width` bytes -/
  | flt (width : Nat) (bits : Nat)
  | str (bs : Bytes)
  | bytes (bs : Bytes)
  | bool (b : Bool)
  | unit
  deriving Repr, DecidableEq, Inhabited

abbrev R := Res Err

def I64_MIN : Int := -(2 ^ 63)
def I64_MAX : Int := 2 ^ 63 - 1

/-- two's complement reading of a 64-bit pattern -/
def toI64 (u : Nat) : Int :=
  let m : Nat := u % 2 ^ 64
  if m < 2 ^ 63 then (m : Int) else (m : Int) - 2 ^ 64

/-- 64-bit pattern of an `i64` -/
def ofI64 (v : Int) : Nat := (v % 2 ^ 64).toNat

/-- `a + b` on `i64` (`register_base.rs:149`). -/
def addI64 (p : Profile) (a b : Int) : R Int :=
  if I64_MIN ≤ a + b ∧ a + b ≤ I64_MAX then .ok (a + b)
  else if p.overflowChecks then .panic else .ok (toI64 (ofI64 (a + b)))

/-- `a * b` on `i64` (`elem_type.rs:315`). -/
def mulI64 (p : Profile) (a b : Int) : R Int :=
  if I64_MIN ≤ a * b ∧ a * b ≤ I64_MAX then .ok (a * b)
  else if p.overflowChecks then .panic else .ok (toI64 (ofI64 (a * b)))

def fromEndian (e : Endian) (bs : Bytes) : Nat :=
  match e with
  | .le => fromLE bs
  | .be => fromBE bs

def toEndian (e : Endian) (len n : Nat) : Bytes :=
  match e with
  | .le => toLE len n
  | .be => toBE len n

def validIntLen (len : Nat) : Bool := len == 1 || len == 2 || len == 4 || len == 8

/-- `utils::int_from_slice` -/
def intFromSlice (bs : Bytes) (e : Endian) (s : Sign) : R Int :=
  if validIntLen bs.length then
    let u := fromEndian e bs
    match s with
    | .signed =>
      if u < 2 ^ (8 * bs.length - 1) then .ok (u : Int) else .ok ((u : Int) - 2 ^ (8 * bs.length))
    | .unsigned => .ok (toI64 u)
  else .err .invalidBuffer

/-- `utils::bytes_from_int` (`value as $ty` truncates, no range check) -/
def bytesFromInt (v : Int) (len : Nat) (e : Endian) (_s : Sign) : R Bytes :=
  if validIntLen len then .ok (toEndian e len (ofI64 v % 2 ^ (8 * len)))
  else .err .invalidBuffer

/-- `BitMask::{lsb,msb}` normalisation (`usize` subtraction: underflow panics in `dev`). -/
def normBit (bit len : Nat) (e : Endian) : R Nat :=
  match e with
  | .le => .ok bit
  | .be => if bit + 1 ≤ len * 8 then .ok (len * 8 - bit - 1) else .panic

/-- normalised (lsb, width) of the field; `msb - lsb` underflow panics. -/
def fieldOf (lsb msb len : Nat) (e : Endian) : R (Nat × Nat) := do
  let l ← normBit lsb len e
  let m ← normBit msb len e
  if l ≤ m then .ok (l, m - l + 1) else .panic

/-- `BitMask::apply_mask` for fields that do not reach bit 63. -/
def applyMask (regValue : Int) (l w : Nat) (s : Sign) : Int :=
  let field := (ofI64 regValue >>> l) % 2 ^ w
  match s with
  | .signed => if field < 2 ^ (w - 1) then (field : Int) else (field : Int) - 2 ^ w
  | .unsigned => (field : Int)

/-- `BitMask::masked_value` (range check, then replace the field) as a 64-bit pattern. -/
def maskedValue (old value : Int) (l w : Nat) (s : Sign) : R Nat :=
  let (lo, hi) : Int × Int := match s with
    | .signed => (-(2 ^ (w - 1)), 2 ^ (w - 1) - 1)
    | .unsigned => (0, 2 ^ w - 1)
  if value > hi ∨ value < lo then .err .invalidData
  else
    let o := ofI64 old
    let cleared := o - ((o >>> l) % 2 ^ w) <<< l
    .ok ((cleared + ((ofI64 value % 2 ^ w) <<< l)) % 2 ^ 64)

/-- `utils::float_from_slice`, kept at the bit-pattern level -/
def floatFromSlice (bs : Bytes) (e : Endian) : R Val :=
  if bs.length == 8 || bs.length == 4 then .ok (.flt bs.length (fromEndian e bs))
  else .err .invalidBuffer

/-- `utils::bytes_from_float` on a bit pattern of the register's width -/
def bytesFromFloat (bits len : Nat) (e : Endian) : R Bytes :=
  if len == 8 || len == 4 then .ok (toEndian e len (bits % 2 ^ (8 * len)))
  else .err .invalidBuffer

/-- `StringReg::value`: bytes up to the first NUL -/
def strFromSlice (bs : Bytes) : Bytes := bs.takeWhile (· ≠ 0)

/-- `StringReg::set_value` checks and padding -/
def bytesFromStr (s : Bytes) (len : Nat) : R Bytes :=
  if s.any (· ≥ 128) then .err .invalidData
  else if s.any (· == 0) then .err .invalidData
  else if s.length > len then .err .invalidData
  else .ok (s ++ List.replicate (len - s.length) 0)

/-! ## Cache stores -/

/-- first match in an association list -/
def alGet {κ ν : Type} [DecidableEq κ] (k : κ) : List (κ × ν) → Option ν
  | [] => none
  | (k', v) :: rest => if k' = k then some v else alGet k rest

/-- replace the first match or append -/
def alSet {κ ν : Type} [DecidableEq κ] (k : κ) (v : ν) : List (κ × ν) → List (κ × ν)
  | [] => [(k, v)]
  | (k', v') :: rest => if k' = k then (k, v) :: rest else (k', v') :: alSet k v rest

/-- update the first match if present -/
def alModify {κ ν : Type} [DecidableEq κ] (k : κ) (f : ν → ν) : List (κ × ν) → List (κ × ν)
  | [] => []
  | (k', v') :: rest => if k' = k then (k', f v') :: rest else (k', v') :: alModify k f rest

abbrev Level1 := List ((Int × Nat) × Bytes)

/-- `DefaultCacheStore` -/
structure Store where
  store : List (NodeId × Level1)
  invalidators : List (NodeId × List NodeId)
  deriving Repr, DecidableEq, Inhabited

namespace Store

/-- `CacheStoreBuilder::store_invalidator` -/
def storeInvalidator (s : Store) (invalidator target : NodeId) : Store :=
  { s with invalidators :=
      alSet invalidator ((alGet invalidator s.invalidators).getD [] ++ [target]) s.invalidators }

/-- `CacheStore::cache` -/
def cache (s : Store) (nid : NodeId) (a : Int) (l : Nat) (d : Bytes) : Store :=
  match alGet nid s.store with
  | some _ => { s with store := alModify nid (alSet (a, l) d) s.store }
  | none => { s with store := s.store ++ [(nid, [((a, l), d)])] }

/-- `CacheStore::get_cache` -/
def get (s : Store) (nid : NodeId) (a : Int) (l : Nat) : Option Bytes :=
  match alGet nid s.store with
  | some l1 => alGet (a, l) l1
  | none => none

/-- `CacheStore::invalidate_of` -/
def invalidateOf (s : Store) (nid : NodeId) : Store :=
  { s with store := alModify nid (fun _ => []) s.store }

def targets (s : Store) (nid : NodeId) : List NodeId :=
  (alGet nid s.invalidators).getD []

/-- `CacheStore::invalidate_by` -/
def invalidateBy (s : Store) (nid : NodeId) : Store :=
  (s.targets nid).foldl invalidateOf s

/-- `CacheStore::clear` -/
def clear (s : Store) : Store := { s with store := [] }

end Store

/-- The interface the node code is generic in (`U: CacheStore`). -/
structure CacheOps (κ : Type) where
  cache : κ → NodeId → Int → Nat → Bytes → κ
  get : κ → NodeId → Int → Nat → Option Bytes
  invalidateBy : κ → NodeId → κ
  invalidateOf : κ → NodeId → κ
  clear : κ → κ

def defaultCache : CacheOps Store :=
  ⟨Store.cache, Store.get, Store.invalidateBy, Store.invalidateOf, Store.clear⟩

/-- `CacheSink` -/
def sinkCache : CacheOps Unit :=
  ⟨fun _ _ _ _ _ => (), fun _ _ _ _ => none, fun _ _ => (), fun _ _ => (), fun _ => ()⟩

/-- registrations made while parsing: every register stores `(invalidator, self)` for each
`pInvalidator`, in document order (`parser/register_base.rs:22-30`). -/
def buildStoreAux : List Node → NodeId → Store → Store
  | [], _, s => s
  | .reg r :: rest, i, s =>
    buildStoreAux rest (i + 1) (r.invs.foldl (fun s inv => s.storeInvalidator inv i) s)
  | _ :: rest, i, s => buildStoreAux rest (i + 1) s

def buildStore (g : Graph) : Store := buildStoreAux g 0 ⟨[], []⟩

/-! ## Device -/

structure Access where
  write : Bool
  addr : Int
  len : Nat
  /-- bytes transferred (`[]` when the device rejected the access) -/
  data : Bytes
  ok : Bool
  deriving Repr, DecidableEq, Inhabited

/-- Scripted device.  REJECTION PLAN: (1) accesses outside the image fail; (2) every access
touching a `noAccess` range fails; (3) every write touching a `noWrite` range fails;
(4) the `k`-th write attempt (counting from 0, all attempts) fails when `k ∈ rejW`; these
rejections are atomic (nothing changes but the log / write counter).
(5) NON-ATOMIC rejection: when the `k`-th write attempt is otherwise acceptable and
`rejP` maps `k ↦ (m, junk)`, the device reports an error but leaves
`(data.take m ++ junk).take data.length` at the start of the written range: the first `m`
bytes applied (a chunked write that failed half way, or with `m ≥ len` a write whose
acknowledge was lost), or arbitrary bytes (`m = 0`).
Reads are rejected only statically: a transient read failure is observable through any
cache by construction. -/
structure Dev where
  mem : Bytes
  noAccess : List (Int × Nat)
  noWrite : List (Int × Nat)
  rejW : List Nat
  rejP : List (Nat × (Nat × Bytes))
  wcount : Nat
  /-- newest first -/
  log : List Access
  deriving Repr, DecidableEq, Inhabited

def overlaps (a : Int) (l : Nat) (a' : Int) (l' : Nat) : Bool :=
  decide (a < a' + l') && decide (a' < a + l)

def touches (rs : List (Int × Nat)) (a : Int) (l : Nat) : Bool :=
  rs.any fun r => overlaps r.1 r.2 a l

def inImage (mem : Bytes) (a : Int) (l : Nat) : Bool :=
  decide (0 ≤ a) && decide (a + l ≤ mem.length)

def slice (mem : Bytes) (a l : Nat) : Bytes := (mem.drop a).take l

def patch (mem : Bytes) (a : Nat) (d : Bytes) : Bytes :=
  mem.take a ++ d ++ mem.drop (a + d.length)

namespace Dev

def readOk (d : Dev) (a : Int) (l : Nat) : Bool :=
  inImage d.mem a l && !touches d.noAccess a l

/-- what a read of `[a, a+l)` would return now -/
def peek (d : Dev) (a : Int) (l : Nat) : Option Bytes :=
  if d.readOk a l then some (slice d.mem a.toNat l) else none

/-- the device would act on this write (possibly only partially) -/
def allowed (d : Dev) (a : Int) (l : Nat) : Bool :=
  inImage d.mem a l && !touches d.noAccess a l && !touches d.noWrite a l
    && !d.rejW.contains d.wcount

/-- the write succeeds -/
def writeOk (d : Dev) (a : Int) (l : Nat) : Bool :=
  d.allowed a l && (alGet d.wcount d.rejP).isNone

/-- what a non-atomically rejected write leaves at the start of its range -/
def leftover (data : Bytes) (mj : Nat × Bytes) : Bytes :=
  (data.take mj.1 ++ mj.2).take data.length

/-- `Device::read_mem` -/
def read (d : Dev) (a : Int) (l : Nat) : R Bytes × Dev :=
  match d.peek a l with
  | some bs => (.ok bs, { d with log := ⟨false, a, l, bs, true⟩ :: d.log })
  | none => (.err .device, { d with log := ⟨false, a, l, [], false⟩ :: d.log })

/-- `Device::write_mem` -/
def write (d : Dev) (a : Int) (data : Bytes) : R Unit × Dev :=
  if d.allowed a data.length then
    match alGet d.wcount d.rejP with
    | none =>
      (.ok (), { d with mem := patch d.mem a.toNat data, wcount := d.wcount + 1,
                        log := ⟨true, a, data.length, data, true⟩ :: d.log })
    | some mj =>
      (.err .device, { d with mem := patch d.mem a.toNat (leftover data mj), wcount := d.wcount + 1,
                              log := ⟨true, a, data.length, leftover data mj, false⟩ :: d.log })
  else
    (.err .device, { d with wcount := d.wcount + 1,
                            log := ⟨true, a, data.length, [], false⟩ :: d.log })

end Dev

/-! ## State monad of the interpreter -/

structure St (κ : Type) where
  cache : κ
  dev : Dev

/-- Computation that may fail (`Err` / panic) and keeps the state reached so far. -/
abbrev M (κ α : Type) := St κ → R α × St κ

namespace M
variable {κ α β : Type}

@[inline] def pure (a : α) : M κ α := fun s => (.ok a, s)

@[inline] def bind (m : M κ α) (f : α → M κ β) : M κ β := fun s =>
  match m s with
  | (.ok a, s') => f a s'
  | (.err e, s') => (.err e, s')
  | (.panic, s') => (.panic, s')

instance : Monad (M κ) where
  pure := M.pure
  bind := M.bind

/-- a pure `Res` computation -/
@[inline] def lift (r : R α) : M κ α := fun s => (r, s)

@[inline] def fail (e : Err) : M κ α := fun s => (.err e, s)

@[inline] def panic : M κ α := fun s => (.panic, s)

end M

section Interp
variable {κ : Type} (ops : CacheOps κ) (p : Profile) (g : Graph)

/-! ### primitives -/

def invBy (n : NodeId) : M κ Unit := fun s => (.ok (), { s with cache := ops.invalidateBy s.cache n })
def invOf (n : NodeId) : M κ Unit := fun s => (.ok (), { s with cache := ops.invalidateOf s.cache n })
def clearCache : M κ Unit := fun s => (.ok (), { s with cache := ops.clear s.cache })
def cacheData (n : NodeId) (a : Int) (l : Nat) (d : Bytes) : M κ Unit :=
  fun s => (.ok (), { s with cache := ops.cache s.cache n a l d })

def devRead (a : Int) (l : Nat) : M κ Bytes := fun s =>
  let (r, d) := s.dev.read a l
  (r, { s with dev := d })

def devWrite (a : Int) (data : Bytes) : M κ Unit := fun s =>
  let (r, d) := s.dev.write a data
  (r, { s with dev := d })

/-- `p_port.expect_iport_kind(store)?` -/
def expectPort (n : NodeId) : M κ Unit :=
  match g[n]? with
  | some .port => M.pure ()
  | _ => M.fail .invalidNode

/-- `PortNode::read` (`port.rs:52-66`) -/
def portRead (pn : NodeId) (a : Int) (l : Nat) : M κ Bytes := do
  expectPort g pn
  devRead a l

/-- `PortNode::write` (`port.rs:68-90`): `invalidate_cache_by(port)` then the device write -/
def portWrite (pn : NodeId) (a : Int) (data : Bytes) : M κ Unit := do
  expectPort g pn
  invBy ops pn
  devWrite a data

/-- `RegisterBase::read_and_cache` (`register_base.rs:88-111`) -/
def readAndCache (n : NodeId) (r : Reg) (a : Int) (buflen : Nat) : M κ Bytes :=
  if buflen ≠ r.len then M.fail .invalidBuffer else do
    let buf ← portRead g r.port a r.len
    if r.mode ≠ .noCache then cacheData ops n a r.len buf
    M.pure buf

/-- tail of `RegisterBase::with_cache_or_read` once the address is known
(`register_base.rs:78-84`) -/
def cachedRead (n : NodeId) (r : Reg) (a : Int) : M κ Bytes := fun s =>
  match ops.get s.cache n a r.len with
  | some bs => (.ok bs, s)
  | none => readAndCache ops g n r a r.len s

/-- tail of `RegisterBase::write_and_cache` once the address is known
(`register_base.rs:127-150`, with the repairs of F-C04-2: `invalidate_cache_by(nid)`;
F-C04-1: a register that is not `WriteThrough` drops its own entries; F-C04-3: a write the
port reports as failed drops the register's own entries too — the device may have applied
part of it; F-C04-4: the own entries under EVERY key are dropped after the port write, then a
successful WriteThrough write caches the data under the key written). -/
def writeAt (n : NodeId) (r : Reg) (a : Int) (buf : Bytes) : M κ Unit := do
  invBy ops n
  expectPort g r.port
  -- `PortNode::write`
  invBy ops r.port
  fun s =>
    match devWrite a buf s with
    | (.ok _, s') =>
      (if r.mode = .writeThrough then cacheData ops n a r.len buf else M.pure ())
        { s' with cache := ops.invalidateOf s'.cache n }
    | (.err e, s') => (.err e, { s' with cache := ops.invalidateOf s'.cache n })
    | (.panic, s') => (.panic, s')

/-- `RegisterBase::address` with the selector evaluator passed in
(`register_base.rs:141-152`, `elem_type.rs:304-318`) -/
def regAddr (ev : NodeId → M κ Int) (r : Reg) : M κ Int :=
  match r.sel with
  | none => M.pure r.base
  | some (s, off) => do
    let k ← ev s
    let prod ← M.lift (mulI64 p k off)
    M.lift (addI64 p r.base prod)

/-- `RegisterBase::with_cache_or_read` -/
def withCacheOrRead (ev : NodeId → M κ Int) (n : NodeId) (r : Reg) : M κ Bytes := do
  let a ← regAddr p ev r
  cachedRead ops g n r a

/-- `RegisterBase::write_and_cache` -/
def writeAndCache (ev : NodeId → M κ Int) (n : NodeId) (r : Reg) (buf : Bytes) : M κ Unit :=
  if buf.length ≠ r.len then M.fail .invalidBuffer else do
    let a ← regAddr p ev r
    writeAt ops g n r a buf

/-! ### integer-valued evaluation (`IValue<i64> for NodeId`), fuel-indexed -/

/-- `NodeId::value::<i64>`: IntReg / MaskedIntReg / Integer(pValue).  Out of fuel (a cyclic
description; stack overflow in Rust) is `panic`. -/
def evalInt : Nat → NodeId → M κ Int
  | 0, _ => M.panic
  | fuel + 1, n =>
    match g[n]? with
    | some (.reg r) =>
      match r.kind with
      | .int e s => do
        let bs ← withCacheOrRead ops p g (evalInt fuel) n r
        M.lift (intFromSlice bs e s)
      | .masked e s lsb msb => do
        let bs ← withCacheOrRead ops p g (evalInt fuel) n r
        let v ← M.lift (intFromSlice bs e s)
        let (l, w) ← M.lift (fieldOf lsb msb r.len e)
        M.pure (applyMask v l w s)
      | _ => M.fail .invalidNode
    | some (.integer pv _) => evalInt fuel pv
    | some (.enumeration pv _) => evalInt fuel pv
    | some _ => M.fail .invalidNode
    | none => M.panic

/-- `for nid in p_value_copies { nid.set_value(value)?; }` (`ivalue.rs:493-505`) -/
def forEachM (f : NodeId → M κ Unit) : List NodeId → M κ Unit
  | [] => M.pure ()
  | c :: cs => do
    f c
    forEachM f cs

/-- `NodeId::set_value::<i64>` -/
def setInt : Nat → NodeId → Int → M κ Unit
  | 0, _, _ => M.panic
  | fuel + 1, n, v =>
    match g[n]? with
    | some (.reg r) =>
      match r.kind with
      | .int e s => do
        invBy ops n
        let buf ← M.lift (bytesFromInt v r.len e s)
        writeAndCache ops p g (evalInt ops p g fuel) n r buf
      | .masked e s lsb msb => do
        invBy ops n
        let bs ← withCacheOrRead ops p g (evalInt ops p g fuel) n r
        let old ← M.lift (intFromSlice bs e s)
        let (l, w) ← M.lift (fieldOf lsb msb r.len e)
        let nv ← M.lift (maskedValue old v l w s)
        let buf ← M.lift (bytesFromInt (toI64 nv) r.len e s)
        writeAndCache ops p g (evalInt ops p g fuel) n r buf
      | _ => M.fail .notWritable
    | some (.integer pv cs) => do
      invBy ops n
      setInt fuel pv v
      forEachM (fun c => setInt fuel c v) cs
    | some (.enumeration pv vals) =>
      -- `set_entry_by_value` (`enumeration.rs:127-146`)
      if vals.contains v then do
        invBy ops n
        setInt fuel pv v
      else M.fail .invalidData
    | some _ => M.fail .notWritable
    | none => M.panic

/-- `NodeId::is_readable::<i64>` (no `pIsImplemented/pIsAvailable`, `ImposedAccessMode` RW) -/
def readable : Nat → NodeId → R Bool
  | 0, _ => .panic
  | fuel + 1, n =>
    match g[n]? with
    | some (.reg r) =>
      match r.kind with
      | .int _ _ | .masked _ _ _ _ => .ok (r.acc ≠ .wo)
      | _ => .ok false
    | some (.integer pv _) => readable fuel pv
    | some (.enumeration pv _) => readable fuel pv
    | some _ => .ok false
    | none => .panic

/-! ### access queries (`is_readable` / `is_writable`) with controllers, through the cache -/

/-- controllers of node `n` (from the trailing `ctls` pseudo node) -/
def ctlOf (n : NodeId) : Option NodeId × Option NodeId × Option NodeId :=
  match g.getLast? with
  | some (.ctls tbl) => (alGet n tbl).getD (none, none, none)
  | _ => (none, none, none)

/-- `utils::bool_from_id`: an `IBoolean` node's value, else an `IInteger` node's value `!= 0` -/
def boolFromId (F : Nat) (c : NodeId) : M κ Bool :=
  match g[c]? with
  | some (.boolean pv on off) => do
    let v ← evalInt ops p g F pv
    if v = on then M.pure true else if v = off then M.pure false else M.fail .invalidNode
  | some (.reg r) =>
    match r.kind with
    | .int _ _ | .masked _ _ _ _ => do
      let v ← evalInt ops p g F c
      M.pure (decide (v ≠ 0))
    | _ => M.fail .invalidNode
  | some (.integer _ _) => do
    let v ← evalInt ops p g F c
    M.pure (decide (v ≠ 0))
  | _ => M.fail .invalidNode

def ctlVal (F : Nat) (o : Option NodeId) (dflt : Bool) : M κ Bool :=
  match o with
  | none => M.pure dflt
  | some c => boolFromId ops p g F c

/-- `NodeElementBase::is_readable` (`node_base.rs:138-147`; `&&` short-circuits; ImposedAccessMode RW) -/
def baseReadable (F : Nat) (n : NodeId) : M κ Bool := do
  let i ← ctlVal ops p g F (ctlOf g n).1 true
  if i then ctlVal ops p g F (ctlOf g n).2.1 true else M.pure false

/-- `NodeElementBase::is_writable` (`node_base.rs:149-159`) -/
def baseWritable (F : Nat) (n : NodeId) : M κ Bool := do
  let i ← ctlVal ops p g F (ctlOf g n).1 true
  if i then do
    let a ← ctlVal ops p g F (ctlOf g n).2.1 true
    if a then do
      let l ← ctlVal ops p g F (ctlOf g n).2.2 false
      M.pure (!l)
    else M.pure false
  else M.pure false

/-- `NodeId::is_readable::<i64>` (`ivalue.rs`) -/
def isReadableI (F : Nat) : Nat → NodeId → M κ Bool
  | 0, _ => M.panic
  | fuel + 1, n =>
    match g[n]? with
    | some (.reg r) =>
      match r.kind with
      | .int _ _ | .masked _ _ _ _ => do
        let b ← baseReadable ops p g F n
        M.pure (b && decide (r.acc ≠ .wo))
      | _ => M.pure false
    | some (.integer pv _) => do
      let b ← baseReadable ops p g F n
      if b then isReadableI F fuel pv else M.pure false
    | some (.enumeration pv _) => do
      let b ← baseReadable ops p g F n
      if b then isReadableI F fuel pv else M.pure false
    | some _ => M.pure false
    | none => M.panic

/-- `b &= nid.is_writable()?` over the `pValueCopy`s: all are evaluated -/
def andAllM (f : NodeId → M κ Bool) : List NodeId → Bool → M κ Bool
  | [], b => M.pure b
  | c :: cs, b => do
    let y ← f c
    andAllM f cs (b && y)

/-- `NodeId::is_writable::<i64>`: integer kinds and Enumerations (`ivalue.rs`) -/
def isWritableI (F : Nat) : Nat → NodeId → M κ Bool
  | 0, _ => M.panic
  | fuel + 1, n =>
    match g[n]? with
    | some (.reg r) =>
      match r.kind with
      | .int _ _ | .masked _ _ _ _ => do
        let b ← baseWritable ops p g F n
        M.pure (b && decide (r.acc ≠ .ro))
      | _ => M.pure false
    | some (.integer pv cs) => do
      let b ← baseWritable ops p g F n
      if b then do
        let x ← isWritableI F fuel pv
        andAllM (isWritableI F fuel) cs x
      else M.pure false
    | some (.enumeration pv _) => do
      let b ← baseWritable ops p g F n
      if b then isWritableI F fuel pv else M.pure false
    | some _ => M.pure false
    | none => M.panic

/-! ### operations of the public interface -/

inductive Op where
  /-- `IInteger/IFloat/IString::value` by node kind -/
  | value (n : NodeId)
  | setValue (n : NodeId) (v : Val)
  /-- `IRegister::read` with a buffer of `buflen` bytes -/
  | read (n : NodeId) (buflen : Nat)
  /-- `IRegister::write` -/
  | write (n : NodeId) (data : Bytes)
  | execute (n : NodeId)
  | isDone (n : NodeId)
  /-- `IPort::read / write` -/
  | portRead (n : NodeId) (a : Int) (l : Nat)
  | portWrite (n : NodeId) (a : Int) (data : Bytes)
  | clearCache
  /-- `IRegister::address` (evaluates the selector through the cached path) -/
  | address (n : NodeId)
  /-- `is_readable` / `is_writable` of the node's value interface -/
  | isReadable (n : NodeId)
  | isWritable (n : NodeId)
  deriving Repr, DecidableEq, Inhabited

def opValue (fuel : Nat) (n : NodeId) : M κ Val :=
  match g[n]? with
  | some (.reg r) =>
    match r.kind with
    | .int _ _ | .masked _ _ _ _ => do
      let v ← evalInt ops p g fuel n
      M.pure (.int v)
    | .float e => do
      let bs ← withCacheOrRead ops p g (evalInt ops p g fuel) n r
      M.lift (floatFromSlice bs e)
    | .string => do
      let bs ← withCacheOrRead ops p g (evalInt ops p g fuel) n r
      M.pure (.str (strFromSlice bs))
    | .raw => M.fail .invalidNode
  | some (.integer _ _) => do
    let v ← evalInt ops p g fuel n
    M.pure (.int v)
  | some (.enumeration _ _) => do
    -- `IEnumeration::current_value`
    let v ← evalInt ops p g fuel n
    M.pure (.int v)
  | some (.boolean pv on off) => do
    -- `BooleanNode::value` (`boolean.rs:62-77`)
    let v ← evalInt ops p g fuel pv
    if v = on then M.pure (.bool true)
    else if v = off then M.pure (.bool false)
    else M.fail .invalidNode
  | _ => M.fail .invalidNode

def opSetValue (fuel : Nat) (n : NodeId) (v : Val) : M κ Val :=
  match g[n]? with
  | some (.reg r) =>
    match r.kind, v with
    | .int _ _, .int i | .masked _ _ _ _, .int i => do
      setInt ops p g fuel n i
      M.pure .unit
    | .float e, .flt _ bits => do
      invBy ops n
      let buf ← M.lift (bytesFromFloat bits r.len e)
      writeAndCache ops p g (evalInt ops p g fuel) n r buf
      M.pure .unit
    | .string, .str s => do
      let buf ← M.lift (bytesFromStr s r.len)
      invBy ops n
      writeAndCache ops p g (evalInt ops p g fuel) n r buf
      M.pure .unit
    | _, _ => M.fail .invalidNode
  | some (.integer _ _) =>
    match v with
    | .int i => do
      setInt ops p g fuel n i
      M.pure .unit
    | _ => M.fail .invalidNode
  | some (.enumeration _ _) =>
    match v with
    | .int i => do
      setInt ops p g fuel n i
      M.pure .unit
    | _ => M.fail .invalidNode
  | some (.boolean pv on off) =>
    match v with
    | .bool b => do
      -- `BooleanNode::set_value` (`boolean.rs:82-93`)
      invBy ops n
      setInt ops p g fuel pv (if b then on else off)
      M.pure .unit
    | _ => M.fail .invalidNode
  | _ => M.fail .invalidNode

/-- `IRegister::read` (`int_reg.rs:198-217` and the four siblings): never served from cache -/
def opRead (fuel : Nat) (n : NodeId) (buflen : Nat) : M κ Val :=
  match g[n]? with
  | some (.reg r) => do
    let a ← regAddr p (evalInt ops p g fuel) r
    let buf ← readAndCache ops g n r a buflen
    M.pure (.bytes buf)
  | _ => M.fail .invalidNode

/-- `IRegister::write` -/
def opWrite (fuel : Nat) (n : NodeId) (data : Bytes) : M κ Val :=
  match g[n]? with
  | some (.reg r) => do
    writeAndCache ops p g (evalInt ops p g fuel) n r data
    M.pure .unit
  | _ => M.fail .invalidNode

/-- `CommandNode::execute` (`command.rs:54-64`) -/
def opExecute (fuel : Nat) (n : NodeId) : M κ Val :=
  match g[n]? with
  | some (.command pv cv) => do
    invBy ops n
    setInt ops p g fuel pv cv
    M.pure .unit
  | _ => M.fail .invalidNode

/-- `CommandNode::is_done` (`command.rs:66-88`) -/
def opIsDone (fuel : Nat) (n : NodeId) : M κ Val :=
  match g[n]? with
  | some (.command pv cv) => do
    invOf ops pv
    let rd ← isReadableI ops p g fuel fuel pv
    if rd then
      let v ← evalInt ops p g fuel pv
      M.pure (.bool (cv ≠ v))
    else M.pure (.bool true)
  | _ => M.fail .invalidNode

/-- `IRegister::address` -/
def opAddress (fuel : Nat) (n : NodeId) : M κ Val :=
  match g[n]? with
  | some (.reg r) => do
    let a ← regAddr p (evalInt ops p g fuel) r
    M.pure (.int a)
  | _ => M.fail .invalidNode

/-- `IInteger / IFloat / IString / IEnumeration / IBoolean::is_readable` -/
def opIsReadable (F : Nat) (n : NodeId) : M κ Val :=
  match g[n]? with
  | some (.reg r) =>
    match r.kind with
    | .raw => M.fail .invalidNode
    | _ => do
      let b ← baseReadable ops p g F n
      M.pure (.bool (b && decide (r.acc ≠ .wo)))
  | some (.integer _ _) | some (.enumeration _ _) => do
    let b ← isReadableI ops p g F F n
    M.pure (.bool b)
  | some (.boolean pv _ _) => do
    let b ← baseReadable ops p g F n
    if b then do
      let x ← isReadableI ops p g F F pv
      M.pure (.bool x)
    else M.pure (.bool false)
  | _ => M.fail .invalidNode

/-- `…::is_writable` (also `ICommand`) -/
def opIsWritable (F : Nat) (n : NodeId) : M κ Val :=
  match g[n]? with
  | some (.reg r) =>
    match r.kind with
    | .raw => M.fail .invalidNode
    | _ => do
      let b ← baseWritable ops p g F n
      M.pure (.bool (b && decide (r.acc ≠ .ro)))
  | some (.integer _ _) => do
    let b ← isWritableI ops p g F F n
    M.pure (.bool b)
  | some (.enumeration pv _) | some (.boolean pv _ _) | some (.command pv _) => do
    let b ← baseWritable ops p g F n
    if b then do
      let x ← isWritableI ops p g F F pv
      M.pure (.bool x)
    else M.pure (.bool false)
  | _ => M.fail .invalidNode

def evalOp (fuel : Nat) : Op → M κ Val
  | .value n => opValue ops p g fuel n
  | .setValue n v => opSetValue ops p g fuel n v
  | .read n l => opRead ops p g fuel n l
  | .write n d => opWrite ops p g fuel n d
  | .execute n => opExecute ops p g fuel n
  | .isDone n => opIsDone ops p g fuel n
  | .portRead n a l => do
    let bs ← portRead g n a l
    M.pure (.bytes bs)
  | .portWrite n a d => do
    portWrite ops g n a d
    M.pure .unit
  | .clearCache => do
    clearCache ops
    M.pure .unit
  | .address n => opAddress ops p g fuel n
  | .isReadable n => opIsReadable ops p g fuel n
  | .isWritable n => opIsWritable ops p g fuel n

/-- fuel that suffices for every acyclic description -/
def fuelOf (g : Graph) : Nat := g.length + 1

/-- One public operation. -/
def run (s : St κ) (op : Op) : R Val × St κ := evalOp ops p g (fuelOf g) op s

/-- A history; a panic ends it (the process is gone).  Results in order. -/
def runHist : St κ → List Op → List (R Val) × St κ
  | s, [] => ([], s)
  | s, op :: rest =>
    match run ops p g s op with
    | (.panic, s') => ([.panic], s')
    | (r, s') =>
      let (rs, s'') := runHist s' rest
      (r :: rs, s'')

end Interp

/-! ## The declared-dependency predicate (decidable over the description) -/

/-- Values a selector node can evaluate to, as far as its kind alone tells: an unsigned
IntReg of 1/2/4 bytes yields `0 … 2^(8 len) - 1`, a signed one of 1/2/4/8 bytes
`-2^(8 len - 1) … 2^(8 len - 1) - 1`; anything else is unbounded (`none`). -/
def selRange (g : Graph) (s : NodeId) : Option (Int × Int) :=
  match g[s]? with
  | some (.reg rs) =>
    match rs.kind with
    | .int _ .unsigned =>
      if rs.len == 1 || rs.len == 2 || rs.len == 4 then some (0, 2 ^ (8 * rs.len) - 1) else none
    | .int _ .signed =>
      if validIntLen rs.len then some (-(2 ^ (8 * rs.len - 1)), 2 ^ (8 * rs.len - 1) - 1) else none
    | _ => none
  | _ => none

/-- Address hull `[lo, hi)` of every byte a register can touch (no wrap-around): its fixed
range, or for a selector-addressed register with a bounded selector the range spanned by the
extreme selector values; `none` = anywhere. -/
def hull (g : Graph) (r : Reg) : Option (Int × Int) :=
  match r.sel with
  | none => some (r.base, r.base + r.len)
  | some (s, off) =>
    match selRange g s with
    | some (lo, hi) =>
      some (r.base + min (lo * off) (hi * off), r.base + max (lo * off) (hi * off) + r.len)
    | none => none

def hullsMeet (h1 h2 : Option (Int × Int)) : Bool :=
  match h1, h2 with
  | some (a, b), some (c, d) => decide (a < d) && decide (c < b)
  | _, _ => true

/-- Can a write through register `w` change bytes under some cache key of register `t`
without that key being the very key the write itself refreshes?  Different registers: their
address hulls intersect (for two constant-address registers: their ranges intersect).  The
same register only clashes with itself when it is selector-addressed with a stride smaller
than its length.  Outside the `dev` profile address arithmetic may wrap, so a
selector-addressed register may then point anywhere. -/
def mayOverlap (p : Profile) (g : Graph) (w : NodeId) (rw : Reg) (t : NodeId) (rt : Reg) : Bool :=
  if w = t then
    match rt.sel with
    | none => false
    | some (_, off) => decide (off.natAbs < rt.len) || !p.overflowChecks
  else if (rw.sel.isSome || rt.sel.isSome) && !p.overflowChecks then true
  else hullsMeet (hull g rw) (hull g rt)

/-- one (writer, cached target) pair is declared: the target lists the writing register or
the writer's port among its `pInvalidator`s (every write through `w` runs
`invalidate_cache_by(w)` and `invalidate_cache_by(port)`). -/
def pairDeclared (p : Profile) (g : Graph) (w t : NodeId) : Bool :=
  match g[w]?, g[t]? with
  | some (.reg rw), some (.reg rt) =>
    rt.mode == .noCache || !mayOverlap p g w rw t rt || rt.invs.contains w || rt.invs.contains rw.port
  | _, _ => true

def declaredB (p : Profile) (g : Graph) : Bool :=
  (List.range g.length).all fun w => (List.range g.length).all fun t => pairDeclared p g w t

/-- raw `IPort::write` on port `pn` can hit any byte: every cachable register must list the port -/
def portDeclaredB (g : Graph) (pn : NodeId) : Bool :=
  g.all fun nd => match nd with
    | .reg rt => rt.mode == .noCache || rt.invs.contains pn
    | _ => true

/-! ## Feature-level declarations: "… or a feature node through which the write is issued"

`IntegerNode::set_value`, `EnumerationNode::set_entry_by_value`, `BooleanNode::set_value` and
`CommandNode::execute` call `invalidate_cache_by(self)` before they forward along
`pValue` / `pValueCopy`.  A cached register `t` may therefore declare, instead of the writing
register or its port, a FEATURE on the path of the operation — provided nothing re-populates
`t` between that invalidation and the device write, i.e. the operation does not itself read or
write `t` (its footprint: the registers it writes, and the selector registers read for their
addresses). -/

/-- registers `NodeId::value::<i64>` of `n` reads (selector cones included) -/
def cone (g : Graph) : Nat → NodeId → List NodeId
  | 0, _ => []
  | fuel + 1, n =>
    match g[n]? with
    | some (.reg r) =>
      n :: (match r.sel with
            | some (s, _) => cone g fuel s
            | none => [])
    | some (.integer pv _) => cone g fuel pv
    | some (.enumeration pv _) => cone g fuel pv
    | _ => []

/-- footprint of `NodeId::set_value::<i64>` entering at `n`: registers written (and, for their
addresses and read-modify-writes, read) -/
def wcone (g : Graph) : Nat → NodeId → List NodeId
  | 0, _ => []
  | fuel + 1, n =>
    match g[n]? with
    | some (.reg r) =>
      n :: (match r.sel with
            | some (s, _) => cone g fuel s
            | none => [])
    | some (.integer pv cs) => wcone g fuel pv ++ cs.flatMap (wcone g fuel)
    | some (.enumeration pv _) => wcone g fuel pv
    | _ => []

/-- the write through register `n`, reached after the features `J` invalidated themselves, is
declared by every cachable register it may overlap: the register lists `n`, `n`'s port, or —
being outside the operation's footprint (`U`) — one of the features `J` -/
def regOk (p : Profile) (g : Graph) (U : NodeId → Bool) (J : List NodeId) (n : NodeId) (rw : Reg) : Bool :=
  (List.range g.length).all fun t =>
    match g[t]? with
    | some (.reg rt) =>
      rt.mode == .noCache || !mayOverlap p g n rw t rt || rt.invs.contains n ||
        rt.invs.contains rw.port || (U t && J.any fun j => rt.invs.contains j)
    | _ => true

/-- every register write that `set_value` entering at `n` can issue is declared (`regOk`),
collecting the features that invalidate themselves on the way -/
def viaOk (p : Profile) (g : Graph) (U : NodeId → Bool) : Nat → List NodeId → NodeId → Bool
  | 0, _, _ => true
  | fuel + 1, J, n =>
    match g[n]? with
    | some (.reg rw) => regOk p g U J n rw
    | some (.integer pv cs) => viaOk p g U fuel (n :: J) pv && cs.all (viaOk p g U fuel (n :: J))
    | some (.enumeration pv _) => viaOk p g U fuel (n :: J) pv
    | _ => true

/-- footprint of a write entering at `e` (the typed register writes evaluate the address with
one more unit of fuel than `set_value::<i64>` does; on acyclic descriptions both lists agree) -/
def footprint (g : Graph) (e : NodeId) : List NodeId :=
  wcone g (fuelOf g) e ++ wcone g (fuelOf g + 1) e

/-- registers outside the footprint of a write entering at `e` -/
def protectedOf (g : Graph) (e : NodeId) : NodeId → Bool :=
  fun t => !(footprint g e).contains t

/-- one operation is declared, feature-level declarations included -/
def opOk (p : Profile) (g : Graph) : Op → Bool
  | .setValue n _ =>
    match g[n]? with
    | some (.boolean pv _ _) => viaOk p g (protectedOf g pv) (fuelOf g) [n] pv
    | _ => viaOk p g (protectedOf g n) (fuelOf g) [] n
  | .execute n =>
    match g[n]? with
    | some (.command pv _) => viaOk p g (protectedOf g pv) (fuelOf g) [n] pv
    | _ => true
  | .write n _ =>
    match g[n]? with
    | some (.reg rw) => regOk p g (protectedOf g n) [] n rw
    | _ => true
  | .portWrite n _ _ => portDeclaredB g n
  | _ => true

/-- the history is declared, operation by operation -/
def declaredForB (p : Profile) (g : Graph) (h : List Op) : Bool := h.all (opOk p g)

/-- initial states of the two builds -/
def initDefault (g : Graph) (d : Dev) : St Store := ⟨buildStore g, d⟩
def initSink (d : Dev) : St Unit := ⟨(), d⟩

end CamVerif.Cache
