/-
Hand-written executable model of `device/src/u3v/protocol/cmd.rs`
(command construction, serialisation, chunk iterators).  Tied to the source by
the correspondence harness (`harness/src/bin/c09.rs`, `c10.rs`).

Machine integers are `Nat` carriers with explicit width handling:
u16 fields are `< 2^16`, addresses `< 2^64`, `usize` is 64 bit.
-/
import CamVerif.Prelude.Basic
namespace CamVerif.Cmd

inductive Err where
  | invalidPacket
  | bufferIo
  deriving Repr, DecidableEq, Inhabited

abbrev R := Res Err

/-- `CommandPacket::PREFIX_MAGIC` -/
def PREFIX_MAGIC : Nat := 0x43563355
/-- `CommandPacket::ACK_HEADER_LENGTH` = 4 + 8 -/
def ACK_HEADER_LENGTH : Nat := 4 + 8
/-- `CommandPacket::MINIMUM_ACK_SCD_LENGTH` -/
def MINIMUM_ACK_SCD_LENGTH : Nat := 4
/-- `CommandCcd::len()` -/
def CCD_LEN : Nat := 8
/-- `CommandPacket::header_len()` = 4 + CommandCcd::len() -/
def HEADER_LEN : Nat := 4 + CCD_LEN

/-- `into_scd_len`: `usize -> u16` via `try_into`, error when it does not fit. -/
def intoScdLen (len : Nat) : R Nat :=
  if len ≤ U16_MAX then .ok len else .err .invalidPacket

/-! ### Commands -/

structure ReadMem where
  address : Nat
  readLength : Nat
  deriving Repr, DecidableEq

structure WriteMem where
  address : Nat
  data : Bytes
  dataLen : Nat
  len : Nat
  deriving Repr, DecidableEq

/-- `WriteMem::new` -/
def WriteMem.new (address : Nat) (data : Bytes) : R WriteMem := do
  let dataLen ← intoScdLen data.length
  let len ← intoScdLen (data.length + 8)
  pure ⟨address, data, dataLen, len⟩

structure ReadMemStacked where
  entries : List ReadMem
  len : Nat
  ackScdLen : Nat
  deriving Repr, DecidableEq

/-- `ReadMemStacked::ack_scd_len` : checked u16 sum of the read lengths. -/
def ReadMemStacked.ackLenFold : List ReadMem → Nat → R Nat
  | [], acc => .ok acc
  | e :: es, acc =>
    if acc + e.readLength ≤ U16_MAX then ackLenFold es (acc + e.readLength)
    else .err .invalidPacket

/-- `ReadMemStacked::new` -/
def ReadMemStacked.new (entries : List ReadMem) : R ReadMemStacked := do
  let len ← intoScdLen (entries.foldl (fun acc _ => acc + 12) 0)
  let ack ← ReadMemStacked.ackLenFold entries 0
  pure ⟨entries, len, ack⟩

structure WriteMemStacked where
  entries : List WriteMem
  len : Nat
  ackScdLen : Nat
  deriving Repr, DecidableEq

/-- `WriteMemStacked::new`.  `entries.len() as u16 * 4` is u16 arithmetic: the
cast truncates, the multiplication overflows (panic with checks, wrap without).
The `len` check runs first, so overflow is only reachable when `len` fits. -/
def WriteMemStacked.new (p : Profile) (entries : List WriteMem) : R WriteMemStacked := do
  let len ← intoScdLen (entries.foldl (fun acc c => acc + 12 + c.dataLen) 0)
  let ack ← mulW p 16 (entries.length % 2 ^ 16) 4
  pure ⟨entries, len, ack⟩

inductive Cmd where
  | readMem (c : ReadMem)
  | writeMem (c : WriteMem)
  | readMemStacked (c : ReadMemStacked)
  | writeMemStacked (c : WriteMemStacked)
  deriving Repr, DecidableEq

/-- `CommandFlag::RequestAck` = 1 << 14 (every command uses it). -/
def FLAG_REQUEST_ACK : Nat := 1 <<< 14

def Cmd.kindId : Cmd → Nat
  | .readMem _ => 0x0800
  | .writeMem _ => 0x0802
  | .readMemStacked _ => 0x0806
  | .writeMemStacked _ => 0x0808

/-- `CommandScd::scd_len` -/
def Cmd.scdLen : Cmd → Nat
  | .readMem _ => 12
  | .writeMem c => c.len
  | .readMemStacked c => c.len
  | .writeMemStacked c => c.len

/-- `CommandScd::ack_scd_len` -/
def Cmd.ackScdLen : Cmd → Nat
  | .readMem c => c.readLength
  | .writeMem _ => 4
  | .readMemStacked c => c.ackScdLen
  | .writeMemStacked c => c.ackScdLen

/-- `CommandPacket::cmd_len` -/
def Cmd.cmdLen (c : Cmd) : Nat := 4 + CCD_LEN + c.scdLen

/-- `CommandPacket::maximum_ack_len` -/
def Cmd.maximumAckLen (c : Cmd) : Nat :=
  ACK_HEADER_LENGTH + max c.ackScdLen MINIMUM_ACK_SCD_LENGTH

def ReadMem.scdBytes (c : ReadMem) : Bytes :=
  toLE 8 c.address ++ toLE 2 0 ++ toLE 2 c.readLength

def WriteMem.stackedBytes (c : WriteMem) : Bytes :=
  toLE 8 c.address ++ toLE 2 0 ++ toLE 2 c.dataLen ++ c.data

/-- The SCD bytes (`CommandScd::serialize`) when the sink accepts everything. -/
def Cmd.scdBytes : Cmd → Bytes
  | .readMem c => c.scdBytes
  | .writeMem c => toLE 8 c.address ++ c.data
  | .readMemStacked c => (c.entries.map ReadMem.scdBytes).flatten
  | .writeMemStacked c => (c.entries.map WriteMem.stackedBytes).flatten

/-- `CommandPacket::serialize` into a growable `Vec`. -/
def Cmd.serialize (c : Cmd) (requestId : Nat) : Bytes :=
  toLE 4 PREFIX_MAGIC ++ toLE 2 FLAG_REQUEST_ACK ++ toLE 2 c.kindId ++ toLE 2 c.scdLen
    ++ toLE 2 requestId ++ c.scdBytes

/-! #### Fixed-size slice sink

`impl Write for &mut [u8]`: `write` copies `min(data.len, remaining)` bytes and
returns that count (never an error); `write_all` fails with `WriteZero` when it
cannot place everything.  `write_bytes_le` uses `write` and ignores the count
(`bytes_io.rs:110,118`), so a fixed-width field may be silently truncated; only
`write_all(data)` (WriteMem data blocks) reports a short sink. -/

structure Sink where
  cap : Nat
  out : Bytes
  deriving Repr

def Sink.write (s : Sink) (bs : Bytes) : Sink :=
  { s with out := s.out ++ bs.take (s.cap - s.out.length) }

def Sink.writeAll (s : Sink) (bs : Bytes) : R Sink :=
  if bs.length ≤ s.cap - s.out.length then .ok (s.write bs) else .err .bufferIo

def writeStackedEntries : List WriteMem → Sink → R Sink
  | [], s => .ok s
  | e :: es, s => do
    let s := s.write (toLE 8 e.address)
    let s := s.write (toLE 2 0)
    let s := s.write (toLE 2 e.dataLen)
    let s ← s.writeAll e.data
    writeStackedEntries es s

def Cmd.serializeScdSink (c : Cmd) (s : Sink) : R Sink :=
  match c with
  | .readMem c => .ok (s.write c.scdBytes)
  | .writeMem c => (s.write (toLE 8 c.address)).writeAll c.data
  | .readMemStacked c => .ok (c.entries.foldl (fun s e => s.write e.scdBytes) s)
  | .writeMemStacked c => writeStackedEntries c.entries s

/-- `CommandPacket::serialize` into a `&mut [u8]` of `cap` bytes. -/
def Cmd.serializeSink (c : Cmd) (requestId cap : Nat) : R Bytes := do
  let s : Sink := ⟨cap, []⟩
  let s := s.write (toLE 4 PREFIX_MAGIC)
  let s := s.write (toLE 2 FLAG_REQUEST_ACK)
  let s := s.write (toLE 2 c.kindId)
  let s := s.write (toLE 2 c.scdLen)
  let s := s.write (toLE 2 requestId)
  let s ← c.serializeScdSink s
  pure s.out

/-! ### Chunk iterators (C10) -/

structure ReadMemChunks where
  address : Nat
  readLength : Nat
  maximumReadLength : Nat
  deriving Repr, DecidableEq

/-- `ReadMem::chunks` -/
def ReadMem.chunks (r : ReadMem) (ackLen : Nat) : R ReadMemChunks :=
  if ackLen ≤ ACK_HEADER_LENGTH then .err .invalidPacket
  else .ok ⟨r.address, r.readLength, ackLen - ACK_HEADER_LENGTH⟩

/-- `<ReadMemChunks as Iterator>::next` as a step function. -/
def ReadMemChunks.next (p : Profile) (s : ReadMemChunks) : R (Option ReadMem × ReadMemChunks) :=
  if s.readLength = 0 then .ok (none, s)
  else if s.readLength > s.maximumReadLength then do
    let m16 := s.maximumReadLength % 2 ^ 16          -- `as u16`
    let item : ReadMem := ⟨s.address, m16⟩
    let rl ← subW p 16 s.readLength m16
    let addr ← addW p 64 s.address (s.maximumReadLength % 2 ^ 64)  -- `as u64`
    pure (some item, { s with readLength := rl, address := addr })
  else
    .ok (some ⟨s.address, s.readLength⟩, { s with readLength := 0 })

/-- `.collect()` with fuel (every productive step strictly shrinks `readLength`). -/
def ReadMemChunks.collect (p : Profile) : Nat → ReadMemChunks → R (List ReadMem)
  | 0, _ => .panic   -- out of fuel: never reached with fuel = readLength + 1 (theorem)
  | fuel + 1, s => do
    let (item, s') ← s.next p
    match item with
    | none => pure []
    | some c => do
      let rest ← collect p fuel s'
      pure (c :: rest)

/-- `ReadMem::maximum_read_length`: `maximum_ack_len.saturating_sub(12).try_into().unwrap_or(u16::MAX)`
(fix ac6a78c; before it the subtraction underflowed for budgets below the header).  Total, profile
independent; the `Profile` argument is kept for the callers' signature. -/
def maximumReadLength (_p : Profile) (maximumAckLen : Nat) : R Nat :=
  let d := maximumAckLen - ACK_HEADER_LENGTH      -- Nat subtraction saturates at 0
  .ok (if d ≤ U16_MAX then d else U16_MAX)

structure WriteMemChunks where
  address : Nat
  data : Bytes
  dataIdx : Nat
  maximumDataLen : Nat
  deriving Repr, DecidableEq

/-- `WriteMem::chunks` -/
def WriteMem.chunks (w : WriteMem) (cmdLen : Nat) : R WriteMemChunks :=
  if cmdLen ≤ HEADER_LEN + 8 then .err .invalidPacket
  else .ok ⟨w.address, w.data, 0, cmdLen - (HEADER_LEN + 8)⟩

/-- `WriteMem::new(..).unwrap()` -/
def WriteMem.newUnwrap (address : Nat) (data : Bytes) : R WriteMem :=
  match WriteMem.new address data with
  | .ok w => .ok w
  | _ => .panic

/-- `<WriteMemChunks as Iterator>::next` as a step function. -/
def WriteMemChunks.next (p : Profile) (s : WriteMemChunks) : R (Option WriteMem × WriteMemChunks) :=
  if s.dataIdx = s.data.length then .ok (none, s)
  else do
    let e ← addW p 64 s.dataIdx s.maximumDataLen
    if e < s.data.length then do
      -- `&self.data[data_idx .. data_idx + max]` : in range because e < len
      let item ← WriteMem.newUnwrap s.address ((s.data.drop s.dataIdx).take s.maximumDataLen)
      let addr ← addW p 64 s.address (s.maximumDataLen % 2 ^ 64)
      let idx ← addW p 64 s.dataIdx s.maximumDataLen
      pure (some item, { s with address := addr, dataIdx := idx })
    else do
      let item ← WriteMem.newUnwrap s.address (s.data.drop s.dataIdx)
      pure (some item, { s with dataIdx := s.data.length })

def WriteMemChunks.collect (p : Profile) : Nat → WriteMemChunks → R (List WriteMem)
  | 0, _ => .panic
  | fuel + 1, s => do
    let (item, s') ← s.next p
    match item with
    | none => pure []
    | some c => do
      let rest ← collect p fuel s'
      pure (c :: rest)

/-- Whole pipeline used by callers: `ReadMem::new(a, n).chunks(budget)?.collect()`. -/
def readChunks (p : Profile) (address len budget : Nat) : R (List ReadMem) := do
  let it ← (ReadMem.mk address len).chunks budget
  it.collect p (len + 1)

/-- `WriteMem::new(a, data)?.chunks(budget)?.collect()`. -/
def writeChunks (p : Profile) (address : Nat) (data : Bytes) (budget : Nat) : R (List WriteMem) := do
  let w ← WriteMem.new address data
  let it ← w.chunks budget
  it.collect p (data.length + 1)

end CamVerif.Cmd
