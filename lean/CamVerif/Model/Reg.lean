/-
Hand-written executable model of the GenApi register layer with caching OFF
(`genapi/src/{utils,int_reg,float_reg,string_reg,register,register_base,port}.rs`).

Seam: every function takes the register's `(address, length)` ALREADY EVALUATED
(both `i64`, modelled as `Int`); evaluating `<Address>/<pAddress>/<pLength>` is the
interpreter's job (C03), the cache layer is C04's.  The device is a byte memory with
an access log; each function returns `(result, device afterwards)` because the Rust
code may touch the device and then fail (e.g. `IntReg::value` reads and *then*
rejects an unsupported length).

`i64` values are `I64 = BitVec 64` (signed reading `.toInt`), `usize` is 64 bit.
Tied to the source by `harness/src/bin/c01.rs` (real nodes parsed from generated XML).
-/
import CamVerif.Prelude.Basic
namespace CamVerif.Reg

/-- `GenApiError` variants (payload text dropped). -/
inductive Err where
  | device
  | notWritable
  | invalidNode
  | invalidData
  | chunkDataMissing
  | invalidBuffer
  deriving Repr, DecidableEq, Inhabited

abbrev R := Res Err
abbrev I64 := BitVec 64

inductive Endianness where
  | le
  | be
  deriving Repr, DecidableEq, Inhabited

inductive Sign where
  | signed
  | unsigned
  deriving Repr, DecidableEq, Inhabited

/-! ## Device memory and access log -/

/-- Byte image behind the port; addresses are `i64` (as `Int`). -/
abbrev Mem := Int → UInt8

/-- Bytes `[addr, addr+len)`. -/
def Mem.readRange (m : Mem) (addr : Int) (len : Nat) : Bytes :=
  (List.range len).map fun (i : Nat) => m (addr + (i : Int))

/-- Overwrite `[addr, addr+|data|)` with `data`. -/
def Mem.writeRange (m : Mem) (addr : Int) (data : Bytes) : Mem := fun a =>
  if h : addr ≤ a ∧ a < addr + (data.length : Int) then
    data[(a - addr).toNat]'(by omega)
  else m a

/-- List-backed image: `img` at `base`, zero elsewhere (executable form used by the driver). -/
def Mem.ofBytes (base : Int) (img : Bytes) : Mem := fun a =>
  if h : base ≤ a ∧ a < base + (img.length : Int) then
    img[(a - base).toNat]'(by omega)
  else 0

inductive AccessKind where
  | read
  | write
  deriving Repr, DecidableEq, Inhabited

/-- One performed device access: `Device::read_mem(addr, buf)` with `buf.len() = len`
returning `bytes`, or `Device::write_mem(addr, bytes)`. -/
structure Access where
  kind : AccessKind
  addr : Int
  len : Nat
  bytes : Bytes
  deriving Repr, DecidableEq, Inhabited

/-- The device: memory, log of performed accesses (oldest first), and a fault
script: `refuse n = true` makes the device answer its `n`-th access attempt
(0-based, counted in `attempts`) with an error, leaving memory and log untouched. -/
structure Dev where
  mem : Mem
  log : List Access := []
  refuse : Nat → Bool := fun _ => false
  attempts : Nat := 0

/-- A device that answers every access. -/
def Dev.Reliable (d : Dev) : Prop := ∀ n, d.refuse n = false

/-- `Device::read_mem` -/
def Dev.readMem (d : Dev) (addr : Int) (len : Nat) : R Bytes × Dev :=
  if d.refuse d.attempts then
    (.err .device, { d with attempts := d.attempts + 1 })
  else
    let bs := d.mem.readRange addr len
    (.ok bs, { d with attempts := d.attempts + 1, log := d.log ++ [⟨.read, addr, len, bs⟩] })

/-- `Device::write_mem` -/
def Dev.writeMem (d : Dev) (addr : Int) (data : Bytes) : R Unit × Dev :=
  if d.refuse d.attempts then
    (.err .device, { d with attempts := d.attempts + 1 })
  else
    (.ok (), { d with attempts := d.attempts + 1, mem := d.mem.writeRange addr data,
                      log := d.log ++ [⟨.write, addr, data.length, data⟩] })

/-- Number of write entries in a log. -/
def writesIn (log : List Access) : Nat := (log.filter fun a => a.kind == .write).length

/-! ## Port (`port.rs`) -/

/-- What matters of a `PortNode` here: whether it carries a `ChunkID`. -/
structure Port where
  hasChunkId : Bool := false
  deriving Repr, DecidableEq, Inhabited

/-- `PortNode::read`: chunk ports answer `ChunkDataMissing`. -/
def Port.read (p : Port) (addr : Int) (len : Nat) (d : Dev) : R Bytes × Dev :=
  if p.hasChunkId then (.err .chunkDataMissing, d) else d.readMem addr len

/-- `PortNode::write`: chunk ports hit `todo!()`. -/
def Port.write (p : Port) (addr : Int) (data : Bytes) (d : Dev) : R Unit × Dev :=
  if p.hasChunkId then (.panic, d) else d.writeMem addr data

/-! ## `length as usize`, `vec![0; n]` -/

/-- `x as usize` for an `i64` given as `Int`. -/
def asUsize (x : Int) : Nat := (x % 2 ^ 64).toNat

/-- `vec![0; length as usize]` / `Vec::resize(length as usize, 0)`: the standard library
panics with "capacity overflow" above `isize::MAX` bytes (every negative `length`).
Allocation failure for huge positive lengths is outside the model. -/
def allocLen (length : Int) : R Nat :=
  if asUsize length < 2 ^ 63 then .ok (asUsize length) else .panic

/-! ## `utils.rs` codecs -/

/-- unsigned reading of a slice in the given byte order -/
def readUnsigned (e : Endianness) (bs : Bytes) : Nat :=
  match e with
  | .le => fromLE bs
  | .be => fromBE bs

/-- `n`-byte image of a natural number (mod `256^n`) in the given byte order:
`(x as uN).to_le_bytes()` / `to_be_bytes()` (the signed variants give the same bytes). -/
def writeUnsigned (e : Endianness) (n : Nat) (x : Nat) : Bytes :=
  match e with
  | .le => toLE n x
  | .be => toBE n x

/-- One arm group of `convert_from_slice!` for an `n`-byte slice:
`i64::from(iN::from_xx_bytes(..))` sign-extends, `uN::from_xx_bytes(..) as i64`
zero-extends (for `N = 64`: reinterprets the same 64 bits). -/
def intOfBytes (n : Nat) (bs : Bytes) (e : Endianness) (s : Sign) : I64 :=
  match s with
  | .signed => (BitVec.ofNat (8 * n) (readUnsigned e bs)).signExtend 64
  | .unsigned => (BitVec.ofNat (8 * n) (readUnsigned e bs)).setWidth 64

/-- `utils::int_from_slice` -/
def intFromSlice (bs : Bytes) (e : Endianness) (s : Sign) : R I64 :=
  match bs.length with
  | 8 => .ok (intOfBytes 8 bs e s)
  | 4 => .ok (intOfBytes 4 bs e s)
  | 2 => .ok (intOfBytes 2 bs e s)
  | 1 => .ok (intOfBytes 1 bs e s)
  | _ => .err .invalidBuffer

/-- `utils::bytes_from_int` on a buffer of `len` bytes: `(value as iN/uN).to_xx_bytes()`;
the cast keeps the low `8·len` bits, signedness does not influence the bytes. -/
def bytesFromInt (v : I64) (len : Nat) (e : Endianness) (_s : Sign) : R Bytes :=
  match len with
  | 8 => .ok (writeUnsigned e 8 (v.setWidth 64).toNat)
  | 4 => .ok (writeUnsigned e 4 (v.setWidth 32).toNat)
  | 2 => .ok (writeUnsigned e 2 (v.setWidth 16).toNat)
  | 1 => .ok (writeUnsigned e 1 (v.setWidth 8).toNat)
  | _ => .err .invalidBuffer

/-- The float operations the register layer needs; abstract in theorems (Lean's
`Float` is opaque to the kernel), instantiated with `Float` in the driver. -/
class FloatOps (F : Type) where
  /-- `f64::to_bits` -/
  toBits : F → BitVec 64
  /-- `f64::from_bits` -/
  ofBits : BitVec 64 → F
  /-- `(x as f32).to_bits()` -/
  narrowBits32 : F → BitVec 32
  /-- `f64::from(f32::from_bits(b))` -/
  widenBits32 : BitVec 32 → F

/-- `utils::float_from_slice` -/
def floatFromSlice {F : Type} [FloatOps F] (bs : Bytes) (e : Endianness) : R F :=
  match bs.length with
  | 8 => .ok (FloatOps.ofBits (BitVec.ofNat 64 (readUnsigned e bs)))
  | 4 => .ok (FloatOps.widenBits32 (BitVec.ofNat 32 (readUnsigned e bs)))
  | _ => .err .invalidBuffer

/-- `utils::bytes_from_float` on a buffer of `len` bytes -/
def bytesFromFloat {F : Type} [FloatOps F] (x : F) (len : Nat) (e : Endianness) : R Bytes :=
  match len with
  | 8 => .ok (writeUnsigned e 8 (FloatOps.toBits x).toNat)
  | 4 => .ok (writeUnsigned e 4 (FloatOps.narrowBits32 x).toNat)
  | _ => .err .invalidBuffer

/-! ## `register_base.rs` (caching off) -/

/-- `RegisterBase::read_and_cache` with a caller buffer of `bufLen` bytes: the
`buf.len() == length as usize` guard, then the port read.  Returns the bytes
placed in the buffer. -/
def readAndCache (port : Port) (address length : Int) (bufLen : Nat) (d : Dev) : R Bytes × Dev :=
  if bufLen ≠ asUsize length then (.err .invalidBuffer, d)
  else port.read address bufLen d

/-- `RegisterBase::write_and_cache`: guard, then the port write. -/
def writeAndCache (port : Port) (address length : Int) (buf : Bytes) (d : Dev) : R Unit × Dev :=
  if buf.length ≠ asUsize length then (.err .invalidBuffer, d)
  else port.write address buf d

/-- `RegisterBase::with_cache_or_read` on a cache miss (always, with caching off):
allocate `length` bytes, `read_and_cache`, apply `f` to the data. -/
def withRead {α : Type} (port : Port) (address length : Int) (d : Dev) (f : Bytes → R α) :
    R α × Dev :=
  match allocLen length with
  | .ok n =>
    match readAndCache port address length n d with
    | (.ok bs, d') => (f bs, d')
    | (.err e, d') => (.err e, d')
    | (.panic, d') => (.panic, d')
  | .err e => (.err e, d)
  | .panic => (.panic, d)

/-! ## Node kinds -/

/-- `IRegister::read` of every register kind (Register, IntReg, MaskedIntReg,
FloatReg, StringReg share the body): caller buffer of `bufLen` bytes. -/
def Register.read (port : Port) (address length : Int) (bufLen : Nat) (d : Dev) : R Bytes × Dev :=
  readAndCache port address length bufLen d

/-- `IRegister::write` of every register kind. -/
def Register.write (port : Port) (address length : Int) (buf : Bytes) (d : Dev) : R Unit × Dev :=
  writeAndCache port address length buf d

/-- `IInteger::value` of `IntRegNode` -/
def IntReg.value (port : Port) (e : Endianness) (s : Sign) (address length : Int) (d : Dev) :
    R I64 × Dev :=
  withRead port address length d fun data => intFromSlice data e s

/-- `IInteger::set_value` of `IntRegNode`: encode first, write afterwards. -/
def IntReg.setValue (port : Port) (e : Endianness) (s : Sign) (address length : Int) (v : I64)
    (d : Dev) : R Unit × Dev :=
  match allocLen length with
  | .ok n =>
    match bytesFromInt v n e s with
    | .ok buf => writeAndCache port address length buf d
    | .err er => (.err er, d)
    | .panic => (.panic, d)
  | .err er => (.err er, d)
  | .panic => (.panic, d)

/-- `IInteger::min` of `IntRegNode`: `i64::MIN` for signed, `0` for unsigned registers —
independent of the register length (a 1-byte register reports the full `i64` range; values
outside the natural range of the length are truncated by `set_value`, not refused). -/
def IntReg.min (s : Sign) : I64 :=
  match s with
  | .signed => BitVec.intMin 64
  | .unsigned => 0

/-- `IInteger::max` of `IntRegNode`: always `i64::MAX`. -/
def IntReg.max (_s : Sign) : I64 := BitVec.intMax 64

/-- `IFloat::value` of `FloatRegNode` -/
def FloatReg.value {F : Type} [FloatOps F] (port : Port) (e : Endianness) (address length : Int)
    (d : Dev) : R F × Dev :=
  withRead port address length d fun data => floatFromSlice data e

/-- `IFloat::set_value` of `FloatRegNode` -/
def FloatReg.setValue {F : Type} [FloatOps F] (port : Port) (e : Endianness) (address length : Int)
    (x : F) (d : Dev) : R Unit × Dev :=
  match allocLen length with
  | .ok n =>
    match bytesFromFloat x n e with
    | .ok buf => writeAndCache port address length buf d
    | .err er => (.err er, d)
    | .panic => (.panic, d)
  | .err er => (.err er, d)
  | .panic => (.panic, d)

/-- `data[..str_end]` with `str_end` the first NUL (or the end). -/
def cstrPrefix (data : Bytes) : Bytes := data.takeWhile (· ≠ 0)

/-- `IString::value` of `StringRegNode`: the bytes before the first NUL.  The Rust
code returns `String::from_utf8_lossy` of exactly these bytes (std, not modelled;
the identity on ASCII). -/
def StringReg.value (port : Port) (address length : Int) (d : Dev) : R Bytes × Dev :=
  withRead port address length d fun data => .ok (cstrPrefix data)

/-- `str::is_ascii` on the UTF-8 bytes of the value -/
def isAscii (value : Bytes) : Bool := value.all (· < 128)

/-- `value.contains('\0')` on the UTF-8 bytes (a NUL byte occurs only as U+0000) -/
def containsNul (value : Bytes) : Bool := value.any (· == 0)

/-- `IString::set_value` of `StringRegNode`; `value` is the UTF-8 encoding of the
Rust `String`.  ASCII check, NUL check, length check, then zero padding to
`max_length = length as usize` and the guarded write. -/
def StringReg.setValue (port : Port) (address length : Int) (value : Bytes) (d : Dev) :
    R Unit × Dev :=
  if ¬ isAscii value then (.err .invalidData, d)
  else if containsNul value then (.err .invalidData, d)
  else if value.length > asUsize length then (.err .invalidData, d)
  else
    match allocLen length with
    | .ok n => writeAndCache port address length (value ++ List.replicate (n - value.length) 0) d
    | .err er => (.err er, d)
    | .panic => (.panic, d)

end CamVerif.Reg
