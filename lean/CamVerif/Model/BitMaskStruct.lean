/-
C02 — hand-written executable model of the `StructReg` → `MaskedIntReg` expansion of
`genapi/src/parser/struct_reg.rs`, as far as the integer interface sees it:

* `StructRegNode::into_masked_int_regs`: every `StructEntry`, in document order, becomes one
  `MaskedIntRegNode` by `StructEntryNode::into_masked_int_reg(register_base.clone(), endianness, ..)`:
  the register base (`Address`, `Length`, `pPort`) and the byte order are the STRUCTREG's, the
  `bit_mask` (`LSB`/`MSB`/`Bit`) and the `sign` are the ENTRY's.
* `value / set_value / min / max` of such a node are `MaskedIntRegNode`'s
  (`CamVerif.Model.BitMask`): the same `BitMask` functions are fed by the entry's lsb / msb / sign
  and the StructReg's endianness / length.

Not modelled here: the merging of the non-integer properties (access mode, caching mode,
invalidators, visibility … — `merge_impl!`; caching is C04, entry parsing as such C17).
Tied to the source by `harness/src/bin/c02.rs` (`c02 s<op>` requests: the harness sends the whole
StructReg, the DRIVER performs the expansion with these functions).  Imports core only.
-/
import CamVerif.Model.BitMask
namespace CamVerif.BitMask
open CamVerif CamVerif.Reg

/-- what a `StructEntryNode` contributes to the integer interface -/
structure StructEntry where
  bm : BitMask
  s : Sign
  deriving Repr, DecidableEq, Inhabited

/-- `StructRegNode`: register base (constant address, length), byte order, entries in document order -/
structure StructReg where
  address : Int
  length : Int
  e : Endianness
  entries : List StructEntry
  deriving Repr, DecidableEq, Inhabited

/-- the fields of a `MaskedIntRegNode` that `value / set_value / min / max` use -/
structure MaskedNode where
  address : Int
  length : Int
  bm : BitMask
  s : Sign
  e : Endianness
  deriving Repr, DecidableEq, Inhabited

/-- `StructEntryNode::into_masked_int_reg(register_base, endianness, ..)` -/
def StructEntry.intoMaskedIntReg (ent : StructEntry) (address length : Int) (e : Endianness) :
    MaskedNode :=
  { address := address, length := length, bm := ent.bm, s := ent.s, e := e }

/-- `StructRegNode::into_masked_int_regs` -/
def StructReg.intoMaskedIntRegs (r : StructReg) : List MaskedNode :=
  r.entries.map fun ent => ent.intoMaskedIntReg r.address r.length r.e

/-- `IInteger::value` of the node -/
def MaskedNode.value (p : Profile) (port : Port) (n : MaskedNode) (d : Dev) : R I64 × Dev :=
  MaskedIntReg.value p port n.bm n.e n.s n.address n.length d

/-- `IInteger::set_value` of the node -/
def MaskedNode.setValue (p : Profile) (port : Port) (n : MaskedNode) (v : I64) (d : Dev) :
    R Unit × Dev :=
  MaskedIntReg.setValue p port n.bm n.e n.s n.address n.length v d

/-- `IInteger::min` of the node -/
def MaskedNode.min (p : Profile) (n : MaskedNode) : R I64 := MaskedIntReg.min p n.bm n.e n.s n.length

/-- `IInteger::max` of the node -/
def MaskedNode.max (p : Profile) (n : MaskedNode) : R I64 := MaskedIntReg.max p n.bm n.e n.s n.length

end CamVerif.BitMask
