/-
C12 — labelled transition system of the U3V streaming machinery.

Hand-written executable model of
  * `cameleon/src/u3v/stream_handle.rs`  `StreamingLoop::run` (statement by statement, explicit
      program counter), `read_leader/read_payload/read_trailer`, `StreamHandle::{start,stop}`;
  * `cameleon/src/payload.rs`            the payload channel (capacity `cap`) and the send-back
      channel (capacity `bufCap`), `try_send/try_recv/send_back`;
  * `device/src/u3v/async_read.rs`       `AsyncPool::{submit,poll,cancel_all}` and `Drop`
      (= cancel all in reverse order, then reap every transfer).

Components of a state: the device endpoint (a fixed script of bulk packets / transfer faults and
the number consumed so far), the loop (program counter + locals), the two channels, the receiver
(payloads it holds), the controller (`stop` = rendezvous on a `sync_channel(0)`), and the set of
freed buffers.  Payload buffers carry identities (`Buf.id`) so ownership is observable.
A *schedule* is any list of `Step`s; `step s a = some s'` iff `a` is enabled in `s`.

Ghost components (`iterStart`, `got`, `enq`, `sentLog`, `recvLog`, `faults`, and the fields
`start/read/parts` of a message) never influence enabledness or the non-ghost part of a successor;
they only record history so that the theorems of `Props/C12.lean` can talk about it.

What is abstract: parsing + `PayloadBuilder::build` is the parameter `Assembler`
(the driver instantiates it with `CamVerif.Stream` = the C11 model); the environment decides
between "transfer completes" and "poll times out" (`Step.pollPending`) and may fail any submit.
A cancelled transfer completes with `Timeout` and no data (libusb CANCELLED), possibly reported up
to `maxLate` polls late (`reapLate`); a transfer that had already FAILED when it was cancelled is
reaped with its error status (`reapFault`); only "completed WITH DATA just before the cancel" is not modelled.  `StreamParams` come from u32 registers,
hence `maximum_payload_size` cannot overflow a 64-bit usize; no `Profile` is needed.
-/
import CamVerif.Prelude.Basic
namespace CamVerif.StreamLoop

/-- `StreamError` classes the loop can report. -/
inductive SErr where
  | io
  | disconnected
  | timeout
  | invalidPayload
  deriving Repr, DecidableEq, Inhabited, BEq

/-- `StreamParams` + the two channel capacities of `payload::channel(cap, bufCap)`. -/
structure Params where
  leaderSize : Nat
  trailerSize : Nat
  payloadSize : Nat
  payloadCount : Nat
  final1 : Nat
  final2 : Nat
  cap : Nat
  bufCap : Nat
  /-- cancellation latency of the USB stack: the completion of a cancelled transfer is reported at
  most this many polls late (libusb cancels asynchronously) -/
  maxLate : Nat
  deriving Repr, DecidableEq, BEq

/-- `StreamParams::maximum_payload_size` -/
def Params.maxPayload (P : Params) : Nat :=
  P.payloadSize * P.payloadCount + P.final1 + P.final2

/-- Which loop-local buffer a transfer writes. -/
inductive Tgt where
  | leader
  | payload
  | trailer
  deriving Repr, DecidableEq, BEq

/-- The slice handed to `AsyncPool::submit`: `target[off .. off+len]`. -/
structure Slot where
  tgt : Tgt
  off : Nat
  len : Nat
  deriving Repr, DecidableEq, BEq

/-- The slices `read_payload` submits, in order. -/
def Params.payloadSlots (P : Params) : List Slot :=
  (List.range P.payloadCount).map (fun i => (⟨.payload, i * P.payloadSize, P.payloadSize⟩ : Slot))
  ++ (if P.final1 ≠ 0 then [⟨.payload, P.payloadCount * P.payloadSize, P.final1⟩] else [])
  ++ (if P.final2 ≠ 0 then [⟨.payload, P.payloadCount * P.payloadSize + P.final1, P.final2⟩] else [])

/-- All transfers of one iteration: `read_leader`, `read_payload`, `read_trailer`. -/
def Params.layout (P : Params) : List Slot :=
  (⟨.leader, 0, P.leaderSize⟩ : Slot) :: (P.payloadSlots ++ [⟨.trailer, 0, P.trailerSize⟩])

/-- Number of transfers per frame. -/
def Params.T (P : Params) : Nat := P.layout.length

/-- `buf[off .. off+|d|].copy_from(d)` (requires `off + |d| ≤ |buf|`, an invariant of the model). -/
def writeAt (buf : Bytes) (off : Nat) (d : Bytes) : Bytes :=
  buf.take off ++ d ++ buf.drop (off + d.length)

/-- What the scripted device does for the next completing transfer. -/
inductive Item where
  /-- a bulk packet with these bytes (longer than the transfer ⇒ OVERFLOW) -/
  | data (bs : Bytes)
  /-- the transfer completes with an error status of this class -/
  | fault (e : SErr)
  deriving Repr, DecidableEq, BEq

/-- A payload buffer (`Vec<u8>`) with its identity. -/
structure Buf where
  id : Nat
  bytes : Bytes
  deriving Repr, DecidableEq, BEq

/-- Result of `PayloadBuilder::build`: `valid_payload_size` and a digest of all other fields. -/
structure Built where
  valid : Nat
  info : Nat
  deriving Repr, DecidableEq, BEq

/-- `Leader::parse`, `Trailer::parse`, `PayloadBuilder::build` on the three loop buffers. -/
inductive Asm where
  | leaderErr
  | trailerErr
  /-- `trailer.block_id() != leader.block_id()` -/
  | idMismatch
  | buildErr
  | built (b : Built)
  | panic
  deriving Repr, DecidableEq, BEq

/-- `(leader_buf[..first], trailer_buf[..last], payload_buf, read_payload_size) ↦ outcome`. -/
abbrev Assembler := Bytes → Bytes → Bytes → Nat → Asm

/-- An `Ok(Payload)`.  `start`, `read`, `parts` are ghost: index of the first script item the
iteration consumed, the `read_payload_size` it computed and the packets it received. -/
structure OkMsg where
  buf : Buf
  valid : Nat
  info : Nat
  start : Nat
  read : Nat
  parts : List Bytes
  deriving Repr, DecidableEq, BEq

/-- `StreamResult<Payload>` travelling through the payload channel. -/
inductive Msg where
  | ok (m : OkMsg)
  | err (e : SErr)
  deriving Repr, DecidableEq, BEq

/-- An in-flight transfer of the `AsyncPool`. -/
structure Xfer where
  id : Nat
  slot : Slot
  deriving Repr, DecidableEq, BEq

/-- Program counter of `StreamingLoop::run`. -/
inductive PC where
  /-- `'outer: loop {` before `cancellation_rx.try_recv()` -/
  | top
  /-- `payload_buf_opt.take()` / `sender.try_recv()` / `vec![0; max]` -/
  | obtain
  /-- about to submit transfer number `k` of the layout -/
  | submit (k : Nat)
  /-- `while !async_pool.is_empty() { poll }` -/
  | poll
  /-- `payload_len - last`, parse leader, parse trailer, build -/
  | parse
  /-- `self.sender.try_send(m)` -/
  | send (m : Msg)
  /-- `AsyncPool::drop`: `c` transfers (the last `c`) are cancelled so far; when all are, reap -/
  | drop (c : Nat)
  /-- `break` taken: locals and `self` are being dropped -/
  | exiting
  | exited
  /-- the loop thread panicked and unwound -/
  | dead
  deriving Repr, DecidableEq, BEq

/-- Controller (`StreamHandle`): `running` = `cancellation_tx.is_some()`, `calling` = inside
`stop_streaming_loop` after `take()` but not yet parked in `send`, `stopping` = blocked in the
rendezvous `send`, `stopOk/stopErr` = `stop_streaming_loop` returned, `closed` = `close()` (also
run by `Drop`) has, after the stop, locked the receive channel — which the loop thread keeps locked
for its whole life — and closed it. -/
inductive Ctl where
  | running
  | calling
  | stopping
  | stopOk
  | stopErr
  | closed
  deriving Repr, DecidableEq, BEq

structure State where
  -- device endpoint (the script itself is a fixed parameter, see `Cfg`)
  consumed : Nat
  -- loop locals
  pc : PC
  cur : Option Buf
  reuse : Option Buf
  leaderBuf : Bytes
  trailerBuf : Bytes
  pending : List Xfer
  first : Option Nat
  last : Option Nat
  plen : Nat
  /-- `payload_is_short`: a payload transfer of this frame was not filled completely -/
  short : Bool
  /-- `payload_has_gap`: a payload transfer received data after a short one -/
  gap : Bool
  /-- polls already spent on the (cancelled) front transfer without its completion being reported -/
  late : Nat
  nextXfer : Nat
  nextBuf : Nat
  -- channels
  chan : List Msg
  back : List OkMsg
  senderAlive : Bool
  -- receiver
  rxAlive : Bool
  held : List OkMsg
  -- heap
  freed : List Nat
  -- controller
  ctl : Ctl
  -- ghost
  iterStart : Nat
  got : List Bytes
  enq : Bool
  sentLog : List OkMsg
  recvLog : List OkMsg
  faults : Nat
  deriving Repr, DecidableEq, BEq

/-- `start_streaming_loop` has just spawned the thread: `vec![0; leader_size]` etc. -/
def init (P : Params) : State :=
  { consumed := 0, pc := .top, cur := none, reuse := none,
    leaderBuf := List.replicate P.leaderSize 0, trailerBuf := List.replicate P.trailerSize 0,
    pending := [], first := none, last := none, plen := 0, short := false, gap := false, late := 0, nextXfer := 0, nextBuf := 0,
    chan := [], back := [], senderAlive := true, rxAlive := true, held := [], freed := [],
    ctl := .running, iterStart := 0, got := [], enq := false, sentLog := [], recvLog := [],
    faults := 0 }

/-- Atomic steps.  Loop steps first, then receiver, then controller. -/
inductive Step where
  | checkCancel
  | obtainReuse
  | obtainBack
  | obtainAlloc
  | submitOk
  | submitFail (e : SErr)
  | pollOk
  | pollOverflow
  | pollFault
  | pollPending
  | pollErr (e : SErr)
  | parse
  | trySend
  | cancelNext
  | reapOne
  | reapFault
  | reapLate
  | iterEnd
  | exit
  | rxRecv
  | rxNone
  | rxSendBack (id : Nat)
  | rxSendForeign (bs : Bytes)
  | rxDrop (id : Nat)
  | rxClose
  | stopCall
  | stopBlock
  | stopDisc
  | closeDone
  deriving Repr, DecidableEq, BEq

def Step.isLoop : Step → Bool
  | .rxRecv | .rxNone | .rxSendBack _ | .rxSendForeign _ | .rxDrop _ | .rxClose | .stopCall | .stopBlock | .stopDisc | .closeDone => false
  | _ => true

/-- `Vec::resize(max, 0)` -/
def resize (bs : Bytes) (n : Nat) : Bytes :=
  if n ≤ bs.length then bs.take n else bs ++ List.replicate (n - bs.length) 0

def freeOpt (freed : List Nat) : Option Buf → List Nat
  | some b => b.id :: freed
  | none => freed

def msgBufId : Msg → Option Nat
  | .ok m => some m.buf.id
  | .err _ => none

/-- Apply a completed transfer's data to the loop buffers. -/
def applyData (s : State) (sl : Slot) (d : Bytes) : State :=
  match sl.tgt with
  | .leader => { s with leaderBuf := writeAt s.leaderBuf sl.off d }
  | .trailer => { s with trailerBuf := writeAt s.trailerBuf sl.off d }
  | .payload =>
    match s.cur with
    | some b => { s with cur := some ⟨b.id, writeAt b.bytes sl.off d⟩ }
    | none => s

/-- The `first_buf_len / payload_len / last_buf_len` accounting of the poll loop. -/
def account (s : State) (len : Nat) : State :=
  match s.first with
  | none => { s with first := some len, last := some len }
  | some _ => { s with plen := s.plen + len, last := some len }


/-- The contiguity bookkeeping of the poll loop for a payload transfer (`payload` = the transfer
is neither the first (leader) nor the last (trailer) one) that received `len` of `slotLen` bytes. -/
def gapUpd (s : State) (payload : Bool) (len slotLen : Nat) : State :=
  if payload then
    { s with gap := s.gap || (s.short && decide (len ≠ 0)), short := s.short || decide (len < slotLen) }
  else s

section
variable (P : Params) (A : Assembler) (script : List Item)

/-- `match self.cancellation_rx.try_recv()`: pairs with a sender blocked in `stop`. -/
def stepCheckCancel (s : State) : Option State :=
  if s.pc = .top then
    match s.ctl with
    | .stopping => some { s with pc := .exiting, ctl := .stopOk }
    | _ => some { s with pc := .obtain, iterStart := s.consumed, got := [], enq := false }
  else none

def stepObtainReuse (s : State) : Option State :=
  if s.pc = .obtain then
    match s.reuse with
    | some b => some { s with pc := .submit 0, cur := some b, reuse := none }
    | none => none
  else none

def stepObtainBack (s : State) : Option State :=
  if s.pc = .obtain ∧ s.reuse = none then
    match s.back with
    | m :: rest =>
      some { s with pc := .submit 0, back := rest,
                    cur := some ⟨m.buf.id, resize m.buf.bytes P.maxPayload⟩ }
    | [] => none
  else none

def stepObtainAlloc (s : State) : Option State :=
  if s.pc = .obtain ∧ s.reuse = none ∧ s.back = [] then
    some { s with pc := .submit 0, nextBuf := s.nextBuf + 1,
                  cur := some ⟨s.nextBuf, List.replicate P.maxPayload 0⟩ }
  else none

def stepSubmitOk (s : State) : Option State :=
  match s.pc with
  | .submit k =>
    match P.layout[k]? with
    | some sl =>
      let s1 := { s with pending := s.pending ++ [Xfer.mk s.nextXfer sl], nextXfer := s.nextXfer + 1 }
      if k + 1 < P.T then some { s1 with pc := .submit (k + 1) }
      else some { s1 with pc := .poll, first := none, last := none, plen := 0, short := false, gap := false }
    | none => none
  | _ => none

/-- `submit` returns an error: `read_leader` (k = 0) reports only fatal classes, the other two
report everything; the buffer is kept for the next iteration in every case. -/
def stepSubmitFail (e : SErr) (s : State) : Option State :=
  match s.pc with
  | .submit k =>
    if k < P.T ∧ e ≠ .invalidPayload then
      let s1 := { s with reuse := s.cur, cur := none, faults := s.faults + 1 }
      if k = 0 ∧ e = .timeout then some { s1 with pc := .drop 0 }
      else some { s1 with pc := .send (.err e) }
    else none
  | _ => none

def stepPollOk (s : State) : Option State :=
  if s.pc = .poll then
    match s.pending, script[s.consumed]? with
    | x :: rest, some (.data d) =>
      if d.length ≤ x.slot.len then
        let s1 := gapUpd (account (applyData s x.slot d) d.length)
          (s.first.isSome && !rest.isEmpty) d.length x.slot.len
        some { s1 with pending := rest, consumed := s.consumed + 1, got := s.got ++ [d],
                       pc := if rest = [] then .parse else .poll }
      else none
    | _, _ => none
  else none

def stepPollOverflow (s : State) : Option State :=
  if s.pc = .poll then
    match s.pending, script[s.consumed]? with
    | x :: rest, some (.data d) =>
      if d.length ≤ x.slot.len then none
      else some { s with pending := rest, consumed := s.consumed + 1, faults := s.faults + 1,
                         pc := .send (.err .io) }
    | _, _ => none
  else none

def stepPollFault (s : State) : Option State :=
  if s.pc = .poll then
    match s.pending, script[s.consumed]? with
    | _ :: rest, some (.fault e) =>
      some { s with pending := rest, consumed := s.consumed + 1, faults := s.faults + 1,
                    pc := .send (.err e) }
    | _, _ => none
  else none

/-- The transfer did not complete within the timeout (environment event). -/
def stepPollPending (s : State) : Option State :=
  if s.pc = .poll then
    match s.pending with
    | _ :: _ => some { s with faults := s.faults + 1, pc := .send (.err .timeout) }
    | [] => none
  else none

/-- The event loop itself failed (`libusb_handle_events` error, `poll_completed(..)?`): `poll`
returns the error without reaping anything; the loop reports it and gives the frame up. -/
def stepPollErr (e : SErr) (s : State) : Option State :=
  if s.pc = .poll ∧ e ≠ .invalidPayload then
    match s.pending with
    | _ :: _ => some { s with faults := s.faults + 1, pc := .send (.err e) }
    | [] => none
  else none

/-- `payload_len - last_buf_len.unwrap()`, the gap check, `Leader::parse`, `Trailer::parse`,
block id check, `build`. -/
def stepParse (s : State) : Option State :=
  if s.pc = .parse then
    match s.last, s.cur with
    | some l, some b =>
      if l ≤ s.plen then
        let read := s.plen - l
        if s.gap then
          -- the payload transfers left a hole in the buffer: report, keep the buffer
          some { s with reuse := s.cur, cur := none, faults := s.faults + 1,
                        pc := .send (.err .invalidPayload) }
        else
        -- only the bytes received in this iteration are parsed
        let ll := min (s.first.getD 0) s.leaderBuf.length     -- `first_buf_len.unwrap_or(0).min(len)`
        let tl := min l s.trailerBuf.length
        match A (s.leaderBuf.take ll) (s.trailerBuf.take tl) b.bytes read with
        | .leaderErr | .trailerErr | .idMismatch =>
          some { s with reuse := s.cur, cur := none, faults := s.faults + 1,
                        pc := .send (.err .invalidPayload) }
        | .buildErr =>
          some { s with cur := none, freed := b.id :: s.freed, faults := s.faults + 1,
                        pc := .send (.err .invalidPayload) }
        | .built r =>
          some { s with cur := none,
                        pc := .send (.ok (OkMsg.mk b r.valid r.info s.iterStart read s.got)) }
        | .panic => some { s with pc := .dead, cur := none, freed := freeOpt (b.id :: s.freed) s.reuse,
                                  reuse := none, senderAlive := false }
      else some { s with pc := .dead, cur := none, freed := freeOpt (b.id :: s.freed) s.reuse,
                         reuse := none, senderAlive := false }
    | _, _ => some { s with pc := .dead, freed := freeOpt (freeOpt s.freed s.cur) s.reuse,
                            cur := none, reuse := none, senderAlive := false }
  else none

/-- `self.sender.try_send(m)`: enqueue, or drop `m` when the channel is full or closed. -/
def stepTrySend (s : State) : Option State :=
  match s.pc with
  | .send m =>
    if s.rxAlive ∧ s.chan.length < P.cap then
      match m with
      | .ok o => some { s with pc := .drop 0, chan := s.chan ++ [m], enq := true,
                               sentLog := s.sentLog ++ [o] }
      | .err _ => some { s with pc := .drop 0, chan := s.chan ++ [m] }
    else
      match m with
      | .ok o => some { s with pc := .drop 0, freed := o.buf.id :: s.freed, faults := s.faults + 1 }
      | .err _ => some { s with pc := .drop 0 }
  | _ => none

/-- `cancel_all`: reverse order, one transfer per step. -/
def stepCancelNext (s : State) : Option State :=
  match s.pc with
  | .drop c => if c < s.pending.length then some { s with pc := .drop (c + 1) } else none
  | _ => none

/-- `while !self.is_empty() { self.poll(1s).ok(); }`: the front transfer is cancelled and
completes with `Timeout`. -/
def stepReapOne (s : State) : Option State :=
  match s.pc with
  | .drop c =>
    match s.pending with
    | _ :: rest =>
      if c = s.pending.length then some { s with pc := .drop (c - 1), pending := rest, late := 0 } else none
    | [] => none
  | _ => none

/-- The same loop, but the front transfer had already failed when it was cancelled (e.g. the device
was unplugged: every pending transfer completes with NO_DEVICE): the cancel has no effect, the
poll reaps the transfer with ITS error status — which `Drop` ignores — and the loop goes on with
the next transfer. -/
def stepReapFault (s : State) : Option State :=
  match s.pc with
  | .drop c =>
    match s.pending, script[s.consumed]? with
    | _ :: rest, some (.fault _) =>
      if c = s.pending.length then
        some { s with pc := .drop (c - 1), pending := rest, consumed := s.consumed + 1, late := 0,
                      faults := s.faults + 1 }
      else none
    | _, _ => none
  | _ => none

/-- The same loop of `AsyncPool::drop`, but the completion of the cancelled front transfer has not
been reported yet (cancellation is asynchronous) or the event loop failed: `poll` returns an
error without reaping and the `while !self.is_empty()` loop polls again.  At most `maxLate` times per transfer (environment). -/
def stepReapLate (s : State) : Option State :=
  match s.pc with
  | .drop c =>
    if c = s.pending.length ∧ s.pending ≠ [] ∧ s.late < P.maxLate then some { s with late := s.late + 1 }
    else none
  | _ => none

/-- End of the loop body: `payload_buf` (if still owned) is freed. -/
def stepIterEnd (s : State) : Option State :=
  match s.pc with
  | .drop _ =>
    if s.pending = [] then some { s with pc := .top, cur := none, freed := freeOpt s.freed s.cur }
    else none
  | _ => none

/-- `run` returns: `payload_buf_opt`, `self.sender`, `self.cancellation_rx` are dropped. -/
def stepExit (s : State) : Option State :=
  if s.pc = .exiting then
    some { s with pc := .exited, reuse := none, freed := freeOpt s.freed s.reuse, senderAlive := false }
  else none

def stepRxRecv (s : State) : Option State :=
  if s.rxAlive then
    match s.chan with
    | .ok m :: rest => some { s with chan := rest, held := s.held ++ [m], recvLog := s.recvLog ++ [m] }
    | .err _ :: rest => some { s with chan := rest }
    | [] => none
  else none

/-- `try_recv` on an empty (or empty and closed) channel. -/
def stepRxNone (s : State) : Option State :=
  if s.rxAlive ∧ s.chan = [] then some s else none

def takeHeld (id : Nat) : List OkMsg → Option (OkMsg × List OkMsg)
  | [] => none
  | m :: rest =>
    if m.buf.id = id then some (m, rest)
    else match takeHeld id rest with
      | some (x, r) => some (x, m :: r)
      | none => none

/-- `PayloadReceiver::send_back`: `try_send(..).ok()`. -/
def stepRxSendBack (id : Nat) (s : State) : Option State :=
  if s.rxAlive then
    match takeHeld id s.held with
    | some (m, rest) =>
      if s.senderAlive ∧ s.back.length < P.bufCap then some { s with held := rest, back := s.back ++ [m] }
      else some { s with held := rest, freed := m.buf.id :: s.freed }
    | none => none
  else none

/-- `send_back` of a payload this loop did not produce (kept from an earlier session with another
layout, or from another camera): a buffer of arbitrary length and content enters the send-back
channel.  `stepObtainBack` resizes it. -/
def stepRxSendForeign (bs : Bytes) (s : State) : Option State :=
  if s.rxAlive then
    if s.senderAlive ∧ s.back.length < P.bufCap then
      some { s with nextBuf := s.nextBuf + 1,
                    back := s.back ++ [OkMsg.mk (Buf.mk s.nextBuf bs) 0 0 0 0 []] }
    else some { s with nextBuf := s.nextBuf + 1, freed := s.nextBuf :: s.freed }
  else none

def stepRxDrop (id : Nat) (s : State) : Option State :=
  match takeHeld id s.held with
  | some (m, rest) => some { s with held := rest, freed := m.buf.id :: s.freed }
  | none => none

def stepRxClose (s : State) : Option State :=
  if s.rxAlive then some { s with rxAlive := false } else none

/-- `stop_streaming_loop` is entered: `cancellation_tx.take()` clears the running flag. -/
def stepStopCall (s : State) : Option State :=
  if s.ctl = .running then some { s with ctl := .calling } else none

/-- `cancellation_tx.send(())`: fails at once when the loop thread is gone (receiver dropped),
otherwise the controller parks until the loop's `try_recv` takes the message. -/
def stepStopBlock (s : State) : Option State :=
  if s.ctl = .calling then
    if s.pc = .exited ∨ s.pc = .dead then some { s with ctl := .stopErr }
    else some { s with ctl := .stopping }
  else none

/-- The loop thread died while the controller was blocked: `send` returns `Err`. -/
def stepStopDisc (s : State) : Option State :=
  if s.ctl = .stopping ∧ s.pc = .dead then some { s with ctl := .stopErr } else none

/-- `StreamHandle::close` after its `stop_streaming_loop()?` succeeded: `self.inner.lock()` is
granted only once the loop thread has dropped its guard, i.e. has returned from `run`. -/
def stepCloseDone (s : State) : Option State :=
  if s.ctl = .stopOk ∧ s.pc = .exited then some { s with ctl := .closed } else none

def step (s : State) : Step → Option State
  | .checkCancel => stepCheckCancel s
  | .obtainReuse => stepObtainReuse s
  | .obtainBack => stepObtainBack P s
  | .obtainAlloc => stepObtainAlloc P s
  | .submitOk => stepSubmitOk P s
  | .submitFail e => stepSubmitFail P e s
  | .pollOk => stepPollOk script s
  | .pollOverflow => stepPollOverflow script s
  | .pollFault => stepPollFault script s
  | .pollPending => stepPollPending s
  | .pollErr e => stepPollErr e s
  | .parse => stepParse A s
  | .trySend => stepTrySend P s
  | .cancelNext => stepCancelNext s
  | .reapOne => stepReapOne s
  | .reapFault => stepReapFault script s
  | .reapLate => stepReapLate P s
  | .iterEnd => stepIterEnd s
  | .exit => stepExit s
  | .rxRecv => stepRxRecv s
  | .rxNone => stepRxNone s
  | .rxSendBack id => stepRxSendBack P id s
  | .rxSendForeign bs => stepRxSendForeign P bs s
  | .rxDrop id => stepRxDrop id s
  | .rxClose => stepRxClose s
  | .stopCall => stepStopCall s
  | .stopBlock => stepStopBlock s
  | .stopDisc => stepStopDisc s
  | .closeDone => stepCloseDone s

/-- Candidate steps of a state (parameters enumerated from the state). -/
def candidates (s : State) : List Step :=
  [.checkCancel, .obtainReuse, .obtainBack, .obtainAlloc, .submitOk,
   .submitFail .io, .submitFail .disconnected, .submitFail .timeout,
   .pollOk, .pollOverflow, .pollFault, .pollPending, .pollErr .io, .pollErr .disconnected,
   .pollErr .timeout, .rxSendForeign [], .parse, .trySend,
   .cancelNext, .reapOne, .reapFault, .reapLate, .iterEnd, .exit, .rxRecv, .rxNone, .rxClose, .stopCall, .stopBlock, .stopDisc, .closeDone]
  ++ s.held.map (fun m => .rxSendBack m.buf.id)
  ++ s.held.map (fun m => .rxDrop m.buf.id)

def enabled (s : State) : List Step :=
  (candidates s).filter fun a => (step P A script s a).isSome

/-- Run a schedule; `none` if some step is not enabled. -/
def run (s : State) : List Step → Option State
  | [] => some s
  | a :: as =>
    match step P A script s a with
    | some s' => run s' as
    | none => none

end

/-! ### Restart: a further session on the same handle -/

/-- `start_streaming_loop` may begin a new session once the previous one has been stopped (or the
handle closed) AND its loop thread has returned: the new loop thread first takes the receive-channel
lock, which the old one holds until it leaves `run`. -/
def canRestart (s : State) : Prop := s.pc = .exited ∧ (s.ctl = .stopOk ∨ s.ctl = .closed)

instance (s : State) : Decidable (canRestart s) := by unfold canRestart; exact inferInstance

/-- The state in which the next session starts, with new stream parameters `P'` (the layout may
change between sessions) and — as `Camera::start_streaming` does — a NEW pair of channels.
What carries over: the payloads the receiver still holds (it may hand them back in the new session,
as buffers of a foreign size), the buffer identities allocated so far, the freed set.  What the old
channels still contained is dropped with them.  Nothing is outstanding (`pc = exited`).
The per-session history (`sentLog`, `recvLog`, `faults`, device script position) starts afresh. -/
def restartState (P' : Params) (s : State) : State :=
  { init P' with
    nextBuf := s.nextBuf
    held := s.held
    freed := s.freed ++ s.chan.filterMap msgBufId ++ s.back.map (·.buf.id) }

/-- Reachability by arbitrary schedules over ANY NUMBER OF SESSIONS: `Reach P A script s` holds for
the states `s` of a session with parameters `P` and device script `script` that either is the first
one on the handle (`init`) or was started (`restart`) from a stopped/closed state reachable in an
earlier session with possibly other parameters and script. -/
inductive Reach (A : Assembler) : Params → List Item → State → Prop where
  | init {P : Params} {script : List Item} : Reach A P script (init P)
  | restart {P0 P : Params} {script0 script : List Item} {s0 : State} :
      Reach A P0 script0 s0 → canRestart s0 → Reach A P script (restartState P s0)
  | step {P : Params} {script : List Item} {s s' : State} {a : Step} :
      Reach A P script s → step P A script s a = some s' → Reach A P script s'

end CamVerif.StreamLoop
