/-
C04 — registers whose cache key varies between accesses (node-valued `<pLength>` /
`<pAddress>`), at the level of the register primitives.

`RegisterBase::{with_cache_or_read, write_and_cache}` (`genapi/src/register_base.rs:69-139`)
evaluate `length` and `address` at every access and then run exactly the code the primitives
`Cache.cachedRead` / `Cache.writeAt` model, with that `(address, length)` as the key.  When the
sources of length and address are value-store nodes (`<Integer><Value>…`), evaluating them
touches neither the device nor the cache, so an access of such a register IS one primitive step
at the key the sources hold at that moment.  `KStep` is that step; the harness' dyn-key stream
drives the real code with such descriptions and compares (results, image, log) with `runKSteps`
for both cache implementations.

Imports core only (linked into the driver).
-/
import CamVerif.Model.Cache
namespace CamVerif.Cache

/-- one access of a register at the key its sources yield now -/
inductive KStep where
  /-- `IInteger::value` of an IntReg: `with_cache_or_read` at `(a, len)`, then `int_from_slice` -/
  | value (n : NodeId) (a : Int) (len : Nat)
  /-- `IRegister::write` of `data` while the register's length is `data.length` -/
  | write (n : NodeId) (a : Int) (data : Bytes)
  /-- `IRegister::read` with a buffer of the register's current length -/
  | read (n : NodeId) (a : Int) (len : Nat)
  | clear
  /-- an operation that touches neither the cache nor the device (`set_value` of a value-store
  node: the way the key sources change) -/
  | skip
  deriving Repr, DecidableEq, Inhabited

section
variable {κ : Type} (ops : CacheOps κ) (g : Graph)

def runKStep : KStep → M κ Val
  | .value n a len =>
    match g[n]? with
    | some (.reg r) =>
      match r.kind with
      | .int e s => do
        let bs ← cachedRead ops g n { r with len := len } a
        let v ← M.lift (intFromSlice bs e s)
        M.pure (.int v)
      | _ => M.fail .invalidNode
    | _ => M.fail .invalidNode
  | .write n a data =>
    match g[n]? with
    | some (.reg r) => do
      writeAt ops g n { r with len := data.length } a data
      M.pure .unit
    | _ => M.fail .invalidNode
  | .read n a len =>
    match g[n]? with
    | some (.reg r) => do
      let bs ← readAndCache ops g n { r with len := len } a len
      M.pure (.bytes bs)
    | _ => M.fail .invalidNode
  | .clear => do
    clearCache ops
    M.pure .unit
  | .skip => M.pure .unit

/-- a sequence of accesses; a panic ends it -/
def runKSteps : St κ → List KStep → List (R Val) × St κ
  | s, [] => ([], s)
  | s, k :: rest =>
    match runKStep ops g k s with
    | (.panic, s') => ([.panic], s')
    | (r, s') =>
      let (rs, s'') := runKSteps s' rest
      (r :: rs, s'')

end

/-- every cachable register lists every OTHER register of the description or that register's
port (decidable).  A register need not list itself: since the repair of F-C04-4 a write drops
every cache entry of the writing register, under whatever key. -/
def allListedB (g : Graph) : Bool :=
  (List.range g.length).all fun t => (List.range g.length).all fun w =>
    match g[t]?, g[w]? with
    | some (.reg rt), some (.reg rw) =>
      decide (t = w) || rt.mode == .noCache || rt.invs.contains w || rt.invs.contains rw.port
    | _, _ => true

end CamVerif.Cache
