/-
C15 growth: the negotiated limits inside the model.

`Model/Streaming.lean` sees the device at the level "one register access = one command", which is
what `ControlHandle::{read,write}` do when the negotiated `maximum_cmd_length` /
`maximum_ack_length` admit an 8 byte access (max_cmd >= 24, max_ack >= 20).  This file models the
layer in between for EVERY pair of limits:

* `ControlHandle::read` (`control_handle.rs`): `ReadMem::new(address, 0).chunks(max_ack)` fails
  (`Io`) when `max_ack <= 12` (acknowledge header), the buffer is cut into pieces of
  `maximum_read_length = min(max_ack - 12, u16::MAX)` bytes, and every piece is one `ReadMem`
  command of 24 bytes which `send_cmd` refuses WITHOUT sending (`Io`) when `24 > max_cmd`;
* `ControlHandle::write`: an empty slice sends nothing; `WriteMem::chunks(max_cmd)` fails (`Io`)
  when `max_cmd <= 20` (command header + address), the data is cut into pieces of `max_cmd - 20`
  bytes (`WriteMemChunks::next`: a full piece while more than that is left, then the rest), every
  piece one `WriteMem` command (always fits).  (The outer split into blocks of 65527 bytes has a
  single iteration for the 4 byte register writes of this model.)

The register-level code of `Model/Streaming.lean` is restated once, generically in the two
primitives (`Prim`): `Prim.single` gives back the definitions of `Model/Streaming.lean`
definitionally (`*_single` theorems in `Proofs/C15Limits.lean`, by `rfl`), `Prim.limits L` is the
handle with negotiated limits `L`.  One device command = one entry of the access log = one entry
of the fault schedule, as in the harness.
-/
import CamVerif.Model.Streaming
namespace CamVerif.Streaming

/-- `ConnectionConfig::{maximum_cmd_length, maximum_ack_length}` after `open`. -/
structure Limits where
  maxCmd : Nat
  maxAck : Nat
  deriving Repr, DecidableEq

/-- the `buf.chunks_mut(m)` loop of `ControlHandle::read`: `n` bytes left to read from `a`
(fuel = `n`; every round reads at least one byte because `m >= 1`). -/
def readLoopL (L : Limits) (m : Nat) : Nat → Nat → Nat → M Bytes
  | 0, _, _ => pure []
  | fuel + 1, a, n =>
    if n = 0 then pure [] else
    -- `send_cmd`: `cmd_len (= 24) > maximum_cmd_length` ⇒ `Io`, nothing is sent
    if L.maxCmd < 24 then M.fail .io else do
      let bs ← devRead a (min m n)
      let rest ← readLoopL L m fuel (a + min m n) (n - min m n)
      pure (bs ++ rest)

/-- `ControlHandle::read(a, buf)` with `buf.len() = n` under the limits `L`
(after `verify_address_range`, which the callers do). -/
def devReadL (L : Limits) (a n : Nat) : M Bytes :=
  if L.maxAck ≤ 12 then M.fail .io
  else readLoopL L (min (L.maxAck - 12) 65535) n a n

/-- the `cmd.chunks(maximum_cmd_length)` loop of `ControlHandle::write` with
`maximum_data_len = d` (fuel = number of bytes left). -/
def writeLoopL (d : Nat) : Nat → Nat → Bytes → M Unit
  | 0, _, _ => pure ()
  | fuel + 1, a, data =>
    if data.length = 0 then pure () else
    if d < data.length then do
      devWrite a (data.take d)
      writeLoopL d fuel (a + d) (data.drop d)
    else devWrite a data

/-- `ControlHandle::write(a, data)` under the limits `L` (single block: `data.len() <= 65527`). -/
def devWriteL (L : Limits) (a : Nat) (data : Bytes) : M Unit :=
  if data.length = 0 then pure ()
  else if L.maxCmd ≤ 20 then M.fail .io
  else writeLoopL (L.maxCmd - 20) data.length a data

/-- the two device primitives the register-level code is written in -/
structure Prim where
  rd : Nat → Nat → M Bytes
  wr : Nat → Bytes → M Unit

/-- one register access = one command (`Model/Streaming.lean`) -/
def Prim.single : Prim := ⟨devRead, devWrite⟩
/-- the handle with negotiated limits `L` -/
def Prim.limits (L : Limits) : Prim := ⟨devReadL L, devWriteL L⟩

/-! ## The register-level code, generic in the primitives (same text as `Model/Streaming.lean`) -/

def readRegG (π : Prim) (base off len : Nat) : M Nat := do
  let a ← M.lift (regAddr base off)
  M.lift (verifyRange a len)
  let bs ← π.rd a len
  pure (fromLE bs)

def writeReg32G (π : Prim) (base off v : Nat) : M Unit := do
  let a ← M.lift (regAddr base off)
  M.lift (verifyRange a 4)
  π.wr a (toLE 4 v)

def getSbrmG (π : Prim) : M (Nat × Nat) := do
  let st ← M.get
  match st.sbrm with
  | some x => pure x
  | none => do
    let addr ← readRegG π 0 ABRM_SBRM_ADDRESS 8
    let cap ← readRegG π addr SBRM_U3VCP_CAPABILITY 8
    setSbrmCache (addr, cap)
    pure (addr, cap)

def getSirmG (π : Prim) : M Nat := do
  let st ← M.get
  match st.sirm with
  | some a => pure a
  | none => do
    let (sb, cap) ← getSbrmG π
    if cap % 2 = 1 then do
      let a ← readRegG π sb SBRM_SIRM_ADDRESS 8
      setSirmCache a
      pure a
    else M.fail .invalidDevice

def readInputsG (π : Prim) (s : Nat) : M Inputs := do
  let ctrl ← readRegG π s SI_CONTROL 4
  if ctrl % 2 = 1 then writeReg32G π s SI_CONTROL 0 else pure ()
  let info ← readRegG π s SI_INFO 4
  let align ← M.lift (payloadSizeAlignment info)
  let align ← M.lift (alignmentU32 align)
  let reqLeader ← readRegG π s REQUIRED_LEADER_SIZE 4
  let reqPayload ← readRegG π s REQUIRED_PAYLOAD_SIZE 8
  let reqTrailer ← readRegG π s REQUIRED_TRAILER_SIZE 4
  pure ⟨align, reqLeader, reqPayload, reqTrailer⟩

def writeAllG (π : Prim) (s : Nat) : List (Nat × Nat) → M Unit
  | [] => pure ()
  | (off, v) :: rest => do
    writeReg32G π s off v
    writeAllG π s rest

def prepareAtG (π : Prim) (p : Profile) (s : Nat) : M Unit := do
  let i ← readInputsG π s
  let sz ← M.lift (computeSizes p i.align i.reqLeader i.reqPayload i.reqTrailer)
  writeAllG π s (sizeWrites sz)

def enableAtG (π : Prim) (p : Profile) (s : Nat) : M Unit := do
  prepareAtG π p s
  writeReg32G π s SI_CONTROL 1

def enableStreamingG (π : Prim) (p : Profile) : M Unit := do
  let s ← getSirmG π
  enableAtG π p s

def disableStreamingG (π : Prim) : M Unit := do
  let s ← getSirmG π
  writeReg32G π s SI_CONTROL 0

def fromControlG (π : Prim) : M StreamParams := do
  let _cap ← readRegG π 0 ABRM_DEVICE_CAPABILITY 8
  let sb ← readRegG π 0 ABRM_SBRM_ADDRESS 8
  let cap ← readRegG π sb SBRM_U3VCP_CAPABILITY 8
  if cap % 2 = 1 then do
    let s ← readRegG π sb SBRM_SIRM_ADDRESS 8
    let leader ← readRegG π s MAXIMUM_LEADER_SIZE 4
    let trailer ← readRegG π s MAXIMUM_TRAILER_SIZE 4
    let size ← readRegG π s PAYLOAD_TRANSFER_SIZE_REG 4
    let count ← readRegG π s PAYLOAD_TRANSFER_COUNT 4
    let f1 ← readRegG π s PAYLOAD_FINAL_TRANSFER1_SIZE 4
    let f2 ← readRegG π s PAYLOAD_FINAL_TRANSFER2_SIZE 4
    let t ← readRegG π 0 ABRM_MAXIMUM_DEVICE_RESPONSE_TIME 4
    pure ⟨leader, trailer, size, count, f1, f2, t⟩
  else M.fail .invalidDevice

def startStreamingLoopG (π : Prim) (sh : StreamHandle) (st : St) :
    Res StreamErr StreamParams × StreamHandle × St :=
  match fromControlG π st with
  | (.ok sp, st') =>
    if sh.running then (.err .inStreaming, { sh with params := sp }, st')
    else (.ok sp, ⟨sp, true⟩, st')
  | (.err _, st') => (.err .io, sh, st')
  | (.panic, st') => (.panic, sh, st')

end CamVerif.Streaming
