/-
Hand-written executable model of

* `cameleon/src/u3v/control_handle.rs` — `ControlHandle::{sbrm, sirm, enable_streaming,
  disable_streaming}` (the part above `DeviceControl::{read,write}`),
* `cameleon/src/u3v/register_map.rs`   — the `Sirm` accessors / setters used there,
  `payload_size_alignment`, `register_address`, the u32/u64 LE codecs,
* `cameleon/src/u3v/stream_handle.rs`  — `StreamParams::{from_control, maximum_payload_size}`.

The device is seen at the level of `DeviceControl::read/write` of the *opened* handle
(`Abrm` already cached by `open`): one register access = one device command (true whenever the
negotiated command/ack lengths admit an 8 byte access, which is an assumption of C15; chunking
itself is C06/C10).  The device is a byte image with a `mapped` predicate (a conforming device
answers an access outside its map with an error status), an access log and a *fault schedule*:
the head of `faults` decides the fate of the next access (`none` = served).

Machine integers are `Nat` carriers; `u32`/`u64`/`usize` wrap/overflow is explicit through the
Prelude's profile-aware `addW/subW/mulW` (`usize` = 64 bit).

Tied to the source by `harness/src/bin/c15.rs` (the real calls on a scripted in-memory USB
endpoint; access order, final SIRM image and result are diffed).
-/
import CamVerif.Prelude.Basic
namespace CamVerif.Streaming

/-- `ControlError` variant (payload text dropped). -/
inductive Err where
  | io
  | busy
  | disconnected
  | timeout
  | invalidDevice
  | invalidData
  deriving Repr, DecidableEq, Inhabited

abbrev R := Res Err

/-! ## Device -/

/-- How a faulted access ends: the error the host sees, and (for writes) whether the device
nevertheless performed it (`applied = true`: acknowledge lost after execution). -/
structure Fault where
  err : Err
  applied : Bool
  deriving Repr, DecidableEq

structure Mem where
  byte : Nat → UInt8
  mapped : Nat → Bool

def Mem.rangeMapped (m : Mem) (a n : Nat) : Bool :=
  (List.range n).all fun i => m.mapped (a + i)

def Mem.read (m : Mem) (a n : Nat) : Bytes :=
  (List.range n).map fun i => m.byte (a + i)

def Mem.write (m : Mem) (a : Nat) (d : Bytes) : Mem :=
  { m with byte := fun x =>
      if a ≤ x then
        match d[x - a]? with
        | some b => b
        | none => m.byte x
      else m.byte x }

/-- One attempted device access.  `ok`: the host got a success acknowledge.  `applied`
(writes): the device image was modified. -/
inductive Access where
  | r (addr len : Nat) (ok : Bool)
  | w (addr : Nat) (data : Bytes) (ok : Bool) (applied : Bool)
  deriving Repr, DecidableEq

structure Dev where
  mem : Mem
  /-- chronological -/
  log : List Access
  faults : List (Option Fault)

def popFault : List (Option Fault) → Option Fault × List (Option Fault)
  | [] => (none, [])
  | f :: fs => (f, fs)

/-- `DeviceControl::read(addr, buf)` with `buf.len() = n` (single command). -/
def Dev.read (d : Dev) (a n : Nat) : R Bytes × Dev :=
  match popFault d.faults with
  | (some f, rest) => (.err f.err, { d with faults := rest, log := d.log ++ [.r a n false] })
  | (none, rest) =>
    if d.mem.rangeMapped a n then
      (.ok (d.mem.read a n), { d with faults := rest, log := d.log ++ [.r a n true] })
    else
      (.err .io, { d with faults := rest, log := d.log ++ [.r a n false] })

/-- `DeviceControl::write(addr, data)` (single command). -/
def Dev.write (d : Dev) (a : Nat) (data : Bytes) : R Unit × Dev :=
  match popFault d.faults with
  | (some f, rest) =>
    if f.applied && d.mem.rangeMapped a data.length then
      (.err f.err, { mem := d.mem.write a data, faults := rest,
                     log := d.log ++ [.w a data false true] })
    else
      (.err f.err, { d with faults := rest, log := d.log ++ [.w a data false false] })
  | (none, rest) =>
    if d.mem.rangeMapped a data.length then
      (.ok (), { mem := d.mem.write a data, faults := rest,
                 log := d.log ++ [.w a data true true] })
    else
      (.err .io, { d with faults := rest, log := d.log ++ [.w a data false false] })

/-! ## Handle state and the sequencing monad -/

/-- The opened `ControlHandle`: the device plus the `sbrm` / `sirm` caches
(`abrm` is cached by `open`; ABRM is at address 0). -/
structure St where
  dev : Dev
  /-- `ControlHandle::sbrm` cache: (SBRM address, U3VCP capability word). -/
  sbrm : Option (Nat × Nat)
  /-- `ControlHandle::sirm` cache: SIRM address. -/
  sirm : Option Nat

def M (α : Type) : Type := St → R α × St

namespace M
variable {α β : Type}

@[inline] def pure (a : α) : M α := fun s => (.ok a, s)

@[inline] def bind (x : M α) (f : α → M β) : M β := fun s =>
  match x s with
  | (.ok a, s') => f a s'
  | (.err e, s') => (.err e, s')
  | (.panic, s') => (.panic, s')

instance : Monad M where
  pure := M.pure
  bind := M.bind

/-- a pure (device-free) computation -/
@[inline] def lift (r : R α) : M α := fun s => (r, s)

@[inline] def fail (e : Err) : M α := fun s => (.err e, s)

end M

def devRead (a n : Nat) : M Bytes := fun s =>
  let (r, d) := s.dev.read a n
  (r, { s with dev := d })

def devWrite (a : Nat) (data : Bytes) : M Unit := fun s =>
  let (r, d) := s.dev.write a data
  (r, { s with dev := d })

/-! ## Register map (`device/src/u3v/register_map.rs` offsets) -/

def ABRM_DEVICE_CAPABILITY : Nat := 0x01C4
def ABRM_MAXIMUM_DEVICE_RESPONSE_TIME : Nat := 0x01CC
def ABRM_SBRM_ADDRESS : Nat := 0x01D8
def SBRM_U3VCP_CAPABILITY : Nat := 0x0004
def SBRM_SIRM_ADDRESS : Nat := 0x0020
def SI_INFO : Nat := 0x00
def SI_CONTROL : Nat := 0x04
def REQUIRED_PAYLOAD_SIZE : Nat := 0x08
def REQUIRED_LEADER_SIZE : Nat := 0x10
def REQUIRED_TRAILER_SIZE : Nat := 0x14
def MAXIMUM_LEADER_SIZE : Nat := 0x18
def PAYLOAD_TRANSFER_SIZE_REG : Nat := 0x1C
def PAYLOAD_TRANSFER_COUNT : Nat := 0x20
def PAYLOAD_FINAL_TRANSFER1_SIZE : Nat := 0x24
def PAYLOAD_FINAL_TRANSFER2_SIZE : Nat := 0x28
def MAXIMUM_TRAILER_SIZE : Nat := 0x2C
/-- one past the last SIRM register used -/
def SIRM_LEN : Nat := 0x30

/-- `register_address`: `base.checked_add(offset)` or `InvalidDevice`. -/
def regAddr (base off : Nat) : R Nat :=
  if base + off < 2 ^ 64 then .ok (base + off) else .err .invalidDevice

/-- `verify_address_range` of `ControlHandle::{read,write}`: the whole range must lie in the
64 bit address space, otherwise `InvalidData` without any device access. -/
def verifyRange (a len : Nat) : R Unit :=
  if len = 0 ∨ a + (len - 1) < 2 ^ 64 then .ok () else .err .invalidData

/-- `<map>.read_register::<uN>` : address, one device read of `len` bytes, LE decode. -/
def readReg (base off len : Nat) : M Nat := do
  let a ← M.lift (regAddr base off)
  M.lift (verifyRange a len)
  let bs ← devRead a len
  pure (fromLE bs)

/-- `Sirm::write_register(.., value: u32)`. -/
def writeReg32 (base off v : Nat) : M Unit := do
  let a ← M.lift (regAddr base off)
  M.lift (verifyRange a 4)
  devWrite a (toLE 4 v)

/-- current handle state -/
@[inline] def M.get : M St := fun s => (.ok s, s)

def setSbrmCache (x : Nat × Nat) : M Unit := fun s => (.ok (), { s with sbrm := some x })
def setSirmCache (a : Nat) : M Unit := fun s => (.ok (), { s with sirm := some a })

/-- `ControlHandle::sbrm` (with `abrm` cached): `Abrm::sbrm_address`, `Sbrm::new`. -/
def getSbrm : M (Nat × Nat) := do
  let st ← M.get
  match st.sbrm with
  | some x => pure x
  | none => do
    let addr ← readReg 0 ABRM_SBRM_ADDRESS 8
    let cap ← readReg addr SBRM_U3VCP_CAPABILITY 8
    setSbrmCache (addr, cap)
    pure (addr, cap)

/-- `ControlHandle::sirm`: `Sbrm::sirm_address` is `None` unless capability bit 0 is set. -/
def getSirm : M Nat := do
  let st ← M.get
  match st.sirm with
  | some a => pure a
  | none => do
    let (sb, cap) ← getSbrm
    if cap % 2 = 1 then do
      let a ← readReg sb SBRM_SIRM_ADDRESS 8
      setSirmCache a
      pure a
    else M.fail .invalidDevice

/-! ## The arithmetic of `enable_streaming` -/

/-- `PAYLOAD_TRANSFER_SIZE: u32 = 1024 * 64` -/
def PAYLOAD_TRANSFER_SIZE : Nat := 1024 * 64

/-- `!m` on a `w`-bit unsigned integer. -/
def notW (w m : Nat) : Nat := 2 ^ w - 1 - m

/-- `u32::try_from(payload_alignment)`: the size registers are 32 bits wide. -/
def alignmentU32 (align : Nat) : R Nat :=
  if align < 2 ^ 32 then .ok align else .err .invalidDevice

/-- the closure `align`: `size.checked_add(alignment_mask).map(|s| s & !alignment_mask)`,
`None` ⇒ `InvalidDevice`. -/
def alignU32 (mask x : Nat) : R Nat :=
  if x + mask < 2 ^ 32 then .ok ((x + mask) &&& notW 32 mask) else .err .invalidDevice

structure Sizes where
  transferSize : Nat
  transferCount : Nat
  final1 : Nat
  final2 : Nat
  maxLeader : Nat
  maxTrailer : Nat
  deriving Repr, DecidableEq

/-- The straight-line `let` chain between the device reads and the device writes, as a
function of the values read (`align : u32` after the checked conversion, leader/trailer `u32`,
payload `u64`).  (`alignment_mask` is computed right after the conversion in the source; it
cannot fail there because the alignment is `1 << exponent >= 1`.) -/
def computeSizes (p : Profile) (align reqLeader reqPayload reqTrailer : Nat) : R Sizes := do
  let mask ← subW p 32 align 1                          -- `payload_alignment - 1`
  let ts ← alignU32 mask PAYLOAD_TRANSFER_SIZE
  -- `required_payload_size / payload_transfer_size as u64`: division by zero panics in every profile
  if ts = 0 then .panic else
  -- `u32::try_from(..)` of the transfer count
  if ¬ reqPayload / ts < 2 ^ 32 then .err .invalidDevice else do
    let count := reqPayload / ts
    -- `((required % size) + mask as u64) & !(mask as u64)) as u32`
    let s ← addW p 64 (reqPayload % ts) mask
    let f1 := (s &&& notW 64 mask) % 2 ^ 32
    let ml ← if reqLeader = 0 then pure ts else alignU32 mask reqLeader
    let mt ← if reqTrailer = 0 then pure ts else alignU32 mask reqTrailer
    pure ⟨ts, count, f1, 0, ml, mt⟩

/-- `Sirm::payload_size_alignment`: `1_usize.checked_shl(si_info >> 24)`. -/
def payloadSizeAlignment (siInfo : Nat) : R Nat :=
  let e := siInfo / 2 ^ 24
  if e < 64 then .ok (2 ^ e) else .err .invalidDevice

/-! ## `enable_streaming` / `disable_streaming`

The body of `enable_streaming` is straight-line code; it is written here as three named
segments (device reads incl. the conditional disable, the pure arithmetic, the seven register
writes) bound in sequence. -/

/-- The values read from the device (`align` = `payload_size_alignment`). -/
structure Inputs where
  align : Nat
  reqLeader : Nat
  reqPayload : Nat
  reqTrailer : Nat
  deriving Repr, DecidableEq

/-- `is_stream_enable` / conditional `disable_stream`, then the four reads. -/
def readInputs (s : Nat) : M Inputs := do
  let ctrl ← readReg s SI_CONTROL 4
  if ctrl % 2 = 1 then writeReg32 s SI_CONTROL 0 else pure ()
  let info ← readReg s SI_INFO 4
  let align ← M.lift (payloadSizeAlignment info)
  let align ← M.lift (alignmentU32 align)
  let reqLeader ← readReg s REQUIRED_LEADER_SIZE 4
  let reqPayload ← readReg s REQUIRED_PAYLOAD_SIZE 8
  let reqTrailer ← readReg s REQUIRED_TRAILER_SIZE 4
  pure ⟨align, reqLeader, reqPayload, reqTrailer⟩

/-- consecutive `Sirm::set_*` calls: (register offset, u32 value), stopping at the first error -/
def writeAll (s : Nat) : List (Nat × Nat) → M Unit
  | [] => pure ()
  | (off, v) :: rest => do
    writeReg32 s off v
    writeAll s rest

/-- the six size registers in program order -/
def sizeWrites (sz : Sizes) : List (Nat × Nat) :=
  [(PAYLOAD_TRANSFER_SIZE_REG, sz.transferSize), (PAYLOAD_TRANSFER_COUNT, sz.transferCount),
   (PAYLOAD_FINAL_TRANSFER1_SIZE, sz.final1), (PAYLOAD_FINAL_TRANSFER2_SIZE, sz.final2),
   (MAXIMUM_LEADER_SIZE, sz.maxLeader), (MAXIMUM_TRAILER_SIZE, sz.maxTrailer)]

/-- everything before the final `enable_stream` -/
def prepareAt (p : Profile) (s : Nat) : M Unit := do
  let i ← readInputs s
  let sz ← M.lift (computeSizes p i.align i.reqLeader i.reqPayload i.reqTrailer)
  writeAll s (sizeWrites sz)

/-- `enable_streaming` once the SIRM address is resolved -/
def enableAt (p : Profile) (s : Nat) : M Unit := do
  prepareAt p s
  writeReg32 s SI_CONTROL 1

def enableStreaming (p : Profile) : M Unit := do
  let s ← getSirm
  enableAt p s

def disableStreaming : M Unit := do
  let s ← getSirm
  writeReg32 s SI_CONTROL 0

/-! ## `StreamParams` -/

structure StreamParams where
  leaderSize : Nat
  trailerSize : Nat
  payloadSize : Nat
  payloadCount : Nat
  payloadFinal1Size : Nat
  payloadFinal2Size : Nat
  timeoutMs : Nat
  deriving Repr, DecidableEq

/-- `StreamParams::from_control` (does not use the handle's caches: `Abrm::new`,
`abrm.sbrm`, `sbrm.sirm` are re-read). -/
def fromControl : M StreamParams := do
  let _cap ← readReg 0 ABRM_DEVICE_CAPABILITY 8
  let sb ← readReg 0 ABRM_SBRM_ADDRESS 8
  let cap ← readReg sb SBRM_U3VCP_CAPABILITY 8
  if cap % 2 = 1 then do
    let s ← readReg sb SBRM_SIRM_ADDRESS 8
    let leader ← readReg s MAXIMUM_LEADER_SIZE 4
    let trailer ← readReg s MAXIMUM_TRAILER_SIZE 4
    let size ← readReg s PAYLOAD_TRANSFER_SIZE_REG 4
    let count ← readReg s PAYLOAD_TRANSFER_COUNT 4
    let f1 ← readReg s PAYLOAD_FINAL_TRANSFER1_SIZE 4
    let f2 ← readReg s PAYLOAD_FINAL_TRANSFER2_SIZE 4
    let t ← readReg 0 ABRM_MAXIMUM_DEVICE_RESPONSE_TIME 4
    pure ⟨leader, trailer, size, count, f1, f2, t⟩
  else M.fail .invalidDevice

/-- `StreamParams::maximum_payload_size` (`usize` arithmetic). -/
def StreamParams.maximumPayloadSize (p : Profile) (sp : StreamParams) : R Nat := do
  let a ← mulW p 64 sp.payloadSize sp.payloadCount
  let b ← addW p 64 a sp.payloadFinal1Size
  addW p 64 b sp.payloadFinal2Size

/-! ## `StreamHandle` (the part C15 speaks about: which parameters the receive loop runs with) -/

/-- `StreamError` variants that `start_streaming_loop` can return -/
inductive StreamErr where
  | io
  | inStreaming
  deriving Repr, DecidableEq

/-- `StreamHandle`: its `params` field and whether a receive loop is running
(`cancellation_tx.is_some()`). -/
structure StreamHandle where
  params : StreamParams
  running : Bool
  deriving Repr, DecidableEq

/-- `StreamHandle::new`: `StreamParams::default()`, no loop -/
def StreamHandle.new : StreamHandle := ⟨⟨0, 0, 0, 0, 0, 0, 0⟩, false⟩

/-- `StreamHandle::start_streaming_loop(sender, ctrl)`: the parameters are read back from the
device with `StreamParams::from_control` on EVERY start (failure ⇒ `StreamError::Io`), stored in
the handle, then `InStreaming` if a loop is already running; otherwise the loop thread is spawned
with a clone of exactly these parameters — the returned value. -/
def startStreamingLoop (sh : StreamHandle) (st : St) : Res StreamErr StreamParams × StreamHandle × St :=
  match fromControl st with
  | (.ok sp, st') =>
    if sh.running then (.err .inStreaming, { sh with params := sp }, st')
    else (.ok sp, ⟨sp, true⟩, st')
  | (.err _, st') => (.err .io, sh, st')
  | (.panic, st') => (.panic, sh, st')

/-- `stop_streaming_loop` -/
def stopStreamingLoop (sh : StreamHandle) : StreamHandle := { sh with running := false }

end CamVerif.Streaming
