/-
C01 — `String::from_utf8_lossy` as used by `StringRegNode::value` (`string_reg.rs`):

    let str_end = data.iter().position(|c| *c == 0).unwrap_or(data.len());
    Ok(String::from_utf8_lossy(&data[..str_end]).to_string())

Executable model of the standard library's lossy decoder (`core::str::lossy::Utf8Chunks`,
documented behaviour: every MAXIMAL INVALID SUBPART is replaced by one U+FFFD).  The decoder
walks the bytes; at a lead byte it consumes continuation bytes only as long as they keep the
sequence a prefix of a well-formed one (second-byte ranges exclude overlongs `E0 80..9F`,
`F0 80..8F`, surrogates `ED A0..BF` and code points above U+10FFFF `F4 90..`); on the first
byte that does not fit, the bytes consumed so far are replaced by U+FFFD and decoding resumes
AT the offending byte.  The result is given as the UTF-8 bytes of the `String`.

Core only (linked into the driver).  Tied to std by the differential (`str.value` answers
carry the bytes of the returned `String`).
-/
import CamVerif.Model.Reg
namespace CamVerif.Reg

/-- UTF-8 encoding of U+FFFD REPLACEMENT CHARACTER -/
def replacement : Bytes := [0xEF, 0xBF, 0xBD]

/-- continuation byte `10xxxxxx` -/
def isCont (b : UInt8) : Bool := 0x80 ≤ b && b ≤ 0xBF

/-- admissible second byte after a three-byte lead `E0..EF` -/
def second3 (b c : UInt8) : Bool :=
  (b == 0xE0 && 0xA0 ≤ c && c ≤ 0xBF) ||
  (0xE1 ≤ b && b ≤ 0xEC && 0x80 ≤ c && c ≤ 0xBF) ||
  (b == 0xED && 0x80 ≤ c && c ≤ 0x9F) ||
  (0xEE ≤ b && b ≤ 0xEF && 0x80 ≤ c && c ≤ 0xBF)

/-- admissible second byte after a four-byte lead `F0..F4` -/
def second4 (b c : UInt8) : Bool :=
  (b == 0xF0 && 0x90 ≤ c && c ≤ 0xBF) ||
  (0xF1 ≤ b && b ≤ 0xF3 && 0x80 ≤ c && c ≤ 0xBF) ||
  (b == 0xF4 && 0x80 ≤ c && c ≤ 0x8F)

/-- `String::from_utf8_lossy(bytes)` as UTF-8 bytes.  `fuel` bounds the number of decoding
steps; every step consumes at least one byte, so `bytes.length` suffices (`utf8Lossy`). -/
def utf8LossyAux : Nat → Bytes → Bytes
  | 0, _ => []
  | _, [] => []
  | fuel + 1, b :: rest =>
    if b < 0x80 then b :: utf8LossyAux fuel rest
    else if 0xC2 ≤ b && b ≤ 0xDF then
      match rest with
      | c :: r1 =>
        if isCont c then b :: c :: utf8LossyAux fuel r1 else replacement ++ utf8LossyAux fuel rest
      | [] => replacement
    else if 0xE0 ≤ b && b ≤ 0xEF then
      match rest with
      | c :: r1 =>
        if second3 b c then
          match r1 with
          | d :: r2 =>
            if isCont d then b :: c :: d :: utf8LossyAux fuel r2
            else replacement ++ utf8LossyAux fuel r1
          | [] => replacement
        else replacement ++ utf8LossyAux fuel rest
      | [] => replacement
    else if 0xF0 ≤ b && b ≤ 0xF4 then
      match rest with
      | c :: r1 =>
        if second4 b c then
          match r1 with
          | d :: r2 =>
            if isCont d then
              match r2 with
              | e :: r3 =>
                if isCont e then b :: c :: d :: e :: utf8LossyAux fuel r3
                else replacement ++ utf8LossyAux fuel r2
              | [] => replacement
            else replacement ++ utf8LossyAux fuel r1
          | [] => replacement
        else replacement ++ utf8LossyAux fuel rest
      | [] => replacement
    else
      -- `80..C1`, `F5..FF`: never a lead byte
      replacement ++ utf8LossyAux fuel rest

/-- `String::from_utf8_lossy(bytes)` as the UTF-8 bytes of the resulting `String` -/
def utf8Lossy (bs : Bytes) : Bytes := utf8LossyAux bs.length bs

/-- `IString::value` of `StringRegNode` as the UTF-8 bytes of the returned `String`:
`from_utf8_lossy` of the bytes before the first NUL (`StringReg.value` returns that prefix). -/
def StringReg.valueString (port : Port) (address length : Int) (d : Dev) : R Bytes × Dev :=
  match StringReg.value port address length d with
  | (.ok pre, d') => (.ok (utf8Lossy pre), d')
  | (.err e, d') => (.err e, d')
  | (.panic, d') => (.panic, d')

end CamVerif.Reg
