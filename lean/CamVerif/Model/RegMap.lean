/-
C13 — executable model of `cameleon/src/u3v/register_map.rs` (state after the `fix:`
commits 87c44b2, da8583f, a9ca270, 4612888, 2f80436):

* the `DeviceControl` it talks to: a byte memory over the 64-bit address space with an
  access log; the device rejects every access when `broken` and any access running past
  the end of the address space (what the recording device of the harness does);
* `ParseBytes` / `DumpBytes` codecs, `register_address`, the free `read_register`, the
  per-struct `read_register` / `write_register` helpers (address formation per base kind);
* the uniform accessor bodies, interpreted from one resolved row (`RRow.run`);
* the structural accessors (`Abrm::new`, `Abrm::sbrm`, `Sbrm::new`, `Sbrm::sirm`,
  `ManifestTable::entries`, …) and the pure bit tests / decoders of
  `DeviceCapability`, `U3VCapablitiy`, `DeviceConfiguration`, `GenICamFileInfo`.

Which register, type, guard bit, bit field and enumerant table an accessor uses is NOT
written here: it is looked up in `CamVerif.Gen.RegMap` (regenerated from the source).
A failed lookup is `none` (the driver answers `bad-op`), never a default.

Integers are `Nat` carriers; every value decoded from `n` bytes is `< 256^n` by
construction.  None of the arithmetic left in the fixed code can overflow (`checked_add`,
`checked_mul`, `checked_shl`), so the model has no `Profile` parameter: both build
profiles behave identically (`debug_assert_eq!` in the numeric `dump_bytes` guards a
`copy_from_slice` that panics on the same condition in every profile).
-/
import CamVerif.Gen.RegMap
namespace CamVerif.RegMap
open CamVerif

abbrev R := Res Err

def R.map {α β : Type} (f : α → β) : R α → R β
  | .ok a => .ok (f a)
  | .err e => .err e
  | .panic => .panic

/-! ## Device -/

structure Dev where
  mem : Nat → UInt8
  log : List Access
  broken : Bool

def readBytes (mem : Nat → UInt8) (addr len : Nat) : Bytes :=
  (List.range len).map fun i => mem (addr + i)

/-- memory after storing `data` at `addr` -/
def writeMem (mem : Nat → UInt8) (addr : Nat) (data : Bytes) : Nat → UInt8 := fun a =>
  if a < addr then mem a
  else match data[a - addr]? with
    | some b => b
    | none => mem a

def Dev.rejects (d : Dev) (addr len : Nat) : Bool :=
  d.broken || decide (2 ^ 64 < addr + len)

/-- `DeviceControl::read(addr, &mut buf)` with `buf.len() = len` -/
def Dev.read (d : Dev) (addr len : Nat) : R Bytes × Dev :=
  if d.rejects addr len then
    (.err .dev, { d with log := d.log ++ [⟨.R, addr, len, none⟩] })
  else
    (.ok (readBytes d.mem addr len),
     { d with log := d.log ++ [⟨.R, addr, len, some (readBytes d.mem addr len)⟩] })

/-- `DeviceControl::write(addr, data)` -/
def Dev.write (d : Dev) (addr : Nat) (data : Bytes) : R Unit × Dev :=
  if d.rejects addr data.length then
    (.err .dev, { d with log := d.log ++ [⟨.W, addr, data.length, none⟩] })
  else
    (.ok (), { d with mem := writeMem d.mem addr data,
                      log := d.log ++ [⟨.W, addr, data.length, some data⟩] })

/-! ## Codecs -/

/-- `impl_parse_bytes_for_numeric!`: `bytes.try_into().unwrap()` panics unless the slice has
exactly `size_of::<T>()` bytes, then `from_le_bytes`. -/
def parseNum (size : Nat) (bs : Bytes) : R Nat :=
  if bs.length = size then .ok (fromLE bs) else .panic

/-- `bytes.iter().position(|&b| b == 0)` -/
def position0 : Bytes → Option Nat
  | [] => none
  | b :: bs => if b = 0 then some 0 else (position0 bs).map (· + 1)

/-- `len.map_or_else(|| bytes, |len| &bytes[..len])`: the bytes in front of the first NUL -/
def cutAtNul (bs : Bytes) : Bytes :=
  match position0 bs with
  | some n => bs.take n
  | none => bs

/-- `impl ParseBytes for String` -/
def parseString (bs : Bytes) : R Val :=
  if validUtf8 (cutAtNul bs) then .ok (.str (cutAtNul bs)) else .err .invalidDevice

def Field.get (f : Field) (raw : Nat) : Nat := (raw >>> f.shift) &&& f.mask

/-- `T::parse_bytes(&buf[..len])` for the decoder of a row (incl. the hand-modelled
post-processing of the version / alignment / bit accessors). -/
def parse (dec : Dec) (bs : Bytes) : R Val :=
  match dec with
  | .u32 => (parseNum 4 bs).map .nat
  | .u64 => (parseNum 8 bs).map .nat
  | .string => parseString bs
  | .duration => (parseNum 4 bs).map fun ms => .durNs (ms * 1000000)
  | .enum32 t =>
    match parseNum 4 bs with
    | .ok raw =>
      match t.lookup raw with
      | some v => .ok (.enum v)
      | none => .err .invalidDevice
    | .err e => .err e
    | .panic => .panic
  | .deviceConfiguration => (parseNum 8 bs).map .cfg
  | .fileInfo => (parseNum 4 bs).map .fileInfo
  | .version ma mi pa =>
    (parseNum 4 bs).map fun raw =>
      .version (ma.get raw) (mi.get raw) (match pa with | some p => p.get raw | none => 0)
  | .align e =>
    match parseNum 4 bs with
    | .ok raw => if e.get raw < 64 then .ok (.nat (2 ^ e.get raw)) else .err .invalidDevice
    | .err e => .err e
    | .panic => .panic
  | .bit f => (parseNum 4 bs).map fun raw => .bool (f.get raw == 1)
  | .sha1 => .ok (if bs.all (· == 0) then .none else .some (.hash bs))

/-- Is `arg` of the Rust type the row's setter takes?  (An ill-typed call does not compile.) -/
def argOk (dec : Dec) (kind : AccKind) (arg : Arg) : Bool :=
  match kind, dec, arg with
  | .get, _, .none => true
  | .setConst _, .u32, .none => true
  | .set, .u32, .nat v => decide (v < 2 ^ 32)
  | .set, .deviceConfiguration, .cfg raw => decide (raw < 2 ^ 64)
  | .set, .string, .str _ => true
  | _, _, _ => false

/-- Buffer after `let mut buf = vec![0; len]; data.dump_bytes(&mut buf)?`.
The last arm is unreachable for well-typed calls (`argOk`); it is `panic` so that no
theorem can lean on it. -/
def dump (dec : Dec) (arg : Arg) (len : Nat) : R Bytes :=
  match dec, arg with
  | .u32, .nat v => if len = 4 then .ok (toLE 4 v) else .panic
  | .deviceConfiguration, .cfg raw => if len = 8 then .ok (toLE 8 raw) else .panic
  | .string, .str s =>
    if !(s.all (· < 128)) then .err .invalidData            -- `!self.is_ascii()`
    else if s.contains 0 then .err .invalidData             -- `self.contains('\0')`
    else if s.length > len then .err .invalidData           -- too large string
    else .ok (s ++ List.replicate (len - s.length) 0)
  | _, _ => .panic

/-! ## Address formation and the generic accessors -/

/-- `register_address(base, offset)`: `checked_add` or `InvalidDevice` -/
def registerAddress (base off : Nat) : R Nat :=
  if base + off < 2 ^ 64 then .ok (base + off) else .err .invalidDevice

/-- per-struct address formation: `Abrm` uses the constant's offset as the address -/
def addrOf (b : Base) (base off : Nat) : R Nat :=
  match b with
  | .abrm => .ok off
  | _ => registerAddress base off

/-- free fn `read_register(device, addr, len)` -/
def readRegister (d : Dev) (addr len : Nat) (dec : Dec) : R Val × Dev :=
  match d.read addr len with
  | (.ok bs, d') => (parse dec bs, d')
  | (.err e, d') => (.err e, d')
  | (.panic, d') => (.panic, d')

def getReg (rr : RRow) (base : Nat) (d : Dev) : R Val × Dev :=
  match addrOf rr.base base rr.off with
  | .ok addr => readRegister d addr rr.len rr.dec
  | .err e => (.err e, d)
  | .panic => (.panic, d)

def setReg (rr : RRow) (base : Nat) (arg : Arg) (d : Dev) : R Val × Dev :=
  match addrOf rr.base base rr.off with
  | .ok addr =>
    match dump rr.dec arg rr.len with
    | .ok buf =>
      match d.write addr buf with
      | (r, d') => (r.map fun _ => Val.unit, d')
    | .err e => (.err e, d)
    | .panic => (.panic, d)
  | .err e => (.err e, d)
  | .panic => (.panic, d)

def guardOpen (rr : RRow) (cap : Nat) : Bool :=
  match rr.guardBit with
  | some bit => cap.testBit bit
  | none => true

/-- One accessor with a uniform body.  `base` is the receiver's base address (ignored for
`Abrm`), `cap` its cached capability word. -/
def RRow.run (rr : RRow) (base cap : Nat) (arg : Arg) (d : Dev) : R Val × Dev :=
  match rr.kind with
  | .get =>
    match rr.guardBit with
    | some bit =>
      if cap.testBit bit then
        match getReg rr base d with
        | (r, d') => (r.map Val.some, d')
      else (.ok .none, d)
    | none => getReg rr base d
  | .set =>
    if guardOpen rr cap then setReg rr base arg d else (.ok .unit, d)
  | .setConst v =>
    if guardOpen rr cap then setReg rr base (.nat v) d else (.ok .unit, d)

/-! ## Resolution of the generated rows -/

def lookupReg (t : List (String × Nat × Nat)) (n : String) : Option (Nat × Nat) :=
  (t.find? (·.1 == n)).map (·.2)

def regOf (mod name : String) : Option (Nat × Nat) :=
  ((Gen.RegMap.tables.find? (·.1 == mod)).map (·.2)).bind (lookupReg · name)

def capBit (st pred : String) : Option Nat :=
  ((Gen.RegMap.capBits ++ Gen.RegMap.cfgBits).find? (fun x => x.1 == st && x.2.1 == pred)).map (·.2.2)

def fieldOf (fn var : String) : Option Field :=
  (Gen.RegMap.bitFields.find? (fun x => x.1 == fn && x.2.1 == var)).map fun x => ⟨x.2.2.1, x.2.2.2⟩

/-- byte width of the numeric codec a `ParseBytes` newtype wraps
(`impl ParseBytes for T { Ok(Self(uN::parse_bytes(bytes)?)) }`), from the generated table -/
def newtypeWidth (t : String) : Option Nat :=
  (Gen.RegMap.newtypes.lookup t).bind fun n =>
    if n == "u64" then some 8 else if n == "u32" then some 4 else none

def resolveDec (name : String) : Ty → Option Dec
  | .u32 => some .u32
  | .u64 => some .u64
  | .string => some .string
  | .duration => some .duration
  | .busSpeed => some (.enum32 Gen.RegMap.busSpeed)
  -- `Dec.deviceConfiguration` / `Dec.fileInfo` parse 8 / 4 bytes: only valid while the
  -- source's newtype wraps u64 / u32
  | .deviceConfiguration =>
    if newtypeWidth "DeviceConfiguration" == some 8 then some .deviceConfiguration else none
  | .fileInfo => if newtypeWidth "GenICamFileInfo" == some 4 then some .fileInfo else none
  | .ver1616 => do
    let ma ← fieldOf name "major"
    let mi ← fieldOf name "minor"
    pure (.version ma mi none)
  | .fileVer => do
    let ma ← fieldOf name "major"
    let mi ← fieldOf name "minor"
    let pa ← fieldOf name "patch"
    pure (.version ma mi (some pa))
  | .align => (fieldOf name "exponent").map .align
  | .bit0 => (fieldOf name "bit").map .bit
  | .sha1 => some .sha1

def resolve (r : Row) : Option RRow := do
  let reg ← regOf r.regMod r.reg
  let dec ← resolveDec r.name r.ty
  let gb ← match r.guard with
    | none => some none
    | some (st, p) => (capBit st p).map some
  pure ⟨r.name, r.base, r.kind, reg.1, reg.2, dec, gb⟩

def rowOf (name : String) : Option RRow :=
  (Gen.RegMap.accessors.find? (·.name == name)).bind resolve

/-! ## Structural accessors (hand-modelled) -/

/-- Resolved constants the structural accessors refer to. -/
structure Layout where
  devCap : Nat × Nat          -- abrm::DEVICE_CAPABILITY
  devCapWidth : Nat           -- width of the numeric codec under `DeviceCapability`
  u3vCap : Nat × Nat          -- sbrm::U3VCP_CAPABILITY_REGISTER
  u3vCapWidth : Nat           -- width of the numeric codec under `U3VCapablitiy`
  sbrmAddress : RRow          -- `Abrm::sbrm_address`
  manifestTableAddress : RRow -- `Abrm::manifest_table_address`
  sirmAddress : RRow          -- `Sbrm::sirm_address`
  deriving Repr, DecidableEq

def layout : Option Layout := do
  let a ← regOf "abrm" "DEVICE_CAPABILITY"
  let aw ← newtypeWidth "DeviceCapability"
  let b ← regOf "sbrm" "U3VCP_CAPABILITY_REGISTER"
  let bw ← newtypeWidth "U3VCapablitiy"
  let c ← rowOf "Abrm.sbrm_address"
  let d ← rowOf "Abrm.manifest_table_address"
  let e ← rowOf "Sbrm.sirm_address"
  pure ⟨a, aw, b, bw, c, d, e⟩

/-- `Abrm::new` -/
def abrmNew (L : Layout) (d : Dev) : R Val × Dev :=
  match d.read L.devCap.1 L.devCap.2 with
  | (.ok bs, d') => ((parseNum L.devCapWidth bs).map .abrm, d')
  | (.err e, d') => (.err e, d')
  | (.panic, d') => (.panic, d')

/-- `Sbrm::new(device, sbrm_addr)` -/
def sbrmNew (L : Layout) (base : Nat) (d : Dev) : R Val × Dev :=
  match registerAddress base L.u3vCap.1 with
  | .ok addr =>
    match d.read addr L.u3vCap.2 with
    | (.ok bs, d') => ((parseNum L.u3vCapWidth bs).map (.sbrm base), d')
    | (.err e, d') => (.err e, d')
    | (.panic, d') => (.panic, d')
  | .err e => (.err e, d)
  | .panic => (.panic, d)

/-- `Abrm::sbrm`: `self.sbrm_address(device)?` then `Sbrm::new` -/
def abrmSbrm (L : Layout) (cap : Nat) (d : Dev) : R Val × Dev :=
  match L.sbrmAddress.run 0 cap .none d with
  | (.ok (.nat a), d') => sbrmNew L a d'
  | (.ok _, d') => (.panic, d')        -- unreachable: the row decodes a u64 (`layout_spec`)
  | (.err e, d') => (.err e, d')
  | (.panic, d') => (.panic, d')

/-- `Abrm::manifest_table` -/
def abrmManifestTable (L : Layout) (cap : Nat) (d : Dev) : R Val × Dev :=
  match L.manifestTableAddress.run 0 cap .none d with
  | (.ok (.nat a), d') => (.ok (.table a), d')
  | (.ok _, d') => (.panic, d')        -- unreachable, as above
  | (.err e, d') => (.err e, d')
  | (.panic, d') => (.panic, d')

/-- `Sbrm::sirm`: `self.sirm_address(device)?.map(Sirm::new)` -/
def sbrmSirm (L : Layout) (base cap : Nat) (d : Dev) : R Val × Dev :=
  match L.sirmAddress.run base cap .none d with
  | (.ok .none, d') => (.ok .none, d')
  | (.ok (.some (.nat a)), d') => (.ok (.some (.sirm a)), d')
  | (.ok _, d') => (.panic, d')        -- unreachable, as above
  | (.err e, d') => (.err e, d')
  | (.panic, d') => (.panic, d')

/-- `ManifestTable::entries`: the u64 entry count `n` at offset 0 (through the struct's
`read_register`, i.e. `register_address(base, 0)`), then in u128 arithmetic
`table_end = base + 8 + n * 64`; `InvalidDevice` iff `table_end > 2^64`.  The iterator
yields entry `i < n` at `base + 8 + i * 64` (cannot overflow below `table_end`). -/
def tableEntries (base : Nat) (d : Dev) : R Val × Dev :=
  match registerAddress base 0 with
  | .ok addr =>
    match d.read addr 8 with
    | (.ok bs, d') =>
      match parseNum 8 bs with
      | .ok n =>
        if base + 8 + n * 64 > 2 ^ 64 then (.err .invalidDevice, d')
        else (.ok (.entries n (base + 8)), d')
      | .err e => (.err e, d')
      | .panic => (.panic, d')
    | (.err e, d') => (.err e, d')
    | (.panic, d') => (.panic, d')
  | .err e => (.err e, d)
  | .panic => (.panic, d)

/-- address of the `i`-th `ManifestEntry` the iterator yields (`i < count`) -/
def entryAddr (first i : Nat) : Nat := first + i * 64

/-- Every accessor by name: uniform rows through `RRow.run`, the rest by the functions
above.  `none` = unknown accessor / failed table lookup / ill-typed argument. -/
def runNamed (name : String) (base cap : Nat) (arg : Arg) (d : Dev) : Option (R Val × Dev) :=
  match rowOf name with
  | some rr => if argOk rr.dec rr.kind arg then some (rr.run base cap arg d) else none
  | none =>
    if Gen.RegMap.handModelled.any (·.1 == name) && arg == .none then
      layout.bind fun L =>
        if name == "Abrm.new" then some (abrmNew L d)
        else if name == "Abrm.sbrm" then some (abrmSbrm L cap d)
        else if name == "Abrm.manifest_table" then some (abrmManifestTable L cap d)
        else if name == "Abrm.device_capability" then some (.ok (.dcap cap), d)
        else if name == "Sbrm.new" then some (sbrmNew L base d)
        else if name == "Sbrm.sirm" then some (sbrmSirm L base cap d)
        else if name == "Sbrm.u3v_capability" then some (.ok (.ucap cap), d)
        else if name == "Sirm.new" then some (.ok (.sirm base), d)
        else if name == "ManifestTable.new" then some (.ok (.table base), d)
        else if name == "ManifestTable.entries" then some (tableEntries base d)
        else if name == "ManifestEntry.new" then some (.ok (.entry base), d)
        else none
    else none

/-! ## Pure methods of the value structs -/

/-- `is_bit_set!(self.0, bit)` -/
def isBitSet (raw bit : Nat) : Bool := (raw >>> bit) &&& 1 == 1

/-- `set_bit!` / `unset_bit!` on a u64 -/
def applyCfgOp (kind : String) (bit raw : Nat) : Option Nat :=
  if kind == "set_bit" then some (raw ||| (1 <<< bit))
  else if kind == "unset_bit" then some (raw &&& (2 ^ 64 - 1 - (1 <<< bit)))
  else none

def cfgOp (method : String) (raw : Nat) : Option Nat :=
  (Gen.RegMap.cfgOps.find? (·.1 == method)).bind fun x => applyCfgOp x.2.1 x.2.2 raw

/-- Layout of `GenICamFileInfo`'s 32 bits as the three methods read it. -/
structure FileInfoLayout where
  fileType : Field
  fileTypes : List (Nat × String)
  compression : Field
  compressions : List (Nat × String)
  schemaMajor : Field
  schemaMinor : Field
  deriving Repr, DecidableEq

def fileInfoLayout : Option FileInfoLayout := do
  let a ← fieldOf "GenICamFileInfo.file_type" "raw"
  let b ← fieldOf "GenICamFileInfo.compression_type" "raw"
  let c ← fieldOf "GenICamFileInfo.schema_version" "major"
  let d ← fieldOf "GenICamFileInfo.schema_version" "minor"
  pure ⟨a, Gen.RegMap.fileType, b, Gen.RegMap.compressionType, c, d⟩

/-- `GenICamFileInfo::file_type` (variant name) -/
def FileInfoLayout.fileTypeOf (L : FileInfoLayout) (raw : Nat) : R String :=
  match L.fileTypes.lookup (L.fileType.get raw) with
  | some v => .ok v
  | none => .err .invalidDevice

/-- `GenICamFileInfo::compression_type` -/
def FileInfoLayout.compressionOf (L : FileInfoLayout) (raw : Nat) : R String :=
  match L.compressions.lookup (L.compression.get raw) with
  | some v => .ok v
  | none => .err .invalidDevice

/-- `GenICamFileInfo::schema_version` = (major, minor, 0) -/
def FileInfoLayout.schemaOf (L : FileInfoLayout) (raw : Nat) : Nat × Nat :=
  (L.schemaMajor.get raw, L.schemaMinor.get raw)

/-! ## The pure methods by name (what the driver prints and the harness compares per method) -/

/-- a `pub fn is_…(self) -> bool` of `DeviceCapability` / `U3VCapablitiy` /
`DeviceConfiguration`: `is_bit_set!(self.0, bit)` with the bit of the generated table -/
def bitTest (st pred : String) (raw : Nat) : Option Bool :=
  (capBit st pred).map (isBitSet raw)

/-- `GenICamFileInfo::file_type` on the raw 32-bit word -/
def fileTypeOf (raw : Nat) : Option (R String) := fileInfoLayout.map (·.fileTypeOf raw)

/-- `GenICamFileInfo::compression_type` on the raw 32-bit word -/
def compressionOf (raw : Nat) : Option (R String) := fileInfoLayout.map (·.compressionOf raw)

/-- `GenICamFileInfo::schema_version` on the raw 32-bit word: (major, minor), patch is 0 -/
def schemaOf (raw : Nat) : Option (Nat × Nat) := fileInfoLayout.map (·.schemaOf raw)

end CamVerif.RegMap
