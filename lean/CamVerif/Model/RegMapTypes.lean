/-
C13 — shared vocabulary of the register-map model (`Model/RegMap.lean`), the generated
tables (`Gen/RegMap.lean`, re-emitted from `/repo` by `tools/gen_regmap.py`) and the
standard's tables (`Spec/U3V.lean`): value domain, error classes, access log entries,
the descriptor of one accessor row, and the model of `std::str::from_utf8`'s validity
check.  Core only (linked into the driver).
-/
import CamVerif.Prelude.Basic
namespace CamVerif.RegMap

/-- Error classes of `cameleon::ControlError` that can arise here.  `dev` stands for an
error produced by the `DeviceControl` implementation itself (propagated unchanged). -/
inductive Err where
  | invalidDevice
  | invalidData
  | dev
  deriving Repr, DecidableEq

/-- Which struct an accessor is a method of (this fixes how the register address is formed). -/
inductive Base where
  | abrm           -- absolute addresses (the ABRM starts at 0)
  | sbrm           -- `sbrm_addr + offset`
  | sirm           -- `sirm_addr + offset`
  | manifestTable  -- `manifest_address + offset`
  | manifestEntry  -- `entry_addr + offset`
  deriving Repr, DecidableEq

/-- How the register bytes are decoded (`ParseBytes` impl of the Rust return type, or the
hand-modelled decoder of a non-uniform accessor) / how a setter's argument is encoded. -/
inductive Ty where
  | u32
  | u64
  | string               -- NUL-terminated UTF-8 / ASCII `&str` for the setter
  | duration             -- u32 milliseconds
  | busSpeed
  | deviceConfiguration  -- newtype over u64
  | fileInfo             -- `GenICamFileInfo`, newtype over u32
  | ver1616              -- hand-modelled: `semver::Version::new(bits 31:16, bits 15:0, 0)` of a u32
  | fileVer              -- hand-modelled: major 31:24, minor 23:16, subminor 15:0 of a u32
  | align                -- hand-modelled: `1usize.checked_shl(bits 31:24)` of a u32
  | bit0                 -- hand-modelled: `(raw & 1) == 1` of a u32
  | sha1                 -- hand-modelled: 20 raw bytes, all zero = `None`
  deriving Repr, DecidableEq

inductive AccKind where
  | get
  | set
  | setConst (v : Nat)   -- setter writing a fixed u32 (`enable_stream`, `set_timestamp_latch_bit`, …)
  deriving Repr, DecidableEq

/-- One accessor as read off the Rust source: everything symbolic (register constant by
module and name, capability guard by struct and predicate name). -/
structure Row where
  name : String                       -- `Type.method`
  base : Base
  kind : AccKind
  regMod : String                     -- `abrm` / `sbrm` / `sirm` / `manifest_entry`
  reg : String                        -- constant name in that module
  ty : Ty
  guard : Option (String × String)    -- (capability struct, predicate) e.g. (`DeviceCapability`, `is_family_name_supported`)
  deriving Repr, DecidableEq

/-- A bit field of a 32-bit register: `(raw >> shift) & mask`. -/
structure Field where
  shift : Nat
  mask : Nat
  deriving Repr, DecidableEq

/-- Resolved decoder: `Ty` with the bit fields / enumerant tables it needs made explicit. -/
inductive Dec where
  | u32
  | u64
  | string
  | duration
  | enum32 (table : List (Nat × String))     -- u32 matched against literal arms, else `InvalidDevice`
  | deviceConfiguration
  | fileInfo
  | version (major minor : Field) (patch : Option Field)
  | align (exponent : Field)                 -- `1usize.checked_shl(exponent)`
  | bit (f : Field)                          -- `field == 1`
  | sha1
  deriving Repr, DecidableEq

/-- A row with its register constant, guard and decoder resolved through the generated tables. -/
structure RRow where
  name : String
  base : Base
  kind : AccKind
  off : Nat
  len : Nat
  dec : Dec
  guardBit : Option Nat
  deriving Repr, DecidableEq

/-- Values returned by accessors (canonical, printable). -/
inductive Val where
  | nat (n : Nat)                       -- u32 / u64 / usize
  | str (utf8 : Bytes)                  -- a Rust `String`, by its UTF-8 bytes
  | durNs (ns : Nat)                    -- `Duration`
  | enum (variant : String)             -- `BusSpeed`
  | version (major minor patch : Nat)   -- `semver::Version`
  | bool (b : Bool)
  | unit
  | none
  | some (v : Val)
  | hash (bs : Bytes)
  | fileInfo (raw : Nat)                -- `GenICamFileInfo(raw)`
  | cfg (raw : Nat)                     -- `DeviceConfiguration(raw)`
  | dcap (raw : Nat)                    -- `DeviceCapability(raw)`
  | ucap (raw : Nat)                    -- `U3VCapablitiy(raw)`
  | abrm (cap : Nat)
  | sbrm (addr cap : Nat)
  | sirm (addr : Nat)
  | table (addr : Nat)
  | entry (addr : Nat)
  | entries (count : Nat) (firstAddr : Nat)  -- iterator: `count` entries, i-th at `firstAddr + 64 i`
  deriving Repr, DecidableEq

/-- Argument of a setter. -/
inductive Arg where
  | none
  | nat (n : Nat)
  | str (utf8 : Bytes)
  | cfg (raw : Nat)
  deriving Repr, DecidableEq

inductive Dir where
  | R
  | W
  deriving Repr, DecidableEq

/-- One call of `DeviceControl::read` / `write`; `data = none` when the device rejected it. -/
structure Access where
  dir : Dir
  addr : Nat
  len : Nat
  data : Option Bytes
  deriving Repr, DecidableEq

/-! ### `std::str::from_utf8` accepts exactly the well-formed sequences of Unicode Table 3-7 -/

def isCont (b : UInt8) : Bool := 0x80 ≤ b && b ≤ 0xBF

def validUtf8 : Bytes → Bool
  | [] => true
  | b0 :: rest =>
    if b0 < 0x80 then validUtf8 rest
    else if 0xC2 ≤ b0 && b0 ≤ 0xDF then
      match rest with
      | b1 :: rest => isCont b1 && validUtf8 rest
      | _ => false
    else if 0xE0 ≤ b0 && b0 ≤ 0xEF then
      match rest with
      | b1 :: b2 :: rest =>
        (if b0 == 0xE0 then 0xA0 ≤ b1 && b1 ≤ 0xBF
         else if b0 == 0xED then 0x80 ≤ b1 && b1 ≤ 0x9F
         else isCont b1) && isCont b2 && validUtf8 rest
      | _ => false
    else if 0xF0 ≤ b0 && b0 ≤ 0xF4 then
      match rest with
      | b1 :: b2 :: b3 :: rest =>
        (if b0 == 0xF0 then 0x90 ≤ b1 && b1 ≤ 0xBF
         else if b0 == 0xF4 then 0x80 ≤ b1 && b1 ≤ 0x8F
         else isCont b1) && isCont b2 && isCont b3 && validUtf8 rest
      | _ => false
    else false

end CamVerif.RegMap
