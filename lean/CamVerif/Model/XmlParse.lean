/-
C17 — executable model of `genapi/src/parser/*.rs`, `builder.rs`, `store.rs`
(interner, value store, `store_node`, invalidator registrations).

The model starts at the ELEMENT TREE that `roxmltree` hands to the parser
(`Elem`: element / text / comment / processing instruction).  Namespaces: the parser only
ever asks roxmltree for LOCAL names (`tag_name().name()`, `Attribute::name()`), and roxmltree
does not list namespace declarations (`xmlns`, `xmlns:xsi`) among the attributes; so `tag`
and attribute names of `Elem` are local names (`xsi:schemaLocation` is the attribute
`schemaLocation`) and a document in the GenApi default namespace looks like one without.  Every `impl Parse`
of the Rust code is one definition here, in the same order of cursor operations;
Rust `unwrap` / `unreachable!` / `todo!` / `debug_assert!` are `panic`.

Text is `List Char` (`Str`); constants are written `cs!"Tag"` (a macro that
expands to the list literal, so that tag comparisons reduce by `rfl`).
Floating point is abstract (`FloatLit F`): the only float operations of the
parser are `str::parse::<f64>`, the two infinities, `f64::MIN/MAX` and the
`i64 as f64` cast of the `EnumEntryNode::numeric_value` getter.
Imports core only (linked into `drv_c17`).
-/
import CamVerif.Prelude.Basic
namespace CamVerif.XmlParse
open CamVerif

open Lean in
/-- `cs!"abc"` = `['a','b','c']`. -/
macro:max "cs!" s:str : term => do
  let cs := s.getString.toList
  let elems := cs.toArray.map fun c => (Syntax.mkCharLit c : TSyntax `term)
  `(([$elems,*] : List Char))

abbrev Str := List Char

/-! ## Element tree (what roxmltree produces) -/

inductive Elem where
  | node (tag : Str) (attrs : List (Str × Str)) (children : List Elem)
  | text (s : Str)
  | comment (s : Str)
  | pi
  deriving Inhabited

/-! ## Plain data of `elem_type.rs` -/

inductive NameSpace | standard | custom deriving Repr, DecidableEq, Inhabited
inductive Visibility | beginner | expert | guru | invisible deriving Repr, DecidableEq, Inhabited
inductive MergePriority | high | mid | low deriving Repr, DecidableEq, Inhabited
inductive AccessMode | ro | wo | rw deriving Repr, DecidableEq, Inhabited
inductive IntRepr | linear | logarithmic | boolean | pureNumber | hexNumber | ipV4 | mac
  deriving Repr, DecidableEq, Inhabited
inductive FloatRepr | linear | logarithmic | pureNumber deriving Repr, DecidableEq, Inhabited
inductive Slope | increasing | decreasing | varying | automatic deriving Repr, DecidableEq, Inhabited
inductive DisplayNotation | automatic | fixed | scientific deriving Repr, DecidableEq, Inhabited
inductive StdNameSpace | none | iidc | gev | cl | usb deriving Repr, DecidableEq, Inhabited
inductive CachingMode | writeThrough | writeAround | noCache deriving Repr, DecidableEq, Inhabited
inductive Endianness | le | be deriving Repr, DecidableEq, Inhabited
inductive Sign | signed | unsigned deriving Repr, DecidableEq, Inhabited

inductive BitMask where
  | singleBit (b : Nat)
  | range (lsb msb : Nat)
  deriving Repr, DecidableEq, Inhabited

/-- `ImmOrPNode<T>`; node ids are indices into the interner. -/
inductive ImmOrP (α : Type) where
  | imm (a : α)
  | pnode (id : Nat)
  deriving Repr, DecidableEq, Inhabited

structure NamedValue (α : Type) where
  name : Str
  value : α
  deriving Repr, DecidableEq, Inhabited

structure PValue where
  pValue : Nat
  pValueCopies : List Nat
  deriving Repr, DecidableEq, Inhabited

structure ValueIndexed (α : Type) where
  index : Int
  indexed : ImmOrP α
  deriving Repr, DecidableEq, Inhabited

structure PIndex (α : Type) where
  pIndex : Nat
  valueIndexed : List (ValueIndexed α)
  valueDefault : ImmOrP α
  deriving Repr, DecidableEq, Inhabited

/-- `ValueKind<T>` (`T` is a value-store id in the node structs). -/
inductive ValueKind (α : Type) where
  | value (a : α)
  | pValue (p : PValue)
  | pIndex (p : PIndex α)
  deriving Repr, DecidableEq, Inhabited

structure RegPIndex where
  offset : Option (ImmOrP Int)
  pIndex : Nat
  deriving Repr, DecidableEq, Inhabited

inductive AddressKind where
  | address (a : ImmOrP Int)
  | intSwissKnife (id : Nat)
  | pIndex (p : RegPIndex)
  deriving Repr, DecidableEq, Inhabited

/-! ## Node structs -/

structure AttrBase where
  id : Nat
  nameSpace : NameSpace
  mergePriority : MergePriority
  exposeStatic : Option Bool
  deriving Repr, DecidableEq, Inhabited

structure ElemBase where
  tooltip : Option Str
  description : Option Str
  displayName : Option Str
  visibility : Visibility
  docuUrl : Option Str
  isDeprecated : Bool
  eventId : Option Nat
  pIsImplemented : Option Nat
  pIsAvailable : Option Nat
  pIsLocked : Option Nat
  pBlockPolling : Option Nat
  imposedAccessMode : AccessMode
  pErrors : List Nat
  pAlias : Option Nat
  pCastAlias : Option Nat
  pInvalidators : List Nat
  deriving Repr, DecidableEq, Inhabited

structure RegBase where
  elemBase : ElemBase
  streamable : Bool
  addressKinds : List AddressKind
  length : ImmOrP Int
  accessMode : AccessMode
  pPort : Nat
  cacheable : CachingMode
  pollingTime : Option Nat
  pInvalidators : List Nat
  deriving Repr, DecidableEq, Inhabited

structure IntegerNode where
  attr : AttrBase
  elem : ElemBase
  streamable : Bool
  valueKind : ValueKind Nat
  min : ImmOrP Nat
  max : ImmOrP Nat
  inc : ImmOrP Int
  unit : Option Str
  representation : IntRepr
  pSelected : List Nat
  deriving Repr, DecidableEq, Inhabited

structure IntRegNode where
  attr : AttrBase
  reg : RegBase
  sign : Sign
  endianness : Endianness
  unit : Option Str
  representation : IntRepr
  pSelected : List Nat
  deriving Repr, DecidableEq, Inhabited

structure MaskedIntRegNode where
  attr : AttrBase
  reg : RegBase
  bitMask : BitMask
  sign : Sign
  endianness : Endianness
  unit : Option Str
  representation : IntRepr
  pSelected : List Nat
  deriving Repr, DecidableEq, Inhabited

structure BooleanNode where
  attr : AttrBase
  elem : ElemBase
  streamable : Bool
  value : ImmOrP Nat
  onValue : Int
  offValue : Int
  pSelected : List Nat
  deriving Repr, DecidableEq, Inhabited

structure CommandNode where
  attr : AttrBase
  elem : ElemBase
  value : ImmOrP Nat
  commandValue : ImmOrP Nat
  pollingTime : Option Nat
  deriving Repr, DecidableEq, Inhabited

structure EnumerationNode where
  attr : AttrBase
  elem : ElemBase
  streamable : Bool
  entries : List Nat
  value : ImmOrP Nat
  pSelected : List Nat
  pollingTime : Option Nat
  deriving Repr, DecidableEq, Inhabited

structure EnumEntryNode (F : Type) where
  attr : AttrBase
  elem : ElemBase
  value : Int
  numericValue : Option F
  symbolic : Str
  isSelfClearing : Bool
  deriving Repr, DecidableEq, Inhabited

structure FloatNode (F : Type) where
  attr : AttrBase
  elem : ElemBase
  streamable : Bool
  valueKind : ValueKind Nat
  min : ImmOrP Nat
  max : ImmOrP Nat
  inc : Option (ImmOrP F)
  unit : Option Str
  representation : FloatRepr
  displayNotation : DisplayNotation
  displayPrecision : Int
  deriving Repr, DecidableEq, Inhabited

structure FloatRegNode where
  attr : AttrBase
  reg : RegBase
  endianness : Endianness
  unit : Option Str
  representation : FloatRepr
  displayNotation : DisplayNotation
  displayPrecision : Int
  deriving Repr, DecidableEq, Inhabited

structure StringNode where
  attr : AttrBase
  elem : ElemBase
  streamable : Bool
  value : ImmOrP Nat
  deriving Repr, DecidableEq, Inhabited

/-- `StringRegNode` and `RegisterNode`. -/
structure PlainRegNode where
  attr : AttrBase
  reg : RegBase
  deriving Repr, DecidableEq, Inhabited

structure CategoryNode where
  attr : AttrBase
  elem : ElemBase
  pFeatures : List Nat
  deriving Repr, DecidableEq, Inhabited

structure PortNode where
  attr : AttrBase
  elem : ElemBase
  chunkId : Option (ImmOrP Nat)
  swapEndianness : Bool
  cacheChunkData : Bool
  deriving Repr, DecidableEq, Inhabited

structure PlainNode where
  attr : AttrBase
  elem : ElemBase
  deriving Repr, DecidableEq, Inhabited

/-- `ConverterNode` (formulas are kept as their source text; parsing them is C05). -/
structure ConverterNode (F : Type) where
  attr : AttrBase
  elem : ElemBase
  streamable : Bool
  pVariables : List (NamedValue Nat)
  constants : List (NamedValue F)
  expressions : List (NamedValue Str)
  formulaTo : Str
  formulaFrom : Str
  pValue : Nat
  unit : Option Str
  representation : FloatRepr
  displayNotation : DisplayNotation
  displayPrecision : Int
  slope : Slope
  isLinear : Bool
  deriving Repr, DecidableEq, Inhabited

structure IntConverterNode where
  attr : AttrBase
  elem : ElemBase
  streamable : Bool
  pVariables : List (NamedValue Nat)
  constants : List (NamedValue Int)
  expressions : List (NamedValue Str)
  formulaTo : Str
  formulaFrom : Str
  pValue : Nat
  unit : Option Str
  representation : IntRepr
  slope : Slope
  deriving Repr, DecidableEq, Inhabited

structure SwissKnifeNode (F : Type) where
  attr : AttrBase
  elem : ElemBase
  streamable : Bool
  pVariables : List (NamedValue Nat)
  constants : List (NamedValue F)
  expressions : List (NamedValue Str)
  formula : Str
  unit : Option Str
  representation : FloatRepr
  displayNotation : DisplayNotation
  displayPrecision : Int
  deriving Repr, DecidableEq, Inhabited

structure IntSwissKnifeNode where
  attr : AttrBase
  elem : ElemBase
  streamable : Bool
  pVariables : List (NamedValue Nat)
  constants : List (NamedValue Int)
  expressions : List (NamedValue Str)
  formula : Str
  unit : Option Str
  representation : IntRepr
  deriving Repr, DecidableEq, Inhabited

/-- `store::NodeData` (DCAM kinds are `todo!()` in the parser and never stored). -/
inductive NodeData (F : Type) where
  | node (n : PlainNode)
  | category (n : CategoryNode)
  | integer (n : IntegerNode)
  | intReg (n : IntRegNode)
  | maskedIntReg (n : MaskedIntRegNode)
  | boolean (n : BooleanNode)
  | command (n : CommandNode)
  | enumeration (n : EnumerationNode)
  | enumEntry (n : EnumEntryNode F)
  | float (n : FloatNode F)
  | floatReg (n : FloatRegNode)
  | string (n : StringNode)
  | stringReg (n : PlainRegNode)
  | register (n : PlainRegNode)
  | converter (n : ConverterNode F)
  | intConverter (n : IntConverterNode)
  | swissKnife (n : SwissKnifeNode F)
  | intSwissKnife (n : IntSwissKnifeNode)
  | port (n : PortNode)
  deriving Repr, DecidableEq, Inhabited

def NodeData.attr {F : Type} : NodeData F → AttrBase
  | .node n => n.attr | .category n => n.attr | .integer n => n.attr | .intReg n => n.attr
  | .maskedIntReg n => n.attr | .boolean n => n.attr | .command n => n.attr
  | .enumeration n => n.attr | .enumEntry n => n.attr | .float n => n.attr
  | .floatReg n => n.attr | .string n => n.attr | .stringReg n => n.attr
  | .register n => n.attr | .converter n => n.attr | .intConverter n => n.attr
  | .swissKnife n => n.attr | .intSwissKnife n => n.attr | .port n => n.attr

structure RegisterDescription where
  modelName : Str
  vendorName : Str
  tooltip : Option Str
  standardNameSpace : StdNameSpace
  schemaMajor : Nat
  schemaMinor : Nat
  schemaSubMinor : Nat
  major : Nat
  minor : Nat
  subMinor : Nat
  productGuid : Str
  versionGuid : Str
  deriving Repr, DecidableEq, Inhabited

/-! ## Abstract floats -/

/-- The float operations the parser (and the one float getter) uses. -/
class FloatLit (F : Type) where
  /-- `f64::INFINITY` -/
  inf : F
  /-- `f64::NEG_INFINITY` -/
  negInf : F
  /-- `f64::MIN` -/
  f64Min : F
  /-- `f64::MAX` -/
  f64Max : F
  /-- `str::parse::<f64>` (`none` = `Err`) -/
  parse : Str → Option F
  /-- `i64 as f64` -/
  ofInt : Int → F
  /-- `formula::parse` does not panic on this text.  (Formula syntax is property C05; the
  nodes of this model keep the formula's source text.) -/
  formulaOk : Str → Bool

/-! ## Stores (`store.rs`) -/

/-- `ValueData`. -/
inductive Value (F : Type) where
  | int (i : Int)
  | float (f : F)
  | str (s : Str)
  | bool (b : Bool)
  deriving Repr, DecidableEq, Inhabited

/-- Builder state: the string interner (`names`, id = index), the fresh-id counter,
the value store (id = index), the invalidator registrations in call order, and the
`store_node` calls `(id, data)` in call order (`DefaultNodeStore.store[id] = Some data`). -/
structure St (F : Type) where
  names : List Str
  fresh : Nat
  values : List (Value F)
  invals : List (Nat × Nat)
  nodes : List (Nat × NodeData F)
  deriving Inhabited

def St.empty {F : Type} : St F := ⟨[], 0, [], [], []⟩

/-- position of `s` in `l` (first occurrence) -/
def findName (s : Str) : List Str → Option Nat
  | [] => none
  | x :: xs => if x = s then some 0 else (findName s xs).map (· + 1)

/-- `StringInterner::get_or_intern`: existing symbol or the next index. -/
def internName (names : List Str) (s : Str) : Nat × List Str :=
  match findName s names with
  | some i => (i, names)
  | none => (names.length, names ++ [s])

/-! ## Literal conversion (`parser/elem_type.rs`, Rust `from_str_radix`) -/

/-- `char::to_digit(radix)` for radix ≤ 36. -/
def digitVal (radix : Nat) (c : Char) : Option Nat :=
  let v :=
    if '0' ≤ c ∧ c ≤ '9' then some (c.toNat - '0'.toNat)
    else if 'a' ≤ c ∧ c ≤ 'z' then some (c.toNat - 'a'.toNat + 10)
    else if 'A' ≤ c ∧ c ≤ 'Z' then some (c.toNat - 'A'.toNat + 10)
    else none
  match v with
  | some d => if d < radix then some d else none
  | none => none

/-- digits (possibly empty list gives `acc`) in the given radix -/
def parseDigitsAcc (radix : Nat) : Nat → List Char → Option Nat
  | acc, [] => some acc
  | acc, c :: cs =>
    match digitVal radix c with
    | some d => parseDigitsAcc radix (acc * radix + d) cs
    | none => none

/-- non-empty digit string -/
def parseDigits (radix : Nat) (s : List Char) : Option Nat :=
  match s with
  | [] => none
  | _ => parseDigitsAcc radix 0 s

abbrev I64_MIN : Int := -9223372036854775808
abbrev I64_MAX : Int := 9223372036854775807
abbrev U64_MAX : Nat := 18446744073709551615

/-- `i64::from_str_radix` (`none` = `Err`). -/
def parseI64 (radix : Nat) (s : Str) : Option Int :=
  match s with
  | [] => none
  | '+' :: r => match parseDigits radix r with
    | some n => if (n : Int) ≤ I64_MAX then some n else none
    | none => none
  | '-' :: r => match parseDigits radix r with
    | some n => if I64_MIN ≤ -(n : Int) then some (-(n : Int)) else none
    | none => none
  | _ => match parseDigits radix s with
    | some n => if (n : Int) ≤ I64_MAX then some n else none
    | none => none

/-- `u64::from_str_radix` (`none` = `Err`); a leading `-` is an invalid digit. -/
def parseU64 (radix : Nat) (s : Str) : Option Nat :=
  match s with
  | [] => none
  | '+' :: r => match parseDigits radix r with
    | some n => if n ≤ U64_MAX then some n else none
    | none => none
  | _ => match parseDigits radix s with
    | some n => if n ≤ U64_MAX then some n else none
    | none => none

abbrev R (α : Type) := Res Unit α

def ofOpt {α : Type} : Option α → R α
  | some a => .ok a
  | none => .panic

/-- `u64 as i64` -/
def wrapI64 (n : Nat) : Int := if (n : Int) ≤ I64_MAX then (n : Int) else (n : Int) - 18446744073709551616

/-- hexadecimal digits of `convert_to_int`: `i64::from_str_radix(_, 16)`, and when that fails
`u64::from_str_radix(_, 16).unwrap() as i64` (bit 63 set: the 64-bit pattern) -/
def hexToI64 (r : Str) : R Int :=
  match parseI64 16 r with
  | some v => .ok v
  | none => match parseU64 16 r with
    | some n => .ok (wrapI64 n)
    | none => .panic

/-- `convert_to_int`: `0x`/`0X` prefix → radix 16, else decimal; `unwrap`. -/
def convertToInt (s : Str) : R Int :=
  match s with
  | '0' :: 'x' :: r => hexToI64 r
  | '0' :: 'X' :: r => hexToI64 r
  | _ => ofOpt (parseI64 10 s)

/-- `convert_to_uint`. -/
def convertToUint (s : Str) : R Nat :=
  match s with
  | '0' :: 'x' :: r => ofOpt (parseU64 16 r)
  | '0' :: 'X' :: r => ofOpt (parseU64 16 r)
  | _ => ofOpt (parseU64 10 s)

/-- `convert_to_bool_opt`. -/
def convertToBoolOpt (s : Str) : Option Bool :=
  if s = cs!"Yes" ∨ s = cs!"true" then some true
  else if s = cs!"No" ∨ s = cs!"false" then some false
  else none

/-- `convert_to_bool` (`unreachable!` otherwise). -/
def convertToBool (s : Str) : R Bool := ofOpt (convertToBoolOpt s)

/-- `impl Parse for f64` on the text. -/
def convertToFloat {F : Type} [FloatLit F] (s : Str) : R F :=
  if s = cs!"INF" then .ok FloatLit.inf
  else if s = cs!"-INF" then .ok FloatLit.negInf
  else ofOpt (FloatLit.parse s)

/-- Unicode `Alphabetic` beyond ASCII (`char::is_alphabetic`), transcribed exactly for the code
points U+0080 … U+052F (Latin-1, Latin Extended, IPA, modifier letters, combining ypogegrammeni,
Greek, Cyrillic), U+3041 … U+30FF (Hiragana, Katakana), the CJK unified ideographs U+4E00 … U+9FFF
and the Hangul syllables U+AC00 … U+D7A3; the harness compares these windows exhaustively with
`char::is_alphabetic`.  Code points outside the windows are taken as non-alphabetic (assumption
of the model; `std`'s full table is not transcribed). -/
def uniAlphaRanges : List (Nat × Nat) :=
  [(170, 170), (181, 181), (186, 186), (192, 214), (216, 246), (248, 705), (710, 721), (736, 740),
   (748, 748), (750, 750), (837, 837), (867, 884), (886, 887), (890, 893), (895, 895), (902, 902),
   (904, 906), (908, 908), (910, 929), (931, 1013), (1015, 1153), (1162, 1327),
   (12353, 12438), (12445, 12447), (12449, 12538), (12540, 12543),
   (19968, 40959), (44032, 55203)]

def uniAlpha (n : Nat) : Bool := uniAlphaRanges.any fun r => r.1 ≤ n && n ≤ r.2

/-- `char::is_alphabetic` -/
def isAlphabetic (c : Char) : Bool := c.isAlpha || uniAlpha c.toNat

/-- `text.chars().next().unwrap().is_alphabetic()` -/
def firstIsAlphabetic (s : Str) : R Bool :=
  match s with
  | [] => .panic
  | c :: _ => .ok (isAlphabetic c)

/-- generic `match_text_view!` / `From<&str>`: table lookup, `unreachable!` otherwise. -/
def lookupTable {α : Type} (table : List (Str × α)) (s : Str) : R α :=
  match table with
  | [] => .panic
  | (k, v) :: rest => if s = k then .ok v else lookupTable rest s

def nameSpaceTable : List (Str × NameSpace) :=
  [(cs!"Standard", .standard), (cs!"Custom", .custom)]
def visibilityTable : List (Str × Visibility) :=
  [(cs!"Beginner", .beginner), (cs!"Expert", .expert), (cs!"Guru", .guru), (cs!"Invisible", .invisible)]
def mergePriorityTable : List (Str × MergePriority) :=
  [(cs!"1", .high), (cs!"0", .mid), (cs!"-1", .low)]
def accessModeTable : List (Str × AccessMode) :=
  [(cs!"RO", .ro), (cs!"WO", .wo), (cs!"RW", .rw)]
def intReprTable : List (Str × IntRepr) :=
  [(cs!"Linear", .linear), (cs!"Logarithmic", .logarithmic), (cs!"Boolean", .boolean),
   (cs!"PureNumber", .pureNumber), (cs!"HexNumber", .hexNumber), (cs!"IPV4Address", .ipV4),
   (cs!"MACAddress", .mac)]
def floatReprTable : List (Str × FloatRepr) :=
  [(cs!"Linear", .linear), (cs!"Logarithmic", .logarithmic), (cs!"PureNumber", .pureNumber)]
def slopeTable : List (Str × Slope) :=
  [(cs!"Increasing", .increasing), (cs!"Decreasing", .decreasing), (cs!"Varying", .varying),
   (cs!"Automatic", .automatic)]
def displayNotationTable : List (Str × DisplayNotation) :=
  [(cs!"Automatic", .automatic), (cs!"Fixed", .fixed), (cs!"Scientific", .scientific)]
def stdNameSpaceTable : List (Str × StdNameSpace) :=
  [(cs!"None", .none), (cs!"IIDC", .iidc), (cs!"GEV", .gev), (cs!"CL", .cl), (cs!"USB", .usb)]
def cachingModeTable : List (Str × CachingMode) :=
  [(cs!"WriteThrough", .writeThrough), (cs!"WriteAround", .writeAround), (cs!"NoCache", .noCache)]
def endiannessTable : List (Str × Endianness) :=
  [(cs!"LittleEndian", .le), (cs!"BigEndian", .be)]
def signTable : List (Str × Sign) :=
  [(cs!"Signed", .signed), (cs!"Unsigned", .unsigned)]

/-- `IntegerRepresentation::deduce_min` -/
def IntRepr.deduceMin : IntRepr → Int
  | .ipV4 | .mac => 0
  | _ => I64_MIN

/-- `IntegerRepresentation::deduce_max` -/
def IntRepr.deduceMax : IntRepr → Int
  | .ipV4 => 0xffffffff
  | .mac => 0xffffffffffff
  | _ => I64_MAX

/-! ## Text view (`xml.rs::TextView::view`) -/

def concatText : List Elem → Str
  | [] => []
  | .text s :: r => s ++ concatText r
  | _ :: r => concatText r

/-- `TextView::view` of an element with the given children: the concatenation of its
text children (comments, processing instructions and child elements contribute nothing;
an element without text children has the empty text). -/
def textView (children : List Elem) : R Str := .ok (concatText children)

/-- `Attributes::attribute_of` -/
def attrOf (attrs : List (Str × Str)) (name : Str) : Option Str :=
  match attrs with
  | [] => none
  | (k, v) :: r => if k = name then some v else attrOf r name

/-! ## The parser monad: cursor over the children of the current element + builder state -/

variable {F : Type}

/-- Remaining children of the current `xml::Node` (the `Peekable<Children>`). -/
abbrev Cur := List Elem

/-- `P α`: a parse step on the current node's cursor and the three builders. -/
@[reducible] def P (F : Type) (α : Type) := Cur → St F → R (α × Cur × St F)

namespace P
variable {α β : Type}

@[inline] def pure (a : α) : P F α := fun cur st => .ok (a, cur, st)

@[inline] def bind (p : P F α) (f : α → P F β) : P F β := fun cur st =>
  (p cur st).bind fun r => f r.1 r.2.1 r.2.2

instance : Monad (P F) where
  pure := P.pure
  bind := P.bind

/-- Rust panic -/
def fail : P F α := fun _ _ => .panic

/-- lift a pure fallible computation -/
def ofR (r : R α) : P F α := fun cur st => r.bind fun a => .ok (a, cur, st)

end P

/-- drop leading non-element children (`Node::peek` advances over them) -/
def skipJunk : Cur → Cur
  | .node t a c :: r => .node t a c :: r
  | _ :: r => skipJunk r
  | [] => []

/-- tag of the next element child, if any -/
def peekTag (cur : Cur) : Option Str :=
  match skipJunk cur with
  | .node t _ _ :: _ => some t
  | _ => none

/-- `Node::next`: the next element child `(tag, attrs, children)`, consumed. -/
def next : P F (Option (Str × List (Str × Str) × List Elem)) := fun cur st =>
  match skipJunk cur with
  | .node t a c :: r => .ok (some (t, a, c), r, st)
  | _ => .ok (none, [], st)

/-- `Node::next().unwrap()` -/
def nextElem : P F (Str × List (Str × Str) × List Elem) := fun cur st =>
  match skipJunk cur with
  | .node t a c :: r => .ok ((t, a, c), r, st)
  | _ => .panic

/-- `node.peek().unwrap()` without consuming: `(tag, attrs, children)` -/
def peekElem : P F (Str × List (Str × Str) × List Elem) := fun cur st =>
  match skipJunk cur with
  | .node t a c :: r => .ok ((t, a, c), .node t a c :: r, st)
  | _ => .panic

/-- `Node::next_if(tag)` -/
def nextIf (tag : Str) : P F (Option (Str × List (Str × Str) × List Elem)) := fun cur st =>
  match skipJunk cur with
  | .node t a c :: r => if t = tag then .ok (some (t, a, c), r, st) else .ok (none, .node t a c :: r, st)
  | _ => .ok (none, [], st)

/-- `Node::parse_if(tag, …)` for a `T::parse` that works on the parent cursor. -/
def parseIf {α : Type} (tag : Str) (p : P F α) : P F (Option α) := fun cur st =>
  match skipJunk cur with
  | .node t a c :: r =>
    if t = tag then
      (p (.node t a c :: r) st).bind fun x => .ok (some x.1, x.2.1, x.2.2)
    else .ok (none, .node t a c :: r, st)
  | _ => .ok (none, [], st)

/-- `while let Some(x) = step() { res.push(x) }`; every successful step consumes at
least one child, so `fuel = number of children + 1` is never exhausted. -/
def whileSome {α : Type} (step : P F (Option α)) : Nat → P F (List α)
  | 0 => P.fail
  | fuel + 1 => fun cur st =>
    (step cur st).bind fun r =>
      match r.1 with
      | some x => (whileSome step fuel r.2.1 r.2.2).bind fun r2 => .ok (x :: r2.1, r2.2.1, r2.2.2)
      | none => .ok ([], r.2.1, r.2.2)

/-- `Node::parse_while(tag, …)` -/
def parseWhile {α : Type} (tag : Str) (p : P F α) : P F (List α) := fun cur st =>
  whileSome (parseIf tag p) (cur.length + 1) cur st

/-- `a.or_else(|| b)` on two optional parse steps -/
def orElse {α : Type} (a b : P F (Option α)) : P F (Option α) := do
  match ← a with
  | some x => pure (some x)
  | none => b

/-! ### Builder operations -/

/-- `NodeStoreBuilder::get_or_intern` -/
def intern (name : Str) : P F Nat := fun cur st =>
  let (id, names) := internName st.names name
  .ok (id, cur, { st with names := names })

/-- `NodeStoreBuilder::fresh_id` -/
def freshId : P F Nat := fun cur st => .ok (st.fresh, cur, { st with fresh := st.fresh + 1 })

/-- `ValueStoreBuilder::store` -/
def storeValue (v : Value F) : P F Nat := fun cur st =>
  .ok (st.values.length, cur, { st with values := st.values ++ [v] })

/-- `CacheStoreBuilder::store_invalidator` -/
def storeInvalidator (invalidator target : Nat) : P F Unit := fun cur st =>
  .ok ((), cur, { st with invals := st.invals ++ [(invalidator, target)] })

/-- `NodeStoreBuilder::store_node`; `debug_assert!(self.store[id].is_none())`. -/
def storeNode (p : Profile) (id : Nat) (d : NodeData F) : P F Unit := fun cur st =>
  if p.debugAsserts && st.nodes.any (fun x => x.1 == id) then .panic
  else .ok ((), cur, { st with nodes := st.nodes.filter (fun x => x.1 != id) ++ [(id, d)] })

/-! ### Leaf parsers (`impl Parse for …` in `elem_type.rs`) -/

/-- `node.next_text().unwrap()` followed by `.view()` -/
def nextText : P F Str := do
  let (_, _, children) ← nextElem
  P.ofR (textView children)

/-- `node.peek().unwrap().text().view()` -/
def peekText : P F Str := do
  let (_, _, children) ← peekElem
  P.ofR (textView children)

def pString : P F Str := nextText
def pI64 : P F Int := do P.ofR (convertToInt (← nextText))
def pU64 : P F Nat := do P.ofR (convertToUint (← nextText))
def pBool : P F Bool := do P.ofR (convertToBool (← nextText))
def pF64 [FloatLit F] : P F F := do P.ofR (convertToFloat (← nextText))
def pNodeId : P F Nat := do intern (← nextText)
def pTable {α : Type} (table : List (Str × α)) : P F α := do P.ofR (lookupTable table (← nextText))

/-- `impl Parse for IntegerId` -/
def pIntegerId : P F Nat := do storeValue (.int (← pI64))
/-- `impl Parse for FloatId` -/
def pFloatId [FloatLit F] : P F Nat := do storeValue (.float (← pF64))

/-- `impl Parse for ImmOrPNode<i64>`: sniff the first character. -/
def pImmOrPInt : P F (ImmOrP Int) := do
  let t ← peekText
  if ← P.ofR (firstIsAlphabetic t) then return .pnode (← pNodeId) else return .imm (← pI64)

/-- `impl Parse for ImmOrPNode<f64>` -/
def pImmOrPFloat [FloatLit F] : P F (ImmOrP F) := do
  let t ← peekText
  if t = cs!"INF" ∨ t = cs!"-INF" ∨ t = cs!"NaN" then return .imm (← pF64)
  else if !(← P.ofR (firstIsAlphabetic t)) then return .imm (← pF64)
  else return .pnode (← pNodeId)

/-- `impl Parse for ImmOrPNode<bool>` -/
def pImmOrPBool : P F (ImmOrP Bool) := do
  let t ← peekText
  if (convertToBoolOpt t).isSome then return .imm (← pBool) else return .pnode (← pNodeId)

/-- `impl Parse for ImmOrPNode<IntegerId>` -/
def pImmOrPIntegerId : P F (ImmOrP Nat) := do
  match ← pImmOrPInt with
  | .imm i => return .imm (← storeValue (.int i))
  | .pnode id => return .pnode id

/-- `impl Parse for ImmOrPNode<FloatId>` -/
def pImmOrPFloatId [FloatLit F] : P F (ImmOrP Nat) := do
  match ← pImmOrPFloat with
  | .imm f => return .imm (← storeValue (.float f))
  | .pnode id => return .pnode id

/-- `impl Parse for NamedValue<T>` -/
def pNamedValue {α : Type} (p : P F α) : P F (NamedValue α) := do
  let (_, attrs, _) ← peekElem
  let name ← P.ofR (ofOpt (attrOf attrs cs!"Name"))
  let value ← p
  return ⟨name, value⟩

/-- `impl Parse for PValue<T>` -/
def pPValue : P F PValue := do
  let copies ← parseWhile cs!"pValueCopy" pNodeId
  let pValue ← pNodeId
  let copies2 ← parseWhile cs!"pValueCopy" pNodeId
  return ⟨pValue, copies ++ copies2⟩

/-- `impl Parse for ValueIndexed<T>` -/
def pValueIndexed (pImm : P F (ImmOrP Nat)) : P F (ValueIndexed Nat) := do
  let (_, attrs, _) ← peekElem
  let index ← P.ofR (ofOpt (attrOf attrs cs!"Index") >>= convertToInt)
  let indexed ← pImm
  return ⟨index, indexed⟩

/-- `impl Parse for PIndex<T>` -/
def pPIndex (pImm : P F (ImmOrP Nat)) : P F (PIndex Nat) := fun cur st =>
  (do
    let pIndex ← pNodeId
    let valueIndexed ← whileSome
      (orElse (parseIf cs!"ValueIndexed" (pValueIndexed pImm))
              (parseIf cs!"pValueIndexed" (pValueIndexed pImm))) (cur.length + 1)
    let valueDefault ← pImm
    return ⟨pIndex, valueIndexed, valueDefault⟩ : P F (PIndex Nat)) cur st

/-- `impl Parse for ValueKind<T>` (`pId` parses `T`, `pImm` parses `ImmOrPNode<T>`). -/
def pValueKind (pId : P F Nat) (pImm : P F (ImmOrP Nat)) : P F (ValueKind Nat) := do
  let (tag, _, _) ← peekElem
  if tag = cs!"Value" then return .value (← pId)
  else if tag = cs!"pValueCopy" ∨ tag = cs!"pValue" then return .pValue (← pPValue)
  else if tag = cs!"pIndex" then return .pIndex (← pPIndex pImm)
  else P.fail

/-- `impl Parse for RegPIndex` -/
def pRegPIndex : P F RegPIndex := do
  let (_, attrs, _) ← peekElem
  let immOffset ← match attrOf attrs cs!"Offset" with
    | some s => do pure (some (ImmOrP.imm (← P.ofR (convertToInt s))))
    | none => pure none
  let pnodeOffset ← match attrOf attrs cs!"pOffset" with
    | some s => do pure (some (ImmOrP.pnode (α := Int) (← intern s)))
    | none => pure none
  -- `Option::xor`
  let offset := match immOffset, pnodeOffset with
    | some a, none => some a
    | none, some b => some b
    | _, _ => none
  let pIndex ← pNodeId
  return ⟨offset, pIndex⟩

/-- `impl Parse for BitMask` -/
def pBitMask : P F BitMask := do
  match ← parseIf cs!"Bit" pU64 with
  | some b => return .singleBit b
  | none =>
    let lsb ← pU64
    let msb ← pU64
    return .range lsb msb

/-! ### `node_base.rs` -/

/-- attribute part shared by `NodeAttributeBase::parse` and `EnumEntryNode::parse` -/
def attrRest (attrs : List (Str × Str)) : R (NameSpace × MergePriority × Option Bool) := do
  let nameSpace ← match attrOf attrs cs!"NameSpace" with
    | some t => lookupTable nameSpaceTable t
    | none => pure NameSpace.custom
  let mergePriority ← match attrOf attrs cs!"MergePriority" with
    | some t => lookupTable mergePriorityTable t
    | none => pure MergePriority.mid
  let exposeStatic ← match attrOf attrs cs!"ExposeStatic" with
    | some t => do pure (some (← convertToBool t))
    | none => pure none
  return (nameSpace, mergePriority, exposeStatic)

/-- `impl Parse for NodeAttributeBase` (reads the attributes of the current node). -/
def pAttrBase (attrs : List (Str × Str)) : P F AttrBase := do
  let name ← P.ofR (ofOpt (attrOf attrs cs!"Name"))
  let id ← intern name
  let (nameSpace, mergePriority, exposeStatic) ← P.ofR (attrRest attrs)
  return ⟨id, nameSpace, mergePriority, exposeStatic⟩

/-- `node.next_if(tag).map(|n| u64::from_str_radix(&n.text().view(), 16).unwrap())` -/
def pOptHexElem (tag : Str) : P F (Option Nat) := do
  match ← nextIf tag with
  | some (_, _, children) =>
    let t ← P.ofR (textView children)
    return some (← P.ofR (ofOpt (parseU64 16 t)))
  | none => return none

/-- `impl Parse for NodeElementBase` (consumes trailing `pInvalidator`s). -/
def pElemBase : P F ElemBase := do
  let _extension ← parseIf cs!"Extension" pString
  let tooltip ← parseIf cs!"ToolTip" pString
  let description ← parseIf cs!"Description" pString
  let displayName ← parseIf cs!"DisplayName" pString
  let visibility ← parseIf cs!"Visibility" (pTable visibilityTable)
  let docuUrl ← parseIf cs!"DocuURL" pString
  let isDeprecated ← parseIf cs!"IsDeprecated" pBool
  let eventId ← pOptHexElem cs!"EventID"
  let pIsImplemented ← parseIf cs!"pIsImplemented" pNodeId
  let pIsAvailable ← parseIf cs!"pIsAvailable" pNodeId
  let pIsLocked ← parseIf cs!"pIsLocked" pNodeId
  let pBlockPolling ← parseIf cs!"pBlockPolling" pNodeId
  let imposedAccessMode ← parseIf cs!"ImposedAccessMode" (pTable accessModeTable)
  let pErrors ← parseWhile cs!"pError" pNodeId
  let pAlias ← parseIf cs!"pAlias" pNodeId
  let pCastAlias ← parseIf cs!"pCastAlias" pNodeId
  let pInvalidators ← parseWhile cs!"pInvalidator" pNodeId
  return {
    tooltip, description, displayName
    visibility := visibility.getD .beginner
    docuUrl
    isDeprecated := isDeprecated.getD false
    eventId, pIsImplemented, pIsAvailable, pIsLocked, pBlockPolling
    imposedAccessMode := imposedAccessMode.getD .rw
    pErrors, pAlias, pCastAlias, pInvalidators }


/-! ### `register_base.rs` and the node kinds -/

variable [FloatLit F]

/-- optional element with a default (`parse_if(..).unwrap_or(d)`) -/
def parseIfD {α : Type} (tag : Str) (p : P F α) (d : α) : P F α := do
  return (← parseIf tag p).getD d

/-- `pVariable*`, `Constant*`, `Expression*` then what follows — shared by the four formula kinds -/
def pVariables : P F (List (NamedValue Nat)) := parseWhile cs!"pVariable" (pNamedValue pNodeId)
/-- `impl Parse for Expr` / `Formula`: the text must be accepted by `formula::parse` -/
def pFormula : P F Str := do
  let t ← nextText
  if FloatLit.formulaOk (F := F) t then return t else P.fail
def pExpressions : P F (List (NamedValue Str)) := parseWhile cs!"Expression" (pNamedValue pFormula)

/-- `impl Parse for IntSwissKnifeNode` on the element's own attributes / child cursor -/
def pIntSwissKnife (attrs : List (Str × Str)) : P F IntSwissKnifeNode := do
  let attr ← pAttrBase attrs
  let elem ← pElemBase
  let streamable ← parseIfD cs!"Streamable" pBool false
  let pVariables ← pVariables
  let constants ← parseWhile cs!"Constant" (pNamedValue pI64)
  let expressions ← pExpressions
  let formula ← pFormula
  let unit ← parseIf cs!"Unit" pString
  let representation ← parseIfD cs!"Representation" (pTable intReprTable) .pureNumber
  return { attr, elem, streamable, pVariables, constants, expressions, formula, unit, representation }

/-- run a parser on a child element's own cursor (`child.parse(..)`): the child's
cursor is dropped afterwards, the builder state is threaded. -/
def onChild {α : Type} (children : List Elem) (p : P F α) : P F α := fun cur st =>
  (p children st).bind fun r => .ok (r.1, cur, r.2.2)

/-- `impl Parse for AddressKind` -/
def pAddressKind (pr : Profile) : P F AddressKind := do
  let (tag, _, _) ← peekElem
  if tag = cs!"Address" ∨ tag = cs!"pAddress" then return .address (← pImmOrPInt)
  else if tag = cs!"IntSwissKnife" then
    let (_, attrs, children) ← nextElem
    let sk ← onChild children (pIntSwissKnife attrs)
    storeNode pr sk.attr.id (.intSwissKnife sk)
    return .intSwissKnife sk.attr.id
  else if tag = cs!"pIndex" then return .pIndex (← pRegPIndex)
  else P.fail

/-- `impl Parse for RegisterBase` -/
def pRegBase (pr : Profile) : P F RegBase := fun cur st =>
  (do
    let elemBase ← pElemBase
    let streamable ← parseIfD cs!"Streamable" pBool false
    let addressKinds ← whileSome
      (orElse (parseIf cs!"Address" (pAddressKind pr))
        (orElse (parseIf cs!"IntSwissKnife" (pAddressKind pr))
          (orElse (parseIf cs!"pAddress" (pAddressKind pr))
                  (parseIf cs!"pIndex" (pAddressKind pr))))) (cur.length + 1)
    let length ← pImmOrPInt
    let accessMode ← parseIfD cs!"AccessMode" (pTable accessModeTable) .ro
    let pPort ← pNodeId
    let cacheable ← parseIfD cs!"Cachable" (pTable cachingModeTable) .writeThrough
    let pollingTime ← parseIf cs!"PollingTime" pU64
    let pInvalidators ← parseWhile cs!"pInvalidator" pNodeId
    -- debug_assert!(elem_base.p_invalidators.is_empty())
    if pr.debugAsserts && !elemBase.pInvalidators.isEmpty then P.fail
    else return { elemBase, streamable, addressKinds, length, accessMode, pPort, cacheable,
                  pollingTime, pInvalidators } : P F RegBase) cur st

/-- `RegisterBase::store_invalidators` -/
def storeInvalidators (invalidators : List Nat) (target : Nat) : P F Unit :=
  match invalidators with
  | [] => pure ()
  | i :: r => do storeInvalidator i target; storeInvalidators r target

def pPlainNode (attrs : List (Str × Str)) : P F PlainNode := do
  let attr ← pAttrBase attrs
  let elem ← pElemBase
  return { attr, elem }

def pCategory (attrs : List (Str × Str)) : P F CategoryNode := do
  let attr ← pAttrBase attrs
  let elem ← pElemBase
  let pFeatures ← parseWhile cs!"pFeature" pNodeId
  return { attr, elem, pFeatures }

def pInteger (attrs : List (Str × Str)) : P F IntegerNode := do
  let attr ← pAttrBase attrs
  let elem ← pElemBase
  let streamable ← parseIfD cs!"Streamable" pBool false
  let valueKind ← pValueKind pIntegerId pImmOrPIntegerId
  let min ← orElse (parseIf cs!"Min" pImmOrPIntegerId) (parseIf cs!"pMin" pImmOrPIntegerId)
  let max ← orElse (parseIf cs!"Max" pImmOrPIntegerId) (parseIf cs!"pMax" pImmOrPIntegerId)
  let inc ← orElse (parseIf cs!"Inc" pImmOrPInt) (parseIf cs!"pInc" pImmOrPInt)
  let unit ← parseIf cs!"Unit" pString
  let representation ← parseIfD cs!"Representation" (pTable intReprTable) .pureNumber
  let pSelected ← parseWhile cs!"pSelected" pNodeId
  let min ← match min with
    | some m => pure m
    | none => do pure (.imm (← storeValue (.int representation.deduceMin)))
  let max ← match max with
    | some m => pure m
    | none => do pure (.imm (← storeValue (.int representation.deduceMax)))
  return { attr, elem, streamable, valueKind, min, max, inc := inc.getD (.imm 1), unit,
           representation, pSelected }

def pIntReg (pr : Profile) (attrs : List (Str × Str)) : P F IntRegNode := do
  let attr ← pAttrBase attrs
  let reg ← pRegBase pr
  let sign ← parseIfD cs!"Sign" (pTable signTable) .unsigned
  let endianness ← parseIfD cs!"Endianess" (pTable endiannessTable) .le
  let unit ← parseIf cs!"Unit" pString
  let representation ← parseIfD cs!"Representation" (pTable intReprTable) .pureNumber
  let pSelected ← parseWhile cs!"pSelected" pNodeId
  storeInvalidators reg.pInvalidators attr.id
  return { attr, reg, sign, endianness, unit, representation, pSelected }

def pMaskedIntReg (pr : Profile) (attrs : List (Str × Str)) : P F MaskedIntRegNode := do
  let attr ← pAttrBase attrs
  let reg ← pRegBase pr
  let bitMask ← pBitMask
  let sign ← parseIfD cs!"Sign" (pTable signTable) .unsigned
  let endianness ← parseIfD cs!"Endianess" (pTable endiannessTable) .le
  let unit ← parseIf cs!"Unit" pString
  let representation ← parseIfD cs!"Representation" (pTable intReprTable) .pureNumber
  let pSelected ← parseWhile cs!"pSelected" pNodeId
  storeInvalidators reg.pInvalidators attr.id
  return { attr, reg, bitMask, sign, endianness, unit, representation, pSelected }

def pBoolean (attrs : List (Str × Str)) : P F BooleanNode := do
  let attr ← pAttrBase attrs
  let elem ← pElemBase
  let streamable ← parseIfD cs!"Streamable" pBool false
  let value ← pImmOrPBool
  let onValue ← parseIfD cs!"OnValue" pI64 1
  let offValue ← parseIfD cs!"OffValue" pI64 0
  let pSelected ← parseWhile cs!"pSelected" pNodeId
  let value ← match value with
    | .imm b => do pure (ImmOrP.imm (← storeValue (.int (if b then onValue else offValue))))
    | .pnode id => pure (.pnode id)
  return { attr, elem, streamable, value, onValue, offValue, pSelected }

def pCommand (attrs : List (Str × Str)) : P F CommandNode := do
  let attr ← pAttrBase attrs
  let elem ← pElemBase
  let value ← pImmOrPIntegerId
  let commandValue ← pImmOrPIntegerId
  let pollingTime ← parseIf cs!"PollingTime" pU64
  return { attr, elem, value, commandValue, pollingTime }

/-- `impl Parse for EnumEntryNode` -/
def pEnumEntry (attrs : List (Str × Str)) : P F (EnumEntryNode F) := do
  let symbolic ← P.ofR (ofOpt (attrOf attrs cs!"Name"))
  let fresh ← freshId
  let id ← intern ('$' :: symbolic ++ '_' :: Nat.toDigits 10 fresh)
  let (nameSpace, mergePriority, exposeStatic) ← P.ofR (attrRest attrs)
  let elem ← pElemBase
  let value ← pI64
  let numericValue ← parseIf cs!"NumericValue" pF64
  let isSelfClearing ← parseIfD cs!"IsSelfClearing" pBool false
  return { attr := ⟨id, nameSpace, mergePriority, exposeStatic⟩, elem, value, numericValue,
           symbolic, isSelfClearing }

/-- one round of the `while let Some(ent) = node.next_if(ENUM_ENTRY)` loop -/
def pEnumEntryStep (pr : Profile) : P F (Option Nat) := do
  match ← nextIf cs!"EnumEntry" with
  | some (_, attrs, children) =>
    let entry ← onChild children (pEnumEntry attrs)
    storeNode pr entry.attr.id (.enumEntry entry)
    return some entry.attr.id
  | none => return none

def pEnumeration (pr : Profile) (attrs : List (Str × Str)) : P F EnumerationNode := fun cur st =>
  (do
    let attr ← pAttrBase attrs
    let elem ← pElemBase
    let streamable ← parseIfD cs!"Streamable" pBool false
    let entries ← whileSome (pEnumEntryStep pr) (cur.length + 1)
    let value ← pImmOrPIntegerId
    let pSelected ← parseWhile cs!"pSelected" pNodeId
    let pollingTime ← parseIf cs!"PollingTime" pU64
    return { attr, elem, streamable, entries, value, pSelected, pollingTime } : P F EnumerationNode) cur st

def pFloat (attrs : List (Str × Str)) : P F (FloatNode F) := do
  let attr ← pAttrBase attrs
  let elem ← pElemBase
  let streamable ← parseIfD cs!"Streamable" pBool false
  let valueKind ← pValueKind pFloatId pImmOrPFloatId
  let min ← orElse (parseIf cs!"Min" pImmOrPFloatId) (parseIf cs!"pMin" pImmOrPFloatId)
  let min ← match min with
    | some m => pure m
    | none => do pure (.imm (← storeValue (.float FloatLit.f64Min)))
  let max ← orElse (parseIf cs!"Max" pImmOrPFloatId) (parseIf cs!"pMax" pImmOrPFloatId)
  let max ← match max with
    | some m => pure m
    | none => do pure (.imm (← storeValue (.float FloatLit.f64Max)))
  let inc ← orElse (parseIf cs!"Inc" pImmOrPFloat) (parseIf cs!"pInc" pImmOrPFloat)
  let unit ← parseIf cs!"Unit" pString
  let representation ← parseIfD cs!"Representation" (pTable floatReprTable) .pureNumber
  let displayNotation ← parseIfD cs!"DisplayNotation" (pTable displayNotationTable) .automatic
  let displayPrecision ← parseIfD cs!"DisplayPrecision" pI64 6
  return { attr, elem, streamable, valueKind, min, max, inc, unit, representation,
           displayNotation, displayPrecision }

def pFloatReg (pr : Profile) (attrs : List (Str × Str)) : P F FloatRegNode := do
  let attr ← pAttrBase attrs
  let reg ← pRegBase pr
  let endianness ← parseIfD cs!"Endianess" (pTable endiannessTable) .le
  let unit ← parseIf cs!"Unit" pString
  let representation ← parseIfD cs!"Representation" (pTable floatReprTable) .pureNumber
  let displayNotation ← parseIfD cs!"DisplayNotation" (pTable displayNotationTable) .automatic
  let displayPrecision ← parseIfD cs!"DisplayPrecision" pI64 6
  storeInvalidators reg.pInvalidators attr.id
  return { attr, reg, endianness, unit, representation, displayNotation, displayPrecision }

/-- `Value` (immediate, stored) or the next element as a node reference -/
def pStringValue : P F (ImmOrP Nat) := do
  match ← nextIf cs!"Value" with
  | some (_, _, children) =>
    let t ← P.ofR (textView children)
    return .imm (← storeValue (.str t))
  | none => return .pnode (← intern (← nextText))

def pStringNode (attrs : List (Str × Str)) : P F StringNode := do
  let attr ← pAttrBase attrs
  let elem ← pElemBase
  let streamable ← parseIfD cs!"Streamable" pBool false
  let value ← pStringValue
  return { attr, elem, streamable, value }

/-- `StringRegNode` / `RegisterNode` -/
def pPlainReg (pr : Profile) (attrs : List (Str × Str)) : P F PlainRegNode := do
  let attr ← pAttrBase attrs
  let reg ← pRegBase pr
  storeInvalidators reg.pInvalidators attr.id
  return { attr, reg }

/-- `ChunkID` (bare hexadecimal) | `pChunkID` | nothing -/
def pChunkId : P F (Option (ImmOrP Nat)) := do
  match ← pOptHexElem cs!"ChunkID" with
  | some n => return some (.imm n)
  | none =>
    match ← nextIf cs!"pChunkID" with
    | some (_, _, children) =>
      let t ← P.ofR (textView children)
      return some (.pnode (← intern t))
    | none => return none

def pPort (attrs : List (Str × Str)) : P F PortNode := do
  let attr ← pAttrBase attrs
  let elem ← pElemBase
  let chunkId ← pChunkId
  let swapEndianness ← parseIfD cs!"SwapEndianess" pBool false
  let cacheChunkData ← parseIfD cs!"CacheChunkData" pBool false
  return { attr, elem, chunkId, swapEndianness, cacheChunkData }

def pConverter (attrs : List (Str × Str)) : P F (ConverterNode F) := do
  let attr ← pAttrBase attrs
  let elem ← pElemBase
  let streamable ← parseIfD cs!"Streamable" pBool false
  let pVariables ← pVariables
  let constants ← parseWhile cs!"Constant" (pNamedValue pF64)
  let expressions ← pExpressions
  let formulaTo ← pFormula
  let formulaFrom ← pFormula
  let pValue ← pNodeId
  let unit ← parseIf cs!"Unit" pString
  let representation ← parseIfD cs!"Representation" (pTable floatReprTable) .pureNumber
  let displayNotation ← parseIfD cs!"DisplayNotation" (pTable displayNotationTable) .automatic
  let displayPrecision ← parseIfD cs!"DisplayPrecision" pI64 6
  let slope ← parseIfD cs!"Slope" (pTable slopeTable) .automatic
  let isLinear ← parseIfD cs!"IsLinear" pBool false
  return { attr, elem, streamable, pVariables, constants, expressions, formulaTo, formulaFrom,
           pValue, unit, representation, displayNotation, displayPrecision, slope, isLinear }

def pIntConverter (attrs : List (Str × Str)) : P F IntConverterNode := do
  let attr ← pAttrBase attrs
  let elem ← pElemBase
  let streamable ← parseIfD cs!"Streamable" pBool false
  let pVariables ← pVariables
  let constants ← parseWhile cs!"Constant" (pNamedValue pI64)
  let expressions ← pExpressions
  let formulaTo ← pFormula
  let formulaFrom ← pFormula
  let pValue ← pNodeId
  let unit ← parseIf cs!"Unit" pString
  let representation ← parseIfD cs!"Representation" (pTable intReprTable) .pureNumber
  let slope ← parseIfD cs!"Slope" (pTable slopeTable) .automatic
  return { attr, elem, streamable, pVariables, constants, expressions, formulaTo, formulaFrom,
           pValue, unit, representation, slope }

def pSwissKnife (attrs : List (Str × Str)) : P F (SwissKnifeNode F) := do
  let attr ← pAttrBase attrs
  let elem ← pElemBase
  let streamable ← parseIfD cs!"Streamable" pBool false
  let pVariables ← pVariables
  let constants ← parseWhile cs!"Constant" (pNamedValue pF64)
  let expressions ← pExpressions
  let formula ← pFormula
  let unit ← parseIf cs!"Unit" pString
  let representation ← parseIfD cs!"Representation" (pTable floatReprTable) .pureNumber
  let displayNotation ← parseIfD cs!"DisplayNotation" (pTable displayNotationTable) .automatic
  let displayPrecision ← parseIfD cs!"DisplayPrecision" pI64 6
  return { attr, elem, streamable, pVariables, constants, expressions, formula, unit,
           representation, displayNotation, displayPrecision }

/-! ### `struct_reg.rs` -/

/-- `Declared`: the defaultable properties a `StructEntry` declares explicitly -/
structure Declared where
  visibility : Bool
  isDeprecated : Bool
  imposedAccessMode : Bool
  streamable : Bool
  accessMode : Bool
  cacheable : Bool
  deriving Repr, DecidableEq, Inhabited

/-- `xml::Node::has_child`: some child element (anywhere among the children) has this tag -/
def hasChild (children : List Elem) (tag : Str) : Bool :=
  children.any fun e => match e with
    | .node t _ _ => t == tag
    | _ => false

structure StructEntryNode where
  attr : AttrBase
  elem : ElemBase
  declared : Declared
  pInvalidators : List Nat
  accessMode : AccessMode
  cacheable : CachingMode
  pollingTime : Option Nat
  streamable : Bool
  bitMask : BitMask
  sign : Sign
  unit : Option Str
  representation : IntRepr
  pSelected : List Nat
  deriving Repr, DecidableEq, Inhabited

structure StructRegNode where
  reg : RegBase
  endianness : Endianness
  entries : List StructEntryNode
  deriving Repr, DecidableEq, Inhabited

/-- `impl Parse for StructEntryNode`.  The entry's `pInvalidator`s directly follow the
element base, whose parser consumes them; they are moved from there into the entry. -/
def pStructEntry (pr : Profile) (tag : Str) (attrs : List (Str × Str)) (children : List Elem) :
    P F StructEntryNode := do
  -- debug_assert_eq!(node.tag_name(), STRUCT_ENTRY): the caller takes ANY next child
  if pr.debugAsserts && tag != cs!"StructEntry" then P.fail
  let declared : Declared :=
    { visibility := hasChild children cs!"Visibility"
      isDeprecated := hasChild children cs!"IsDeprecated"
      imposedAccessMode := hasChild children cs!"ImposedAccessMode"
      streamable := hasChild children cs!"Streamable"
      accessMode := hasChild children cs!"AccessMode"
      cacheable := hasChild children cs!"Cachable" }
  let attr ← pAttrBase attrs
  let elem ← pElemBase
  let more ← parseWhile cs!"pInvalidator" pNodeId
  let pInvalidators := elem.pInvalidators ++ more
  let elem := { elem with pInvalidators := [] }
  let accessMode ← parseIfD cs!"AccessMode" (pTable accessModeTable) .ro
  let cacheable ← parseIfD cs!"Cachable" (pTable cachingModeTable) .writeThrough
  let pollingTime ← parseIf cs!"PollingTime" pU64
  let streamable ← parseIfD cs!"Streamable" pBool false
  let bitMask ← pBitMask
  let sign ← parseIfD cs!"Sign" (pTable signTable) .unsigned
  let unit ← parseIf cs!"Unit" pString
  let representation ← parseIfD cs!"Representation" (pTable intReprTable) .pureNumber
  let pSelected ← parseWhile cs!"pSelected" pNodeId
  return { attr, elem, declared, pInvalidators, accessMode, cacheable, pollingTime, streamable,
           bitMask, sign, unit, representation, pSelected }

/-- `merge_impl!(lhs, rhs, name)`: the entry's `Some` wins -/
def mergeOpt {α : Type} (lhs rhs : Option α) : Option α := if rhs.isSome then rhs else lhs
/-- `merge_impl!(lhs, rhs, name, declared flag)`: the entry's value wins iff it is declared -/
def mergeDeclared {α : Type} (declared : Bool) (lhs rhs : α) : α := if declared then rhs else lhs
/-- `merge_impl!(lhs, rhs, name, vec)`: the entry's non-empty list wins -/
def mergeVec {α : Type} (lhs rhs : List α) : List α := if !rhs.isEmpty then rhs else lhs

/-- `NodeElementBase::merge` (`p_invalidators` of the element base is not merged). -/
def ElemBase.merge (l r : ElemBase) (d : Declared) : ElemBase :=
  { tooltip := mergeOpt l.tooltip r.tooltip
    description := mergeOpt l.description r.description
    displayName := mergeOpt l.displayName r.displayName
    visibility := mergeDeclared d.visibility l.visibility r.visibility
    docuUrl := mergeOpt l.docuUrl r.docuUrl
    isDeprecated := mergeDeclared d.isDeprecated l.isDeprecated r.isDeprecated
    eventId := mergeOpt l.eventId r.eventId
    pIsImplemented := mergeOpt l.pIsImplemented r.pIsImplemented
    pIsAvailable := mergeOpt l.pIsAvailable r.pIsAvailable
    pIsLocked := mergeOpt l.pIsLocked r.pIsLocked
    pBlockPolling := mergeOpt l.pBlockPolling r.pBlockPolling
    imposedAccessMode := mergeDeclared d.imposedAccessMode l.imposedAccessMode r.imposedAccessMode
    pErrors := mergeVec l.pErrors r.pErrors
    pAlias := mergeOpt l.pAlias r.pAlias
    pCastAlias := mergeOpt l.pCastAlias r.pCastAlias
    pInvalidators := l.pInvalidators }

/-- `StructEntryNode::into_masked_int_reg` without the invalidator registration -/
def StructEntryNode.toMasked (e : StructEntryNode) (reg : RegBase) (endianness : Endianness) :
    MaskedIntRegNode :=
  { attr := e.attr
    reg := { reg with
      elemBase := reg.elemBase.merge e.elem e.declared
      streamable := mergeDeclared e.declared.streamable reg.streamable e.streamable
      accessMode := mergeDeclared e.declared.accessMode reg.accessMode e.accessMode
      cacheable := mergeDeclared e.declared.cacheable reg.cacheable e.cacheable
      pollingTime := mergeOpt reg.pollingTime e.pollingTime
      pInvalidators := mergeVec reg.pInvalidators e.pInvalidators }
    bitMask := e.bitMask, sign := e.sign, endianness, unit := e.unit
    representation := e.representation, pSelected := e.pSelected }

/-- `impl Parse for StructRegNode` entries loop: `while let Some(entry) = node.next()` -/
def pStructEntries (pr : Profile) : Nat → P F (List StructEntryNode)
  | 0 => P.fail
  | fuel + 1 => do
    match ← next with
    | some (tag, attrs, children) =>
      let e ← onChild children (pStructEntry pr tag attrs children)
      let es ← pStructEntries pr fuel
      return e :: es
    | none => return []

def pStructReg (pr : Profile) : P F StructRegNode := fun cur st =>
  (do
    let reg ← pRegBase pr
    let endianness ← parseIfD cs!"Endianess" (pTable endiannessTable) .le
    let entries ← pStructEntries pr (cur.length + 1)
    return { reg, endianness, entries } : P F StructRegNode) cur st

/-- `StructRegNode::into_masked_int_regs` -/
def intoMaskedIntRegs (s : StructRegNode) : List StructEntryNode → P F (List MaskedIntRegNode)
  | [] => pure []
  | e :: es => do
    let m := e.toMasked s.reg s.endianness
    storeInvalidators m.reg.pInvalidators m.attr.id
    let ms ← intoMaskedIntRegs s es
    return m :: ms

/-! ### dispatch (`parser/mod.rs`) -/

def dcamTags : List Str :=
  [cs!"ConfRom", cs!"TextDesc", cs!"IntKey", cs!"AdvFeatureLock", cs!"SmartFeature"]

mutual
/-- `impl Parse for Vec<NodeData>`, running on the element's own cursor (`attrs`, `children`
are the element's; `fuel` bounds `Group` nesting: it is the depth of the tree, so it is never
exhausted). -/
def pNodeDatas (pr : Profile) (fuel : Nat) (tag : Str) (attrs : List (Str × Str))
    (children : List Elem) : P F (List (NodeData F)) :=
  match fuel with
  | 0 => P.fail
  | fuel + 1 =>
    if tag = cs!"Node" then do return [.node (← pPlainNode attrs)]
    else if tag = cs!"Category" then do return [.category (← pCategory attrs)]
    else if tag = cs!"Integer" then do return [.integer (← pInteger attrs)]
    else if tag = cs!"IntReg" then do return [.intReg (← pIntReg pr attrs)]
    else if tag = cs!"MaskedIntReg" then do return [.maskedIntReg (← pMaskedIntReg pr attrs)]
    else if tag = cs!"Boolean" then do return [.boolean (← pBoolean attrs)]
    else if tag = cs!"Command" then do return [.command (← pCommand attrs)]
    else if tag = cs!"Enumeration" then do return [.enumeration (← pEnumeration pr attrs)]
    else if tag = cs!"Float" then do return [.float (← pFloat attrs)]
    else if tag = cs!"FloatReg" then do return [.floatReg (← pFloatReg pr attrs)]
    else if tag = cs!"String" then do return [.string (← pStringNode attrs)]
    else if tag = cs!"StringReg" then do return [.stringReg (← pPlainReg pr attrs)]
    else if tag = cs!"Register" then do return [.register (← pPlainReg pr attrs)]
    else if tag = cs!"Converter" then do return [.converter (← pConverter attrs)]
    else if tag = cs!"IntConverter" then do return [.intConverter (← pIntConverter attrs)]
    else if tag = cs!"SwissKnife" then do return [.swissKnife (← pSwissKnife attrs)]
    else if tag = cs!"IntSwissKnife" then do return [.intSwissKnife (← pIntSwissKnife attrs)]
    else if tag = cs!"Port" then do return [.port (← pPort attrs)]
    else if tag = cs!"StructReg" then do
      let s ← pStructReg pr
      let ms ← intoMaskedIntRegs s s.entries
      return ms.map .maskedIntReg
    else if tag = cs!"Group" then pGroupChildren pr fuel (children.length + 1)
    else P.fail  -- DCAM tags: `todo!()`, anything else: `unreachable!()`

/-- `GroupNode::parse`: `while let Some(child) = node.next()` collecting all node data -/
def pGroupChildren (pr : Profile) (fuel : Nat) : Nat → P F (List (NodeData F))
  | 0 => P.fail
  | n + 1 => do
    match ← next with
    | some (tag, attrs, children) =>
      let ds ← onChild children (pNodeDatas pr fuel tag attrs children)
      let rest ← pGroupChildren pr fuel n
      return ds ++ rest
    | none => return []
end

/-- `for child in children { store_node(child.node_base().id(), child) }` -/
def storeNodes (pr : Profile) : List (NodeData F) → P F Unit
  | [] => pure ()
  | d :: ds => do storeNode pr d.attr.id d; storeNodes pr ds

/-- `impl Parse for RegisterDescription` (attributes of the root element) -/
def pRegisterDescription (attrs : List (Str × Str)) : R RegisterDescription := do
  let modelName ← ofOpt (attrOf attrs cs!"ModelName")
  let vendorName ← ofOpt (attrOf attrs cs!"VendorName")
  let tooltip := attrOf attrs cs!"ToolTip"
  let standardNameSpace ← ofOpt (attrOf attrs cs!"StandardNameSpace") >>= lookupTable stdNameSpaceTable
  let schemaMajor ← ofOpt (attrOf attrs cs!"SchemaMajorVersion") >>= convertToUint
  let schemaMinor ← ofOpt (attrOf attrs cs!"SchemaMinorVersion") >>= convertToUint
  let schemaSubMinor ← ofOpt (attrOf attrs cs!"SchemaSubMinorVersion") >>= convertToUint
  let major ← ofOpt (attrOf attrs cs!"MajorVersion") >>= convertToUint
  let minor ← ofOpt (attrOf attrs cs!"MinorVersion") >>= convertToUint
  let subMinor ← ofOpt (attrOf attrs cs!"SubMinorVersion") >>= convertToUint
  let productGuid ← ofOpt (attrOf attrs cs!"ProductGuid")
  let versionGuid ← ofOpt (attrOf attrs cs!"VersionGuid")
  return { modelName, vendorName, tooltip, standardNameSpace, schemaMajor, schemaMinor,
           schemaSubMinor, major, minor, subMinor, productGuid, versionGuid }

/-- the top-level loop of `parser::parse`: every child element is parsed and its nodes stored -/
def pTopLevel (pr : Profile) (depth : Nat) : Nat → P F Unit
  | 0 => P.fail
  | n + 1 => do
    match ← next with
    | some (tag, attrs, children) =>
      let ds ← onChild children (pNodeDatas pr depth tag attrs children)
      storeNodes pr ds
      pTopLevel pr depth n
    | none => return ()

mutual
def Elem.depth : Elem → Nat
  | .node _ _ cs => Elem.depthList cs + 1
  | _ => 0
def Elem.depthList : List Elem → Nat
  | [] => 0
  | e :: es => max e.depth (Elem.depthList es)
end

/-- `parser::parse` on the root element: the register description and the final builder state. -/
def parseDocument (pr : Profile) (root : Elem) : R (RegisterDescription × St F) :=
  match root with
  | .node tag attrs children => do
    -- debug_assert_eq!(node.tag_name(), REGISTER_DESCRIPTION)
    if pr.debugAsserts && tag != cs!"RegisterDescription" then .panic
    let rd ← pRegisterDescription attrs
    let r ← pTopLevel pr (Elem.depthList children + 1) (children.length + 1) children St.empty
    return (rd, r.2.2)
  | _ => .panic

end CamVerif.XmlParse
