/-
Model of the GenTL producer's C API (`/repo/gentl`), system and interface modules.

Mirrors, call by call:
* `gentl/src/ffi/macros.rs`   `gentl_api!`: init assertion (unless `no_assert`), error → `GC_ERROR`
                              code, `save_last_error`;
* `gentl/src/ffi/mod.rs`      `GC_ERROR` codes, `CopyTo` (the GenTL buffer protocol), `GCInitLib`,
                              `GCCloseLib`, `GCGetLastError`;
* `gentl/src/ffi/{system,interface,port}.rs`  the entry points and their info-command tables;
* `gentl/src/imp/system/{mod,genapi}.rs`, `gentl/src/imp/interface/{u3v,u3v_genapi}.rs`
                              open/close flags, register maps (layout, access rights, observers),
                              `Port::{read,write}` incl. `address as usize`, the checked
                              `address + len`, `handle_events`;
* `impl/macros/src/memory.rs` `read_raw` / `write_raw` / `notify_all` of the `#[memory]` struct and
  `impl/src/memory.rs`        `AccessRight::{meet,is_readable,is_writable}`, `MemoryProtection`.

A panic inside an `extern "C"` function aborts the process: `StepRes.abort`.

Environment parameters (`Env`): the canonical path of `gentl/src/imp/system/mod.rs` (what
`SystemModule::full_path` computes), the two embedded XML strings, and the message texts and
string / number constants of the source (`#[error("…")]` texts, vendor / model / id / version …;
the harness reads them from the current source on every run).  The `GC_ERROR` numbers, the
`INFO_DATATYPE` numbers, the register layouts and all control flow are transcribed here.  Device
enumeration is unimplemented in the crate (`enumerate_u3v_device` returns `NotImplemented`), so
an interface never has devices.

Handles are modelled client-side as numbered slots holding `null`, a live system handle, a live
interface handle, or a handle that was freed by a successful `TLClose`/`IFClose` (`freed`; using it
again is undefined behaviour in C, the model reports `skipped` and the probe does not make the call).
-/
import CamVerif.Prelude.Basic
namespace CamVerif.GenTL
open CamVerif

/-! ## Strings as bytes -/

/-- ASCII image of a literal. -/
def asc (s : String) : Bytes := s.toList.map fun c => UInt8.ofNat c.toNat

/-- `str::is_ascii` -/
def isAscii (b : Bytes) : Bool := b.all fun c => c.toNat < 128

def upperHexDigit (n : Nat) : UInt8 :=
  if n < 10 then UInt8.ofNat (48 + n) else UInt8.ofNat (55 + n)

/-- digits of `{:X}` (most significant first); `fuel` bounds the recursion -/
def upperHexAux : Nat → Nat → Bytes → Bytes
  | 0, _, acc => acc
  | fuel + 1, n, acc =>
    let acc' := upperHexDigit (n % 16) :: acc
    if n / 16 = 0 then acc' else upperHexAux fuel (n / 16) acc'

/-- `format!("{:X}", n)` for `n < 2^64` -/
def upperHex (n : Nat) : Bytes := upperHexAux 16 n []

/-! ## `GenTlError` and `GC_ERROR` (ffi/mod.rs, lib.rs) -/

/-- payload of `GenTlError::InvalidValue`; the C layer only ever produces the first -/
inductive InvalidValueMsg where
  | stringNotAscii          -- `CopyTo for &str`: "string is not ascii"
  | other (m : Bytes)
  deriving DecidableEq, Repr

inductive Err where
  | error | notInitialized | notImplemented | resourceInUse | accessDenied | invalidHandle
  | invalidId (id : Bytes)
  | noData | invalidParameter | io | timeout | abort | invalidBuffer | notAvailable
  | invalidAddress | bufferTooSmall | invalidIndex | parsingChunkData
  | invalidValue (msg : InvalidValueMsg)
  | resourceExhausted | outOfMemory | busy | ambiguous
  deriving DecidableEq, Repr

/-- `impl From<&GenTlError> for GC_ERROR` -/
def Err.code : Err → Int
  | .error => -1001 | .notInitialized => -1002 | .notImplemented => -1003
  | .resourceInUse => -1004 | .accessDenied => -1005 | .invalidHandle => -1006
  | .invalidId _ => -1007 | .noData => -1008 | .invalidParameter => -1009 | .io => -1010
  | .timeout => -1011 | .abort => -1012 | .invalidBuffer => -1013 | .notAvailable => -1014
  | .invalidAddress => -1015 | .bufferTooSmall => -1016 | .invalidIndex => -1017
  | .parsingChunkData => -1018 | .invalidValue _ => -1019 | .resourceExhausted => -1020
  | .outOfMemory => -1021 | .busy => -1022 | .ambiguous => -1023

/-- position of the variant in the `GenTlError` declaration (= `-1001 - code`) -/
def Err.idx : Err → Nat
  | .error => 0 | .notInitialized => 1 | .notImplemented => 2 | .resourceInUse => 3
  | .accessDenied => 4 | .invalidHandle => 5 | .invalidId _ => 6 | .noData => 7
  | .invalidParameter => 8 | .io => 9 | .timeout => 10 | .abort => 11 | .invalidBuffer => 12
  | .notAvailable => 13 | .invalidAddress => 14 | .bufferTooSmall => 15 | .invalidIndex => 16
  | .parsingChunkData => 17 | .invalidValue _ => 18 | .resourceExhausted => 19 | .outOfMemory => 20
  | .busy => 21 | .ambiguous => 22

abbrev GR (α : Type) := Res Err α

/-! ## `CopyTo`: the buffer protocol (ffi/mod.rs 236-396) -/

/-- A value handed to `copy_info` / `copy_to`, by Rust type. -/
inductive Val where
  | str (s : Bytes)      -- `&str`, `TlType`, `ModuleType`
  | buffer (b : Bytes)   -- `&[u8]`
  | i32 (bits : Nat)     -- two's complement image
  | u32 (v : Nat)
  | u64 (v : Nat)
  | bool8 (b : Bool)
  deriving DecidableEq, Repr

/-- `INFO_DATATYPE` of `T::info_data_type()` -/
def Val.dtype : Val → Nat
  | .str _ => 1 | .buffer _ => 13 | .i32 _ => 5 | .u32 _ => 6 | .u64 _ => 8 | .bool8 _ => 11

/-- The bytes `copy_to` wants to store (strings: ASCII check, then the NUL terminator). -/
def Val.image : Val → GR Bytes
  | .str s => if isAscii s then .ok (s ++ [0]) else .err (.invalidValue .stringNotAscii)
  | .buffer b => .ok b
  | .i32 v => .ok (toLE 4 v)
  | .u32 v => .ok (toLE 4 v)
  | .u64 v => .ok (toLE 8 v)
  | .bool8 b => .ok [if b then 1 else 0]

/-- Destination of an info query: `buf = none` is a NULL pointer, `some b` the current contents of
the caller's buffer; `size` is `*piSize` on entry (for a well-formed call `size ≤ b.length`). -/
structure Dst where
  buf : Option Bytes
  size : Nat
  deriving DecidableEq, Repr

/-- `CopyTo::copy_to`: NULL ⇒ only the required size is stored; too small ⇒ `BufferTooSmall`,
nothing stored; else the image is copied to the front of the buffer and its length stored. -/
def copyTo (v : Val) (d : Dst) : GR Dst :=
  match v.image with
  | .ok img =>
    match d.buf with
    | some old =>
      if d.size < img.length then .err .bufferTooSmall
      else .ok ⟨some (img ++ old.drop img.length), img.length⟩
    | none => .ok ⟨none, img.length⟩
  | .err e => .err e
  | .panic => .panic

/-! ## Emulated register memory (impl/src/memory.rs, impl/macros/src/memory.rs) -/

inductive Access where
  | na | ro | wo | rw
  deriving DecidableEq, Repr

def Access.asNum : Access → Nat
  | .na => 0 | .ro => 1 | .wo => 2 | .rw => 3

/-- `as_num() & 0b1 == 1` -/
def Access.isReadable (a : Access) : Bool := a.asNum % 2 == 1
/-- `as_num() >> 1 == 1` -/
def Access.isWritable (a : Access) : Bool := a.asNum / 2 == 1

/-- `AccessRight::meet`, arm by arm -/
def Access.meet (a rhs : Access) : Access :=
  match a with
  | .rw => if rhs = .rw then .rw else rhs
  | .ro => if rhs.isReadable then .ro else .na
  | .wo => if rhs.isWritable then .wo else .na
  | .na => .na

inductive MemErr where
  | addressNotReadable | addressNotWritable | invalidAddress
  deriving DecidableEq, Repr

/-- `impl From<MemoryError> for GenTlError` (imp/mod.rs) -/
def MemErr.toErr : MemErr → Err
  | .addressNotReadable => .accessDenied
  | .addressNotWritable => .accessDenied
  | .invalidAddress => .invalidAddress

/-- Events the modules' `MemoryObserver`s push on their queues. -/
inductive Event where
  | interfaceUpdateList | interfaceSelector   -- system module
  | deviceUpdateList | deviceSelector         -- interface module
  deriving DecidableEq, Repr

structure RegDecl where
  name : String
  addr : Nat
  len : Nat
  access : Access
  deriving DecidableEq, Repr

/-- Static description of one `#[memory]` struct: registers (with the addresses the
`#[register_map]` macro assigns: base + running sum of lengths), total size, and the observers in
registration order as (start, end, event). -/
structure MapDecl where
  regs : List RegDecl
  size : Nat
  observers : List (Nat × Nat × Event)

/-- `MemoryProtection::access_right(i)`: the right of the register covering byte `i`; bytes that
no register covers keep the zero-initialised protection bits = `NA`. -/
def MapDecl.rightAt (m : MapDecl) (i : Nat) : Access :=
  match m.regs.find? (fun r => r.addr ≤ i && i < r.addr + r.len) with
  | some r => r.access
  | none => .na

/-- `access_right_with_range(a..b)`: fold of `meet` from `RW` -/
def MapDecl.rightOfRange (m : MapDecl) (a b : Nat) : Access :=
  (List.range' a (b - a)).foldl (fun acc i => acc.meet (m.rightAt i)) .rw

/-- `&raw[a..b]` — panics unless `a ≤ b ≤ len` -/
def slice {ε : Type} (raw : Bytes) (a b : Nat) : Res ε Bytes :=
  if a ≤ b ∧ b ≤ raw.length then .ok ((raw.drop a).take (b - a)) else .panic

/-- `raw[a..a+data.len()].copy_from_slice(data)` — panics unless the range is inside -/
def splice {ε : Type} (raw : Bytes) (a : Nat) (data : Bytes) : Res ε Bytes :=
  if a + data.length ≤ raw.length then .ok (raw.take a ++ data ++ raw.drop (a + data.length))
  else .panic

/-- `usize::checked_add` (64-bit) -/
def checkedAdd (a b : Nat) : Option Nat := if a + b < 2 ^ 64 then some (a + b) else none

/-- `MemoryRead::read_raw(a..b)`: range check first (reversed range or end beyond the memory ⇒
`InvalidAddress`), then the access-right fold, then the slice. -/
def readRaw (m : MapDecl) (raw : Bytes) (a b : Nat) : Res MemErr Bytes :=
  if a > b ∨ b > raw.length then .err .invalidAddress
  else if !(m.rightOfRange a b).isReadable then .err .addressNotReadable
  else slice raw a b

/-- `notify_all(ws..we)`: every observer whose register range shares at least one byte with the
written range fires (`max(starts) < min(ends)`), in registration order. -/
def fired (m : MapDecl) (ws we : Nat) : List Event :=
  m.observers.filterMap fun (lo, hi, ev) => if max ws lo ≥ min we hi then none else some ev

/-- `MemoryWrite::write_raw(a, data)`: checked end, end beyond the memory ⇒ `InvalidAddress`,
writability, copy, notify.  (The per-address `verify_address_with_range` loop that follows the
range check in both functions can no longer fail and is not modelled.) -/
def writeRaw (m : MapDecl) (raw : Bytes) (a : Nat) (data : Bytes) : Res MemErr (Bytes × List Event) :=
  match checkedAdd a data.length with
  | none => .err .invalidAddress
  | some e =>
    if e > raw.length then .err .invalidAddress
    else if !(m.rightOfRange a e).isWritable then .err .addressNotWritable
    else
      match splice raw a data with
      | .ok raw' => .ok (raw', fired m a e)
      | .err x => .err x
      | .panic => .panic

def liftMem {α : Type} : Res MemErr α → GR α
  | .ok a => .ok a
  | .err e => .err e.toErr
  | .panic => .panic

/-! ## The two register maps (imp/system/genapi.rs, imp/interface/u3v_genapi.rs) -/

/-- The string / number constants of one module (`genapi.rs` / `u3v_genapi.rs`, `PortInfo`). -/
structure ModConsts where
  /-- `PRODUCT_GUID` = `TLID` / `INTERFACE_ID` -/
  id : Bytes
  vendor : Bytes
  model : Bytes
  /-- `TlType::as_str` of `TL_TYPE` / `INTERFACE_TYPE` -/
  tlType : Bytes
  /-- `TOOL_TIP` (TL_INFO_DISPLAYNAME) / `display_name()` of the interface -/
  displayName : Bytes
  portName : Bytes
  /-- `CopyTo for ModuleType` string -/
  moduleType : Bytes
  /-- `XML_MAJOR/MINOR/SUBMINOR_VERSION` -/
  verMajor : Nat
  verMinor : Nat
  verSub : Nat

/-- What the run-time environment and the source constants fix.  The harness reads the texts and
constants from the CURRENT source (`gentl/src/lib.rs` `#[error("…")]`, `genapi.rs`,
`u3v_genapi.rs`, `genapi_common.rs`, …) on every run, so that rewording a message or bumping a
version is not a model/implementation disagreement; what the values must agree WITH (the embedded
XML, each other) is the oracle's business.  The theorems hold for every `Env`. -/
structure Env where
  /-- canonical path of `gentl/src/imp/system/mod.rs` (`SystemModule::full_path`) -/
  path : Bytes
  /-- `GENAPI_XML` of the system module -/
  sysXml : Bytes
  /-- `GENAPI_XML` of the U3V interface module -/
  ifXml : Bytes
  /-- `Display` text of the `GenTlError` variant at `Err.idx` (up to the `{0}` placeholder) -/
  errText : Nat → Bytes
  /-- text `GCGetLastError` reports when no call has failed -/
  noErrorText : Bytes
  /-- message of the `InvalidValue` raised by `CopyTo for &str` -/
  notAsciiText : Bytes
  sys : ModConsts
  ifc : ModConsts
  /-- `GENTL_VERSION_MAJOR/MINOR` -/
  gentlMajor : Nat
  gentlMinor : Nat
  /-- `SCHEME_MAJOR/MINOR/SUBMINOR_VERSION` -/
  schemaMajor : Nat
  schemaMinor : Nat
  schemaSub : Nat

/-- decimal rendering (`{}` of an integer) -/
def dec (n : Nat) : Bytes := asc (toString n)

/-- `format!("{}.{}.{}", major, minor, subminor)` -/
def ModConsts.version (c : ModConsts) : Bytes :=
  dec c.verMajor ++ asc "." ++ dec c.verMinor ++ asc "." ++ dec c.verSub

/-- `Display` of `GenTlError` (`#[error("…")]` in lib.rs); `io` never arises here. -/
def Err.text (env : Env) : Err → Bytes
  | .invalidId id => env.errText 6 ++ id
  | .invalidValue .stringNotAscii => env.errText 18 ++ env.notAsciiText
  | .invalidValue (.other m) => env.errText 18 ++ m
  | e => env.errText e.idx

def SYS_XML_ADDRESS : Nat := 1120
def IF_XML_ADDRESS : Nat := 336
def NUM_INTERFACE : Nat := 1

def sysMap (env : Env) : MapDecl where
  regs := [
    ⟨"TlPath", 0, 1024, .ro⟩,
    ⟨"InterfaceUpdateList", 1024, 4, .ro⟩,
    ⟨"InterfaceSelector", 1028, 4, .rw⟩,
    ⟨"InterfaceSelectorMax", 1032, 4, .ro⟩,
    ⟨"InterfaceID", 1036, 64, .ro⟩,
    ⟨"GevInterfaceMACAddress", 1100, 8, .ro⟩,
    ⟨"GevInterfaceDefaultIPAddress", 1108, 4, .ro⟩,
    ⟨"GevInterfaceDefaultSubnetMask", 1112, 4, .ro⟩,
    ⟨"GevInterfaceDefaultGateway", 1116, 4, .ro⟩,
    ⟨"Xml", SYS_XML_ADDRESS, env.sysXml.length, .ro⟩]
  size := SYS_XML_ADDRESS + env.sysXml.length
  observers := [(1024, 1028, .interfaceUpdateList), (1028, 1032, .interfaceSelector)]

def ifMap (env : Env) : MapDecl where
  regs := [
    ⟨"DeviceUpdateList", 0, 4, .wo⟩,
    ⟨"DeviceSelector", 4, 4, .rw⟩,
    ⟨"DeviceSelectorMax", 8, 4, .ro⟩,
    ⟨"DeviceID", 12, 64, .ro⟩,
    ⟨"DeviceVendorName", 76, 128, .ro⟩,
    ⟨"DeviceModelName", 204, 128, .ro⟩,
    ⟨"DeviceAccessStatus", 332, 4, .ro⟩,
    ⟨"Xml", IF_XML_ADDRESS, env.ifXml.length, .ro⟩]
  size := IF_XML_ADDRESS + env.ifXml.length
  observers := [(0, 4, .deviceUpdateList), (4, 8, .deviceSelector)]

/-- The addresses the `#[register_map]` macro assigns: base, then running sum of the lengths. -/
def layoutOk : Nat → List RegDecl → Bool
  | _, [] => true
  | a, r :: rs => r.addr == a && layoutOk (a + r.len) rs

def zeros (n : Nat) : Bytes := List.replicate n 0

/-- String register image: the bytes, zero-padded to the register length. -/
def padTo (n : Nat) (b : Bytes) : Bytes := b ++ zeros (n - b.length)

/-- `genapi::Memory::new()` + `SystemModule::initialize_vm`: TlPath, InterfaceSelector = 0,
InterfaceID of interface 0 (no MAC/IP: the U3V interface has none), InterfaceSelectorMax = 0, XML. -/
def sysMemInit (env : Env) : Bytes :=
  padTo 1024 env.path ++ zeros 4 ++ zeros 4 ++ zeros 4 ++ padTo 64 env.ifc.id
    ++ zeros 8 ++ zeros 4 ++ zeros 4 ++ zeros 4 ++ env.sysXml

/-- `u3v_genapi::Memory::new()` + `initialize_vm`: selector and selector-max 0, XML. -/
def ifMemInit (env : Env) : Bytes := zeros IF_XML_ADDRESS ++ env.ifXml

/-! ## Library / module state -/

inductive Slot where
  | null | sys | iface | freed
  deriving DecidableEq, Repr

structure State where
  /-- `IS_LIB_INITIALIZED` -/
  libInit : Bool
  /-- `SystemModule::is_opened` -/
  sysOpen : Bool
  /-- `U3VInterfaceModule::is_opened` -/
  ifOpen : Bool
  /-- thread-local `LAST_ERROR` -/
  lastErr : Option Err
  sysMem : Bytes
  ifMem : Bytes
  /-- pending `MemoryEvent`s of the two modules -/
  sysQueue : List Event
  ifQueue : List Event
  /-- the caller's handle variables -/
  slots : Nat → Slot

def State.init (env : Env) : State where
  libInit := false
  sysOpen := false
  ifOpen := false
  lastErr := none
  sysMem := sysMemInit env
  ifMem := ifMemInit env
  sysQueue := []
  ifQueue := []
  slots := fun _ => .null

def State.setSlot (s : State) (k : Nat) (v : Slot) : State :=
  { s with slots := fun i => if i = k then v else s.slots i }

/-! ## Module `Port` implementations -/

/-- `SystemModule::handle_interface_selector_change`: read the selector (u32 LE at 1028),
`>= NUM_INTERFACE` ⇒ `InvalidIndex`, else re-write the InterfaceID register (the only interface
has no MAC / IP / subnet / gateway).  `vm.write::<InterfaceID>` notifies range 1036..1100, which
no observer covers. -/
def sysSelectorChange (env : Env) (mem : Bytes) : Res Err Bytes :=
  match slice (ε := Err) mem 1028 1032 with
  | .ok sel =>
    if fromLE sel ≥ NUM_INTERFACE then .err .invalidIndex
    else splice mem 1036 (padTo 64 env.ifc.id)
  | .err e => .err e
  | .panic => .panic

/-- `SystemModule::handle_events`: pop the queue front to back; the first failing handler returns
its error and leaves the rest queued.  Result: memory, remaining queue, outcome. -/
def sysHandleEvents (env : Env) : Bytes → List Event → Bytes × List Event × Res Err Unit
  | mem, [] => (mem, [], .ok ())
  | mem, .interfaceSelector :: q =>
    match sysSelectorChange env mem with
    | .ok mem' => sysHandleEvents env mem' q
    | .err e => (mem, q, .err e)
    | .panic => (mem, q, .panic)
  | mem, _ :: q => sysHandleEvents env mem q   -- InterfaceUpdateList: nothing to do

/-- `U3VInterfaceModule::handle_events` with an empty device list: `DeviceUpdateList` runs
`update_device_list`, whose `enumerate_u3v_device()?` is `Err(NotImplemented)`;
`DeviceSelector` runs `handle_device_selector_change`, where every index is `>= devices.len() = 0`
⇒ `InvalidIndex`. -/
def ifHandleEvents : List Event → List Event × Res Err Unit
  | [] => ([], .ok ())
  | .deviceUpdateList :: q => (q, .err .notImplemented)
  | .deviceSelector :: q => (q, .err .invalidIndex)
  | _ :: q => ifHandleEvents q

/-- `address as usize` on a 64-bit target -/
def asUsize (address : Nat) : Nat := address % 2 ^ 64

/-- `Port::read` of the system module -/
def sysRead (env : Env) (s : State) (address len : Nat) : GR Bytes :=
  match checkedAdd (asUsize address) len with
  | none => .err .invalidAddress
  | some e => liftMem (readRaw (sysMap env) s.sysMem (asUsize address) e)

/-- `Port::read` of the interface module -/
def ifRead (env : Env) (s : State) (address len : Nat) : GR Bytes :=
  if !s.ifOpen then .err .notInitialized else
  match checkedAdd (asUsize address) len with
  | none => .err .invalidAddress
  | some e => liftMem (readRaw (ifMap env) s.ifMem (asUsize address) e)

/-- `Port::write` of the system module: state afterwards and `Ok(len)` / error. -/
def sysWrite (env : Env) (s : State) (address : Nat) (data : Bytes) : State × GR Nat :=
  match checkedAdd (asUsize address) data.length with
  | none => (s, .err .invalidAddress)
  | some _ =>
    match writeRaw (sysMap env) s.sysMem (asUsize address) data with
    | .err e => (s, .err e.toErr)
    | .panic => (s, .panic)
    | .ok (mem, evs) =>
      match sysHandleEvents env mem (s.sysQueue ++ evs) with
      | (mem', q, .ok ()) => ({ s with sysMem := mem', sysQueue := q }, .ok data.length)
      | (mem', q, .err e) => ({ s with sysMem := mem', sysQueue := q }, .err e)
      | (_, _, .panic) => (s, .panic)

/-- `Port::write` of the interface module -/
def ifWrite (env : Env) (s : State) (address : Nat) (data : Bytes) : State × GR Nat :=
  if !s.ifOpen then (s, .err .notInitialized) else
  match checkedAdd (asUsize address) data.length with
  | none => (s, .err .invalidAddress)
  | some _ =>
    match writeRaw (ifMap env) s.ifMem (asUsize address) data with
    | .err e => (s, .err e.toErr)
    | .panic => (s, .panic)
    | .ok (mem, evs) =>
      match ifHandleEvents (s.ifQueue ++ evs) with
      | (q, .ok ()) => ({ s with ifMem := mem, ifQueue := q }, .ok data.length)
      | (q, .err e) => ({ s with ifMem := mem, ifQueue := q }, .err e)
      | (_, .panic) => (s, .panic)

/-- `isize::MAX`: the largest size a slice can have (`check_buffer` in ffi/port.rs) -/
def ISIZE_MAX : Nat := 2 ^ 63 - 1

/-- Which module a port handle designates (`with_port!`). -/
inductive Module where
  | system | interface
  deriving DecidableEq, Repr

/-- `ModuleHandle::from_raw_manually_drop` + `with_port!` for a live handle / NULL -/
def portOf : Slot → GR Module
  | .sys => .ok .system
  | .iface => .ok .interface
  | _ => .err .invalidHandle

def portRead (env : Env) (s : State) : Module → Nat → Nat → GR Bytes
  | .system => sysRead env s
  | .interface => ifRead env s

def portWrite (env : Env) (s : State) : Module → Nat → Bytes → State × GR Nat
  | .system => sysWrite env s
  | .interface => ifWrite env s

/-- A write whose claimed size differs from the bytes really present at `pBuffer`: all checks of
`Port::write` / `write_raw` only look at the length, so the errors are the same; if every check
passed, `copy_from_slice` would read beyond the caller's buffer — undefined behaviour, `panic`. -/
def writeDishonest (env : Env) (s : State) (m : Module) (address size : Nat) : GR Nat :=
  let core (map : MapDecl) (raw : Bytes) : GR Nat :=
    match checkedAdd (asUsize address) size with
    | none => .err .invalidAddress
    | some e =>
      if e > raw.length then .err .invalidAddress
      else if !(map.rightOfRange (asUsize address) e).isWritable then .err .accessDenied
      else .panic
  match m with
  | .system => core (sysMap env) s.sysMem
  | .interface => if !s.ifOpen then .err .notInitialized else core (ifMap env) s.ifMem

/-- `Port::write` on the slice `from_raw_parts(pBuffer, size)` -/
def portWriteSized (env : Env) (s : State) (m : Module) (address size : Nat) (data : Bytes) :
    State × GR Nat :=
  if data.length = size then portWrite env s m address data
  else (s, writeDishonest env s m address size)

/-! ## Info tables -/

/-- last path component (`Path::file_name`); `none` when there is none (`unwrap` panics) -/
def fileName (path : Bytes) : Option Bytes :=
  let comp := (path.reverse.takeWhile (· ≠ 47)).reverse
  if comp.isEmpty then none else some comp

/-- `TLGetInfo` dispatch (ffi/system.rs): `TL_INFO_CMD` → value.  `none` = `InvalidParameter`. -/
def tlInfo (env : Env) (cmd : Int) : Option (Res Err Val) :=
  if cmd = 0 then some (.ok (.str env.sys.id))
  else if cmd = 1 then some (.ok (.str env.sys.vendor))
  else if cmd = 2 then some (.ok (.str env.sys.model))
  else if cmd = 3 then some (.ok (.str env.sys.version))
  else if cmd = 4 then some (.ok (.str env.sys.tlType))
  else if cmd = 5 then some (match fileName env.path with | some n => .ok (.str n) | none => .panic)
  else if cmd = 6 then some (.ok (.str env.path))
  else if cmd = 7 then some (.ok (.str env.sys.displayName))
  else if cmd = 8 then some (.ok (.i32 0))                    -- CharEncoding::Ascii
  else if cmd = 9 then some (.ok (.u32 env.gentlMajor))
  else if cmd = 10 then some (.ok (.u32 env.gentlMinor))
  else none

/-- `if_get_info` dispatch (ffi/interface.rs): `INTERFACE_INFO_CMD` → value. -/
def ifInfo (env : Env) (cmd : Int) : Option Val :=
  if cmd = 0 then some (.str env.ifc.id)
  else if cmd = 1 then some (.str env.ifc.displayName)
  else if cmd = 2 then some (.str env.ifc.tlType)
  else none

def xmlAddress : Module → Nat
  | .system => SYS_XML_ADDRESS
  | .interface => IF_XML_ADDRESS

def xmlLength (env : Env) : Module → Nat
  | .system => env.sysXml.length
  | .interface => env.ifXml.length

def Env.consts (env : Env) : Module → ModConsts
  | .system => env.sys
  | .interface => env.ifc

/-- `file_location_to_url` for `XmlLocation::RegisterMap`, uncompressed -/
def portUrl (env : Env) (m : Module) : Bytes :=
  let c := env.consts m
  asc "local:" ++ c.vendor ++ asc "_" ++ c.model ++ asc "_" ++ c.version ++ asc ".xml;"
    ++ upperHex (xmlAddress m) ++ asc ";" ++ upperHex (xmlLength env m)
    ++ asc "?SchemaVersion=" ++ dec env.schemaMajor ++ asc "." ++ dec env.schemaMinor ++ asc "."
    ++ dec env.schemaSub

/-- `GCGetPortInfo` dispatch (ffi/port.rs): `PORT_INFO_CMD` → value, both modules are
little-endian with `PortAccess::RW`. -/
def portInfo (env : Env) (m : Module) (cmd : Int) : Option Val :=
  let c := env.consts m
  if cmd = 0 then some (.str c.id)
  else if cmd = 1 then some (.str c.vendor)
  else if cmd = 2 then some (.str c.model)
  else if cmd = 3 then some (.str c.tlType)
  else if cmd = 4 then some (.str c.moduleType)
  else if cmd = 5 then some (.bool8 true)    -- LITTLE_ENDIAN
  else if cmd = 6 then some (.bool8 false)   -- BIG_ENDIAN
  else if cmd = 7 then some (.bool8 true)    -- ACCESS_READ
  else if cmd = 8 then some (.bool8 true)    -- ACCESS_WRITE
  else if cmd = 9 then some (.bool8 false)   -- ACCESS_NA
  else if cmd = 10 then some (.bool8 false)  -- ACCESS_NI
  else if cmd = 11 then some (.str c.version)
  else if cmd = 12 then some (.str c.portName)
  else none

/-- `GCGetPortURLInfo` dispatch for URL index 0 (`sha1_hash = None`, register-map location). -/
def urlInfo (env : Env) (m : Module) (cmd : Int) : GR Val :=
  let c := env.consts m
  if cmd = 0 then .ok (.str (portUrl env m))
  else if cmd = 1 then .ok (.i32 env.schemaMajor)
  else if cmd = 2 then .ok (.i32 env.schemaMinor)
  else if cmd = 3 then .ok (.i32 c.verMajor)
  else if cmd = 4 then .ok (.i32 c.verMinor)
  else if cmd = 5 then .ok (.i32 c.verSub)
  else if cmd = 6 then .err .notAvailable          -- no SHA1
  else if cmd = 7 then .ok (.u64 (xmlAddress m))
  else if cmd = 8 then .ok (.u64 (xmlLength env m))
  else if cmd = 9 then .ok (.i32 0)   -- URL_SCHEME_LOCAL
  else if cmd = 10 then .err .notAvailable         -- file name: only for LocalFile
  else .err .invalidParameter

/-! ## Calls, results -/

/-- The entry points that answer through the buffer protocol, without their destination. -/
inductive Query where
  | tlGetInterfaceID (h : Nat) (index : Nat)
  | tlGetInfo (h : Nat) (cmd : Int)
  | tlGetInterfaceInfo (h : Nat) (id : Bytes) (cmd : Int)
  | ifGetInfo (h : Nat) (cmd : Int)
  | gcGetPortInfo (h : Nat) (cmd : Int)
  | gcGetPortURL (h : Nat)
  | gcGetPortURLInfo (h : Nat) (index : Nat) (cmd : Int)
  | ifGetDeviceID (h : Nat) (index : Nat)
  | ifGetDeviceInfo (h : Nat) (id : Bytes) (cmd : Int)

def Query.handle : Query → Nat
  | .tlGetInterfaceID h _ | .tlGetInfo h _ | .tlGetInterfaceInfo h _ _ | .ifGetInfo h _
  | .gcGetPortInfo h _ | .gcGetPortURL h | .gcGetPortURLInfo h _ _ | .ifGetDeviceID h _
  | .ifGetDeviceInfo h _ _ => h

/-- does the entry point have a `piType` out-parameter (it calls `copy_info` and stores the type)
or only the buffer / size pair (`copy_to`)? -/
def Query.typed : Query → Bool
  | .tlGetInterfaceID .. | .gcGetPortURL .. | .ifGetDeviceID .. => false
  | _ => true

inductive Call where
  | initLib
  | closeLib
  | getLastError (d : Dst)
  | tlOpen (dst : Nat)
  | tlClose (h : Nat)
  | tlUpdateInterfaceList (h : Nat)
  | tlGetNumInterfaces (h : Nat)
  | tlOpenInterface (h : Nat) (id : Bytes) (dst : Nat)
  | ifClose (h : Nat)
  | gcGetNumPortURLs (h : Nat)
  /-- the info queries: what is asked (`Query`) and where the answer goes (`Dst`) -/
  | info (q : Query) (d : Dst)
  /-- `size` = `*piSize` on entry, `buf` = current contents of the caller's buffer
  (an honest caller has `size ≤ buf.length`) -/
  | gcReadPort (h : Nat) (address : Nat) (size : Nat) (buf : Bytes)
  /-- `size` = `*piSize` on entry, `data` = the bytes at `pBuffer` (honest: `data.length = size`) -/
  | gcWritePort (h : Nat) (address : Nat) (size : Nat) (data : Bytes)
  /-- entries: (address, size, buffer contents) -/
  | gcReadPortStacked (h : Nat) (entries : List (Nat × Nat × Bytes))
  /-- entries: (address, size, data) -/
  | gcWritePortStacked (h : Nat) (entries : List (Nat × Nat × Bytes))
  | ifGetNumDevices (h : Nat)
  | ifOpenDevice (h : Nat) (id : Bytes)
  | ifUpdateDeviceList (h : Nat)
  | ifGetParentTL (h : Nat)
  /-- exported as `CGCGetInfo` (sic) -/
  | gcGetInfo
  /-- The call `c` made with one of its REQUIRED pointer parameters NULL (out-pointers, `piSize`,
  `piType`, id strings, `pBuffer` of port reads/writes, the stacked entry array or one of its
  buffers).  Only meaningful for calls that have such a parameter (`GCInitLib`, `GCCloseLib`,
  `TLClose`, `IFClose` have none).  `pBuffer` of an info query and `sErrorText` may be NULL by
  the buffer protocol; that is `Dst.buf = none`, not this constructor. -/
  | nullPtr (c : Call)

/-- What the out-parameters hold after the call. -/
inductive Out where
  | plain
  /-- a scalar out-parameter (`pbChanged`, `piNumIfaces`, `piNumURLs`); `none` = untouched -/
  | scalar (v : Option Nat)
  /-- `piType` (`none` = untouched) and the buffer / size pair -/
  | info (ty : Option Nat) (d : Dst)
  /-- `piErrorCode` (`none` = untouched) and the text buffer / size pair -/
  | lastError (code : Option Int) (d : Dst)
  | read (size : Nat) (buf : Bytes)
  | write (size : Nat)
  | readStacked (count : Nat) (bufs : List Bytes)
  | writeStacked (count : Nat)
  /-- the handle variable was freed earlier: the call is not made -/
  | skipped
  deriving DecidableEq, Repr

structure Result where
  /-- returned `GC_ERROR` -/
  code : Int
  out : Out
  deriving DecidableEq, Repr

inductive StepRes where
  | done (s : State) (r : Result)
  /-- panic inside `extern "C"`: the process aborts -/
  | abort

/-- The handle slot a call dereferences (none for the library-level calls and `TLOpen`). -/
def Call.handle? : Call → Option Nat
  | .initLib | .closeLib | .getLastError _ | .tlOpen _ | .gcGetInfo | .nullPtr _ => none
  | .tlClose h | .tlUpdateInterfaceList h | .tlGetNumInterfaces h | .tlOpenInterface h _ _ | .ifClose h
  | .gcGetNumPortURLs h | .gcReadPort h _ _ _ | .gcWritePort h _ _ _
  | .gcReadPortStacked h _ | .gcWritePortStacked h _ | .ifGetNumDevices h | .ifOpenDevice h _
  | .ifUpdateDeviceList h | .ifGetParentTL h => some h
  | .info q _ => some q.handle

/-- The out-parameters as the caller initialised them (nothing written). -/
def Call.untouched : Call → Out
  | .initLib | .closeLib | .tlOpen _ | .tlClose _ | .tlOpenInterface _ _ _ | .ifClose _
  | .ifOpenDevice _ _ | .ifGetParentTL _ | .gcGetInfo => .plain
  | .ifGetNumDevices _ | .ifUpdateDeviceList _ => .scalar none
  | .nullPtr c => c.untouched
  | .getLastError d => .lastError none d
  | .tlUpdateInterfaceList _ | .tlGetNumInterfaces _ | .gcGetNumPortURLs _ => .scalar none
  | .info _ d => .info none d
  | .gcReadPort _ _ size buf => .read size buf
  | .gcWritePort _ _ size _ => .write size
  | .gcReadPortStacked _ es => .readStacked es.length (es.map fun e => e.2.2)
  | .gcWritePortStacked _ es => .writeStacked es.length

/-- What a call body hands back to the `gentl_api!` wrapper: the state it left, `Ok(outputs)` /
`Err(e)` / panic, and the out-parameters as they stand if it returned an error. -/
structure Ret where
  st : State
  res : GR Out
  errOut : Out

/-- `handle.system()?` after `from_raw_manually_drop(h)?` -/
def wantSystem : Slot → GR Unit
  | .sys => .ok ()
  | _ => .err .invalidHandle

/-- `handle.interface()?` after `from_raw_manually_drop(h)?` -/
def wantInterface : Slot → GR Unit
  | .iface => .ok ()
  | _ => .err .invalidHandle

/-- `copy_info(v, pBuffer, piSize)?` then `*piType = …` -/
def infoOut (v : Val) (d : Dst) : GR Out :=
  match copyTo v d with
  | .ok d' => .ok (.info (some v.dtype) d')
  | .err e => .err e
  | .panic => .panic

/-- `v.copy_to(buf, piSize)?` (no `piType`) -/
def copyOut (v : Val) (d : Dst) : GR Out :=
  match copyTo v d with
  | .ok d' => .ok (.info none d')
  | .err e => .err e
  | .panic => .panic

/-- `port.port_info()?` / `port.xml_infos()?`: the interface refuses unless opened -/
def portMeta (s : State) : Module → GR Unit
  | .system => .ok ()
  | .interface => if s.ifOpen then .ok () else .err .notInitialized

/-- `Port::read_stacked`: entries in order, stop at the first error; count of entries read and the
buffers as they stand. -/
def readStacked (env : Env) (s : State) (m : Module) :
    List (Nat × Nat × Bytes) → Nat → List Bytes → Nat × List Bytes × GR Unit
  | [], n, acc => (n, acc, .ok ())
  | (a, size, buf) :: es, n, acc =>
    match portRead env s m a size with
    | .ok data =>
      -- `buf.copy_from_slice(data)` into the `size` bytes the caller claimed to own
      if size ≤ buf.length then readStacked env s m es (n + 1) (acc ++ [data ++ buf.drop data.length])
      else (n, acc, .panic)
    | .err e => (n, acc ++ (buf :: es.map fun x => x.2.2), .err e)
    | .panic => (n, acc, .panic)

/-- `Port::write_stacked` -/
def writeStacked (env : Env) (m : Module) :
    State → List (Nat × Nat × Bytes) → Nat → State × Nat × GR Unit
  | s, [], n => (s, n, .ok ())
  | s, (a, size, data) :: es, n =>
    match portWriteSized env s m a size data with
    | (s', .ok _) => writeStacked env m s' es (n + 1)
    | (s', .err e) => (s', n, .err e)
    | (s', .panic) => (s', n, .panic)

/-- Everything an info entry point does before `copy_info` / `copy_to`: handle kind, module
state, index and command dispatch.  The value does not depend on the destination buffer. -/
def queryValue (env : Env) (s : State) : Query → GR Val
  | .tlGetInterfaceID h index =>
    match wantSystem (s.slots h) with
    | .ok () => if index % 2 ^ 32 ≥ NUM_INTERFACE then .err .invalidIndex else .ok (.str env.ifc.id)
    | .err e => .err e
    | .panic => .panic
  | .tlGetInfo h cmd =>
    match wantSystem (s.slots h) with
    | .ok () =>
      (match tlInfo env cmd with
       | some r => r
       | none => .err .invalidParameter)
    | .err e => .err e
    | .panic => .panic
  | .tlGetInterfaceInfo h id cmd =>
    match wantSystem (s.slots h) with
    | .ok () =>
      if id ≠ env.ifc.id then .err (.invalidId id)
      else (match ifInfo env cmd with
            | some v => .ok v
            | none => .err .invalidParameter)
    | .err e => .err e
    | .panic => .panic
  | .ifGetInfo h cmd =>
    match wantInterface (s.slots h) with
    | .ok () =>
      (match ifInfo env cmd with
       | some v => .ok v
       | none => .err .invalidParameter)
    | .err e => .err e
    | .panic => .panic
  | .gcGetPortInfo h cmd =>
    match portOf (s.slots h) with
    | .ok m =>
      (match portMeta s m with
       | .ok () =>
         (match portInfo env m cmd with
          | some v => .ok v
          | none => .err .invalidParameter)
       | .err e => .err e
       | .panic => .panic)
    | .err e => .err e
    | .panic => .panic
  | .gcGetPortURL h =>
    match portOf (s.slots h) with
    | .ok m =>
      (match portMeta s m with
       | .ok () => .ok (.str (portUrl env m))
       | .err e => .err e
       | .panic => .panic)
    | .err e => .err e
    | .panic => .panic
  | .gcGetPortURLInfo h index cmd =>
    match portOf (s.slots h) with
    | .ok m =>
      (match portMeta s m with
       | .ok () => if index % 2 ^ 32 ≥ 1 then .err .invalidIndex else urlInfo env m cmd
       | .err e => .err e
       | .panic => .panic)
    | .err e => .err e
    | .panic => .panic
  | .ifGetDeviceID h _ =>
    match wantInterface (s.slots h) with
    | .ok () => .err .invalidIndex                -- `devices.get(iIndex)`: the list is empty
    | .err e => .err e
    | .panic => .panic
  | .ifGetDeviceInfo h id _ =>
    match wantInterface (s.slots h) with
    | .ok () => .err (.invalidId id)              -- `device_by_id(&id)?`
    | .err e => .err e
    | .panic => .panic

/-- Body of every entry point (the `$body` of `gentl_api!`), after the init assertion. -/
def body (env : Env) (s : State) (c : Call) : Ret :=
  let fail (e : Err) : Ret := ⟨s, .err e, c.untouched⟩
  let ret (r : GR Out) : Ret := ⟨s, r, c.untouched⟩
  match c with
  | .initLib =>
    if s.libInit then fail .resourceInUse else ⟨{ s with libInit := true }, .ok .plain, .plain⟩
  | .closeLib =>
    -- reached only when initialised (the wrapper asserted it); the inner test is kept as written
    if s.libInit then ⟨{ s with libInit := false }, .ok .plain, .plain⟩ else fail .notInitialized
  | .getLastError d =>
    match s.lastErr with
    | some e =>
      (match copyTo (.str (e.text env)) d with
       | .ok d' => ret (.ok (.lastError (some e.code) d'))
       | .err x => fail x
       | .panic => ret .panic)
    | none =>
      (match copyTo (.str env.noErrorText) d with
       | .ok d' => ret (.ok (.lastError (some 0) d'))
       | .err x => fail x
       | .panic => ret .panic)
  | .tlOpen dst =>
    if s.sysOpen then fail .resourceInUse
    else ⟨({ s with sysOpen := true }).setSlot dst .sys, .ok .plain, .plain⟩
  | .tlClose h =>
    match wantSystem (s.slots h) with
    | .ok () =>
      if s.sysOpen then
        -- closes every interface (result ignored), clears the flag, drops the handle
        ⟨({ s with sysOpen := false, ifOpen := false }).setSlot h .freed, .ok .plain, .plain⟩
      else fail .notInitialized
    | .err e => fail e
    | .panic => ret .panic
  | .tlUpdateInterfaceList h =>
    match wantSystem (s.slots h) with
    | .ok () => if s.sysOpen then ret (.ok (.scalar (some 0))) else fail .notInitialized
    | .err e => fail e
    | .panic => ret .panic
  | .tlGetNumInterfaces h =>
    match wantSystem (s.slots h) with
    | .ok () => ret (.ok (.scalar (some NUM_INTERFACE)))
    | .err e => fail e
    | .panic => ret .panic
  | .tlOpenInterface h id dst =>
    match wantSystem (s.slots h) with
    | .ok () =>
      if id ≠ env.ifc.id then fail (.invalidId id)
      else if s.ifOpen then fail .resourceInUse
      else ⟨({ s with ifOpen := true }).setSlot dst .iface, .ok .plain, .plain⟩
    | .err e => fail e
    | .panic => ret .panic
  | .ifClose h =>
    match wantInterface (s.slots h) with
    | .ok () => ⟨({ s with ifOpen := false }).setSlot h .freed, .ok .plain, .plain⟩
    | .err e => fail e
    | .panic => ret .panic
  | .gcGetNumPortURLs h =>
    match portOf (s.slots h) with
    | .ok m =>
      (match portMeta s m with
       | .ok () => ret (.ok (.scalar (some 1)))
       | .err e => fail e
       | .panic => ret .panic)
    | .err e => fail e
    | .panic => ret .panic
  | .ifGetNumDevices h =>
    match wantInterface (s.slots h) with
    | .ok () => ret (.ok (.scalar (some 0)))      -- `devices().len()`: never any device
    | .err e => fail e
    | .panic => ret .panic
  | .ifOpenDevice h id =>
    match wantInterface (s.slots h) with
    | .ok () => fail (.invalidId id)              -- `device_by_id(&id)?`
    | .err e => fail e
    | .panic => ret .panic
  | .ifUpdateDeviceList h =>
    match wantInterface (s.slots h) with
    | .ok () =>
      -- `assert_open()?`, then `enumerate_u3v_device()?`
      if s.ifOpen then fail .notImplemented else fail .notInitialized
    | .err e => fail e
    | .panic => ret .panic
  | .ifGetParentTL h =>
    match wantInterface (s.slots h) with
    | .ok () => ret (.ok .plain)                  -- the stored parent pointer, whatever its state
    | .err e => fail e
    | .panic => ret .panic
  | .gcGetInfo => fail .notImplemented
  | .nullPtr _ => fail .invalidParameter          -- `assert_non_null(..)?` / `check_buffer(..)?` come first
  | .info q d =>
    match queryValue env s q with
    | .ok v => ret (if q.typed then infoOut v d else copyOut v d)
    | .err e => fail e
    | .panic => ret .panic
  | .gcReadPort h address size buf =>
    if size > ISIZE_MAX then fail .invalidParameter else
    match portOf (s.slots h) with
    | .ok m =>
      (match portRead env s m address size with
       | .ok data =>
         -- `buffer.copy_from_slice(data)`: writes `size` bytes at `pBuffer`
         if size ≤ buf.length then ret (.ok (.read data.length (data ++ buf.drop data.length)))
         else ret .panic
       | .err e => fail e
       | .panic => ret .panic)
    | .err e => fail e
    | .panic => ret .panic
  | .gcWritePort h address size data =>
    if size > ISIZE_MAX then fail .invalidParameter else
    match portOf (s.slots h) with
    | .ok m =>
      (match portWriteSized env s m address size data with
       | (s', .ok n) => ⟨s', .ok (.write n), c.untouched⟩
       | (s', .err e) => ⟨s', .err e, c.untouched⟩
       | (s', .panic) => ⟨s', .panic, c.untouched⟩)
    | .err e => fail e
    | .panic => ret .panic
  | .gcReadPortStacked h es =>
    if es.any (fun e => e.2.1 > ISIZE_MAX) then fail .invalidParameter else
    match portOf (s.slots h) with
    | .ok m =>
      (match readStacked env s m es 0 [] with
       | (n, bufs, .ok ()) => ret (.ok (.readStacked n bufs))
       | (n, bufs, .err e) => ⟨s, .err e, .readStacked n bufs⟩
       | (_, _, .panic) => ret .panic)
    | .err e => fail e
    | .panic => ret .panic
  | .gcWritePortStacked h es =>
    if es.any (fun e => e.2.1 > ISIZE_MAX) then fail .invalidParameter else
    match portOf (s.slots h) with
    | .ok m =>
      (match writeStacked env m s es 0 with
       | (s', n, .ok ()) => ⟨s', .ok (.writeStacked n), c.untouched⟩
       | (s', n, .err e) => ⟨s', .err e, .writeStacked n⟩
       | (s', _, .panic) => ⟨s', .panic, c.untouched⟩)
    | .err e => fail e
    | .panic => ret .panic

/-- The caller owns what it claims: a read buffer of at least `size` bytes, write data of exactly
`size` bytes (also per stacked entry) — or the size is one no buffer can have (`> isize::MAX`),
which the entry points refuse before looking at the buffer.  Trivially true of every other call. -/
def Call.honest : Call → Bool
  | .gcReadPort _ _ size buf => decide (size ≤ buf.length) || decide (size > ISIZE_MAX)
  | .gcWritePort _ _ size data => decide (data.length = size) || decide (size > ISIZE_MAX)
  | .gcReadPortStacked _ es =>
    es.any (fun e => decide (e.2.1 > ISIZE_MAX)) || es.all fun e => decide (e.2.1 ≤ e.2.2.length)
  | .gcWritePortStacked _ es =>
    es.any (fun e => decide (e.2.1 > ISIZE_MAX)) || es.all fun e => decide (e.2.2.length = e.2.1)
  | _ => true

/-- `no_assert` entry points (only `GCInitLib`). -/
def Call.noAssert : Call → Bool
  | .initLib => true
  | _ => false

/-- Does the call dereference a handle variable that was freed? -/
def usesFreed (s : State) (c : Call) : Bool :=
  match c.handle? with
  | some h => s.slots h == .freed
  | none => false

/-- `no_save` entry points: `GCGetLastError` (also when it is refused for a NULL parameter) does
not store its own failure — it would replace the error it is asked about. -/
def Call.noSave : Call → Bool
  | .getLastError _ => true
  | .nullPtr c => c.noSave
  | _ => false

/-- The second half of `gentl_api!`: `code = (&res).into(); save_last_error(res); code`
(`save = false`: the `no_save` variant, which only converts). -/
def finish (save : Bool) (r : Ret) : StepRes :=
  match r.res with
  | .ok o => .done r.st ⟨0, o⟩
  | .err e => .done (if save then { r.st with lastErr := some e } else r.st) ⟨e.code, r.errOut⟩
  | .panic => .abort

/-- One C call. -/
def step (env : Env) (s : State) (c : Call) : StepRes :=
  if !c.noAssert && !s.libInit then
    -- `assert_lib_initialized()?` — before any argument is looked at
    finish (!c.noSave) ⟨s, .err .notInitialized, c.untouched⟩
  else if usesFreed s c then .done s ⟨0, .skipped⟩
  else finish (!c.noSave) (body env s c)

/-- A call sequence; stops at an abort.  Returns the results so far, the final state (if the
process survived) . -/
def run (env : Env) : State → List Call → List Result × Option State
  | s, [] => ([], some s)
  | s, c :: cs =>
    match step env s c with
    | .done s' r => let (rs, f) := run env s' cs; (r :: rs, f)
    | .abort => ([], none)

end CamVerif.GenTL
