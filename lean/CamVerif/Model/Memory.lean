/-
Hand-written executable model of the emulated register memory:

* `impl/src/memory.rs`         — `AccessRight`, `MemoryProtection`, trait `Register`
                                  (default `write`/`read`/`range`)
* `impl/src/bytes_io.rs`       — `read_bytes_{le,be}` / `write_bytes_{le,be}`
* `impl/macros/src/memory.rs`  — the `#[memory]` template (`read_raw`, `write_raw`, `read`,
                                  `write`, `access_right`, `set_access_right`,
                                  `register_observer`, `notify_all`, `new`, memory size)
* `impl/macros/src/register_map.rs` — the `#[register_map]` template (layout constants,
                                  per-type `parse`/`serialize`, bit-field `mask`/`min`/`max`/
                                  `masked_int`/`write`, init values)

The macro templates are modelled as *parametric functions* of
(type, lsb, msb, endianness, len, offset).  Tied to the source by the correspondence
harness `harness/src/bin/c20.rs`, which instantiates a generated family of register maps
with the real macros.

Conventions: `usize` = 64 bit; addresses and lengths are `Nat`; bytes are `UInt8`;
the packed protection bytes and all typed integer values are `BitVec` (two's complement
bit patterns; floats are their IEEE bit patterns).
-/
import CamVerif.Prelude.Basic
namespace CamVerif.Memory

/-- `MemoryError` (the `InvalidRegisterData` payload text is not observable here). -/
inductive MemErr where
  | addressNotReadable
  | addressNotWritable
  | invalidAddress
  | invalidRegisterData
  deriving Repr, DecidableEq, Inhabited

abbrev R := Res MemErr

/-! ## `AccessRight` (memory.rs:61-148) -/

inductive AccessRight where
  | NA | RO | WO | RW
  deriving Repr, DecidableEq, Inhabited

namespace AccessRight

/-- `as_num` -/
def asNum : AccessRight → BitVec 8
  | NA => 0b00#8
  | RO => 0b01#8
  | WO => 0b10#8
  | RW => 0b11#8

/-- `is_readable`: `self.as_num() & 0b1 == 1` -/
def isReadable (a : AccessRight) : Bool := a.asNum &&& 1#8 == 1#8

/-- `is_writable`: `self.as_num() >> 1 == 1` -/
def isWritable (a : AccessRight) : Bool := a.asNum >>> 1 == 1#8

/-- `meet`, branch by branch as coded. -/
def meet (self rhs : AccessRight) : AccessRight :=
  match self with
  | RW => if rhs = RW then RW else rhs
  | RO => if rhs.isReadable then self else NA
  | WO => if rhs.isWritable then self else NA
  | NA => NA

/-- `from_num`: `debug_assert!(num >> 2 == 0)` then a match with `unreachable!()`. -/
def fromNum (p : Profile) (num : BitVec 8) : R AccessRight :=
  if p.debugAsserts && !(num >>> 2 == 0#8) then .panic
  else if num = 0b00#8 then .ok NA
  else if num = 0b01#8 then .ok RO
  else if num = 0b10#8 then .ok WO
  else if num = 0b11#8 then .ok RW
  else .panic

end AccessRight

/-! ## `MemoryProtection` (memory.rs:150-215): 2 bits per byte, 4 cells per `u8` -/

structure MemoryProtection where
  inner : List (BitVec 8)
  memorySize : Nat
  deriving Repr, DecidableEq

namespace MemoryProtection

/-- `new` -/
def new (memorySize : Nat) : MemoryProtection :=
  let len := if memorySize = 0 then 0 else (memorySize - 1) / 4 + 1
  ⟨List.replicate len 0#8, memorySize⟩

/-- `set_access_right`: `&mut self.inner[address / 4]` panics when out of range. -/
def setAccessRight (mp : MemoryProtection) (address : Nat) (ar : AccessRight) : R MemoryProtection :=
  match mp.inner[address / 4]? with
  | none => .panic
  | some block =>
    let offset := address % 4 * 2
    let mask : BitVec 8 := ~~~(0b11#8 <<< offset)
    let block' := (block &&& mask) ||| (ar.asNum <<< offset)
    .ok { mp with inner := mp.inner.set (address / 4) block' }

/-- `access_right` -/
def accessRight (p : Profile) (mp : MemoryProtection) (address : Nat) : R AccessRight :=
  match mp.inner[address / 4]? with
  | none => .panic
  | some block =>
    let offset := address % 4 * 2
    AccessRight.fromNum p ((block >>> offset) &&& 0b11#8)

/-- Number of items a Rust `start..end` yields (nothing when `start >= end`). -/
def rangeCount (s e : Nat) : Nat := if s < e then e - s else 0

/-- `access_right_with_range` over `start .. start+count`: a `fold` from `RW` with `meet`
(no early exit). -/
def accessRightFold (p : Profile) (mp : MemoryProtection) :
    AccessRight → Nat → Nat → R AccessRight
  | acc, _, 0 => .ok acc
  | acc, a, n + 1 =>
    match mp.accessRight p a with
    | .ok r => accessRightFold p mp (acc.meet r) (a + 1) n
    | .err e => .err e
    | .panic => .panic

def accessRightWithRange (p : Profile) (mp : MemoryProtection) (s e : Nat) : R AccessRight :=
  accessRightFold p mp .RW s (rangeCount s e)

/-- `set_access_right_with_range` (`for_each`). -/
def setAccessRightFrom (ar : AccessRight) : MemoryProtection → Nat → Nat → R MemoryProtection
  | mp, _, 0 => .ok mp
  | mp, a, n + 1 =>
    match mp.setAccessRight a ar with
    | .ok mp' => setAccessRightFrom ar mp' (a + 1) n
    | .err e => .err e
    | .panic => .panic

def setAccessRightWithRange (mp : MemoryProtection) (s e : Nat) (ar : AccessRight) :
    R MemoryProtection :=
  setAccessRightFrom ar mp s (rangeCount s e)

/-- `verify_address` -/
def verifyAddress (mp : MemoryProtection) (address : Nat) : R Unit :=
  if mp.memorySize ≤ address then .err .invalidAddress else .ok ()

/-- `verify_address_with_range`: a `for` loop with `?` (stops at the first bad address). -/
def verifyFrom (mp : MemoryProtection) : Nat → Nat → R Unit
  | _, 0 => .ok ()
  | a, n + 1 =>
    match mp.verifyAddress a with
    | .ok () => verifyFrom mp (a + 1) n
    | .err e => .err e
    | .panic => .panic

def verifyAddressWithRange (mp : MemoryProtection) (s e : Nat) : R Unit :=
  verifyFrom mp s (rangeCount s e)

end MemoryProtection

/-! ## Slices -/

/-- `&memory[s..e]`: panics when `s > e` or `e > len`. -/
def slice (m : Bytes) (s e : Nat) : R Bytes :=
  if s ≤ e ∧ e ≤ m.length then .ok ((m.drop s).take (e - s)) else .panic

/-- `memory[s..e].copy_from_slice(data)`: index panic as above, then a length-mismatch panic. -/
def splice (m : Bytes) (s e : Nat) (data : Bytes) : R Bytes :=
  if s ≤ e ∧ e ≤ m.length then
    if data.length = e - s then .ok (m.take s ++ data ++ m.drop e) else .panic
  else .panic

/-! ## Trait `Register` (memory.rs:217-244) -/

/-- What a generated `impl Register for X` provides (`Ty` is the type parameter). -/
structure Register (α : Type) where
  address : Nat
  length : Nat
  accessRight : AccessRight
  parse : Bytes → R α
  serialize : α → R Bytes
  /-- `Register::write(data, memory)` — the default method unless the template overrides it. -/
  write : α → Bytes → R Bytes
  /-- The same call as a TOTAL transition of the `&mut [u8]` argument: the image after the call
  in EVERY outcome (`Ok`, `Err`, panic) together with the outcome.  The templates below define it
  statement by statement; the default merely says "a failing call leaves the image alone". -/
  writeSt : α → Bytes → Bytes × R Unit := fun a m =>
    match write a m with
    | .ok m' => (m', .ok ())
    | .err e => (m, .err e)
    | .panic => (m, .panic)

/-- `Register::range()` -/
def Register.rangeEnd {α} (r : Register α) : Nat := r.address + r.length

/-- default `Register::write`: `serialize(data)?`, then `memory[range].copy_from_slice(..)`. -/
def defaultWrite {α} (address length : Nat) (serialize : α → R Bytes) (data : α) (memory : Bytes) :
    R Bytes :=
  match serialize data with
  | .ok d => splice memory address (address + length) d
  | .err e => .err e
  | .panic => .panic

/-- default `Register::write` as a total transition of `memory: &mut [u8]`, statement by statement:
`let data = Self::serialize(data)?;` (no access to `memory`), `let range = Self::range();`,
`memory[range]` (index panic), `.copy_from_slice(..)` (length assertion, then the copy — the only
statement that changes `memory`). -/
def defaultWriteSt {α} (address length : Nat) (serialize : α → R Bytes) (data : α) (memory : Bytes) :
    Bytes × R Unit :=
  match serialize data with
  | .err e => (memory, .err e)
  | .panic => (memory, .panic)
  | .ok d =>
    if address ≤ address + length ∧ address + length ≤ memory.length then
      if d.length = length then
        (memory.take address ++ d ++ memory.drop (address + length), .ok ())
      else (memory, .panic)
    else (memory, .panic)

/-- default `Register::read`: `Self::parse(&memory[range])`. -/
def Register.read {α} (r : Register α) (memory : Bytes) : R α :=
  match slice memory r.address r.rangeEnd with
  | .ok d => r.parse d
  | .err e => .err e
  | .panic => .panic

/-! ## bytes_io: fixed-width words -/

inductive Endian where
  | LE | BE
  deriving Repr, DecidableEq, Inhabited

/-- `data.read_bytes_{le,be}::<T>()` on a `&[u8]`: `read_exact` of `size` bytes (an
`UnexpectedEof` io error becomes `InvalidRegisterData`), then `from_{le,be}_bytes`. -/
def readWord (e : Endian) (size : Nat) (data : Bytes) : R Nat :=
  if data.length < size then .err .invalidRegisterData
  else .ok (match e with
    | .LE => fromLE (data.take size)
    | .BE => fromBE (data.take size))

/-- `to_{le,be}_bytes` -/
def wordBytes (e : Endian) (size : Nat) (x : Nat) : Bytes :=
  match e with
  | .LE => toLE size x
  | .BE => toBE size x

/-- `slice.write_bytes_{le,be}(x)` on a `&mut [u8]` (`io::Write for &mut [u8]`): copies
`min(size, len)` bytes to the front, never fails. -/
def writeWordFront (e : Endian) (size : Nat) (x : Nat) (dst : Bytes) : Bytes :=
  let src := (wordBytes e size x).take dst.length
  src ++ dst.drop src.length

/-! ## Register types of the `#[register(.. ty = ..)]` attribute -/

inductive ScalarTy where
  | u8 | u16 | u32 | u64 | i8 | i16 | i32 | i64 | f32 | f64
  deriving Repr, DecidableEq, Inhabited

/-- `size_of::<T>()` -/
def ScalarTy.size : ScalarTy → Nat
  | .u8 | .i8 => 1
  | .u16 | .i16 => 2
  | .u32 | .i32 | .f32 => 4
  | .u64 | .i64 | .f64 => 8

/-! ### Template: primitive numeric register (`impl_parse` / `impl_serialize`, `_` arms)

The value is the bit pattern (`BitVec (8*size)`); `len` is whatever the attribute says —
the macro does not compare it with `size_of::<T>()`. -/

def scalarParse (e : Endian) (size : Nat) (data : Bytes) : R (BitVec (8 * size)) :=
  match readWord e size data with
  | .ok n => .ok (BitVec.ofNat _ n)
  | .err x => .err x
  | .panic => .panic

/-- `Vec::with_capacity(len)` + `write_bytes_xx(data).unwrap()` (a `Vec` takes everything). -/
def scalarSerialize (e : Endian) (size : Nat) (v : BitVec (8 * size)) : R Bytes :=
  .ok (wordBytes e size v.toNat)

def scalarReg (e : Endian) (size : Nat) (address len : Nat) (ar : AccessRight) :
    Register (BitVec (8 * size)) :=
  { address := address, length := len, accessRight := ar
    parse := scalarParse e size
    serialize := scalarSerialize e size
    write := defaultWrite address len (scalarSerialize e size)
    writeSt := defaultWriteSt address len (scalarSerialize e size) }

/-! ### Template: `String` register.  A Rust `String` is modelled by its UTF-8 bytes. -/

def isAscii (bs : Bytes) : Bool := bs.all (· < 128)

/-- `parse`: cut at the first NUL (or at `len`), `from_utf8(..)` error or non-ASCII ⇒
`InvalidRegisterData` (both cases are "some byte ≥ 0x80").  `&data[..str_end]` panics when
`data` is shorter than `len` and holds no NUL. -/
def strParse (len : Nat) (data : Bytes) : R Bytes :=
  let strEnd := match data.findIdx? (· == 0) with
    | some i => i
    | none => len
  if strEnd ≤ data.length then
    let s := data.take strEnd
    if isAscii s then .ok s else .err .invalidRegisterData
  else .panic

/-- `serialize`: non-ASCII refused, zero padding up to `len`, longer refused. -/
def strSerialize (len : Nat) (data : Bytes) : R Bytes :=
  if !isAscii data then .err .invalidRegisterData
  else if data.length < len then .ok (data ++ List.replicate (len - data.length) 0)
  else if data.length > len then .err .invalidRegisterData
  else .ok data

def strReg (address len : Nat) (ar : AccessRight) : Register Bytes :=
  { address := address, length := len, accessRight := ar
    parse := strParse len
    serialize := strSerialize len
    write := defaultWrite address len (strSerialize len)
    writeSt := defaultWriteSt address len (strSerialize len) }

/-! ### Template: `Bytes` register -/

def bytesParse (data : Bytes) : R Bytes := .ok data

def bytesSerialize (len : Nat) (data : Bytes) : R Bytes :=
  if data.length ≠ len then .err .invalidRegisterData else .ok data

def bytesReg (address len : Nat) (ar : AccessRight) : Register Bytes :=
  { address := address, length := len, accessRight := ar
    parse := bytesParse
    serialize := bytesSerialize len
    write := defaultWrite address len (bytesSerialize len)
    writeSt := defaultWriteSt address len (bytesSerialize len) }

/-! ### Template: `BitField<ty, LSB = .., MSB = ..>` (register_map.rs:717-853)

`w` = `integral_bits()`, `lsb`/`msb` are the *normalised* positions (`BitField::lsb/msb`:
the literal for LE, `w - literal - 1` for BE). -/

/-- `BitField::lsb(endianness)` / `msb(endianness)`; `none` = the macro itself panics on the
`usize` subtraction (compile error). -/
def bfNormalise (e : Endian) (w lit : Nat) : Option Nat :=
  match e with
  | .LE => some lit
  | .BE => if lit + 1 ≤ w then some (w - lit - 1) else none

/-- `BitField::verify`: `lsb <= msb` and `msb < len`. -/
def bfVerify (w lsb msb : Nat) : Bool := lsb ≤ msb && msb < w

/-- Macro-time `BitField::min` (`impl/macros/src/register_map.rs`), computed in `i128`:
`-(1_i128 << (msb - lsb))` for signed types, `0` otherwise.  `verify` guarantees
`msb - lsb ≤ 63`, so the `i128` arithmetic is exact (no profile dependence). -/
def bfMin (signed : Bool) (lsb msb : Nat) : Int :=
  if signed then -(2 ^ (msb - lsb)) else 0

/-- Macro-time `BitField::max`: `(1_i128 << (msb - lsb)) - 1` for signed types,
`(1_i128 << (msb - lsb + 1)) - 1` otherwise. -/
def bfMax (signed : Bool) (lsb msb : Nat) : Int :=
  if signed then 2 ^ (msb - lsb) - 1 else 2 ^ (msb - lsb + 1) - 1

/-- signed maximum / minimum of the integer type, as bit patterns -/
def intMaxBV (w : Nat) : BitVec w := BitVec.ofNat w (2 ^ (w - 1) - 1)
def intMinBV (w : Nat) : BitVec w := BitVec.ofNat w (2 ^ (w - 1))

/-- generated `mask()` for an unsigned type -/
def bfMaskU (w lsb msb : Nat) : BitVec w :=
  let mask1 : BitVec w := if w - 1 = msb then BitVec.allOnes w else (1#w <<< (msb + 1)) - 1#w
  let mask2 : BitVec w := ~~~((1#w <<< lsb) - 1#w)
  mask1 &&& mask2

/-- generated `mask()` for a signed type -/
def bfMaskS (w lsb msb : Nat) : BitVec w :=
  let mask1 : BitVec w :=
    if w - 1 = msb then BitVec.allOnes w        -- `-1`
    else if w - 2 = msb then intMaxBV w          -- `ty::MAX`
    else (1#w <<< (msb + 1)) - 1#w
  let mask2 : BitVec w :=
    if w - 1 = lsb then intMinBV w               -- `ty::MIN`
    else ~~~((1#w <<< lsb) - 1#w)
  mask1 &&& mask2

def bfMask (signed : Bool) (w lsb msb : Nat) : BitVec w :=
  if signed then bfMaskS w lsb msb else bfMaskU w lsb msb

/-- `data < min || data > max` in the register's integer type -/
def bfOutOfRange (signed : Bool) {w : Nat} (data mn mx : BitVec w) : Bool :=
  if signed then data.slt mn || mx.slt data else data.ult mn || mx.ult data

/-- generated `masked_int` (`min()`/`max()` are the macro-time values cast `as ty`). -/
def bfMaskedInt (signed : Bool) (w lsb msb : Nat) (mn mx : Int) (data : BitVec w) : R (BitVec w) :=
  if bfOutOfRange signed data (BitVec.ofInt w mn) (BitVec.ofInt w mx) then .err .invalidRegisterData
  else .ok ((data <<< lsb) &&& bfMask signed w lsb msb)

/-- the word-level part of the generated `parse` -/
def bfExtract (signed : Bool) (w lsb msb : Nat) (value : BitVec w) : BitVec w :=
  let mask := bfMask signed w lsb msb
  let v := value &&& mask
  if signed then
    let v := v.sshiftRight lsb
    if (1#w <<< (msb - lsb)) &&& v ≠ 0#w then
      v ||| (BitVec.allOnes w ^^^ mask.sshiftRight lsb)
    else v
  else v >>> lsb

def bfParse (e : Endian) (signed : Bool) (w lsb msb : Nat) (data : Bytes) : R (BitVec w) :=
  match readWord e (w / 8) data with
  | .ok n => .ok (bfExtract signed w lsb msb (BitVec.ofNat w n))
  | .err x => .err x
  | .panic => .panic

def bfSerialize (e : Endian) (signed : Bool) (w lsb msb : Nat) (mn mx : Int) (data : BitVec w) :
    R Bytes :=
  match bfMaskedInt signed w lsb msb mn mx data with
  | .ok d => .ok (wordBytes e (w / 8) d.toNat)
  | .err x => .err x
  | .panic => .panic

/-- the word-level part of the generated `write` -/
def bfMerge (signed : Bool) (w lsb msb : Nat) (original masked : BitVec w) : BitVec w :=
  (original &&& ~~~(bfMask signed w lsb msb)) ||| masked

/-- generated `write` override for bit fields: `masked_int(data)?` first, then the word is read
from `memory[range]`, merged and written back to the front of `memory[range]`. -/
def bfWrite (e : Endian) (signed : Bool) (w lsb msb : Nat) (mn mx : Int) (address len : Nat)
    (data : BitVec w) (memory : Bytes) : R Bytes :=
  match bfMaskedInt signed w lsb msb mn mx data with
  | .err x => .err x
  | .panic => .panic
  | .ok d =>
    match slice memory address (address + len) with
    | .err x => .err x
    | .panic => .panic
    | .ok cur =>
      match readWord e (w / 8) cur with
      | .err x => .err x
      | .panic => .panic
      | .ok orig =>
        let new := bfMerge signed w lsb msb (BitVec.ofNat w orig) d
        .ok (memory.take address ++ writeWordFront e (w / 8) new.toNat cur ++
          memory.drop (address + len))

/-- the generated bit-field `write` as a total transition of `memory: &mut [u8]`:
`masked_int(data)?` (no access to `memory`), `memory.index(range)` (index panic) and
`read_bytes` of the old word (`?`), then `memory.index_mut(range).write_bytes(new).unwrap()` — the
only statement that changes `memory`, and the last one. -/
def bfWriteSt (e : Endian) (signed : Bool) (w lsb msb : Nat) (mn mx : Int) (address len : Nat)
    (data : BitVec w) (memory : Bytes) : Bytes × R Unit :=
  match bfMaskedInt signed w lsb msb mn mx data with
  | .err x => (memory, .err x)
  | .panic => (memory, .panic)
  | .ok d =>
    match slice memory address (address + len) with
    | .err x => (memory, .err x)
    | .panic => (memory, .panic)
    | .ok cur =>
      match readWord e (w / 8) cur with
      | .err x => (memory, .err x)
      | .panic => (memory, .panic)
      | .ok orig =>
        let new := bfMerge signed w lsb msb (BitVec.ofNat w orig) d
        (memory.take address ++ writeWordFront e (w / 8) new.toNat cur ++
          memory.drop (address + len), .ok ())

def bfReg (e : Endian) (signed : Bool) (w lsb msb : Nat) (mn mx : Int) (address len : Nat)
    (ar : AccessRight) : Register (BitVec w) :=
  { address := address, length := len, accessRight := ar
    parse := bfParse e signed w lsb msb
    serialize := bfSerialize e signed w lsb msb mn mx
    write := bfWrite e signed w lsb msb mn mx address len
    writeSt := bfWriteSt e signed w lsb msb mn mx address len }

/-! ## Layout constants (register_map.rs:160-240, 211-227, 299) -/

/-- `len` and the optional explicit `offset` of one `#[register(..)]` attribute. -/
structure RegDecl where
  len : Nat
  offset : Option Nat
  deriving Repr, DecidableEq

/-- `Register::parse` threading of the running offset: the register's offset is the explicit
one or the running one; the running offset becomes that `+ len`. -/
def layoutOffsets : Nat → List RegDecl → List Nat
  | _, [] => []
  | running, d :: ds =>
    let off := match d.offset with
      | some o => o
      | none => running
    off :: layoutOffsets (off + d.len) ds

/-- `const ADDRESS: usize = base as usize + offset` for every register of a map. -/
def layoutAddresses (base : Nat) (decls : List RegDecl) : List Nat :=
  (layoutOffsets 0 decls).map (base + ·)

/-- the `while` loop of `size()` / `calculate_memory_size`: maximum starting from `arr[0]`
(an empty array is rejected by the macros; indexing `arr[0]` would not compile). -/
def maxFrom : List Nat → Option Nat
  | [] => none
  | x :: xs => some ((x :: xs).foldl (fun mx c => if mx < c then c else mx) x)

/-- `size()` of a register map -/
def mapSize (decls : List RegDecl) : Option Nat :=
  maxFrom ((layoutOffsets 0 decls).zipWith (fun off d => off + d.len) decls)

/-! ## The `#[memory]` struct -/

structure Mem where
  raw : Bytes
  protection : MemoryProtection
  /-- registered observers: the register range `start .. end` each one watches -/
  observers : List (Nat × Nat)
  deriving Repr, DecidableEq

/-- generated `notify_all(written_range)`: indices (registration order) of the observers whose
`update()` is called. -/
def notifyFrom (ws we : Nat) : List (Nat × Nat) → Nat → List Nat
  | [], _ => []
  | (rs, re) :: rest, i =>
    -- `let start = max(w.start, r.start); let end = min(w.end, r.end); if start >= end { continue }`
    if max ws rs ≥ min we re then notifyFrom ws we rest (i + 1)
    else i :: notifyFrom ws we rest (i + 1)

def Mem.notifyAll (m : Mem) (ws we : Nat) : List Nat := notifyFrom ws we m.observers 0

/-- generated `read_raw(range)` -/
def Mem.readRaw (p : Profile) (m : Mem) (s e : Nat) : R Bytes :=
  if s > e ∨ e > m.raw.length then .err .invalidAddress else
  match m.protection.verifyAddressWithRange s e with
  | .err x => .err x
  | .panic => .panic
  | .ok () =>
    match m.protection.accessRightWithRange p s e with
    | .err x => .err x
    | .panic => .panic
    | .ok ar =>
      if !ar.isReadable then .err .addressNotReadable
      else slice m.raw s e

/-- generated `write_raw(addr, buf)`; the second component lists the observers fired. -/
def Mem.writeRaw (p : Profile) (m : Mem) (addr : Nat) (buf : Bytes) : R (Mem × List Nat) :=
  -- `addr.checked_add(buf.len()).ok_or(InvalidAddress)?`
  if addr + buf.length ≥ 2 ^ 64 then .err .invalidAddress else
  let e := addr + buf.length
  if e > m.raw.length then .err .invalidAddress else
    match m.protection.verifyAddressWithRange addr e with
    | .err x => .err x
    | .panic => .panic
    | .ok () =>
      match m.protection.accessRightWithRange p addr e with
      | .err x => .err x
      | .panic => .panic
      | .ok ar =>
        if !ar.isWritable then .err .addressNotWritable
        else
          match splice m.raw addr e buf with
          | .err x => .err x
          | .panic => .panic
          | .ok raw' => .ok ({ m with raw := raw' }, m.notifyAll addr e)

/-- generated `read::<T>()` (no protection check: machine side) -/
def Mem.read {α} (m : Mem) (r : Register α) : R α := r.read m.raw

/-- generated `write::<T>(data)` -/
def Mem.write {α} (m : Mem) (r : Register α) (data : α) : R (Mem × List Nat) :=
  match r.write data m.raw with
  | .err x => .err x
  | .panic => .panic
  | .ok raw' => .ok ({ m with raw := raw' }, m.notifyAll r.address r.rangeEnd)

/-- generated `access_right::<T>()` -/
def Mem.accessRight {α} (p : Profile) (m : Mem) (r : Register α) : R AccessRight :=
  m.protection.accessRightWithRange p r.address r.rangeEnd

/-- generated `set_access_right::<T>(ar)` -/
def Mem.setAccessRight {α} (m : Mem) (r : Register α) (ar : AccessRight) : R Mem :=
  match m.protection.setAccessRightWithRange r.address r.rangeEnd ar with
  | .ok pr => .ok { m with protection := pr }
  | .err x => .err x
  | .panic => .panic

/-- generated `register_observer::<T, _>(observer)` -/
def Mem.registerObserver {α} (m : Mem) (r : Register α) : Mem :=
  { m with observers := m.observers ++ [(r.address, r.rangeEnd)] }

/-! ### `Memory::new()` -/

/-- What `new()` needs from one register of a fragment: its range, declared right and the
initialiser `X::write(init.try_into().unwrap(), memory)` (if the variant has `= init`). -/
structure RegInit where
  address : Nat
  length : Nat
  access : AccessRight
  init : Option (Bytes → R Bytes)

/-- one `#[register_map]` fragment: `base()`, `size()` and its registers in declaration order -/
structure Fragment where
  base : Nat
  size : Nat
  regs : List RegInit

/-- `init_memory_protection` -/
def initProtection : List RegInit → MemoryProtection → R MemoryProtection
  | [], mp => .ok mp
  | r :: rs, mp =>
    match mp.setAccessRightWithRange r.address (r.address + r.length) r.access with
    | .ok mp' => initProtection rs mp'
    | .err x => .err x
    | .panic => .panic

/-- `init_raw_memory`: every `write(..).unwrap()` -/
def initRaw : List RegInit → Bytes → R Bytes
  | [], raw => .ok raw
  | r :: rs, raw =>
    match r.init with
    | none => initRaw rs raw
    | some w =>
      match w raw with
      | .ok raw' => initRaw rs raw'
      | _ => .panic

def initFragments : List Fragment → Bytes → MemoryProtection → R (Bytes × MemoryProtection)
  | [], raw, mp => .ok (raw, mp)
  | f :: fs, raw, mp =>
    match initProtection f.regs mp with
    | .err x => .err x
    | .panic => .panic
    | .ok mp' =>
      match initRaw f.regs raw with
      | .err x => .err x
      | .panic => .panic
      | .ok raw' => initFragments fs raw' mp'

/-- `calculate_memory_size(&[size + base, ..])` -/
def memorySize (frags : List Fragment) : Option Nat :=
  maxFrom (frags.map fun f => f.size + f.base)

/-- generated `new()` -/
def Mem.new (frags : List Fragment) : R Mem :=
  match memorySize frags with
  | none => .panic   -- not constructible: `#[memory]` rejects an empty struct
  | some n =>
    match initFragments frags (List.replicate n 0) (MemoryProtection.new n) with
    | .ok (raw, mp) => .ok ⟨raw, mp, []⟩
    | .err x => .err x
    | .panic => .panic

/-! ## `&mut self` calls as TOTAL state transitions

`Post` is what a caller can observe of a `&mut self` call: the memory afterwards (raw image,
protection, registered observers) in EVERY outcome, the observers whose `update()` ran during
the call (the observer log of this call), and the returned value / panic.  The functions below
follow the generated bodies statement by statement, threading the state explicitly, so that a
mutation or a notification before an early `return Err(..)` / `?` would show up in the result.
The driver runs THESE functions (the differential compares image, rights and fired observers
after every call, failing ones included). -/

structure Post (α : Type) where
  mem : Mem
  fired : List Nat
  res : R α

/-- generated `write_raw(addr, buf)` -/
def Mem.writeRawPost (p : Profile) (m : Mem) (addr : Nat) (buf : Bytes) : Post Unit :=
  -- `let end = addr.checked_add(buf.len()).ok_or(InvalidAddress)?;`
  if addr + buf.length ≥ 2 ^ 64 then ⟨m, [], .err .invalidAddress⟩ else
  let e := addr + buf.length
  -- `if end > self.raw.len() { return Err(InvalidAddress) }`
  if e > m.raw.length then ⟨m, [], .err .invalidAddress⟩ else
  -- `self.protection.verify_address_with_range(range.clone())?;`   (&self)
  match m.protection.verifyAddressWithRange addr e with
  | .err x => ⟨m, [], .err x⟩
  | .panic => ⟨m, [], .panic⟩
  | .ok () =>
    -- `let access_right = self.protection.access_right_with_range(range.clone());`   (&self)
    match m.protection.accessRightWithRange p addr e with
    | .err x => ⟨m, [], .err x⟩
    | .panic => ⟨m, [], .panic⟩
    | .ok ar =>
      -- `if !access_right.is_writable() { return Err(AddressNotWritable) }`
      if !ar.isWritable then ⟨m, [], .err .addressNotWritable⟩
      else
        -- `self.raw[range].copy_from_slice(buf);`  index / length panics precede the copy
        match splice m.raw addr e buf with
        | .err x => ⟨m, [], .err x⟩
        | .panic => ⟨m, [], .panic⟩
        | .ok raw' =>
          let m1 := { m with raw := raw' }
          -- `self.notify_all(start..end); Ok(())`
          ⟨m1, m1.notifyAll addr e, .ok ()⟩

/-- generated `write::<T>(data)`: `T::write(data, &mut self.raw)?; self.notify_all(T::range()); Ok(())`.
Whatever `T::write` did to the image stays, also when it fails. -/
def Mem.writePost {α} (m : Mem) (r : Register α) (data : α) : Post Unit :=
  let st := r.writeSt data m.raw
  let m1 := { m with raw := st.1 }
  match st.2 with
  | .ok () => ⟨m1, m1.notifyAll r.address r.rangeEnd, .ok ()⟩
  | .err x => ⟨m1, [], .err x⟩
  | .panic => ⟨m1, [], .panic⟩

/-- `set_access_right_with_range` as a total transition: a `for_each` whose panic (cell outside
the packed vector) keeps the cells already written; the flag says whether it ran to the end. -/
def MemoryProtection.setRangeKeep (ar : AccessRight) : MemoryProtection → Nat → Nat → MemoryProtection × Bool
  | mp, _, 0 => (mp, true)
  | mp, a, n + 1 =>
    match mp.setAccessRight a ar with
    | .ok mp' => setRangeKeep ar mp' (a + 1) n
    | _ => (mp, false)

/-- generated `set_access_right::<T>(ar)` (returns `()`; there is no `Err` outcome) -/
def Mem.setAccessRightPost {α} (m : Mem) (r : Register α) (ar : AccessRight) : Post Unit :=
  let st := MemoryProtection.setRangeKeep ar m.protection r.address
    (MemoryProtection.rangeCount r.address r.rangeEnd)
  ⟨{ m with protection := st.1 }, [], if st.2 then .ok () else .panic⟩

/-! ## Histories of `&mut self` calls -/

/-- one `&mut self` call of a history, with the type-level register reduced to what the call
uses: its range and (for typed writes) `T::write(data, ·)` as a total transition of the image -/
inductive Call where
  | writeRaw (addr : Nat) (buf : Bytes)
  | write (address length : Nat) (st : Bytes → Bytes × R Unit)
  | setAccessRight (address length : Nat) (ar : AccessRight)
  | registerObserver (address length : Nat)

/-- the register as far as ranges are concerned -/
def rangeReg (address length : Nat) : Register Unit :=
  { address := address, length := length, accessRight := .NA
    parse := fun _ => .ok (), serialize := fun _ => .ok [], write := fun _ m => .ok m }

/-- typed write with `T::write(data, ·)` given as a transition -/
def Mem.writeCore (m : Mem) (address length : Nat) (st : Bytes → Bytes × R Unit) : Post Unit :=
  m.writePost { rangeReg address length with writeSt := fun _ => st } ()

/-- one call: the memory afterwards and the observers notified -/
def Mem.step (p : Profile) (m : Mem) : Call → Mem × List Nat
  | .writeRaw addr buf => ((m.writeRawPost p addr buf).mem, (m.writeRawPost p addr buf).fired)
  | .write a l st => ((m.writeCore a l st).mem, (m.writeCore a l st).fired)
  | .setAccessRight a l ar => ((m.setAccessRightPost (rangeReg a l) ar).mem, [])
  | .registerObserver a l => (m.registerObserver (rangeReg a l), [])

/-- a history of calls: final memory and the whole observer log -/
def Mem.run (p : Profile) : Mem → List Call → Mem × List Nat
  | m, [] => (m, [])
  | m, c :: cs => ((Mem.run p (m.step p c).1 cs).1, (m.step p c).2 ++ (Mem.run p (m.step p c).1 cs).2)

/-! ## One API call as a state transition

A call that returns `Err` or panics leaves the memory as it was (every mutation in the
templates happens after the last fallible step); the harness compares the real memory image
after *every* call, failing ones included. -/

def Mem.afterWrite (m : Mem) (r : R (Mem × List Nat)) : Mem × List Nat :=
  match r with
  | .ok (m', fired) => (m', fired)
  | _ => (m, [])

end CamVerif.Memory
