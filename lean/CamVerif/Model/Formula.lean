/-
Hand-written executable model of `genapi/src/formula.rs` (lexer, recursive-descent
parser, `Expr::eval`).  Tied to the source by the correspondence harness
(`harness/src/bin/c05.rs`).

Public API (used by other models, e.g. SwissKnife / Converter nodes):

* `Formula.parse      : String → Res Err (Expr F)`        (`formula::parse`)
* `Formula.eval       : Profile → Env F → Expr F → Res Err (EvalResult F)` (`Expr::eval`
  with an environment of literal bindings)
* `Formula.evalX      : Profile → EnvX F → Nat → Expr F → Res Err (EvalResult F)`
  (`Expr::eval` with an environment of expressions, fuel = number of nested identifier
  expansions; a self-referring expression is the error `InvalidNode`)
* `Formula.Env F      := String → Option (EvalResult F)`

Machine integers are `BitVec 64` (i64 with the signed reading).  Floating point numbers
are a type `F` with an abstract `FloatOps F` structure: theorems hold for every
implementation, the driver instantiates Lean's `Float`.

Panics of the Rust code (`unwrap`, `assert!`, `panic!`, `unreachable!`) are `Res.panic`.
The lexer of the Rust code is lazy (a character that cannot start a token panics only when
the parser peeks at it): the model lexes eagerly into a token list that ends with the
marker token `Tok.bad` at the first such position, and the parser panics when it peeks at
that marker.  This is the same observable behaviour because the lexer state is only a position.
-/
import CamVerif.Prelude.Basic
namespace CamVerif.Formula

/-- Abstract IEEE-754 binary64 operations as used by `formula.rs`. -/
class FloatOps (F : Type) where
  add : F → F → F
  sub : F → F → F
  mul : F → F → F
  div : F → F → F
  /-- `%` on f64 (C `fmod`) -/
  rem : F → F → F
  powf : F → F → F
  /-- `i as f64` -/
  ofInt : BitVec 64 → F
  /-- `f as i64` (saturating, NaN ↦ 0) -/
  toInt : F → BitVec 64
  feq : F → F → Bool
  flt : F → F → Bool
  fle : F → F → Bool
  neg : F → F
  abs : F → F
  sin : F → F
  cos : F → F
  tan : F → F
  asin : F → F
  acos : F → F
  atan : F → F
  exp : F → F
  ln : F → F
  log10 : F → F
  sqrt : F → F
  trunc : F → F
  floor : F → F
  ceil : F → F
  round : F → F
  /-- `f64::from_str` of the decimal literal with value `m · 10^e` (correctly rounded). -/
  ofDec : Nat → Int → F
  pi : F
  e : F

inductive Err where
  /-- `GenApiError::InvalidNode` (identifier not found in the variable environment) -/
  | invalidNode
  /-- `GenApiError::InvalidData` (integer remainder with a zero divisor) -/
  | invalidData
  /-- model artefact: recursion fuel exhausted (never produced for fuel = token count, checked
  by the differential and by `parse_print`) -/
  | fuel
  /-- model artefact: the input contains a non-ASCII character (outside the modelled domain) -/
  | nonAscii
  deriving Repr, DecidableEq, Inhabited

abbrev R := Res Err

inductive BinOpKind where
  | add | sub | mul | div | rem | pow | shl | shr | and | or
  | eq | ne | lt | le | gt | ge | bitAnd | bitOr | xor
  deriving Repr, DecidableEq, Inhabited

inductive UnOpKind where
  | not | abs | sgn | neg | sin | cos | tan | asin | acos | atan
  | exp | ln | lg | sqrt | trunc | floor | ceil | round
  deriving Repr, DecidableEq, Inhabited

inductive Expr (F : Type) where
  | binOp (kind : BinOpKind) (lhs rhs : Expr F)
  | unOp (kind : UnOpKind) (expr : Expr F)
  | ite (cond thn els : Expr F)
  | int (i : BitVec 64)
  | float (f : F)
  | ident (s : String)
  deriving Repr, DecidableEq, Inhabited

inductive EvalResult (F : Type) where
  | int (i : BitVec 64)
  | float (f : F)
  deriving Repr, DecidableEq, Inhabited

/-- Variable environment of literal bindings. -/
abbrev Env (F : Type) := String → Option (EvalResult F)
/-- Variable environment of expressions (`HashMap<K, V: Borrow<Expr>>`). -/
abbrev EnvX (F : Type) := String → Option (Expr F)

/-! ## Lexer -/

/-- Punctuation / operator tokens (the payload-free variants of `Token`). -/
inductive Sym where
  | lparen | rparen | plus | minus | star | doubleStar | slash | percent | and | doubleAnd
  | or | doubleOr | caret | tilde | eq | ne | colon | question | lt | le | gt | ge | shl | shr
  deriving Repr, DecidableEq, Inhabited

inductive Tok (F : Type) where
  | sym (s : Sym)
  | ident (s : String)
  | float (f : F)
  | int (i : BitVec 64)
  /-- marker: the lexer panics when asked for the token at this position -/
  | bad
  /-- marker: lexer fuel exhausted (model artefact, never produced with fuel = length + 1) -/
  | nofuel
  deriving Repr, DecidableEq, Inhabited

/-- `Lexer::peek_char` + `next_char`: next character with `&amp;` `&lt;` `&gt;` decoded. -/
def nextChar : List Char → Option (Char × List Char)
  | '&' :: 'a' :: 'm' :: 'p' :: ';' :: r => some ('&', r)
  | '&' :: 'l' :: 't' :: ';' :: r => some ('<', r)
  | '&' :: 'g' :: 't' :: ';' :: r => some ('>', r)
  | c :: r => some (c, r)
  | [] => none

/-- `c.is_whitespace() || c.is_ascii_control()` on ASCII. -/
def isSpace (c : Char) : Bool := c.toNat ≤ 32 || c.toNat = 127
def isDigit (c : Char) : Bool := '0' ≤ c && c ≤ '9'
def isAlpha (c : Char) : Bool := ('a' ≤ c && c ≤ 'z') || ('A' ≤ c && c ≤ 'Z')
def isAlnum (c : Char) : Bool := isAlpha c || isDigit c
def isHexDigit (c : Char) : Bool :=
  isDigit c || ('a' ≤ c && c ≤ 'f') || ('A' ≤ c && c ≤ 'F')
def isIdentCont (c : Char) : Bool := isAlnum c || c = '.' || c = '_'
def isNumCont (c : Char) : Bool := isDigit c || c = '.'

/-- `while self.eat_char(p) {}`: the consumed (decoded) characters and the rest. -/
def eatWhile (p : Char → Bool) : Nat → List Char → List Char × List Char
  | 0, cs => ([], cs)
  | fuel + 1, cs =>
    match nextChar cs with
    | some (c, r) => if p c then let (a, b) := eatWhile p fuel r; (c :: a, b) else ([], cs)
    | none => ([], cs)

/-- `self.eat_char(|c| c == x)` -/
def eatChar (x : Char) (cs : List Char) : Option (List Char) :=
  match nextChar cs with
  | some (c, r) => if c = x then some r else none
  | none => none

def digitVal (c : Char) : Nat := c.toNat - 48
def hexDigitVal (c : Char) : Nat :=
  if isDigit c then c.toNat - 48 else if 'a' ≤ c then c.toNat - 87 else c.toNat - 55
def digitsToNat (ds : List Char) : Nat := ds.foldl (fun a c => a * 10 + digitVal c) 0
def hexToNat (ds : List Char) : Nat := ds.foldl (fun a c => a * 16 + hexDigitVal c) 0

def I64_MAX : Nat := 2 ^ 63 - 1

/-- `i64::from_str` / `i64::from_str_radix(_, 16)` followed by `unwrap` for a digit string
whose value is `n`: fails (panic) when empty or above `i64::MAX`. -/
def intTok {F : Type} (empty : Bool) (n : Nat) : Tok F :=
  if empty then .bad else if n ≤ I64_MAX then .int (BitVec.ofNat 64 n) else .bad

/-- `u64::from_str_radix(_, 16).unwrap() as i64` for a hex digit string whose value is `n`:
fails (panic) when empty or above `u64::MAX`; the cast keeps the 64 bit pattern. -/
def hexTok {F : Type} (empty : Bool) (n : Nat) : Tok F :=
  if empty then .bad else if n < 2 ^ 64 then .int (BitVec.ofNat 64 n) else .bad

variable {F : Type} [FloatOps F]

/-- mantissa `digits [. digits]` of a float literal as accepted by `f64::from_str`:
(integer digits, fraction digits); at most one dot, at least one digit -/
def mantissa (s : List Char) : Option (List Char × List Char) :=
  let ip := s.takeWhile isDigit
  match s.dropWhile isDigit with
  | [] => if ip.isEmpty then none else some (ip, [])
  | '.' :: fp =>
    if fp.all isDigit && (!ip.isEmpty || !fp.isEmpty) then some (ip, fp) else none
  | _ => none

/-- exponent of a float literal (the characters after `e`/`E`): optional sign, at least one digit -/
def exponent (ex : List Char) : Option Int :=
  match ex with
  | '+' :: ds => if ds.isEmpty then none else some (digitsToNat ds : Int)
  | '-' :: ds => if ds.isEmpty then none else some (-(digitsToNat ds : Int))
  | ds => if ds.isEmpty then none else some (digitsToNat ds : Int)

/-- `f64::from_str(s).unwrap()` for the scanned mantissa characters `s` (digits and dots) and
the scanned exponent characters (after the `e`), if an exponent was scanned. -/
def floatTok (s : List Char) (ex : Option (List Char)) : Tok F :=
  match mantissa s, (match ex with | none => some (0 : Int) | some e => exponent e) with
  | some (ip, fp), some E => .float (FloatOps.ofDec (digitsToNat (ip ++ fp)) (E - (fp.length : Int)))
  | _, _ => .bad

/-- `Lexer::eat_exponent`: `e`/`E`, an optional sign, digits.  Returns the characters after
the `e` and the rest, `none` when the next character is not `e`/`E`. -/
def eatExponent (n : Nat) (cs : List Char) : Option (List Char × List Char) :=
  match nextChar cs with
  | some (c, r) =>
    if c = 'e' || c = 'E' then
      let (sg, r1) : List Char × List Char :=
        match nextChar r with
        | some (c', r') => if c' = '+' || c' = '-' then ([c'], r') else ([], r)
        | none => ([], r)
      let (ds, r2) := eatWhile isDigit n r1
      some (sg ++ ds, r2)
    else none
  | none => none

/-- One token (`Lexer::peek` after whitespace skipping); `none` at the end of input. -/
def lexOne (cs : List Char) : Option (Tok F × List Char) :=
  match nextChar cs with
  | none => none
  | some (c, r) =>
    let n := r.length + 1
    some <|
      if c = '(' then (.sym .lparen, r)
      else if c = ')' then (.sym .rparen, r)
      else if c = '+' then (.sym .plus, r)
      else if c = '-' then (.sym .minus, r)
      else if c = '*' then
        match eatChar '*' r with
        | some r' => (.sym .doubleStar, r')
        | none => (.sym .star, r)
      else if c = '/' then (.sym .slash, r)
      else if c = '%' then (.sym .percent, r)
      else if c = '&' then
        match eatChar '&' r with
        | some r' => (.sym .doubleAnd, r')
        | none => (.sym .and, r)
      else if c = '|' then
        match eatChar '|' r with
        | some r' => (.sym .doubleOr, r')
        | none => (.sym .or, r)
      else if c = '^' then (.sym .caret, r)
      else if c = '~' then (.sym .tilde, r)
      else if c = '=' then (.sym .eq, r)
      else if c = ':' then (.sym .colon, r)
      else if c = '?' then (.sym .question, r)
      else if c = '<' then
        match eatChar '>' r with
        | some r' => (.sym .ne, r')
        | none =>
          match eatChar '=' r with
          | some r' => (.sym .le, r')
          | none =>
            match eatChar '<' r with
            | some r' => (.sym .shl, r')
            | none => (.sym .lt, r)
      else if c = '>' then
        match eatChar '=' r with
        | some r' => (.sym .ge, r')
        | none =>
          match eatChar '>' r with
          | some r' => (.sym .shr, r')
          | none => (.sym .gt, r)
      else if c = '.' then
        let (ds, r') := eatWhile isDigit n r
        match eatExponent n r' with
        | some (ex, r'') => (floatTok ('.' :: ds) (some ex), r'')
        | none => (floatTok ('.' :: ds) none, r')
      else if isAlpha c then
        let (s, r') := eatWhile isIdentCont n r
        (.ident (String.ofList (c :: s)), r')
      else if isDigit c then
        match (if c = '0' then
            (match eatChar 'x' r with | some r1 => some r1 | none => eatChar 'X' r) else none) with
        | some r1 =>
          let (hs, r') := eatWhile isHexDigit n r1
          (hexTok hs.isEmpty (hexToNat hs), r')
        | none =>
          let (s, r') := eatWhile isNumCont n r
          match eatExponent n r' with
          | some (ex, r'') => (floatTok (c :: s) (some ex), r'')
          | none =>
            if s.all isDigit then (intTok false (digitsToNat (c :: s)), r')
            else (floatTok (c :: s) none, r')
      else (.bad, r)

/-- `while self.eat_char(is_space) {}` -/
def skipSpace (cs : List Char) : List Char := (eatWhile isSpace (cs.length + 1) cs).2

/-- All tokens; stops after the first `bad`. -/
def lexAux : Nat → List Char → List (Tok F)
  | 0, _ => [.nofuel]
  | fuel + 1, cs =>
    match lexOne (skipSpace cs) with
    | none => []
    | some (.bad, _) => [.bad]
    | some (t, r) => t :: lexAux fuel r

def lex (cs : List Char) : List (Tok F) := lexAux (cs.length + 1) cs

/-! ## Parser -/

/-- `(expression, remaining tokens)` -/
abbrev PR (F : Type) := Res Err (Expr F × List (Tok F))
abbrev P (F : Type) := List (Tok F) → Res Err (Expr F × List (Tok F))

/-- `Parser::eat`: peek (a lexer panic surfaces here) and consume on a match. -/
def eat (s : Sym) : List (Tok F) → R (Bool × List (Tok F))
  | .bad :: _ => .panic
  | .sym s' :: r => if s' = s then .ok (true, r) else .ok (false, .sym s' :: r)
  | ts => .ok (false, ts)

/-- `Parser::expect`: `assert!(self.eat(tok))` -/
def expect (s : Sym) (ts : List (Tok F)) : R (List (Tok F)) := do
  let (b, ts') ← eat (F := F) s ts
  if b then .ok ts' else .panic

/-- One row of the precedence ladder = one `parse_binop!` call: the operators are tried in order. -/
abbrev Row := List (Sym × BinOpKind)

/-- The precedence ladder of `impl Parser`, lowest precedence first:
`logical_or, logical_and, bitwise_or, bitwise_xor, bitwise_and, eq, rel, bit_shift, term, factor`. -/
def ladder : List Row :=
  [ [(.doubleOr, .or)],
    [(.doubleAnd, .and)],
    [(.or, .bitOr)],
    [(.caret, .xor)],
    [(.and, .bitAnd)],
    [(.eq, .eq), (.ne, .ne)],
    [(.lt, .lt), (.le, .le), (.gt, .gt), (.ge, .ge)],
    [(.shl, .shl), (.shr, .shr)],
    [(.plus, .add), (.minus, .sub)],
    [(.star, .mul), (.slash, .div), (.percent, .rem)] ]

/-- `if self.eat(t1) { op1 } else if self.eat(t2) { op2 } … else { break }` -/
def eatRow : Row → List (Tok F) → R (Option BinOpKind × List (Tok F))
  | [], ts => .ok (none, ts)
  | (s, op) :: row, ts => do
    let (b, ts') ← eat (F := F) s ts
    if b then .ok (some op, ts') else eatRow row ts

/-- The `loop` of `parse_binop!` (left-associative accumulation). -/
def binLoop (next : P F) (row : Row) : Nat → Expr F → List (Tok F) → Res Err (Expr F × List (Tok F))
  | 0, _, _ => .err .fuel
  | k + 1, acc, ts => do
    let (o, ts') ← eatRow (F := F) row ts
    match o with
    | none => .ok (acc, ts')
    | some op => do
      let (rhs, ts'') ← next ts'
      binLoop next row k (.binOp op acc rhs) ts''

/-- `parse_binop!(self.next, row…)` -/
def binLevel (next : P F) (row : Row) : P F := fun ts => do
  let (l, ts') ← next ts
  binLoop next row (ts.length + 1) l ts'

/-- The ladder above the unary level `u`. -/
def ladderP (u : P F) : List Row → P F
  | [] => u
  | row :: rows => binLevel (ladderP u rows) row

/-- The function-name table in `Parser::primary` (the arms of `match s.as_str()`). -/
def funcTable : List (String × UnOpKind) :=
  [ ("SGN", .sgn), ("NEG", .neg), ("SIN", .sin), ("COS", .cos), ("TAN", .tan), ("ASIN", .asin),
    ("ACOS", .acos), ("ATAN", .atan), ("ABS", .abs), ("EXP", .exp), ("LN", .ln), ("LG", .lg),
    ("SQRT", .sqrt), ("TRUNC", .trunc), ("FLOOR", .floor), ("CEIL", .ceil), ("ROUND", .round) ]

/-- first matching arm; `none` is the `other => panic!(..)` arm -/
def funcOf (s : String) : Option UnOpKind :=
  match funcTable.find? (fun nk => nk.1 = s) with
  | some nk => some nk.2
  | none => none

/-- `Parser::primary`, `pE` = `self.expr` -/
def primaryBody (pE : P F) : P F := fun ts => do
  let (b, ts1) ← eat (F := F) .lparen ts
  if b then do
    let (e, ts2) ← pE ts1
    let ts3 ← expect .rparen ts2
    .ok (e, ts3)
  else
    match ts1 with
    | .int i :: r => .ok (.int i, r)
    | .float f :: r => .ok (.float f, r)
    | .ident s :: r =>
      if s = "PI" then .ok (.float FloatOps.pi, r)
      else if s = "E" then .ok (.float FloatOps.e, r)
      else do
        let (b, r1) ← eat (F := F) .lparen r
        if b then
          match funcOf s with
          | none => .panic
          | some k => do
            let (a, r2) ← pE r1
            let r3 ← expect .rparen r2
            .ok (.unOp k a, r3)
        else .ok (.ident s, r1)
    | _ => .panic

/-- `Parser::pow`, `pU` = `self.unop` -/
def powBody (pU pE : P F) : P F := fun ts => do
  let (e, ts1) ← primaryBody pE ts
  let (b, ts2) ← eat (F := F) .doubleStar ts1
  if b then do
    let (r, ts3) ← pU ts2
    .ok (.binOp .pow e r, ts3)
  else .ok (e, ts2)

/-- `Parser::unop` -/
def unopBody (pU pE : P F) : P F := fun ts => do
  let (b, ts1) ← eat (F := F) .tilde ts
  if b then do
    let (e, ts2) ← pU ts1
    .ok (.unOp .not e, ts2)
  else do
    let (b, ts2) ← eat (F := F) .minus ts1
    if b then do
      let (e, ts3) ← pU ts2
      .ok (.unOp .neg e, ts3)
    else do
      let (b, ts3) ← eat (F := F) .plus ts2
      if b then pU ts3 else powBody pU pE ts3

/-- `Parser::expr`: `pU` is `self.unop` (reached through the ladder), `pE` the recursive `self.expr`. -/
def exprBody (pU pE : P F) : P F := fun ts => do
  let (c, ts1) ← ladderP pU ladder ts
  let (b, ts2) ← eat (F := F) .question ts1
  if b then do
    let (t, ts3) ← pE ts2
    let ts4 ← expect .colon ts3
    let (e, ts5) ← pE ts4
    .ok (.ite c t e, ts5)
  else .ok (c, ts2)

/- Recursion fuel: every recursive call of `unop` / `expr` from a deeper position happens after
at least one token was consumed, so nesting depth ≤ token count. -/
mutual
def pUnop : Nat → P F
  | 0 => fun _ => .err .fuel
  | n + 1 => unopBody (pUnop n) (pExpr n)
def pExpr : Nat → P F
  | 0 => fun _ => .err .fuel
  | n + 1 => exprBody (unopBody (pUnop n) (pExpr n)) (pExpr n)
end

/-- `formula::parse` on a token list: `parser.expr()`, then `assert!(lexer.peek().is_none())`
(a token left over — or a lexer panic at that position — is a panic). -/
def parseToks (ts : List (Tok F)) : R (Expr F) := do
  let (e, rest) ← pExpr (ts.length + 1) ts
  match rest with
  | [] => .ok e
  | _ => .panic

/-- `formula::parse` -/
def parseChars (cs : List Char) : R (Expr F) :=
  if cs.any (fun c => c.toNat ≥ 128) then .err .nonAscii
  else
    let ts : List (Tok F) := lex cs
    if ts.any (fun t => match t with | .nofuel => true | _ => false) then .err .fuel
    else parseToks ts

def parse (s : String) : R (Expr F) := parseChars s.toList

/-! ## Evaluation -/

open FloatOps

namespace EvalResult
/-- `as_integer` -/
def asInteger : EvalResult F → BitVec 64
  | .int i => i
  | .float f => toInt f
/-- `as_float` -/
def asFloat : EvalResult F → F
  | .int i => ofInt i
  | .float f => f
/-- `as_bool` (`i != 0`, `f != 0.0`) -/
def asBool : EvalResult F → Bool
  | .int i => i != 0
  | .float f => !(feq f (ofInt 0))
def isInteger : EvalResult F → Bool
  | .int _ => true
  | .float _ => false
/-- `From<bool>` -/
def ofBool (b : Bool) : EvalResult F := .int (if b then 1 else 0)
end EvalResult
open EvalResult

/-- The repaired `wrapping_pow(base, exp)`: square and multiply, all products wrapping. -/
def powLoop : Nat → BitVec 64 → BitVec 64 → BitVec 64 → BitVec 64
  | 0, _, _, acc => acc
  | k + 1, base, exp, acc =>
    if exp = 0 then acc
    else powLoop k (base * base) (exp >>> 1) (if exp &&& 1 = 1 then acc * base else acc)

/-- `wrapping_pow`: 64 halvings exhaust any u64 exponent. -/
def wrappingPow (base exp : BitVec 64) : BitVec 64 := powLoop 64 base exp 1

/-- `i64::signum` -/
def signum (i : BitVec 64) : BitVec 64 :=
  if i = 0 then 0 else if i.slt 0 then -1 else 1

/-- `float_sgn` -/
def floatSgn (f : F) : F :=
  if flt (ofInt 0) f then ofInt 1 else if flt f (ofInt 0) then ofInt (-1) else f

/-- `apply_arithmetic_op!` -/
def arith (fi : BitVec 64 → BitVec 64 → BitVec 64) (ff : F → F → F) (l r : EvalResult F) :
    EvalResult F :=
  if l.isInteger && r.isInteger then .int (fi l.asInteger r.asInteger)
  else .float (ff l.asFloat r.asFloat)

/-- `apply_cmp_op!` -/
def cmp (fi : BitVec 64 → BitVec 64 → Bool) (ff : F → F → Bool) (l r : EvalResult F) :
    EvalResult F :=
  if l.isInteger && r.isInteger then ofBool (fi l.asInteger r.asInteger)
  else ofBool (ff l.asFloat r.asFloat)

/-- `rhs as u32` then the masking of `overflowing_shl/shr` (`& 63`). -/
def shiftAmount (r : BitVec 64) : Nat := (r.toNat % 2 ^ 32) % 64

/-- The `_ =>` arm of `eval_binop` once both operands are evaluated. -/
def evalBinStrict (op : BinOpKind) (l r : EvalResult F) : R (EvalResult F) :=
  match op with
  | .add => .ok (arith (· + ·) add l r)
  | .sub => .ok (arith (· - ·) sub l r)
  | .mul => .ok (arith (· * ·) mul l r)
  | .div => .ok (.float (div l.asFloat r.asFloat))
  | .rem =>
    if l.isInteger && r.isInteger && r.asInteger == 0 then .err .invalidData
    else .ok (arith BitVec.srem rem l r)
  | .pow =>
    if l.isInteger && r.isInteger && !(r.asInteger.slt 0) then
      .ok (.int (wrappingPow l.asInteger r.asInteger))
    else .ok (.float (powf l.asFloat r.asFloat))
  | .eq => .ok (cmp (· == ·) feq l r)
  | .ne => .ok (cmp (· != ·) (fun a b => !(feq a b)) l r)
  | .lt => .ok (cmp BitVec.slt flt l r)
  | .le => .ok (cmp BitVec.sle fle l r)
  | .gt => .ok (cmp (fun a b => b.slt a) (fun a b => flt b a) l r)
  | .ge => .ok (cmp (fun a b => b.sle a) (fun a b => fle b a) l r)
  | .shl => .ok (.int (l.asInteger <<< shiftAmount r.asInteger))
  | .shr => .ok (.int (l.asInteger.sshiftRight (shiftAmount r.asInteger)))
  | .bitAnd => .ok (.int (l.asInteger &&& r.asInteger))
  | .bitOr => .ok (.int (l.asInteger ||| r.asInteger))
  | .xor => .ok (.int (l.asInteger ^^^ r.asInteger))
  | .and => .panic   -- `_ => unreachable!()`
  | .or => .panic

/-- `eval_unop` once the operand is evaluated. -/
def evalUn (op : UnOpKind) (v : EvalResult F) : EvalResult F :=
  match op with
  | .not => .int (~~~ v.asInteger)
  | .abs => match v with
    | .int i => .int i.abs          -- `wrapping_abs`
    | .float f => .float (abs f)
  | .sgn => match v with
    | .int i => .int (signum i)
    | .float f => .float (floatSgn f)
  | .neg => match v with
    | .int i => .int (-i)           -- `wrapping_neg`
    | .float f => .float (neg f)
  | .sin => .float (sin v.asFloat)
  | .cos => .float (cos v.asFloat)
  | .tan => .float (tan v.asFloat)
  | .asin => .float (asin v.asFloat)
  | .acos => .float (acos v.asFloat)
  | .atan => .float (atan v.asFloat)
  | .exp => .float (exp v.asFloat)
  | .ln => .float (ln v.asFloat)
  | .lg => .float (log10 v.asFloat)
  | .sqrt => .float (sqrt v.asFloat)
  | .trunc => .float (trunc v.asFloat)
  | .floor => .float (floor v.asFloat)
  | .ceil => .float (ceil v.asFloat)
  | .round => .float (round v.asFloat)

/-- `Expr::eval` for an environment of literal bindings.  After the repairs no operation of
the evaluator depends on the build profile (all integer arithmetic is explicitly wrapping);
the parameter is kept so that the totality theorem is stated for both profiles. -/
def eval (p : Profile) (env : Env F) : Expr F → R (EvalResult F)
  | .binOp k l r =>
    match k with
    | .and => do
      let a ← eval p env l
      if a.asBool then do
        let b ← eval p env r
        .ok (ofBool b.asBool)
      else .ok (ofBool false)
    | .or => do
      let a ← eval p env l
      if a.asBool then .ok (ofBool true)
      else do
        let b ← eval p env r
        .ok (ofBool b.asBool)
    | k => do
      let a ← eval p env l
      let b ← eval p env r
      evalBinStrict k a b
  | .unOp k e => do
    let v ← eval p env e
    .ok (evalUn k v)
  | .ite c t e => do
    let cv ← eval p env c
    if cv.asBool then eval p env t else eval p env e
  | .int i => .ok (.int i)
  | .float f => .ok (.float f)
  | .ident s =>
    match env s with
    | none => .err .invalidNode
    | some v => .ok v

/-- `Expr::eval_in` for an environment of expressions: an identifier evaluates the bound
expression in the same environment (dynamic scope).  `expanding` are the identifiers whose bound
expressions are being evaluated (the `Expanding` chain): meeting one of them again is the error
`InvalidNode` (an expression that refers to itself).  `fuel` bounds the nesting of identifier
expansions; with an environment of `n` bindings a chain without repetition has at most `n`
links, so `fuel = n + 1` is never exhausted (`Err.fuel` is a model artefact). -/
def evalXV (p : Profile) (env : EnvX F) : List String → Nat → Expr F → R (EvalResult F)
  | vis, fuel, .binOp k l r =>
    match k with
    | .and => do
      let a ← evalXV p env vis fuel l
      if a.asBool then do
        let b ← evalXV p env vis fuel r
        .ok (ofBool b.asBool)
      else .ok (ofBool false)
    | .or => do
      let a ← evalXV p env vis fuel l
      if a.asBool then .ok (ofBool true)
      else do
        let b ← evalXV p env vis fuel r
        .ok (ofBool b.asBool)
    | k => do
      let a ← evalXV p env vis fuel l
      let b ← evalXV p env vis fuel r
      evalBinStrict k a b
  | vis, fuel, .unOp k e => do
    let v ← evalXV p env vis fuel e
    .ok (evalUn k v)
  | vis, fuel, .ite c t e => do
    let cv ← evalXV p env vis fuel c
    if cv.asBool then evalXV p env vis fuel t else evalXV p env vis fuel e
  | _, _, .int i => .ok (.int i)
  | _, _, .float f => .ok (.float f)
  | vis, fuel, .ident s =>
    if vis.contains s then .err .invalidNode
    else
      match env s with
      | none => .err .invalidNode
      | some e =>
        match fuel with
        | 0 => .err .fuel
        | fuel + 1 => evalXV p env (s :: vis) fuel e
termination_by _ fuel e => (fuel, sizeOf e)

/-- `Expr::eval` (the public entry point) for an environment of expressions. -/
def evalX (p : Profile) (env : EnvX F) (fuel : Nat) (e : Expr F) : R (EvalResult F) :=
  evalXV p env [] fuel e

end CamVerif.Formula
