/-
Hand-written executable model of `cameleon/src/u3v/control_handle.rs`
(`ControlHandle`: `send_cmd`, `verify_ack`, `read`, `write`, `initialize_config`, `open`,
`close`) on top of the command model (`Model/Cmd.lean`) and the acknowledge model
(`Model/Ack.lean`).  Tied to the source by the correspondence harness
(`harness/src/bin/c06.rs`, `c07.rs`): the REAL handle runs over a scripted in-memory USB
endpoint, the model over the same device, and results / wire logs are diffed.

* The USB transport is an abstract transition system `Dev σ` (state `σ` is whatever the
  device and the bus are): `send` = `write_bulk` on the control OUT endpoint, `recv` =
  `read_bulk` on the control IN endpoint into a buffer of the given size, `ctl` = the
  interface / halt requests of `open` and `close`.
* The handle's shared buffer is represented by its length only: every byte the code reads
  from it was written by the immediately preceding `serialize` / `recv` (the one place
  where that is not literally so — sending `&buffer[..cmd_len]` after a serialization of a
  different length — is a `panic` artefact branch that the theorems show unreachable).
* Time is not modelled: `thread::sleep` is the logged no-op `Ev.sleep`.
* u16/u32/u64/usize values are `Nat` carriers; `usize` is 64 bit.
* Every transport interaction is appended (newest first) to `St.logRev`.
-/
import CamVerif.Model.Cmd
import CamVerif.Model.Ack
namespace CamVerif.Control
open CamVerif

/-! ### Errors -/

/-- `cameleon_device::u3v::LibUsbError` -/
inductive UsbErr where
  | io | invalidParam | access | noDevice | notFound | busy | timeout | overflow | pipe
  | interrupted | noMem | notSupported | badDescriptor | other
  deriving Repr, DecidableEq, Inhabited

/-- `cameleon::ControlError` (variant only; payloads are messages). -/
inductive CErr where
  | busy | disconnected | io | timeout | notOpened | invalidDevice | bufferTooSmall | invalidData
  deriving Repr, DecidableEq, Inhabited

/-- `impl From<u3v::Error> for ControlError`, `LibUsb` arm (`cameleon/src/u3v/mod.rs`). -/
def CErr.ofUsb : UsbErr → CErr
  | .busy => .busy
  | .noDevice => .disconnected
  | .notFound => .disconnected
  | .timeout => .timeout
  | _ => .io

/-- same `From`, `BufferIo(_) | InvalidPacket(_)` arm. -/
def CErr.ofCmd : Cmd.Err → CErr
  | _ => .io

def CErr.ofAck : Ack.Err → CErr
  | _ => .io

abbrev R := Res CErr

/-! ### Transport -/

inductive CtlReq where
  | claim | release | setHaltIn | setHaltOut | clearHaltIn | clearHaltOut
  deriving Repr, DecidableEq

/-- The USB side as a transition system. -/
structure Dev (σ : Type) where
  /-- `write_bulk(bulk_out_ep, bytes)`; the returned length is ignored by the code. -/
  send : σ → Bytes → σ × Option UsbErr
  /-- `read_bulk(bulk_in_ep, buf)` with `buf.len() = bufLen`: received bytes or error. -/
  recv : σ → Nat → σ × Except UsbErr Bytes
  /-- claim / release interface, SET_FEATURE(ENDPOINT_HALT), clear halt. -/
  ctl : σ → CtlReq → σ × Option UsbErr

/-- One interaction with the outside world.  `timeoutMs` is the timeout handed to the
transport call (`transfer_timeout()` = `Config.xfer`; 0 for requests that take none). -/
inductive Ev where
  | send (bytes : Bytes) (timeoutMs : Nat) (err : Option UsbErr)
  | recv (bufLen : Nat) (timeoutMs : Nat) (res : Except UsbErr Bytes)
  | sleep (ms : Nat)
  | ctl (req : CtlReq) (timeoutMs : Nat) (err : Option UsbErr)

/-! ### Handle state -/

/-- `ConnectionConfig` -/
structure Config where
  /-- `timeout_duration` in ms (only handed to the transport) -/
  timeoutMs : Nat
  /-- `retry_count : u16` -/
  retry : Nat
  /-- `maximum_cmd_length : u32` -/
  maxCmd : Nat
  /-- `maximum_ack_length : u32` -/
  maxAck : Nat
  deriving Repr, DecidableEq

/-- `transfer_timeout()`: the timeout handed to every transfer, never below 1 ms (a zero
timeout means "wait forever" to libusb). -/
def Config.xfer (c : Config) : Nat := max c.timeoutMs 1

/-- `ConnectionConfig::default()` -/
def Config.default : Config := ⟨500, 3, 128, 128⟩

structure Handle where
  /-- `next_req_id : u16` -/
  nextReqId : Nat
  cfg : Config
  /-- `buffer.len()` -/
  bufLen : Nat
  /-- `inner.is_opened` -/
  opened : Bool
  /-- cache `abrm : Option<Abrm>` (the raw DEVICE_CAPABILITY value) -/
  abrm : Option Nat
  deriving Repr, DecidableEq

/-- `ControlHandle::new` -/
def Handle.new : Handle := ⟨0, Config.default, 0, false, none⟩

/-- Handle + transport + interaction log (newest event first). -/
structure St (σ : Type) where
  h : Handle
  d : σ
  logRev : List Ev

/-- State after the call and its result. -/
abbrev Out (σ α : Type) := St σ × R α

def St.push {σ} (s : St σ) (e : Ev) : St σ := { s with logRev := e :: s.logRev }

/-! ### `send_cmd` (`control_handle.rs`, `fn send_cmd` / `fn verify_ack`) -/

/-- command kind → acknowledge kind (the `match cmd.ccd().scd_kind()` of `send_cmd`). -/
def ackKindOf : Cmd.Cmd → Ack.ScdKind
  | .readMem _ => .readMem
  | .writeMem _ => .writeMem
  | .readMemStacked _ => .readMemStacked
  | .writeMemStacked _ => .writeMemStacked

/-- `verify_ack`: status must be GenCP Success. -/
def verifyAck (ack : Ack.AckPacket) : R Unit :=
  if ack.ccd.status.kind ≠ .genCp .success then .err .io
  else .ok ()

/-- The `while retry_count > 0 { … }` loop together with the final re-parse.
`scdAs` is the typed SCD view `U::parse(raw_scd, ccd)`, `id` the request id of the command
(`cmd.request_id()`).  An acknowledge carrying another request id is discarded (it belongs to
an abandoned command) and costs one retry, like a pending acknowledge. -/
def recvLoop {σ α} (dev : Dev σ) (p : Profile) (scdAs : Ack.AckPacket → Ack.R α)
    (ackKind : Ack.ScdKind) (id : Nat) : Nat → St σ → Out σ α
  | 0, s => (s, .err .io)          -- "… exceeds the retry_count"
  | retry + 1, s =>
    let (d, res) := dev.recv s.d s.h.bufLen
    let s := ({ s with d := d } : St σ).push (.recv s.h.bufLen s.h.cfg.xfer res)
    match res with
    | .error e => (s, .err (.ofUsb e))
    | .ok bytes =>
      -- `&self.buffer[0..recv_len]`
      if s.h.bufLen < bytes.length then (s, .panic) else
      match Ack.AckPacket.parse p bytes with
      | .panic => (s, .panic)
      | .err e => (s, .err (.ofAck e))
      | .ok ack =>
        -- `if ack.request_id() != cmd.request_id() { retry_count -= 1; continue; }`
        if ack.ccd.requestId ≠ id then recvLoop dev p scdAs ackKind id retry s else
        match verifyAck ack with
        | .panic => (s, .panic)
        | .err e => (s, .err e)
        | .ok () =>
          if ack.ccd.scdKind = .pending then
            match Ack.Pending.parse ack.rawScd ack.ccd with
            | .panic => (s, .panic)
            | .err e => (s, .err (.ofAck e))
            | .ok ms => recvLoop dev p scdAs ackKind id retry (s.push (.sleep ms))
          else if ack.ccd.scdKind ≠ ackKind then (s, .err .io)
          else
            -- `AckPacket::parse(&self.buffer[0..recv_len]).unwrap().scd_as()?`
            match Ack.AckPacket.parse p bytes with
            | .ok ack2 =>
              match scdAs ack2 with
              | .ok a => (s, .ok a)
              | .err e => (s, .err (.ofAck e))
              | .panic => (s, .panic)
            | _ => (s, .panic)

/-- `send_cmd` -/
def sendCmd {σ α} (dev : Dev σ) (p : Profile) (scdAs : Ack.AckPacket → Ack.R α)
    (s : St σ) (c : Cmd.Cmd) : Out σ α :=
  let id := s.h.nextReqId
  let cmdLen := c.cmdLen
  -- `if cmd_len > self.config.maximum_cmd_length as usize { return Err(..) }`
  if cmdLen > s.h.cfg.maxCmd then (s, .err .io) else
  -- `self.next_req_id = self.next_req_id.wrapping_add(1)`: one id per command, whatever happens
  let ackLen := c.maximumAckLen
  -- `if self.buffer.len() < max(cmd_len, ack_len) { self.buffer.resize(max(cmd_len, ack_len), 0) }`
  let s : St σ := { s with h := { s.h with nextReqId := (s.h.nextReqId + 1) % 2 ^ 16,
                                           bufLen := max s.h.bufLen (max cmdLen ackLen) } }
  match c.serializeSink id s.h.bufLen with
  | .panic => (s, .panic)
  | .err e => (s, .err (.ofCmd e))
  | .ok out =>
    -- `&self.buffer[..cmd_len]` are the bytes just serialized when their number is `cmd_len`
    -- (always so for the commands `read`/`write` build: theorem); otherwise: artefact branch.
    if out.length ≠ cmdLen then (s, .panic) else
    let (d, r) := dev.send s.d out
    let s := ({ s with d := d } : St σ).push (.send out s.h.cfg.xfer r)
    match r with
    | some e => (s, .err (.ofUsb e))
    | none => recvLoop dev p scdAs (ackKindOf c) id s.h.cfg.retry s

/-! ### `read` / `write` -/

/-- `verify_address_range`: `[address, address+len)` must fit the 64-bit address space. -/
def verifyAddressRange (address len : Nat) : R Unit :=
  if len = 0 then .ok ()
  else if address + (len - 1) < 2 ^ 64 then .ok ()
  else .err .invalidData

/-- body of `for buf_chunk in buf.chunks_mut(m)`; `accRev` = bytes stored so far, reversed. -/
def readLoop {σ} (dev : Dev σ) (p : Profile) (m : Nat) (address : Nat) :
    (fuel offset rem : Nat) → St σ → (accRev : Bytes) → Out σ Bytes
  | 0, _, _, s, _ => (s, .panic)     -- fuel artefact (fuel = rem + 1 is never exhausted)
  | fuel + 1, offset, rem, s, accRev =>
    if rem = 0 then (s, .ok accRev.reverse) else
    let len := min m rem
    -- `buf_chunk.len().try_into::<u16>().unwrap()`
    if len > U16_MAX then (s, .panic) else
    -- `address + offset`
    match (addW p 64 address offset : R Nat) with
    | .panic => (s, .panic)
    | .err e => (s, .err e)
    | .ok a =>
      match sendCmd dev p (fun ack => Ack.ReadMem.parse ack.rawScd ack.ccd) s (.readMem ⟨a, len⟩) with
      | (s, .panic) => (s, .panic)
      | (s, .err e) => (s, .err e)
      | (s, .ok data) =>
        if data.length ≠ len then (s, .err .io) else
        -- `buf_chunk.copy_from_slice(ack.data); offset += u64::from(read_len)`
        match (addW p 64 offset len : R Nat) with
        | .panic => (s, .panic)
        | .err e => (s, .err e)
        | .ok offset' => readLoop dev p m address fuel offset' (rem - len) s (data.reverse ++ accRev)

/-- `DeviceControl::read(address, buf)` with `buf.len() = n`; `ok` carries the final
content of `buf`. -/
def read {σ} (dev : Dev σ) (p : Profile) (s : St σ) (address n : Nat) : Out σ Bytes :=
  if !s.h.opened then (s, .err .notOpened) else
  match verifyAddressRange address n with
  | .panic => (s, .panic)
  | .err e => (s, .err e)
  | .ok () =>
    let maxAck := s.h.cfg.maxAck
    -- `cmd::ReadMem::new(address, 0).chunks(maximum_ack_length)?`
    match (Cmd.ReadMem.mk address 0).chunks maxAck with
    | .panic => (s, .panic)
    | .err e => (s, .err (.ofCmd e))
    | .ok _ =>
      match Cmd.maximumReadLength p maxAck with
      | .panic => (s, .panic)
      | .err e => (s, .err (.ofCmd e))
      | .ok m =>
        -- `buf.chunks_mut(0)` panics
        if m = 0 then (s, .panic) else
        readLoop dev p m address (n + 1) 0 n s []

/-- `MAXIMUM_WRITE_MEM_DATA_LENGTH` -/
def MAX_WRITE_BLOCK : Nat := U16_MAX - 8

/-- body of `for chunk in cmd.chunks(maximum_cmd_length)?`: the iterator is stepped lazily. -/
def writeChunkLoop {σ} (dev : Dev σ) (p : Profile) :
    (fuel : Nat) → Cmd.WriteMemChunks → St σ → Out σ Unit
  | 0, _, s => (s, .panic)       -- fuel artefact (fuel = block length + 1 is never exhausted)
  | fuel + 1, it, s =>
    match it.next p with
    | .panic => (s, .panic)
    | .err e => (s, .err (.ofCmd e))
    | .ok (none, _) => (s, .ok ())
    | .ok (some c, it') =>
      let chunkDataLen := c.data.length
      match sendCmd dev p (fun ack => Ack.WriteMem.parse ack.rawScd ack.ccd) s (.writeMem c) with
      | (s, .panic) => (s, .panic)
      | (s, .err e) => (s, .err e)
      | (s, .ok len) =>
        if len ≠ chunkDataLen then (s, .err .io) else writeChunkLoop dev p fuel it' s

/-- body of `for block in data.chunks(MAXIMUM_WRITE_MEM_DATA_LENGTH)`. -/
def writeBlockLoop {σ} (dev : Dev σ) (p : Profile) (address maxCmd : Nat) :
    (fuel offset : Nat) → (rest : Bytes) → St σ → Out σ Unit
  | 0, _, _, s => (s, .panic)    -- fuel artefact (fuel = data length + 1 is never exhausted)
  | fuel + 1, offset, rest, s =>
    if rest = [] then (s, .ok ()) else
    let block := rest.take MAX_WRITE_BLOCK
    match (addW p 64 address offset : R Nat) with
    | .panic => (s, .panic)
    | .err e => (s, .err e)
    | .ok a =>
      match Cmd.WriteMem.new a block with
      | .panic => (s, .panic)
      | .err e => (s, .err (.ofCmd e))
      | .ok w =>
        match w.chunks maxCmd with
        | .panic => (s, .panic)
        | .err e => (s, .err (.ofCmd e))
        | .ok it =>
          match writeChunkLoop dev p (block.length + 1) it s with
          | (s, .panic) => (s, .panic)
          | (s, .err e) => (s, .err e)
          | (s, .ok ()) =>
            match (addW p 64 offset block.length : R Nat) with
            | .panic => (s, .panic)
            | .err e => (s, .err e)
            | .ok offset' =>
              writeBlockLoop dev p address maxCmd fuel offset' (rest.drop MAX_WRITE_BLOCK) s

/-- `DeviceControl::write(address, data)` -/
def write {σ} (dev : Dev σ) (p : Profile) (s : St σ) (address : Nat) (data : Bytes) : Out σ Unit :=
  if !s.h.opened then (s, .err .notOpened) else
  match verifyAddressRange address data.length with
  | .panic => (s, .panic)
  | .err e => (s, .err e)
  | .ok () => writeBlockLoop dev p address s.h.cfg.maxCmd (data.length + 1) 0 data s

/-! ### Bootstrap registers, `initialize_config`, `open`, `close` -/

def ABRM_DEVICE_CAPABILITY : Nat × Nat := (0x01C4, 8)
def ABRM_MAXIMUM_DEVICE_RESPONSE_TIME : Nat × Nat := (0x01CC, 4)
def ABRM_SBRM_ADDRESS : Nat × Nat := (0x01D8, 8)
def SBRM_U3VCP_CAPABILITY_REGISTER : Nat × Nat := (0x0004, 8)
def SBRM_MAXIMUM_COMMAND_TRANSFER_LENGTH : Nat × Nat := (0x0014, 4)
def SBRM_MAXIMUM_ACKNOWLEDGE_TRANSFER_LENGTH : Nat × Nat := (0x0018, 4)

/-- `read_register::<uN>`: `device.read(addr, &mut buf[..len])?` then
`from_le_bytes(bytes.try_into().unwrap())`. -/
def readReg {σ} (dev : Dev σ) (p : Profile) (s : St σ) (addr len : Nat) : Out σ Nat :=
  match read dev p s addr len with
  | (s, .panic) => (s, .panic)
  | (s, .err e) => (s, .err e)
  | (s, .ok bs) => if bs.length ≠ len then (s, .panic) else (s, .ok (fromLE bs))

/-- `register_address`: `base.checked_add(offset)` or `InvalidDevice`. -/
def registerAddress (base offset : Nat) : R Nat :=
  if base + offset < 2 ^ 64 then .ok (base + offset) else .err .invalidDevice

/-- `ControlHandle::abrm()` (cached `Abrm::new`). -/
def abrm {σ} (dev : Dev σ) (p : Profile) (s : St σ) : Out σ Nat :=
  match s.h.abrm with
  | some v => (s, .ok v)
  | none =>
    match readReg dev p s ABRM_DEVICE_CAPABILITY.1 ABRM_DEVICE_CAPABILITY.2 with
    | (s, .panic) => (s, .panic)
    | (s, .err e) => (s, .err e)
    | (s, .ok v) => ({ s with h := { s.h with abrm := some v } }, .ok v)

/-- `Sbrm::read_register`: `register_address(sbrm_addr, offset)?` then `read_register`. -/
def readSbrmReg {σ} (dev : Dev σ) (p : Profile) (s : St σ) (sbrm : Nat) (reg : Nat × Nat) :
    Out σ Nat :=
  match registerAddress sbrm reg.1 with
  | .panic => (s, .panic)
  | .err e => (s, .err e)
  | .ok a => readReg dev p s a reg.2

/-- `initialize_config` -/
def initializeConfig {σ} (dev : Dev σ) (p : Profile) (s : St σ) : Out σ Unit :=
  match abrm dev p s with
  | (s, .panic) => (s, .panic)
  | (s, .err e) => (s, .err e)
  | (s, .ok _) =>
    -- `abrm.sbrm(self)`: `sbrm_address`, then `Sbrm::new` reads the U3VCP capability
    match readReg dev p s ABRM_SBRM_ADDRESS.1 ABRM_SBRM_ADDRESS.2 with
    | (s, .panic) => (s, .panic)
    | (s, .err e) => (s, .err e)
    | (s, .ok sbrm) =>
      match readSbrmReg dev p s sbrm SBRM_U3VCP_CAPABILITY_REGISTER with
      | (s, .panic) => (s, .panic)
      | (s, .err e) => (s, .err e)
      | (s, .ok _) =>
        match readReg dev p s ABRM_MAXIMUM_DEVICE_RESPONSE_TIME.1
            ABRM_MAXIMUM_DEVICE_RESPONSE_TIME.2 with
        | (s, .panic) => (s, .panic)
        | (s, .err e) => (s, .err e)
        | (s, .ok timeout) =>
          match readSbrmReg dev p s sbrm SBRM_MAXIMUM_COMMAND_TRANSFER_LENGTH with
          | (s, .panic) => (s, .panic)
          | (s, .err e) => (s, .err e)
          | (s, .ok maxCmd) =>
            match readSbrmReg dev p s sbrm SBRM_MAXIMUM_ACKNOWLEDGE_TRANSFER_LENGTH with
            | (s, .panic) => (s, .panic)
            | (s, .err e) => (s, .err e)
            | (s, .ok maxAck) =>
              ({ s with h := { s.h with cfg := { s.h.cfg with
                  timeoutMs := timeout, maxCmd := maxCmd, maxAck := maxAck } } }, .ok ())

/-- only SET_FEATURE(ENDPOINT_HALT) (`set_halt`) takes a timeout -/
def ctlTimeout (cfg : Config) : CtlReq → Nat
  | .setHaltIn => cfg.xfer
  | .setHaltOut => cfg.xfer
  | _ => 0

def ctlReq {σ} (dev : Dev σ) (s : St σ) (r : CtlReq) : Out σ Unit :=
  let (d, e) := dev.ctl s.d r
  let s := ({ s with d := d } : St σ).push (.ctl r (ctlTimeout s.h.cfg r) e)
  match e with
  | some e => (s, .err (.ofUsb e))
  | none => (s, .ok ())

/-- `initialize_channel`: `set_halt` (IN, OUT), `clear_halt` (IN, OUT), `initialize_config`. -/
def initializeChannel {σ} (dev : Dev σ) (p : Profile) (s : St σ) : Out σ Unit :=
  match ctlReq dev s .setHaltIn with
  | (s, .panic) => (s, .panic)
  | (s, .err e) => (s, .err e)
  | (s, .ok ()) =>
    match ctlReq dev s .setHaltOut with
    | (s, .panic) => (s, .panic)
    | (s, .err e) => (s, .err e)
    | (s, .ok ()) =>
      match ctlReq dev s .clearHaltIn with
      | (s, .panic) => (s, .panic)
      | (s, .err e) => (s, .err e)
      | (s, .ok ()) =>
        match ctlReq dev s .clearHaltOut with
        | (s, .panic) => (s, .panic)
        | (s, .err e) => (s, .err e)
        | (s, .ok ()) =>
          -- back to `INITIAL_MAXIMUM_CMD_LENGTH` / `INITIAL_MAXIMUM_ACK_LENGTH`
          initializeConfig dev p { s with h := { s.h with cfg := { s.h.cfg with
            maxCmd := Config.default.maxCmd, maxAck := Config.default.maxAck } } }

/-- `DeviceControl::open` -/
def «open» {σ} (dev : Dev σ) (p : Profile) (s : St σ) : Out σ Unit :=
  if s.h.opened then (s, .ok ()) else
  -- `inner.open()`: claim the interface, then `is_opened = true`
  match ctlReq dev s .claim with
  | (s, .panic) => (s, .panic)
  | (s, .err e) => (s, .err e)
  | (s, .ok ()) =>
    let s := { s with h := { s.h with opened := true } }
    match initializeChannel dev p s with
    | (s, .panic) => (s, .panic)
    | (s, .ok ()) => (s, .ok ())
    | (s, .err e) =>
      -- `inner.close()`: release the interface, `is_opened = false` only when that succeeds;
      -- its error is logged and dropped, the initialization error is returned
      match ctlReq dev s .release with
      | (s, .panic) => (s, .panic)
      | (s, .err _) => (s, .err e)
      | (s, .ok ()) => ({ s with h := { s.h with opened := false } }, .err e)

/-- `DeviceControl::close` -/
def close {σ} (dev : Dev σ) (s : St σ) : Out σ Unit :=
  if !s.h.opened then (s, .ok ()) else
  match ctlReq dev s .release with
  | (s, .panic) => (s, .panic)
  | (s, .err e) => (s, .err e)
  | (s, .ok ()) => ({ s with h := { s.h with opened := false } }, .ok ())

end CamVerif.Control
