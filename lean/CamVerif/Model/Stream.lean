/-
Hand-written executable model of
  * `device/src/u3v/protocol/stream.rs`   (Leader / Trailer parsers, the six specific parts,
                                           PayloadType / PayloadStatus code tables),
  * `cameleon/src/u3v/stream_handle.rs`   (`PayloadBuilder::build` and its three per-type
                                           builders incl. the backwards chunk walk; the
                                           `verif_build_payload` hook that parses + builds),
  * `cameleon/src/payload.rs`             (`Payload::{image, payload, into_vec}` slicing).
The pixel-format tables are NOT hand-written: `CamVerif.Gen.PixelFormat` is regenerated
from `device/src/pixel_format.rs` on every check run.

Tied to the source by the correspondence harness `harness/src/bin/c11.rs`.

Machine integers are `Nat` carriers.  Every field read from a packet is the unsigned
little-endian value of exactly `size_of::<uN>()` bytes, hence `< 2^(8N)` by construction.
`usize` is 64 bit, so `u32 as usize`, `u64 as usize` and `usize as u64` are identities.
-/
import CamVerif.Prelude.Basic
import CamVerif.Gen.PixelFormat
namespace CamVerif.Stream
open CamVerif.Gen.PixelFormat (PixelFormat)

/-- `cameleon_device::u3v::Error` variants reachable from the stream parsers. -/
inductive Err where
  | invalidPacket
  | bufferIo
  deriving Repr, DecidableEq, Inhabited

abbrev R := Res Err

/-! ### Readers -/

/-- `std::io::Cursor<&[u8]>`. -/
structure Cursor where
  buf : Bytes
  pos : Nat

/-- `cursor.read_bytes_le::<uN>()` with `n = size_of::<uN>()`: `read_exact` on the remaining
slice `buf[min(pos, len)..]`; a short input is `UnexpectedEof`, i.e. `Error::BufferIo`. -/
def Cursor.readLE (n : Nat) (c : Cursor) : R (Nat × Cursor) :=
  let start := min c.pos c.buf.length
  if n ≤ c.buf.length - start then
    .ok (fromLE ((c.buf.drop start).take n), { c with pos := c.pos + n })
  else .err .bufferIo

/-- `&cursor.get_ref()[cursor.position() as usize..]`: a slice index, panics out of range. -/
def Cursor.rest (c : Cursor) : R Bytes :=
  if c.pos ≤ c.buf.length then .ok (c.buf.drop c.pos) else .panic

/-- `(&mut &[u8]).read_bytes_le::<uN>()` (`impl Read for &[u8]`). -/
def sliceReadLE (n : Nat) (s : Bytes) : R (Nat × Bytes) :=
  if n ≤ s.length then .ok (fromLE (s.take n), s.drop n) else .err .bufferIo

/-! ### Code tables of `stream.rs` -/

inductive PayloadType where
  | image
  | imageExtendedChunk
  | chunk
  deriving Repr, DecidableEq, Inhabited

/-- `impl TryFrom<u16> for PayloadType` -/
def PayloadType.tryFrom (v : Nat) : R PayloadType :=
  if v = 0x0001 then .ok .image
  else if v = 0x4001 then .ok .imageExtendedChunk
  else if v = 0x4000 then .ok .chunk
  else .err .invalidPacket

inductive PayloadStatus where
  | success
  | dataDiscarded
  | dataOverrun
  deriving Repr, DecidableEq, Inhabited

/-- `impl TryFrom<u16> for PayloadStatus` -/
def PayloadStatus.tryFrom (v : Nat) : R PayloadStatus :=
  if v = 0x0000 then .ok .success
  else if v = 0xA100 then .ok .dataDiscarded
  else if v = 0xA101 then .ok .dataOverrun
  else .err .invalidPacket

/-- `u32 -> PixelFormat` via `try_into().map_err(|e: String| Error::InvalidPacket(..))`. -/
def pixelFormatTryFrom (code : Nat) : R PixelFormat :=
  match CamVerif.Gen.PixelFormat.decode code with
  | some f => .ok f
  | none => .err .invalidPacket

/-! ### Leader -/

structure Leader where
  leaderSize : Nat
  blockId : Nat
  payloadType : PayloadType
  /-- `raw_specfic_leader` -/
  raw : Bytes
  deriving DecidableEq

/-- `Leader::LEADER_MAGIC` -/
def LEADER_MAGIC : Nat := 0x4C563355
/-- `Trailer::TRAILER_MAGIC` -/
def TRAILER_MAGIC : Nat := 0x54563355

/-- `Leader::parse_prefix` / `Trailer::parse_prefix` -/
def parsePrefix (magicConst : Nat) (c : Cursor) : R Cursor := do
  let (magic, c) ← c.readLE 4
  if magic = magicConst then pure c else .err .invalidPacket

/-- `Leader::parse` -/
def Leader.parse (buf : Bytes) : R Leader := do
  let c : Cursor := ⟨buf, 0⟩
  let c ← parsePrefix LEADER_MAGIC c
  let (_reserved1, c) ← c.readLE 2
  let (leaderSize, c) ← c.readLE 2
  let (blockId, c) ← c.readLE 8
  let (_reserved2, c) ← c.readLE 2
  let (pt, c) ← c.readLE 2
  let payloadType ← PayloadType.tryFrom pt
  let raw ← c.rest
  pure ⟨leaderSize, blockId, payloadType, raw⟩

/-- `ImageLeader` and `ImageExtendedChunkLeader` (same fields). -/
structure ImageLeader where
  timestamp : Nat
  pixelFormat : PixelFormat
  width : Nat
  height : Nat
  xOffset : Nat
  yOffset : Nat
  xPadding : Nat
  deriving DecidableEq

/-- `<ImageLeader as SpecificLeader>::from_bytes` -/
def ImageLeader.fromBytes (buf : Bytes) : R ImageLeader := do
  let c : Cursor := ⟨buf, 0⟩
  let (timestamp, c) ← c.readLE 8
  let (pf, c) ← c.readLE 4
  let pixelFormat ← pixelFormatTryFrom pf
  let (width, c) ← c.readLE 4
  let (height, c) ← c.readLE 4
  let (xOffset, c) ← c.readLE 4
  let (yOffset, c) ← c.readLE 4
  let (xPadding, c) ← c.readLE 2
  let (_reserved, _) ← c.readLE 2
  pure ⟨timestamp, pixelFormat, width, height, xOffset, yOffset, xPadding⟩

/-- `<ImageExtendedChunkLeader as SpecificLeader>::from_bytes` (a separate copy in the source). -/
def ImageExtendedChunkLeader.fromBytes (buf : Bytes) : R ImageLeader := do
  let c : Cursor := ⟨buf, 0⟩
  let (timestamp, c) ← c.readLE 8
  let (pf, c) ← c.readLE 4
  let pixelFormat ← pixelFormatTryFrom pf
  let (width, c) ← c.readLE 4
  let (height, c) ← c.readLE 4
  let (xOffset, c) ← c.readLE 4
  let (yOffset, c) ← c.readLE 4
  let (xPadding, c) ← c.readLE 2
  let (_reserved, _) ← c.readLE 2
  pure ⟨timestamp, pixelFormat, width, height, xOffset, yOffset, xPadding⟩

structure ChunkLeader where
  timestamp : Nat
  deriving DecidableEq

/-- `<ChunkLeader as SpecificLeader>::from_bytes` -/
def ChunkLeader.fromBytes (buf : Bytes) : R ChunkLeader := do
  let c : Cursor := ⟨buf, 0⟩
  let (timestamp, _) ← c.readLE 8
  pure ⟨timestamp⟩

/-! ### Trailer -/

structure Trailer where
  trailerSize : Nat
  blockId : Nat
  payloadStatus : PayloadStatus
  validPayloadSize : Nat
  /-- `raw_specfic_trailer` -/
  raw : Bytes
  deriving DecidableEq

/-- `Trailer::parse` -/
def Trailer.parse (buf : Bytes) : R Trailer := do
  let c : Cursor := ⟨buf, 0⟩
  let c ← parsePrefix TRAILER_MAGIC c
  let (_reserved1, c) ← c.readLE 2
  let (trailerSize, c) ← c.readLE 2
  let (blockId, c) ← c.readLE 8
  let (st, c) ← c.readLE 2
  let payloadStatus ← PayloadStatus.tryFrom st
  let (_reserved2, c) ← c.readLE 2
  let (validPayloadSize, c) ← c.readLE 8
  let raw ← c.rest
  pure ⟨trailerSize, blockId, payloadStatus, validPayloadSize, raw⟩

structure ImageTrailer where
  actualHeight : Nat
  deriving DecidableEq

/-- `<ImageTrailer as SpecificTrailer>::from_bytes` -/
def ImageTrailer.fromBytes (buf : Bytes) : R ImageTrailer := do
  let (actualHeight, _) ← sliceReadLE 4 buf
  pure ⟨actualHeight⟩

structure ImageExtendedChunkTrailer where
  actualHeight : Nat
  chunkLayoutId : Nat
  deriving DecidableEq

/-- `<ImageExtendedChunkTrailer as SpecificTrailer>::from_bytes` -/
def ImageExtendedChunkTrailer.fromBytes (buf : Bytes) : R ImageExtendedChunkTrailer := do
  let (actualHeight, buf) ← sliceReadLE 4 buf
  let (chunkLayoutId, _) ← sliceReadLE 4 buf
  pure ⟨actualHeight, chunkLayoutId⟩

structure ChunkTrailer where
  chunkLayoutId : Nat
  deriving DecidableEq

/-- `<ChunkTrailer as SpecificTrailer>::from_bytes` -/
def ChunkTrailer.fromBytes (buf : Bytes) : R ChunkTrailer := do
  let (chunkLayoutId, _) ← sliceReadLE 4 buf
  pure ⟨chunkLayoutId⟩

/-! ### Payload (`cameleon/src/payload.rs`) -/

structure ImageInfo where
  width : Nat
  height : Nat
  xOffset : Nat
  yOffset : Nat
  pixelFormat : PixelFormat
  imageSize : Nat
  deriving DecidableEq

structure Payload where
  id : Nat
  payloadType : PayloadType
  imageInfo : Option ImageInfo
  /-- the whole receive buffer (`Vec<u8>`), not only the valid part -/
  payload : Bytes
  validPayloadSize : Nat
  /-- `time::Duration::from_nanos(timestamp)`, kept in nanoseconds -/
  timestampNs : Nat
  deriving DecidableEq

/-- `&v[..n]`: panics when `n > v.len()`. -/
def sliceTo {ε : Type} (v : Bytes) (n : Nat) : Res ε Bytes :=
  if n ≤ v.length then .ok (v.take n) else .panic

/-- `Payload::image` -/
def Payload.image {ε : Type} (p : Payload) : Res ε (Option Bytes) :=
  match p.imageInfo with
  | none => .ok none
  | some info =>
    match (sliceTo p.payload info.imageSize : Res ε Bytes) with
    | .ok s => .ok (some s)
    | .err e => .err e
    | .panic => .panic

/-- `Payload::payload` -/
def Payload.payloadView {ε : Type} (p : Payload) : Res ε Bytes :=
  sliceTo p.payload p.validPayloadSize

/-- `Payload::into_vec`: `Vec::resize(valid_payload_size, 0)` truncates or zero-extends.
(Growth beyond the allocator's limits aborts/panics in Rust; that branch is unreachable for
built payloads — `views_in_bounds` — and is modelled as plain zero extension.) -/
def Payload.intoVec (p : Payload) : Bytes :=
  if p.validPayloadSize ≤ p.payload.length then p.payload.take p.validPayloadSize
  else p.payload ++ List.replicate (p.validPayloadSize - p.payload.length) 0

/-! ### `PayloadBuilder` (`cameleon/src/u3v/stream_handle.rs`) -/

/-- `StreamError` variants reachable from the builder. -/
inductive SErr where
  | invalidPayload
  deriving Repr, DecidableEq, Inhabited

abbrev SR := Res SErr

/-- `.map_err(|e| StreamError::InvalidPayload(..))` -/
def mapErr {α : Type} : R α → SR α
  | .ok a => .ok a
  | .err _ => .err .invalidPayload
  | .panic => .panic

abbrev CHUNK_ID_LEN : Nat := 4
abbrev CHUNK_SIZE_LEN : Nat := 4

/-- The `loop` of `build_image_extended_payload`, one iteration per unit of fuel.
`none` means the fuel ran out (never when `off < fuel`: theorem `walk_terminates`);
`some r` is the loop's outcome: `ok image_size`, `err` (one of the two `ok_or_else`
exits) or `panic` (slice index / `try_into().unwrap()` / checked arithmetic). -/
def chunkWalk (p : Profile) (buf : Bytes) : Nat → Nat → Option (SR Nat)
  | 0, _ => none
  | fuel + 1, off =>
    -- current_offset.checked_sub(CHUNK_SIZE_LEN).ok_or_else(..)?
    if off < CHUNK_SIZE_LEN then some (.err .invalidPayload) else
    let off1 := off - CHUNK_SIZE_LEN
    -- self.payload_buf[current_offset..current_offset + CHUNK_SIZE_LEN]
    match (addW p 64 off1 CHUNK_SIZE_LEN : SR Nat) with
    | .panic => some .panic
    | .err e => some (.err e)
    | .ok hi =>
      if ¬ (off1 ≤ hi ∧ hi ≤ buf.length) then some .panic else
      let field := (buf.drop off1).take (hi - off1)
      -- .try_into::<[u8; 4]>().unwrap()
      if field.length ≠ 4 then some .panic else
      -- u32::from_be_bytes(..) as usize
      let dataSize := fromBE field
      -- data_size + CHUNK_ID_LEN  (usize arithmetic)
      match (addW p 64 dataSize CHUNK_ID_LEN : SR Nat) with
      | .panic => some .panic
      | .err e => some (.err e)
      | .ok need =>
        -- current_offset.checked_sub(..).ok_or_else(..)?
        if off1 < need then some (.err .invalidPayload) else
        let off2 := off1 - need
        if off2 = 0 then some (.ok dataSize) else chunkWalk p buf fuel off2

/-- The loop with enough fuel for any run (`off < off + 1`); running out of fuel would be
a modelling error and shows up as `panic`, which `walk_terminates` rules out. -/
def chunkWalkRun (p : Profile) (buf : Bytes) (off : Nat) : SR Nat :=
  match chunkWalk p buf (off + 1) off with
  | some r => r
  | none => .panic

/-- `PayloadBuilder::build_image_payload` -/
def buildImage (l : Leader) (t : Trailer) (buf : Bytes) : SR Payload := do
  let leader ← mapErr (ImageLeader.fromBytes l.raw)
  let trailer ← mapErr (ImageTrailer.fromBytes t.raw)
  let valid := t.validPayloadSize          -- `as usize`
  let info : ImageInfo :=
    ⟨leader.width, trailer.actualHeight, leader.xOffset, leader.yOffset, leader.pixelFormat, valid⟩
  pure ⟨l.blockId, .image, some info, buf, valid, leader.timestamp⟩

/-- `PayloadBuilder::build_image_extended_payload` -/
def buildImageExtended (p : Profile) (l : Leader) (t : Trailer) (buf : Bytes) : SR Payload := do
  let leader ← mapErr (ImageExtendedChunkLeader.fromBytes l.raw)
  let trailer ← mapErr (ImageExtendedChunkTrailer.fromBytes t.raw)
  let valid := t.validPayloadSize          -- `as usize`
  let imageSize ← chunkWalkRun p buf valid
  let info : ImageInfo :=
    ⟨leader.width, trailer.actualHeight, leader.xOffset, leader.yOffset, leader.pixelFormat, imageSize⟩
  pure ⟨l.blockId, .imageExtendedChunk, some info, buf, valid, leader.timestamp⟩

/-- `PayloadBuilder::build_chunk_payload` -/
def buildChunk (l : Leader) (t : Trailer) (buf : Bytes) : SR Payload := do
  let leader ← mapErr (ChunkLeader.fromBytes l.raw)
  let _ ← mapErr (ChunkTrailer.fromBytes t.raw)
  let valid := t.validPayloadSize          -- `as usize`
  pure ⟨l.blockId, .chunk, none, buf, valid, leader.timestamp⟩

/-- `PayloadBuilder::build` with `payload_buf = buf`, `read_payload_size = read`. -/
def build (p : Profile) (l : Leader) (t : Trailer) (buf : Bytes) (read : Nat) : SR Payload :=
  if t.payloadStatus ≠ .success then .err .invalidPayload
  else if t.validPayloadSize > read then .err .invalidPayload    -- `read as u64`
  else match l.payloadType with
    | .image => buildImage l t buf
    | .imageExtendedChunk => buildImageExtended p l t buf
    | .chunk => buildChunk l t buf

/-- The hook `verif_build_payload`: parse both packets as `StreamingLoop::run` does
(errors become `InvalidPayload`), then build. -/
def verifBuildPayload (p : Profile) (leader trailer buf : Bytes) (read : Nat) : SR Payload := do
  let l ← mapErr (Leader.parse leader)
  let t ← mapErr (Trailer.parse trailer)
  build p l t buf read

end CamVerif.Stream
