/-
C19 — several calling threads on top of the single-call model `CamVerif.Model.GenTL.step`.

In gentl/src/ffi/mod.rs the last error lives in `thread_local! { static LAST_ERROR }`; everything
else the entry points touch (IS_LIB_INITIALIZED, the modules behind their mutexes, the register
memories) is process-global.  A state of the multi-thread model is therefore the global part plus
ONE stored error per thread id; a call made by thread `t` is the single-thread `step` on the
global part with `t`'s own stored error plugged in, and afterwards only `t`'s slot is replaced.

Calls are atomic: the calls of different threads do not overlap in time (the probe's second
thread answers each call before the next one is made).  Executable; used by the driver for every
sequence (`t2:` ops run on thread 1, all others on thread 0).
-/
import CamVerif.Model.GenTL
namespace CamVerif.GenTL

structure MState where
  /-- the process-global part; its `lastErr` field is not used (kept `none`) -/
  glob : State
  /-- thread-local `LAST_ERROR`, per thread id -/
  errs : Nat → Option Err

def MState.init (env : Env) : MState := ⟨State.init env, fun _ => none⟩

/-- the single-thread state thread `t` sees -/
def MState.view (ms : MState) (t : Nat) : State := { ms.glob with lastErr := ms.errs t }

/-- put the state a call of thread `t` left back: global part, and `t`'s stored error -/
def MState.absorb (ms : MState) (t : Nat) (s' : State) : MState :=
  ⟨{ s' with lastErr := none }, fun u => if u = t then s'.lastErr else ms.errs u⟩

inductive MStepRes where
  | done (ms : MState) (r : Result)
  | abort

/-- what a call returned (`none`: the process aborted) -/
def StepRes.result : StepRes → Option Result
  | .done _ r => some r
  | .abort => none

def MStepRes.result : MStepRes → Option Result
  | .done _ r => some r
  | .abort => none

/-- One C call made by thread `t`. -/
def stepT (env : Env) (ms : MState) (t : Nat) (c : Call) : MStepRes :=
  match step env (ms.view t) c with
  | .done s' r => .done (ms.absorb t s') r
  | .abort => .abort

/-- An interleaved history `(thread, call)`; stops at an abort (of the whole process). -/
def runT (env : Env) : MState → List (Nat × Call) → List Result × Option MState
  | ms, [] => ([], some ms)
  | ms, (t, c) :: cs =>
    match stepT env ms t c with
    | .done ms' r => let (rs, f) := runT env ms' cs; (r :: rs, f)
    | .abort => ([], none)

end CamVerif.GenTL
